---------------------------- MODULE Trace_Layers ----------------------------
(***************************************************************************)
(* Trace validation for C12, family L (SyltLayers).  One record per        *)
(* configuration, recorded by the harness (c12 runl) from the real         *)
(* compiler and minilua:                                                   *)
(*   n, w         the configuration's address; the configuration is        *)
(*                re-derived HERE (DeriveL) - the record only echoes the   *)
(*                import lines it wrote, which must equal the derived ones *)
(*   class        "ok" | "err" | "panic": compile result                   *)
(*   errkind      "syntax" | "compile" | ...                               *)
(*   prints, status   what the emitted Lua did (when class = "ok")         *)
(*   reads        <<[path, n]>>: how often the reader was asked for a path *)
(* UNIVERSE = "cross": the records are exactly UniverseIdsL(NV, SEED),     *)
(* each once (asserted: a tool error otherwise); "part": some of them.     *)
(* The records are sorted by (n % NBaseL, w, n) (asserted), so that the    *)
(* configurations that differ only in the order of the main file's import  *)
(* statements are neighbours: GrpClasses(k) = their compile results.       *)
(* WhysL(d, obs, grp) lists what contradicts the specification: a          *)
(* configuration rejected although no name is handed on through `from`, an *)
(* accepted one behaving differently (module order of the printing         *)
(* initialisers, which start() ran, which global a name meant), a verdict  *)
(* that depends on the order of the main file's imports, files read twice  *)
(* / not at all / without being imported.  One REJECT line per record.     *)
(***************************************************************************)
EXTENDS SyltLayers, Json, IOUtils

MCTreeL == <<"main.sy", "report.sy", "engine.sy", "shapes/exports.sy", "shapes/_circle.sy", "kit/exports.sy">>
MCNoProgs == {}

VARIABLES k, d, st
tvars == <<k, d, st>>

Rec == ndJsonDeserialize(IOEnv.TRACE)
N == Len(Rec)
Universe == IOEnv.UNIVERSE
NV == IF "NV" \in DOMAIN IOEnv THEN atoi(IOEnv.NV) ELSE 2
Seed == IF "SEED" \in DOMAIN IOEnv THEN atoi(IOEnv.SEED) ELSE 1

RecIds == {<<Rec[j].n, Rec[j].w>> : j \in 1..N}
ASSUME Universe = "cross" =>
    /\ Assert(Cardinality(RecIds) = N, <<"duplicate records", N, Cardinality(RecIds)>>)
    /\ Assert(RecIds = UniverseIdsL(NV, Seed), <<"the trace does not cover the universe", N, Cardinality(UniverseIdsL(NV, Seed))>>)

SameGrp(i, j) == Rec[i].n % NBaseL = Rec[j].n % NBaseL /\ Rec[i].w = Rec[j].w
KeyLt(i, j) == LET a == Rec[i].n % NBaseL
                   b == Rec[j].n % NBaseL IN
               a < b \/ (a = b /\ (Rec[i].w < Rec[j].w \/ (Rec[i].w = Rec[j].w /\ Rec[i].n < Rec[j].n)))
ASSUME Assert(\A j \in 1..(N - 1) : KeyLt(j, j + 1), "the records are not sorted by (n % NBaseL, w, n)")
RECURSIVE GrpLo(_)
RECURSIVE GrpHi(_)
GrpLo(j) == IF j > 1 /\ SameGrp(j - 1, j) THEN GrpLo(j - 1) ELSE j
GrpHi(j) == IF j < N /\ SameGrp(j + 1, j) THEN GrpHi(j + 1) ELSE j
GrpClasses(j) == {Rec[i].class : i \in GrpLo(j)..GrpHi(j)}

WellFormed(j, c) ==
    LET r == Rec[j] IN
    /\ Assert(r.lines = [q \in DOMAIN c.files |-> c.files[q].lines], <<"import lines differ from the derived configuration", j>>)
    /\ Assert(r.class \in {"ok", "err", "panic"}, <<"malformed observation", j>>)
    \* a configuration must be rejected because a name cannot be found, never because its text is not Sylt
    /\ Assert(r.errkind # "syntax", <<"a configuration is syntactically wrong (generator defect)", j>>)

TraceInit ==
    /\ k \in 1..N
    /\ Assert(ApplicableL(Rec[k].n) /\ Rec[k].w \in 0..(NVariantsL - 1), <<"record outside the universe", k>>)
    /\ d = DeriveL(Rec[k].n, Rec[k].w)
    /\ WellFormed(k, d)
    /\ st = "run"

TraceJudge ==
    /\ st = "run"
    /\ LET y == WhysL(d, Rec[k], GrpClasses(k)) IN
       IF y = {} THEN st' = "ok"
       ELSE st' = "fail" /\ PrintT(<<"REJECT", ToJson([rec |-> k, whys |-> y])>>)
    /\ UNCHANGED <<k, d>>

TraceNext == TraceJudge
TraceSpec == TraceInit /\ [][TraceNext]_tvars

TraceInv ==
    \* (in a "cross" run MC_Layers has just checked ConfigOKL for exactly these configurations: not repeated)
    /\ (st = "run" /\ Universe # "cross") => ConfigOKL(d)
    /\ st = "ok" => /\ Rec[k].class = "ok" \/ (d.free /\ Rec[k].class = "err")
                    /\ Rec[k].class = "ok" => Rec[k].prints = d.expect.prints /\ Rec[k].status = "done"
                    /\ Cardinality(GrpClasses(k)) = 1
                    /\ \A f \in Range(d.load) : ReadCount(Rec[k], f) <= 1 /\ (Rec[k].class = "ok" => ReadCount(Rec[k], f) = 1)
                    /\ \A f \in Range(Tree) \ Range(d.load) : ReadCount(Rec[k], f) = 0
=============================================================================
