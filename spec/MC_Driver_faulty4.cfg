SPECIFICATION Spec
CONSTANTS
  MaxErrs = 3
  Faulty <- MCTrue
  StrictSink <- MCFalse
INVARIANTS TypeOK StreamsAppendOnly
CHECK_DEADLOCK FALSE
