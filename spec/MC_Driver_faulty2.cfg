SPECIFICATION Spec
CONSTANTS
  MaxErrs = 3
  Faulty <- MCTrue
INVARIANTS TypeOK ErrorsPrinted
CHECK_DEADLOCK FALSE
