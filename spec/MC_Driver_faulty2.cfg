SPECIFICATION Spec
CONSTANTS
  MaxErrs = 3
  Faulty <- MCTrue
  StrictSink <- MCFalse
INVARIANTS TypeOK ErrorsPrinted
CHECK_DEADLOCK FALSE
