----------------------------- MODULE SyltCorners -----------------------------
(***************************************************************************)
(* The LEXICAL-CORNER UNIVERSE of property C06 ("every accepted program    *)
(* yields loadable Lua").                                                  *)
(*                                                                         *)
(* C06 quantifies over the product  source spelling x emission template:   *)
(* a field called `repeat`, `true and false` as a statement, a string      *)
(* ending in a backslash, a function with 201 locals.  This module defines *)
(* that product as an index-addressed sequence of cases, Cases[1..NCases]. *)
(* A case is a complete Sylt project (one or two files, optionally the     *)
(* compiler's `require` argument) written out as text BY THIS MODULE:      *)
(*                                                                         *)
(*   [id    |-> [fam, a, b, n],      family, row, column, size parameter   *)
(*    files |-> << [name, text] >>,  main.sy first                         *)
(*    req   |-> "" | require argument,                                     *)
(*    must  |-> BOOLEAN]            is the compiler expected to accept it  *)
(*                                   (only used by the vacuity guard)      *)
(*                                                                         *)
(* Families                                                                *)
(*   name   spelling class x emission site of an identifier                *)
(*   cname  capitalised spelling x site (variants, blob and enum names)    *)
(*   str    string contents x site of the literal                          *)
(*   num    numeric literal x site                                         *)
(*   unused expression form x statement position (value not used)          *)
(*   unused2 (thorough tier) ordered pairs of forms in an unused tuple     *)
(*   size   program shape x size N                                         *)
(*   ctl    control transfers x placement                                  *)
(*   ctlfn  transfer x function flavour x enclosing construct x purity     *)
(*   dead   transfer not last in its block x follower x block x function   *)
(*   ctlx   transfer inside an if / case EXPRESSION x value site x loop     *)
(*   strc   control character x follower x position x site of a string     *)
(*          literal (these cases are also run: field `expect`)             *)
(*   wide   comma-separated construct x number of elements                 *)
(*                                                                         *)
(* Characters that do not survive TLC's string handling (CR, NUL, non-     *)
(* ASCII) are written as the placeholder @Uhhhh@ (hex code point); the     *)
(* recorder substitutes them just before compiling and records the text in *)
(* placeholder form, which TLC compares with its own derivation.           *)
(*                                                                         *)
(* Nothing here depends on how sylt is implemented: the keyword lists are  *)
(* the Lua 5.3 manual's and the Sylt token table's, the sites are the      *)
(* places of the surface language where a spelling can be written.         *)
(***************************************************************************)
EXTENDS Naturals, Sequences, FiniteSets, TLC, IOUtils

\* the thorough tier (environment C06_TIER=thorough) adds the family `unused2`
Thorough == "C06_TIER" \in DOMAIN IOEnv /\ IOEnv.C06_TIER = "thorough"

LF == "\n"
QQ == "\""
BS == "\\"

RECURSIVE CatFrom(_, _)
CatFrom(s, i) == IF i > Len(s) THEN "" ELSE s[i] \o CatFrom(s, i + 1)
Cat(s) == CatFrom(s, 1)
Lines(s) == Cat([i \in 1..Len(s) |-> s[i] \o LF])
RECURSIVE RepStr(_, _)
RepStr(s, n) == IF n = 0 THEN "" ELSE s \o RepStr(s, n - 1)
Num(i) == ToString(i)
\* elements of s joined by sep
RECURSIVE JoinFrom(_, _, _)
JoinFrom(s, sep, i) == IF i > Len(s) THEN "" ELSE IF i = Len(s) THEN s[i] ELSE s[i] \o sep \o JoinFrom(s, sep, i + 1)
Join(s, sep) == JoinFrom(s, sep, 1)
\* concatenation of a sequence of sequences
RECURSIVE FlatFrom(_, _)
FlatFrom(ss, i) == IF i > Len(ss) THEN <<>> ELSE ss[i] \o FlatFrom(ss, i + 1)
Flat(ss) == FlatFrom(ss, 1)

U(hex) == "@U" \o hex \o "@"          \* placeholder of one code point

Ind(body) == [i \in 1..Len(body) |-> "    " \o body[i]]
\* a single-file program: top-level lines, then `start` with the given body lines
Prog(tops, body) == Lines(tops \o <<"start :: fn do">> \o Ind(body) \o <<"end">>)
File(nm, text) == [name |-> nm, text |-> text]
Main(text) == <<File("main.sy", text)>>

\* expect: the bytes the program must print when its chunk is RUN (placeholder form), "-" = the chunk is only loaded
MkCaseE(fam, a, b, n, files, req, must, expect) ==
    [id |-> [fam |-> fam, a |-> a, b |-> b, n |-> n], files |-> files, req |-> req, must |-> must, expect |-> expect]
MkCase(fam, a, b, n, files, req, must) == MkCaseE(fam, a, b, n, files, req, must, "-")

\* the grid A x B in row-major order
Grid(A, B, F(_, _)) ==
    [i \in 1..(Len(A) * Len(B)) |-> F(A[((i - 1) \div Len(B)) + 1], B[((i - 1) % Len(B)) + 1])]
\* ... and its i-th element alone.  The universe is addressed by index and a case is DERIVED WHEN ASKED FOR: TLC evaluates
\* every constant definition without parameters when it starts, so a definition `Cases == <all texts>` would be paid by
\* every validation run, however small its trace.  Only small descriptors (cells of names) are kept as sequences.
GridN(A, B) == Len(A) * Len(B)
GridAt(A, B, F(_, _), i) == F(A[((i - 1) \div Len(B)) + 1], B[((i - 1) % Len(B)) + 1])

---------------------------------------------------------------------------
(* Keywords.  Lua 5.3 reference manual, section 3.1; Sylt: every #[token]  *)
(* / keyword regex of sylt-tokenizer/src/token.rs that matches a name.     *)
LuaKeywordSeq == <<"and", "break", "do", "else", "elseif", "end", "false", "for", "function", "goto", "if", "in",
                   "local", "nil", "not", "or", "repeat", "return", "then", "true", "until", "while">>
SyltKeywords == {"void", "bool", "int", "float", "str", "nil", "true", "false", "if", "elif", "else", "case", "is",
                 "break", "continue", "in", "loop", "blob", "externblob", "enum", "ret", "do", "end", "fn", "pu",
                 "and", "or", "not", "use", "from", "as", "external"}
IsLegalSyltName(w) == w \notin SyltKeywords
\* the Lua keywords a Sylt program may use as an identifier, in the manual's order
KwSeq == SelectSeq(LuaKeywordSeq, IsLegalSyltName)

LongName == "l" \o RepStr("o", 298) \o "g"          \* 300 characters

LowerSpell ==
    <<[cls |-> "plain", nm |-> "alpha"]>>
    \o [i \in 1..Len(KwSeq) |-> [cls |-> "kw:" \o KwSeq[i], nm |-> KwSeq[i]]]
    \o <<[cls |-> "underscore-lead", nm |-> "_lead"],
         [cls |-> "underscore-only", nm |-> "_"],
         [cls |-> "dunder-meta", nm |-> "__index"],
         [cls |-> "env", nm |-> "_ENV"],
         [cls |-> "digits", nm |-> "x1y22z"],
         [cls |-> "mixed-case", nm |-> "aBcD"],
         [cls |-> "kw-prefix", nm |-> "endx"],
         [cls |-> "long", nm |-> LongName]>>

LowerSites == <<"field-literal", "field-read", "field-write", "field-opassign", "field-nested-read",
                "field-nested-write", "method-self-read", "method-self-write", "method-call",
                "externblob-read", "externblob-write", "generic-field", "param", "closure-param",
                "local-var", "local-const", "global-var", "global-const", "fn-name", "capture",
                "case-binding", "loop-var", "external-fn", "namespace", "namespace-alias",
                "import-alias", "import-name">>

EnumE == <<"E :: enum", "    X int,", "    Y,", "end">>

NameText(site, nm) ==
  CASE site = "field-literal" ->
         Prog(<<"A :: blob { " \o nm \o ": int }">>, <<"a := A { " \o nm \o ": 1 }", "print(1)">>)
    [] site = "field-read" ->
         Prog(<<"A :: blob { " \o nm \o ": int }">>, <<"a := A { " \o nm \o ": 1 }", "print(a." \o nm \o ")">>)
    [] site = "field-write" ->
         Prog(<<"A :: blob { " \o nm \o ": int }">>, <<"a := A { " \o nm \o ": 1 }", "a." \o nm \o " = 2", "print(2)">>)
    [] site = "field-opassign" ->
         Prog(<<"A :: blob { " \o nm \o ": int }">>, <<"a := A { " \o nm \o ": 1 }", "a." \o nm \o " += 2", "print(3)">>)
    [] site = "field-nested-read" ->
         Prog(<<"A :: blob { " \o nm \o ": B }", "B :: blob { " \o nm \o ": int }">>,
              <<"a := A { " \o nm \o ": B { " \o nm \o ": 1 } }", "print(a." \o nm \o "." \o nm \o ")">>)
    [] site = "field-nested-write" ->
         Prog(<<"A :: blob { " \o nm \o ": B }", "B :: blob { " \o nm \o ": int }">>,
              <<"a := A { " \o nm \o ": B { " \o nm \o ": 1 } }", "a." \o nm \o "." \o nm \o " = 3", "print(4)">>)
    [] site = "method-self-read" ->
         Prog(<<"A :: blob {", "    " \o nm \o ": int,", "    get: fn -> int,", "}">>,
              <<"a := A {", "    " \o nm \o ": 1,", "    get: fn -> int do", "        self." \o nm, "    end", "}",
                "print(a.get())">>)
    [] site = "method-self-write" ->
         Prog(<<"A :: blob {", "    " \o nm \o ": int,", "    set: fn int -> void,", "}">>,
              <<"a := A {", "    " \o nm \o ": 1,", "    set: fn v: int do", "        self." \o nm \o " = v", "    end", "}",
                "a.set(3)", "print(5)">>)
    [] site = "method-call" ->
         Prog(<<"A :: blob { " \o nm \o ": fn -> int }">>,
              <<"a := A { " \o nm \o ": fn -> int do 1 end }", "print(a." \o nm \o "())">>)
    [] site = "externblob-read" ->
         Prog(<<"Foo :: externblob { " \o nm \o ": int }", "mk : fn -> Foo : external">>,
              <<"x := mk()", "print(x." \o nm \o ")">>)
    [] site = "externblob-write" ->
         Prog(<<"Foo :: externblob { " \o nm \o ": int }", "mk : fn -> Foo : external">>,
              <<"x := mk()", "x." \o nm \o " = 2", "print(6)">>)
    [] site = "generic-field" ->
         Prog(<<"A :: blob(*T) { " \o nm \o ": *T }">>, <<"a := A { " \o nm \o ": 1 }", "print(a." \o nm \o ")">>)
    [] site = "param" ->
         Prog(<<"f :: fn " \o nm \o ": int -> int do", "    " \o nm \o " + 1", "end">>, <<"print(f(1))">>)
    [] site = "closure-param" ->
         Prog(<<>>, <<"f :: fn " \o nm \o ": int -> int do " \o nm \o " + 1 end", "print(f(1))">>)
    [] site = "local-var" ->
         Prog(<<>>, <<nm \o " := 1", nm \o " = " \o nm \o " + 1", "print(" \o nm \o ")">>)
    [] site = "local-const" ->
         Prog(<<>>, <<nm \o " :: 1", "print(" \o nm \o ")">>)
    [] site = "global-var" ->
         Prog(<<nm \o " := 1">>, <<nm \o " = " \o nm \o " + 1", "print(" \o nm \o ")">>)
    [] site = "global-const" ->
         Prog(<<nm \o " :: 1">>, <<"print(" \o nm \o ")">>)
    [] site = "fn-name" ->
         Prog(<<nm \o " :: fn -> int do", "    1", "end">>, <<"print(" \o nm \o "())">>)
    [] site = "capture" ->
         Prog(<<>>, <<nm \o " := 1", "f :: fn -> int do " \o nm \o " end", "print(f())">>)
    [] site = "case-binding" ->
         Prog(EnumE, <<"e := E.X 1", "case e do", "    X " \o nm \o " -> print(" \o nm \o ") end", "    else end", "end">>)
    [] site = "loop-var" ->
         Prog(<<>>, <<nm \o " := 0", "loop " \o nm \o " < 3 do", "    " \o nm \o " += 1", "end", "print(" \o nm \o ")">>)
    [] site = "external-fn" ->
         Prog(<<nm \o " : fn -> void : external">>, <<nm \o "()">>)
    [] site = "namespace" -> Prog(<<"use " \o nm>>, <<"print(" \o nm \o ".f())">>)
    [] site = "namespace-alias" -> Prog(<<"use other as " \o nm>>, <<"print(" \o nm \o ".f())">>)
    [] site = "import-alias" -> Prog(<<"from other use f as " \o nm>>, <<"print(" \o nm \o "())">>)
    [] site = "import-name" -> Prog(<<"from other use " \o nm>>, <<"print(" \o nm \o "())">>)

OtherF == Lines(<<"f :: fn -> int do", "    1", "end">>)
NameFiles(site, nm) ==
  CASE site = "namespace" -> <<File("main.sy", NameText(site, nm)), File(nm \o ".sy", OtherF)>>
    [] site \in {"namespace-alias", "import-alias"} -> <<File("main.sy", NameText(site, nm)), File("other.sy", OtherF)>>
    [] site = "import-name" ->
         <<File("main.sy", NameText(site, nm)), File("other.sy", Lines(<<nm \o " :: fn -> int do", "    1", "end">>))>>
    [] OTHER -> Main(NameText(site, nm))

NameCase(sp, site) == MkCase("name", sp.cls, site, 0, NameFiles(site, sp.nm), "", TRUE)

(* capitalised spellings: variants, blob names, enum names *)
UpperSpell == <<[cls |-> "plain", nm |-> "Alpha"],
                [cls |-> "single", nm |-> "Q"],
                [cls |-> "kw-capitalised", nm |-> "End"],
                [cls |-> "kw-upper", nm |-> "WHILE"],
                [cls |-> "digits-underscore", nm |-> "A1_b2"],
                [cls |-> "lua-runtime-name", nm |-> "V1"],
                [cls |-> "long", nm |-> "L" \o RepStr("o", 298) \o "g"]>>
UpperSites == <<"variant-payload", "variant-nullary", "variant-print", "blob-name", "enum-name", "blob-in-type">>
CNameText(site, nm) ==
  CASE site = "variant-payload" ->
         Prog(<<"E :: enum", "    " \o nm \o " int,", "    Other,", "end">>,
              <<"e := E." \o nm \o " 1", "case e do", "    " \o nm \o " v -> print(v) end", "    Other -> print(0) end", "end">>)
    [] site = "variant-nullary" ->
         Prog(<<"E :: enum", "    " \o nm \o ",", "    Other int,", "end">>,
              <<"e := E." \o nm, "case e do", "    " \o nm \o " -> print(1) end", "    else print(0) end", "end">>)
    [] site = "variant-print" ->
         Prog(<<"E :: enum", "    " \o nm \o " str,", "end">>, <<"print(E." \o nm \o " " \o QQ \o "s" \o QQ \o ")">>)
    [] site = "blob-name" ->
         Prog(<<nm \o " :: blob { x: int }">>, <<"a := " \o nm \o " { x: 1 }", "print(a.x)">>)
    [] site = "enum-name" ->
         Prog(<<nm \o " :: enum", "    X int,", "end">>, <<"print(" \o nm \o ".X 1)">>)
    [] site = "blob-in-type" ->
         Prog(<<nm \o " :: blob { x: int }", "f :: fn a: " \o nm \o " -> int do", "    a.x", "end">>,
              <<"print(f(" \o nm \o " { x: 1 }))">>)
CNameCase(sp, site) == MkCase("cname", sp.cls, site, 0, Main(CNameText(site, sp.nm)), "", TRUE)

---------------------------------------------------------------------------
(* String contents: the Sylt tokenizer takes everything between two double *)
(* quotes, i.e. a literal may contain any character but the double quote.  *)
StrContents ==
  <<[cls |-> "plain", s |-> "abc"],
    [cls |-> "empty", s |-> ""],
    [cls |-> "space", s |-> " "],
    [cls |-> "trail-bs", s |-> "a" \o BS],
    [cls |-> "only-bs", s |-> BS],
    [cls |-> "two-bs", s |-> "a" \o BS \o BS],
    [cls |-> "three-bs", s |-> "a" \o BS \o BS \o BS],
    [cls |-> "bs-n", s |-> "a" \o BS \o "nb"],
    [cls |-> "bs-t", s |-> "a" \o BS \o "tb"],
    [cls |-> "bs-letters", s |-> BS \o "a" \o BS \o "b" \o BS \o "f" \o BS \o "r" \o BS \o "v"],
    [cls |-> "bs-q", s |-> "a" \o BS \o "qb"],
    [cls |-> "bs-space", s |-> "a" \o BS \o " b"],
    [cls |-> "bs-x-bad", s |-> "a" \o BS \o "xZZ"],
    [cls |-> "bs-x-short", s |-> "a" \o BS \o "x4"],
    [cls |-> "bs-x-ok", s |-> "a" \o BS \o "x41"],
    [cls |-> "bs-zero", s |-> "a" \o BS \o "0b"],
    [cls |-> "bs-dec", s |-> BS \o "065"],
    [cls |-> "bs-dec-big", s |-> BS \o "999"],
    [cls |-> "bs-u-ok", s |-> BS \o "u{48}"],
    [cls |-> "bs-u-big", s |-> BS \o "u{110000000}"],
    [cls |-> "bs-u-open", s |-> BS \o "u{48"],
    [cls |-> "bs-z", s |-> "a" \o BS \o "z  b"],
    [cls |-> "bs-squote", s |-> BS \o "'"],
    [cls |-> "bs-newline", s |-> "a" \o BS \o LF \o "b"],
    [cls |-> "newline", s |-> "a" \o LF \o "b"],
    [cls |-> "two-newlines", s |-> LF \o LF],
    [cls |-> "cr", s |-> "a" \o U("000D") \o "b"],
    [cls |-> "crlf", s |-> "a" \o U("000D") \o LF \o "b"],
    [cls |-> "tab", s |-> "a\tb"],
    [cls |-> "nul", s |-> "a" \o U("0000") \o "b"],
    [cls |-> "bell", s |-> "a" \o U("0007") \o "b"],
    [cls |-> "latin", s |-> U("00E5") \o U("00F6")],
    [cls |-> "astral", s |-> "a" \o U("1F600")],
    [cls |-> "long-bracket-close", s |-> "a]]b"],
    [cls |-> "long-bracket-open", s |-> "[[a[==["],
    [cls |-> "comment", s |-> "a--b"],
    [cls |-> "block-comment", s |-> "--[[ a"],
    [cls |-> "squote", s |-> "it's"],
    [cls |-> "percent", s |-> "%d %s %%"],
    [cls |-> "lua-code", s |-> ") end do local = ("],
    [cls |-> "sylt-comment", s |-> "a // b"],
    [cls |-> "long", s |-> RepStr("abcdefghij", 500)]>>

StrSites == <<"print", "compare", "concat", "local", "global", "blob-field", "variant-payload", "list-elem",
              "tuple-elem", "before-unreachable", "assert", "fn-result", "if-value", "two-args", "unused",
              "require-arg">>

Q(s) == QQ \o s \o QQ
StrText(site, s) ==
  CASE site = "print" -> Prog(<<>>, <<"print(" \o Q(s) \o ")">>)
    [] site = "compare" -> Prog(<<>>, <<"print(" \o Q(s) \o " == " \o Q("x") \o ")">>)
    [] site = "concat" -> Prog(<<>>, <<"print(" \o Q(s) \o " + " \o Q(s) \o ")">>)
    [] site = "local" -> Prog(<<>>, <<"s := " \o Q(s), "print(s)">>)
    [] site = "global" -> Prog(<<"s :: " \o Q(s)>>, <<"print(s)">>)
    [] site = "blob-field" -> Prog(<<"A :: blob { s: str }">>, <<"a := A { s: " \o Q(s) \o " }", "print(a.s)">>)
    [] site = "variant-payload" -> Prog(<<"E :: enum", "    X str,", "end">>, <<"print(E.X " \o Q(s) \o ")">>)
    [] site = "list-elem" -> Prog(<<>>, <<"print([" \o Q(s) \o ", " \o Q("x") \o "])">>)
    [] site = "tuple-elem" -> Prog(<<>>, <<"print((1, " \o Q(s) \o "))">>)
    [] site = "before-unreachable" -> Prog(<<>>, <<"s := " \o Q(s), "if s == " \o Q("x") \o " do", "    <!>", "end">>)
    [] site = "assert" -> Prog(<<>>, <<Q(s) \o " <=> " \o Q(s)>>)
    [] site = "fn-result" -> Prog(<<"f :: fn -> str do", "    " \o Q(s), "end">>, <<"print(f())">>)
    [] site = "if-value" -> Prog(<<>>, <<"b := true", "s := if b do " \o Q(s) \o " else " \o Q("x") \o " end", "print(s)">>)
    [] site = "two-args" -> Prog(<<"f :: fn a: str, b: str -> str do", "    a + b", "end">>,
                                 <<"print(f(" \o Q(s) \o ", " \o Q(s) \o "))">>)
    [] site = "unused" -> Prog(<<>>, <<Q(s), "print(1)">>)
    [] site = "require-arg" -> Prog(<<>>, <<"print(1)">>)
StrCase(c, site) ==
    MkCase("str", c.cls, site, 0, Main(StrText(site, c.s)), IF site = "require-arg" THEN "lib" \o c.s \o ".lua" ELSE "", TRUE)

---------------------------------------------------------------------------
(* Numeric literals: the tokenizer's forms  X  X.  .Y  X.Y  XeY  Xe-Y  Xe+Y *)
NumLits ==
  <<[cls |-> "zero", s |-> "0", must |-> TRUE],
    [cls |-> "leading-zeros", s |-> "007", must |-> TRUE],
    [cls |-> "max-i64", s |-> "9223372036854775807", must |-> TRUE],
    [cls |-> "i64-overflow", s |-> "9223372036854775808", must |-> FALSE],
    [cls |-> "dot-trailing", s |-> "1.", must |-> TRUE],
    [cls |-> "dot-leading", s |-> ".5", must |-> TRUE],
    [cls |-> "leading-zeros-float", s |-> "00.5", must |-> TRUE],
    [cls |-> "exp", s |-> "1e5", must |-> TRUE],
    [cls |-> "exp-plus", s |-> "1e+5", must |-> TRUE],
    [cls |-> "exp-minus", s |-> "1e-7", must |-> TRUE],
    [cls |-> "exp-zero", s |-> "0e0", must |-> TRUE],
    [cls |-> "exp-15", s |-> "1e15", must |-> TRUE],
    [cls |-> "exp-16", s |-> "1e16", must |-> TRUE],
    [cls |-> "exp-300", s |-> "1e300", must |-> TRUE],
    [cls |-> "max-double", s |-> "17976931348623157e292", must |-> TRUE],
    [cls |-> "inf", s |-> "1e309", must |-> TRUE],
    [cls |-> "inf-huge-exp", s |-> "1e999999", must |-> TRUE],
    [cls |-> "denormal-min", s |-> "5e-324", must |-> TRUE],
    [cls |-> "underflow", s |-> "1e-400", must |-> TRUE],
    [cls |-> "digits17", s |-> "0.12345678901234567", must |-> TRUE],
    [cls |-> "digits17-int-part", s |-> "12345678901234567.0", must |-> TRUE],
    [cls |-> "digits30", s |-> "123456789012345678901234567890.0", must |-> TRUE],
    [cls |-> "tiny-fraction", s |-> "0.0000000000000000000000000000001", must |-> TRUE],
    [cls |-> "float-20-digits-dot", s |-> "100000000000000000000.", must |-> TRUE]>>
NumSites == <<"print", "add", "compare", "negate", "blob-field", "global", "unused", "list-elem", "two-args">>
NumText(site, s) ==
  CASE site = "print" -> Prog(<<>>, <<"print(" \o s \o ")">>)
    [] site = "add" -> Prog(<<>>, <<"print(" \o s \o " + " \o s \o ")">>)
    [] site = "compare" -> Prog(<<>>, <<"print(" \o s \o " < " \o s \o ")">>)
    [] site = "negate" -> Prog(<<>>, <<"print(-" \o s \o ")">>)
    [] site = "blob-field" -> Prog(<<"A :: blob { v: * }">>, <<"a := A { v: " \o s \o " }", "print(a.v)">>)
    [] site = "global" -> Prog(<<"g :: " \o s>>, <<"print(g)">>)
    [] site = "unused" -> Prog(<<>>, <<s, "print(1)">>)
    [] site = "list-elem" -> Prog(<<>>, <<"print([" \o s \o ", " \o s \o "])">>)
    [] site = "two-args" -> Prog(<<"f :: fn a, b do", "    print(a)", "    print(b)", "end">>, <<"f(" \o s \o ", " \o s \o ")">>)
NumCase(c, site) == MkCase("num", c.cls, site, 0, Main(NumText(site, c.s)), "", c.must)

---------------------------------------------------------------------------
(* Every expression form as a statement whose value is not used.           *)
UTops == <<"A :: blob { v: int, m: fn -> int }", "E :: enum", "    X int,", "    Y,", "end",
           "f :: fn -> int do", "    1", "end",
           "g :: fn -> bool do", "    true", "end",
           "h :: fn y: int -> int do", "    y", "end">>
UEnv == <<"x := 1", "b := true", "a := A { v: 1, m: fn -> int do 2 end }", "l := [1, 2]", "t := (1, 2)",
          "e := E.X 1", "s := " \o Q("s")>>
\* [cls, ls]: the form as a sequence of source lines
UForms ==
  <<[cls |-> "and-lit", ls |-> <<"true and false">>],
    [cls |-> "or-lit", ls |-> <<"true or false">>],
    [cls |-> "and-var", ls |-> <<"b and b">>],
    [cls |-> "or-var", ls |-> <<"b or b">>],
    [cls |-> "and-call", ls |-> <<"g() and g()">>],
    [cls |-> "or-call", ls |-> <<"g() or g()">>],
    [cls |-> "and-var-call", ls |-> <<"b and g()">>],
    [cls |-> "and-nested", ls |-> <<"(b and b) and (b or b)">>],
    [cls |-> "or-nested", ls |-> <<"(b or b) or (b and b)">>],
    [cls |-> "and-cmp", ls |-> <<"x < 2 and x > 0">>],
    [cls |-> "not-and", ls |-> <<"not (b and b)">>],
    [cls |-> "cmp-and", ls |-> <<"(b and b) == true">>],
    [cls |-> "lt", ls |-> <<"1 < 2">>],
    [cls |-> "le", ls |-> <<"x <= 2">>],
    [cls |-> "gt", ls |-> <<"x > 2">>],
    [cls |-> "ge", ls |-> <<"x >= 2">>],
    [cls |-> "eq", ls |-> <<"x == 1">>],
    [cls |-> "ne", ls |-> <<"x != 1">>],
    [cls |-> "field", ls |-> <<"a.v">>],
    [cls |-> "tuple", ls |-> <<"(1, 2)">>],
    [cls |-> "tuple-vars", ls |-> <<"(x, s)">>],
    [cls |-> "tuple-single", ls |-> <<"(1,)">>],
    [cls |-> "unit", ls |-> <<"()">>],
    [cls |-> "neg-var", ls |-> <<"-x">>],
    [cls |-> "neg-lit", ls |-> <<"-1">>],
    [cls |-> "not", ls |-> <<"not b">>],
    [cls |-> "if-expr", ls |-> <<"if b do 1 else 2 end">>],
    [cls |-> "if-elif-expr", ls |-> <<"if x == 1 do", "    " \o Q("a"), "elif x == 2 do", "    " \o Q("b"), "else", "    " \o Q("c"), "end">>],
    [cls |-> "if-stmt", ls |-> <<"if b do", "    print(1)", "end">>],
    [cls |-> "if-and-cond", ls |-> <<"if b and b do", "    print(1)", "end">>],
    [cls |-> "if-and-value", ls |-> <<"if b do b and b else b or b end">>],
    [cls |-> "case-expr", ls |-> <<"case e do", "    X v -> v end", "    Y -> 2 end", "end">>],
    [cls |-> "case-else-expr", ls |-> <<"case e do", "    X v -> v end", "    else 2 end", "end">>],
    [cls |-> "case-and-value", ls |-> <<"case e do", "    X v -> b and b end", "    else b or b end", "end">>],
    [cls |-> "list", ls |-> <<"[1, 2]">>],
    [cls |-> "list-vars", ls |-> <<"[x, x]">>],
    [cls |-> "blob-literal", ls |-> <<"A { v: 2, m: fn -> int do 3 end }">>],
    [cls |-> "variant", ls |-> <<"E.X 1">>],
    [cls |-> "variant-nullary", ls |-> <<"E.Y">>],
    [cls |-> "call", ls |-> <<"f()">>],
    [cls |-> "call-prime", ls |-> <<"h' 1">>],
    [cls |-> "call-arrow", ls |-> <<"x -> h()">>],
    [cls |-> "call-method", ls |-> <<"a.m()">>],
    [cls |-> "call-namespace", ls |-> <<"list.push(l, 3)">>],
    [cls |-> "string", ls |-> <<Q("str")>>],
    [cls |-> "index", ls |-> <<"t[1]">>],
    [cls |-> "int", ls |-> <<"1">>],
    [cls |-> "float", ls |-> <<"1.5">>],
    [cls |-> "bool", ls |-> <<"true">>],
    [cls |-> "nil", ls |-> <<"nil">>],
    [cls |-> "var", ls |-> <<"x">>],
    [cls |-> "global-fn", ls |-> <<"f">>],
    [cls |-> "add", ls |-> <<"x + 1">>],
    [cls |-> "sub", ls |-> <<"x - 1">>],
    [cls |-> "mul", ls |-> <<"x * 2">>],
    [cls |-> "div", ls |-> <<"x / 2">>],
    [cls |-> "concat", ls |-> <<"s + s">>],
    [cls |-> "tuple-add", ls |-> <<"t + t">>],
    [cls |-> "paren", ls |-> <<"(x)">>],
    [cls |-> "fn-literal", ls |-> <<"fn do end">>],
    [cls |-> "fn-literal-value", ls |-> <<"fn y: int -> int do y end">>],
    [cls |-> "assert", ls |-> <<"x <=> 1">>],
    [cls |-> "assert-and", ls |-> <<"b and b <=> true">>]>>
UPositions == <<"first", "last", "twice", "helper-last", "if-branch", "both-branches", "loop-body", "closure-body",
                "case-arm", "before-ret">>
UText(pos, ls) ==
  CASE pos = "first" -> Prog(UTops, UEnv \o ls \o <<"print(7)">>)
    [] pos = "last" -> Prog(UTops, UEnv \o ls)
    [] pos = "twice" -> Prog(UTops, UEnv \o ls \o ls \o <<"print(7)">>)
    [] pos = "helper-last" ->
         Prog(UTops \o <<"k :: fn do">> \o Ind(UEnv \o <<"print(7)">> \o ls) \o <<"end">>, <<"k()", "print(8)">>)
    [] pos = "if-branch" -> Prog(UTops, UEnv \o <<"if b do">> \o Ind(ls) \o <<"end", "print(7)">>)
    [] pos = "both-branches" -> Prog(UTops, UEnv \o <<"if b do">> \o Ind(ls) \o <<"else">> \o Ind(ls) \o <<"end", "print(7)">>)
    [] pos = "loop-body" -> Prog(UTops, UEnv \o <<"loop x < 3 do">> \o Ind(ls \o <<"x += 1">>) \o <<"end", "print(7)">>)
    [] pos = "closure-body" -> Prog(UTops, UEnv \o <<"k :: fn do">> \o Ind(ls \o <<"print(6)">>) \o <<"end", "k()">>)
    [] pos = "case-arm" ->
         Prog(UTops, UEnv \o <<"case e do", "    X w ->">> \o Ind(Ind(ls \o <<"print(w)">>)) \o <<"    end", "    else end", "end">>)
    [] pos = "before-ret" -> Prog(UTops, UEnv \o ls \o <<"ret">>)
UCase(c, pos) == MkCase("unused", c.cls, pos, 0, Main(UText(pos, c.ls)), "", TRUE)

(* thorough tier: every ordered PAIR of single-line forms as the two components of a tuple whose value is  *)
(* not used - the product of operand shapes under the emitter's single-use inlining.                      *)
IsOperandForm(c) == Len(c.ls) = 1 /\ c.cls \notin {"assert", "assert-and"}
UOperands == SelectSeq(UForms, IsOperandForm)
U2Case(c1, c2) == MkCase("unused2", c1.cls, c2.cls, 0,
                         Main(Prog(UTops, UEnv \o <<"((" \o c1.ls[1] \o "), (" \o c2.ls[1] \o "))", "print(7)">>)), "", TRUE)

---------------------------------------------------------------------------
(* Sizes.  N statements / declarations / levels of one shape.              *)
RECURSIVE NestParen(_)
NestParen(n) == IF n = 0 THEN "x" ELSE "(" \o NestParen(n - 1) \o " + 1)"
RECURSIVE NestCall(_)
NestCall(n) == IF n = 0 THEN "x" ELSE "h(" \o NestCall(n - 1) \o ")"
RECURSIVE NestList(_)
NestList(n) == IF n = 0 THEN "1" ELSE "[" \o NestList(n - 1) \o "]"
RECURSIVE NestAnd(_)
NestAnd(n) == IF n = 0 THEN "b" ELSE "b and (" \o NestAnd(n - 1) \o ")"
RECURSIVE NestIf(_, _)
NestIf(n, d) == IF n = 0 THEN <<RepStr("    ", d) \o "print(x)">>
                ELSE <<RepStr("    ", d) \o "if x == 1 do">> \o NestIf(n - 1, d + 1) \o <<RepStr("    ", d) \o "end">>
RECURSIVE NestFn(_, _)
NestFn(n, d) == IF n = 0 THEN <<RepStr("    ", d) \o "print(x)">>
                ELSE <<RepStr("    ", d) \o "k" \o Num(n) \o " :: fn do">> \o NestFn(n - 1, d + 1)
                     \o <<RepStr("    ", d) \o "end", RepStr("    ", d) \o "k" \o Num(n) \o "()">>

HDef == <<"h :: fn y: int -> int do", "    y", "end">>
SizeText(shape, n) ==
  CASE shape = "locals" ->          \* N local variables in one function
         Prog(<<>>, [i \in 1..n |-> "v" \o Num(i) \o " := " \o Num(i)] \o <<"print(v1)">>)
    [] shape = "consts" ->
         Prog(<<>>, [i \in 1..n |-> "v" \o Num(i) \o " :: " \o Num(i)] \o <<"print(v1)">>)
    [] shape = "calls" ->           \* N call statements
         Prog(<<"k :: fn do", "end">>, [i \in 1..n |-> "k()"])
    [] shape = "prints" ->
         Prog(<<>>, [i \in 1..n |-> "print(" \o Num(i) \o ")"])
    [] shape = "reads" ->           \* N statements reading and writing one variable
         Prog(<<>>, <<"x := 0">> \o [i \in 1..n |-> "x = x + 1"] \o <<"print(x)">>)
    [] shape = "opassigns" ->
         Prog(<<>>, <<"x := 0">> \o [i \in 1..n |-> "x += 1"] \o <<"print(x)">>)
    [] shape = "field-reads" ->
         Prog(<<"A :: blob { v: int }">>, <<"a := A { v: 1 }">> \o [i \in 1..n |-> "print(a.v)"])
    [] shape = "params" ->          \* a function of N parameters, called with N arguments
         Prog(<<"k :: fn " \o Join([i \in 1..n |-> "p" \o Num(i) \o ": int"], ", ") \o " -> int do", "    p1", "end">>,
              <<"print(k(" \o Join([i \in 1..n |-> Num(i)], ", ") \o "))">>)
    [] shape = "globals" ->         \* N global variables
         Prog([i \in 1..n |-> "g" \o Num(i) \o " := " \o Num(i)], <<"print(g1)">>)
    [] shape = "global-fns" ->
         Prog(Flat([i \in 1..n |-> <<"k" \o Num(i) \o " :: fn -> int do", "    " \o Num(i), "end">>]), <<"print(k1())">>)
    [] shape = "elif-chain" ->
         Prog(<<>>, <<"x := 0", "if x == 1 do", "    print(1)">>
                    \o Flat([i \in 1..n |-> <<"elif x == " \o Num(i + 1) \o " do", "    print(" \o Num(i + 1) \o ")">>])
                    \o <<"else", "    print(0)", "end">>)
    [] shape = "case-arms" ->       \* an enum of N variants matched by a case of N arms
         Prog(<<"E :: enum">> \o [i \in 1..n |-> "    V" \o Num(i) \o " int,"] \o <<"end">>,
              <<"e := E.V1 1", "case e do">> \o [i \in 1..n |-> "    V" \o Num(i) \o " w -> print(w + " \o Num(i) \o ") end"] \o <<"end">>)
    [] shape = "blob-fields" ->
         Prog(<<"A :: blob {">> \o [i \in 1..n |-> "    f" \o Num(i) \o ": int,"] \o <<"}">>,
              <<"a := A {">> \o [i \in 1..n |-> "    f" \o Num(i) \o ": " \o Num(i) \o ","] \o <<"}", "print(a.f1)">>)
    [] shape = "list-elems" ->
         Prog(<<>>, <<"print([" \o Join([i \in 1..n |-> Num(i)], ", ") \o "])">>)
    [] shape = "tuple-elems" ->
         Prog(<<>>, <<"print((" \o Join([i \in 1..n |-> Num(i)], ", ") \o "))">>)
    [] shape = "sum-chain" ->       \* x + x + ... + x, N operands
         Prog(<<>>, <<"x := 1", "print(" \o Join([i \in 1..n |-> "x"], " + ") \o ")">>)
    [] shape = "concat-chain" ->
         Prog(<<>>, <<"s := " \o Q("s"), "print(" \o Join([i \in 1..n |-> "s"], " + ") \o ")">>)
    [] shape = "and-chain" ->
         Prog(<<>>, <<"b := true", "print(" \o Join([i \in 1..n |-> "b"], " and ") \o ")">>)
    [] shape = "nest-paren" -> Prog(<<>>, <<"x := 1", "print(" \o NestParen(n) \o ")">>)
    [] shape = "nest-call" -> Prog(HDef, <<"x := 1", "print(" \o NestCall(n) \o ")">>)
    [] shape = "nest-list" -> Prog(<<>>, <<"print(" \o NestList(n) \o ")">>)
    [] shape = "nest-and" -> Prog(<<>>, <<"b := true", "print(" \o NestAnd(n) \o ")">>)
    [] shape = "nest-if" -> Prog(<<>>, <<"x := 1">> \o NestIf(n, 0))
    [] shape = "nest-fn" -> Prog(<<>>, <<"x := 1">> \o NestFn(n, 0))
    [] shape = "closures" ->        \* N closures, each capturing a local of the enclosing function
         Prog(<<>>, <<"x := 1">> \o [i \in 1..n |-> "k" \o Num(i) \o " :: fn -> int do x + " \o Num(i) \o " end"] \o <<"print(k1())">>)
    [] shape = "upvalues" ->        \* one closure two levels down assigning N captured variables (N/2 per level)
         LET m == n \div 2 IN
         Prog(<<>>, [i \in 1..m |-> "a" \o Num(i) \o " := 0"]
                    \o <<"k :: fn do">>
                    \o Ind([i \in 1..m |-> "b" \o Num(i) \o " := 0"]
                           \o <<"q :: fn do">>
                           \o Ind([i \in 1..m |-> "a" \o Num(i) \o " = 1"] \o [i \in 1..m |-> "b" \o Num(i) \o " = 1"])
                           \o <<"end", "q()">>)
                    \o <<"end", "k()">>)
    [] shape = "string-length" -> Prog(<<>>, <<"print(" \o Q(RepStr("abcdefghij", n)) \o ")">>)

StdSizes == <<50, 150, 199, 201, 260>>
SizeGrid == <<[shape |-> "locals", ns |-> StdSizes], [shape |-> "consts", ns |-> StdSizes],
              [shape |-> "calls", ns |-> StdSizes], [shape |-> "prints", ns |-> StdSizes],
              [shape |-> "reads", ns |-> StdSizes], [shape |-> "opassigns", ns |-> StdSizes],
              [shape |-> "field-reads", ns |-> StdSizes], [shape |-> "params", ns |-> StdSizes],
              [shape |-> "globals", ns |-> StdSizes], [shape |-> "global-fns", ns |-> StdSizes],
              [shape |-> "elif-chain", ns |-> <<10, 100, 190, 210>>],
              [shape |-> "case-arms", ns |-> <<10, 100, 190, 210>>],
              [shape |-> "blob-fields", ns |-> StdSizes], [shape |-> "list-elems", ns |-> <<50, 260, 1000>>],
              [shape |-> "tuple-elems", ns |-> <<50, 260>>],
              [shape |-> "sum-chain", ns |-> <<10, 40, 190, 260>>],
              [shape |-> "concat-chain", ns |-> <<10, 40, 190, 260>>],
              [shape |-> "and-chain", ns |-> <<10, 40, 190, 260>>],
              [shape |-> "nest-paren", ns |-> <<10, 40, 190, 260>>],
              [shape |-> "nest-call", ns |-> <<10, 40, 190, 260>>],
              [shape |-> "nest-list", ns |-> <<10, 40, 190>>],
              [shape |-> "nest-and", ns |-> <<10, 40, 190>>],
              [shape |-> "nest-if", ns |-> <<4, 8, 10>>],
              [shape |-> "nest-fn", ns |-> <<10, 40, 100>>],
              [shape |-> "closures", ns |-> StdSizes],
              [shape |-> "upvalues", ns |-> <<100, 200, 260, 300>>],
              [shape |-> "string-length", ns |-> <<10, 1000>>]>>
SizeCellsOf(g) == [i \in 1..Len(g.ns) |-> <<g.shape, g.ns[i]>>]
SizeCells == Flat([i \in 1..Len(SizeGrid) |-> SizeCellsOf(SizeGrid[i])])
SizeCase(q) == MkCase("size", q[1], "n" \o Num(q[2]), q[2], Main(SizeText(q[1], q[2])), "", TRUE)
---------------------------------------------------------------------------
(* Control transfers: `break`, `continue`, `ret`, `<!>` x where they are   *)
(* written (enclosing construct, and whether another statement follows in  *)
(* the same block - Lua wants `return` last in its block).                 *)
CtlKinds == <<[cls |-> "break-in-loop", ls |-> <<"loop x < 3 do", "    x += 1", "    if x == 2 do break end", "end">>, must |-> TRUE],
              [cls |-> "continue-in-loop", ls |-> <<"loop x < 3 do", "    x += 1", "    if x == 2 do continue end", "    print(x)", "end">>, must |-> TRUE],
              [cls |-> "break-in-nested-loop", ls |-> <<"loop x < 3 do", "    x += 1", "    loop true do", "        break", "    end", "end">>, must |-> TRUE],
              [cls |-> "continue-in-nested-loop", ls |-> <<"loop x < 3 do", "    x += 1", "    y := 0", "    loop y < 2 do", "        y += 1", "        continue", "    end", "    continue", "end">>, must |-> TRUE],
              [cls |-> "ret-in-loop", ls |-> <<"loop x < 3 do", "    x += 1", "    ret", "end">>, must |-> TRUE],
              [cls |-> "ret-last-in-if", ls |-> <<"if x == 1 do", "    ret", "end">>, must |-> TRUE],
              [cls |-> "loop-in-closure-in-loop", ls |-> <<"loop x < 3 do", "    x += 1", "    k :: fn do", "        loop true do", "            break", "        end", "    end", "    k()", "end">>, must |-> TRUE],
              \* a statement after the transfer, in the same block
              [cls |-> "break-then-stmt", ls |-> <<"loop x < 3 do", "    x += 1", "    break", "    print(1)", "end">>, must |-> TRUE],
              [cls |-> "continue-then-stmt", ls |-> <<"loop x < 3 do", "    x += 1", "    continue", "    print(1)", "end">>, must |-> TRUE],
              [cls |-> "continue-then-unreachable", ls |-> <<"loop x < 3 do", "    x += 1", "    continue", "    <!>", "end">>, must |-> TRUE],
              [cls |-> "unreachable-then-stmt", ls |-> <<"<!>">>, must |-> TRUE],
              [cls |-> "ret-then-stmt", ls |-> <<"ret">>, must |-> TRUE],
              [cls |-> "ret-then-unreachable", ls |-> <<"ret", "<!>">>, must |-> TRUE],
              [cls |-> "ret-twice", ls |-> <<"ret", "ret">>, must |-> TRUE],
              [cls |-> "ret-value-then-stmt", ls |-> <<"k :: fn -> int do", "    ret 1", "    print(2)", "    2", "end", "print(k())">>, must |-> TRUE],
              [cls |-> "ret-value-then-unreachable", ls |-> <<"k :: fn -> int do", "    ret 1", "    <!>", "end", "print(k())">>, must |-> TRUE],
              [cls |-> "ret-value-then-value", ls |-> <<"k :: fn -> int do", "    ret 1", "    2", "end", "print(k())">>, must |-> TRUE],
              [cls |-> "ret-in-if-then-stmt", ls |-> <<"if x == 1 do", "    ret", "    print(1)", "end">>, must |-> TRUE],
              [cls |-> "ret-in-loop-then-stmt", ls |-> <<"loop x < 3 do", "    x += 1", "    ret", "    print(1)", "end">>, must |-> TRUE],
              [cls |-> "ret-in-case-arm-then-stmt", ls |-> <<"e := E.X 1", "case e do", "    X v ->", "        ret", "        print(v)", "    end", "    else end", "end">>, must |-> TRUE],
              \* transfers out of a function body that is written inside a loop (rejected by the type checker since the F4 fix)
              [cls |-> "break-in-closure", ls |-> <<"loop x < 3 do", "    x += 1", "    k :: fn do", "        break", "    end", "    k()", "end">>, must |-> FALSE],
              [cls |-> "continue-in-closure", ls |-> <<"loop x < 3 do", "    x += 1", "    k :: fn do", "        continue", "    end", "    k()", "end">>, must |-> FALSE],
              [cls |-> "break-in-closure-argument", ls |-> <<"loop x < 3 do", "    x += 1", "    h(fn do", "        break", "    end)", "end">>, must |-> FALSE],
              [cls |-> "break-in-method", ls |-> <<"loop x < 3 do", "    x += 1", "    a := A { m: fn do", "        break", "    end }", "    a.m()", "end">>, must |-> FALSE]>>
CtlTops == <<"A :: blob { m: fn -> void }", "E :: enum", "    X int,", "    Y,", "end", "h :: fn c: fn -> void do", "    c()", "end">>
CtlCase(c, pos) == MkCase("ctl", c.cls, pos, 0,
                          Main(IF pos = "start" THEN Prog(CtlTops, <<"x := 0">> \o c.ls \o <<"print(x)">>)
                               ELSE Prog(CtlTops \o <<"w :: fn do">> \o Ind(<<"x := 0">> \o c.ls \o <<"print(x)">>) \o <<"end">>, <<"w()">>)),
                          "", c.must)
CtlPositions == <<"start", "helper">>

---------------------------------------------------------------------------
(* Control transfers x FUNCTION FLAVOUR x enclosing construct (family ctlfn): a loop around a function literal is   *)
(* not a loop of that function, whatever the literal looks like (`fn`, `pu`, blob method, immediately invoked,     *)
(* passed as an argument, pure closure inside a pure function) and wherever the literal is written (loop with and  *)
(* without `do`, nested loops, if / else / case arm inside a loop).  Whether the compiler accepts a cell is not    *)
(* C06's business (`must` only feeds the vacuity guard); an accepted cell must load.                               *)
Map(seq, F(_)) == [i \in 1..Len(seq) |-> F(seq[i])]
Pair(x, y) == <<x, y>>
CfTops == <<"A :: blob { m: fn -> void }", "AP :: blob { m: pu -> void }", "E :: enum", "    X int,", "    Y,", "end",
            "h :: fn c: fn -> void do", "    c()", "end", "hp :: pu c: pu -> void do", "    c()", "end">>
CfTransfers == <<"break", "continue", "ret">>
CfFlavours == <<"direct", "fn-def", "pu-def", "method-fn", "method-pu", "iife-fn", "iife-pu", "arg-fn", "arg-pu",
                "fn-in-fn", "pu-in-pu-def", "loop-in-fn", "loop-in-pu">>
PureFlavours == {"direct", "pu-def", "method-pu", "iife-pu", "arg-pu", "pu-in-pu-def", "loop-in-pu"}
CfStmts(f, t) ==
  CASE f = "direct" -> <<t>>
    [] f = "fn-def" -> <<"k :: fn do", "    " \o t, "end", "k()">>
    [] f = "pu-def" -> <<"k :: pu do", "    " \o t, "end", "k()">>
    [] f = "method-fn" -> <<"a :: A { m: fn do", "    " \o t, "end }", "a.m()">>
    [] f = "method-pu" -> <<"a :: AP { m: pu do", "    " \o t, "end }", "a.m()">>
    [] f = "iife-fn" -> <<"(fn do", "    " \o t, "end)()">>
    [] f = "iife-pu" -> <<"(pu do", "    " \o t, "end)()">>
    [] f = "arg-fn" -> <<"h(fn do", "    " \o t, "end)">>
    [] f = "arg-pu" -> <<"hp(pu do", "    " \o t, "end)">>
    [] f = "fn-in-fn" -> <<"k :: fn do", "    q :: fn do", "        " \o t, "    end", "    q()", "end", "k()">>
    [] f = "pu-in-pu-def" -> <<"k :: pu do", "    q :: pu do", "        " \o t, "    end", "    q()", "end", "k()">>
    [] f = "loop-in-fn" -> <<"k :: fn do", "    loop true do", "        " \o t, "        break", "    end", "end", "k()">>
    [] f = "loop-in-pu" -> <<"k :: pu do", "    loop true do", "        " \o t, "        break", "    end", "end", "k()">>
CfConstructs == <<"none", "loop-do", "loop-nodo", "nested-loops", "if-in-loop", "else-in-loop", "case-arm-in-loop",
                  "case-else-in-loop", "loop-in-if">>
LoopConstructs == {"loop-do", "loop-nodo", "nested-loops", "if-in-loop", "else-in-loop", "case-arm-in-loop",
                   "case-else-in-loop", "loop-in-if"}
CfConstruct(c, stm) ==
  CASE c = "none" -> stm
    [] c = "loop-do" -> <<"loop true do">> \o Ind(stm \o <<"break">>) \o <<"end">>
    [] c = "loop-nodo" -> <<"loop true " \o stm[1]>> \o Tail(stm)         \* one statement, no `do`
    [] c = "nested-loops" -> <<"loop true do", "    loop true do">> \o Ind(Ind(stm \o <<"break">>)) \o <<"    end", "    break", "end">>
    [] c = "if-in-loop" -> <<"loop true do", "    if b do">> \o Ind(Ind(stm)) \o <<"    end", "    break", "end">>
    [] c = "else-in-loop" -> <<"loop true do", "    if b do", "        c0 :: 0", "    else">> \o Ind(Ind(stm)) \o <<"    end", "    break", "end">>
    [] c = "case-arm-in-loop" -> <<"loop true do", "    case e do", "        X v ->">> \o Ind(Ind(Ind(stm)))
                                 \o <<"        end", "        else end", "    end", "    break", "end">>
    [] c = "case-else-in-loop" -> <<"loop true do", "    case e do", "        X v ->", "            c1 :: v", "        end", "        else">> \o Ind(Ind(Ind(stm)))
                                  \o <<"        end", "    end", "    break", "end">>
    [] c = "loop-in-if" -> <<"if b do", "    loop true do">> \o Ind(Ind(stm \o <<"break">>)) \o <<"    end", "end">>
CfContexts == <<"fn", "pu">>       \* the construct is written in start (impure) / in a pure helper function
CfEnv == <<"b :: true", "e :: E.X 1">>
CfText(t, f, w, c) ==
    LET body == CfEnv \o CfConstruct(c, CfStmts(f, t)) IN
    IF w = "fn" THEN Prog(CfTops, body \o <<"print(1)">>)
    ELSE Prog(CfTops \o <<"w :: pu do">> \o Ind(body) \o <<"end">>, <<"w()">>)
\* without `do` the loop takes exactly one statement
CfApplicable(q) == q[2][2] # "loop-nodo" \/ q[1][2] \in {"direct", "arg-fn", "arg-pu"}
CfMust(t, f, w, c) ==
    /\ w = "fn" \/ f \in PureFlavours
    /\ \/ t = "ret"
       \/ f = "direct" /\ c \in LoopConstructs
       \/ f \in {"loop-in-fn", "loop-in-pu"}
CfCase(q) == LET t == q[1][1]  f == q[1][2]  w == q[2][1]  c == q[2][2] IN
             MkCase("ctlfn", t \o "/" \o f, w \o "/" \o c, 0, Main(CfText(t, f, w, c)), "", CfMust(t, f, w, c))
CfCells == SelectSeq(Grid(Grid(CfTransfers, CfFlavours, Pair), Grid(CfContexts, CfConstructs, Pair), Pair), CfApplicable)

---------------------------------------------------------------------------
(* DEAD CODE (family dead): a transfer that is NOT the last statement of its block, followed by every kind of      *)
(* statement, at every block position, in every kind of function body.  Whatever the emitter does with code that   *)
(* cannot run (emit it, wrap the transfer, leave the rest out), blocks must stay balanced.                         *)
DeadTransfers == <<[cls |-> "ret", line |-> "ret", int |-> FALSE, loop |-> FALSE],
                   [cls |-> "ret-value", line |-> "ret 1", int |-> TRUE, loop |-> FALSE],
                   [cls |-> "break", line |-> "break", int |-> FALSE, loop |-> TRUE],
                   [cls |-> "continue", line |-> "continue", int |-> FALSE, loop |-> TRUE],
                   [cls |-> "unreachable", line |-> "<!>", int |-> FALSE, loop |-> FALSE]>>
DeadKinds == <<"print", "value", "const-def", "fn-def", "fn-def-int", "fn-def-nested", "fn-def-if-loop", "pu-def",
               "lambda-arg", "iife", "blob-methods", "do-block", "if", "if-else", "if-elif-else", "if-expr", "case",
               "case-expr", "loop", "loop-continue", "and", "ret-again", "unreachable", "several">>
FnDefLines == <<"g :: fn do", "    print(1)", "end", "g()">>
IfElseLines == <<"if b do", "    print(1)", "else", "    print(2)", "end">>
LoopLines == <<"loop true do", "    break", "end">>
DeadFollow(kk, d) ==
  CASE kk = "print" -> <<"print(1)">>
    [] kk = "value" -> <<"2">>
    [] kk = "const-def" -> <<"c :: 5", "print(c)">>
    [] kk = "fn-def" -> FnDefLines
    [] kk = "fn-def-int" -> <<"g :: fn -> int do", "    1", "end", "print(g())">>
    [] kk = "fn-def-nested" -> <<"g :: fn do", "    q :: fn do", "        print(1)", "    end", "    q()", "end", "g()">>
    [] kk = "fn-def-if-loop" -> <<"g :: fn do", "    if b do", "        loop true do", "            break", "        end", "    end", "end", "g()">>
    [] kk = "pu-def" -> <<"g :: pu -> int do", "    1", "end", "print(g())">>
    [] kk = "lambda-arg" -> <<"h(fn do", "    print(1)", "end)">>
    [] kk = "iife" -> <<"(fn do", "    print(1)", "end)()">>
    [] kk = "blob-methods" -> <<"a2 :: A { m: fn do", "    print(1)", "end }", "a2.m()">>
    [] kk = "do-block" -> <<"do", "    print(1)", "end">>
    [] kk = "if" -> <<"if b do", "    print(1)", "end">>
    [] kk = "if-else" -> IfElseLines
    [] kk = "if-elif-else" -> <<"if b do", "    print(1)", "elif b do", "    print(2)", "else", "    print(3)", "end">>
    [] kk = "if-expr" -> <<"y :: if b do 1 else 2 end", "print(y)">>
    [] kk = "case" -> <<"case e do", "    X v -> print(v) end", "    else print(0) end", "end">>
    [] kk = "case-expr" -> <<"y :: case e do", "    X v -> v end", "    else 0 end", "end", "print(y)">>
    [] kk = "loop" -> LoopLines
    [] kk = "loop-continue" -> <<"z := 0", "loop z < 2 do", "    z += 1", "    continue", "end">>
    [] kk = "and" -> <<"b and b", "print(1)">>
    [] kk = "ret-again" -> <<IF d.int THEN "ret 2" ELSE "ret">>
    [] kk = "unreachable" -> <<"<!>">>
    [] kk = "several" -> FnDefLines \o IfElseLines \o LoopLines \o <<"print(4)">>
DeadBlocks == <<"plain", "do-block", "if", "else", "both", "elif", "case-arm", "case-else", "case-all", "loop", "if-in-loop">>
DeadBlock(bk, seq) ==
  CASE bk = "plain" -> seq
    [] bk = "do-block" -> <<"do">> \o Ind(seq) \o <<"end">>
    [] bk = "if" -> <<"if b do">> \o Ind(seq) \o <<"end">>
    [] bk = "else" -> <<"if b do", "    print(0)", "else">> \o Ind(seq) \o <<"end">>
    [] bk = "both" -> <<"if b do">> \o Ind(seq) \o <<"else">> \o Ind(seq) \o <<"end">>
    [] bk = "elif" -> <<"if b do", "    print(0)", "elif b do">> \o Ind(seq) \o <<"else", "    print(3)", "end">>
    [] bk = "case-arm" -> <<"case e do", "    X v ->">> \o Ind(Ind(seq)) \o <<"    end", "    else end", "end">>
    [] bk = "case-else" -> <<"case e do", "    X v -> print(v) end", "    else">> \o Ind(Ind(seq)) \o <<"    end", "end">>
    [] bk = "case-all" -> <<"case e do", "    X v ->">> \o Ind(Ind(seq)) \o <<"    end", "    Y ->">> \o Ind(Ind(seq))
                          \o <<"    end", "    else">> \o Ind(Ind(seq)) \o <<"    end", "end">>
    [] bk = "loop" -> <<"loop true do">> \o Ind(seq) \o <<"end">>
    [] bk = "if-in-loop" -> <<"loop true do", "    print(5)", "    if b do">> \o Ind(Ind(seq)) \o <<"    end", "    break", "end">>
DeadWraps == <<"top", "closure", "method", "lambda", "iife">>
DeadTops == <<"A :: blob { m: fn -> void }", "AI :: blob { m: fn -> int }", "E :: enum", "    X int,", "    Y,", "end",
              "h :: fn c: fn -> void do", "    c()", "end", "hi :: fn c: fn -> int do", "    print(c())", "end">>
DeadText(d, kk, w, bk) ==
    LET seq == <<d.line>> \o DeadFollow(kk, d)
        blk == DeadBlock(bk, seq)
        inloop == IF d.loop /\ bk \notin {"loop", "if-in-loop"} THEN <<"loop true do">> \o Ind(blk \o <<"break">>) \o <<"end">> ELSE blk
        body == CfEnv \o inloop \o <<IF d.int THEN "3" ELSE "print(9)">>
        sig == IF d.int THEN "fn -> int do" ELSE "fn do" IN
    CASE w = "top" -> Prog(DeadTops \o <<"w :: " \o sig>> \o Ind(body) \o <<"end">>, <<IF d.int THEN "print(w())" ELSE "w()">>)
      [] w = "closure" -> Prog(DeadTops, <<"k :: " \o sig>> \o Ind(body) \o <<"end", IF d.int THEN "print(k())" ELSE "k()">>)
      [] w = "method" -> Prog(DeadTops, <<"am :: " \o (IF d.int THEN "AI" ELSE "A") \o " { m: " \o sig>> \o Ind(body)
                                        \o <<"end }", IF d.int THEN "print(am.m())" ELSE "am.m()">>)
      [] w = "lambda" -> Prog(DeadTops, <<(IF d.int THEN "hi(" ELSE "h(") \o sig>> \o Ind(body) \o <<"end)">>)
      [] w = "iife" -> Prog(DeadTops, <<(IF d.int THEN "print((" ELSE "(") \o sig>> \o Ind(body) \o <<IF d.int THEN "end)())" ELSE "end)()">>)
\* quick tier: the full grid transfer x follower x block in a top-level function, and transfer x follower in every other
\* kind of function body at the plain position; the thorough tier takes the whole four-way product
DeadInQuick(q) == q[2][1] = "top" \/ q[2][2] = "plain"
DeadCase(q) == LET d == q[1][1]  kk == q[1][2]  w == q[2][1]  bk == q[2][2] IN
               MkCase("dead", d.cls \o "/" \o kk, w \o "/" \o bk, 0, Main(DeadText(d, kk, w, bk)), "", TRUE)
DeadAllCells == Grid(Grid(DeadTransfers, DeadKinds, Pair), Grid(DeadWraps, DeadBlocks, Pair), Pair)
DeadNotInQuick(q) == ~DeadInQuick(q)
DeadCells == SelectSeq(DeadAllCells, DeadInQuick)
DeadRestCells == SelectSeq(DeadAllCells, DeadNotInQuick)

---------------------------------------------------------------------------
(* CONTROL TRANSFERS IN VALUE POSITION (family ctlx, round 3).  `if` and `case` are expressions in Sylt and their   *)
(* branches are statement lists wherever the expression is written, so `continue`, `break` and `ret` can sit inside *)
(* the right-hand side of a definition, an argument, an operand, a list element ...  Dimensions: transfer x form of *)
(* the if / case expression (which branch transfers) x value site x loop context (is it the only transfer of the    *)
(* loop, which of two nested loops owns it, loop inside a closure inside a loop) x function.                        *)
CxTops == <<"A :: blob { v: int }", "E :: enum", "    X int,", "    Y,", "end", "h :: fn q: int -> int do", "    q", "end",
            "h2 :: fn p: int, q: int -> int do", "    p + q", "end">>
CxEnv == <<"x := 0", "y := 0", "b := true", "e := E.X 1", "a := A { v: 1 }">>
CxTransfers == <<"continue", "break", "ret">>
CxForms == <<"if-then", "if-else", "if-elif", "if-multi", "case-arm", "case-else", "nested-if", "case-in-if">>
CxForm(f, t) ==
  CASE f = "if-then" -> <<"if x == 3 do " \o t \o " else x * 2 end">>
    [] f = "if-else" -> <<"if x == 3 do 1 else " \o t \o " end">>
    [] f = "if-elif" -> <<"if x == 3 do 1 elif x == 4 do " \o t \o " else 2 end">>
    [] f = "if-multi" -> <<"if x == 3 do", "    print(0)", "    " \o t, "elif x > 8 do", "    0", "else", "    x * 2", "end">>
    [] f = "case-arm" -> <<"case e do", "    X v -> " \o t \o " end", "    else 2 end", "end">>
    [] f = "case-else" -> <<"case e do", "    X v -> v end", "    else " \o t \o " end", "end">>
    [] f = "nested-if" -> <<"if x == 3 do (if b do " \o t \o " else 1 end) else 2 end">>
    [] f = "case-in-if" -> <<"if x == 3 do", "    case e do", "        X v -> " \o t \o " end", "        else 2 end", "    end", "else", "    2", "end">>
\* the lines ls with pre written before the first and post after the last
Wrap(pre, ls, post) == IF Len(ls) = 1 THEN <<pre \o ls[1] \o post>>
                       ELSE <<pre \o ls[1]>> \o SubSeq(ls, 2, Len(ls) - 1) \o <<ls[Len(ls)] \o post>>
CxSites == <<"def", "const", "assign", "opassign", "field-assign", "print-arg", "call-arg", "second-arg", "arrow-lhs",
             "operand-left", "operand-right", "compare", "negate", "list-elem", "tuple-elem", "blob-field",
             "variant-payload", "if-cond", "in-if-stmt", "in-do-block", "in-case-stmt", "stmt", "stmt-do-block">>
CxSite(s, ls) ==
  CASE s = "def" -> Wrap("w := ", ls, "")
    [] s = "const" -> Wrap("w :: ", ls, "")
    [] s = "assign" -> Wrap("y = ", ls, "")
    [] s = "opassign" -> Wrap("y += ", ls, "")
    [] s = "field-assign" -> Wrap("a.v = ", ls, "")
    [] s = "print-arg" -> Wrap("print(", ls, ")")
    [] s = "call-arg" -> Wrap("y = h(", ls, ")")
    [] s = "second-arg" -> Wrap("y = h2(x, (", ls, "))")
    [] s = "arrow-lhs" -> Wrap("y = (", ls, ") -> h()")
    [] s = "operand-left" -> Wrap("y = (", ls, ") + 1")
    [] s = "operand-right" -> Wrap("y = 1 + (", ls, ")")
    [] s = "compare" -> Wrap("c := (", ls, ") < 2")
    [] s = "negate" -> Wrap("y = -(", ls, ")")
    [] s = "list-elem" -> Wrap("l := [1, (", ls, ")]")
    [] s = "tuple-elem" -> Wrap("t := (1, (", ls, "))")
    [] s = "blob-field" -> Wrap("a2 := A { v: ", ls, " }")
    [] s = "variant-payload" -> Wrap("e2 := E.X (", ls, ")")
    [] s = "if-cond" -> Wrap("if (", ls, ") == 2 do print(1) end")
    [] s = "in-if-stmt" -> <<"if b do">> \o Ind(Wrap("w := ", ls, "")) \o <<"end">>
    [] s = "in-do-block" -> <<"do">> \o Ind(Wrap("w := ", ls, "")) \o <<"end">>
    [] s = "in-case-stmt" -> <<"case e do", "    X u ->">> \o Ind(Ind(Wrap("w := ", ls, ""))) \o <<"    end", "    else end", "end">>
    [] s = "stmt" -> ls                                         \* statement position, value not used
    [] s = "stmt-do-block" -> <<"do">> \o Ind(ls) \o <<"end">>
CxLoops == <<"only", "and-continue-stmt", "and-break-stmt", "inner", "outer-after-inner", "outer-before-inner",
             "in-closure-in-loop", "in-if">>
InnerLoop == <<"z := 0", "loop z < 3 do", "    z += 1", "    if z == 2 do continue end", "end">>
CxLoop(lp, site) ==
  CASE lp = "only" -> <<"loop x < 5 do">> \o Ind(<<"x += 1">> \o site \o <<"y += 1">>) \o <<"end">>
    [] lp = "and-continue-stmt" ->
         <<"loop x < 5 do">> \o Ind(<<"x += 1", "if x == 9 do continue end">> \o site \o <<"y += 1">>) \o <<"end">>
    [] lp = "and-break-stmt" ->
         <<"loop x < 5 do">> \o Ind(<<"x += 1", "if x == 9 do break end">> \o site \o <<"y += 1">>) \o <<"end">>
    [] lp = "inner" ->
         <<"loop x < 5 do", "    x += 1", "    z := 0", "    loop z < 3 do">> \o Ind(Ind(<<"z += 1">> \o site \o <<"y += 1">>))
         \o <<"    end", "end">>
    [] lp = "outer-after-inner" -> <<"loop x < 5 do">> \o Ind(<<"x += 1">> \o InnerLoop \o site \o <<"y += 1">>) \o <<"end">>
    [] lp = "outer-before-inner" -> <<"loop x < 5 do">> \o Ind(<<"x += 1">> \o site \o InnerLoop \o <<"y += 1">>) \o <<"end">>
    [] lp = "in-closure-in-loop" ->
         <<"loop x < 5 do", "    x += 1", "    k :: fn do", "        z := 0", "        loop z < 3 do">>
         \o Ind(Ind(Ind(<<"z += 1">> \o site \o <<"y += 1">>))) \o <<"        end", "    end", "    k()", "end">>
    [] lp = "in-if" -> <<"if b do", "    loop x < 5 do">> \o Ind(Ind(<<"x += 1">> \o site \o <<"y += 1">>)) \o <<"    end", "end">>
CxContexts == <<"start", "helper">>
CxText(t, f, s, lp, w) ==
    LET body == CxEnv \o CxLoop(lp, CxSite(s, CxForm(f, t))) \o <<"print(y)">> IN
    IF w = "start" THEN Prog(CxTops, body) ELSE Prog(CxTops \o <<"w :: fn do">> \o Ind(body) \o <<"end">>, <<"w()">>)
\* quick tier: the star of the product (every site in the plain loop; every loop context for four sites; the helper
\* function for one site); the thorough tier takes the whole product
CxStarSites == {"def", "call-arg", "operand-right", "stmt"}
CxInQuick(q) == LET s == q[2][1][1]  lp == q[2][1][2]  w == q[2][2] IN
                \/ w = "start" /\ lp = "only"
                \/ w = "start" /\ s \in CxStarSites
                \/ s = "def"
CxNotInQuick(q) == ~CxInQuick(q)
CxCase(q) == LET t == q[1][1]  f == q[1][2]  s == q[2][1][1]  lp == q[2][1][2]  w == q[2][2] IN
             MkCase("ctlx", t \o "/" \o f, s \o "/" \o lp \o "/" \o w, 0, Main(CxText(t, f, s, lp, w)), "", TRUE)
CxAllCells == Grid(Grid(CxTransfers, CxForms, Pair), Grid(Grid(CxSites, CxLoops, Pair), CxContexts, Pair), Pair)
CxCells == SelectSeq(CxAllCells, CxInQuick)
CxRestCells == SelectSeq(CxAllCells, CxNotInQuick)

---------------------------------------------------------------------------
(* STRING-LITERAL CONTENT (family strc, round 3): a control character (or a non-ASCII separator) x what directly   *)
(* FOLLOWS it in the literal x what precedes it x site of the literal.  Whatever the emitter does with such a       *)
(* character (copy it, escape it as \ddd / \xhh / \u{..}), the neighbours must not change what Lua reads: the chunk *)
(* loads AND - for contents without a backslash, where Sylt leaves no room for interpretation - running it prints   *)
(* exactly the bytes of the literal (field `expect`; the recorder writes the output in placeholder form).           *)
TAB == "\t"
ScChars == <<[cls |-> "none", c |-> "k"],                       \* comparator: an ordinary letter
             [cls |-> "nul", c |-> U("0000")], [cls |-> "soh", c |-> U("0001")], [cls |-> "bel", c |-> U("0007")],
             [cls |-> "bs", c |-> U("0008")], [cls |-> "tab", c |-> TAB], [cls |-> "lf", c |-> LF],
             [cls |-> "vt", c |-> U("000B")], [cls |-> "ff", c |-> U("000C")], [cls |-> "cr", c |-> U("000D")],
             [cls |-> "em", c |-> U("0019")], [cls |-> "sub", c |-> U("001A")], [cls |-> "esc", c |-> U("001B")],
             [cls |-> "us", c |-> U("001F")], [cls |-> "del", c |-> U("007F")], [cls |-> "nel", c |-> U("0085")],
             [cls |-> "csi", c |-> U("009B")], [cls |-> "linesep", c |-> U("2028")]>>
ScFollows == <<"end", "digit", "zero", "digits2", "digits3", "letter", "hexletter", "space", "squote", "ansi", "brace",
               "again", "again-digit", "bs-pair", "bs-n">>
ScFollow(f, c) ==
  CASE f = "end" -> ""
    [] f = "digit" -> "7"
    [] f = "zero" -> "0"
    [] f = "digits2" -> "99 bells"
    [] f = "digits3" -> "1234"
    [] f = "letter" -> "a"
    [] f = "hexletter" -> "fA"
    [] f = "space" -> " z"
    [] f = "squote" -> "'"
    [] f = "ansi" -> "[31m"
    [] f = "brace" -> "{7}"
    [] f = "again" -> c
    [] f = "again-digit" -> c \o "8"
    [] f = "bs-pair" -> BS \o BS \o "7"
    [] f = "bs-n" -> BS \o "n7"
ScPositions == <<"start", "after-letter", "after-digit", "after-bs-pair">>
ScBefore(p) == CASE p = "start" -> "" [] p = "after-letter" -> "q" [] p = "after-digit" -> "2" [] p = "after-bs-pair" -> BS \o BS
ScContent(ch, f, p) == ScBefore(p) \o ch.c \o ScFollow(f, ch.c)
\* Sylt gives a backslash no meaning of its own (Lua reads the escape): no byte expectation for those contents
ScHasBs(f, p) == f \in {"bs-pair", "bs-n"} \/ p = "after-bs-pair"
ScSites == <<"print", "local", "concat", "arg", "global", "tuple-elem", "blob-field", "if-value">>
\* every site prints the literal exactly once, then `1`: [text, out] = program text, what it prints before the 1
ScProg(site, s) ==
  CASE site = "print" -> [text |-> Prog(<<>>, <<"print(" \o Q(s) \o ")", "print(1)">>), out |-> s]
    [] site = "local" -> [text |-> Prog(<<>>, <<"s := " \o Q(s), "print(s)", "print(1)">>), out |-> s]
    [] site = "concat" -> [text |-> Prog(<<>>, <<"print(" \o Q("<") \o " + " \o Q(s) \o " + " \o Q(">") \o ")", "print(1)">>),
                           out |-> "<" \o s \o ">"]
    [] site = "arg" -> [text |-> Prog(<<"f :: fn a: str -> str do", "    a", "end">>, <<"print(f(" \o Q(s) \o "))", "print(1)">>), out |-> s]
    [] site = "global" -> [text |-> Prog(<<"s :: " \o Q(s)>>, <<"print(s)", "print(1)">>), out |-> s]
    [] site = "tuple-elem" -> [text |-> Prog(<<>>, <<"t := (1, " \o Q(s) \o ")", "print(t[1])", "print(1)">>), out |-> s]
    [] site = "blob-field" -> [text |-> Prog(<<"A :: blob { s: str }">>, <<"a := A { s: " \o Q(s) \o " }", "print(a.s)", "print(1)">>), out |-> s]
    [] site = "if-value" -> [text |-> Prog(<<>>, <<"b := true", "s := if b do " \o Q(s) \o " else " \o Q("x") \o " end", "print(s)", "print(1)">>),
                             out |-> s]
ScExpect(site, ch, f, p) == IF ScHasBs(f, p) THEN "-" ELSE ScProg(site, ScContent(ch, f, p)).out \o LF \o "1" \o LF
ScInQuick(q) == q[2][2] = "print" \/ (q[2][1] = "start" /\ q[2][2] \in {"local", "concat", "arg"})
ScNotInQuick(q) == ~ScInQuick(q)
ScCase(q) == LET ch == q[1][1]  f == q[1][2]  p == q[2][1]  site == q[2][2] IN
             MkCaseE("strc", ch.cls \o "/" \o f, p \o "/" \o site, 0, Main(ScProg(site, ScContent(ch, f, p)).text), "", TRUE,
                     ScExpect(site, ch, f, p))
ScAllCells == Grid(Grid(ScChars, ScFollows, Pair), Grid(ScPositions, ScSites, Pair), Pair)
ScCells == SelectSeq(ScAllCells, ScInQuick)
ScRestCells == SelectSeq(ScAllCells, ScNotInQuick)

---------------------------------------------------------------------------
(* WIDE CONSTRUCTS (family wide, round 3): N comma-separated items in one construct - arguments of every kind of   *)
(* call, elements of list / tuple / set / dict / blob literals, parameters of a function literal - for widths on    *)
(* both sides of anything a pretty-printer or a line-wrapping emitter might treat differently.                      *)
WideNs == <<1, 2, 3, 8, 12, 13, 16, 25, 40, 80>>
Seq1(n, F(_)) == Join([i \in 1..n |-> F(i)], ", ")
PInt(i) == "p" \o Num(i) \o ": int"
PStr(i) == "p" \o Num(i) \o ": str"
TInt(i) == "int"
ArgVar(i) == "x"
ArgCall(i) == "h(" \o Num(i) \o ")"
ArgStr(i) == Q("a" \o Num(i))
ArgList(i) == "[" \o Num(i) \o "]"
ArgPair(i) == "(" \o Num(i) \o ", " \o Num(i) \o ")"
ArgField(i) == "f" \o Num(i) \o ": " \o Num(i)
ArgIf(i) == "(if b do " \o Num(i) \o " else 0 end)"
Rest(n, F(_)) == Join([i \in 1..(n - 1) |-> F(i + 1)], ", ")        \* items 2..n
WideK(n) == <<"k :: fn " \o Seq1(n, PInt) \o " -> int do", "    p1", "end">>
WideH == <<"h :: fn q: int -> int do", "    q", "end">>
WideKinds == <<"call-global", "call-stmt", "call-arrow", "call-prime", "call-closure", "call-method", "call-fn-param",
               "call-iife", "call-external", "call-var-args", "call-call-args", "call-str-args", "call-if-args",
               "call-nested", "call-in-loop", "list", "list-vars", "list-of-lists", "list-of-calls", "tuple", "set", "dict",
               "blob-literal", "variant-tuple", "lambda-params", "fn-type">>
WideText(kd, n) ==
  CASE kd = "call-global" -> Prog(WideK(n), <<"print(k(" \o Seq1(n, Num) \o "))">>)
    [] kd = "call-stmt" -> Prog(<<"kv :: fn " \o Seq1(n, PInt) \o " do", "    print(p1)", "end">>, <<"kv(" \o Seq1(n, Num) \o ")", "print(0)">>)
    [] kd = "call-arrow" -> Prog(WideK(n), <<"print(1 -> k(" \o Rest(n, Num) \o "))">>)
    [] kd = "call-prime" -> Prog(WideK(n), <<"y := k' " \o Seq1(n, Num), "print(y)">>)
    [] kd = "call-closure" -> Prog(<<>>, <<"c := 1", "kc :: fn " \o Seq1(n, PInt) \o " -> int do", "    p1 + c", "end",
                                           "print(kc(" \o Seq1(n, Num) \o "))">>)
    [] kd = "call-method" -> Prog(<<"A :: blob { m: fn " \o Seq1(n, TInt) \o " -> int }">>,
                                  <<"a := A { m: fn " \o Seq1(n, PInt) \o " -> int do p1 end }", "print(a.m(" \o Seq1(n, Num) \o "))">>)
    [] kd = "call-fn-param" -> Prog(WideK(n) \o <<"ap :: fn g: fn " \o Seq1(n, TInt) \o " -> int -> int do",
                                                  "    g(" \o Seq1(n, Num) \o ")", "end">>, <<"print(ap(k))">>)
    [] kd = "call-iife" -> Prog(<<>>, <<"print((fn " \o Seq1(n, PInt) \o " -> int do p1 end)(" \o Seq1(n, Num) \o "))">>)
    [] kd = "call-external" -> Prog(<<"ext : fn " \o Seq1(n, TInt) \o " -> void : external">>, <<"ext(" \o Seq1(n, Num) \o ")">>)
    [] kd = "call-var-args" -> Prog(WideK(n), <<"x := 1", "print(k(" \o Seq1(n, ArgVar) \o "))">>)
    [] kd = "call-call-args" -> Prog(WideK(n) \o WideH, <<"print(k(" \o Seq1(n, ArgCall) \o "))">>)
    [] kd = "call-str-args" -> Prog(<<"ks :: fn " \o Seq1(n, PStr) \o " -> str do", "    p1", "end">>, <<"print(ks(" \o Seq1(n, ArgStr) \o "))">>)
    [] kd = "call-if-args" -> Prog(WideK(n), <<"b := true", "print(k(" \o Seq1(n, ArgIf) \o "))">>)
    [] kd = "call-nested" -> Prog(WideK(n), <<"print(k(k(" \o Seq1(n, Num) \o ")" \o (IF n = 1 THEN "" ELSE ", " \o Rest(n, Num)) \o "))">>)
    [] kd = "call-in-loop" -> Prog(WideK(n), <<"x := 0", "loop x < 2 do", "    x += k(" \o Seq1(n, Num) \o ")", "end", "print(x)">>)
    [] kd = "list" -> Prog(<<>>, <<"l := [" \o Seq1(n, Num) \o "]", "print(l)">>)
    [] kd = "list-vars" -> Prog(<<>>, <<"x := 1", "print([" \o Seq1(n, ArgVar) \o "])">>)
    [] kd = "list-of-lists" -> Prog(<<>>, <<"print([" \o Seq1(n, ArgList) \o "])">>)
    [] kd = "list-of-calls" -> Prog(WideH, <<"print([" \o Seq1(n, ArgCall) \o "])">>)
    [] kd = "tuple" -> Prog(<<>>, <<"t := (" \o Seq1(n, Num) \o (IF n = 1 THEN ",)" ELSE ")"), "print(t)">>)
    [] kd = "set" -> Prog(<<>>, <<"s := set.from_list' [" \o Seq1(n, Num) \o "]", "print(s)">>)
    [] kd = "dict" -> Prog(<<>>, <<"d := dict.from_list' [" \o Seq1(n, ArgPair) \o "]", "print(d)">>)
    [] kd = "blob-literal" -> Prog(<<"B :: blob { " \o Seq1(n, LAMBDA i : "f" \o Num(i) \o ": int") \o " }">>,
                                   <<"a := B { " \o Seq1(n, ArgField) \o " }", "print(a.f1)">>)
    [] kd = "variant-tuple" -> Prog(<<"V :: enum", "    T (" \o Seq1(n, TInt) \o (IF n = 1 THEN ",)," ELSE "),"), "end">>,
                                    <<"print(V.T (" \o Seq1(n, Num) \o (IF n = 1 THEN ",))" ELSE "))")>>)
    [] kd = "lambda-params" -> Prog(<<"ap :: fn g: fn " \o Seq1(n, TInt) \o " -> int -> int do", "    g(" \o Seq1(n, Num) \o ")", "end">>,
                                    <<"print(ap(fn " \o Seq1(n, PInt) \o " -> int do p1 end))">>)
    [] kd = "fn-type" -> Prog(<<>>, <<"g: fn " \o Seq1(n, TInt) \o " -> int = fn " \o Seq1(n, PInt) \o " -> int do p1 end",
                                      "print(g(" \o Seq1(n, Num) \o "))">>)
WideCase(kd, n) == MkCase("wide", kd, "n" \o Num(n), n, Main(WideText(kd, n)), "", TRUE)

---------------------------------------------------------------------------
\* The universe as a sequence of SEGMENTS [seg, n]; case i is the (i - offset)-th case of the segment it falls into.
\* The quick universe is a PREFIX of the thorough one: an index means the same case in both tiers.
QuickSegs == <<[seg |-> "name", n |-> GridN(LowerSpell, LowerSites)], [seg |-> "cname", n |-> GridN(UpperSpell, UpperSites)],
               [seg |-> "str", n |-> GridN(StrContents, StrSites)], [seg |-> "num", n |-> GridN(NumLits, NumSites)],
               [seg |-> "unused", n |-> GridN(UForms, UPositions)], [seg |-> "size", n |-> Len(SizeCells)],
               [seg |-> "ctl", n |-> GridN(CtlKinds, CtlPositions)], [seg |-> "ctlfn", n |-> Len(CfCells)],
               [seg |-> "dead", n |-> Len(DeadCells)],
               [seg |-> "ctlx", n |-> Len(CxCells)], [seg |-> "strc", n |-> Len(ScCells)], [seg |-> "wide", n |-> GridN(WideKinds, WideNs)]>>
RestSegs == <<[seg |-> "dead-rest", n |-> Len(DeadRestCells)], [seg |-> "unused2", n |-> GridN(UOperands, UOperands)],
              [seg |-> "ctlx-rest", n |-> Len(CxRestCells)], [seg |-> "strc-rest", n |-> Len(ScRestCells)]>>
Segs == IF Thorough THEN QuickSegs \o RestSegs ELSE QuickSegs
RECURSIVE SumN(_, _)
SumN(sg, i) == IF i = 0 THEN 0 ELSE sg[i].n + SumN(sg, i - 1)
\* [segs, start (first index of every segment minus one), total].  NOTE on the shape of the definitions from here on:
\* with -coverage TLC builds its cost model by walking the definition graph below every action as a TREE (every
\* reference to a definition - LET definitions included - expands its body again; only operator PARAMETERS are leaves),
\* and one copy of Segs costs seconds.  So Segs is referenced exactly once, and what is derived from it is handed on
\* as an argument.
MkSegTable(sg) == [segs |-> sg, start |-> [sx \in 1..Len(sg) |-> SumN(sg, sx - 1)], total |-> SumN(sg, Len(sg))]
SegTable == MkSegTable(Segs)
NCases == SegTable.total
SegCase(seg, jj) ==
  CASE seg = "name" -> GridAt(LowerSpell, LowerSites, NameCase, jj)
    [] seg = "cname" -> GridAt(UpperSpell, UpperSites, CNameCase, jj)
    [] seg = "str" -> GridAt(StrContents, StrSites, StrCase, jj)
    [] seg = "num" -> GridAt(NumLits, NumSites, NumCase, jj)
    [] seg = "unused" -> GridAt(UForms, UPositions, UCase, jj)
    [] seg = "size" -> SizeCase(SizeCells[jj])
    [] seg = "ctl" -> GridAt(CtlKinds, CtlPositions, CtlCase, jj)
    [] seg = "ctlfn" -> CfCase(CfCells[jj])
    [] seg = "dead" -> DeadCase(DeadCells[jj])
    [] seg = "ctlx" -> CxCase(CxCells[jj])
    [] seg = "strc" -> ScCase(ScCells[jj])
    [] seg = "wide" -> GridAt(WideKinds, WideNs, WideCase, jj)
    [] seg = "dead-rest" -> DeadCase(DeadRestCells[jj])
    [] seg = "unused2" -> GridAt(UOperands, UOperands, U2Case, jj)
    [] seg = "ctlx-rest" -> CxCase(CxRestCells[jj])
    [] seg = "strc-rest" -> ScCase(ScRestCells[jj])
\* the segment an index falls into (no recursion over a lazily evaluated remainder: TLC re-evaluates operator
\* arguments at every use when it evaluates an initial-state predicate)
SegOf(tb, i) == CHOOSE sx \in 1..Len(tb.segs) : tb.start[sx] < i /\ i <= tb.start[sx] + tb.segs[sx].n
CaseAtSeg(tb, i, sx) == SegCase(tb.segs[sx].seg, i - tb.start[sx])
\* case i of the universe described by the segment table tb, derived on demand (i \in 1..tb.total)
CaseIn(tb, i) == CaseAtSeg(tb, i, SegOf(tb, i))
CaseAt(i) == CaseIn(SegTable, i)
Families == IF Thorough THEN <<"name", "cname", "str", "num", "unused", "size", "ctl", "ctlfn", "dead", "ctlx", "strc", "wide", "unused2">>
            ELSE <<"name", "cname", "str", "num", "unused", "size", "ctl", "ctlfn", "dead", "ctlx", "strc", "wide">>
=============================================================================
