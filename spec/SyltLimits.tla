------------------------------ MODULE SyltLimits ------------------------------
(***************************************************************************)
(* C01, dimension "literal arithmetic at the numeric limits".              *)
(*                                                                         *)
(* Sylt's ints are 64-bit two's-complement integers that wrap around, its  *)
(* floats IEEE-754 doubles (the compiled program computes with Lua 5.3     *)
(* numbers).  The pairwise-nesting universe only has small numbers.  Here  *)
(* every ordered pair of ATOMS - literals at and around the limits: the    *)
(* largest int, powers of two whose products reach 2^63 and 2^64, the      *)
(* largest power of two a float can hold, 0.0 and -0.0 - is combined by    *)
(* every arithmetic operator,                                              *)
(*   D1  a op b: written with literals only, through variables, half and   *)
(*       half, as a global initialiser, negated, as a compound assignment; *)
(*       all forms must show the same value (SyltNum64 / SyltValues Nx*:   *)
(*       wrap-around modulo 2^64, overflow to an infinity, NaN, -0.0),     *)
(*   D2  where the value of a op b is itself a limit value (an int beyond  *)
(*       the small model, an infinity, a NaN, a zero, a huge float) it is  *)
(*       combined once more - with a third atom on either side and with    *)
(*       itself - and compared (NaN is unordered and unequal to itself),   *)
(*   CTX where it is the smallest or largest int, an infinity, a NaN or     *)
(*       -0.0, it is also evaluated as a component of every kind of larger *)
(*       expression (tuple, list, argument, closure / if / case value,     *)
(*       blob field, compound assignment, next to a variable),             *)
(*   LIT a float literal beyond the largest double (it denotes +infinity). *)
(* A candidate statement whose expression leaves the model (a float result *)
(* that would have to be rounded, a division by zero) is left out of its   *)
(* program: the specification decides that by evaluating the expression.   *)
(***************************************************************************)
EXTENDS SyltGen, SyltSem

LimIntAtoms == [
  i0    |-> I(0),
  i1    |-> I(1),
  i2    |-> I(2),
  m1    |-> Un("-", I(1)),
  m2    |-> Un("-", I(2)),
  max   |-> IBig("9223372036854775807"),
  max1  |-> IBig("9223372036854775806"),
  half  |-> IBig("4611686018427387904"),
  p32   |-> IBig("4294967296"),
  p31   |-> IBig("2147483648"),
  sq    |-> IBig("3037000500"),
  mmax  |-> Un("-", IBig("9223372036854775807")),
  mhalf |-> Un("-", IBig("4611686018427387904")),
  mp32  |-> Un("-", IBig("4294967296")) ]

LimFloatAtoms == [
  z    |-> Fl(0, 0),
  mz   |-> Un("-", Fl(0, 0)),
  one  |-> Fl(1, 0),
  mone |-> Un("-", Fl(1, 0)),
  hlf  |-> Fl(1, 1),
  sesq |-> Fl(3, 1),
  two  |-> Fl(2, 0),
  h    |-> FBig(1, 1023),             \* 2^1023, the largest power of two
  mh   |-> Un("-", FBig(1, 1023)),
  h15  |-> FBig(3, 1022),             \* 1.5 * 2^1023
  q    |-> FBig(1, 512) ]             \* q * q = 2^1024 overflows

LimAtoms(kd) == IF kd = "int" THEN LimIntAtoms ELSE LimFloatAtoms
LimOps(kd) == IF kd = "int" THEN {"+", "-", "*"} ELSE {"+", "-", "*", "/"}
LimTy(kd) == IF kd = "int" THEN TInt ELSE TFloat

LX == 301
LY == 302
LV == 303
LRes == 1020

\* the value of a closed literal expression, or the reason it has none
LimEval(e) == EvalE(e, 0, NewState(50))
LimDrops(e) == LimEval(e).sig # "ok"
LimIsLimit(e) == LET r == LimEval(e) IN
                 r.sig = "ok" /\ (IsNxNum(r.v) \/ (r.v.k = "float" /\ r.v.n = 0))

LimOpName(op) == CASE op = "+" -> "add" [] op = "-" -> "sub" [] op = "*" -> "mul" [] op = "/" -> "div"

(* ---- D1 ---------------------------------------------------------------- *)
LimD1Keys == {<<"d1", kd, a, op, b>> : kd \in {"int"}, a \in DOMAIN LimIntAtoms, op \in LimOps("int"), b \in DOMAIN LimIntAtoms}
        \cup {<<"d1", kd, a, op, b>> : kd \in {"float"}, a \in DOMAIN LimFloatAtoms, op \in LimOps("float"), b \in DOMAIN LimFloatAtoms}

LimD1Prog(kd, an, op, bn) ==
  LET a == LimAtoms(kd)[an]
      b == LimAtoms(kd)[bn]
      lit == Bin(op, a, b)
      var == Bin(op, V(LX), V(LY)) IN
  <<DefN(LRes, "const", LimTy(kd), lit, "res"),
    StartDef(<<DefM(LX, LimTy(kd), a), DefM(LY, LimTy(kd), b),
               Print(lit), Print(var), Print(Bin(op, a, V(LY))), Print(Bin(op, V(LX), b)), Print(V(LRes)),
               Print(Un("-", lit)), Print(Un("-", var)),
               Print(Bin("==", lit, var)), Print(Bin("<", lit, var)), Print(Bin("<=", var, lit)),
               DefM(LV, LimTy(kd), a), Asg(op \o "=", V(LV), b), Print(V(LV)),
               Ex(Bin("<=>", lit, var))>>)>>

(* ---- D2 ---------------------------------------------------------------- *)
LimD2Keys == {<<"d2", k[2], k[3], k[4], k[5]>> : k \in LimD1Keys}
\* third operands of D2
LimThird(kd) == IF kd = "int" THEN {"i1", "m1", "max"} ELSE {"one", "z", "h"}
LimCmpThird(kd) == IF kd = "int" THEN "i1" ELSE "one"

\* candidate statements: the pair <<literal form, form with the inner operands in variables>> of one outer expression
LimD2Cands(kd, lit, var) ==
  LET thirds == LimThird(kd)
      c1 == LimAtoms(kd)[LimCmpThird(kd)] IN
  UNION { UNION { { <<Bin(op2, lit, LimAtoms(kd)[c]), Bin(op2, var, LimAtoms(kd)[c])>>,
                    <<Bin(op2, LimAtoms(kd)[c], lit), Bin(op2, LimAtoms(kd)[c], var)>> } : c \in thirds }
          : op2 \in LimOps(kd) }
  \cup { <<Bin(op2, lit, lit), Bin(op2, var, var)>> : op2 \in LimOps(kd) }
  \cup { <<Bin(cmp, lit, c1), Bin(cmp, var, c1)>> : cmp \in {"<", ">=", "=="} }
  \cup { <<Bin(cmp, lit, lit), Bin(cmp, var, lit)>> : cmp \in {"==", "!=", "<", "<="} }

RECURSIVE LimSetToSeq(_)
LimSetToSeq(s) == IF s = {} THEN <<>> ELSE LET x == CHOOSE y \in s : TRUE IN <<x>> \o LimSetToSeq(s \ {x})

RECURSIVE LimPrintBoth(_, _, _)
LimPrintBoth(cs, i, hi) == IF i > hi \/ i > Len(cs) THEN <<>> ELSE <<Print(cs[i][1]), Print(cs[i][2])>> \o LimPrintBoth(cs, i + 1, hi)

\* the statements are spread over functions part1, part2, .. of LimChunk candidates each (a Lua function has at most 200
\* locals and the emitter spends several per statement: known finding K1 of C06), each with its own x and y
LimChunk == 10
LimPartId(j) == 1100 + j
RECURSIVE LimParts(_, _, _, _, _)
LimParts(kd, a, b, cs, j) ==
  IF (j - 1) * LimChunk >= Len(cs) THEN <<>>
  ELSE <<DefN(LimPartId(j), "const", TNone,
              Fn(<<>>, TVoid, <<DefM(LX, LimTy(kd), a), DefM(LY, LimTy(kd), b)>>
                               \o LimPrintBoth(cs, (j - 1) * LimChunk + 1, j * LimChunk)), "part" \o ToString(j))>>
       \o LimParts(kd, a, b, cs, j + 1)
RECURSIVE LimCallParts(_, _)
LimCallParts(n, j) == IF j > n THEN <<>> ELSE <<Ex(Call(V(LimPartId(j)), <<>>))>> \o LimCallParts(n, j + 1)

\* <<>> when a op b is no limit value (the program is then not part of the universe)
LimD2Prog(kd, an, op, bn) ==
  LET a == LimAtoms(kd)[an]
      b == LimAtoms(kd)[bn]
      lit == Bin(op, a, b)
      var == Bin(op, V(LX), V(LY)) IN
  IF ~LimIsLimit(lit) THEN <<>>
  ELSE LET cands == LimD2Cands(kd, lit, var)
           \* int arithmetic never leaves the model
           keep == IF kd = "int" THEN cands ELSE {c \in cands : ~LimDrops(c[1])}
           parts == LimParts(kd, a, b, LimSetToSeq(keep), 1) IN
       parts \o <<StartDef(LimCallParts(Len(parts), 1))>>

(* ---- CTX --------------------------------------------------------------- *)
(* Where a op b is one of the values the target language has no literal for - the smallest int, an infinity, a NaN - or
   the largest int or -0.0, the expression is also evaluated as a component of every kind of larger expression: tuple
   and list element, argument, value of a closure, of an if-expression, of a case arm, blob field, right-hand side of a
   compound assignment, operand next to a variable; again written with literals only and through variables. *)
LimCtxKeys == {<<"ctx", k[2], k[3], k[4], k[5]>> : k \in LimD1Keys}
LimIsSpecial(e) == LET r == LimEval(e) IN
                   r.sig = "ok" /\ (r.v.k = "fx" \/ (r.v.k = "i64" /\ r.v.w \in {Min64, Max64}))
LId == 1040
LimCtxForms(kd, e) ==
  LET zero == IF kd = "int" THEN I(0) ELSE Fl(0, 0) IN
  <<Print(Tup(<<e, I(1)>>)),
    Print(Lst(<<e, zero>>)),
    Print(Call(V(LId), <<e>>)),
    Print(IIFE(LimTy(kd), <<Ex(e)>>)),
    Print(If2(Bin("<", V(LV), zero), <<Ex(zero)>>, <<Ex(e)>>)),
    Print(CaseE(Var1("Le", "P", e), <<CArmB("P", 310, <<Ex(V(310))>>)>>, <<Ex(zero)>>)),
    Print(Fld(BlobL("Lb", <<FI("n", e)>>), "n")),
    Asg("+=", V(LV), e), Print(V(LV)),
    Asg("=", V(LV), zero),
    Print(Bin("+", V(LV), e)), Print(Bin("*", e, V(LV))),
    Print(Bin("==", Tup(<<e, I(1)>>), Tup(<<e, I(1)>>)))>>
LimCtxProg(kd, an, op, bn) ==
  LET a == LimAtoms(kd)[an]
      b == LimAtoms(kd)[bn]
      lit == Bin(op, a, b)
      var == Bin(op, V(LX), V(LY)) IN
  IF ~LimIsSpecial(lit) THEN <<>>
  ELSE <<BlobD("Lb", <<FD("n", LimTy(kd))>>),
         EnumD("Le", <<VD1("P", LimTy(kd)), VD0("Q")>>),
         DefN(LId, "const", TNone, Fn(<<P(311, LimTy(kd))>>, LimTy(kd), <<Ex(V(311))>>), "same"),
         DefN(LimPartId(1), "const", TNone,
              Fn(<<>>, TVoid, <<DefM(LV, LimTy(kd), IF kd = "int" THEN I(0) ELSE Fl(0, 0))>> \o LimCtxForms(kd, lit)), "part1"),
         DefN(LimPartId(2), "const", TNone,
              Fn(<<>>, TVoid, <<DefM(LX, LimTy(kd), a), DefM(LY, LimTy(kd), b),
                                DefM(LV, LimTy(kd), IF kd = "int" THEN I(0) ELSE Fl(0, 0))>> \o LimCtxForms(kd, var)), "part2"),
         StartDef(LimCallParts(2, 1))>>

(* ---- LIT --------------------------------------------------------------- *)
LimLitKeys == {<<"lit", "float", n, "-", "-">> : n \in {"print", "neg", "cmp", "sub", "var", "global"}}
LimHuge == FInfLit("1e999")
LimLitProg(n) ==
  CASE n = "print"  -> <<StartDef(<<Print(LimHuge)>>)>>
    [] n = "neg"    -> <<StartDef(<<Print(Un("-", LimHuge))>>)>>
    [] n = "cmp"    -> <<StartDef(<<Print(Bin(">", LimHuge, FBig(1, 1023))), Print(Bin("==", LimHuge, LimHuge))>>)>>
    [] n = "sub"    -> <<StartDef(<<Print(Bin("-", LimHuge, LimHuge)), Print(Bin("*", LimHuge, Fl(0, 0)))>>)>>
    [] n = "var"    -> <<StartDef(<<DefM(LX, TFloat, LimHuge), Print(V(LX)), Print(Bin("/", Fl(1, 0), V(LX)))>>)>>
    [] n = "global" -> <<DefN(LRes, "const", TFloat, LimHuge, "res"), StartDef(<<Print(V(LRes))>>)>>

LimKeys == LimD1Keys \cup LimD2Keys \cup LimCtxKeys \cup LimLitKeys
LimProg(k) == CASE k[1] = "d1" -> LimD1Prog(k[2], k[3], k[4], k[5])
                [] k[1] = "d2" -> LimD2Prog(k[2], k[3], k[4], k[5])
                [] k[1] = "ctx" -> LimCtxProg(k[2], k[3], k[4], k[5])
                [] k[1] = "lit" -> LimLitProg(k[3])
LimId(k) == [o |-> "lim-" \o k[1] \o "-" \o k[2], pos |-> 0,
             i |-> (IF k[1] = "lit" THEN k[3] ELSE k[3] \o "-" \o LimOpName(k[4]) \o "-" \o k[5]), h |-> "limits"]
=============================================================================
