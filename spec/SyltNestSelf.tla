----------------------------- MODULE SyltNestSelf -----------------------------
(***************************************************************************)
(* C01, dimension "whose `self`": blob literals nested in methods of other *)
(* blob literals.                                                          *)
(*                                                                         *)
(* `self` of a blob literal is in scope in the fields that ARE function    *)
(* literals (its methods; redundant parentheses do not matter).  In every  *)
(* other field `self` means what it means around the literal - inside a    *)
(* method of an enclosing blob literal: THAT blob (SyltSem,                *)
(* EvalBlobFields).  Both blobs have a field `n`, so reading or writing    *)
(* through the wrong `self` is well typed and shows in the trace.          *)
(*                                                                         *)
(*   SHAPE of the inner literal's field        `self` in it is             *)
(*     fn       a function literal             the inner blob              *)
(*     paren    ( function literal )           the inner blob              *)
(*     paren2   (( function literal ))         the inner blob              *)
(*     call     wrap(function literal)         the enclosing method's      *)
(*     call2    pick(c, fn literal, fn lit.)   the enclosing method's      *)
(*     ifpick   if c do fn lit. else fn lit.   the enclosing method's      *)
(*     casepick case .. do A j -> fn lit. ..   the enclosing method's      *)
(*     iife     (fn -> fn do fn literal end)() the enclosing method's      *)
(*     tupidx   (fn literal, 0)[0]             the enclosing method's      *)
(*     var      a closure defined just before  the enclosing method's      *)
(*     data*    data expressions over self.n   the enclosing method's      *)
(*   USE of self in the function literal: read self.n / self.n += 1 /     *)
(*     read it from a closure nested once more                             *)
(*   CONTEXT of the inner literal in the outer method: the method's value, *)
(*     a local, inside a closure that the method calls, or inside a method *)
(*     of a THIRD blob literal built by the outer method (three `self`s).  *)
(* The outer blob has n = 10 (later 20), the middle one n = 50 + k, the    *)
(* inner ones n = k (one of them later 7): every reading is distinct.      *)
(***************************************************************************)
EXTENDS SyltGen

NsFnI == TFn(<<>>, TInt)
NsWrap == 1030
NsPick == 1031
NsInc == 1032
NsK == V(410)

NsFnShapes == {"fn", "paren", "paren2", "call", "call2", "ifpick", "casepick", "iife", "tupidx", "var"}
NsDataShapes == {"data", "dataparen", "dataiife", "dataif", "datatup", "datacall"}
NsUses == {"read", "write", "nested"}
NsCtxs == {"direct", "local", "closure", "deep"}

NsReadBody(off) == <<Ex(Bin("+", Bin("*", Fld(Self, "n"), I(100)), Bin("+", NsK, I(off))))>>
NsBody(use, off) ==
  CASE use = "read"   -> NsReadBody(off)
    [] use = "write"  -> <<Asg("+=", Fld(Self, "n"), I(1))>> \o NsReadBody(off)
    [] use = "nested" -> <<Ex(IIFE(TInt, NsReadBody(off)))>>
NsF(use, off) == Fn(<<>>, TInt, NsBody(use, off))

\* [pre |-> statements placed before the inner literal, e |-> the field initialiser]
NsShape(s, use) ==
  LET f == NsF(use, 0)  g == NsF(use, 50)  c == Bin(">", NsK, I(1))  sn == Fld(Self, "n") IN
  CASE s = "fn"       -> [pre |-> <<>>, e |-> f]
    [] s = "paren"    -> [pre |-> <<>>, e |-> Paren(f)]
    [] s = "paren2"   -> [pre |-> <<>>, e |-> Paren(Paren(f))]
    [] s = "call"     -> [pre |-> <<>>, e |-> Call(V(NsWrap), <<f>>)]
    [] s = "call2"    -> [pre |-> <<>>, e |-> Call(V(NsPick), <<c, f, g>>)]
    [] s = "ifpick"   -> [pre |-> <<>>, e |-> If2(c, <<Ex(f)>>, <<Ex(g)>>)]
    [] s = "casepick" -> [pre |-> <<>>, e |-> CaseE(If2(c, <<Ex(Var1("Sel", "A", NsK))>>, <<Ex(Var0("Sel", "B"))>>),
                                                    <<CArmB("A", 420, <<Ex(f)>>)>>, <<Ex(g)>>)]
    [] s = "iife"     -> [pre |-> <<>>, e |-> IIFE(NsFnI, <<Ex(f)>>)]
    [] s = "tupidx"   -> [pre |-> <<>>, e |-> Idx(Tup(<<f, I(0)>>), 0)]
    [] s = "var"      -> [pre |-> <<DefC(430, NsFnI, f)>>, e |-> V(430)]
    [] s = "data"     -> [pre |-> <<>>, e |-> Bin("+", sn, I(1))]
    [] s = "dataparen" -> [pre |-> <<>>, e |-> Bin("+", Paren(sn), I(1))]
    [] s = "dataiife" -> [pre |-> <<>>, e |-> IIFE(TInt, <<Ex(Bin("+", sn, I(1)))>>)]
    [] s = "dataif"   -> [pre |-> <<>>, e |-> If2(Bin(">", sn, I(15)), <<Ex(sn)>>, <<Ex(Un("-", sn))>>)]
    [] s = "datatup"  -> [pre |-> <<>>, e |-> Idx(Tup(<<sn, I(1)>>), 0)]
    [] s = "datacall" -> [pre |-> <<>>, e |-> Call(V(NsInc), <<sn>>)]

NsIsData(s) == s \in NsDataShapes
NsInnerTy(s) == IF NsIsData(s) THEN TName("InD") ELSE TName("In")
NsInnerLit(s, use) ==
  IF NsIsData(s) THEN BlobL("InD", <<FI("n", NsK), FI("d", NsShape(s, use).e)>>)
  ELSE BlobL("In", <<FI("n", NsK), FI("get", NsShape(s, use).e)>>)

\* body of the outer method mk :: fn k: int -> In
NsMethodBody(ctx, s, use) ==
  LET pre == NsShape(s, use).pre
      lit == NsInnerLit(s, use)
      ty == NsInnerTy(s) IN
  CASE ctx = "direct"  -> pre \o <<Ex(lit)>>
    [] ctx = "local"   -> pre \o <<DefC(431, ty, lit), Ex(V(431))>>
    [] ctx = "closure" -> <<Ex(IIFE(ty, pre \o <<Ex(lit)>>))>>
    [] ctx = "deep"    -> <<DefC(432, TName("Mid"),
                                 BlobL("Mid", <<FI("n", Bin("+", NsK, I(50))), FI("mk", Fn(<<>>, ty, pre \o <<Ex(lit)>>))>>)),
                            Ex(Call(Fld(V(432), "mk"), <<>>))>>

NsDecls(s) ==
  <<BlobD("In", <<FD("n", TInt), FD("get", NsFnI)>>),
    BlobD("InD", <<FD("n", TInt), FD("d", TInt)>>),
    BlobD("Out", <<FD("n", TInt), FD("mk", TFn(<<TInt>>, NsInnerTy(s)))>>),
    BlobD("Mid", <<FD("n", TInt), FD("mk", TFn(<<>>, NsInnerTy(s)))>>),
    EnumD("Sel", <<VD1("A", TInt), VD0("B")>>),
    \* wrap :: fn f: fn -> int -> fn -> int do fn -> int do f() + 1000 end end
    DefN(NsWrap, "const", TNone,
         Fn(<<P(401, NsFnI)>>, NsFnI, <<Ex(Fn(<<>>, TInt, <<Ex(Bin("+", Call(V(401), <<>>), I(1000)))>>))>>), "wrap"),
    \* pick :: fn c: bool, f: fn -> int, g: fn -> int -> fn -> int do if c do f else g end end
    DefN(NsPick, "const", TNone,
         Fn(<<P(402, TBool), P(403, NsFnI), P(404, NsFnI)>>, NsFnI, <<Ex(If2(V(402), <<Ex(V(403))>>, <<Ex(V(404))>>))>>), "pick"),
    DefN(NsInc, "const", TNone, Fn(<<P(405, TInt)>>, TInt, <<Ex(Bin("+", V(405), I(1)))>>), "inc2")>>

NsO == V(440)
NsA == V(441)
NsB == V(442)
NsGet(v) == Call(Fld(v, "get"), <<>>)
NsMk(k) == Call(Fld(NsO, "mk"), <<I(k)>>)

NsProg(ctx, s, use) ==
  NsDecls(s) \o <<StartDef(
    <<DefM(440, TName("Out"), BlobL("Out", <<FI("n", I(10)),
                                            FI("mk", Fn(<<P(410, TInt)>>, NsInnerTy(s), NsMethodBody(ctx, s, use)))>>))>> \o
    (IF NsIsData(s)
     THEN <<DefM(441, NsInnerTy(s), NsMk(1)), Print(Fld(NsA, "d")),
            Asg("=", Fld(NsO, "n"), I(20)),
            DefM(442, NsInnerTy(s), NsMk(2)), Print(Fld(NsB, "d")), Print(Fld(NsA, "d")), Print(Fld(NsA, "n")), Print(Fld(NsO, "n"))>>
     ELSE <<DefM(441, NsInnerTy(s), NsMk(1)), DefM(442, NsInnerTy(s), NsMk(2)),
            Print(NsGet(NsA)), Print(NsGet(NsB)),
            Asg("=", Fld(NsO, "n"), I(20)), Asg("=", Fld(NsA, "n"), I(7)),
            Print(NsGet(NsA)), Print(NsGet(NsB)),
            Print(Fld(NsO, "n")), Print(Fld(NsA, "n")), Print(Fld(NsB, "n"))>>))>>

NsKeys == {<<"ns", ctx, s, use>> : ctx \in NsCtxs, s \in NsFnShapes, use \in NsUses}
     \cup {<<"ns", ctx, s, "read">> : ctx \in NsCtxs, s \in NsDataShapes}
NsId(k) == [o |-> "ns-" \o k[2], pos |-> 0, i |-> k[3] \o "-" \o k[4], h |-> "nestself"]
=============================================================================
