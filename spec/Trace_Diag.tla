----------------------------- MODULE Trace_Diag -----------------------------
(***************************************************************************)
(* Trace validation for C15.  One record per planted case, recorded by the *)
(* harness (c15) from the real compiler:                                   *)
(*   idx, kind, file, pos, shape,  the case (cross universe: must equal    *)
(*   rel                           Case(idx), re-derived HERE)             *)
(*   leaf, twin                    the texts of leaf.sy and twin.sy, the   *)
(*                                 modules colliding names are imported    *)
(*                                 from (their layout must be the one the  *)
(*                                 case's rel names: RelOK)                *)
(*   path, text, marker            the file holding the planted construct: *)
(*                                 its path, its text (non-ASCII shown as  *)
(*                                 '@', char for char) and the 1-based     *)
(*                                 character offset of the offending       *)
(*                                 element of the planted form             *)
(*   fstart                        offset of the planted form's first line *)
(*                                 (= marker for one-line constructs)      *)
(*   base_ok                       the unplanted program compiled          *)
(*   res, efile, eline             result class of the planted program and *)
(*                                 file / span.line_start of its FIRST     *)
(*                                 error ("" / 0 when there is none)       *)
(*   marker2, efile2, eline2       offset of the second offending element  *)
(*                                 (0 unless the kind is in TwoKinds) and  *)
(*                                 file / line of the SECOND error         *)
(* Record k is validated independently (Init ranges over all k).  A record *)
(* that contradicts the universe or whose marker does not point at the     *)
(* construct SyltDiag spells is a tool error (Assert), never a verdict.    *)
(* The expected file and line are computed here from text and marker; a    *)
(* record whose observation differs goes to st = "fail" and prints one     *)
(* REJECT line.  A rejected BASE program prints REJECT why=base-rejected   *)
(* (a generator defect; the check counts these, they are not verdicts).    *)
(***************************************************************************)
EXTENDS SyltDiag, Json, IOUtils

VARIABLES k,    \* index of the record being validated
          st    \* "new" | "run" | "ok" | "fail" | "basebad"

tvars == <<text, pos, toks, ln, k, st>>

Rec == ndJsonDeserialize(IOEnv.TRACE)
N == Len(Rec)
Universe == IOEnv.UNIVERSE        \* "cross": records are exactly the applicable cases, in index order
                                  \* "part" : records are some applicable cases (controls, replays)
                                  \* "free" : random variations, the case fields are taken from the record

CaseOf(r) == [kind |-> r.kind, file |-> r.file, pos |-> r.pos, shape |-> r.shape, rel |-> r.rel]

C == CaseOf(Rec[k])

WellFormed(j) ==
    LET r == Rec[j] c == CaseOf(r) IN
    /\ Assert(c.kind \in Range(Kinds) /\ c.file \in Range(Files) /\ c.pos \in Range(Poss) \cup {"nested"}
                  /\ c.rel \in Range(Rels),
              <<"record outside the dimensions", j, c>>)
    /\ Assert(Applicable(c), <<"record for an inapplicable case", j, c>>)
    /\ Assert(r.path = PathOf(c.file), <<"path does not belong to the file class", j, r.path>>)
    /\ Assert(MarkerOK(c, r.text, r.marker, r.fstart, r.marker2),
              <<"marker does not point at the offending element of the planted form", j, c, r.marker, r.fstart, r.marker2>>)
    /\ Assert(DefSpellings(c.kind) # {} =>
                 (r.marker \in Sites(r.text, c.kind) /\ Cardinality(Sites(r.text, c.kind)) = 2),
              <<"a duplicate needs exactly two definition sites", j, c>>)
    /\ Assert(RelOK(c, r.text, r.leaf, r.twin), <<"imported modules are not laid out as rel says", j, c>>)
    /\ Universe \in {"cross", "part"} =>
          /\ Assert(r.idx \in 1..NCases /\ c = Case(r.idx), <<"universe mismatch at record", j, c>>)
          /\ Assert(ShapeOK(c, r.text, r.fstart), <<"preceding text does not have the named shape", j, c>>)
    /\ Universe = "cross" =>
          /\ Assert(N = Cardinality(ApplicableIdx), <<"cross universe incomplete", N, Cardinality(ApplicableIdx)>>)
          /\ Assert(j > 1 => r.idx > Rec[j - 1].idx, <<"records not in index order", j>>)
    /\ Assert((r.res = "err") = (r.eline > 0) /\ r.res \in {"ok", "err", "panic"}, <<"malformed observation", j>>)
    /\ Assert(r.eline2 >= 0 /\ (r.eline2 > 0 => r.eline > 0), <<"malformed second observation", j>>)

\* (TLC computes initial states in one thread: the costly well-formedness checks and the expectation are a step)
TraceInit ==
    /\ k \in 1..N
    /\ text = Rec[k].text
    /\ pos = Rec[k].marker
    /\ toks = <<>>
    /\ ln = 0
    /\ st = "new"

\* after this step pos is the offending position (for duplicates the later introduction) and ln its line
TraceCheck ==
    /\ st = "new"
    /\ WellFormed(k)
    /\ LET op == OffendingPos(C, text, pos) IN pos' = op /\ ln' = LineOf(text, op)
    /\ st' = "run"
    /\ UNCHANGED <<text, toks, k>>

\* the first error against the (first) offending element; for a form with two offending elements then the second
\* error against the second element
Obs1 == Verdict(C, ln, Rec[k].res, Rec[k].efile, Rec[k].eline)
Obs == IF C.kind \in TwoKinds /\ Obs1 = "conforms"
       THEN Verdict2(C, LineOf(text, Rec[k].marker2), Rec[k].efile2, Rec[k].eline2)
       ELSE Obs1

TraceBaseRejected ==
    /\ st = "run" /\ ~Rec[k].base_ok
    /\ st' = "basebad"
    /\ PrintT(<<"REJECT", ToJson([rec |-> k, why |-> "base-rejected", expected_file |-> ExpectedFile(C),
                                  expected_line |-> ln])>>)
    /\ UNCHANGED <<text, pos, toks, ln, k>>

TraceConforms ==
    /\ st = "run" /\ Rec[k].base_ok
    /\ Obs = "conforms"
    /\ st' = "ok"
    /\ UNCHANGED <<text, pos, toks, ln, k>>

TraceReject ==
    /\ st = "run" /\ Rec[k].base_ok
    /\ Obs # "conforms"
    /\ st' = "fail"
    /\ PrintT(<<"REJECT", ToJson([rec |-> k, why |-> Obs, expected_file |-> ExpectedFile(C),
                                  expected_line |-> ln])>>)
    /\ UNCHANGED <<text, pos, toks, ln, k>>

TraceNext == TraceCheck \/ TraceBaseRejected \/ TraceConforms \/ TraceReject

TraceSpec == TraceInit /\ [][TraceNext]_tvars

\* Evaluated in every state of every validated record.  text never changes, pos and ln only in TraceCheck, so the
\* (expensive, character-by-character) cross-check is evaluated in the "run" state of each record only.
TraceInv ==
    /\ st \in {"new", "run", "ok", "fail", "basebad"}
    /\ pos \in 1..Len(text) /\ (st # "new" => ln >= 1)
    /\ st = "run" => /\ ln = LineByStarts(text, pos)      \* SyltLex's newline count agrees with counting the line starts up to pos
                     /\ pos >= Rec[k].marker
    /\ st = "ok" => (Rec[k].efile = PathOf(Rec[k].file) /\ Rec[k].eline = ln /\ Rec[k].res = "err")

TraceTotal == st = "run" => ENABLED TraceNext
=============================================================================
