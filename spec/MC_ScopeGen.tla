---------------------------- MODULE MC_ScopeGen ----------------------------
(* C09: the programs of SyltGen's pairwise-nesting universe (the same Cases as MC_Annot / MC_Sem emit), or a seeded  *)
(* sample of them: with KEEP = K > 1 only the (outer, position, inner) triples and single templates whose hash       *)
(* (name lengths, position, SEED) is 0 mod K are emitted - in all their fillings and harness contexts.               *)
EXTENDS SyltGen, Json, IOUtils

Keep == IF "KEEP" \in DOMAIN IOEnv THEN atoi(IOEnv.KEEP) ELSE 1
Seed == IF "SEED" \in DOMAIN IOEnv THEN atoi(IOEnv.SEED) ELSE 1
Sel(o, pos, i) == (Len(o) * 7 + Len(i) * 13 + pos * 5 + Len(o) * Len(i) + Seed) % Keep = 0

VARIABLES k, pc
vars == <<k, pc>>

HarnessFor(o, i) == HarnessNames(ResultType(o), UsesLocals(o) \/ UsesLocals(i))
Cases ==
  UNION { UNION { {[o |-> p[1], pos |-> p[2], i |-> p[3], h |-> hn, e |-> e] : hn \in HarnessFor(p[1], p[3])}
                  : e \in Nest(p[1], p[2], p[3]) } : p \in {q \in Pairs : Sel(q[1], q[2], q[3])} }
  \cup UNION { UNION { {[o |-> n, pos |-> 0, i |-> "-", h |-> hn, e |-> e] : hn \in HarnessFor(n, n)}
                  : e \in Instances(n, 100, 0) } : n \in {m \in TemplateNames : Sel(m, 0, "-")} }

Init == pc = "start" /\ k \in Cases
Emit == /\ pc = "start" /\ pc' = "done" /\ k' = k
        /\ PrintT(<<"REPLAY", ToJson([id |-> [o |-> k.o, pos |-> k.pos, i |-> k.i, h |-> k.h],
                                      tops |-> Harness(k.h, k.e, ResultType(k.o))])>>)
Next == Emit
Spec == Init /\ [][Next]_vars
TypeOk == pc \in {"start", "done"}
=============================================================================
