SPECIFICATION FSpec
CONSTANTS
  MaxErrs = 0
  MaxBytes = 0
  MaxRender = 0
  NumInputs = 0
INVARIANTS FTypeOk
CHECK_DEADLOCK FALSE
