--------------------------- MODULE Trace_Pipeline ---------------------------
(***************************************************************************)
(* Trace validation for C07: every run the recorder (harness c07) observed *)
(* must be a COMPLETE behaviour of SyltPipeline.                           *)
(*                                                                         *)
(* One ndjson record per input:                                            *)
(*   [id, u, idx, input, ev]   ev = sequence of events                     *)
(*   event = [e, r, n, len, st]                                            *)
(*     e = "start"                                                         *)
(*       | "ret"     r = "ok"  : len = bytes written, st = "compile"       *)
(*                   r = "err" : n = number of errors, len = bytes written *)
(*                               st = "parse" | "compile"                  *)
(*       | "render"  n = index of the error, len = length of its rendering *)
(*       | "finish"                                                        *)
(*       | "panic" | "render_panic" | "abort" | "timeout"  (no spec action)*)
(*       | "notrun"  the recorder gave up on the universe after too many   *)
(*                   timeouts and never started this input (no spec action:*)
(*                   nothing was observed, so nothing is accepted)         *)
(*       | "next"    (histories) the previous run is finished, the caller  *)
(*                   compiles the next program of the history in the same  *)
(*                   thread: SyltPipeline!Again                            *)
(* A record of a HISTORY (family hist: several programs compiled one after *)
(* the other in one thread) carries the events of all its runs, separated  *)
(* by "next", and a field solo = the verdict [r, st, n] of every program   *)
(* compiled alone in a fresh thread.  Every run must be a complete         *)
(* behaviour AND return the verdict of the run alone (HistoryFree); all    *)
(* programs of the history must have been run.                             *)
(* Record k is validated independently (Init ranges over all k).  Events   *)
(* are consumed one per step by the matching SyltPipeline action; ParseOk  *)
(* is the only unobserved step (the public API returns once).  A record    *)
(* whose next event no action can consume, or whose events run out before  *)
(* Finish, goes to st = "fail" and prints one REJECT line: these lines are *)
(* the check's verdicts.  All SyltPipeline invariants are evaluated in     *)
(* every state of every validated trace.                                   *)
(*                                                                         *)
(* The universe is decided HERE: for UNIVERSE = tok20.raw|.top|.body or    *)
(* tok31.raw|.top|.body record k must carry exactly                        *)
(* TokenTextAt(alphabet, idx, frame), the indices must be                  *)
(* contiguous and inside 1..NumTokenStrings(alphabet, MAXLEN); TLC prints  *)
(* the total so that the check can verify that the chunks it submitted     *)
(* cover the universe.  For UNIVERSE = fam.<family> record k must carry id,*)
(* text (all files, FamText) and std flag of FamCase(family, idx), indices  *)
(* contiguous and inside 1..FamSize(family).                               *)
(* A mismatch is a tool error (Assert), not a verdict.                     *)
(***************************************************************************)
EXTENDS SyltPipeline, Json, IOUtils

VARIABLES k,      \* index of the record being validated
          j,      \* index of the next event of that record
          st,     \* "run" | "ok" | "fail"
          s       \* which run of the record is being validated (1 unless the record is a history)

tvars == <<phase, input, stage, errs, bytes, rendered, k, j, st, s>>

Rec == ndJsonDeserialize(IOEnv.TRACE)
N == Len(Rec)
Universe == IOEnv.UNIVERSE
TokUniverses == {"tok20.raw", "tok20.top", "tok20.body", "tok31.raw", "tok31.top", "tok31.body"}
IsTok == Universe \in TokUniverses
Alpha == IF Universe \in {"tok31.raw", "tok31.top", "tok31.body"} THEN Tok31 ELSE Tok20
Frame == CASE Universe \in {"tok20.top", "tok31.top"}   -> "top"
           [] Universe \in {"tok20.body", "tok31.body"} -> "body"
           [] OTHER                                      -> "raw"
MaxTokLen == IF IsTok THEN atoi(IOEnv.MAXLEN) ELSE 0
\* UNIVERSE = fam.<family>: the index-addressed families of structured programs (FamCase)
FamUniverses == {"fam.nest", "fam.nestraw", "fam.nestsolo", "fam.place", "fam.cyc", "fam.selfty", "fam.text", "fam.entry", "fam.lit", "fam.hist"}
IsFam == Universe \in FamUniverses
FamName == SubSeq(Universe, 5, Len(Universe))
IsHistFam == IsFam /\ FamName \in HistFamilies
\* a record of a history (also when replayed outside its family): it carries the verdicts of its programs compiled alone
IsHist(q) == "solo" \in DOMAIN Rec[q]
NRuns(q) == IF IsHist(q) THEN Len(Rec[q].solo) ELSE 1
Total == IF IsTok THEN NumTokenStrings(Alpha, MaxTokLen) ELSE IF IsFam THEN FamSize(FamName) ELSE N

\* the text record q must carry, as derived by TLC
CaseInput(q) == IF IsTok THEN TokenTextAt(Alpha, Rec[q].idx, Frame) ELSE Rec[q].id

UniverseOK(q) ==
    /\ Rec[q].idx = Rec[1].idx + q - 1
    /\ Rec[q].idx >= 1 /\ Rec[q].idx <= Total
    /\ IsTok => Rec[q].input = TokenTextAt(Alpha, Rec[q].idx, Frame)
    /\ (IsFam /\ ~IsHistFam) =>
                LET c == FamCase(FamName, Rec[q].idx) IN
                /\ Rec[q].id = c.id
                /\ Rec[q].input = FamText(c)
                /\ Rec[q].nostd = c.nostd
                /\ ~IsHist(q)
    /\ IsHistFam =>
                LET c == FamCase(FamName, Rec[q].idx) IN
                /\ Rec[q].id = c.id
                /\ Rec[q].input = HistText(c)
                /\ IsHist(q) /\ Len(Rec[q].solo) = Len(c.steps)

---------------------------------------------------------------------------
NE == Len(Rec[k].ev)
Ev == Rec[k].ev[j]
HasEv == j <= NE

TraceInit ==
    /\ k \in 1..N
    /\ Assert(UniverseOK(k), <<"universe mismatch at record", k, Rec[k].idx, Rec[k].input>>)
    /\ (k = 1 => PrintT(<<"UNIVERSE", ToJson([universe |-> Universe, total |-> Total, first |-> Rec[1].idx,
                                             last |-> Rec[N].idx, records |-> N])>>))
    /\ Init
    /\ j = 1 /\ st = "run" /\ s = 1

Consume == j' = j + 1 /\ UNCHANGED <<k, st, s>>

\* histories: the verdict this run has when its program is compiled alone, as recorded
Alone == [r |-> Rec[k].solo[s].r, st |-> Rec[k].solo[s].st, n |-> Rec[k].solo[s].n]
AgreesWithAlone == IsHist(k) => (s <= NRuns(k) /\ Ev.r = Alone.r /\ Ev.st = Alone.st /\ Ev.n = Alone.n)

TraceStart ==
    /\ st = "run" /\ HasEv /\ Ev.e = "start"
    /\ Start(CaseInput(k))
    /\ Consume

\* unobserved: the front end accepted (the next event reports the back end's outcome)
TraceParseOk ==
    /\ st = "run" /\ HasEv /\ Ev.e = "ret" /\ Ev.st = "compile"
    /\ ParseOk
    /\ UNCHANGED <<k, j, st, s>>

TraceRetErr ==
    /\ st = "run" /\ HasEv /\ Ev.e = "ret" /\ Ev.r = "err"
    /\ AgreesWithAlone
    /\ \/ Ev.st = "parse" /\ ParseErr(Ev.n)
       \/ Ev.st = "compile" /\ CompileErr(Ev.n, Ev.len)
    /\ Consume
    /\ IsHist(k) => HistoryFree(Alone)'              \* (holds by AgreesWithAlone; stated in the protocol's own terms)

TraceRetOk ==
    /\ st = "run" /\ HasEv /\ Ev.e = "ret" /\ Ev.r = "ok"
    /\ AgreesWithAlone
    /\ CompileOk(Ev.len)
    /\ Consume
    /\ IsHist(k) => HistoryFree(Alone)'              \* (holds by AgreesWithAlone; stated in the protocol's own terms)

TraceRender ==
    /\ st = "run" /\ HasEv /\ Ev.e = "render"
    /\ Ev.n = Len(rendered) + 1          \* errors are rendered in the order they were returned
    /\ RenderErr(Ev.len)
    /\ Consume

TraceFinish ==
    /\ st = "run" /\ HasEv /\ Ev.e = "finish"
    /\ Finish
    /\ Consume

\* histories: the run is finished, the caller compiles the next program in the same thread
TraceAgain ==
    /\ st = "run" /\ HasEv /\ Ev.e = "next" /\ IsHist(k) /\ s < NRuns(k)
    /\ Again
    /\ j' = j + 1 /\ s' = s + 1 /\ UNCHANGED <<k, st>>

TraceStep == TraceStart \/ TraceParseOk \/ TraceRetErr \/ TraceRetOk \/ TraceRender \/ TraceFinish \/ TraceAgain

\* a complete behaviour: all events consumed and the run finished
TraceAccept ==
    /\ st = "run" /\ ~HasEv /\ Complete /\ s = NRuns(k)
    /\ st' = "ok"
    /\ UNCHANGED <<phase, input, stage, errs, bytes, rendered, k, j, s>>

Why == IF ~HasEv THEN "truncated"
       ELSE IF Ev.e \in {"panic", "render_panic", "abort", "timeout", "notrun"} THEN Ev.e
       ELSE IF Ev.e = "ret" /\ ~AgreesWithAlone THEN "history-dependent"
       ELSE IF Ev.e = "ret" /\ Ev.r = "err" /\ Ev.n = 0 THEN "err-without-errors"
       ELSE IF Ev.e = "ret" /\ Ev.r = "ok" /\ Ev.len = 0 THEN "ok-without-output"
       ELSE IF Ev.e = "render" /\ Ev.len = 0 THEN "empty-rendering"
       ELSE IF Ev.e = "finish" THEN "finish-before-all-rendered"
       ELSE "protocol"

TraceReject ==
    /\ st = "run"
    /\ ~ENABLED TraceStep
    /\ ~(~HasEv /\ Complete /\ s = NRuns(k))
    /\ st' = "fail"
    /\ PrintT(<<"REJECT", ToJson([rec |-> k, idx |-> Rec[k].idx, id |-> Rec[k].id, ev |-> j, run |-> s, phase |-> phase,
                                  errs |-> errs, rendered |-> Len(rendered), why |-> Why])>>)
    /\ UNCHANGED <<phase, input, stage, errs, bytes, rendered, k, j, s>>

TraceNext == TraceStep \/ TraceAccept \/ TraceReject

TraceSpec == TraceInit /\ [][TraceNext]_tvars

---------------------------------------------------------------------------
\* every SyltPipeline invariant is evaluated in every state of every validated trace
TraceInv == /\ TypeOK /\ FailedHasErrors /\ OkHasBytes /\ RenderedSane
            /\ FinishedIsOutcome /\ UndecidedIsBlank

\* accepted means complete; rejected means not complete or not consumable
AcceptedIsComplete == st = "ok" => Complete /\ j = NE + 1 /\ (Succeeded \/ Rejected) /\ s = NRuns(k)

\* the trace machine never gets stuck silently
TraceTotal == st = "run" => ENABLED TraceNext
=============================================================================
