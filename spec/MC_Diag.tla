------------------------------- MODULE MC_Diag -------------------------------
(* Spec-level model of SyltDiag: the universe is well formed and the text-derived line index agrees
   with a running newline counter on every prefix of the spec's own sample texts. *)
EXTENDS SyltDiag, Json
MCAlphabet == <<"a">>
ASSUME UniverseOK
ASSUME PrintT(<<"STATS", ToJson([ncases |-> NCases, applicable |-> Cardinality(ApplicableIdx),
                                 samples |-> Cardinality(SampleTexts), kinds |-> NK, files |-> NF,
                                 positions |-> NP, shapes |-> NS, rels |-> NR, shape_names |-> Shapes,
                                 ends_nl_shapes |-> EndsNLShapes, ml_string_shapes |-> MultiLineStringShapes,
                                 from_kinds |-> FromKinds, dup_kinds |-> DupKinds,
                                 ml_kinds |-> MLKinds, dd_kinds |-> DDKinds, di_kinds |-> DIKinds, decl_kinds |-> DeclKinds,
                                 conflict_kinds |-> ConflictKinds, two_kinds |-> TwoKinds,
                                 lt_decoy_shapes |-> LtDecoyShapes, mark_shapes |-> MarkShapes])>>)
=============================================================================
