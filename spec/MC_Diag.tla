------------------------------- MODULE MC_Diag -------------------------------
(* Spec-level model of SyltDiag: the universe is well formed and the text-derived line index agrees
   with a running newline counter on every prefix of the spec's own sample texts. *)
EXTENDS SyltDiag, Json
MCAlphabet == <<"a">>
ASSUME UniverseOK
ASSUME PrintT(<<"STATS", ToJson([ncases |-> NCases, applicable |-> Cardinality(ApplicableIdx),
                                 samples |-> Cardinality(SampleTexts), kinds |-> NK, files |-> NF,
                                 positions |-> NP, shapes |-> NS])>>)
=============================================================================
