SPECIFICATION CSpec
CONSTANTS
  Inputs <- MCInputs
  Procs <- MCProcs
  Results <- MCResults
  Cfgs <- MCCfgs
  Mode <- MCCounter
  MaxRuns = 4
INVARIANTS SeenIsImageOfHist HistoryIndependence
CHECK_DEADLOCK FALSE
