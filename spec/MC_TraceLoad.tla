---------------------------- MODULE MC_TraceLoad ----------------------------
(* Trace validation of recorded compile + load runs (C06). Run with environment TRACE=<file.ndjson> [FULL=1].
   The model bounds of SyltPipeline are not used in trace mode (the recorded values bind the parameters). *)
EXTENDS Trace_Load
=============================================================================
