SPECIFICATION ShareSpec
VIEW View
ACTION_CONSTRAINT ShareSane
INVARIANTS ShareTypeOK
CHECK_DEADLOCK FALSE
