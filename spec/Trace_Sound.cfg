SPECIFICATION TraceSpec
INVARIANTS StOk SndPhOk SndSound Accepted
CHECK_DEADLOCK FALSE
