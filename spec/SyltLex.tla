------------------------------ MODULE SyltLex ------------------------------
(***************************************************************************)
(* Lexical specification of Sylt (property C17, positions used by C15).    *)
(*                                                                         *)
(* A text is a TLC string; characters are one-character strings obtained   *)
(* with SubSeq.  The token classes are the documented ones                 *)
(* (sylt-tokenizer/src/token.rs read as documentation, not as code):       *)
(* identifier, int, float, string, comment, newline and the fixed          *)
(* spellings; blanks [ \t\r] separate tokens.  Tokenisation is longest     *)
(* match; equal-length ties go keyword > bool/nil > identifier and         *)
(* float > int.  Where no class matches, an error token of unspecified     *)
(* extent (>= 1 character) is emitted: the property does not say how much  *)
(* an error swallows, so the spec leaves it nondeterministic.              *)
(*                                                                         *)
(* Round 3: the Int token carries a signed 64-bit value (module            *)
(* SyltLexNum).  A digit run is matched as a whole by the int class; when   *)
(* its value does not fit, the run - exactly the run - is an Error token.  *)
(* SyltLexNum also states the value of every Int and Float token; the      *)
(* trace specification compares recorded values with it.                   *)
(*                                                                         *)
(* Positions are derived from the TEXT (line = 1 + newlines before the     *)
(* character, column = distance to the previous newline), never from any   *)
(* running counter, so the spec is independent of how the implementation   *)
(* keeps count.                                                            *)
(***************************************************************************)
EXTENDS Naturals, Sequences, FiniteSets, TLC, SyltLexNum

CONSTANTS Alphabet,     \* sequence of one-character strings (the model's universe of characters)
          MaxLen        \* texts of length 0..MaxLen are explored by the generator spec

VARIABLES text, pos, toks

lexvars == <<text, pos, toks>>

---------------------------------------------------------------------------
(* Character classes *)
Lower == {"a","b","c","d","e","f","g","h","i","j","k","l","m","n","o","p","q","r","s","t","u","v","w","x","y","z"}
Upper == {"A","B","C","D","E","F","G","H","I","J","K","L","M","N","O","P","Q","R","S","T","U","V","W","X","Y","Z"}
Digit == {"0","1","2","3","4","5","6","7","8","9"}
IdStart == Lower \cup Upper \cup {"_"}
IdCont  == IdStart \cup Digit
Blank   == {" ", "\t", "\r"}
NL      == "\n"
DQ      == "\""

(* Characters OUTSIDE the documented token alphabet.  The documented regexes are ASCII by their
   text ([A-Za-z_][A-Za-z0-9_]* , [ \t\r]+ , digits of the number forms), so none of the
   characters below belongs to any token class; each may occur only inside a string, a comment
   or an error token.  A text shown to TLC carries one ASCII STAND-IN per class (TLC cannot keep
   non-ASCII characters in states); the recorder maps every real character to the stand-in of
   its class, the tokenizer always sees the real character.  The classes are the ones that a
   regex written with a Unicode-aware shorthand (\w \d \s \b, [[:alpha:]]-like, \p{..}) could tell
   apart, so that the expectation "not part of an identifier / number / blank run" is stated - and
   explored - for each of them separately. *)
UniLetter  == {"@"}   \* a letter outside ASCII (categories L*): e-acute, lambda, a CJK ideograph
UniDigit   == {"%"}   \* a decimal digit outside ASCII (Nd): Arabic-Indic, Devanagari, fullwidth, mathematical (non-BMP)
UniNumber  == {"^"}   \* another numeric character (No, Nl): superscript two, one half, Roman numeral four
OtherSpace == {"~"}   \* white space that is not one of the three blanks nor the newline: VT, FF, NEL, NBSP, EM SPACE, IDEOGRAPHIC SPACE, LINE SEPARATOR
UniMark    == {"`"}   \* a combining mark (Mn)
UniConn    == {"&"}   \* connector punctuation other than the underscore (Pc): undertie
UniFormat  == {";"}   \* a format character (Cf): the byte-order mark U+FEFF
OtherChar  == {"$"}   \* any other character in no token: $ % ^ & ~ ` ; \ @ themselves, NUL and other controls, symbols, emoji (non-BMP)
NonToken   == UniLetter \cup UniDigit \cup UniNumber \cup OtherSpace \cup UniMark \cup UniConn \cup UniFormat \cup OtherChar

ClassName(c) == CASE c \in UniLetter  -> "uni-letter"
                  [] c \in UniDigit   -> "uni-digit"
                  [] c \in UniNumber  -> "uni-number"
                  [] c \in OtherSpace -> "other-space"
                  [] c \in UniMark    -> "uni-mark"
                  [] c \in UniConn    -> "uni-connector"
                  [] c \in UniFormat  -> "uni-format"
                  [] c \in OtherChar  -> "other-char"
                  [] c \in Lower \cup Upper \cup {"_"} -> "ascii-idchar"
                  [] c \in Digit      -> "ascii-digit"
                  [] c \in Blank      -> "blank"
                  [] c = NL           -> "newline"
                  [] c = DQ           -> "quote"
                  [] OTHER            -> "ascii-symbol"

Keywords == {"void","bool","int","float","str","if","elif","else","case","is","break","continue","in",
             "loop","blob","externblob","enum","ret","do","end","fn","pu","and","or","not","use","from",
             "as","external"}
Symbols  == {"+","-","*","/","+=","-=","*=","/=","#",":","::",":=","=","==","!=","<=>","<!>","(",")",
             "[","]","{","}",">",">=","<","<=","!","?","|","'",",",".","->","<<<<<<<",">>>>>>>"}
Fixed    == Keywords \cup Symbols
MaxFixedLen == 10

Ch(t, p) == SubSeq(t, p, p)
Sub(t, p, n) == SubSeq(t, p, p + n - 1)

(* The stand-ins really are outside every token class: no identifier / digit / blank / newline /
   quote character, and no character of any fixed spelling (checked by TLC at start-up). *)
ASSUME NonTokenSound ==
    \A c \in NonToken :
        /\ c \notin IdCont /\ c \notin Digit /\ c \notin Blank /\ c # NL /\ c # DQ
        /\ \A f \in Fixed : \A q \in 1..Len(f) : Ch(f, q) # c
ASSUME ClassesDisjoint ==
    \A c \in NonToken : Cardinality({S \in {UniLetter, UniDigit, UniNumber, OtherSpace, UniMark, UniConn,
                                              UniFormat, OtherChar} : c \in S}) = 1

AllIn(t, a, b, S) == \A q \in a..b : Ch(t, q) \in S

(* Does the n-character slice of t starting at p match class ... *)
IsIdent(t, p, n)   == n >= 1 /\ Ch(t, p) \in IdStart /\ AllIn(t, p + 1, p + n - 1, IdCont)
IsInt(t, p, n)     == n >= 1 /\ AllIn(t, p, p + n - 1, Digit)
IsDotFloat(t, p, n) ==   \* \d+\.\d* | \d*\.\d+
    /\ n >= 2
    /\ \E k \in p..(p + n - 1) :
          /\ Ch(t, k) = "."
          /\ AllIn(t, p, k - 1, Digit)
          /\ AllIn(t, k + 1, p + n - 1, Digit)
IsExpFloat(t, p, n) ==   \* \d+e(-|\+)?\d+
    /\ n >= 3
    /\ \E k \in (p + 1)..(p + n - 2) :
          /\ Ch(t, k) = "e"
          /\ AllIn(t, p, k - 1, Digit)
          /\ \/ AllIn(t, k + 1, p + n - 1, Digit)
             \/ /\ Ch(t, k + 1) \in {"-", "+"}
                /\ k + 2 <= p + n - 1
                /\ AllIn(t, k + 2, p + n - 1, Digit)
IsFloat(t, p, n)   == IsDotFloat(t, p, n) \/ IsExpFloat(t, p, n)
IsString(t, p, n)  == n >= 2 /\ Ch(t, p) = DQ /\ Ch(t, p + n - 1) = DQ
                      /\ \A q \in (p + 1)..(p + n - 2) : Ch(t, q) # DQ
IsComment(t, p, n) == n >= 2 /\ Ch(t, p) = "/" /\ Ch(t, p + 1) = "/"
                      /\ \A q \in (p + 2)..(p + n - 1) : Ch(t, q) # NL
IsNewline(t, p, n) == n = 1 /\ Ch(t, p) = NL
IsFixed(t, p, n)   == n <= MaxFixedLen /\ Sub(t, p, n) \in Fixed
IsBoolNil(t, p, n) == Sub(t, p, n) \in {"true", "false", "nil"}

Matches(t, p, n) ==
    \/ IsIdent(t, p, n) \/ IsInt(t, p, n) \/ IsFloat(t, p, n) \/ IsString(t, p, n)
    \/ IsComment(t, p, n) \/ IsNewline(t, p, n) \/ IsFixed(t, p, n)

Rem(t, p) == Len(t) - p + 1

MatchLens(t, p) == {n \in 1..Rem(t, p) : Matches(t, p, n)}

SetMax(S) == CHOOSE x \in S : \A y \in S : y <= x

(* Kind of the n-character token at p, by the priority order for equal lengths.
   Round 3: the documented Int token carries a signed 64-bit value; the longest match is decided by the
   regular expressions alone (the whole digit run), and a run whose value does not fit (SyltLexNum!IntFits,
   decided symbolically on the decimal string) is an Error token with exactly that extent - it is not
   re-lexed as shorter numbers. *)
KindOf(t, p, n) ==
    CASE IsFixed(t, p, n)    -> "fx"
      [] IsBoolNil(t, p, n)  -> IF Sub(t, p, n) = "nil" THEN "nil" ELSE "bool"
      [] IsIdent(t, p, n)    -> "id"
      [] IsFloat(t, p, n)    -> "float"
      [] IsInt(t, p, n)      -> IF IntFits(Sub(t, p, n)) THEN "int" ELSE "err"
      [] IsString(t, p, n)   -> "str"
      [] IsComment(t, p, n)  -> "comment"
      [] IsNewline(t, p, n)  -> "nl"

---------------------------------------------------------------------------
(* Positions, derived from the text alone *)
NewlinesBefore(t, p) == Cardinality({q \in 1..(p - 1) : Ch(t, q) = NL})
LineOf(t, p) == 1 + NewlinesBefore(t, p)
\* the newline before p with no newline between it and p (0 if p is on the first line).  Searched backwards from p so
\* that TLC needs time linear in p (the maximum of the set of newline positions costs it quadratic time in the number
\* of lines, and a bounded quantifier costs it the size of its interval even when it stops early).
LastNLBefore(t, p) ==
    IF \A q \in 1..(p - 1) : Ch(t, q) # NL THEN 0
    ELSE p - (CHOOSE d \in 1..(p - 1) : Ch(t, p - d) = NL /\ \A e \in 1..(d - 1) : Ch(t, p - e) # NL)
ColOf(t, p) == p - LastNLBefore(t, p)

(* The token record the specification associates with the slice (p, n) of kind k.
   txt is the token's source text; line/col of first character; lend/cend: line of the
   last character and one past the column of the last character. *)
MkTok(t, k, p, n) ==
    [k |-> k, p |-> p, n |-> n, txt |-> Sub(t, p, n),
     line |-> LineOf(t, p), cs |-> ColOf(t, p),
     lend |-> LineOf(t, p + n - 1), ce |-> ColOf(t, p + n - 1) + 1]

(* What may be emitted at position p of t (p is not a blank) *)
Expected(t, p) ==
    LET ML == MatchLens(t, p) IN
    IF ML # {}
      THEN {MkTok(t, KindOf(t, p, L), p, L) : L \in {SetMax(ML)}}   \* (L bound, not LET: TLC then computes it once)
      ELSE {MkTok(t, "err", p, n) : n \in 1..Rem(t, p)}

---------------------------------------------------------------------------
(* The lexer as a state machine *)
RECURSIVE StringsOfLen(_)
StringsOfLen(l) == IF l = 0 THEN {""}
                   ELSE {s \o Alphabet[c] : s \in StringsOfLen(l - 1), c \in 1..Len(Alphabet)}

AllTexts == UNION {StringsOfLen(l) : l \in 0..MaxLen}

Init == /\ text \in AllTexts
        /\ pos = 1
        /\ toks = <<>>

AtBlank == pos <= Len(text) /\ Ch(text, pos) \in Blank

SkipBlank == /\ AtBlank
             /\ pos' = pos + 1
             /\ UNCHANGED <<text, toks>>

EmitLongest == /\ pos <= Len(text) /\ ~AtBlank
               /\ MatchLens(text, pos) # {}
               /\ \E tk \in Expected(text, pos) :
                     /\ toks' = Append(toks, tk)
                     /\ pos' = pos + tk.n
               /\ UNCHANGED text

EmitError == /\ pos <= Len(text) /\ ~AtBlank
             /\ MatchLens(text, pos) = {}
             /\ \E tk \in Expected(text, pos) :
                   /\ toks' = Append(toks, tk)
                   /\ pos' = pos + tk.n
             /\ UNCHANGED text

Next == SkipBlank \/ EmitLongest \/ EmitError

Spec == Init /\ [][Next]_lexvars

---------------------------------------------------------------------------
(* Spec-level invariants: the specification is self-consistent *)

\* tokens are in source order, do not overlap, and only blanks lie between and before them
\* (o: the position lexing started from; 1 except when a window of a long text is validated)
TilingFrom(o) ==
    /\ \A q \in 1..Len(toks) :
          LET prevEnd == IF q = 1 THEN o ELSE toks[q - 1].p + toks[q - 1].n IN
          /\ toks[q].p >= prevEnd
          /\ AllIn(text, prevEnd, toks[q].p - 1, Blank)
    /\ LET lastEnd == IF toks = <<>> THEN o ELSE toks[Len(toks)].p + toks[Len(toks)].n IN
          /\ lastEnd <= pos
          /\ AllIn(text, lastEnd, pos - 1, Blank)
Tiling == TilingFrom(1)

\* a character outside the token alphabet is never part of an identifier, number, fixed spelling or
\* newline token, and never skipped: it lies inside a string, a comment or an error token
NonTokenConfined ==
    /\ \A q \in 1..Len(toks) :
          toks[q].k \notin {"str", "comment", "err"} =>
              \A c \in toks[q].p..(toks[q].p + toks[q].n - 1) : Ch(text, c) \notin NonToken
    /\ \A c \in 1..(pos - 1) :
          Ch(text, c) \in NonToken =>
              \E q \in 1..Len(toks) : /\ toks[q].k \in {"str", "comment", "err"}
                                      /\ toks[q].p <= c /\ c < toks[q].p + toks[q].n

\* no token is empty, and every non-error token is a maximal match
Maximal ==
    \A q \in 1..Len(toks) :
        /\ toks[q].n >= 1
        /\ toks[q].k # "err" =>
              /\ Matches(text, toks[q].p, toks[q].n)
              /\ \A m \in (toks[q].n + 1)..Rem(text, toks[q].p) : ~Matches(text, toks[q].p, m)

\* positions: columns are >= 1, lines never decrease, a single-line token has ce = cs + n
PositionsSane ==
    \A q \in 1..Len(toks) :
        /\ toks[q].cs >= 1 /\ toks[q].line >= 1
        /\ toks[q].lend >= toks[q].line
        /\ (toks[q].lend = toks[q].line) => toks[q].ce = toks[q].cs + toks[q].n
        /\ q > 1 => toks[q].line >= toks[q - 1].lend

\* the three actions are mutually exclusive: the lexer is deterministic up to error extents
Exclusive == /\ ~(ENABLED SkipBlank /\ ENABLED EmitLongest)
             /\ ~(ENABLED SkipBlank /\ ENABLED EmitError)
             /\ ~(ENABLED EmitLongest /\ ENABLED EmitError)

\* progress: unless the text is consumed, something is enabled
NoStuck == pos <= Len(text) => ENABLED Next

PosInRange == pos \in 1..(Len(text) + 1)
=============================================================================
