SPECIFICATION Spec
CONSTANTS
  Inputs <- MCInputs
  Procs <- MCProcs
  Results <- MCResults
  Mode <- MCFree
  MaxRuns = 3
INVARIANTS SeenIsImageOfHist TwoFormsAgree Determinism
CHECK_DEADLOCK FALSE
