SPECIFICATION MCSpec
INVARIANTS StackOk
CHECK_DEADLOCK FALSE
