----------------------------- MODULE SyltModules -----------------------------
(***************************************************************************)
(* Files and imports (C12).                                                *)
(*                                                                         *)
(* Written from the language guide ("Imports") and the quick reference:    *)
(*   use file          -- file.thing      from file use thing              *)
(*   use folder/file   -- file.thing      from file use (thing, t as u)    *)
(*   use folder/       -- folder.thing    (folder/exports.sy)              *)
(*   use file as name  -- name.thing                                       *)
(*   use /res/         -- res.thing       (leading "/" = project root =    *)
(*                        the directory of the file being run)             *)
(* "Files are imported relative to the current file", "cycles are OK",     *)
(* "All variables declared outside of functions will be reachable".        *)
(*                                                                         *)
(* PathToFile(f, p)   the file an import path text p written in file f     *)
(*                    names -- pure text manipulation, nothing else.       *)
(* Bindings / Resolve what a file can see: its own globals, the namespaces *)
(*                    its `use` statements introduce (accessed ns.x) and   *)
(*                    the plain names its `from .. use` statements bring   *)
(*                    in (with aliases).  Nothing else is visible.         *)
(*                                                                         *)
(* The universe: base programs (core-Sylt ASTs, run by SyltSem to obtain   *)
(* the expected behaviour) x every placement of their non-`start` globals  *)
(* in the files of Tree x import style per cross-file reference x path     *)
(* form x extra back-imports (cycles) x same-named decoy globals in files  *)
(* that do not refer to the real one.  A configuration is addressed by     *)
(* (p, m, v): program, placement number (mixed radix, one digit per        *)
(* global), variant 0..31.  The behaviour of EVERY configuration of p is    *)
(* the behaviour of p (splitting does not change behaviour).               *)
(*                                                                         *)
(* Namespace chains: a namespace is itself a name of the file that wrote   *)
(* the `use` (tests/import/circular_main.sy, use_folder.sy), so a.b.x is   *)
(* "x of the file that a's file calls b" - resolved left to right.         *)
(* Standard library: only a path text that consists of ONE component that  *)
(* is a std module name (`use list`, `use /math`, `use set/`) can mean the  *)
(* std module; a path with a folder component names a project file         *)
(* whatever its components are called (`use geometry/math as gm`).  Which  *)
(* of the two a one-component std name means when a project file of that   *)
(* name exists is not documented anywhere: such texts are never written.   *)
(*                                                                         *)
(* Out of THIS universe on purpose: `from` of a name that is itself only   *)
(* imported (tests/import/faulty_from_circular.sy documents an error) and  *)
(* a.x where a has `from b use x` (re-export) - both are the subject of    *)
(* SyltLayers (module order, names handed on by exporting files); out of   *)
(* every universe: `use /` without alias, the same file under one implicit *)
(* name by two path texts, one-component path texts that are std module    *)
(* names.                                                                  *)
(***************************************************************************)
EXTENDS SyltSem, SyltAst

CONSTANTS Tree,     \* sequence of file paths relative to the project root; Tree[1] is the file being run
          ProgSet   \* the base programs (numbers) explored with this tree

Range(s) == {s[q] : q \in 1..Len(s)}
Ch(s, q) == SubSeq(s, q, q)
NF == Len(Tree)
Main == Tree[1]
FileIdx(f) == CHOOSE q \in 1..NF : Tree[q] = f

---------------------------------------------------------------------------
(* Import path text -> file, as documented *)
RECURSIVE LastSlashUpTo(_, _)
LastSlashUpTo(s, n) == IF n = 0 THEN 0 ELSE IF Ch(s, n) = "/" THEN n ELSE LastSlashUpTo(s, n - 1)
LastSlash(s) == LastSlashUpTo(s, Len(s))

DirOf(f) == SubSeq(f, 1, LastSlash(f))                       \* "", "sub/", "sub/deep/"
Rooted(t) == Len(t) >= 1 /\ Ch(t, 1) = "/"                    \* leading "/": from the project root
Folder(t) == Len(t) >= 1 /\ Ch(t, Len(t)) = "/"               \* trailing "/": that folder's exports.sy
Body(t) == SubSeq(t, IF Rooted(t) THEN 2 ELSE 1, IF Folder(t) /\ Len(t) > 1 THEN Len(t) - 1 ELSE Len(t))

PathToFile(f, t) ==
    LET base == IF Rooted(t) THEN "" ELSE DirOf(f) IN
    IF Body(t) = "" THEN base \o "exports.sy"                 \* bare "/": the root's exports.sy
    ELSE IF Folder(t) THEN base \o Body(t) \o "/exports.sy"
    ELSE base \o Body(t) \o ".sy"

\* the namespace name a `use` without `as` introduces: the last path component ("" for bare "/": alias required)
NsName(t) == LET bd == Body(t) IN SubSeq(bd, LastSlash(bd) + 1, Len(bd))

PathForm(t) == IF Body(t) = "" THEN "bare-root"
               ELSE (IF Rooted(t) THEN "root" ELSE "rel") \o (IF Folder(t) THEN "-folder" ELSE "-plain")

Stem(g) == SubSeq(g, 1, Len(g) - 3)
IsPrefix(a, s) == Len(a) <= Len(s) /\ SubSeq(s, 1, Len(a)) = a
IsExports(g) == g = DirOf(g) \o "exports.sy"

\* the ways one might write file g in file f (candidates only: PathToFile decides)
CandSeq(f, g) ==
    <<IF IsPrefix(DirOf(f), g) THEN SubSeq(Stem(g), Len(DirOf(f)) + 1, Len(Stem(g))) ELSE "",
      "/" \o Stem(g),
      IF IsExports(g) /\ IsPrefix(DirOf(f), DirOf(g)) /\ DirOf(f) # DirOf(g)
         THEN SubSeq(DirOf(g), Len(DirOf(f)) + 1, Len(DirOf(g))) ELSE "",
      IF IsExports(g) THEN "/" \o DirOf(g) ELSE "">>

\* the standard library's module names: every file sees namespaces of these names (the std preamble), and a
\* one-component path text of such a name is not (known to be) a project file
StdNames == {"common", "container", "dict", "list", "math", "maybe", "set", "unsafe"}
Specified(t) == Body(t) \notin StdNames

AllCand == UNION {Range(CandSeq(f, g)) : f \in Range(Tree), g \in Range(Tree)} \ {""}
PathTexts(f, g) == {t \in AllCand : Specified(t) /\ PathToFile(f, t) = g}
PathSeq(f, g) == SelectSeq(CandSeq(f, g), LAMBDA t : t # "" /\ Specified(t) /\ PathToFile(f, t) = g)

\* The functions above, tabulated once over the tree and the candidate texts (TLCEval makes the tables explicit
\* values; without it TLC would re-evaluate the character-level definitions at every use).
FileOfT == TLCEval([f \in Range(Tree) |-> TLCEval([t \in AllCand |-> PathToFile(f, t)])])
NsNameT == TLCEval([t \in AllCand |-> NsName(t)])
PathFormT == TLCEval([t \in AllCand |-> PathForm(t)])
PathSeqT == TLCEval([f \in Range(Tree) |-> TLCEval([g \in Range(Tree) |-> PathSeq(f, g)])])
FileIdxT == TLCEval([f \in Range(Tree) |-> FileIdx(f)])
RootedT == TLCEval([t \in AllCand |-> Rooted(t)])

\* How the file being run is named does not matter: the project root is the directory that contains it, whatever
\* the spelling.  $P stands for the project directory, $S for its parent (in which it is called "proj").
Spellings == <<"bare", "dot", "from-parent", "dotdot", "absolute">>
SpellingOf(sp) == CASE sp = "bare"        -> [cwd |-> "$P", arg |-> Main]                  \* cd proj && sylt main.sy
                    [] sp = "dot"         -> [cwd |-> "$P", arg |-> "./" \o Main]
                    [] sp = "from-parent" -> [cwd |-> "$S", arg |-> "proj/" \o Main]
                    [] sp = "dotdot"      -> [cwd |-> "$P", arg |-> "../proj/" \o Main]
                    [] sp = "absolute"    -> [cwd |-> "/",  arg |-> "$P/" \o Main]

PathsOK ==
    /\ \A f \in Range(Tree), t \in AllCand : Len(PathToFile(f, t)) > 3                   \* total
    /\ \A f \in Range(Tree), g \in Range(Tree) :
          /\ Range(PathSeq(f, g)) = PathTexts(f, g)
          /\ f # g => Len(PathSeq(f, g)) >= 1                                            \* every file can be named
          /\ \A t \in PathTexts(f, g) : Rooted(t) => \A f2 \in Range(Tree) : PathToFile(f2, t) = g
    /\ \A g \in Range(Tree) : IsExports(g) => PathToFile(Main, "/" \o DirOf(g)) = g
    /\ \E f \in Range(Tree), t \in AllCand : PathToFile(f, t) \notin Range(Tree)           \* and some name no file
    \* a std module name at any position of a path of two or more components is just a file or folder name
    /\ \A f \in Range(Tree), g \in Range(Tree) : \A t \in PathTexts(f, g) : NsName(t) \in StdNames => LastSlash(Body(t)) > 0

---------------------------------------------------------------------------
(* Base programs.  Global binder ids < 10, parameters and locals >= 10. *)
Pr(e) == Ex(Call(Std("print"), <<e>>))     \* SyltAst!Print is shadowed by TLC!Print here
ProgNames == <<"calls", "cell", "types", "init", "shadow">>
NProgs == Len(ProgNames)

Prog(p) ==
  CASE p = 1 ->       \* constants and functions calling each other; lim depends on k1 at initialisation time
    << DefN(1, "const", TInt, I(3), "k1"),
       DefN(2, "const", TInt, Bin("+", V(1), I(1)), "lim"),
       DefN(3, "const", TNone, Fn(<<P(10, TInt)>>, TInt, <<Ret(Bin("+", V(10), V(1)))>>), "inc"),
       DefN(4, "const", TNone, Fn(<<P(11, TInt)>>, TInt, <<Ret(Call(V(3), <<Call(V(3), <<V(11)>>)>>))>>), "twice"),
       DefN(5, "const", TNone, Fn(<<>>, TVoid, << Pr(Call(V(4), <<I(1)>>)), Pr(V(2)),
                                                 Pr(Bin("*", V(1), I(2))) >>), "start") >>
    [] p = 2 ->       \* one mutable global, written and read through different files
    << DefN(1, "mut", TInt, I(0), "cnt"),
       DefN(2, "const", TNone, Fn(<<>>, TVoid, <<Asg("=", V(1), Bin("+", V(1), I(1)))>>), "bump"),
       DefN(3, "const", TNone, Fn(<<>>, TInt, <<Ret(V(1))>>), "get"),
       DefN(4, "const", TNone, Fn(<<>>, TVoid, << Ex(Call(V(2), <<>>)), Pr(Call(V(3), <<>>)),
                                                 Asg("+=", V(1), I(10)), Pr(Call(V(3), <<>>)),
                                                 Ex(Call(V(2), <<>>)), Pr(V(1)) >>), "start") >>
    [] p = 3 ->       \* a blob type and an enum type used across files
    << BlobD("Pt", <<FD("x", TInt), FD("y", TInt)>>),
       EnumD("Col", <<VD0("Red"), VD1("Rgb", TInt)>>),
       DefN(1, "const", TNone, Fn(<<P(10, TInt)>>, TName("Pt"),
                                  <<Ret(BlobL("Pt", <<FI("x", V(10)), FI("y", I(2))>>))>>), "mk"),
       DefN(2, "const", TNone, Fn(<<P(11, TName("Pt")), P(12, TName("Col"))>>, TInt,
                                  <<Ret(CaseT(V(12), << CArm("Red", <<Ex(Fld(V(11), "x"))>>),
                                                        CArmB("Rgb", 13, <<Ex(Bin("+", V(13), Fld(V(11), "y")))>>) >>))>>), "area"),
       DefN(3, "const", TNone, Fn(<<>>, TVoid, << DefC(20, TName("Pt"), Call(V(1), <<I(5)>>)),
                                                 Pr(Call(V(2), <<V(20), Var1("Col", "Rgb", I(7))>>)),
                                                 Pr(Call(V(2), <<V(20), Var0("Col", "Red")>>)),
                                                 Pr(Var1("Col", "Rgb", Fld(V(20), "y"))) >>), "start") >>
    [] p = 4 ->       \* an initialiser with an effect (runs once however often its file is imported)
    << DefN(1, "const", TNone, Fn(<<>>, TInt, <<Pr(St("init")), Ret(I(1))>>), "mk"),
       DefN(2, "mut", TInt, Call(V(1), <<>>), "log"),
       DefN(3, "const", TNone, Fn(<<>>, TInt, <<Ret(Bin("+", V(2), I(1)))>>), "fa"),
       DefN(4, "const", TNone, Fn(<<>>, TInt, <<Asg("=", V(2), Bin("+", V(2), I(5))), Ret(Bin("+", V(2), I(2)))>>), "fb"),
       DefN(5, "const", TNone, Fn(<<>>, TVoid, << Pr(Bin("+", Call(V(3), <<>>), Call(V(4), <<>>))),
                                                 Pr(Call(V(3), <<>>)) >>), "start") >>
    [] p = 5 ->       \* globals named like globals of the std module `math` (pi, tau, e are floats there)
    << DefN(1, "const", TInt, I(3), "pi"),
       DefN(2, "const", TInt, Bin("+", V(1), V(1)), "tau"),
       DefN(3, "const", TInt, I(2), "e"),
       DefN(4, "const", TNone, Fn(<<>>, TVoid, << Pr(V(2)), Pr(Bin("*", V(1), V(3))), Pr(V(3)) >>), "start") >>

ItemName(top) == IF top.k = "def" THEN top.n ELSE top.name
ItemKind(top) == CASE top.k = "def" -> "value" [] top.k = "enum" -> "enum" [] top.k = "blobdecl" -> "blob"

TopNamesT == TLCEval([p \in 1..NProgs |-> TLCEval([q \in 1..Len(Prog(p)) |-> ItemName(Prog(p)[q])])])
TopNames(p) == TopNamesT[p]
ItemsT == TLCEval([p \in 1..NProgs |-> SelectSeq(TopNames(p), LAMBDA x : x # "start")])
Items(p) == ItemsT[p]                                               \* the movable globals, in program order
NI(p) == Len(Items(p))
ItemIdxT == TLCEval([p \in 1..NProgs |-> TLCEval([x \in Range(Items(p)) |-> CHOOSE q \in 1..NI(p) : Items(p)[q] = x])])
ItemIdx(p, x) == ItemIdxT[p][x]
TopOf(p, x) == Prog(p)[CHOOSE q \in 1..Len(Prog(p)) : ItemName(Prog(p)[q]) = x]

\* global binder id -> name
GlobalNames(p) == LET tops == Prog(p)
                      defs == {q \in 1..Len(tops) : tops[q].k = "def"} IN
                  [b \in {tops[q].b : q \in defs} |-> tops[CHOOSE q \in defs : tops[q].b = b].n]

---------------------------------------------------------------------------
(* The globals and type names a top-level item refers to *)
RECURSIVE RefT(_)
RECURSIVE RefE(_, _)
RECURSIVE RefS(_, _)
RECURSIVE RefES(_, _)
RECURSIVE RefSS(_, _)

RefT(t) == CASE t.k = "tname"  -> {t.n}
             [] t.k = "ttuple" -> UNION {RefT(t.es[q]) : q \in DOMAIN t.es}
             [] t.k = "tlist"  -> RefT(t.e)
             [] t.k = "tfn"    -> UNION {RefT(t.ps[q]) : q \in DOMAIN t.ps} \cup RefT(t.r)
             [] OTHER          -> {}

RefES(es, gn) == UNION {RefE(es[q], gn) : q \in DOMAIN es}
RefSS(ss, gn) == UNION {RefS(ss[q], gn) : q \in DOMAIN ss}

RefE(e, gn) ==
    CASE e.k \in {"int", "float", "str", "bool", "nil", "std", "self"} -> {}
      [] e.k = "var"  -> IF e.b \in DOMAIN gn THEN {gn[e.b]} ELSE {}
      [] e.k = "bin"  -> RefE(e.l, gn) \cup RefE(e.r, gn)
      [] e.k = "un"   -> RefE(e.a, gn)
      [] e.k = "if"   -> UNION {(IF e.arms[q].els THEN {} ELSE RefE(e.arms[q].c, gn)) \cup RefSS(e.arms[q].body, gn)
                                  : q \in DOMAIN e.arms}
      [] e.k = "case" -> RefE(e.e, gn) \cup UNION {RefSS(e.arms[q].body, gn) : q \in DOMAIN e.arms} \cup RefSS(e.els, gn)
      [] e.k = "fn"   -> UNION {RefT(e.params[q].ty) : q \in DOMAIN e.params} \cup RefT(e.ret) \cup RefSS(e.body, gn)
      [] e.k = "call" -> RefE(e.f, gn) \cup RefES(e.args, gn)
      [] e.k \in {"tuple", "list"} -> RefES(e.es, gn)
      [] e.k = "blob" -> {e.name} \cup UNION {RefE(e.fields[q].e, gn) : q \in DOMAIN e.fields}
      [] e.k \in {"fld", "idx"} -> RefE(e.e, gn)
      [] e.k = "variant" -> {e.enum} \cup (IF e.has THEN RefE(e.e, gn) ELSE {})

RefS(st, gn) ==
    CASE st.k = "def"   -> RefT(st.ty) \cup RefE(st.e, gn)
      [] st.k = "asg"   -> RefE(st.t, gn) \cup RefE(st.e, gn)
      [] st.k = "loop"  -> RefE(st.c, gn) \cup RefSS(st.body, gn)
      [] st.k = "ret"   -> IF st.has THEN RefE(st.e, gn) ELSE {}
      [] st.k = "block" -> RefSS(st.body, gn)
      [] st.k = "expr"  -> RefE(st.e, gn)
      [] OTHER          -> {}

TopRefs(top, gn) ==
    CASE top.k = "def"      -> RefS(top, gn)
      [] top.k = "enum"     -> UNION {IF top.variants[q].has THEN RefT(top.variants[q].ty) ELSE {} : q \in DOMAIN top.variants}
      [] top.k = "blobdecl" -> UNION {RefT(top.fields[q].ty) : q \in DOMAIN top.fields}

\* name -> names of the OTHER items it refers to (constant: evaluated once)
RefsOf == TLCEval([p \in 1..NProgs |->
             TLCEval([y \in Range(TopNames(p)) |-> (TopRefs(TopOf(p, y), GlobalNames(p)) \cap Range(TopNames(p))) \ {y}])])

---------------------------------------------------------------------------
(* Expected behaviour: the program itself, run by the dynamic semantics *)
RECURSIVE RunTops(_, _, _)
RunTops(tops, q, S) == IF q > Len(tops) \/ S.status # "run" THEN S
                       ELSE RunTops(tops, q + 1, InitTop(tops[q], S).s)
StartId(tops) == tops[CHOOSE q \in 1..Len(tops) : tops[q].k = "def" /\ tops[q].n = "start"].b
RunProg(tops) == LET S1 == RunTops(tops, 1, NewState(200)) IN
                 IF S1.status # "run" THEN S1 ELSE CallStart(StartId(tops), S1).s

PrintText(v) == CASE v.k = "int"  -> ToString(v.v)
                  [] v.k = "str"  -> v.v
                  [] v.k = "bool" -> IF v.v THEN "true" ELSE "false"
                  [] v.k = "variant" -> v.tag \o " " \o (CASE v.val.k = "int" -> ToString(v.val.v) [] OTHER -> "?")
                  [] OTHER -> "?"

Expected == TLCEval([p \in 1..NProgs |->
               LET S == RunProg(Prog(p)) IN
               [out |-> S.out, status |-> S.status, prints |-> TLCEval([q \in 1..Len(S.out) |-> PrintText(S.out[q].v)])]])

---------------------------------------------------------------------------
(* Configurations *)
FileOf(f, t) == FileOfT[f][t]
NsNameOf(t) == NsNameT[t]
FileIdxOf(f) == FileIdxT[f]
RECURSIVE PowN(_, _)
PowN(b, n) == IF n = 0 THEN 1 ELSE b * PowN(b, n - 1)

NPlaces(p) == PowN(NF, NI(p))
PlaceOf(p, m) == [x \in Range(TopNames(p)) |->
                    IF x = "start" THEN Main ELSE Tree[((m \div PowN(NF, ItemIdx(p, x) - 1)) % NF) + 1]]
UsedFiles(pl) == {pl[x] : x \in DOMAIN pl}
MaxOther == 3       \* at most three files besides the main file (a diamond needs three)
Applicable(p, m) == m \in 0..(NPlaces(p) - 1) /\ Cardinality(UsedFiles(PlaceOf(p, m)) \ {Main}) <= MaxOther

NVariants == 64     \* v % 8: style offset, path choice, cycle and decoy flags; (v \div 8) % 4: how styles vary from
                    \* edge to edge; v \div 32: namespace chains
StrideOf(v) == ((v \div 8) + 1) % 4     \* 0: all references in one style; 1..3: neighbouring references differ by 1..3
Styles == <<"use", "useas", "from", "fromas">>
Bit(v, n) == (v \div PowN(2, n)) % 2
CycOf(v) == (Bit(v, 0) + Bit(v, 2)) % 2 = 1           \* orthogonal to style (v % 4) and path choice (bit 2)
DecoyOf(v) == (Bit(v, 1) + Bit(v, 2)) % 2 = 1
ChainOf(v) == Bit(v, 5) = 1     \* references in `use` style go through one, in `use as` style through two other files

UseStmt(path, alias) == [k |-> "use", path |-> path, alias |-> alias, names |-> <<>>]
FromStmt(path, names) == [k |-> "from", path |-> path, alias |-> "", names |-> names]

\* concrete syntax of the import statements (the harness writes these lines verbatim)
RECURSIVE JoinNames(_, _, _)
NameText(n) == n.name \o (IF n.as = "" THEN "" ELSE " as " \o n.as)
JoinNames(ns, q, sep) == IF q > Len(ns) THEN "" ELSE (IF q > 1 THEN sep ELSE "") \o NameText(ns[q]) \o JoinNames(ns, q + 1, sep)
\* layout of a `from` statement: "plain"  from p use a, b as c
\*                               "paren"  from p use (a, b as c)
\*                               "multi"  from p use (      one name per line, trailing comma
StmtLine(s, layout) ==
    IF s.k = "use" THEN "use " \o s.path \o (IF s.alias = "" THEN "" ELSE " as " \o s.alias)
    ELSE "from " \o s.path \o " use " \o
         (CASE layout = "plain" -> JoinNames(s.names, 1, ", ")
            [] layout = "paren" -> "(" \o JoinNames(s.names, 1, ", ") \o ")"
            [] layout = "multi" -> "(\n    " \o JoinNames(s.names, 1, ",\n    ") \o ",\n)")
LayoutOf(v) == CASE v % 4 \in {0, 2} -> "plain" [] v % 4 = 1 -> "paren" [] v % 4 = 3 -> "multi"

\* what the statements stmts written in file f make visible there, besides f's own globals
\* gl[g] = the globals file g itself defines (never what g merely imports: out of the universe)
ImportBindings(f, stmts, gl) ==
    UNION { IF stmts[q].k = "use"
            THEN {[name |-> IF stmts[q].alias = "" THEN NsNameOf(stmts[q].path) ELSE stmts[q].alias,
                   kind |-> "ns", file |-> FileOf(f, stmts[q].path), item |-> ""]}
            ELSE {[name |-> IF stmts[q].names[r].as = "" THEN stmts[q].names[r].name ELSE stmts[q].names[r].as,
                   kind |-> "global", file |-> FileOf(f, stmts[q].path), item |-> stmts[q].names[r].name]
                    : r \in {r \in DOMAIN stmts[q].names :
                               FileOf(f, stmts[q].path) \in DOMAIN gl
                               /\ stmts[q].names[r].name \in gl[FileOf(f, stmts[q].path)]}}
            : q \in DOMAIN stmts }

Bindings(f, stmts, gl) ==
    {[name |-> x, kind |-> "global", file |-> f, item |-> x] : x \in gl[f]} \cup ImportBindings(f, stmts, gl)

\* A reference is [ns, name]: ns a sequence of namespace names, `name`, `a.name`, `a.b.name`, ...
\* stm[f] = the import statements of file f.  A namespace chain is followed from left to right: the first name is
\* looked up among the namespaces of the file the reference is written in, each further name among the namespaces
\* of the file reached so far; the global itself must be one the last file defines.
RECURSIVE WalkNs(_, _, _, _, _)
WalkNs(f, nss, q, stm, gl) ==
    IF q > Len(nss) THEN f
    ELSE LET c == {b \in ImportBindings(f, stm[f], gl) : b.kind = "ns" /\ b.name = nss[q]} IN
         IF c = {} \/ (CHOOSE b \in c : TRUE).file \notin DOMAIN stm THEN ""
         ELSE WalkNs((CHOOSE b \in c : TRUE).file, nss, q + 1, stm, gl)

Unresolved == [file |-> "", item |-> ""]
Resolve(f, stm, ref, gl) ==
    IF ref.ns = <<>>
    THEN LET c == {b \in Bindings(f, stm[f], gl) : b.name = ref.name /\ b.kind = "global"} IN
         IF c = {} THEN Unresolved ELSE LET b == CHOOSE b \in c : TRUE IN [file |-> b.file, item |-> b.item]
    ELSE LET g == WalkNs(f, ref.ns, 1, stm, gl) IN
         IF g # "" /\ ref.name \in gl[g] THEN [file |-> g, item |-> ref.name] ELSE Unresolved

\* Twins must not depend on what this specification leaves open: a reference counts as "possibly visible" also when
\* it starts with a std namespace or ends in ANY name the reached file can see (what a file merely imports and
\* thereby may re-export through its namespace is outside the universe).
PossiblyVisible(f, stm, ref, gl) ==
    IF ref.ns = <<>> THEN Resolve(f, stm, ref, gl) # Unresolved
    ELSE \/ ref.ns[1] \in StdNames
         \/ LET g == WalkNs(f, ref.ns, 1, stm, gl) IN
            g # "" /\ \E b \in Bindings(g, stm[g], gl) : b.name = ref.name

RECURSIVE JoinDot(_, _)
JoinDot(nss, q) == IF q > Len(nss) THEN "" ELSE (IF q > 1 THEN "." ELSE "") \o nss[q] \o JoinDot(nss, q + 1)
RECURSIVE Flatten(_, _)
Flatten(ss, q) == IF q > Len(ss) THEN <<>> ELSE ss[q] \o Flatten(ss, q + 1)
Reverse(sq) == [q \in 1..Len(sq) |-> sq[Len(sq) + 1 - q]]

RECURSIVE LoadW(_, _, _)
\* loading: a work list and a visited list; a file already visited is not loaded again
LoadW(work, seen, imp) ==
    IF work = <<>> THEN seen
    ELSE IF Head(work) \in Range(seen) THEN LoadW(Tail(work), seen, imp)
    ELSE LoadW(Tail(work) \o imp[Head(work)], Append(seen, Head(work)), imp)

RECURSIVE ReachSet(_, _)
ReachSet(fs, imp) == LET nx == fs \cup UNION {Range(imp[f]) : f \in fs} IN IF nx = fs THEN fs ELSE ReachSet(nx, imp)

RemoveAt(s, q) == SubSeq(s, 1, q - 1) \o SubSeq(s, q + 1, Len(s))

Derive(p, m, v) ==
  LET items   == Items(p)
      ni      == NI(p)
      pl      == PlaceOf(p, m)
      refs    == RefsOf[p]
      used    == SelectSeq(Tree, LAMBDA f : f \in UsedFiles(pl))                 \* used files in Tree order
      decoyOn == DecoyOf(v)
      cycOn   == CycOf(v)
      \* cross-file references: (file f, item x) with x defined elsewhere and referred to by something in f
      prod    == [q \in 1..(Len(used) * ni) |-> [f |-> used[((q - 1) \div ni) + 1], x |-> items[((q - 1) % ni) + 1]]]
      needs   == SelectSeq(prod, LAMBDA e : pl[e.x] # e.f /\ \E y \in DOMAIN pl : pl[y] = e.f /\ e.x \in refs[y])
      pathFor(f, g) == LET ps == PathSeqT[f][g] IN ps[((Bit(v, 2) + m + FileIdxOf(f) + FileIdxOf(g)) % Len(ps)) + 1]
      style0(j) == Styles[((v + j * StrideOf(v)) % 4) + 1]
      chainOn == ChainOf(v)
      \* a hop of a namespace chain: file a says `use <b>`, under the implicit name where that is unproblematic
      hop(a, b) == LET path == pathFor(a, b)
                       implicit == (FileIdxOf(a) + FileIdxOf(b) + Bit(v, 1)) % 2 = 0
                                   /\ NsNameOf(path) \notin ({"", "exports"} \cup StdNames)
                   IN UseStmt(path, IF implicit THEN "" ELSE "ns" \o ToString(FileIdxOf(b)))
      nsOf(st) == IF st.alias = "" THEN NsNameOf(st.path) ELSE st.alias
      edge(j) == LET e    == needs[j]
                     g    == pl[e.x]
                     path == pathFor(e.f, g)
                     st0  == style0(j)
                     \* `use /` has no implicit name; every file already sees the std modules as namespaces of their names;
                     \* if an earlier `use` of the same file already holds the same implicit name for a different file
                     \* (two exports.sy), this one takes an alias ("since the namespace is already used")
                     st1  == IF st0 = "use" /\ (NsNameOf(path) \in ({""} \cup StdNames)
                                               \/ \E j2 \in 1..(j - 1) :
                                                     /\ needs[j2].f = e.f /\ style0(j2) = "use" /\ pl[needs[j2].x] # g
                                                     /\ NsNameOf(pathFor(e.f, pl[needs[j2].x])) = NsNameOf(path))
                             THEN "useas" ELSE st0
                     al   == "ns" \o ToString(FileIdxOf(g))
                     \* namespace chains: through one (style use) or two (style use-as) other files of the configuration
                     others == SelectSeq(used, LAMBDA h : h # e.f /\ h # g)
                     rot(q) == others[((j + v + q) % Len(others)) + 1]
                     depth == IF ~chainOn \/ st0 \notin {"use", "useas"} \/ Len(others) = 0 THEN 0
                              ELSE IF st0 = "useas" /\ Len(others) >= 2 THEN 3 ELSE 2
                     via  == CASE depth = 0 -> <<>> [] depth = 2 -> <<rot(0)>> [] depth = 3 -> <<rot(0), rot(1)>>
                     cf   == <<e.f>> \o via \o <<g>>
                     hops == [q \in 1..(Len(cf) - 1) |-> [f |-> cf[q], stmt |-> hop(cf[q], cf[q + 1])]]
                 IN IF depth = 0
                    THEN [f |-> e.f, x |-> e.x, g |-> g, st |-> st1, path |-> path, form |-> PathFormT[path], via |-> <<>>,
                          ns |-> CASE st1 = "use" -> <<NsNameOf(path)>> [] st1 = "useas" -> <<al>> [] OTHER -> <<>>,
                          name |-> IF st1 = "fromas" THEN e.x \o "R" ELSE e.x,
                          stmt |-> CASE st1 = "use"    -> UseStmt(path, "")
                                     [] st1 = "useas"  -> UseStmt(path, al)
                                     [] st1 = "from"   -> FromStmt(path, <<[name |-> e.x, as |-> ""]>>)
                                     [] st1 = "fromas" -> FromStmt(path, <<[name |-> e.x, as |-> e.x \o "R"]>>),
                          extra |-> <<>>]
                    ELSE [f |-> e.f, x |-> e.x, g |-> g, st |-> "chain" \o ToString(depth), path |-> hops[1].stmt.path,
                          form |-> PathFormT[hops[1].stmt.path], via |-> via,
                          ns |-> [q \in DOMAIN hops |-> nsOf(hops[q].stmt)], name |-> e.x,
                          stmt |-> hops[1].stmt, extra |-> SubSeq(hops, 2, Len(hops))]
      edges   == [j \in 1..Len(needs) |-> edge(j)]
      edgesOf(f) == SelectSeq(edges, LAMBDA e : e.f = f)
      allExtra == Flatten([j \in DOMAIN edges |-> edges[j].extra], 1)
      \* statements of f: one `use` per (path, alias), one `from` per path listing all its names, in edge order,
      \* then the `use` statements f contributes to other files' namespace chains
      RECURSIVE Merge(_, _, _)
      Merge(es, q, acc) ==
          IF q > Len(es) THEN acc
          ELSE LET st == es[q]
                   same == {r \in DOMAIN acc : acc[r].k = st.k /\ acc[r].path = st.path /\ acc[r].alias = st.alias} IN
               IF same = {} THEN Merge(es, q + 1, Append(acc, st))
               ELSE IF st.k = "use" THEN Merge(es, q + 1, acc)
               ELSE LET r == CHOOSE r \in same : TRUE IN
                    Merge(es, q + 1, [acc EXCEPT ![r].names = @ \o st.names])
      fwd(f)  == LET own1 == edgesOf(f)
                     ext1 == SelectSeq(allExtra, LAMBDA h : h.f = f) IN
                 Merge([q \in DOMAIN own1 |-> own1[q].stmt] \o [q \in DOMAIN ext1 |-> ext1[q].stmt], 1, <<>>)
      fwdTargets(f) == {FileOf(f, fwd(f)[q].path) : q \in DOMAIN fwd(f)}
      \* cycles: a file imports one of its importers back (A uses B uses A) unless it does so anyway
      importers(g) == SelectSeq(used, LAMBDA f : f # g /\ g \in fwdTargets(f))
      back(g) == IF cycOn /\ g # Main /\ Len(importers(g)) > 0 /\ importers(g)[1] \notin fwdTargets(g)
                 THEN LET f0 == importers(g)[1]
                          path == pathFor(g, f0)
                          implicit == (FileIdxOf(g) + Bit(v, 1)) % 2 = 0 /\ NsNameOf(path) \notin ({""} \cup StdNames)
                                      /\ \A q \in DOMAIN fwd(g) : ~(fwd(g)[q].k = "use" /\ fwd(g)[q].alias = ""
                                                                   /\ NsNameOf(fwd(g)[q].path) = NsNameOf(path))
                      IN <<UseStmt(path, IF implicit THEN "" ELSE "bk" \o ToString(FileIdxOf(f0)))>>
                 ELSE <<>>
      isUsed(f) == f \in UsedFiles(pl)
      stm == TLCEval([f \in Range(Tree) |-> IF isUsed(f) THEN fwd(f) \o back(f) ELSE <<>>])
      stmtsOf(f) == stm[f]
      edgeSet == {<<edges[j].f, edges[j].x>> : j \in DOMAIN edges}
      \* same-named decoy globals in files that neither define nor refer to the real one
      decoys(f) == IF decoyOn /\ isUsed(f) THEN {x \in Range(items) : pl[x] # f /\ <<f, x>> \notin edgeSet} ELSE {}
      own(f) == {x \in DOMAIN pl : pl[x] = f}
      gl == TLCEval([f \in Range(Tree) |-> own(f) \cup decoys(f)])
      imp == TLCEval([f \in Range(Tree) |-> [q \in DOMAIN stmtsOf(f) |-> FileOf(f, stmtsOf(f)[q].path)]])
      layout == LayoutOf(v + (m \div 5))
      fileRec(f) ==
          [path |-> f,
           items |-> SelectSeq(TopNames(p), LAMBDA x : pl[x] = f),
           stmts |-> stmtsOf(f),
           lines |-> [q \in DOMAIN stmtsOf(f) |-> StmtLine(stmtsOf(f)[q], layout)],
           refs |-> [q \in DOMAIN edgesOf(f) |-> [item |-> edgesOf(f)[q].x, ns |-> edgesOf(f)[q].ns, name |-> edgesOf(f)[q].name]],
           decoys |-> SelectSeq(items, LAMBDA x : x \in decoys(f)),
           imports_last |-> (m + FileIdxOf(f)) % 2 = 1]
      \* ---- negative twins: one cross-file reference of this configuration is broken in one way each
      te == IF Len(needs) = 0 THEN 0 ELSE ((v + (m \div 7)) % Len(needs)) + 1
      twinsOf(e) ==
          LET f == e.f
              ss == stmtsOf(f)
              bs == Bindings(f, ss, gl)
              ref0 == [ns |-> e.ns, name |-> e.name]
              \* the statement supporting e, with e's name removed from a `from` list
              sq == CHOOSE q \in DOMAIN ss : ss[q].k = e.stmt.k /\ ss[q].path = e.stmt.path /\ ss[q].alias = e.stmt.alias
              dropped == IF ss[sq].k = "use" \/ Len(ss[sq].names) = 1 THEN RemoveAt(ss, sq)
                         ELSE [ss EXCEPT ![sq].names = SelectSeq(@, LAMBDA n : n.name # e.x)]
              mk(kind, stmts2, ref2) == [kind |-> kind, file |-> f, item |-> e.x, st |-> e.st, form |-> e.form,
                                         itemkind |-> ItemKind(TopOf(p, e.x)),
                                         lines |-> [q \in DOMAIN stmts2 |-> StmtLine(stmts2[q], layout)],
                                         stmts |-> stmts2, ns |-> ref2.ns, name |-> ref2.name]
              \* another namespace visible in f whose file has NO name x at all (what a file merely imports and
              \* thereby may re-export through its namespace is outside the universe)
              namesIn(h) == {b.name : b \in Bindings(h, stmtsOf(h), gl)}
              otherNs == {b \in bs : b.kind = "ns" /\ b.file # e.g /\ e.x \notin namesIn(b.file)}
              isChain == Len(e.ns) >= 2
              front == IF isChain THEN SubSeq(e.ns, 1, Len(e.ns) - 1) ELSE <<>>
              \* the file in which the last name of the chain is looked up, and a namespace f sees but that file does not
              pen == IF isChain THEN e.via[Len(e.via)] ELSE f
              foreignNs == {b \in bs : b.kind = "ns" /\ \A b2 \in ImportBindings(pen, stmtsOf(pen), gl) : b2.name # b.name}
              cands ==
                <<mk("drop-import", dropped, ref0)>>
                \o (IF e.st \in {"use", "useas"} \/ isChain THEN <<mk("unqualified", ss, [ns |-> <<>>, name |-> e.x])>> ELSE <<>>)
                \o (IF e.st = "useas" /\ NsNameOf(e.path) # "" THEN <<mk("alias-bypass", ss, [ns |-> <<NsNameOf(e.path)>>, name |-> e.x])>> ELSE <<>>)
                \o (IF e.st = "fromas" THEN <<mk("alias-bypass", ss, [ns |-> <<>>, name |-> e.x])>> ELSE <<>>)
                \o (IF e.st \in {"use", "useas"} /\ otherNs # {}
                    THEN <<mk("wrong-namespace", ss, [ns |-> <<(CHOOSE b \in otherNs : TRUE).name>>, name |-> e.x])>> ELSE <<>>)
                \o (IF e.st \in {"use", "useas"} THEN <<mk("unknown-namespace", ss, [ns |-> <<"zz">>, name |-> e.x])>> ELSE <<>>)
                \* chains: the last hop left out, the chain written backwards, a last hop nobody imports, a last hop
                \* that only the referring file imports (what f imports is not what the intermediate file imports)
                \o (IF isChain THEN <<mk("chain-skip", ss, [ns |-> front, name |-> e.x]),
                                      mk("chain-reversed", ss, [ns |-> Reverse(e.ns), name |-> e.x]),
                                      mk("chain-unknown-hop", ss, [ns |-> Append(front, "zz"), name |-> e.x])>> ELSE <<>>)
                \o (IF isChain /\ foreignNs # {}
                    THEN <<mk("chain-foreign-hop", ss, [ns |-> Append(front, (CHOOSE b \in foreignNs : TRUE).name), name |-> e.x])>>
                    ELSE <<>>)
          IN \* a twin is only a twin if, by this specification, its reference does NOT resolve
             SelectSeq(cands, LAMBDA t : ~PossiblyVisible(f, [stm EXCEPT ![f] = t.stmts], [ns |-> t.ns, name |-> t.name], gl))
      load == LoadW(<<Main>>, <<>>, imp)
      strict(f) == ReachSet(Range(imp[f]), imp)
      \* one file named by a rooted path somewhere and by a relative path somewhere else; the main file imported back
      allStmts == Flatten([q \in DOMAIN used |-> [r \in DOMAIN stm[used[q]] |-> [f |-> used[q], path |-> stm[used[q]][r].path]]], 1)
      mixed == \E a \in DOMAIN allStmts, b \in DOMAIN allStmts :
                  /\ FileOf(allStmts[a].f, allStmts[a].path) = FileOf(allStmts[b].f, allStmts[b].path)
                  /\ RootedT[allStmts[a].path] /\ ~RootedT[allStmts[b].path]
      mainback == \E a \in DOMAIN allStmts : FileOf(allStmts[a].f, allStmts[a].path) = Main
      isDiamond == \E t \in Range(load), a \in Range(load), b \in Range(load), c \in Range(load) :
                     /\ Cardinality({t, a, b, c}) = 4
                     /\ a \in Range(imp[t]) /\ b \in Range(imp[t]) /\ c \in Range(imp[a]) /\ c \in Range(imp[b])
  IN [p |-> p, m |-> m, v |-> v, prog |-> ProgNames[p],
      place |-> pl, gl |-> gl, imp |-> imp, stm |-> stm,
      files |-> [q \in DOMAIN used |-> fileRec(used[q])],
      edges |-> [j \in DOMAIN edges |-> [f |-> edges[j].f, x |-> edges[j].x, g |-> edges[j].g, st |-> edges[j].st,
                                         path |-> edges[j].path, form |-> edges[j].form, ns |-> edges[j].ns,
                                         name |-> edges[j].name, via |-> edges[j].via]],
      twins |-> IF te = 0 THEN <<>> ELSE twinsOf(edges[te]),
      load |-> load,
      cyc |-> cycOn, decoy |-> decoyOn, layout |-> layout, chain |-> chainOn,
      cycle |-> \E f \in Range(load) : f \in strict(f),
      \* a chain a.b.x written in a file that imports both a and b, which import each other
      chaincycle |-> \E j \in DOMAIN edges : LET e == edges[j] IN
                        /\ Len(e.via) = 1
                        /\ e.g \in Range(imp[e.via[1]]) /\ e.via[1] \in Range(imp[e.g])
                        /\ e.g \in Range(imp[e.f]) /\ e.via[1] \in Range(imp[e.f]),
      diamond |-> isDiamond, mixed |-> mixed, mainback |-> mainback,
      \* configurations also compiled from disk under every spelling of the main file: a mutable global or an initialiser
      \* with an effect, and some file reachable under two spellings or along two ways
      disk |-> ProgNames[p] \in {"cell", "init"} /\ (mixed \/ mainback \/ isDiamond)]

\* which configurations a run explores: nv variants per placement (quick 1, thorough 16 or 32), evenly spread over
\* 0..NVariants-1 and offset by placement number and seed
VariantsFor(nv, seed, m) == IF m = 0 THEN {0} ELSE {(m + seed + q * (NVariants \div nv)) % NVariants : q \in 0..(nv - 1)}
PlacementIds == UNION {{<<p, m>> : m \in {m \in 0..(NPlaces(p) - 1) : Applicable(p, m)}} : p \in ProgSet}
UniverseIds(nv, seed) == UNION {{<<pm[1], pm[2], v>> : v \in VariantsFor(nv, seed, pm[2])} : pm \in PlacementIds}

---------------------------------------------------------------------------
(* Spec-level properties of a derived configuration d *)
FileRefs(d, f) == d.files[CHOOSE q \in DOMAIN d.files : d.files[q].path = f].refs
RefFor(d, f, x) == LET rs == FileRefs(d, f)
                       c == {q \in DOMAIN rs : rs[q].item = x} IN
                   IF d.place[x] = f \/ c = {} THEN [ns |-> <<>>, name |-> x]
                   ELSE [ns |-> rs[CHOOSE q \in c : TRUE].ns, name |-> rs[CHOOSE q \in c : TRUE].name]

\* names visible in a file are unambiguous, also with respect to the std namespaces every file sees
UniqueNames(d) == \A q \in DOMAIN d.files :
    LET bs == Bindings(d.files[q].path, d.files[q].stmts, d.gl) IN
    /\ \A b1 \in bs, b2 \in bs : b1.name = b2.name => b1 = b2
    /\ \A b1 \in bs : b1.name \notin StdNames

\* every reference, as written in its file, resolves to the intended global of the intended file
RefsResolve(d) == \A q \in DOMAIN d.files :
    LET f == d.files[q].path IN
    \A y \in Range(d.files[q].items) : \A x \in RefsOf[d.p][y] :
        Resolve(f, d.stm, RefFor(d, f, x), d.gl) = [file |-> d.place[x], item |-> x]

\* a name that was not imported is not visible: the bare name of a global of another file resolves, if at all,
\* to the file's own same-named decoy, never to the other file's global; and no twin reference resolves
NotImportedInvisible(d) ==
    /\ \A q \in DOMAIN d.files :
          LET f == d.files[q].path IN
          \A x \in DOMAIN d.place :
              LET r == Resolve(f, d.stm, [ns |-> <<>>, name |-> x], d.gl) IN
              (d.place[x] # f /\ r # Unresolved /\ r.file # f) =>
                  \E j \in DOMAIN d.edges : d.edges[j].f = f /\ d.edges[j].x = x /\ d.edges[j].st = "from"
    /\ \A q \in DOMAIN d.twins :
          Resolve(d.twins[q].file, [d.stm EXCEPT ![d.twins[q].file] = d.twins[q].stmts],
                  [ns |-> d.twins[q].ns, name |-> d.twins[q].name], d.gl) = Unresolved
    /\ Len(d.edges) > 0 => Len(d.twins) >= 1
    \* a file reaches through a chain only what the files on the way import themselves
    /\ \A j \in DOMAIN d.edges : Len(d.edges[j].via) > 0 =>
          /\ d.edges[j].via[1] \in Range(d.imp[d.edges[j].f])
          /\ \A q \in 1..Len(d.edges[j].via) :
                (IF q = Len(d.edges[j].via) THEN d.edges[j].g ELSE d.edges[j].via[q + 1]) \in Range(d.imp[d.edges[j].via[q]])

\* each file once in the load sequence; exactly the files reachable through imports; all files that hold globals
LoadOnce(d) ==
    /\ Cardinality(Range(d.load)) = Len(d.load)
    /\ Range(d.load) = ReachSet({Main}, d.imp)
    /\ Range(d.load) = UsedFiles(d.place)
    /\ d.load[1] = Main

\* all import paths of the configuration name files of the tree
ImportsExist(d) == \A q \in DOMAIN d.files : \A r \in DOMAIN d.files[q].stmts :
    FileOf(d.files[q].path, d.files[q].stmts[r].path) \in Range(Tree) \ {d.files[q].path}

ConfigOK(d) == UniqueNames(d) /\ RefsResolve(d) /\ NotImportedInvisible(d) /\ LoadOnce(d) /\ ImportsExist(d)

\* every item of every program is reachable from start (so every used file is loaded)
RECURSIVE ItemReach(_, _)
ItemReach(p, xs) == LET nx == xs \cup UNION {RefsOf[p][x] : x \in xs} IN IF nx = xs THEN xs ELSE ItemReach(p, nx)
ProgramsOK ==
    /\ \A p \in 1..NProgs : ItemReach(p, {"start"}) = Range(TopNames(p))
    /\ \A p \in 1..NProgs : Cardinality(Range(TopNames(p))) = Len(Prog(p)) /\ NI(p) \in 3..5
    /\ ProgSet \subseteq 1..NProgs
    /\ \A p \in 1..NProgs : Expected[p].status = "done" /\ Len(Expected[p].out) >= 2
    /\ \A p \in 1..NProgs : \A q \in 1..Len(Expected[p].prints) : Expected[p].prints[q] # "?"

---------------------------------------------------------------------------
(* Verdict on a recorded observation of configuration d (used by the trace module).
   obs = [class, errkind, prints, status, reads: <<[path, n]>>, twins: <<[kind, class, errkind]>>] *)
ReadCount(obs, f) == LET c == {q \in DOMAIN obs.reads : obs.reads[q].path = f} IN
                     IF c = {} THEN 0 ELSE obs.reads[CHOOSE q \in c : TRUE].n

Whys(d, obs) ==
    (IF obs.class # "ok" THEN {"variant-" \o obs.class}
     ELSE (IF obs.status # Expected[d.p].status THEN {"status-differs"} ELSE {})
          \cup (IF obs.prints # Expected[d.p].prints THEN {"prints-differ"} ELSE {}))
    \cup (IF \E f \in Range(d.load) : ReadCount(obs, f) > 1 THEN {"file-read-twice"} ELSE {})
    \cup (IF obs.class = "ok" /\ \E f \in Range(d.load) : ReadCount(obs, f) = 0 THEN {"file-not-read"} ELSE {})
    \cup (IF \E q \in DOMAIN obs.reads : obs.reads[q].n > 0 /\ obs.reads[q].path \notin Range(d.load) THEN {"unimported-file-read"} ELSE {})
    \cup {"twin-" \o obs.twins[q].class \o ":" \o d.twins[q].kind : q \in {q \in DOMAIN obs.twins : obs.twins[q].class # "err"}}
=============================================================================
