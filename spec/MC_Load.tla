------------------------------- MODULE MC_Load -------------------------------
(* C06: the load protocol on its own, with small bounds: self-consistency of SyltLoad
   (invariants, no dead end, compiled ~> loaded, every fair behaviour completes). *)
EXTENDS SyltLoad
=============================================================================
