SPECIFICATION Spec
INVARIANTS NoUninitialisedAccess SpecNeverStuck InitialisedOnlyOnce InOutcomes Confluence CyclicNeverCompletes BlockedOnlyIfCyclic CompleteEndsDone PositionCasesConfluent SelfCasesCyclic DeadCasesConfluent TypeLabels
CHECK_DEADLOCK FALSE
