SPECIFICATION Spec
INVARIANTS NoUninitialisedAccess SpecNeverStuck InitialisedOnlyOnce InOutcomes Confluence CyclicNeverCompletes BlockedOnlyIfCyclic CompleteEndsDone PositionCasesConfluent
CHECK_DEADLOCK FALSE
