---------------------------- MODULE MC_ShapesFam ----------------------------
(* C05, families of SyltShapesFam (function flavours x loop contexts; case arm multisets): emission of the cases
   (MODE=emit; the state is a KEY, the program is built in the action), and validation of the recorded compile / load
   results (MODE=validate): every record is re-derived from its key, the expectation is the specification's, not the
   record's. *)
EXTENDS SyltShapesFam2, Json, IOUtils

MCMaxVariants == IF "MAXV" \in DOMAIN IOEnv THEN atoi(IOEnv.MAXV) ELSE 3

VARIABLES k, pc
vars == <<k, pc>>

Mode == IOEnv.MODE      \* "emit" | "validate"
Full == "FULL" \in DOMAIN IOEnv /\ IOEnv.FULL = "1"   \* the trace must cover the whole universe
Rec == IF Mode = "validate" THEN ndJsonDeserialize(IOEnv.TRACE) ELSE <<>>

(* ---- spec-level sanity of the universes (a failure is a wrong specification: exit 2) *)
\* every value of every dimension occurs
ASSUME FlavDimensions == Mode = "emit" =>
    /\ \A f \in Forms : \A p \in Purities : \A e \in Purities :
          (e = "pu" /\ p = "fn" /\ f \in CalledForms) \/ (f = "var" /\ e = "pu") \/ \E key \in FlavKeys : key[2] = e /\ key[3] = p /\ key[4] = f
    /\ \A l \in LoopCtxs : \A p \in Purities : \E key \in FlavKeys : key[6] = l /\ key[3] = p
    /\ \A w \in Words : \A q \in Positions : \A v \in Variants : \E key \in FlavKeys : key[7] = w /\ key[8] = q /\ key[9] = v
\* the arm lists: for every enum size there are exact lists, lists with a repeated arm that are still total, and lists
\* with as many arms as variants of which one is a repeat (so one variant is missing)
ASSUME ArmClasses == Mode = "emit" =>
    \A n \in 1..MCMaxVariants :
      /\ \E key \in ArmKeys : key[2] = n /\ ArmClass(n, key[3]) = "exact" /\ key[5] = "noelse"
      /\ \E key \in ArmKeys : key[2] = n /\ ArmClass(n, key[3]) = "repeat" /\ key[5] = "noelse"
      /\ (n > 1 => \E key \in ArmKeys : key[2] = n /\ ArmClass(n, key[3]) = "missing+repeat" /\ Len(key[3]) = n /\ key[5] = "noelse")
      /\ \E key \in ArmKeys : key[2] = n /\ ArmClass(n, key[3]) = "unknown" /\ key[5] = "else"
      /\ \A s \in Scruts : \A f \in CaseForms : \A e \in Elses : \E key \in ArmKeys : key[2] = n /\ key[5] = e /\ key[6] = f /\ key[7] = s

\* the families of SyltShapesFam2: every carrier x position x kind of B occurs with B declared after and before A, each with a
\* legal and an illegal use; every pair of use codes occurs on every link
ASSUME Fam2Dimensions == Mode = "emit" =>
    /\ \A c \in OrdCarriers : \A p \in OrdPos : \A t \in OrdTargets : \A o \in (IF OrdNeedsX(p) THEN {"ABX", "XBA"} ELSE {"AB", "BA"}) :
          \A op \in (IF IsEnumTarget(t) THEN {"case-exact", "case-unknown", "case-missing"} ELSE {"read-known", "read-unknown"}) :
             <<"ord", c, p, t, o, "param-uncalled", op>> \in OrdKeys
    /\ \A n \in SeqNodes : \A l \in SeqLinks : \A a \in SeqCodes(n) : \A b \in SeqCodes(n) : IsSeqKeyT(<<"seq", n, l, <<a, b>>>>)
    /\ Cardinality(LposKeys) = 2 * Cardinality(LposEncl) * Cardinality(LposSites) * 3

(* ---- emit *)
\* FAMS=<family> restricts emission and the completeness assumption to one family (development aid; the check runs all)
Fams == IF "FAMS" \in DOMAIN IOEnv THEN IOEnv.FAMS ELSE "all"
Sel(name, S) == IF Fams \in {"all", name} THEN S ELSE {}
Init == /\ pc = "start"
        /\ IF Mode = "emit" THEN (k \in Sel("flav", FlavKeys) \/ k \in Sel("arms", ArmKeys) \/ k \in Sel("ord", OrdKeys)
                                  \/ k \in Sel("lpos", LposKeys) \/ k \in Sel("seq", SeqKeys))
           ELSE k \in 1..Len(Rec)

\* the two readings of the loop-control universe agree: the rule, evaluated on the program text, accepts exactly the
\* programs whose function has a loop of its own around the word
FlavIntent(c) == c.key[1] = "flav" => (c.expect = "accept") = (c.key[9] = "own-loop")
\* the case rule agrees with the class of the arm list: rejected iff an unknown name is listed, or a variant is
\* missing and there is no else; a repeated arm alone changes nothing
ArmIntent(c) == c.key[1] = "arms" =>
    LET cl == ArmClass(c.key[2], c.key[3])
    IN (c.expect = "reject") = (cl \in {"unknown", "unknown+missing", "unknown+repeat", "unknown+missing+repeat"}
                                \/ (cl \in {"missing", "missing+repeat"} /\ c.key[5] = "noelse"))

\* the families of SyltShapesFam2: a declaration-order case is rejected iff its use is an illegal one, whatever the carrier, the
\* position, the order and the provenance; a loop-position case is accepted iff LposIntended; a sequence is rejected iff it
\* contains an illegal use, wherever
OrdIntent(c) == c.key[1] = "ord" => ((c.expect = "reject") = (c.key[7] \in OrdBadOps))
LposIntent(c) == c.key[1] = "lpos" => ((c.expect = "accept") = LposIntended(c.key))
SeqIntent(c) == c.key[1] = "seq" => ((c.expect = "reject") = (\E j \in 1..Len(c.key[4]) : c.key[4][j] \in SeqBadCodes))
AnyCase(key) == IF IsFam2Key(key) THEN Fam2Case(key) ELSE FamCase(key)

Emit == /\ Mode = "emit" /\ pc = "start" /\ pc' = "done" /\ k' = k
        /\ LET c == AnyCase(k)
           IN /\ Assert(FlavIntent(c) /\ ArmIntent(c) /\ OrdIntent(c) /\ LposIntent(c) /\ SeqIntent(c),
                        <<"the rule and the construction of the case disagree", k>>)
              /\ PrintT(<<"REPLAY", ToJson(c)>>)

(* ---- validate: record = [key, id, clause, expect, obs: [class, loads, stage, ..]] *)
R == Rec[k]
Validate == /\ Mode = "validate" /\ pc = "start" /\ pc' = "done" /\ k' = k
            /\ Assert(IF IsFam2Key(R.key) THEN IsOrdKey(R.key) \/ IsLposKey(R.key) \/ IsSeqKey(R.key)
                      ELSE IsFlavKey(R.key) \/ IsArmKey(R.key), <<"record is not a case of the universe", R.key>>)
            /\ LET c == AnyCase(R.key)
               IN /\ Assert(R.id = c.id /\ R.clause = c.clause /\ R.expect = c.expect,
                            <<"record disagrees with the specification about its case", R.key>>)
                  /\ IF Holds(c.expect, R.obs) THEN TRUE
                     ELSE PrintT(<<"REJECT", ToJson([rec |-> k, key |-> R.key, id |-> c.id, clause |-> c.clause,
                                                      expect |-> c.expect, why |-> WhyNot(c.expect, R.obs)])>>)

Next == Emit \/ Validate
Spec == Init /\ [][Next]_vars

\* validate mode with FULL=1: the recorded trace covers exactly the universe
ASSUME TraceComplete == (Mode = "validate" /\ Full) => {Rec[i].key : i \in 1..Len(Rec)} = Sel("flav", FlavKeys) \cup Sel("arms", ArmKeys) \cup Sel("ord", OrdKeys) \cup Sel("lpos", LposKeys) \cup Sel("seq", SeqKeys)
TypeOk == pc \in {"start", "done"}
=============================================================================
