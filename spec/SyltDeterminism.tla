-------------------------- MODULE SyltDeterminism --------------------------
(***************************************************************************)
(* Property C16: compilation is deterministic.                             *)
(*                                                                         *)
(* The compiler is observed as a black box that is run on inputs.  Every   *)
(* run returns a RESULT, a record [class, digest]:                         *)
(*    class  = "ok"    digest = hash of the bytes of the emitted Lua       *)
(*    class  = "err"   digest = hash of the whole error list in order:     *)
(*                     (kind, file, line, columns, message, rendered text) *)
(*    class  = "panic" digest = hash of the panic message                  *)
(* The state keeps `seen`, a partial map from input to the set of results  *)
(* observed for it so far, and the history `hist` of runs.  The property   *)
(* is the invariant Determinism: no input ever has two different results,  *)
(* whatever process performed the run and however many runs (of this or    *)
(* other inputs) happened before.                                          *)
(*                                                                         *)
(* The second half of the module defines the UNIVERSE of inputs the        *)
(* implementation is driven with: Case(i) for i in 1..UniverseSize.  The   *)
(* harness renders program text from exactly these fields; TLC re-derives  *)
(* them from the index when it validates a recorded trace.                 *)
(***************************************************************************)
EXTENDS Naturals, Sequences, FiniteSets, TLC

CONSTANTS Inputs,     \* input identities explored by the generator model
          Procs,      \* process labels ("in" = same process, "x1".. = separate processes)
          MaxRuns,    \* runs per input in the generator model
          Results,    \* the results an environment can return
          Mode        \* "function": the implementation computes some function of its input
                      \* "free":     the implementation may answer anything at any time

VARIABLES seen,       \* [input -> set of results], domain = inputs run so far
          hist,       \* sequence of [input, process, run, result]
          oracle      \* generator model only: the function the implementation computes in mode "function"

dvars == <<seen, hist, oracle>>

---------------------------------------------------------------------------
(* One observed run *)
Run(i, p, r, res) ==
    /\ hist' = Append(hist, [input |-> i, process |-> p, run |-> r, result |-> res])
    /\ seen' = IF i \in DOMAIN seen
                 THEN [seen EXCEPT ![i] = @ \cup {res}]
                 ELSE (i :> {res}) @@ seen

RunsOf(h, i) == {a \in 1..Len(h) : h[a].input = i}

(* The property *)
DeterminismOf(s) == \A i \in DOMAIN s : Cardinality(s[i]) <= 1
Determinism == DeterminismOf(seen)

(* the same thing said over the history: any two runs of one input agree *)
HistDeterminism ==
    \A a, b \in 1..Len(hist) : hist[a].input = hist[b].input => hist[a].result = hist[b].result

(* seen is exactly the image of hist *)
SeenIsImageOfHist ==
    /\ DOMAIN seen = {hist[a].input : a \in 1..Len(hist)}
    /\ \A i \in DOMAIN seen : seen[i] = {hist[a].result : a \in RunsOf(hist, i)}

TwoFormsAgree == Determinism <=> HistDeterminism

(* a witness of a violation: the first two runs of input i with different results *)
Witness(h, i) ==
    LET R == RunsOf(h, i)
        a == CHOOSE x \in R : \A y \in R : x <= y
        D == {y \in R : h[y].result # h[a].result}
        b == CHOOSE x \in D : \A y \in D : x <= y
    IN <<a, b>>

---------------------------------------------------------------------------
(* Generator model: an environment runs inputs in any order, in any process *)
Init == /\ seen = <<>>
        /\ hist = <<>>
        /\ oracle \in [Inputs -> Results]

Answers(i) == IF Mode = "function" THEN {oracle[i]} ELSE Results

Step == \E i \in Inputs, p \in Procs :
           /\ Cardinality(RunsOf(hist, i)) < MaxRuns
           /\ \E res \in Answers(i) : Run(i, p, Cardinality(RunsOf(hist, i)) + 1, res)
           /\ UNCHANGED oracle

Spec == Init /\ [][Step]_dvars

---------------------------------------------------------------------------
(* The universe of inputs (index-addressed).                               *)
(*  fam   family of program (4 accepted, 11 rejected families)             *)
(*  n     number of fields / variants / functions / globals/4 / files      *)
(*  k     rejected families: number of independent planted errors;         *)
(*        accepted families: a usage variant                               *)
(*  ord   declaration order variant (Perm)                                 *)
(*  pos   rotation of the planted positions                                *)
(*  sub   sub-kind of the family (which kind of error / of use)            *)
(*  errpos  ascending 0-based logical positions carrying a planted error   *)
(*  perm    declaration order: perm[j] = logical number declared j-th      *)
Fams == <<"ok-blob", "ok-enum", "ok-globals", "ok-imports",
          "rej-stmts", "rej-blob-decl-types", "rej-blob-lit-types", "rej-blob-lit-fields",
          "rej-enum-variant-types", "rej-files", "rej-dup-defs", "rej-unresolved-fns",
          "rej-blob-generics", "rej-imports", "rej-enum-generics">>
NF == Len(Fams)

\* valid (n, k) pairs, n-major: n \in 2..8, k \in 2..min(4, n)
NK == << <<2,2>>, <<3,2>>, <<3,3>>, <<4,2>>, <<4,3>>, <<4,4>>, <<5,2>>, <<5,3>>, <<5,4>>,
         <<6,2>>, <<6,3>>, <<6,4>>, <<7,2>>, <<7,3>>, <<7,4>>, <<8,2>>, <<8,3>>, <<8,4>> >>
NNK == Len(NK)
ROrd == 4
RPos == 3
RSub == 2

UniverseSize == NF * NNK * ROrd * RPos * RSub

IsRejected(f) == Len(f) > 4 /\ SubSeq(f, 1, 4) = "rej-"

Perm(n, ord) ==
    [j \in 1..n |->
        LET q == j - 1
            half == (n + 1) \div 2
        IN CASE ord = 0 -> q
             [] ord = 1 -> n - 1 - q
             [] ord = 2 -> (q + n \div 2) % n
             [] OTHER   -> IF q < half THEN 2 * q ELSE 2 * (q - half) + 1]

ErrPosSet(n, k, pos) == {(pos + j * (n \div k)) % n : j \in 0..(k - 1)}

RECURSIVE SortedSeq(_)
SortedSeq(S) == IF S = {} THEN <<>>
                ELSE LET m == CHOOSE x \in S : \A y \in S : x <= y
                     IN <<m>> \o SortedSeq(S \ {m})

Case(i) ==
    LET m0  == i - 1
        f   == Fams[(m0 % NF) + 1]
        m1  == m0 \div NF
        nk  == NK[(m1 % NNK) + 1]
        m2  == m1 \div NNK
        ord == m2 % ROrd
        m3  == m2 \div ROrd
        pos == m3 % RPos
        sub == (m3 \div RPos) % RSub
        n   == nk[1]
        k   == nk[2]
    IN [idx |-> i, fam |-> f, n |-> n, k |-> k, ord |-> ord, pos |-> pos, sub |-> sub,
        errpos |-> IF IsRejected(f) THEN SortedSeq(ErrPosSet(n, k, pos)) ELSE <<>>,
        perm |-> Perm(n, ord),
        expect |-> IF IsRejected(f) THEN "err" ELSE "ok"]

SeqRange(s) == {s[x] : x \in DOMAIN s}

(* Well-formedness of the universe, checked by TLC (ASSUME in the model wrapper):            *)
(* the pair table is exactly the valid pairs; every case plants exactly k distinct positions *)
(* inside 0..n-1; every declaration order is a permutation; the index map is injective.      *)
UniverseWellFormed ==
    /\ SeqRange(NK) = {<<n, k>> \in (2..8) \X (2..4) : k <= n}
    /\ Cardinality(SeqRange(NK)) = NNK
    /\ Cardinality(SeqRange(Fams)) = NF
    /\ \A i \in 1..UniverseSize :
          LET c == Case(i) IN
          /\ SeqRange(c.perm) = 0..(c.n - 1)
          /\ IsRejected(c.fam) => /\ Len(c.errpos) = c.k
                                  /\ SeqRange(c.errpos) \subseteq 0..(c.n - 1)
                                  /\ Cardinality(SeqRange(c.errpos)) = c.k
                                  /\ \A x \in 1..(c.k - 1) : c.errpos[x] < c.errpos[x + 1]
          /\ ~IsRejected(c.fam) => c.errpos = <<>>
    /\ Cardinality({<<Case(i).fam, Case(i).n, Case(i).k, Case(i).ord, Case(i).pos, Case(i).sub>> :
                       i \in 1..UniverseSize}) = UniverseSize
=============================================================================
