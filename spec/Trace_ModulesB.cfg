SPECIFICATION TraceSpec
CONSTANTS
  Tree <- MCTreeB
  ProgSet <- MCProgsB
INVARIANTS TraceInv
CHECK_DEADLOCK FALSE
