SPECIFICATION MCSpec
INVARIANTS Acyclic SizeOk NoConstraintLost
CHECK_DEADLOCK FALSE
