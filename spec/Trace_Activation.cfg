SPECIFICATION TraceSpec
INVARIANTS StackOk
CHECK_DEADLOCK FALSE
