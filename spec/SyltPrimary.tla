----------------------------- MODULE SyltPrimary -----------------------------
(***************************************************************************)
(* C13, "all atom kinds": universes built from                             *)
(*   PRIMARY x POSTFIX x WRAP x CONTEXT                                    *)
(* A primary is any expression that needs no operator table to be read: a  *)
(* literal, a name, a parenthesised operator form, a tuple, a list, a blob *)
(* literal, a function literal, an if-expression, a case-expression.  The  *)
(* specification says one thing about them: a call, an index, a field      *)
(* access written behind a primary belongs to that primary (it binds       *)
(* tighter than every unary and binary operator), and the primary with its *)
(* postfix forms is an operand like a name - wherever the expression       *)
(* stands: on the right of a definition, at the START OF A STATEMENT, after*)
(* `ret`, as an argument, inside a list.                                   *)
(*                                                                         *)
(* The tree is composed here (WrapTree(PostTree(PrimTree))); its minimal   *)
(* text comes from the printing rules of SyltExpr, the fully parenthesised *)
(* text from the same rules in mode "fulla"; SyltExpr!Parse reads both     *)
(* back (MC_Expr!RoundTrip).  For the typed universes the value is         *)
(* computed by EvalE below (an environment machine over the same trees)    *)
(* and the program text around the expression (declarations, the way the   *)
(* value reaches `print`) is written here as well.                         *)
(***************************************************************************)
EXTENDS SyltExpr

\* ------------------------------------------------------------------ primaries
na == Name("a")   nb == Name("b")   nc == Name("c")   nd == Name("d")   nx == Name("x")   ns == Name("s")
PX == [n |-> "x", ty |-> "*"]

PrimKinds == <<"name", "int", "float", "bool", "str", "nil", "group", "ungroup", "tuple", "tuple1", "list", "blob",
               "fn", "fndo", "fnret", "if", "elif", "ifne", "case", "casebind", "case2", "casene">>

PrimTree(pk) ==
    CASE pk = "name"    -> na
      [] pk = "int"     -> IntN(1)
      [] pk = "float"   -> FloatN("2.5")
      [] pk = "bool"    -> BoolN(TRUE)
      [] pk = "str"     -> StrN("s")
      [] pk = "nil"     -> NilN
      [] pk = "group"   -> Bin("+", na, nb)                  \* written ( a + b ) wherever the table requires it
      [] pk = "ungroup" -> Un("-", na)
      [] pk = "tuple"   -> TupleN(<<na, nb>>)
      [] pk = "tuple1"  -> TupleN(<<na>>)                    \* ( a , )
      [] pk = "list"    -> ListN(<<na, nb>>)
      [] pk = "blob"    -> BlobN(<<[f |-> "x", e |-> na]>>)
      [] pk = "fn"      -> FnN(<<PX>>, "*", <<ExprS(nx)>>)                                   \* fn x -> x end
      [] pk = "fndo"    -> FnN(<<>>, "void", <<ExprS(IntN(2))>>)                             \* fn do 2 end
      [] pk = "fnret"   -> FnN(<<[n |-> "x", ty |-> "int"]>>, "int", <<RetS(nx)>>)           \* fn x : int -> int do ret x end
      [] pk = "if"      -> IfN(nc, na, nb)
      [] pk = "elif"    -> [k |-> "if", arms |-> <<[c |-> nc, body |-> <<ExprS(na)>>], [c |-> nd, body |-> <<ExprS(nb)>>],
                                                   [else |-> TRUE, body |-> <<ExprS(nx)>>]>>]
      [] pk = "ifne"    -> [k |-> "if", arms |-> <<[c |-> nc, body |-> <<ExprS(na)>>]>>]
      [] pk = "case"    -> CaseN(ns, "X", na, nb)
      [] pk = "casebind" -> [k |-> "case", e |-> ns, arms |-> <<[v |-> "X", bind |-> "v", body |-> <<ExprS(na)>>]>>, els |-> <<ExprS(nb)>>]
      [] pk = "case2"   -> [k |-> "case", e |-> ns, arms |-> <<[v |-> "X", body |-> <<ExprS(na)>>], [v |-> "Y", body |-> <<ExprS(nb)>>]>>,
                            els |-> <<ExprS(nx)>>]
      [] pk = "casene"  -> [k |-> "case", e |-> ns, arms |-> <<[v |-> "X", body |-> <<ExprS(na)>>]>>]

\* ------------------------------------------------------------------ postfix forms
PostA == <<"none", "call", "idx", "fld", "prime">>
PostB == <<"call0", "call2", "callfld", "fldcall", "idxidx", "fldidx", "callcall">>
PostTree(px, b) ==
    CASE px = "none"    -> b
      [] px = "call"    -> Call(b, <<nx>>)
      [] px = "idx"     -> Idx(b, 1)
      [] px = "fld"     -> Fld(b, "y")
      [] px = "prime"   -> PCall(b, <<nx>>)                  \* b ' x
      [] px = "call0"   -> Call(b, <<>>)
      [] px = "call2"   -> Call(b, <<nx, Name("y")>>)
      [] px = "callfld" -> Fld(Call(b, <<nx>>), "y")
      [] px = "fldcall" -> Call(Fld(b, "y"), <<nx>>)
      [] px = "idxidx"  -> Idx(Idx(b, 1), 0)
      [] px = "fldidx"  -> Idx(Fld(b, "y"), 1)
      [] px = "callcall" -> Call(Call(b, <<nx>>), <<Name("y")>>)

\* ------------------------------------------------------------------ wraps: where the term stands inside the expression
\* a wrap is a pair of strings <<kind, operator>>
BinWraps(kind) == {<<kind, BinOps[i]>> : i \in 1..Len(BinOps)}
WrapsAll == {<<"none", "">>} \cup BinWraps("L") \cup BinWraps("R") \cup {<<"U", "-">>, <<"U", "not">>}
            \cup {<<"UL", "-">>, <<"UL", "not">>}
            \cup {<<w, "">> : w \in {"A1", "A2", "A3", "LS1", "LS2", "TP1", "TP2", "BF", "IFC", "IFB", "FNB"}}
WrapsSmall == {<<"none", "">>, <<"L", "+">>, <<"R", "*">>, <<"U", "-">>, <<"A1", "">>}
WrapsCtx == {<<"none", "">>, <<"L", "+">>, <<"L", "*">>, <<"L", "==">>, <<"L", "<=>">>, <<"R", "+">>, <<"U", "-">>}

WrapTree(w, T) ==
    CASE w[1] = "none" -> T
      [] w[1] = "L"    -> Bin(w[2], T, nd)
      [] w[1] = "R"    -> Bin(w[2], nd, T)
      [] w[1] = "U"    -> Un(w[2], T)
      [] w[1] = "UL"   -> Bin(IF w[2] = "-" THEN "+" ELSE "and", Un(w[2], T), nd)
      [] w[1] = "A1"   -> Call(Name("f"), <<T>>)
      [] w[1] = "A2"   -> Call(Name("f"), <<T, nd>>)
      [] w[1] = "A3"   -> Call(Name("f"), <<nd, T>>)
      [] w[1] = "LS1"  -> ListN(<<T, nd>>)
      [] w[1] = "LS2"  -> ListN(<<nd, T>>)
      [] w[1] = "TP1"  -> TupleN(<<T, nd>>)
      [] w[1] = "TP2"  -> TupleN(<<nd, T>>)
      [] w[1] = "BF"   -> BlobN(<<[f |-> "z", e |-> T]>>)
      [] w[1] = "IFC"  -> IfN(T, Name("g"), Name("h"))
      [] w[1] = "IFB"  -> IfN(Name("g"), T, Name("h"))
      [] w[1] = "FNB"  -> FnN(<<[n |-> "z", ty |-> "*"]>>, "void", <<ExprS(T)>>)          \* fn z do T end

\* `b ' x` takes everything up to the end of the line / the closing bracket as arguments: it is only written where
\* nothing of the expression follows it
FinalWrap(w) == w[1] \in {"none", "R", "U", "A1", "A3", "LS2", "TP2", "BF"}

\* ------------------------------------------------------------------ contexts: where the expression stands in the program
\* wl / wr: the tokens before / after it; path: where the dumped statement holds it
FnOpen == <<"q", "::", "fn", "do", "\n">>
FnClose == <<"\n", "end">>
CtxKinds == <<"stmt", "stmt2", "stmt1l", "ldef", "asg", "cadd", "ret", "ifb", "elseb", "loopb">>
CtxOf(cx) ==
    CASE cx = "def"    -> [wl |-> <<"q", "::">>, wr |-> <<>>, path |-> <<"e">>]
      [] cx = "stmt"   -> [wl |-> FnOpen, wr |-> FnClose, path |-> <<"e", "body", "0", "e">>]                 \* a statement starts with it
      [] cx = "stmt2"  -> [wl |-> FnOpen \o <<"d", "\n">>, wr |-> FnClose, path |-> <<"e", "body", "1", "e">>]
      [] cx = "stmt1l" -> [wl |-> <<"q", "::", "fn", "do">>, wr |-> <<"end">>, path |-> <<"e", "body", "0", "e">>]
      [] cx = "ldef"   -> [wl |-> FnOpen \o <<"z", ":=">>, wr |-> FnClose, path |-> <<"e", "body", "0", "e">>]
      [] cx = "asg"    -> [wl |-> FnOpen \o <<"z", "=">>, wr |-> FnClose, path |-> <<"e", "body", "0", "e">>]
      [] cx = "cadd"   -> [wl |-> FnOpen \o <<"z", "+=">>, wr |-> FnClose, path |-> <<"e", "body", "0", "e">>]
      [] cx = "ret"    -> [wl |-> FnOpen \o <<"ret">>, wr |-> FnClose, path |-> <<"e", "body", "0", "e">>]
      [] cx = "ifb"    -> [wl |-> FnOpen \o <<"if", "g", "do", "\n">>, wr |-> <<"\n", "else", "\n", "h", "\n", "end">> \o FnClose,
                           path |-> <<"e", "body", "0", "e", "arms", "0", "body", "0", "e">>]
      [] cx = "elseb"  -> [wl |-> FnOpen \o <<"if", "g", "do", "\n", "h", "\n", "else", "\n">>, wr |-> <<"\n", "end">> \o FnClose,
                           path |-> <<"e", "body", "0", "e", "arms", "1", "body", "0", "e">>]
      [] cx = "loopb"  -> [wl |-> FnOpen \o <<"loop", "g", "do", "\n">>, wr |-> <<"\n", "end">> \o FnClose,
                           path |-> <<"e", "body", "0", "body", "body", "0", "e">>]
PrimeCtx(cx) == cx # "stmt1l"

\* ------------------------------------------------------------------ the untyped universes (keys: strings only)
PrimKeys ==
    {[u |-> "prim", pk |-> PrimKinds[i], px |-> PostA[j], w |-> w, cx |-> "def"]
        : i \in 1..Len(PrimKinds), j \in 1..Len(PostA), w \in WrapsAll}
    \cup {[u |-> "prim", pk |-> PrimKinds[i], px |-> PostB[j], w |-> w, cx |-> "def"]
        : i \in 1..Len(PrimKinds), j \in 1..Len(PostB), w \in WrapsSmall}
CtxKeys ==
    {[u |-> "pctx", pk |-> PrimKinds[i], px |-> PostA[j], w |-> w, cx |-> CtxKinds[m]]
        : i \in 1..Len(PrimKinds), j \in 1..Len(PostA), w \in WrapsCtx, m \in 1..Len(CtxKinds)}
\* Left out, because the STATEMENT grammar (not the operator table) decides them: a blob literal directly in front of `else`
\* is refused on purpose ("Parsed a blob not an if-statement"), and `if c do a end else ..` continues the same `if` (the
\* `end` in front of `else` is optional), so an else-less `if` cannot be the last thing of a then-block on one line.
KeyOk(key) == /\ key.px = "prime" => FinalWrap(key.w) /\ PrimeCtx(key.cx)
              /\ ~(key.w[1] = "IFB" /\ key.px = "none" /\ key.pk \in {"blob", "ifne"})
UntypedKeys == {key \in PrimKeys \cup CtxKeys : KeyOk(key)}

KeyTree(key) == WrapTree(key.w, PostTree(key.px, PrimTree(key.pk)))

\* stacks of unary operators of every mix (`- not - a`); only the grouping is looked at
UStackShapes ==
    LET X == {na, IntN(1), FloatN("2.5"), Fld(na, "y"), Call(Name("f"), <<nb>>), IfN(nc, na, nb)}
        S2 == {Un(u1, Un(u2, x)) : u1 \in UnOps, u2 \in UnOps, x \in X}
        S3 == {Un(u1, Un(u2, Un(u3, x))) : u1 \in UnOps, u2 \in UnOps, u3 \in UnOps, x \in X} IN
    S2 \cup S3
    \cup {Bin(o, st, nd) : o \in {"+", "<", "and", "<=>"}, st \in S2 \cup S3}
    \cup {Bin(o, nd, st) : o \in {"-", "==", "or"}, st \in S2 \cup S3}

\* ------------------------------------------------------------------ values and evaluation (typed universes)
\* floats are counted in sixteenths (all literals used are multiples of 1/16; a product must stay one)
SixteenthsOf(s) == CASE s = "2.5" -> 40 [] s = "0.25" -> 4 [] s = "1.0" -> 16 [] s = "1.5" -> 24 [] s = "0.5" -> 8 [] s = "2.0" -> 32
VInt(v) == [k |-> "int", v |-> v]
VBool(v) == [k |-> "bool", v |-> v]
VFloat(q) == [k |-> "float", v |-> q]
VFn(ps, body, env) == [k |-> "fnv", ps |-> ps, body |-> body, env |-> env]
VTuple(es) == [k |-> "tuplev", es |-> es]
VBlob(fs) == [k |-> "blobv", fs |-> fs]                      \* <<[f |-> name, v |-> value], ..>>
VVariant(v) == [k |-> "variantv", v |-> v]

Lookup(env, n) == env[CHOOSE i \in 1..Len(env) : env[i].n = n /\ \A j \in 1..(i - 1) : env[j].n # n].v
RECURSIVE BindParams(_, _, _)
BindParams(ps, args, env) == IF ps = <<>> THEN env ELSE <<[n |-> ps[1].n, v |-> args[1]]>> \o BindParams(Tail(ps), Tail(args), env)

Frac16 == <<"0", "0625", "125", "1875", "25", "3125", "375", "4375", "5", "5625", "625", "6875", "75", "8125", "875", "9375">>
Abs(i) == IF i < 0 THEN 0 - i ELSE i
Show(v) == CASE v.k = "int"   -> ToString(v.v)
             [] v.k = "bool"  -> IF v.v THEN "true" ELSE "false"
             [] v.k = "float" -> (IF v.v < 0 THEN "-" ELSE "") \o ToString(Abs(v.v) \div 16) \o "." \o Frac16[(Abs(v.v) % 16) + 1]

RECURSIVE EvalE(_, _)
RECURSIVE EvalSeq(_, _)
RECURSIVE EvalFields(_, _)
RECURSIVE EvalIf(_, _, _)
EvalSeq(es, env) == IF es = <<>> THEN <<>> ELSE <<EvalE(es[1], env)>> \o EvalSeq(Tail(es), env)
EvalFields(fs, env) == IF fs = <<>> THEN <<>> ELSE <<[f |-> fs[1].f, v |-> EvalE(fs[1].e, env)]>> \o EvalFields(Tail(fs), env)
EvalBody(body, env) == EvalE(body[1].e, env)                 \* one statement: `e` or `ret e`
EvalIf(arms, i, env) == IF "c" \in DOMAIN arms[i]
                        THEN IF EvalE(arms[i].c, env).v THEN EvalBody(arms[i].body, env) ELSE EvalIf(arms, i + 1, env)
                        ELSE EvalBody(arms[i].body, env)
Arith(op, a, b, float) ==
    CASE op = "+" -> a + b
      [] op = "-" -> a - b
      [] op = "*" -> IF float THEN (a * b) \div 16 ELSE a * b
EvalE(t, env) ==
    CASE t.k = "int"   -> VInt(t.v)
      [] t.k = "bool"  -> VBool(t.v)
      [] t.k = "float" -> VFloat(SixteenthsOf(t.v))
      [] t.k = "name"  -> Lookup(env, t.n)
      [] t.k = "un"    -> LET a == EvalE(t.a, env) IN
                          IF t.op = "not" THEN VBool(~a.v) ELSE [a EXCEPT !.v = 0 - @]
      [] t.k = "bin"   ->
          (LET a == EvalE(t.l, env) IN
           IF t.op = "and" /\ ~a.v THEN VBool(FALSE)              \* short circuit
           ELSE IF t.op = "or" /\ a.v THEN VBool(TRUE)
           ELSE LET b == EvalE(t.r, env) IN
             CASE t.op \in {"+", "-", "*"} -> [a EXCEPT !.v = Arith(t.op, a.v, b.v, a.k = "float")]
               [] t.op = "<"  -> VBool(a.v < b.v)
               [] t.op = "<=" -> VBool(a.v <= b.v)
               [] t.op = ">"  -> VBool(a.v > b.v)
               [] t.op = ">=" -> VBool(a.v >= b.v)
               [] t.op = "==" -> VBool(a.v = b.v)
               [] t.op = "!=" -> VBool(a.v # b.v)
               [] t.op = "<=>" -> IF a.v = b.v THEN VBool(TRUE) ELSE AF
               [] t.op \in {"and", "or"} -> VBool(b.v))
      [] t.k = "if"    -> EvalIf(t.arms, 1, env)
      [] t.k = "case"  -> LET sv == EvalE(t.e, env)
                              hit == {i \in 1..Len(t.arms) : t.arms[i].v = sv.v} IN
                          IF hit # {} THEN EvalBody(t.arms[CHOOSE i \in hit : TRUE].body, env) ELSE EvalBody(t.els, env)
      [] t.k = "fn"    -> VFn(t.params, t.body, env)
      [] t.k \in {"call", "pcall"} ->                      \* (bound variables: TLC evaluates the callee and the new environment once)
                          CHOOSE r \in {EvalBody(f.body, e2) : <<f, e2>> \in {<<g, BindParams(g.ps, EvalSeq(t.args, env), g.env)>> : g \in {EvalE(t.f, env)}}} : TRUE
      [] t.k = "idx"   -> EvalE(t.e, env).es[t.i.v + 1]
      [] t.k = "fld"   -> CHOOSE r \in {bv.fs[CHOOSE i \in 1..Len(bv.fs) : bv.fs[i].f = t.f].v : bv \in {EvalE(t.e, env)}} : TRUE
      [] t.k = "tuple" -> VTuple(EvalSeq(t.es, env))
      [] t.k = "blob"  -> VBlob(EvalFields(t.fields, env))

\* ---- the program around a typed expression: declarations (text) and their meaning (environment), side by side
PN == [n |-> "n", ty |-> "int"]
IncBody == <<RetS(Bin("+", Name("n"), IntN(1)))>>
DblBody == <<RetS(Bin("*", Name("n"), IntN(2)))>>
MkBody  == <<RetS(FnN(<<[n |-> "m", ty |-> "int"]>>, "int", <<RetS(Bin("+", Name("n"), Name("m")))>>))>>
TopDecls == <<"A", "::", "blob", "{", "\n", "a", ":", "int", ",", "\n", "b", ":", "int", ",", "\n", "}", "\n",
              "S", "::", "enum", "\n", "X", ",", "\n", "Y", ",", "\n", "end", "\n",
              "inc", "::", "fn", "n", ":", "int", "->", "int", "do", "\n", "ret", "n", "+", "1", "\n", "end", "\n",
              "dbl", "::", "fn", "n", ":", "int", "->", "int", "do", "\n", "ret", "n", "*", "2", "\n", "end", "\n",
              "mk", "::", "fn", "n", ":", "int", "->", "fn", "int", "->", "int", "do", "\n",
                    "ret", "fn", "m", ":", "int", "->", "int", "do", "\n", "ret", "n", "+", "m", "\n", "end", "\n", "end", "\n">>
Locals == <<"c", ":=", "true", "\n", "b", ":=", "false", "\n", "s", ":=", "S", ".", "Y", "\n",
            "p", ":=", "A", "{", "a", ":", "1", ",", "b", ":", "2", "}", "\n",
            "q", ":=", "A", "{", "a", ":", "3", ",", "b", ":", "4", "}", "\n",
            "tp", ":=", "(", "6", ",", "7", ")", "\n", "tq", ":=", "(", "8", ",", "9", ")", "\n",
            "nt", ":=", "(", "(", "1", ",", "2", ")", ",", "(", "3", ",", "4", ")", ")", "\n",
            "nu", ":=", "(", "(", "5", ",", "6", ")", ",", "(", "7", ",", "8", ")", ")", "\n",
            "a", ":=", "5", "\n", "x", ":=", "1.5", "\n">>
T2(i, j) == VTuple(<<VInt(i), VInt(j)>>)
B2(i, j) == VBlob(<<[f |-> "a", v |-> VInt(i)], [f |-> "b", v |-> VInt(j)]>>)
Env0 == <<[n |-> "inc", v |-> VFn(<<PN>>, IncBody, <<>>)], [n |-> "dbl", v |-> VFn(<<PN>>, DblBody, <<>>)],
          [n |-> "mk", v |-> VFn(<<PN>>, MkBody, <<>>)],
          [n |-> "c", v |-> VBool(TRUE)], [n |-> "b", v |-> VBool(FALSE)], [n |-> "s", v |-> VVariant("Y")],
          [n |-> "p", v |-> B2(1, 2)], [n |-> "q", v |-> B2(3, 4)], [n |-> "tp", v |-> T2(6, 7)], [n |-> "tq", v |-> T2(8, 9)],
          [n |-> "nt", v |-> VTuple(<<T2(1, 2), T2(3, 4)>>)], [n |-> "nu", v |-> VTuple(<<T2(5, 6), T2(7, 8)>>)],
          [n |-> "a", v |-> VInt(5)], [n |-> "x", v |-> VFloat(24)]>>

\* how the value reaches `print`: ty is the kind of the value, lit its literal
ECtxKinds == <<"print", "ldef", "iret", "ret", "assert">>
HOpen(ty) == TopDecls \o (IF ty = "" THEN <<"h", "::", "fn", "do", "\n">> ELSE <<"h", "::", "fn", "->", ty, "do", "\n">>) \o Locals
StartCall == <<"start", "::", "fn", "do", "\n", "h", "(", ")", "\n", "end", "\n">>
StartPrint == <<"start", "::", "fn", "do", "\n", "print", "(", "h", "(", ")", ")", "\n", "end", "\n">>
ECtxOf(cx, ty, lit) ==
    CASE cx = "print"  -> [epre |-> HOpen("") \o <<"print", "(">>, epost |-> <<")", "\n", "end", "\n">> \o StartCall, out |-> "v"]
      [] cx = "ldef"   -> [epre |-> HOpen("") \o <<"z", ":=">>, epost |-> <<"\n", "print", "(", "z", ")", "\n", "end", "\n">> \o StartCall, out |-> "v"]
      [] cx = "iret"   -> [epre |-> HOpen(ty), epost |-> <<"\n", "end", "\n">> \o StartPrint, out |-> "v"]    \* implicit return: a statement starts with it
      [] cx = "ret"    -> [epre |-> HOpen(ty) \o <<"ret">>, epost |-> <<"\n", "end", "\n">> \o StartPrint, out |-> "v"]
      [] cx = "assert" -> [epre |-> HOpen(""), epost |-> <<"<=>", lit, "\n", "print", "(", "1", ")", "\n", "end", "\n">> \o StartCall, out |-> "1"]

\* ------------------------------------------------------------------ typed terms: primary + postfix with a run-time meaning
ni(n) == Name(n)
FnLit == FnN(<<PN>>, "int", IncBody)
TTermTree(fam, pk, px) ==
    LET base ==
          CASE fam = "fn"  -> (CASE pk = "name" -> ni("inc") [] pk = "fn" -> FnLit [] pk = "if" -> IfN(nc, ni("inc"), ni("dbl"))
                                 [] pk = "case" -> CaseN(ns, "X", ni("inc"), ni("dbl")) [] pk = "call" -> Call(ni("mk"), <<IntN(1)>>))
            [] fam = "tup" -> (CASE pk = "name" -> ni("tp") [] pk = "tuple" -> TupleN(<<IntN(6), IntN(7)>>) [] pk = "if" -> IfN(nc, ni("tp"), ni("tq"))
                                 [] pk = "case" -> CaseN(ns, "X", ni("tp"), ni("tq")))
            [] fam = "ntup" -> (CASE pk = "name" -> ni("nt") [] pk = "tuple" -> TupleN(<<ni("tp"), ni("tq")>>) [] pk = "if" -> IfN(nc, ni("nt"), ni("nu"))
                                 [] pk = "case" -> CaseN(ns, "X", ni("nt"), ni("nu")))
            [] fam = "blob" -> (CASE pk = "name" -> ni("p") [] pk = "blob" -> BlobN(<<[f |-> "a", e |-> IntN(1)], [f |-> "b", e |-> IntN(2)]>>)
                                 [] pk = "if" -> IfN(nc, ni("p"), ni("q")) [] pk = "case" -> CaseN(ns, "X", ni("p"), ni("q"))) IN
    CASE px = "call"   -> Call(base, <<IntN(10)>>)
      [] px = "prime"  -> PCall(base, <<IntN(10)>>)
      [] px = "idx1"   -> Idx(base, 1)
      [] px = "idx0"   -> Idx(base, 0)
      [] px = "idxidx" -> Idx(Idx(base, 1), 0)
      [] px = "fld"    -> Fld(base, "b")
TTerms == {<<"fn", pk, px>> : pk \in {"name", "fn", "if", "case", "call"}, px \in {"call", "prime"}}
          \cup {<<"tup", pk, px>> : pk \in {"name", "tuple", "if", "case"}, px \in {"idx1", "idx0"}}
          \cup {<<"ntup", pk, "idxidx">> : pk \in {"name", "tuple", "if", "case"}}
          \cup {<<"blob", pk, "fld">> : pk \in {"name", "blob", "if", "case"}}

TWraps == {<<"none", "">>, <<"L", "+">>, <<"R", "+">>, <<"L", "*">>, <<"R", "*">>, <<"R", "-">>, <<"L", "-">>, <<"U", "-">>,
           <<"RM", "">>, <<"EQ", "">>, <<"L", "==">>, <<"AND", "">>, <<"UL", "-">>, <<"OR", "">>, <<"A1", "">>}
TWrapTree(w, T) ==
    CASE w[1] = "none" -> T
      [] w[1] = "L"    -> Bin(w[2], T, IntN(IF w[2] = "==" THEN 7 ELSE 3))
      [] w[1] = "R"    -> Bin(w[2], IntN(20), T)
      [] w[1] = "U"    -> Un("-", T)
      [] w[1] = "RM"   -> Bin("+", IntN(1), Bin("*", T, IntN(5)))
      [] w[1] = "EQ"   -> Bin("==", IntN(7), Bin("-", T, IntN(1)))
      [] w[1] = "AND"  -> Bin("and", Bin("<", T, IntN(3)), nc)
      [] w[1] = "UL"   -> Bin("+", Un("-", T), IntN(1))
      [] w[1] = "OR"   -> Bin("or", Name("b"), Bin(">", T, IntN(3)))
      [] w[1] = "A1"   -> Call(ni("inc"), <<T>>)
TFinalWrap(w) == w[1] \in {"none", "R", "U", "A1"}
TypedKeys == {[u |-> "ptyped", tt |-> tt, w |-> w, cx |-> ECtxKinds[m]] : tt \in TTerms, w \in TWraps, m \in 1..Len(ECtxKinds)}
TypedKeyOk(key) == key.tt[3] = "prime" => TFinalWrap(key.w) /\ key.cx # "assert"
TypedKeyTree(key) == TWrapTree(key.w, TTermTree(key.tt[1], key.tt[2], key.tt[3]))

\* ------------------------------------------------------------------ stacks of one unary operator, evaluated
UOperands == <<"int", "float", "float2", "ivar", "fvar", "call", "group", "fld", "idx", "true", "bvar", "cmp">>
UOperandTree(o) ==
    CASE o = "int"    -> IntN(3)
      [] o = "float"  -> FloatN("2.5")
      [] o = "float2" -> FloatN("0.25")
      [] o = "ivar"   -> na
      [] o = "fvar"   -> nx
      [] o = "call"   -> Call(ni("inc"), <<IntN(2)>>)
      [] o = "group"  -> Bin("+", na, IntN(3))
      [] o = "fld"    -> Fld(ni("p"), "b")
      [] o = "idx"    -> Idx(ni("tp"), 1)
      [] o = "true"   -> BoolN(TRUE)
      [] o = "bvar"   -> Name("b")
      [] o = "cmp"    -> Bin("<", na, IntN(3))
UKind(o) == CASE o \in {"float", "float2", "fvar"} -> "float" [] o \in {"true", "bvar", "cmp"} -> "bool" [] OTHER -> "int"
RECURSIVE UStack(_, _, _)
UStack(op, n, x) == IF n = 0 THEN x ELSE Un(op, UStack(op, n - 1, x))
UWrapsNum == {<<"none", "">>, <<"L", "+">>, <<"R", "-">>, <<"R", "+">>, <<"L", "-">>, <<"L", "<">>, <<"R", "==">>, <<"L", "*">>, <<"R", "*">>}
UWrapsBool == {<<"none", "">>, <<"L", "and">>, <<"R", "or">>, <<"L", "==">>}
UOther(kind, op) == CASE kind = "int" -> IntN(2) [] kind = "float" -> FloatN(IF op = "*" THEN "2.0" ELSE "1.0") [] kind = "bool" -> BoolN(op # "or")
UWrapTree(w, T, kind) ==
    CASE w[1] = "none" -> T
      [] w[1] = "L" -> Bin(w[2], T, UOther(kind, w[2]))
      [] w[1] = "R" -> Bin(w[2], UOther(kind, w[2]), T)
UKeys == {[u |-> "ustack", o |-> UOperands[i], n |-> n, w |-> w, sp |-> sp, cx |-> cx]
            : i \in 1..Len(UOperands), n \in 1..3, w \in UWrapsNum \cup UWrapsBool, sp \in {"spaced", "tight"}, cx \in {"print", "ldef"}}
UKeyOk(key) == /\ IF UKind(key.o) = "bool" THEN key.w \in UWrapsBool ELSE key.w \in UWrapsNum
               /\ key.sp = "tight" => UKind(key.o) # "bool"
UKeyTree(key) == LET kind == UKind(key.o) IN
                 UWrapTree(key.w, UStack(IF kind = "bool" THEN "not" ELSE "-", key.n, UOperandTree(key.o)), kind)

\* the "tight" spelling: a run of unary minus signs and the operand token behind it written without spaces (`--2.5`, `---a`)
MinusRuns == {"-", "--", "---"}
NoJoin == {"(", "not", "if", "case", "fn", "["}
EndsOperand(tok) == tok \notin BinOpSet \cup MinusRuns \cup {"(", "[", ",", "not"}
RECURSIVE Tight(_, _)
Tight(toks, prevOperand) ==
    IF toks = <<>> THEN <<>>
    ELSE IF toks[1] \in MinusRuns /\ ~prevOperand /\ Len(toks) >= 2 /\ toks[2] \notin NoJoin
         THEN Tight(<<toks[1] \o toks[2]>> \o SubSeq(toks, 3, Len(toks)), FALSE)
         ELSE <<toks[1]>> \o Tight(Tail(toks), EndsOperand(toks[1]))
=============================================================================
