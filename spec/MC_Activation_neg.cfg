SPECIFICATION MCSpec
INVARIANTS StackOk NoInterference
CHECK_DEADLOCK FALSE
