--------------------------- MODULE MC_Activation ---------------------------
(* SyltActivation on its own: all event sequences over 3 activations and 2 names up to a bound. *)
(* Shows the invariant is not vacuous: NoInterferenceReachable must be VIOLATED (TLC finds an   *)
(* interference), while StackOk holds everywhere.                                               *)
EXTENDS SyltActivation
VARIABLE steps
Acts == 1..3
Names == {"V1", "V2"}
MCInit == ActInit /\ steps = 0
MCNext == /\ steps < 7 /\ steps' = steps + 1
          /\ \/ \E a \in Acts : Enter(a, Top)
             \/ Exit(Top)
             \/ \E n \in Names : GWrite(Top, n)
             \/ \E n \in Names : GRead(Top, n)
MCSpec == MCInit /\ [][MCNext]_<<actvars, steps>>
=============================================================================
