SPECIFICATION Spec
VIEW View
ACTION_CONSTRAINT TransitionSane
INVARIANTS TypeOK
CHECK_DEADLOCK FALSE
