------------------------------- MODULE SyltInit -------------------------------
(***************************************************************************)
(* C11 - top-level order is irrelevant; globals are initialised before use *)
(*                                                                         *)
(* A Sylt program is a SET of top-level definitions: the textual order of  *)
(* the definitions carries no meaning.  What a program does is therefore   *)
(* defined without any reference to text order:                            *)
(*                                                                         *)
(*   * a type declaration (blob, enum) has no run-time effect and is       *)
(*     visible everywhere;                                                 *)
(*   * a global may be initialised at any moment at which the DYNAMIC      *)
(*     needs of its initialiser are met, i.e. evaluating the initialiser   *)
(*     (with the strict semantics of SyltSem) neither reads nor assigns a  *)
(*     global that is not initialised yet: action GlobalInit(i);           *)
(*   * when every global is initialised, start() is called.                *)
(*                                                                         *)
(* `Next` (MC_Init) explores EVERY order in which GlobalInit is enabled.   *)
(* A program whose complete behaviours all end with the same output and    *)
(* the same global values is CONFLUENT: that common result is what every   *)
(* textual permutation of the program has to do.  A program with no        *)
(* complete behaviour has a cyclic value dependency (some initialiser can  *)
(* never run without touching an uninitialised global): it has to be       *)
(* rejected in every textual order.  A program with several different      *)
(* results is inherently order-dependent (e.g. one initialiser reads a     *)
(* global that another initialiser assigns through a function): no         *)
(* compiler could make it order-insensitive; it is excluded from the       *)
(* behavioural comparison (only accept/reject consistency is required).    *)
(*                                                                         *)
(* Families of programs (records [decls, g, start]): dependency SHAPES,     *)
(* described here (ShapeProg); syntactic POSITIONS of the only mention of a *)
(* later global (PosProg), SELF-REFERENCE of a non-function initialiser at  *)
(* those positions (SelfProg) and unspecified-behaviour cases, further      *)
(* down; TYPE ORDER in module SyltTypeOrder.                                *)
(*                                                                         *)
(* The shape universe: programs of n <= 4 globals g_1..g_n plus `start`; the *)
(* initialiser of each global is drawn from the menu below (kind, target   *)
(* j), well-typed by construction (every global has a class: int, fn       *)
(* (-> int), fnclo (-> fn -> int), enum E, blob B, list [int]).            *)
(*                                                                         *)
(*   lit      g_i :: 10*i                 mlit   g_i := 10*i               *)
(*   read j   g_i :: g_j                  arith j g_i :: g_j + i           *)
(*   fnread j g_i :: fn -> int do g_j + 100*i end                          *)
(*   fnasg j  g_i :: fn -> int do g_j = 50+i ; i end       (g_j mutable)   *)
(*   fninc j  g_i :: fn -> int do g_j += i ; i+4 end       (g_j mutable)   *)
(*   call j   g_i :: g_j()                (g_j of class fn)                *)
(*   mkclo j  g_i :: fn -> (fn -> int) do fn -> int do g_j + 200*i end end *)
(*   clocall j g_i :: g_j()()             (g_j of class fnclo)             *)
(*   enumv    g_i : E : E.A i             blobl  g_i : B : B { x: 10*i }   *)
(*   blobof j g_i : B : B { x: g_j }      fld j  g_i :: g_j.x              *)
(*   list j   g_i : [int] : [g_j, i]                                       *)
(*                                                                         *)
(* A global is mutable (`:=`) when its kind is mlit or when some function  *)
(* of the program assigns it; otherwise constant (`::`).  `start` prints   *)
(* every global (calling the function-valued ones) and then every mutable  *)
(* global once more.  Programs are taken up to renaming of the globals     *)
(* (kinds in non-decreasing rank order): every textual permutation of each *)
(* representative is tried anyway.                                         *)
(***************************************************************************)
EXTENDS SyltSem, SyltAst

KindSeq == <<"lit", "mlit", "read", "arith", "call", "clocall", "fld",
             "fnread", "fnasg", "fninc", "mkclo", "enumv", "blobl", "blobof", "list">>
AllKinds == {KindSeq[r] : r \in 1..Len(KindSeq)}
RankOf == [k \in AllKinds |-> CHOOSE r \in 1..Len(KindSeq) : KindSeq[r] = k]
Rank(k) == RankOf[k]

\* the class (type) of a global of kind k
KindClass(k) ==
    CASE k \in {"lit", "mlit", "read", "arith", "call", "clocall", "fld"} -> "int"
      [] k \in {"fnread", "fnasg", "fninc"} -> "fn"
      [] k = "mkclo" -> "fnclo"
      [] k = "enumv" -> "enum"
      [] k \in {"blobl", "blobof"} -> "blob"
      [] k = "list" -> "list"

\* the class the target g_j of kind k must have ("none": the kind has no target)
Need(k) ==
    CASE k \in {"read", "arith", "fnread", "fnasg", "fninc", "mkclo", "blobof", "list"} -> "int"
      [] k = "call" -> "fn"
      [] k = "clocall" -> "fnclo"
      [] k = "fld" -> "blob"
      [] OTHER -> "none"

Assigners == {"fnasg", "fninc"}
SelfOk == {"read", "arith"}          \* g :: g, g :: g + 1 : the smallest cyclic value dependencies

Ch(k, j) == [kind |-> k, j |-> j]
RawChoices(n) == {Ch(k, 0) : k \in {x \in AllKinds : Need(x) = "none"}}
                 \cup {Ch(k, j) : k \in {x \in AllKinds : Need(x) # "none"}, j \in 1..n}

\* a program = sequence of choices, one per global
WellFormed(p) ==
    \A i \in 1..Len(p) :
       LET c == p[i] IN
       /\ c.kind \in AllKinds
       /\ IF Need(c.kind) = "none" THEN c.j = 0
          ELSE /\ c.j \in 1..Len(p)
               /\ KindClass(p[c.j].kind) = Need(c.kind)
               /\ (c.j = i => c.kind \in SelfOk)
               /\ (c.kind \in Assigners => p[c.j].kind # "lit")   \* an assigned literal is written mlit
Sorted(p) == \A i \in 1..(Len(p) - 1) : Rank(p[i].kind) <= Rank(p[i + 1].kind)

\* enumeration: kind vectors in non-decreasing rank order, then every admissible target per global
NK == Len(KindSeq)
KindVectors(n) ==
    CASE n = 1 -> {<<KindSeq[a]>> : a \in 1..NK}
      [] n = 2 -> {<<KindSeq[x[1]], KindSeq[x[2]]>> : x \in {y \in (1..NK) \X (1..NK) : y[1] <= y[2]}}
      [] n = 3 -> {<<KindSeq[x[1]], KindSeq[x[2]], KindSeq[x[3]]>> :
                     x \in {y \in (1..NK) \X (1..NK) \X (1..NK) : y[1] <= y[2] /\ y[2] <= y[3]}}
      [] n = 4 -> {<<KindSeq[x[1]], KindSeq[x[2]], KindSeq[x[3]], KindSeq[x[4]]>> :
                     x \in {y \in (1..NK) \X (1..NK) \X (1..NK) \X (1..NK) : y[1] <= y[2] /\ y[2] <= y[3] /\ y[3] <= y[4]}}

Targets(kv, i) ==
    IF Need(kv[i]) = "none" THEN {0}
    ELSE {j \in 1..Len(kv) : /\ KindClass(kv[j]) = Need(kv[i])
                              /\ (j = i => kv[i] \in SelfOk)
                              /\ (kv[i] \in Assigners => kv[j] # "lit")}

WithTargets(kv) ==
    LET n == Len(kv) IN
    CASE n = 1 -> {<<Ch(kv[1], a)>> : a \in Targets(kv, 1)}
      [] n = 2 -> {<<Ch(kv[1], a), Ch(kv[2], b)>> : a \in Targets(kv, 1), b \in Targets(kv, 2)}
      [] n = 3 -> {<<Ch(kv[1], a), Ch(kv[2], b), Ch(kv[3], c)>> :
                     a \in Targets(kv, 1), b \in Targets(kv, 2), c \in Targets(kv, 3)}
      [] n = 4 -> {<<Ch(kv[1], a), Ch(kv[2], b), Ch(kv[3], c), Ch(kv[4], d)>> :
                     a \in Targets(kv, 1), b \in Targets(kv, 2), c \in Targets(kv, 3), d \in Targets(kv, 4)}

Universe(n) == UNION {WithTargets(kv) : kv \in KindVectors(n)}

\* a seeded, specification-side sample of a universe too large to replay completely
Hash(p, seed) ==
    LET RECURSIVE H(_, _)
        H(i, h) == IF i > Len(p) THEN h
                   ELSE H(i + 1, (h * 131 + Rank(p[i].kind) * 7 + p[i].j + seed) % 1000003)
    IN H(1, 17)
Selected(n, mod, seed) == IF mod <= 1 THEN Universe(n) ELSE {p \in Universe(n) : Hash(p, seed) % mod = 0}
\* the cases of a run: every program of sizes minn..maxn; the programs of size 4 are sampled when mod > 1
\* (a few landmark programs of size 4 are in every sample: a non-confluent one, a chain, a diamond, a closure
\* chain, types, a 4-cycle, a call of an assigning function)
Landmarks == {
    <<Ch("mlit", 0), Ch("read", 1), Ch("call", 4), Ch("fnasg", 1)>>,
    <<Ch("lit", 0), Ch("read", 1), Ch("arith", 2), Ch("list", 3)>>,
    <<Ch("lit", 0), Ch("arith", 1), Ch("arith", 1), Ch("list", 2)>>,
    <<Ch("lit", 0), Ch("clocall", 4), Ch("fnread", 1), Ch("mkclo", 1)>>,
    <<Ch("lit", 0), Ch("fld", 4), Ch("enumv", 0), Ch("blobof", 1)>>,
    <<Ch("read", 2), Ch("read", 3), Ch("read", 4), Ch("read", 1)>>,
    <<Ch("mlit", 0), Ch("call", 3), Ch("fnasg", 1), Ch("list", 2)>> }
CasesOf(minn, maxn, mod, seed) ==
    UNION {IF n = 4 THEN Selected(n, mod, seed) \cup Landmarks ELSE Universe(n) : n \in minn..maxn}

---------------------------------------------------------------------------
(* the program text (AST) of a choice vector *)

StartId == 99
Class(p, i) == KindClass(p[i].kind)
Mut(p, i) == p[i].kind = "mlit" \/ \E k \in 1..Len(p) : p[k].kind \in Assigners /\ p[k].j = i
HasEnum(p) == \E i \in 1..Len(p) : Class(p, i) = "enum"
HasBlob(p) == \E i \in 1..Len(p) : Class(p, i) = "blob"

InitExpr(p, i) ==
    LET k == p[i].kind  j == p[i].j IN
    CASE k \in {"lit", "mlit"} -> I(10 * i)
      [] k = "read"    -> V(j)
      [] k = "arith"   -> Bin("+", V(j), I(i))
      [] k = "fnread"  -> Fn(<<>>, TInt, <<Ex(Bin("+", V(j), I(100 * i)))>>)
      [] k = "fnasg"   -> Fn(<<>>, TInt, <<Asg("=", V(j), I(50 + i)), Ex(I(i))>>)
      [] k = "fninc"   -> Fn(<<>>, TInt, <<Asg("+=", V(j), I(i)), Ex(I(i + 4))>>)
      [] k = "call"    -> Call(V(j), <<>>)
      [] k = "mkclo"   -> Fn(<<>>, TFn(<<>>, TInt), <<Ex(Fn(<<>>, TInt, <<Ex(Bin("+", V(j), I(200 * i)))>>))>>)
      [] k = "clocall" -> Call(Call(V(j), <<>>), <<>>)
      [] k = "enumv"   -> Var1("E", "A", I(i))
      [] k = "blobl"   -> BlobL("B", <<FI("x", I(10 * i))>>)
      [] k = "blobof"  -> BlobL("B", <<FI("x", V(j))>>)
      [] k = "fld"     -> Fld(V(j), "x")
      [] k = "list"    -> Lst(<<V(j), I(i)>>)

TypeOf(p, i) ==
    CASE Class(p, i) = "int" -> TInt
      [] Class(p, i) = "enum" -> TName("E")
      [] Class(p, i) = "blob" -> TName("B")
      [] Class(p, i) = "list" -> TList(TInt)
      [] OTHER -> TNone

GTop(p, i) == DefN(i, IF Mut(p, i) THEN "mut" ELSE "const", TypeOf(p, i), InitExpr(p, i), "")

ShowExpr(p, i) ==
    CASE Class(p, i) = "fn" -> Call(V(i), <<>>)
      [] Class(p, i) = "fnclo" -> Call(Call(V(i), <<>>), <<>>)
      [] Class(p, i) = "blob" -> Fld(V(i), "x")
      [] OTHER -> V(i)

SeqOfSet(S) ==     \* ascending sequence of a finite set of numbers
    LET RECURSIVE F(_)
        F(T) == IF T = {} THEN <<>>
                ELSE LET m == CHOOSE x \in T : \A y \in T : x <= y IN <<m>> \o F(T \ {m})
    IN F(S)

PrintS(e) == Ex(Call(Std("print"), <<e>>))    \* (SyltAst!Print is shadowed by TLC!Print here)

StartTop(p) ==
    LET n == Len(p)
        muts == SeqOfSet({i \in 1..n : Mut(p, i)}) IN
    DefN(StartId, "const", TNone,
         Fn(<<>>, TVoid, [i \in 1..n |-> PrintS(ShowExpr(p, i))] \o [m \in 1..Len(muts) |-> PrintS(V(muts[m]))]),
         "start")

EnumDecl == EnumD("E", <<VD1("A", TInt), VD0("Z")>>)
BlobDecl == BlobD("B", <<FD("x", TInt)>>)

\* A PROGRAM is a record [decls: type declarations, g: the global definitions, start: the definition of start].
\* Its canonical statement order is decls, g, start; every permutation of it is a rendering of the same program.
ShapeProg(p) ==
    [decls |-> (IF HasEnum(p) THEN <<EnumDecl>> ELSE <<>>) \o (IF HasBlob(p) THEN <<BlobDecl>> ELSE <<>>),
     g |-> [i \in 1..Len(p) |-> GTop(p, i)],
     start |-> StartTop(p)]
TopsOf(pr) == pr.decls \o pr.g \o <<pr.start>>
Tops(p) == TopsOf(ShapeProg(p))

---------------------------------------------------------------------------
(* The second family: SYNTACTIC POSITION of the mention.

   late  a global (int 7 / mutable int 7 / bool true / E.A 7 / B { x: 7 } / fn -> 7 / (7, 8))
   f     a function whose ONLY mention of `late` sits at one child position of one construct
   user  who runs that code during initialisation:
           "start"  nobody: f is only called from start
           "init"   u :: f()
           "iife"   u :: (fn -> T do <the body> end)()      (no f: the mention is inside a global initialiser)
           "expr"   u : T : <the expression>                 (single-expression bodies only)
   start prints u, f() and late.  Every such program is confluent (late first, then u): accepted in every
   textual order with the same behaviour. *)

GL == 1
GF == 2
GU == 3
GH == 4          \* h2 :: fn a: int, b: int -> int do a * 10 + b end
L == V(GL)
CallForm(f, args, form) == [k |-> "call", f |-> f, args |-> args, form |-> form]   \* form: 1 f' a, b   2 a -> f(b)   3 a -> f' b
BMDecl == BlobD("BM", <<FD("m", TFn(<<>>, TInt))>>)
WDecl == BlobD("W", <<FD("b", TName("B"))>>)
TPairI == TTuple(<<TInt, TInt>>)

PD(lk, ret, decls, h, body) == [lk |-> lk, ret |-> ret, decls |-> decls, h |-> h, body |-> body]
IfChain(c2, b2) == If(<<ArmC(Bo(FALSE), <<Ex(I(1))>>), ArmC(c2, b2), ArmE(<<Ex(I(3))>>)>>)

PosNames == <<"ifcond", "ifthen", "elifcond", "elifthen", "ifelse",
              "casescrut", "casearm", "casearmbind", "caseelse",
              "loopcond", "loopbody",
              "callee", "calleefld", "calleeidx", "calleecall", "arg1", "arg2", "stdarg", "primearg", "arrowlhs", "arrowarg", "arrowprime",
              "tupleelem", "listelem", "blobfield", "variantpayload", "indexbase", "fieldbase",
              "neg", "not", "binleft", "binright", "cmpright", "andleft", "andright", "orright",
              "asgrhs", "opasgrhs", "asgtarget", "opasgtarget", "fldtarget", "fldoptarget", "deepfldtarget", "fldtargetinloop",
              "retexpr", "retinif", "defvalue", "block", "closure", "iife", "method",
              "assertleft", "assertright">>
Positions == {PosNames[x] : x \in 1..Len(PosNames)}
AssignPositions == {"asgtarget", "opasgtarget", "fldtarget", "fldoptarget", "deepfldtarget", "fldtargetinloop", "idxtarget"}

PosDef(pos) ==
    CASE pos = "ifcond"    -> PD("t", TInt, {}, FALSE, <<Ex(If2(L, <<Ex(I(1))>>, <<Ex(I(2))>>))>>)
      [] pos = "ifthen"    -> PD("i", TInt, {}, FALSE, <<Ex(If2(Bo(TRUE), <<Ex(L)>>, <<Ex(I(2))>>))>>)
      [] pos = "elifcond"  -> PD("t", TInt, {}, FALSE, <<Ex(IfChain(L, <<Ex(I(2))>>))>>)
      [] pos = "elifthen"  -> PD("i", TInt, {}, FALSE, <<Ex(IfChain(Bo(TRUE), <<Ex(L)>>))>>)
      [] pos = "ifelse"    -> PD("i", TInt, {}, FALSE, <<Ex(If2(Bo(FALSE), <<Ex(I(1))>>, <<Ex(L)>>))>>)
      [] pos = "casescrut" -> PD("e", TInt, {"E"}, FALSE,
                                 <<Ex(CaseE(L, <<CArmB("A", 201, <<Ex(V(201))>>)>>, <<Ex(I(0))>>))>>)
      [] pos = "casearm"   -> PD("i", TInt, {"E"}, FALSE,
                                 <<Ex(CaseE(Var0("E", "Z"), <<CArm("Z", <<Ex(L)>>)>>, <<Ex(I(0))>>))>>)
      [] pos = "casearmbind" -> PD("i", TInt, {"E"}, FALSE,
                                 <<Ex(CaseE(Var1("E", "A", I(1)), <<CArmB("A", 201, <<Ex(Bin("+", V(201), L))>>)>>, <<Ex(I(0))>>))>>)
      [] pos = "caseelse"  -> PD("i", TInt, {"E"}, FALSE,
                                 <<Ex(CaseE(Var0("E", "Z"), <<CArmB("A", 201, <<Ex(V(201))>>)>>, <<Ex(L)>>))>>)
      [] pos = "loopcond"  -> PD("t", TInt, {}, FALSE,
                                 <<DefM(301, TInt, I(0)), Loop(L, <<Asg("+=", V(301), I(1)), Break>>), Ex(V(301))>>)
      [] pos = "loopbody"  -> PD("i", TInt, {}, FALSE,
                                 <<DefM(301, TInt, I(0)), Loop(Bin("<", V(301), I(1)), <<Asg("+=", V(301), L)>>), Ex(V(301))>>)
      [] pos = "callee"    -> PD("f", TInt, {}, FALSE, <<Ex(Call(L, <<>>))>>)
      \* callee expressions of other shapes: a fn-typed field of a global blob, an element of a global tuple, the
      \* result of calling the global
      [] pos = "calleefld" -> PD("n", TInt, {"BM"}, FALSE, <<Ex(Call(Fld(L, "m"), <<>>))>>)
      [] pos = "calleeidx" -> PD("g", TInt, {}, FALSE, <<Ex(Call(Idx(L, 0), <<>>))>>)
      [] pos = "calleecall" -> PD("c", TInt, {}, FALSE, <<Ex(Call(Call(L, <<>>), <<>>))>>)
      [] pos = "arg1"      -> PD("i", TInt, {}, TRUE, <<Ex(Call(V(GH), <<L, I(1)>>))>>)
      [] pos = "arg2"      -> PD("i", TInt, {}, TRUE, <<Ex(Call(V(GH), <<I(1), L>>))>>)
      [] pos = "stdarg"    -> PD("i", TInt, {}, FALSE, <<Ex(Call(Std("print"), <<L>>)), Ex(I(1))>>)
      [] pos = "primearg"  -> PD("i", TInt, {}, TRUE, <<Ex(CallForm(V(GH), <<I(1), L>>, 1))>>)
      [] pos = "arrowlhs"  -> PD("i", TInt, {}, TRUE, <<Ex(CallForm(V(GH), <<L, I(1)>>, 2))>>)
      [] pos = "arrowarg"  -> PD("i", TInt, {}, TRUE, <<Ex(CallForm(V(GH), <<I(1), L>>, 2))>>)
      [] pos = "arrowprime" -> PD("i", TInt, {}, TRUE, <<Ex(CallForm(V(GH), <<L, I(1)>>, 3))>>)
      [] pos = "tupleelem" -> PD("i", TPairI, {}, FALSE, <<Ex(Tup(<<I(1), L>>))>>)
      [] pos = "listelem"  -> PD("i", TList(TInt), {}, FALSE, <<Ex(Lst(<<L, I(1)>>))>>)
      [] pos = "blobfield" -> PD("i", TInt, {"B"}, FALSE,
                                 <<DefC(303, TName("B"), BlobL("B", <<FI("x", L)>>)), Ex(Fld(V(303), "x"))>>)
      [] pos = "variantpayload" -> PD("i", TName("E"), {"E"}, FALSE, <<Ex(Var1("E", "A", L))>>)
      [] pos = "indexbase" -> PD("p", TInt, {}, FALSE, <<Ex(Idx(L, 1))>>)
      [] pos = "fieldbase" -> PD("b", TInt, {"B"}, FALSE, <<Ex(Fld(L, "x"))>>)
      [] pos = "neg"       -> PD("i", TInt, {}, FALSE, <<Ex(Un("-", L))>>)
      [] pos = "not"       -> PD("t", TBool, {}, FALSE, <<Ex(Un("not", L))>>)
      [] pos = "binleft"   -> PD("i", TInt, {}, FALSE, <<Ex(Bin("+", L, I(1)))>>)
      [] pos = "binright"  -> PD("i", TInt, {}, FALSE, <<Ex(Bin("-", I(1), L))>>)
      [] pos = "cmpright"  -> PD("i", TBool, {}, FALSE, <<Ex(Bin("<", I(1), L))>>)
      [] pos = "andleft"   -> PD("t", TBool, {}, FALSE, <<Ex(Bin("and", L, Bo(TRUE)))>>)
      [] pos = "andright"  -> PD("t", TBool, {}, FALSE, <<Ex(Bin("and", Bo(TRUE), L))>>)
      [] pos = "orright"   -> PD("t", TBool, {}, FALSE, <<Ex(Bin("or", Bo(FALSE), L))>>)
      [] pos = "asgrhs"    -> PD("i", TInt, {}, FALSE, <<DefM(301, TInt, I(0)), Asg("=", V(301), L), Ex(V(301))>>)
      [] pos = "opasgrhs"  -> PD("i", TInt, {}, FALSE, <<DefM(301, TInt, I(1)), Asg("+=", V(301), L), Ex(V(301))>>)
      [] pos = "asgtarget" -> PD("m", TInt, {}, FALSE, <<Asg("=", L, I(9)), Ex(I(1))>>)
      [] pos = "opasgtarget" -> PD("m", TInt, {}, FALSE, <<Asg("+=", L, I(2)), Ex(I(1))>>)
      [] pos = "fldtarget" -> PD("b", TInt, {"B"}, FALSE, <<Asg("=", Fld(L, "x"), I(9)), Ex(I(1))>>)
      [] pos = "fldoptarget" -> PD("b", TInt, {"B"}, FALSE, <<Asg("+=", Fld(L, "x"), I(2)), Ex(I(1))>>)
      [] pos = "deepfldtarget" -> PD("w", TInt, {"B", "W"}, FALSE, <<Asg("=", Fld(Fld(L, "b"), "x"), I(9)), Ex(I(1))>>)
      [] pos = "fldtargetinloop" -> PD("b", TInt, {"B"}, FALSE,
                                 <<DefM(301, TInt, I(0)),
                                   Loop(Bin("<", V(301), I(2)), <<Asg("+=", V(301), I(1)), Asg("=", Fld(L, "x"), V(301))>>),
                                   Ex(V(301))>>)
      \* not in Positions: assigning a tuple element compiles but always fails at run time, so the specification
      \* defines no result for it; it is an "unspecified behaviour" case (see UnspecCases)
      [] pos = "idxtarget" -> PD("q", TInt, {}, FALSE, <<Asg("=", Idx(L, 0), I(9)), Ex(I(1))>>)
      [] pos = "retexpr"   -> PD("i", TInt, {}, FALSE, <<Ret(L)>>)
      [] pos = "retinif"   -> PD("i", TInt, {}, FALSE, <<Ex(If1(Bo(TRUE), <<Ret(L)>>)), Ex(I(0))>>)
      [] pos = "defvalue"  -> PD("i", TInt, {}, FALSE, <<DefC(301, TInt, L), Ex(V(301))>>)
      [] pos = "block"     -> PD("i", TInt, {}, FALSE,
                                 <<DefM(301, TInt, I(0)), Block(<<Asg("=", V(301), L)>>), Ex(V(301))>>)
      [] pos = "closure"   -> PD("i", TInt, {}, FALSE,
                                 <<DefC(304, TNone, Fn(<<>>, TInt, <<Ex(L)>>)), Ex(Call(V(304), <<>>))>>)
      [] pos = "iife"      -> PD("i", TInt, {}, FALSE, <<Ex(Call(Fn(<<>>, TInt, <<Ex(L)>>), <<>>))>>)
      [] pos = "method"    -> PD("i", TInt, {"BM"}, FALSE,
                                 <<DefC(303, TName("BM"), BlobL("BM", <<FI("m", Fn(<<>>, TInt, <<Ex(L)>>))>>)),
                                   Ex(Call(Fld(V(303), "m"), <<>>))>>)
      [] pos = "assertleft"  -> PD("i", TInt, {}, FALSE, <<Ex(Bin("<=>", L, I(7))), Ex(I(1))>>)
      [] pos = "assertright" -> PD("i", TInt, {}, FALSE, <<Ex(Bin("<=>", I(7), L)), Ex(I(1))>>)

LateTop(lk) ==
    CASE lk = "i" -> DefN(GL, "const", TInt, I(7), "late")
      [] lk = "m" -> DefN(GL, "mut", TInt, I(7), "late")
      [] lk = "t" -> DefN(GL, "const", TBool, Bo(TRUE), "late")
      [] lk = "e" -> DefN(GL, "const", TName("E"), Var1("E", "A", I(7)), "late")
      [] lk = "b" -> DefN(GL, "mut", TName("B"), BlobL("B", <<FI("x", I(7))>>), "late")
      [] lk = "f" -> DefN(GL, "const", TNone, Fn(<<>>, TInt, <<Ex(I(7))>>), "late")
      [] lk = "p" -> DefN(GL, "const", TPairI, Tup(<<I(7), I(8)>>), "late")
      [] lk = "q" -> DefN(GL, "mut", TPairI, Tup(<<I(7), I(8)>>), "late")
      [] lk = "w" -> DefN(GL, "mut", TName("W"), BlobL("W", <<FI("b", BlobL("B", <<FI("x", I(7))>>))>>), "late")
      [] lk = "n" -> DefN(GL, "const", TName("BM"), BlobL("BM", <<FI("m", Fn(<<>>, TInt, <<Ex(I(7))>>))>>), "late")
      [] lk = "g" -> DefN(GL, "const", TTuple(<<TFn(<<>>, TInt), TInt>>), Tup(<<Fn(<<>>, TInt, <<Ex(I(7))>>), I(8)>>), "late")
      [] lk = "c" -> DefN(GL, "const", TNone, Fn(<<>>, TFn(<<>>, TInt), <<Ex(Fn(<<>>, TInt, <<Ex(I(7))>>))>>), "late")
LateShow(lk) == CASE lk = "b" -> Fld(L, "x") [] lk = "w" -> Fld(Fld(L, "b"), "x") [] lk = "f" -> Call(L, <<>>)
                  [] lk = "n" -> Call(Fld(L, "m"), <<>>) [] lk = "g" -> Call(Idx(L, 0), <<>>) [] lk = "c" -> Call(Call(L, <<>>), <<>>)
                  [] OTHER -> L

HelperTop == DefN(GH, "const", TNone,
                  Fn(<<P(401, TInt), P(402, TInt)>>, TInt, <<Ex(Bin("+", Bin("*", V(401), I(10)), V(402)))>>), "h2")

Users == {"start", "init", "iife", "expr"}
SingleExpr(d) == Len(d.body) = 1 /\ d.body[1].k = "expr"
PosCases == {c \in [pos : Positions, user : Users] : c.user = "expr" => SingleExpr(PosDef(c.pos))}

\* Cases for which the specification defines no result (the construct always fails at run time) but the property
\* still demands the SAME observation in every textual order: an assignment to an element of a global tuple.
UnspecCases == {[pos |-> "idxtarget", user |-> u] : u \in {"start", "init", "iife"}}

PosProgD(d, user) ==
    LET body == Fn(<<>>, d.ret, d.body)
        hasF == user \in {"start", "init"}
        hasU == user # "start"
        uinit == CASE user = "init" -> Call(V(GF), <<>>)
                   [] user = "iife" -> Call(body, <<>>)
                   [] user = "expr" -> d.body[1].e
                   [] OTHER -> Nil IN
    [decls |-> (IF "E" \in d.decls \/ d.lk = "e" THEN <<EnumDecl>> ELSE <<>>)
               \o (IF "B" \in d.decls \/ d.lk = "b" THEN <<BlobDecl>> ELSE <<>>)
               \o (IF "BM" \in d.decls THEN <<BMDecl>> ELSE <<>>)
               \o (IF "W" \in d.decls THEN <<WDecl>> ELSE <<>>),
     g |-> <<LateTop(d.lk)>> \o (IF d.h THEN <<HelperTop>> ELSE <<>>)
           \o (IF hasF THEN <<DefN(GF, "const", TNone, body, "f")>> ELSE <<>>)
           \o (IF hasU THEN <<DefN(GU, "const", d.ret, uinit, "u")>> ELSE <<>>),
     start |-> DefN(StartId, "const", TNone,
                    Fn(<<>>, TVoid, (IF hasU THEN <<PrintS(V(GU))>> ELSE <<>>)
                                    \o (IF hasF THEN <<PrintS(Call(V(GF), <<>>))>> ELSE <<>>)
                                    \o <<PrintS(LateShow(d.lk))>>), "start")]
PosProg(c) == PosProgD(PosDef(c.pos), c.user)

\* SELF-REFERENCE of a non-function initialiser: the global u mentions ITSELF at position P of its own
\* initialiser (directly, or inside an immediately called closure): a value cycle of length one - no complete
\* behaviour, rejected in every order.  (Positions whose `late` is an int and whose result is an int, so that the
\* program is well typed apart from the cycle; u plays the role of `late`.)
SelfCases == {c \in [pos : Positions, user : {"expr", "iife"}] :
                /\ PosDef(c.pos).lk = "i" /\ PosDef(c.pos).ret = TInt
                /\ (c.user = "expr" => SingleExpr(PosDef(c.pos)))}
SelfProg(c) ==
    LET d == PosDef(c.pos)
        uinit == IF c.user = "iife" THEN Call(Fn(<<>>, d.ret, d.body), <<>>) ELSE d.body[1].e IN
    [decls |-> (IF "E" \in d.decls THEN <<EnumDecl>> ELSE <<>>) \o (IF "B" \in d.decls THEN <<BlobDecl>> ELSE <<>>)
               \o (IF "BM" \in d.decls THEN <<BMDecl>> ELSE <<>>),
     g |-> (IF d.h THEN <<HelperTop>> ELSE <<>>) \o <<DefN(GL, "const", TInt, uinit, "u")>>,
     start |-> DefN(StartId, "const", TNone, Fn(<<>>, TVoid, <<PrintS(L)>>), "start")]

---------------------------------------------------------------------------
(* semantics: any order in which the dynamic needs are met *)

Fuel == 200
NG(pr) == Len(pr.g)

\* start is a function literal: creating it needs nothing
S0(pr) == InitTop(pr.start, NewState(Fuel)).s

TryInit(pr, i, S) == InitTop(pr.g[i], S)
UnmetStatus == {"stuck:unbound-variable", "stuck:assign-unbound-variable"}
Unmet(r) == r.s.status \in UnmetStatus
EnabledSet(pr, done, S) == {i \in (1..NG(pr)) \ done : ~Unmet(TryInit(pr, i, S))}

RECURSIVE ShowSnap(_)
ShowSeq(es, i) ==
    LET RECURSIVE J(_)
        J(x) == IF x > Len(es) THEN "" ELSE (IF x > 1 THEN ", " ELSE "") \o ShowSnap(es[x]) \o J(x + 1)
    IN J(i)
ShowSnap(v) ==
    CASE v.k = "int" -> ToString(v.v)
      [] v.k = "variant" -> v.tag \o " " \o ShowSnap(v.val)
      [] v.k = "list" -> "[" \o ShowSeq(v.es, 1) \o "]"
      [] v.k = "tuple" -> "(" \o ShowSeq(v.es, 1) \o ")"
      [] v.k = "nil" -> "nil"
      [] v.k = "bool" -> IF v.v THEN "true" ELSE "false"
      [] v.k = "str" -> v.v
      [] OTHER -> "<" \o v.k \o ">"

GlobShow(pr, i, S) ==
    LET b == pr.g[i].b IN
    IF b \notin DOMAIN S.glob THEN "<uninitialised>"
    ELSE LET v == S.glob[b] IN
         IF v.k = "ref" /\ S.heap[v.a].k = "blob" /\ "x" \in DOMAIN S.heap[v.a].fields
         THEN "B.x=" \o ShowSnap(Render(S.heap[v.a].fields["x"], S.heap, 6))
         ELSE ShowSnap(Render(v, S.heap, 6))

\* what an observer can tell at the end: the printed lines, how the program ended, the globals
Final(pr, S) == [out |-> [k \in 1..Len(S.out) |-> ShowSnap(S.out[k].v)],
                 status |-> S.status,
                 globs |-> [i \in 1..NG(pr) |-> GlobShow(pr, i, S)]]

Done(pr, S) == {i \in 1..NG(pr) : pr.g[i].b \in DOMAIN S.glob}

\* the results of ALL complete behaviours, by recursion over the enabled initialisations
RECURSIVE Runs(_, _, _)
Runs(pr, done, S) ==
    IF S.status # "run" THEN {Final(pr, S)}
    ELSE IF done = 1..NG(pr) THEN {Final(pr, CallStart(pr.start.b, S).s)}
    ELSE UNION {Runs(pr, done \cup {i}, TryInit(pr, i, S).s) : i \in EnabledSet(pr, done, S)}

Outcomes(pr) == Runs(pr, {}, S0(pr))

ClassOfOutcomes(o) == IF o = {} THEN "cyclic" ELSE IF Cardinality(o) = 1 THEN "confluent" ELSE "nonconfluent"
TheOutcome(o) == CHOOSE r \in o : TRUE

---------------------------------------------------------------------------
(* what the recorded renderings of one program (textual permutations, possibly split over two files) have to
   satisfy.  An observation = [class: "ok" | "err" | "panic", nerr, bytes, prints: <<text>>, status]; every clause
   quantifies over all renderings, so a group of renderings is judged through the SET O of its distinct
   observations; o = Outcomes(p). *)

Accepted(v) == v.class = "ok"
RejectedCleanly(v) == v.class = "err" /\ v.nerr > 0 /\ v.bytes = 0      \* an error list, no Lua
Behaves(v, r) == v.class = "ok" /\ v.prints = r.out /\ v.status = r.status

\* "" = the property holds on these renderings; otherwise the failure class
Verdict(O, o) ==
    LET acc == {v \in O : Accepted(v)}
        rej == O \ acc
        dirty == {v \in rej : ~RejectedCleanly(v)} IN
    IF acc # {} /\ rej # {} THEN "accept-differs"                                   \* clause (1)
    ELSE IF dirty # {} THEN "rejected-uncleanly"                                    \* panic / Lua bytes / no error
    ELSE IF o = {} THEN (IF acc = {} THEN "" ELSE "cycle-accepted")                  \* clause (3)
    ELSE IF acc = {} THEN ""                             \* consistently rejected: conservative, counted by the check
    ELSE IF Cardinality(o) > 1 THEN ""                                              \* non-confluent: consistency only
    ELSE LET bad == {v \in O : ~Behaves(v, TheOutcome(o))} IN                        \* clause (2)
         IF bad = {} THEN ""
         ELSE IF bad = O /\ Cardinality(O) = 1 THEN "wrong-in-every-order"
         ELSE "order-dependent"

\* the offending observations (for the report)
BadObs(O, o) ==
    LET acc == {v \in O : Accepted(v)}
        rej == O \ acc IN
    IF acc # {} /\ rej # {} THEN rej
    ELSE IF o = {} THEN {v \in O : ~RejectedCleanly(v)}
    ELSE IF acc = {} THEN {v \in O : ~RejectedCleanly(v)}
    ELSE IF Cardinality(o) = 1 THEN {v \in O : ~Behaves(v, TheOutcome(o))}
    ELSE {}
=============================================================================
