---------------------------- MODULE MC_DetLayout ----------------------------
(* Model constants for checking the "stale" implementation class of SyltDetLayout (spec-level negative control) *)
(* and the well-formedness of the layout universe LineCase and of the name-sharing library XProg / PairScenario. *)
EXTENDS SyltDetLayout
MCInputs == {"i1", "i2"}
MCProcs == {"in"}
MCResults == {[class |-> "ok", digest |-> "aa"], [class |-> "err", digest |-> "cc"]}
MCCfgs == {"writer", "ofile"}
MCStale == "stale"
ASSUME LayoutUniverseWellFormed
=============================================================================
