SPECIFICATION TraceSpec
CONSTANTS
  Alphabet <- MCAlphabet
  MaxLen = 0
INVARIANTS TraceInv TraceTotal
CHECK_DEADLOCK FALSE
