------------------------------- MODULE SyltSem -------------------------------
(***************************************************************************)
(* Dynamic semantics of core Sylt: what a well-typed source program        *)
(* DENOTES (C01), with every primitive checking its operands (strict       *)
(* mode, C02).  Written from the language documentation, never from the    *)
(* compiler: strict left-to-right evaluation (callee, then arguments in    *)
(* order; left operand before right), short-circuit and/or, the value of a *)
(* block is its trailing expression, closures capture variables BY         *)
(* REFERENCE, every block entry / loop iteration / case arm / call gets    *)
(* fresh variables, blob literals bind `self`, `<=>` stops the program     *)
(* when false, `<!>` stops it always.                                      *)
(*                                                                         *)
(* Programs are ASTs (records tagged with k, see SyltGen for the           *)
(* constructors).  Binders carry unique ids; a use refers to the binder    *)
(* id, so resolution is by construction and names are the printer's        *)
(* business (C09).                                                         *)
(*                                                                         *)
(* The machine state S = [heap, out, fuel, glob, status]:                  *)
(*   heap   sequence of objects (frames, lists, blobs); address = index    *)
(*   out    observable events, in order: [k |-> "print", v |-> snapshot]   *)
(*   glob   global binder id -> value (initialised globals only)           *)
(*   status "run" | "assert_failed" | "unreachable" | "stuck:<why>" |      *)
(*          "drop:<why>" (outside the numeric model / fuel: never judged)  *)
(* Evaluation is big-step inside one initialiser / the start call (the     *)
(* top-level machine in MC_Sem / SyltInit steps global by global).         *)
(* Every evaluation function returns [s, v, sig] with                      *)
(*   sig = "ok" | "ret" | "brk" | "cnt" | "halt".                          *)
(***************************************************************************)
EXTENDS SyltValues

SELF == 0 - 1       \* binder id of `self`

Ok(S, v)      == [s |-> S, v |-> v, sig |-> "ok"]
Sig(S, v, g)  == [s |-> S, v |-> v, sig |-> g]
Halt(S, why)  == [s |-> [S EXCEPT !.status = why], v |-> NilV, sig |-> "halt"]

NewState(fuel) == [heap |-> <<>>, out |-> <<>>, fuel |-> fuel, glob |-> <<>>, status |-> "run"]

Alloc(S, obj) == [S EXCEPT !.heap = Append(@, obj)]
LastAddr(S) == Len(S.heap)
NewFrame(S, parent) == Alloc(S, [k |-> "frame", vars |-> <<>>, parent |-> parent])

\* bind binder b in frame env (env = 0: the global frame)
Bind(S, env, b, v) ==
    IF env = 0 THEN [S EXCEPT !.glob = (b :> v) @@ @]
    ELSE [S EXCEPT !.heap[env].vars = (b :> v) @@ @]

\* the frame (address, or 0 for globals, or -1 for nowhere) in which b is bound, searching outwards
RECURSIVE FrameOf(_, _, _)
FrameOf(S, env, b) ==
    IF env = 0 THEN (IF b \in DOMAIN S.glob THEN 0 ELSE 0 - 1)
    ELSE IF b \in DOMAIN S.heap[env].vars THEN env
    ELSE FrameOf(S, S.heap[env].parent, b)

ValueIn(S, fr, b) == IF fr = 0 THEN S.glob[b] ELSE S.heap[fr].vars[b]

RECURSIVE Unparen(_)
Unparen(e) == IF e.k = "paren" THEN Unparen(e.e) ELSE e
IsMethodField(e) == Unparen(e).k = "fn"

\* library functions that look into a number: the numbers beyond the small model (SyltValues, Nx*) are not modelled there
NumericBuiltins == {"as_float", "as_int", "math.floor", "math.abs", "math.sign", "math.min", "math.max", "math.clamp", "math.div"}

---------------------------------------------------------------------------
RECURSIVE EvalE(_, _, _)
RECURSIVE EvalList(_, _, _, _, _)
RECURSIVE ExecS(_, _, _)
RECURSIVE ExecSeq(_, _, _, _)
RECURSIVE RunLoop(_, _, _)
RECURSIVE EvalIf(_, _, _, _)
RECURSIVE EvalBlobFields(_, _, _, _, _)
RECURSIVE CallValue(_, _, _)
RECURSIVE CallBuiltin(_, _, _)
RECURSIVE ForEach(_, _, _, _)
RECURSIVE MapList(_, _, _, _, _)
RECURSIVE FoldList(_, _, _, _, _)
RECURSIVE FilterList(_, _, _, _, _)
RECURSIVE FindList(_, _, _, _)

\* a block: fresh frame, statements in order; value = trailing expression statement's value
ExecBlock(stmts, env, S) ==
    LET S1 == NewFrame(S, env) IN ExecSeq(stmts, 1, LastAddr(S1), S1)

ExecSeq(stmts, i, env, S) ==
    IF i > Len(stmts) THEN Ok(S, NilV)
    ELSE LET r == ExecS(stmts[i], env, S) IN
         IF r.sig # "ok" THEN r
         ELSE IF i = Len(stmts) THEN (IF stmts[i].k = "expr" THEN r ELSE Ok(r.s, NilV))
         ELSE ExecSeq(stmts, i + 1, env, r.s)

\* evaluate expressions left to right, collecting values
EvalList(es, i, env, S, acc) ==
    IF i > Len(es) THEN Ok(S, TupleV(acc))
    ELSE LET r == EvalE(es[i], env, S) IN
         IF r.sig # "ok" THEN r ELSE EvalList(es, i + 1, env, r.s, Append(acc, r.v))

ApplyBin(op, a, b, S) ==
    CASE op \in {"+", "-", "*", "/"} ->
           LET v == Arith(op, a, b) IN
           IF IsErr(v) THEN Halt(S, v.why)
           ELSE IF ~InModel(v) THEN Halt(S, "drop:magnitude") ELSE Ok(S, v)
      [] op = "==" -> Ok(S, BoolV(StructEq(a, b, S.heap)))
      [] op = "!=" -> Ok(S, BoolV(~StructEq(a, b, S.heap)))
      [] op = "<=>" -> IF StructEq(a, b, S.heap) THEN Ok(S, BoolV(TRUE)) ELSE Halt(S, "assert_failed")
      [] op \in {"<", "<=", ">", ">="} ->
           LET c == Cmp3(a, b, S.heap) IN
           IF c = "bad" THEN Halt(S, "stuck:compare-" \o a.k \o "-" \o b.k)
           ELSE Ok(S, BoolV(CASE op = "<" -> c = "lt"
                              [] op = "<=" -> c \in {"lt", "eq"}
                              [] op = ">" -> c = "gt"
                              [] op = ">=" -> c \in {"gt", "eq"}))

EvalIf(arms, i, env, S) ==
    IF i > Len(arms) THEN Ok(S, NilV)
    ELSE IF arms[i].els THEN ExecBlock(arms[i].body, env, S)
    ELSE LET c == EvalE(arms[i].c, env, S) IN
         IF c.sig # "ok" THEN c
         ELSE IF c.v.k # "bool" THEN Halt(c.s, "stuck:condition-" \o c.v.k)
         ELSE IF c.v.v THEN ExecBlock(arms[i].body, env, c.s)
         ELSE EvalIf(arms, i + 1, env, c.s)

\* `env` is the literal's own frame (it holds `self`).  `self` of a blob literal is in scope in exactly those field
\* initialisers that ARE function literals - the methods; redundant parentheses around the literal do not matter.  In
\* every other initialiser (a call that is handed a function literal, an `if` that picks one, a data expression) `self`
\* keeps the meaning it has around the blob literal: such a field is evaluated in the frame the literal itself is in.
EvalBlobFields(fields, i, env, S, acc) ==
    IF i > Len(fields) THEN Ok(S, acc)
    ELSE LET fenv == IF IsMethodField(fields[i].e) THEN env ELSE S.heap[env].parent
             r == EvalE(fields[i].e, fenv, S) IN
         IF r.sig # "ok" THEN r
         ELSE EvalBlobFields(fields, i + 1, env, r.s, (fields[i].f :> r.v) @@ acc)

EvalE(e, env, S) ==
    CASE e.k = "int"   -> Ok(S, IntV(e.v))
      [] e.k = "float" -> Ok(S, FloatV(e.n, e.d))
      [] e.k = "str"   -> Ok(S, StrV(e.v))
      \* a numeral beyond TLC's own integers, written out (num = "int": a decimal int literal, at most 2^63 - 1;
      \* num = "inf": a float literal beyond the largest double - the nearest double is +infinity)
      [] e.k = "raw"   ->
           IF e.num = "inf" THEN Ok(S, FxV("inf"))
           ELSE IF e.num # "int" \/ ~IsDigits(e.text) \/ Len(e.text) > 19 THEN Halt(S, "drop:raw-literal")
           ELSE LET w == Parse64(e.text) IN
                IF IsNeg64(w) THEN Halt(S, "drop:int-literal-out-of-range") ELSE Ok(S, NxInt(w))
      \* the float literal n * 2^e (e >= 1), written out in full by the printer
      [] e.k = "fbig"  -> LET v == NxFin(e.n, e.e) IN IF IsErr(v) THEN Halt(S, v.why) ELSE Ok(S, v)
      [] e.k = "paren" -> EvalE(e.e, env, S)
      [] e.k = "bool"  -> Ok(S, BoolV(e.v))
      [] e.k = "nil"   -> Ok(S, NilV)
      [] e.k = "std"   -> Ok(S, BuiltinV(e.name))
      [] e.k = "var"   ->
           LET fr == FrameOf(S, env, e.b) IN
           IF fr < 0 THEN Halt(S, "stuck:unbound-variable") ELSE Ok(S, ValueIn(S, fr, e.b))
      [] e.k = "self"  ->
           LET fr == FrameOf(S, env, SELF) IN
           IF fr < 0 THEN Halt(S, "stuck:unbound-self") ELSE Ok(S, ValueIn(S, fr, SELF))
      [] e.k = "bin"   ->
           LET a == EvalE(e.l, env, S) IN
           IF a.sig # "ok" THEN a
           ELSE IF e.op \in {"and", "or"}
             THEN IF a.v.k # "bool" THEN Halt(a.s, "stuck:bool-op-" \o a.v.k)
                  ELSE IF (e.op = "and" /\ ~a.v.v) \/ (e.op = "or" /\ a.v.v) THEN Ok(a.s, a.v)
                  ELSE LET b == EvalE(e.r, env, a.s) IN
                       IF b.sig # "ok" THEN b
                       ELSE IF b.v.k # "bool" THEN Halt(b.s, "stuck:bool-op-" \o b.v.k) ELSE b
             ELSE LET b == EvalE(e.r, env, a.s) IN
                  IF b.sig # "ok" THEN b ELSE ApplyBin(e.op, a.v, b.v, b.s)
      [] e.k = "un"    ->
           LET a == EvalE(e.a, env, S) IN
           IF a.sig # "ok" THEN a
           ELSE IF e.op = "not"
             THEN IF a.v.k # "bool" THEN Halt(a.s, "stuck:not-" \o a.v.k) ELSE Ok(a.s, BoolV(~a.v.v))
             ELSE LET v == Negate(a.v) IN IF IsErr(v) THEN Halt(a.s, v.why) ELSE Ok(a.s, v)
      [] e.k = "if"    -> EvalIf(e.arms, 1, env, S)
      [] e.k = "case"  ->
           LET m == EvalE(e.e, env, S) IN
           IF m.sig # "ok" THEN m
           ELSE IF m.v.k # "variant" THEN Halt(m.s, "stuck:case-on-" \o m.v.k)
           ELSE LET hits == {i \in 1..Len(e.arms) : e.arms[i].v = m.v.tag} IN
             IF hits # {}
             THEN LET i == CHOOSE x \in hits : \A y \in hits : x <= y
                      S1 == NewFrame(m.s, env)
                      fr == LastAddr(S1)
                      S2 == IF e.arms[i].bind THEN Bind(S1, fr, e.arms[i].b, m.v.val) ELSE S1 IN
                  ExecSeq(e.arms[i].body, 1, fr, S2)
             ELSE IF e.hasels THEN ExecBlock(e.els, env, m.s)
             ELSE Halt(m.s, "stuck:case-no-arm")
      [] e.k = "fn"    -> Ok(S, CloV(e, env))
      [] e.k = "call"  ->
           LET f == EvalE(e.f, env, S) IN
           IF f.sig # "ok" THEN f
           ELSE LET av == EvalList(e.args, 1, env, f.s, <<>>) IN
                IF av.sig # "ok" THEN av ELSE CallValue(f.v, av.v.es, av.s)
      [] e.k = "tuple" -> EvalList(e.es, 1, env, S, <<>>)
      [] e.k = "list"  ->
           LET r == EvalList(e.es, 1, env, S, <<>>) IN
           IF r.sig # "ok" THEN r
           ELSE LET S1 == Alloc(r.s, [k |-> "list", items |-> r.v.es]) IN Ok(S1, RefV(LastAddr(S1)))
      [] e.k = "blob"  ->
           \* `self` lives in a fresh frame that the field initialisers (the methods) close over
           LET S1 == NewFrame(S, env)
               fr == LastAddr(S1)
               S2 == Bind(S1, fr, SELF, NilV)
               r == EvalBlobFields(e.fields, 1, fr, S2, <<>>) IN
           IF r.sig # "ok" THEN r
           ELSE LET S3 == Alloc(r.s, [k |-> "blob", fields |-> r.v])
                    ref == RefV(LastAddr(S3)) IN
                Ok(Bind(S3, fr, SELF, ref), ref)
      [] e.k = "fld"   ->
           LET o == EvalE(e.e, env, S) IN
           IF o.sig # "ok" THEN o
           ELSE IF o.v.k # "ref" THEN Halt(o.s, "stuck:field-of-" \o o.v.k)
           ELSE IF o.s.heap[o.v.a].k # "blob" THEN Halt(o.s, "stuck:field-of-list")
           ELSE IF e.f \notin DOMAIN o.s.heap[o.v.a].fields THEN Halt(o.s, "stuck:missing-field")
           ELSE Ok(o.s, o.s.heap[o.v.a].fields[e.f])
      [] e.k = "idx"   ->
           LET o == EvalE(e.e, env, S) IN
           IF o.sig # "ok" THEN o
           ELSE IF o.v.k # "tuple" THEN Halt(o.s, "stuck:index-of-" \o o.v.k)
           ELSE IF e.i + 1 > Len(o.v.es) THEN Halt(o.s, "stuck:index-out-of-range")
           ELSE Ok(o.s, o.v.es[e.i + 1])
      [] e.k = "variant" ->
           IF e.has
           THEN LET p == EvalE(e.e, env, S) IN
                IF p.sig # "ok" THEN p ELSE Ok(p.s, VariantV(e.v, p.v))
           ELSE Ok(S, VariantV(e.v, NilV))

\* target frame and checks for assignment to a variable
AssignVar(S, env, b, v) ==
    LET fr == FrameOf(S, env, b) IN
    IF fr < 0 THEN Halt(S, "stuck:assign-unbound-variable") ELSE Ok(Bind(S, fr, b, v), NilV)

OpOf(aop) == CASE aop = "+=" -> "+" [] aop = "-=" -> "-" [] aop = "*=" -> "*" [] aop = "/=" -> "/"

ExecS(st, env, S) ==
    CASE st.k = "expr" -> EvalE(st.e, env, S)
      [] st.k = "def" ->
           LET r == EvalE(st.e, env, S) IN
           IF r.sig # "ok" THEN r ELSE Ok(Bind(r.s, env, st.b, r.v), NilV)
      [] st.k = "asg" ->
           IF st.t.k = "var"
           THEN IF st.op = "="
                THEN LET r == EvalE(st.e, env, S) IN
                     IF r.sig # "ok" THEN r ELSE AssignVar(r.s, env, st.t.b, r.v)
                ELSE \* `x op= e` is `x = x op e`: x is read BEFORE e is evaluated (strict left to right)
                     LET fr0 == FrameOf(S, env, st.t.b) IN
                     IF fr0 < 0 THEN Halt(S, "stuck:assign-unbound-variable")
                     ELSE LET cur == ValueIn(S, fr0, st.t.b)
                              r == EvalE(st.e, env, S) IN
                          IF r.sig # "ok" THEN r
                          ELSE LET n == ApplyBin(OpOf(st.op), cur, r.v, r.s) IN
                               IF n.sig # "ok" THEN n ELSE AssignVar(n.s, env, st.t.b, n.v)
           ELSE \* field target: object first, then the value
                LET o == EvalE(st.t.e, env, S) IN
                IF o.sig # "ok" THEN o
                ELSE IF o.v.k # "ref" THEN Halt(o.s, "stuck:field-of-" \o o.v.k)
                ELSE IF o.s.heap[o.v.a].k # "blob" \/ st.t.f \notin DOMAIN o.s.heap[o.v.a].fields
                     THEN Halt(o.s, "stuck:missing-field")
                ELSE LET cur == o.s.heap[o.v.a].fields[st.t.f]     \* the field is read before the right-hand side runs
                         r == EvalE(st.e, env, o.s) IN
                     IF r.sig # "ok" THEN r
                     ELSE IF st.op = "="
                       THEN Ok([r.s EXCEPT !.heap[o.v.a].fields[st.t.f] = r.v], NilV)
                       ELSE LET n == ApplyBin(OpOf(st.op), cur, r.v, r.s) IN
                            IF n.sig # "ok" THEN n
                            ELSE Ok([n.s EXCEPT !.heap[o.v.a].fields[st.t.f] = n.v], NilV)
      [] st.k = "loop" -> RunLoop(st, env, S)
      [] st.k = "break" -> Sig(S, NilV, "brk")
      [] st.k = "continue" -> Sig(S, NilV, "cnt")
      [] st.k = "ret" ->
           IF st.has
           THEN LET r == EvalE(st.e, env, S) IN IF r.sig # "ok" THEN r ELSE Sig(r.s, r.v, "ret")
           ELSE Sig(S, NilV, "ret")
      [] st.k = "block" -> LET r == ExecBlock(st.body, env, S) IN IF r.sig = "ok" THEN Ok(r.s, NilV) ELSE r
      [] st.k = "unreach" -> Halt(S, "unreachable")

RunLoop(st, env, S) ==
    IF S.fuel = 0 THEN Halt(S, "drop:fuel")
    ELSE LET S0 == [S EXCEPT !.fuel = @ - 1]
             c == EvalE(st.c, env, S0) IN
      IF c.sig # "ok" THEN c
      ELSE IF c.v.k # "bool" THEN Halt(c.s, "stuck:condition-" \o c.v.k)
      ELSE IF ~c.v.v THEN Ok(c.s, NilV)
      ELSE LET r == ExecBlock(st.body, env, c.s) IN
           CASE r.sig \in {"ok", "cnt"} -> RunLoop(st, env, r.s)
             [] r.sig = "brk" -> Ok(r.s, NilV)
             [] OTHER -> r

\* call a function value with already evaluated arguments
CallValue(f, args, S) ==
    IF f.k = "builtin" THEN CallBuiltin(f.name, args, S)
    ELSE IF f.k # "clo" THEN Halt(S, "stuck:call-of-" \o f.k)
    ELSE IF Len(args) # Len(f.fn.params) THEN Halt(S, "stuck:arity")
    ELSE IF S.fuel = 0 THEN Halt(S, "drop:fuel")
    ELSE LET S0 == NewFrame([S EXCEPT !.fuel = @ - 1], f.env)
             fr == LastAddr(S0)
             S1 == [S0 EXCEPT !.heap[fr].vars = [b \in {f.fn.params[i].b : i \in 1..Len(args)} |->
                                                  args[CHOOSE i \in 1..Len(args) : f.fn.params[i].b = b]]]
             r == ExecSeq(f.fn.body, 1, fr, S1) IN
         CASE r.sig = "ok" -> r
           [] r.sig = "ret" -> Ok(r.s, r.v)
           [] r.sig = "halt" -> r
           [] OTHER -> Halt(r.s, "stuck:break-or-continue-leaves-function")

JustV(v) == VariantV("Just", v)
NoneV == VariantV("None", NilV)
IsList(S, v) == v.k = "ref" /\ S.heap[v.a].k = "list"

ForEach(items, i, f, S) ==
    IF i > Len(items) THEN Ok(S, NilV)
    ELSE LET r == CallValue(f, <<items[i]>>, S) IN IF r.sig # "ok" THEN r ELSE ForEach(items, i + 1, f, r.s)

MapList(items, i, f, S, acc) ==
    IF i > Len(items)
    THEN LET S1 == Alloc(S, [k |-> "list", items |-> acc]) IN Ok(S1, RefV(LastAddr(S1)))
    ELSE LET r == CallValue(f, <<items[i]>>, S) IN
         IF r.sig # "ok" THEN r ELSE MapList(items, i + 1, f, r.s, Append(acc, r.v))

FoldList(items, i, f, S, acc) ==
    IF i > Len(items) THEN Ok(S, acc)
    ELSE LET r == CallValue(f, <<items[i], acc>>, S) IN
         IF r.sig # "ok" THEN r ELSE FoldList(items, i + 1, f, r.s, r.v)

FilterList(items, i, f, S, acc) ==
    IF i > Len(items)
    THEN LET S1 == Alloc(S, [k |-> "list", items |-> acc]) IN Ok(S1, RefV(LastAddr(S1)))
    ELSE LET r == CallValue(f, <<items[i]>>, S) IN
         IF r.sig # "ok" THEN r
         ELSE IF r.v.k # "bool" THEN Halt(r.s, "stuck:filter-predicate")
         ELSE FilterList(items, i + 1, f, r.s, IF r.v.v THEN Append(acc, items[i]) ELSE acc)

FindList(items, i, f, S) ==
    IF i > Len(items) THEN Ok(S, NoneV)
    ELSE LET r == CallValue(f, <<items[i]>>, S) IN
         IF r.sig # "ok" THEN r
         ELSE IF r.v.k # "bool" THEN Halt(r.s, "stuck:find-predicate")
         ELSE IF r.v.v THEN Ok(r.s, JustV(items[i])) ELSE FindList(items, i + 1, f, r.s)

RECURSIVE StdExtra(_, _, _)
(***************************************************************************)
(* Standard-library helpers beyond the core list operations (used by the   *)
(* corpus trace validation of C01; contracts as in SyltStd / std/*.sy).    *)
(* Sets and dicts are heap objects holding their members / entries in      *)
(* insertion order; membership and key lookup are by StructEq.  Wherever   *)
(* the ORDER of an unordered container would become observable (for_each   *)
(* over two or more entries, a map whose results collide, printing) the    *)
(* case is dropped (`drop:*`), never guessed.                              *)
(***************************************************************************)
IsKind(S, v, kd) == v.k = "ref" /\ S.heap[v.a].k = kd
IsMaybe(v) == v.k = "variant" /\ v.tag \in {"Just", "None"}
NewDictObj == [k |-> "dict", keys |-> <<>>, vals |-> <<>>]
NewSetObj == [k |-> "set", items |-> <<>>]
KeyIdx(ks, key, heap) == LET hits == {i \in 1..Len(ks) : StructEq(ks[i], key, heap)} IN
                         IF hits = {} THEN 0 ELSE CHOOSE i \in hits : \A j \in hits : i <= j
SemDropAt(q, i) == SubSeq(q, 1, i - 1) \o SubSeq(q, i + 1, Len(q))
DictPut(o, key, val, heap) == LET i == KeyIdx(o.keys, key, heap) IN
                              IF i = 0 THEN [o EXCEPT !.keys = Append(@, key), !.vals = Append(@, val)]
                              ELSE [o EXCEPT !.vals[i] = val]
SetPut(o, x, heap) == IF KeyIdx(o.items, x, heap) = 0 THEN [o EXCEPT !.items = Append(@, x)] ELSE o
IsPair(v) == v.k = "tuple" /\ Len(v.es) = 2
RECURSIVE DictFromPairs(_, _, _, _)
DictFromPairs(o, ps, i, heap) == IF i > Len(ps) THEN o
                                 ELSE DictFromPairs(DictPut(o, ps[i].es[1], ps[i].es[2], heap), ps, i + 1, heap)
RECURSIVE SetFromItems(_, _, _, _)
SetFromItems(o, xs, i, heap) == IF i > Len(xs) THEN o ELSE SetFromItems(SetPut(o, xs[i], heap), xs, i + 1, heap)
AllocRef(S, obj) == LET S1 == Alloc(S, obj) IN Ok(S1, RefV(LastAddr(S1)))
NumZero(a) == IF a.k = "int" THEN IntV(0) ELSE FloatV(0, 0)
NumSgn(a) == IF NumLt(NumZero(a), a) THEN 1 ELSE IF NumLt(a, NumZero(a)) THEN 0 - 1 ELSE 0
FloorDivI(a, b) == IF b > 0 THEN a \div b ELSE (0 - a) \div (0 - b)
PrintEvent(S, snap) == [S EXCEPT !.out = Append(@, [k |-> "print", v |-> snap])]

StdExtra(name, args, S) ==
    CASE name \in NumericBuiltins /\ (\E i \in 1..Len(args) : IsNxNum(args[i])) -> Halt(S, "drop:limit-number-in-library")
      [] name = "dbg" -> Ok(PrintEvent(S, Render(args[1], S.heap, 6)), args[1])
      [] name = "spy" ->
           LET r == Render(args[2], S.heap, 6) IN
           IF args[1].k # "str" THEN Halt(S, "stuck:spy-tag")
           ELSE IF ~Printable(r) THEN Halt(S, "drop:text-of-unprintable")
           ELSE Ok(PrintEvent(S, StrV(args[1].v \o " " \o SnapText(r))), args[2])
      [] name = "as_str" ->
           LET r == Render(args[1], S.heap, 6) IN
           IF Printable(r) THEN Ok(S, StrV(SnapText(r))) ELSE Halt(S, "drop:text-of-unprintable")
      [] name = "as_float" ->
           IF ~IsNum(args[1]) THEN Halt(S, "stuck:as_float-of-" \o args[1].k)
           ELSE Ok(S, IF args[1].k = "int" THEN FloatV(args[1].v, 0) ELSE args[1])
      [] name = "as_int" ->     \* truncation towards zero
           IF ~IsNum(args[1]) THEN Halt(S, "stuck:as_int-of-" \o args[1].k)
           ELSE Ok(S, IF args[1].k = "int" THEN args[1]
                      ELSE IF args[1].n >= 0 THEN IntV(args[1].n \div Pow2(args[1].d))
                      ELSE IntV(0 - ((0 - args[1].n) \div Pow2(args[1].d))))
      [] name = "math.floor" ->  \* the largest int <= x
           IF ~IsNum(args[1]) THEN Halt(S, "stuck:floor-of-" \o args[1].k)
           ELSE Ok(S, IF args[1].k = "int" THEN args[1] ELSE IntV(args[1].n \div Pow2(args[1].d)))
      [] name = "math.abs" ->
           IF ~IsNum(args[1]) THEN Halt(S, "stuck:abs-of-" \o args[1].k)
           ELSE Ok(S, IF NumSgn(args[1]) < 0 THEN Negate(args[1]) ELSE args[1])
      [] name = "math.sign" ->   \* keeps the number type
           IF ~IsNum(args[1]) THEN Halt(S, "stuck:sign-of-" \o args[1].k)
           ELSE Ok(S, IF args[1].k = "int" THEN IntV(NumSgn(args[1])) ELSE FloatV(NumSgn(args[1]), 0))
      [] name \in {"math.min", "math.max"} ->
           IF ~IsNum(args[1]) \/ ~IsNum(args[2]) THEN Halt(S, "stuck:min-max-args")
           ELSE Ok(S, IF name = "math.min" THEN (IF NumLt(args[2], args[1]) THEN args[2] ELSE args[1])
                      ELSE (IF NumLt(args[1], args[2]) THEN args[2] ELSE args[1]))
      [] name = "math.clamp" ->  \* clamp(x, lo, hi), specified for lo <= hi
           IF ~IsNum(args[1]) \/ ~IsNum(args[2]) \/ ~IsNum(args[3]) THEN Halt(S, "stuck:clamp-args")
           ELSE IF NumLt(args[3], args[2]) THEN Halt(S, "drop:clamp-lo-above-hi")
           ELSE Ok(S, IF NumLt(args[1], args[2]) THEN args[2] ELSE IF NumLt(args[3], args[1]) THEN args[3] ELSE args[1])
      [] name = "math.div" ->    \* floor division; div(a, 0) is not specified
           IF args[1].k # "int" \/ args[2].k # "int" THEN Halt(S, "stuck:div-args")
           ELSE IF args[2].v = 0 THEN Halt(S, "drop:div-by-zero")
           ELSE Ok(S, IntV(FloorDivI(args[1].v, args[2].v)))
      [] name = "unsafe_force" -> Ok(S, args[1])      \* changes the static type only
      [] name = "list.set" ->    \* out of range: nothing happens
           IF ~IsList(S, args[1]) \/ args[2].k # "int" THEN Halt(S, "stuck:set-args")
           ELSE LET i == args[2].v IN
                IF i >= 0 /\ i < Len(S.heap[args[1].a].items)
                THEN Ok([S EXCEPT !.heap[args[1].a].items[i + 1] = args[3]], NilV) ELSE Ok(S, NilV)
      [] name = "list.contains" ->
           IF ~IsList(S, args[1]) THEN Halt(S, "stuck:contains-on-non-list")
           ELSE Ok(S, BoolV(KeyIdx(S.heap[args[1].a].items, args[2], S.heap) # 0))
      [] name = "list.last" ->
           IF ~IsList(S, args[1]) THEN Halt(S, "stuck:last-on-non-list")
           ELSE LET it == S.heap[args[1].a].items IN Ok(S, IF Len(it) = 0 THEN NoneV ELSE JustV(it[Len(it)]))
      [] name = "maybe.orDefault" ->
           IF ~IsMaybe(args[1]) THEN Halt(S, "stuck:maybe-arg") ELSE Ok(S, IF args[1].tag = "Just" THEN args[1].val ELSE args[2])
      [] name = "maybe.flatten" ->
           IF ~IsMaybe(args[1]) THEN Halt(S, "stuck:maybe-arg") ELSE Ok(S, IF args[1].tag = "Just" THEN args[1].val ELSE NoneV)
      [] name = "maybe.isJust" ->
           IF ~IsMaybe(args[1]) THEN Halt(S, "stuck:maybe-arg") ELSE Ok(S, BoolV(args[1].tag = "Just"))
      [] name = "maybe.isNone" ->
           IF ~IsMaybe(args[1]) THEN Halt(S, "stuck:maybe-arg") ELSE Ok(S, BoolV(args[1].tag = "None"))
      [] name = "maybe.andThen" ->
           IF ~IsMaybe(args[1]) THEN Halt(S, "stuck:maybe-arg")
           ELSE IF args[1].tag = "Just" THEN CallValue(args[2], <<args[1].val>>, S) ELSE Ok(S, NoneV)
      [] name = "maybe.map" ->
           IF ~IsMaybe(args[1]) THEN Halt(S, "stuck:maybe-arg")
           ELSE IF args[1].tag = "None" THEN Ok(S, NoneV)
           ELSE LET r == CallValue(args[2], <<args[1].val>>, S) IN IF r.sig # "ok" THEN r ELSE Ok(r.s, JustV(r.v))
      [] name = "dict.new" -> AllocRef(S, NewDictObj)
      [] name = "set.new" -> AllocRef(S, NewSetObj)
      [] name = "dict.from_list" ->     \* later entries win
           IF ~IsList(S, args[1]) THEN Halt(S, "stuck:from_list-on-non-list")
           ELSE LET ps == S.heap[args[1].a].items IN
                IF \E i \in 1..Len(ps) : ~IsPair(ps[i]) THEN Halt(S, "stuck:from_list-entry")
                ELSE AllocRef(S, DictFromPairs(NewDictObj, ps, 1, S.heap))
      [] name = "set.from_list" ->
           IF ~IsList(S, args[1]) THEN Halt(S, "stuck:from_list-on-non-list")
           ELSE AllocRef(S, SetFromItems(NewSetObj, S.heap[args[1].a].items, 1, S.heap))
      [] name = "dict.update" ->
           IF ~IsKind(S, args[1], "dict") THEN Halt(S, "stuck:dict-arg")
           ELSE Ok([S EXCEPT !.heap[args[1].a] = DictPut(@, args[2], args[3], S.heap)], NilV)
      [] name = "set.add" ->
           IF ~IsKind(S, args[1], "set") THEN Halt(S, "stuck:set-arg")
           ELSE Ok([S EXCEPT !.heap[args[1].a] = SetPut(@, args[2], S.heap)], NilV)
      [] name = "dict.remove" ->
           IF ~IsKind(S, args[1], "dict") THEN Halt(S, "stuck:dict-arg")
           ELSE LET i == KeyIdx(S.heap[args[1].a].keys, args[2], S.heap) IN
                IF i = 0 THEN Ok(S, NilV)
                ELSE Ok([S EXCEPT !.heap[args[1].a].keys = SemDropAt(@, i), !.heap[args[1].a].vals = SemDropAt(@, i)], NilV)
      [] name = "set.remove" ->
           IF ~IsKind(S, args[1], "set") THEN Halt(S, "stuck:set-arg")
           ELSE LET i == KeyIdx(S.heap[args[1].a].items, args[2], S.heap) IN
                IF i = 0 THEN Ok(S, NilV) ELSE Ok([S EXCEPT !.heap[args[1].a].items = SemDropAt(@, i)], NilV)
      [] name = "dict.get" ->
           IF ~IsKind(S, args[1], "dict") THEN Halt(S, "stuck:dict-arg")
           ELSE LET o == S.heap[args[1].a]  i == KeyIdx(o.keys, args[2], S.heap) IN
                Ok(S, IF i = 0 THEN NoneV ELSE JustV(o.vals[i]))
      [] name = "dict.contains_key" ->
           IF ~IsKind(S, args[1], "dict") THEN Halt(S, "stuck:dict-arg")
           ELSE Ok(S, BoolV(KeyIdx(S.heap[args[1].a].keys, args[2], S.heap) # 0))
      [] name = "set.contains" ->
           IF ~IsKind(S, args[1], "set") THEN Halt(S, "stuck:set-arg")
           ELSE Ok(S, BoolV(KeyIdx(S.heap[args[1].a].items, args[2], S.heap) # 0))
      [] name = "dict.len" ->
           IF ~IsKind(S, args[1], "dict") THEN Halt(S, "stuck:dict-arg") ELSE Ok(S, IntV(Len(S.heap[args[1].a].keys)))
      [] name = "set.len" ->
           IF ~IsKind(S, args[1], "set") THEN Halt(S, "stuck:set-arg") ELSE Ok(S, IntV(Len(S.heap[args[1].a].items)))
      [] name = "dict.for_each" ->      \* f is handed the entry (key, value)
           IF ~IsKind(S, args[1], "dict") THEN Halt(S, "stuck:dict-arg")
           ELSE LET o == S.heap[args[1].a] IN
                IF Len(o.keys) >= 2 THEN Halt(S, "drop:iteration-order")
                ELSE ForEach([i \in 1..Len(o.keys) |-> TupleV(<<o.keys[i], o.vals[i]>>)], 1, args[2], S)
      [] name = "set.for_each" ->
           IF ~IsKind(S, args[1], "set") THEN Halt(S, "stuck:set-arg")
           ELSE IF Len(S.heap[args[1].a].items) >= 2 THEN Halt(S, "drop:iteration-order")
           ELSE ForEach(S.heap[args[1].a].items, 1, args[2], S)
      [] name = "dict.map" ->           \* f: (key, value) -> (key', value'); colliding key' would expose the order
           IF ~IsKind(S, args[1], "dict") THEN Halt(S, "stuck:dict-arg")
           ELSE LET o == S.heap[args[1].a]
                    r == MapList([i \in 1..Len(o.keys) |-> TupleV(<<o.keys[i], o.vals[i]>>)], 1, args[2], S, <<>>) IN
                IF r.sig # "ok" THEN r
                ELSE LET ps == r.s.heap[r.v.a].items IN
                     IF \E i \in 1..Len(ps) : ~IsPair(ps[i]) THEN Halt(r.s, "stuck:dict-map-result")
                     ELSE LET d == DictFromPairs(NewDictObj, ps, 1, r.s.heap) IN
                          IF Len(d.keys) # Len(ps) THEN Halt(r.s, "drop:iteration-order") ELSE AllocRef(r.s, d)
      [] name = "set.map" ->            \* the result is a set: the order of the calls is not observable for a pure f
           IF ~IsKind(S, args[1], "set") THEN Halt(S, "stuck:set-arg")
           ELSE LET r == MapList(S.heap[args[1].a].items, 1, args[2], S, <<>>) IN
                IF r.sig # "ok" THEN r
                ELSE AllocRef(r.s, SetFromItems(NewSetObj, r.s.heap[r.v.a].items, 1, r.s.heap))
      [] OTHER -> Halt(S, "drop:unknown-builtin-" \o name)

CallBuiltin(name, args, S) ==
    CASE name = "print" -> Ok([S EXCEPT !.out = Append(@, [k |-> "print", v |-> Render(args[1], S.heap, 6)])], NilV)
      [] name = "list.push" ->
           IF ~IsList(S, args[1]) THEN Halt(S, "stuck:push-on-non-list")
           ELSE Ok([S EXCEPT !.heap[args[1].a].items = Append(@, args[2])], NilV)
      [] name = "list.prepend" ->
           IF ~IsList(S, args[1]) THEN Halt(S, "stuck:prepend-on-non-list")
           ELSE Ok([S EXCEPT !.heap[args[1].a].items = <<args[2]>> \o @], NilV)
      [] name = "list.len" ->
           IF ~IsList(S, args[1]) THEN Halt(S, "stuck:len-on-non-list")
           ELSE Ok(S, IntV(Len(S.heap[args[1].a].items)))
      [] name = "list.get" ->
           IF ~IsList(S, args[1]) \/ args[2].k # "int" THEN Halt(S, "stuck:get-args")
           ELSE LET it == S.heap[args[1].a].items  i == args[2].v IN
                Ok(S, IF i >= 0 /\ i < Len(it) THEN JustV(it[i + 1]) ELSE NoneV)
      [] name = "list.pop" ->
           IF ~IsList(S, args[1]) THEN Halt(S, "stuck:pop-on-non-list")
           ELSE LET it == S.heap[args[1].a].items IN
                IF Len(it) = 0 THEN Ok(S, NoneV)
                ELSE Ok([S EXCEPT !.heap[args[1].a].items = SubSeq(it, 1, Len(it) - 1)], JustV(it[Len(it)]))
      [] name = "for_each" ->
           IF ~IsList(S, args[1]) THEN Halt(S, "stuck:for_each-on-non-list")
           ELSE ForEach(S.heap[args[1].a].items, 1, args[2], S)
      [] name = "map" ->
           IF ~IsList(S, args[1]) THEN Halt(S, "stuck:map-on-non-list")
           ELSE MapList(S.heap[args[1].a].items, 1, args[2], S, <<>>)
      [] name = "filter" ->
           IF ~IsList(S, args[1]) THEN Halt(S, "stuck:filter-on-non-list")
           ELSE FilterList(S.heap[args[1].a].items, 1, args[2], S, <<>>)
      [] name = "fold" ->
           IF ~IsList(S, args[1]) THEN Halt(S, "stuck:fold-on-non-list")
           ELSE FoldList(S.heap[args[1].a].items, 1, args[3], S, args[2])
      [] name = "list.find" ->
           IF ~IsList(S, args[1]) THEN Halt(S, "stuck:find-on-non-list")
           ELSE FindList(S.heap[args[1].a].items, 1, args[2], S)
      [] OTHER -> StdExtra(name, args, S)

---------------------------------------------------------------------------
(* Top level: one global at a time, then start() *)

\* run the initialiser of top-level definition `top` (blob/enum declarations have no run-time effect)
InitTop(top, S) ==
    IF top.k # "def" THEN Ok(S, NilV)
    ELSE LET r == EvalE(top.e, 0, S) IN
         IF r.sig = "ok" THEN Ok(Bind(r.s, 0, top.b, r.v), NilV)
         ELSE IF r.sig = "halt" THEN r
         ELSE Halt(r.s, "stuck:ret-or-break-at-top-level")

CallStart(startId, S) ==
    IF startId \notin DOMAIN S.glob THEN Halt(S, "stuck:no-start")
    ELSE LET r == CallValue(S.glob[startId], <<>>, S) IN
         IF r.sig = "ok" THEN [r EXCEPT !.s.status = "done"] ELSE r
=============================================================================
