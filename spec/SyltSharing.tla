----------------------------- MODULE SyltSharing ----------------------------
(***************************************************************************)
(* C03, fourth dimension: THE MISMATCH IS DEFINITE ONLY THROUGH SHARING.   *)
(*                                                                         *)
(* In the universes of SyltMismatch / SyltArrival / SyltOps the offending  *)
(* types meet at ONE construct.  Here the contradiction is spread over     *)
(* several constructs that are linked by ONE un-annotated binder or by ONE *)
(* value: the types of the binders are not written anywhere, the program   *)
(* is ill typed because NO assignment of types to them satisfies all the   *)
(* typing rules at once.                                                   *)
(*                                                                         *)
(* The typing model (a checker over equations, no inference): a case is a  *)
(* SYSTEM - type variables (the un-annotated binders / the element type of *)
(* an empty list), EQUATIONS between type terms (both sides of an          *)
(* annotated definition, an assignment, a return, a call argument and the  *)
(* declared parameter, the elements of one list literal, the operands of   *)
(* ==) and OPERATOR REQUIREMENTS (both operands of one type that has the   *)
(* operator, element-wise on tuples: table SyltOps!ScalarSup).  The        *)
(* program is well typed iff Sat(system): SOME assignment of types to the  *)
(* variables satisfies every equation and requirement (TLC enumerates the  *)
(* assignments).  Planted programs have an unsatisfiable system, their     *)
(* base twins a satisfiable one (asserted per emitted case: SDefinite).    *)
(*                                                                         *)
(* Three families:                                                         *)
(*  L  late resolution: an operator on two COMPOUND values (tuples, also   *)
(*     nested) whose components are un-annotated parameters; the component *)
(*     types are fixed elsewhere in the same function, through every kind  *)
(*     of site that equates types (annotated definition, constant, list    *)
(*     literal, list annotation, call argument, assignment, ==, blob       *)
(*     field, ret, tail expression), before / after / around the operator; *)
(*     or the operands are fine and the RESULT is pinned to a type the     *)
(*     operator cannot give (int / int is a float), before or after the    *)
(*     operands become known;                                              *)
(*  V  one value with an unresolved element type ([] alone, inside a       *)
(*     tuple, a list, a generic blob, a generic enum value) held by a      *)
(*     global constant / mutable global / local constant / mutable local / *)
(*     parameter and USED AT TWO TYPES (7 kinds of use, every ordered      *)
(*     pair; for globals also from two different functions);               *)
(*  X  crossed sharing: two compound types of width 3 / 4 whose components *)
(*     repeat type variables in different patterns (left (A,B,A), right    *)
(*     (X,Y,Y)) are equated; exactly one component contradicts.  Carriers: *)
(*     list of two tuples (literal, through variables, nested in lists),   *)
(*     tuple assignment, tuple ==, both arguments of fn a: *T, b: *T,      *)
(*     two values of a generic blob in one list, a generic function        *)
(*     signature (fn *A, *B -> *A handed fn x, y -> y), and two generic    *)
(*     signatures over a tuple / a generic enum (fn t: <*A, *B, *A> given  *)
(*     the result of fn .. -> <*X, *Y, *Y>).  The repeated components are  *)
(*     one variable used twice, an alias of it, an un-annotated parameter, *)
(*     or a generic mentioned twice.                                       *)
(***************************************************************************)
EXTENDS SyltOps

TApp(n, args) == [k |-> "tapp", n |-> n, args |-> args]
BlobG(name, gen, fields) == [k |-> "blobdecl", name |-> name, gen |-> gen, fields |-> fields]

SL == NC + 4
SV == NC + 5
SX == NC + 6

---------------------------------------------------------------------------
(* THE TYPING MODEL *)
TmS(nm) == [k |-> "s", nm |-> nm, es |-> <<>>]            \* a scalar type
TmV(v) == [k |-> "v", nm |-> v, es |-> <<>>]              \* a type variable
TmT(es) == [k |-> "t", nm |-> "", es |-> es]              \* tuple
TmL(e) == [k |-> "l", nm |-> "", es |-> <<e>>]            \* list
TmF(es) == [k |-> "f", nm |-> "", es |-> es]              \* function type: parameters followed by the result
TmN(n, args) == [k |-> "n", nm |-> n, es |-> args]        \* a generic blob / enum applied to arguments

RECURSIVE Inst(_, _)
Inst(t, asg) == IF t.k = "v" THEN TmS(asg[t.nm])
                ELSE [k |-> t.k, nm |-> t.nm, es |-> [j \in 1..Len(t.es) |-> Inst(t.es[j], asg)]]
\* does the (ground) type have the operator: scalars by the table of SyltOps, tuples element-wise, nothing else
RECURSIVE HasOp(_, _)
HasOp(op, t) == IF t.k = "s" THEN ScalarSup(op, t.nm)
                ELSE IF t.k = "t" THEN \A j \in 1..Len(t.es) : HasOp(op, t.es[j])
                ELSE FALSE
OpHolds(op, a, b) == IF op \in {"==", "!="} THEN a = b ELSE a = b /\ HasOp(op, a)

\* the type of the result of an operator on two operands of (ground) type t: comparisons give a bool, a quotient is a
\* float (element-wise on tuples), + - * keep the operands' type
RECURSIVE Quot(_)
Quot(t) == IF t.k = "s" THEN (IF t.nm \in {"int", "float"} THEN TmS("float") ELSE t)
           ELSE [k |-> t.k, nm |-> t.nm, es |-> [j \in 1..Len(t.es) |-> Quot(t.es[j])]]
OpRes(op, t) == IF op \in {"<", ">=", "==", "!="} THEN TmS("bool") ELSE IF op = "/" THEN Quot(t) ELSE t

\* res: result requirements [op, a, r]: the term r is the type of the result of op on operands of type a
SysR(vars, dom, eqs, ops, res) == [vars |-> vars, dom |-> dom, eqs |-> eqs, ops |-> ops, res |-> res]
Sys(vars, dom, eqs, ops) == SysR(vars, dom, eqs, ops, <<>>)
Rq(op, a, b) == [op |-> op, a |-> a, b |-> b]
Rs(op, a, r) == [op |-> op, a |-> a, r |-> r]
SDom == {"int", "str", "bool", "float"}
\* a system of equations between terms whose only constants are int and str is satisfiable iff it is satisfiable over
\* {int, str} (a variable not forced to a constant can take any type, e.g. int): family X uses this smaller domain
SDom2 == {"int", "str"}
Sat(s) == \E asg \in [s.vars -> s.dom] :
            /\ \A i \in 1..Len(s.eqs) : Inst(s.eqs[i][1], asg) = Inst(s.eqs[i][2], asg)
            /\ \A i \in 1..Len(s.ops) : OpHolds(s.ops[i].op, Inst(s.ops[i].a, asg), Inst(s.ops[i].b, asg))
            /\ \A i \in 1..Len(s.res) : Inst(s.res[i].r, asg) = OpRes(s.res[i].op, Inst(s.res[i].a, asg))

\* AST type of a ground term
RECURSIVE TermTy(_)
TermTy(t) == CASE t.k = "s" -> TyA(t.nm)
               [] t.k = "t" -> TTuple([j \in 1..Len(t.es) |-> TermTy(t.es[j])])
               [] t.k = "l" -> TList(TermTy(t.es[1]))
               [] t.k = "n" -> TApp(t.nm, [j \in 1..Len(t.es) |-> TermTy(t.es[j])])
\* a value of the term's type built from the literals of index j; a variable position carries the expression env[name]
RECURSIVE TermVal(_, _, _)
TermVal(t, j, env) ==
  CASE t.k = "s" -> Lit(t.nm, j)
    [] t.k = "v" -> env[t.nm]
    [] t.k = "t" -> Tup([i \in 1..Len(t.es) |-> TermVal(t.es[i], j, env)])
    [] t.k = "l" -> Lst(<<TermVal(t.es[1], j, env)>>)
    [] t.k = "n" -> (IF t.nm = "Maybe" THEN Var1("Maybe", "Just", TermVal(t.es[1], j, env))
                     ELSE BlobL(t.nm, <<FI("v", Lst(<<TermVal(t.es[1], j, env)>>))>>))      \* VBox(T) has one field v: [T]
NoEnv == [none |-> Nil]
SetGS == <<Asg("=", V(GG), I(2))>>

---------------------------------------------------------------------------
(* FAMILY L: an operator constraint on compound values whose component types are resolved elsewhere *)
LOps == <<"+", "-", "*", "/", "<", "==">>
LCand == << <<"int", "str">>, <<"str", "int">>, <<"str", "str">>, <<"int", "int">> >>
LShapes == <<"(h,i)", "(i,h)", "(i,(h,i))", "((h,i),i)", "(h,h)">>
TI == TmS("int")
\* the shape with x in the hole and c at the other components
LTermC(sh, x, c) == CASE sh = "(h,i)" -> TmT(<<x, c>>)
                      [] sh = "(i,h)" -> TmT(<<c, x>>)
                      [] sh = "(i,(h,i))" -> TmT(<<c, TmT(<<x, c>>)>>)
                      [] sh = "((h,i),i)" -> TmT(<<TmT(<<x, c>>), c>>)
                      [] sh = "(h,h)" -> TmT(<<x, x>>)
LTerm(sh, x) == LTermC(sh, x, TI)
\* the type a RESULT pin writes: x at the hole; the int components have become what the operator makes of two ints
LResTerm(op, sh, x) == IF op \in {"<", "=="} THEN x ELSE LTermC(sh, x, OpRes(op, TI))
\* the system: the two pins (and the arguments of the call) fix a and b, the operator relates the two compounds
\* rt # "": the RESULT z of the operator is pinned too (r: <result shape with rt in the hole> = z)
LSys(op, sh, ts, rt) ==
  SysR({"a", "b"}, SDom,
       << <<LTerm(sh, TmV("a")), LTerm(sh, TmS(ts[1]))>>, <<LTerm(sh, TmV("b")), LTerm(sh, TmS(ts[2]))>>,
          <<TmV("a"), TmS(ts[1])>>, <<TmV("b"), TmS(ts[2])>> >>,
       <<Rq(op, LTerm(sh, TmV("a")), LTerm(sh, TmV("b")))>>,
       IF rt = "" THEN <<>> ELSE <<Rs(op, LTerm(sh, TmV("a")), LResTerm(op, sh, TmS(rt)))>>)
LBaseTs == <<"int", "int">>
LBaseRt(op) == IF op = "/" THEN "float" ELSE IF op \in {"<", "=="} THEN "bool" ELSE "int"
\* candidates: (1) operand types that may contradict the operator; (2) well-typed int operands and a pin of the RESULT
\* (rt in the hole of the result type), placed right after the operator (rfirst) or after the pins of the operands (rlast)
LResOps == <<"+", "-", "*", "/", "<">>
LResTys == <<"int", "str">>
LResPos == <<"rfirst", "rlast">>
LAll == [i \in 1..(Len(LOps) * Len(LCand)) |->
           [op |-> LOps[((i - 1) \div Len(LCand)) + 1], ts |-> LCand[((i - 1) % Len(LCand)) + 1], rt |-> "", rpos |-> ""]]
        \o [i \in 1..(Len(LResOps) * Len(LResTys) * Len(LResPos)) |->
              [op |-> LResOps[((i - 1) \div (Len(LResTys) * Len(LResPos))) + 1], ts |-> LBaseTs,
               rt |-> LResTys[(((i - 1) \div Len(LResPos)) % Len(LResTys)) + 1], rpos |-> LResPos[((i - 1) % Len(LResPos)) + 1]]]
\* planted: the combinations the model rejects
LOpPairs == SelectSeq(LAll, LAMBDA p : ~Sat(LSys(p.op, "(h,i)", p.ts, p.rt)))
\* (site of the pin of x, site of the pin of y)
LSites == << <<"annot", "annot">>, <<"annotc", "annotc">>, <<"listlit", "listlit">>, <<"listannot", "listannot">>,
             <<"callarg", "callarg">>, <<"assign", "assign">>, <<"eq", "eq">>, <<"field", "field">>,
             <<"annot", "ret">>, <<"ret", "annot">>, <<"annot", "tail">>, <<"listlit", "ret">>, <<"annot", "listlit">> >>
\* (where the un-annotated parameters come from, where the operator stands relative to the pins)
LScen == << <<"local", "late">>, <<"iife", "late">>, <<"global", "late">>, <<"local", "early">>, <<"local", "between">> >>
NLS == Len(LSites)
LShapeOf(m) == LShapes[((m[3] - 1) \div NLS) + 1]
LSiteOf(m) == LSites[((m[3] - 1) % NLS) + 1]
LKeys == {<<SL, p, s, c>> : p \in 1..Len(LOpPairs), s \in 1..(Len(LShapes) * NLS), c \in 1..Len(LScen)}
LKeyKnown(m) == m[2] \in 1..Len(LOpPairs) /\ m[3] \in 1..(Len(LShapes) * NLS) /\ m[4] \in 1..Len(LScen)

LPin(site, sh, t, j, x) ==
  LET ty == TermTy(LTerm(sh, TmS(t)))
      lit == TermVal(LTerm(sh, TmS(t)), j + 2, NoEnv)
      b == 505 + 3 * j IN
  CASE site = "annot" -> OG(<<>>, <<DefM(b, ty, V(x))>>)
    [] site = "annotc" -> OG(<<>>, <<DefC(b, ty, V(x))>>)
    [] site = "listlit" -> OG(<<>>, <<DefC(b, TNone, Lst(<<V(x), lit>>))>>)
    [] site = "listannot" -> OG(<<>>, <<DefC(b, TList(ty), Lst(<<V(x)>>))>>)
    [] site = "callarg" -> OG(<<DefN(1410 + j, "const", TNone, Fn(<<P(b + 1, ty)>>, TVoid, SetGS), "")>>,
                              <<Ex(Call(V(1410 + j), <<V(x)>>))>>)
    [] site = "assign" -> OG(<<>>, <<DefM(b, TNone, lit), Asg("=", V(b), V(x))>>)
    [] site = "eq" -> OG(<<>>, <<DefC(b, TNone, Bin("==", V(x), lit))>>)
    [] site = "field" -> OG(<<BlobD(IF j = 1 THEN "LPA" ELSE "LPB", <<FD("v", ty)>>)>>,
                            <<DefC(b, TNone, BlobL(IF j = 1 THEN "LPA" ELSE "LPB", <<FI("v", V(x))>>))>>)
    [] site \in {"ret", "tail"} -> OG(<<>>, <<>>)

LSide(m, planted) ==
  LET p == LOpPairs[m[2]]
      sh == LShapeOf(m)
      st == LSiteOf(m)
      sc == LScen[m[4]]
      ts == IF planted THEN p.ts ELSE LBaseTs
      rt == IF planted THEN p.rt ELSE LBaseRt(p.op)
      rpin(pos) == IF p.rt # "" /\ p.rpos = pos THEN <<DefM(516, TermTy(LResTerm(p.op, sh, TmS(rt))), V(505))>> ELSE <<>>
      hole == LTerm(sh, TmV("h"))
      defs == <<DefM(503, TNone, TermVal(hole, 1, [h |-> V(501)])), DefM(504, TNone, TermVal(hole, 2, [h |-> V(502)]))>>
      opst == <<DefC(505, TNone, Bin(p.op, V(503), V(504)))>>
      pin1 == LPin(st[1], sh, ts[1], 1, 503)
      pin2 == LPin(st[2], sh, ts[2], 2, 504)
      isret(s) == s \in {"ret", "tail"}
      retty == IF isret(st[1]) THEN TermTy(LTerm(sh, TmS(ts[1])))
               ELSE IF isret(st[2]) THEN TermTy(LTerm(sh, TmS(ts[2]))) ELSE TVoid
      rv == IF isret(st[1]) THEN 503 ELSE 504
      rs == IF isret(st[1]) THEN st[1] ELSE st[2]
      retst == IF rs = "ret" THEN <<Ret(V(rv))>> ELSE IF rs = "tail" THEN <<Ex(V(rv))>> ELSE <<>>
      body == CASE sc[2] = "late" -> defs \o opst \o rpin("rfirst") \o pin1.s \o pin2.s \o rpin("rlast") \o retst
                [] sc[2] = "early" -> defs \o pin1.s \o pin2.s \o opst \o rpin("rfirst") \o rpin("rlast") \o retst
                [] sc[2] = "between" -> defs \o pin1.s \o opst \o rpin("rfirst") \o pin2.s \o rpin("rlast") \o retst
      fnlit == Fn(<<P(501, TNone), P(502, TNone)>>, retty, body)
      args == <<Lit(ts[1], 1), Lit(ts[2], 2)>>
      pg == pin1.g \o pin2.g IN
  CASE sc[1] = "local" -> OG(pg, <<DefC(515, TNone, fnlit), Ex(Call(V(515), args))>>)
    [] sc[1] = "iife" -> OG(pg, <<Ex(Call(fnlit, args))>>)
    [] sc[1] = "global" -> OG(pg \o <<DefN(1400, "const", TNone, fnlit, "")>>, <<Ex(Call(V(1400), args))>>)
LKind(m) ==
  LET p == LOpPairs[m[2]] IN
  "late:" \o p.op \o ":" \o p.ts[1] \o "~" \o p.ts[2] \o (IF p.rt = "" THEN "" ELSE ">" \o p.rt \o "-" \o p.rpos) \o "@" \o LShapeOf(m) \o "/" \o LSiteOf(m)[1] \o "+" \o LSiteOf(m)[2]
  \o "/" \o LScen[m[4]][1] \o "-" \o LScen[m[4]][2]
LRule(m) == LET p == LOpPairs[m[2]] IN IF p.rt # "" THEN "decl-type" ELSE IF p.op = "==" THEN "eq-equal-types" ELSE OpRule(p.op)
LDefinite(m) == LET p == LOpPairs[m[2]] IN ~Sat(LSys(p.op, LShapeOf(m), p.ts, p.rt))
                                          /\ Sat(LSys(p.op, LShapeOf(m), LBaseTs, IF p.rt = "" THEN "" ELSE LBaseRt(p.op)))

---------------------------------------------------------------------------
(* FAMILY V: one value with an unresolved element type, used at two types *)
VHolders == <<"gconst", "gconst-split", "gmut", "gmut-split", "lconst", "lmut", "param">>
VShapes == <<"list", "tupleL", "tupleR", "nested", "blob", "enum">>
VUses == <<"annot", "push", "callarg", "listlit", "assign", "eq", "ret">>
VCand == << <<"int", "str">>, <<"str", "float">>, <<"int", "int">> >>
VTerm(sh, x) == CASE sh = "list" -> TmL(x)
                  [] sh = "tupleL" -> TmT(<<TmL(x), TI>>)
                  [] sh = "tupleR" -> TmT(<<TI, TmL(x)>>)
                  [] sh = "nested" -> TmL(TmL(x))
                  [] sh = "blob" -> TmN("VBox", <<x>>)
                  [] sh = "enum" -> TmN("Maybe", <<TmL(x)>>)
\* both uses equate the holder's type with the use's type
VSys(sh, ts) == Sys({"h"}, SDom, << <<VTerm(sh, TmV("h")), VTerm(sh, TmS(ts[1]))>>, <<VTerm(sh, TmV("h")), VTerm(sh, TmS(ts[2]))>> >>, <<>>)
VPairs == SelectSeq(VCand, LAMBDA ts : ~Sat(VSys("list", ts)))
NVH == Len(VHolders)
NVU == Len(VUses)
VPairOf(m) == VPairs[((m[2] - 1) \div NVH) + 1]
VHolderOf(m) == VHolders[((m[2] - 1) % NVH) + 1]
VUse1(m) == VUses[((m[4] - 1) \div NVU) + 1]
VUse2(m) == VUses[((m[4] - 1) % NVU) + 1]
VKeys == {<<SV, h, s, u>> : h \in 1..(Len(VPairs) * NVH), s \in 1..Len(VShapes), u \in 1..(NVU * NVU)}
VKeyKnown(m) == m[2] \in 1..(Len(VPairs) * NVH) /\ m[3] \in 1..Len(VShapes) /\ m[4] \in 1..(NVU * NVU)

EmptyL == Lst(<<>>)
VEmpty(sh) == CASE sh = "list" -> EmptyL
                [] sh = "tupleL" -> Tup(<<EmptyL, I(1)>>)
                [] sh = "tupleR" -> Tup(<<I(1), EmptyL>>)
                [] sh = "nested" -> Lst(<<EmptyL>>)
                [] sh = "blob" -> BlobL("VBox", <<FI("v", EmptyL)>>)
                [] sh = "enum" -> Var1("Maybe", "Just", EmptyL)
VDecls(sh) == IF sh = "blob" THEN <<BlobG("VBox", <<"T">>, <<FD("v", TList(TGen("T")))>>)>> ELSE <<>>
\* use number j of the holder h (an expression) at element type t
VUse(u, sh, t, j, h) ==
  LET ty == TermTy(VTerm(sh, TmS(t)))
      lit == TermVal(VTerm(sh, TmS(t)), j, NoEnv)
      el == Lit(t, j)
      b == 520 + 5 * j
      push(l, e) == Ex(Call(Std("list.push"), <<l, e>>)) IN
  CASE u = "annot" -> OG(<<>>, <<DefM(b, ty, h)>>)
    [] u = "push" ->
         OG(<<>>, CASE sh = "list" -> <<push(h, el)>>
                    [] sh = "tupleL" -> <<push(Idx(h, 0), el)>>
                    [] sh = "tupleR" -> <<push(Idx(h, 1), el)>>
                    [] sh = "nested" -> <<push(h, Lst(<<el>>))>>
                    [] sh = "blob" -> <<push(Fld(h, "v"), el)>>
                    [] sh = "enum" -> <<Ex(CaseE(h, <<CArmB("Just", b + 1, <<push(V(b + 1), el)>>)>>, <<DefC(b + 2, TInt, I(0))>>))>>)
    [] u = "callarg" -> OG(<<DefN(1440 + j, "const", TNone, Fn(<<P(b + 1, ty)>>, TVoid, SetGS), "")>>, <<Ex(Call(V(1440 + j), <<h>>))>>)
    [] u = "listlit" -> OG(<<>>, <<DefC(b, TNone, Lst(<<h, lit>>))>>)
    [] u = "assign" -> OG(<<>>, <<DefM(b, TNone, lit), Asg("=", V(b), h)>>)
    [] u = "eq" -> OG(<<>>, <<DefC(b, TNone, Bin("==", h, lit))>>)
    [] u = "ret" -> OG(<<>>, <<DefC(b, TNone, Call(Fn(<<>>, ty, <<Ret(h)>>), <<>>))>>)
VSide(m, planted) ==
  LET pr == VPairOf(m)
      ts == IF planted THEN pr ELSE <<pr[1], pr[1]>>
      hd == VHolderOf(m)
      sh == VShapes[m[3]]
      isg == hd \in {"gconst", "gconst-split", "gmut", "gmut-split"}
      h == IF isg THEN V(1420) ELSE V(520)
      u1 == VUse(VUse1(m), sh, ts[1], 1, h)
      u2 == VUse(VUse2(m), sh, ts[2], 2, h)
      gdef == DefN(1420, IF hd \in {"gconst", "gconst-split"} THEN "const" ELSE "mut", TNone, VEmpty(sh), "")
      g0 == VDecls(sh) \o u1.g \o u2.g IN
  CASE hd \in {"gconst", "gmut"} -> OG(g0 \o <<gdef>>, u1.s \o u2.s)
    [] hd \in {"gconst-split", "gmut-split"} ->
         OG(g0 \o <<gdef, DefN(1421, "const", TNone, Fn(<<>>, TVoid, u1.s), ""), DefN(1422, "const", TNone, Fn(<<>>, TVoid, u2.s), "")>>,
            <<Ex(Call(V(1421), <<>>)), Ex(Call(V(1422), <<>>))>>)
    [] hd = "lconst" -> OG(g0, <<DefC(520, TNone, VEmpty(sh))>> \o u1.s \o u2.s)
    [] hd = "lmut" -> OG(g0, <<DefM(520, TNone, VEmpty(sh))>> \o u1.s \o u2.s)
    [] hd = "param" -> OG(g0, <<Ex(Call(Fn(<<P(520, TNone)>>, TVoid, u1.s \o u2.s), <<VEmpty(sh)>>))>>)
VKind(m) == "hole:" \o VPairOf(m)[1] \o "~" \o VPairOf(m)[2] \o "@" \o VHolderOf(m) \o "/" \o VShapes[m[3]] \o "/" \o VUse1(m) \o "+" \o VUse2(m)
UseRule(u) == CASE u = "annot" -> "decl-type" [] u \in {"push", "callarg"} -> "call-argtype" [] u = "listlit" -> "list-homogeneous"
                [] u = "assign" -> "assign-type" [] u = "eq" -> "eq-equal-types" [] u = "ret" -> "ret-type"
VRule(m) == UseRule(VUse2(m))
VDefinite(m) == ~Sat(VSys(VShapes[m[3]], VPairOf(m))) /\ Sat(VSys(VShapes[m[3]], <<VPairOf(m)[1], VPairOf(m)[1]>>))

---------------------------------------------------------------------------
(* FAMILY X: crossed sharing patterns.
   A pattern of width w is a restricted-growth string over 1..4 (which type variable stands at each component); its
   code is its base-4 numeral.  m = <<SX, w * 100 + carrier * 10 + binding, code(L) * 256 + code(R), mask>>; bit v - 1 of the
   mask: the left variable v is a str (else an int), bit 4 + v - 1: the right variable v.
   Carrier 0 (a generic function signature): L = the generics of fn *L1, .. -> *Lw, m[3] = code(L) * 256 + r: the function
   handed over returns its r-th parameter; the mask grounds the generics through further arguments (m[2] % 10: the
   function handed over is a literal / a local constant / a global).                                             *)
XCarriers == <<"tuplelist", "tuplevars", "listnest", "tupleassign", "tupleeq", "gensame", "blob", "gentuple", "genenum">>
\* carriers whose variables are the generics of two signatures (take :: fn t: <*A, *B, *A>, a: *A, b: *B   given   mk(..): <*X, *Y, *Y>):
\* the binding dimension does not apply (binding 1)
GenCarriers == {8, 9}
XBinds == <<"mut", "alias", "params">>
XFnForms == <<"lit", "local", "global">>
FnCarrier == 0
Bit(mask, b) == (mask \div (2 ^ b)) % 2
Decode(code, w) == [i \in 1..w |-> ((code \div (4 ^ (i - 1))) % 4) + 1]
Code(p, w) == (p[1] - 1) + 4 * (p[2] - 1) + 16 * (p[3] - 1) + (IF w = 4 THEN 64 * (p[4] - 1) ELSE 0)
IsRGS(p, w) == p[1] = 1 /\ \A i \in 2..w : \E j \in 1..(i - 1) : p[i] <= p[j] + 1
RGS(w) == {p \in [1..w -> 1..w] : IsRGS(p, w)}
NVars(p, w) == CHOOSE n \in 1..w : (\E i \in 1..w : p[i] = n) /\ \A i \in 1..w : p[i] <= n
GL(mask, v) == IF Bit(mask, v - 1) = 1 THEN "str" ELSE "int"
GR(mask, v) == IF Bit(mask, 4 + v - 1) = 1 THEN "str" ELSE "int"
XW(m) == m[2] \div 100
XCar(m) == (m[2] % 100) \div 10
XBnd(m) == m[2] % 10
XL(m) == Decode(m[3] \div 256, XW(m))
XR(m) == IF XCar(m) = FnCarrier THEN [i \in 1..XW(m) |-> IF i < XW(m) THEN i ELSE m[3] % 256] ELSE Decode(m[3] % 256, XW(m))
\* the masks of a pattern pair: only bits of variables that occur, the first left variable an int (int / str are
\* interchangeable), and EXACTLY ONE component whose two sides differ
MaskOk(L, R, w, mask) ==
  /\ \A b \in 0..7 : Bit(mask, b) = 1 => (IF b < 4 THEN b + 1 <= NVars(L, w) ELSE b - 3 <= NVars(R, w))
  /\ Bit(mask, 0) = 0
  /\ Cardinality({i \in 1..w : GL(mask, L[i]) # GR(mask, R[i])}) = 1
\* generic signature: only the generics are grounded; the result generic and the generic of the returned parameter differ
FnMaskOk(L, r, w, mask) ==
  /\ \A b \in 0..7 : Bit(mask, b) = 1 => (b < 4 /\ b + 1 <= NVars(L, w))
  /\ Bit(mask, 0) = 0
  /\ GL(mask, L[w]) # GL(mask, L[r])
XTriples(w) == UNION {{<<Code(L, w) * 256 + Code(R, w), mask>> : mask \in {x \in 0..255 : MaskOk(L, R, w, x)}} : L \in RGS(w), R \in RGS(w)}
XFnTriples(w) == UNION {{<<Code(L, w) * 256 + r, mask>> : mask \in {x \in 0..15 : FnMaskOk(L, r, w, x)}} : L \in RGS(w), r \in 1..(w - 1)}
XKeyHash(m, seed) == (m[2] * 131 + m[3] * 31 + m[4] * 7 + seed) % 1009
\* width 3 completely; of width 4 a seeded 1/xmod sample (xmod = 1: all)
XKeysW(w, seed, xmod) ==
  LET cbs == {w * 100 + c * 10 + b : c \in 1..Len(XCarriers), b \in 1..Len(XBinds)} \ {w * 100 + c * 10 + b : c \in GenCarriers, b \in 2..Len(XBinds)}
      fbs == {w * 100 + FnCarrier * 10 + b : b \in 1..Len(XFnForms)}
      all == {<<SX, cb, t[1], t[2]>> : cb \in cbs, t \in XTriples(w)} \cup {<<SX, fb, t[1], t[2]>> : fb \in fbs, t \in XFnTriples(w)} IN
  IF w = 3 THEN all ELSE {m \in all : XKeyHash(m, seed) % xmod = 0}
XKeys(seed, xmod) == XKeysW(3, seed, xmod) \cup XKeysW(4, seed, xmod)
XKeyKnown(m, seed, xmod) ==
  /\ XW(m) \in {3, 4} /\ m[4] \in 0..255
  /\ LET w == XW(m) IN
     /\ (m[3] \div 256) \in 0..255 /\ IsRGS(XL(m), w)
     /\ IF XCar(m) = FnCarrier THEN XBnd(m) \in 1..Len(XFnForms) /\ (m[3] % 256) \in 1..(w - 1) /\ FnMaskOk(XL(m), m[3] % 256, w, m[4])
        ELSE XCar(m) \in 1..Len(XCarriers) /\ XBnd(m) \in 1..Len(XBinds) /\ (XCar(m) \in GenCarriers => XBnd(m) = 1)
             /\ IsRGS(XR(m), w) /\ MaskOk(XL(m), XR(m), w, m[4])
     /\ (w = 3 \/ XKeyHash(m, seed) % xmod = 0)

LName(v) == <<"A", "B", "C", "D">>[v]
RName(v) == <<"X", "Y", "Z", "W">>[v]
\* the system: one equation between the two compound types, the groundings of the variables
XSys(m, planted) ==
  LET w == XW(m)
      L == XL(m)
      R == XR(m)
      mask == IF planted THEN m[4] ELSE 0
      nl == NVars(L, w)
      nr == NVars(R, w)
      lt == [i \in 1..w |-> TmV(LName(L[i]))]
      rt == [i \in 1..w |-> TmV(RName(R[i]))]
      gl == [v \in 1..nl |-> <<TmV(LName(v)), TmS(GL(mask, v))>>]
      gr == [v \in 1..nr |-> <<TmV(RName(v)), TmS(GR(mask, v))>>] IN
  IF XCar(m) = FnCarrier THEN Sys({LName(v) : v \in 1..nl} \cup {RName(v) : v \in 1..nr}, SDom2, <<<<TmF(lt), TmF(rt)>>>> \o gl, <<>>)
  ELSE Sys({LName(v) : v \in 1..nl} \cup {RName(v) : v \in 1..nr}, SDom2, <<<<TmT(lt), TmT(rt)>>>> \o gl \o gr, <<>>)
XDefinite(m) == ~Sat(XSys(m, TRUE)) /\ Sat(XSys(m, FALSE))

\* occurrence number of position i in pattern p (1 = first use of that variable)
Occ(p, i) == Cardinality({j \in 1..i : p[j] = p[i]})
XSide(m, planted) ==
  LET w == XW(m)
      L == XL(m)
      R == XR(m)
      mask == IF planted THEN m[4] ELSE 0
      nl == NVars(L, w)
      nr == NVars(R, w)
      car == XCar(m) IN
  IF car = FnCarrier THEN
    \* hof :: fn f: fn *L1, .. -> *Lw, a1: *A, .. do .. end        hof(<fn x1, .. -> x_r>, lit(A), ..)
    LET gens == [v \in 1..nl |-> TGen(LName(v))]
        fty == TFn([i \in 1..(w - 1) |-> gens[L[i]]], gens[L[w]])
        hof == DefN(1430, "const", TNone, Fn(<<P(560, fty)>> \o [v \in 1..nl |-> P(560 + v, gens[v])], TVoid, SetGS), "")
        given == Fn([i \in 1..(w - 1) |-> P(540 + i, TNone)], TNone, <<Ex(V(540 + R[w]))>>)
        lits == [v \in 1..nl |-> Lit(GL(mask, v), ((v - 1) % 2) + 1)]
        form == XFnForms[XBnd(m)] IN
    CASE form = "lit" -> OG(<<hof>>, <<Ex(Call(V(1430), <<given>> \o lits))>>)
      [] form = "local" -> OG(<<hof>>, <<DefC(570, TNone, given), Ex(Call(V(1430), <<V(570)>> \o lits))>>)
      [] form = "global" -> OG(<<hof, DefN(1431, "const", TNone, given, "")>>, <<Ex(Call(V(1430), <<V(1431)>> \o lits))>>)
  ELSE IF car \in GenCarriers THEN
    \* take :: fn t: C<*L1, .., *Lw>, a1: *A, .. do .. end     mk :: fn x1: *X, .. -> C<*R1, .., *Rw> do <value> end     take(mk(lits), lits)
    LET gl == [v \in 1..nl |-> TGen(LName(v))]
        gr == [v \in 1..nr |-> TGen(RName(v))]
        vnames == <<"P", "Q", "R", "S">>
        isenum == XCarriers[car] = "genenum"
        cty(gs, pat) == IF isenum THEN TApp("XE", [i \in 1..w |-> gs[pat[i]]]) ELSE TTuple([i \in 1..w |-> gs[pat[i]]])
        decl == IF isenum THEN <<[k |-> "enum", name |-> "XE", gen |-> SubSeq(<<"A", "B", "C", "D">>, 1, w),
                                  variants |-> [i \in 1..w |-> VD1(vnames[i], TGen(<<"A", "B", "C", "D">>[i]))]]>> ELSE <<>>
        val == IF isenum THEN Var1("XE", "P", V(540 + R[1])) ELSE Tup([i \in 1..w |-> V(540 + R[i])])
        take == DefN(1430, "const", TNone, Fn(<<P(560, cty(gl, L))>> \o [v \in 1..nl |-> P(560 + v, gl[v])], TVoid, SetGS), "")
        mk == DefN(1431, "const", TNone, Fn([v \in 1..nr |-> P(540 + v, gr[v])], cty(gr, R), <<Ex(val)>>), "") IN
    OG(decl \o <<take, mk>>,
       <<Ex(Call(V(1430), <<Call(V(1431), [v \in 1..nr |-> Lit(GR(mask, v), 2)])>> \o [v \in 1..nl |-> Lit(GL(mask, v), 1)]))>>)
  ELSE
    LET bnd == XBinds[XBnd(m)]
        carrier == XCarriers[car]
        lv(v) == 530 + v
        rv(v) == 540 + v
        \* alias: the second and later occurrences of a variable go through constants bound to it
        le == [i \in 1..w |-> IF bnd = "alias" /\ Occ(L, i) > 1 THEN V(550 + i) ELSE V(lv(L[i]))]
        re == [i \in 1..w |-> IF bnd = "alias" /\ Occ(R, i) > 1 THEN V(555 + i) ELSE V(rv(R[i]))]
        aliases == SelectSeq([i \in 1..(2 * w) |->
                                IF i <= w THEN (IF Occ(L, i) > 1 THEN DefC(550 + i, TNone, V(lv(L[i]))) ELSE Nil)
                                ELSE (IF Occ(R, i - w) > 1 THEN DefC(555 + i - w, TNone, V(rv(R[i - w]))) ELSE Nil)],
                             LAMBDA d : d.k = "def")
        llit(v) == Lit(GL(mask, v), 1)
        rlit(v) == Lit(GR(mask, v), 2)
        binds == [v \in 1..nl |-> DefM(lv(v), TNone, llit(v))] \o [v \in 1..nr |-> DefM(rv(v), TNone, rlit(v))]
        lt == Tup(le)
        rt == Tup(re)
        fnames == <<"p", "q", "r", "s">>
        blobv(es) == BlobL("XT", [i \in 1..w |-> FI(fnames[i], es[i])])
        gens4 == <<"A", "B", "C", "D">>
        use == CASE carrier = "tuplelist" -> OG(<<>>, <<DefC(560, TNone, Lst(<<lt, rt>>))>>)
                 [] carrier = "tuplevars" -> OG(<<>>, <<DefM(561, TNone, lt), DefM(562, TNone, rt), DefC(560, TNone, Lst(<<V(561), V(562)>>))>>)
                 [] carrier = "listnest" -> OG(<<>>, <<DefC(560, TNone, Lst(<<Lst(<<lt>>), Lst(<<rt>>)>>))>>)
                 [] carrier = "tupleassign" -> OG(<<>>, <<DefM(560, TNone, lt), Asg("=", V(560), rt)>>)
                 [] carrier = "tupleeq" -> OG(<<>>, <<DefC(560, TNone, Bin("==", lt, rt))>>)
                 [] carrier = "gensame" -> OG(<<DefN(1430, "const", TNone, Fn(<<P(563, TGen("T")), P(564, TGen("T"))>>, TVoid, SetGS), "")>>,
                                             <<Ex(Call(V(1430), <<lt, rt>>))>>)
                 [] carrier = "blob" -> OG(<<BlobG("XT", SubSeq(gens4, 1, w), [i \in 1..w |-> FD(fnames[i], TGen(gens4[i]))])>>,
                                          <<DefC(560, TNone, Lst(<<blobv(le), blobv(re)>>))>>)
        inner == (IF bnd = "alias" THEN aliases ELSE <<>>) \o use.s IN
    IF bnd = "params" THEN
      OG(use.g, <<DefC(570, TNone, Fn([v \in 1..nl |-> P(lv(v), TNone)] \o [v \in 1..nr |-> P(rv(v), TNone)], TVoid, inner)),
                  Ex(Call(V(570), [v \in 1..nl |-> llit(v)] \o [v \in 1..nr |-> rlit(v)]))>>)
    ELSE OG(use.g, binds \o inner)
RECURSIVE PatStr(_, _, _)
PatStr(p, i, left) == IF i > Len(p) THEN "" ELSE (IF left THEN LName(p[i]) ELSE RName(p[i])) \o PatStr(p, i + 1, left)
RECURSIVE GrStr(_, _, _, _)
GrStr(mask, n, v, left) == IF v > n THEN "" ELSE (IF (IF left THEN GL(mask, v) ELSE GR(mask, v)) = "str" THEN "s" ELSE "i") \o GrStr(mask, n, v + 1, left)
XKind(m) ==
  LET w == XW(m)
      L == XL(m)
      R == XR(m) IN
  IF XCar(m) = FnCarrier THEN
    "cross:fnsig/" \o XFnForms[XBnd(m)] \o ":" \o PatStr(L, 1, TRUE) \o "|" \o PatStr(R, 1, FALSE) \o ":" \o GrStr(m[4], NVars(L, w), 1, TRUE)
  ELSE "cross:" \o XCarriers[XCar(m)] \o "/" \o (IF XCar(m) \in GenCarriers THEN "sig" ELSE XBinds[XBnd(m)]) \o ":" \o PatStr(L, 1, TRUE) \o "|" \o PatStr(R, 1, FALSE)
       \o ":" \o GrStr(m[4], NVars(L, w), 1, TRUE) \o "|" \o GrStr(m[4], NVars(R, w), 1, FALSE)
XRule(m) == IF XCar(m) = FnCarrier THEN "call-argtype"
            ELSE LET c == XCarriers[XCar(m)] IN
                 CASE c \in {"tuplelist", "tuplevars", "listnest", "blob"} -> "list-homogeneous"
                   [] c = "tupleassign" -> "assign-type" [] c = "tupleeq" -> "eq-equal-types" [] c \in {"gensame", "gentuple", "genenum"} -> "call-argtype"

---------------------------------------------------------------------------
(* the universe of this module *)
\* quick tier (full = FALSE): a seeded third of the keys of families L and V, width 3 of family X completely and 1/xmod of width 4
KMod == 3
KeySel(m, full, seed) == full \/ XKeyHash(m, seed) % KMod = 0
SKeys(full, seed, xmod) == {m \in LKeys \cup VKeys : KeySel(m, full, seed)} \cup XKeys(seed, xmod)
SKeyKnown(m, full, seed, xmod) == IF m[1] = SL THEN LKeyKnown(m) /\ KeySel(m, full, seed)
                                  ELSE IF m[1] = SV THEN VKeyKnown(m) /\ KeySel(m, full, seed)
                                  ELSE m[1] = SX /\ XKeyKnown(m, seed, xmod)
SSide(m, planted) == IF m[1] = SL THEN LSide(m, planted) ELSE IF m[1] = SV THEN VSide(m, planted) ELSE XSide(m, planted)
SKind(m) == IF m[1] = SL THEN LKind(m) ELSE IF m[1] = SV THEN VKind(m) ELSE XKind(m)
SRule(m) == IF m[1] = SL THEN LRule(m) ELSE IF m[1] = SV THEN VRule(m) ELSE XRule(m)
SClass(m) == IF m[1] = SL THEN "share-late-op" ELSE IF m[1] = SV THEN "share-hole" ELSE "share-crossed"
SForms(m) ==
  IF m[1] = SL THEN <<LShapeOf(m), LSiteOf(m)[1] \o "+" \o LSiteOf(m)[2], LScen[m[4]][1] \o "-" \o LScen[m[4]][2]>>
  ELSE IF m[1] = SV THEN <<VHolderOf(m), VShapes[m[3]], VUse1(m) \o "+" \o VUse2(m)>>
  ELSE IF XCar(m) = FnCarrier THEN <<"fnsig", XFnForms[XBnd(m)]>>
  ELSE <<XCarriers[XCar(m)], IF XCar(m) \in GenCarriers THEN "sig" ELSE XBinds[XBnd(m)]>>
\* definiteness, decided by the typing model: the planted system has no solution, the base system has one
SDefinite(m) == IF m[1] = SL THEN LDefinite(m) ELSE IF m[1] = SV THEN VDefinite(m) ELSE XDefinite(m)
SProgram(m, path, planted) == LET sd == SSide(m, planted) IN sd.g \o Wrap(path, 1, sd.s, "-")

\* placement: start alone, plus a seeded 1/smod sample of the other tops and of the chains of length 2
SHash(m, p, seed) ==
  ((((m[1] * 37 + m[2] * 11 + m[3] * 5 + m[4]) % 9973) * 101 + CtxNo(p[1]) * 53 + (IF Len(p) > 1 THEN CtxNo(p[2]) * 17 ELSE 7) + seed) % 100003)
SPaths == Chains("S", "-", 1, Tops) \cup Chains("S", "-", 2, Tops)
\* sp: the set SPaths, handed in by callers that walk over many keys (TLC re-evaluates SPaths on every reference)
SChainsP(m, seed, smod, sp) == {<<"start">>} \cup {p \in sp : SHash(m, p, seed) % smod = 0}
SChains(m, seed, smod) == SChainsP(m, seed, smod, SPaths)

(* Spec-level sanity *)
ShareSane ==
  /\ Len(LOpPairs) >= 10 /\ Len(LOpPairs) < Len(LAll)                       \* the model selects: some combinations are well typed
  /\ \A i \in 1..Len(LOpPairs) : (LOpPairs[i].rt = "") = (LOpPairs[i].ts # LBaseTs)
  /\ \A i \in 1..Len(LOpPairs) : LOpPairs[i].rt # LBaseRt(LOpPairs[i].op)
  /\ \E i \in 1..Len(LOpPairs) : LOpPairs[i].op = "/" /\ LOpPairs[i].rt = "int"           \* the quotient of two ints is no int
  /\ ~\E i \in 1..Len(LOpPairs) : LOpPairs[i].op \in {"+", "-", "*"} /\ LOpPairs[i].rt = "int"
  /\ \A op \in {"-", "*", "/"} : \E i \in 1..Len(LOpPairs) : LOpPairs[i].op = op /\ LOpPairs[i].ts = <<"str", "str">>
  /\ ~\E i \in 1..Len(LOpPairs) : LOpPairs[i].op \in {"+", "<", "=="} /\ LOpPairs[i].ts = <<"str", "str">>
  /\ Len(VPairs) = 2
  /\ Cardinality(RGS(3)) = 5 /\ Cardinality(RGS(4)) = 15
  /\ \A p \in RGS(4) : Decode(Code(p, 4), 4) = p
=============================================================================
