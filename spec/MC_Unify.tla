------------------------------ MODULE MC_Unify ------------------------------
(* SyltUnify on its own: every interleaving of Push / AddCons / Union over up to MaxN nodes and the keys K.  *)
(* LOSSY = TRUE replaces Union by the faulty variant that keeps only the representative's constraints (what *)
(* a "merge before the swap" refactoring does): NoConstraintLost must then be VIOLATED (negative model).     *)
EXTENDS SyltUnify, IOUtils
MaxN == 4
K == {"Add(1)", "Neg"}
Lossy == "LOSSY" \in DOMAIN IOEnv /\ IOEnv.LOSSY = "1"

UnionLossy(root, child) ==
    /\ root \in Nodes /\ child \in Nodes /\ root # child /\ IsRoot(root) /\ IsRoot(child)
    /\ size[root] >= size[child]
    /\ parent' = [parent EXCEPT ![child] = root]
    /\ size' = [size EXCEPT ![root] = size[root] + size[child]]
    /\ UNCHANGED <<n, cons, added>>

MCPush == n < MaxN /\ Push(n)
MCAdd == \E x \in Nodes, c \in K : AddCons(x, {c})
MCUnion == \E a, b \in Nodes : IF Lossy THEN UnionLossy(a, b) ELSE Union(a, b)
MCNext == MCPush \/ MCAdd \/ MCUnion
MCSpec == UInit /\ [][MCNext]_uvars
=============================================================================
