---------------------------- MODULE MC_Families ----------------------------
(* C07: emission of the index-addressed families of structured programs defined in SyltPipeline
   (one CASE line per index FIRST..LAST of family FAM) and their well-formedness (ASSUMEs; a failure
   is a wrong specification, exit 2). Environment: FAM, FIRST, LAST. *)
EXTENDS SyltPipeline, Json, IOUtils

VARIABLES fk, fpc
fvars == <<fk, fpc, phase, input, stage, errs, bytes, rendered>>

Fam == IOEnv.FAM
First == atoi(IOEnv.FIRST)
Last == IF atoi(IOEnv.LAST) > FamSize(Fam) THEN FamSize(Fam) ELSE atoi(IOEnv.LAST)   \* LAST beyond the family means "to the end"

FInit == fpc = "start" /\ fk \in First..Last /\ Init
FEmit == /\ fpc = "start" /\ fpc' = "done" /\ fk' = fk /\ UNCHANGED pvars
         /\ fk = First => PrintT(<<"FAMILY", ToJson([fam |-> Fam, size |-> FamSize(Fam)])>>)
         /\ LET c == FamCase(Fam, fk) IN
            IF Fam \in HistFamilies       \* a history: its programs in order, each [id, files, nostd, expect]
            THEN PrintT(<<"CASE", ToJson([idx |-> fk, id |-> c.id, steps |-> c.steps])>>)
            ELSE PrintT(<<"CASE", ToJson([idx |-> fk, id |-> c.id, files |-> c.files, nostd |-> c.nostd])>>)
FNext == FEmit
FSpec == FInit /\ [][FNext]_fvars
FTypeOk == fpc \in {"start", "done"} /\ fk \in 1..FamSize(Fam)
=============================================================================
