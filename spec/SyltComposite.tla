---------------------------- MODULE SyltComposite ----------------------------
(***************************************************************************)
(* C19: composite values compare, order and combine structurally.          *)
(*                                                                         *)
(* The universe: value EXPRESSIONS (SyltAst literals) of nested types over *)
(* small leaves, index-addressed (Count / Nth), every ordered pair of      *)
(* equal type, every operator the property speaks about for that type.     *)
(* The expected result of `a op b` is what the dynamic semantics says      *)
(* (SyltSem!ApplyBin = SyltValues!StructEq / Cmp3 / Arith / Negate), the   *)
(* expected print line is Render of it.  The laws of the property are      *)
(* checked by TLC on the same pairs (LawViolations) and on all triples of  *)
(* the small types (TransViolations).                                      *)
(*                                                                         *)
(* A universe type is a SyltAst type record decorated with its leaf values *)
(* (vs), list length bound (max) or declaration (fields / variants).       *)
(***************************************************************************)
EXTENDS SyltSem, SyltAst

IntT(vs)   == [k |-> "tint", vs |-> vs]
FloatT(vs) == [k |-> "tfloat", vs |-> vs]            \* vs: sequence of <<n, d>> = n / 2^d
StrT(vs)   == [k |-> "tstr", vs |-> vs]
BoolT      == [k |-> "tbool"]
TupT(es)   == [k |-> "ttuple", es |-> es]
ListT(e, max) == [k |-> "tlist", e |-> e, max |-> max]
BlobT(n, fields) == [k |-> "tname", kind |-> "blob", n |-> n, fields |-> fields]       \* fields: <<[f, ty]>>
EnumT(n, variants) == [k |-> "tname", kind |-> "enum", n |-> n, variants |-> variants] \* variants: <<[v, has, ty]>>
UV1(v, ty) == [v |-> v, has |-> TRUE, ty |-> ty]
UV0(v) == [v |-> v, has |-> FALSE]
\* a leaf whose values are given as EXPRESSIONS (references to the globals below, ...): name = its shape, ast = its Sylt type,
\* flags \subseteq {"ord", "add", "num", "nan"}: which operator classes the property names for it / it contains an IEEE NaN
LeafT(name, ast, es, flags) == [k |-> "tleaf", name |-> name, ast |-> ast, es |-> es, flags |-> flags]
\* string LITERALS with escape sequences: all sequences of at most max atoms (pieces of source text); see Denote below
EscT(atoms, max) == [k |-> "tesc", atoms |-> atoms, max |-> max]

---------------------------------------------------------------------------
(* GLOBALS every generated program declares and the universe refers to by binder id.                                    *)
(* Three functions (two of them with the same text, so "same function" means the same OBJECT, not the same code): a      *)
(* function is a value, equal to itself only - a blob / tuple / list / variant holding `inc` differs from one holding     *)
(* `dec` or `inc_too`.  Two IEEE constants the dyadic model cannot compute but SyltValues has (fx): the program text      *)
(* says `0.0 / 0.0` and `1.0 / 0.0`, the specification binds the names to NaN and +infinity.                              *)
GInc == 701  GDec == 702  GIncToo == 703  GNan == 704  GInf == 705
FnIntInt(p, op) == Fn(<<P(p, TInt)>>, TInt, <<Ex(Bin(op, V(p), I(1)))>>)
Globals == << [b |-> GInc, n |-> "inc", ty |-> TNone, e |-> FnIntInt(711, "+"), v |-> CloV(FnIntInt(711, "+"), 0)],
              [b |-> GDec, n |-> "dec", ty |-> TNone, e |-> FnIntInt(712, "-"), v |-> CloV(FnIntInt(712, "-"), 0)],
              [b |-> GIncToo, n |-> "inc_too", ty |-> TNone, e |-> FnIntInt(713, "+"), v |-> CloV(FnIntInt(713, "+"), 0)],
              [b |-> GNan, n |-> "qnan", ty |-> TFloat, e |-> Bin("/", Fl(0, 0), Fl(0, 0)), v |-> FxV("nan")],
              [b |-> GInf, n |-> "pinf", ty |-> TFloat, e |-> Bin("/", Fl(1, 0), Fl(0, 0)), v |-> FxV("inf")] >>
GlobalDecls == [i \in 1..Len(Globals) |-> DefN(Globals[i].b, "const", Globals[i].ty, Globals[i].e, Globals[i].n)]

---------------------------------------------------------------------------
(* STRING LITERALS.  Sylt hands the text between the quotes to Lua as it is; what a literal DENOTES is a sequence of      *)
(* bytes, by the lexical rules of Lua 5.3: \n \t \\ ..., \ddd (up to three decimal digits, greedy), \xhh, \z (skips the  *)
(* white space that follows), \u{h..} (UTF-8).  String values of this universe are byte sequences (SyltValues only        *)
(* compares and concatenates the v of a str), so `+` is concatenation OF THE DENOTATIONS - never of the source texts.     *)
DigVal == ("0" :> 0) @@ ("1" :> 1) @@ ("2" :> 2) @@ ("3" :> 3) @@ ("4" :> 4) @@ ("5" :> 5) @@ ("6" :> 6) @@ ("7" :> 7)
          @@ ("8" :> 8) @@ ("9" :> 9)
HexVal == DigVal @@ ("a" :> 10) @@ ("b" :> 11) @@ ("c" :> 12) @@ ("d" :> 13) @@ ("e" :> 14) @@ ("f" :> 15)
                 @@ ("A" :> 10) @@ ("B" :> 11) @@ ("C" :> 12) @@ ("D" :> 13) @@ ("E" :> 14) @@ ("F" :> 15)
SimpleEsc == ("a" :> 7) @@ ("b" :> 8) @@ ("t" :> 9) @@ ("n" :> 10) @@ ("v" :> 11) @@ ("f" :> 12) @@ ("r" :> 13) @@ ("\\" :> 92)
\* the characters that stand for themselves in the literals of this universe
PlainCode == (" " :> 32) @@ ("3" :> 51) @@ ("5" :> 53) @@ ("A" :> 65) @@ ("a" :> 97) @@ ("b" :> 98) @@ ("n" :> 110)
             @@ ("x" :> 120) @@ ("z" :> 122) @@ ("<" :> 60) @@ (">" :> 62)
Ch(s, i) == SubSeq(s, i, i)
BadLit == [ok |-> FALSE, v |-> <<>>]
Utf8(cp) == IF cp < 128 THEN <<cp>> ELSE <<192 + (cp \div 64), 128 + (cp % 64)>>
RECURSIVE Den(_, _, _), HexRun(_, _, _)
\* value of the hexadecimal digits s[i..] up to (not including) the `}` : [ok, n, next]
HexRun(s, i, n) == IF i > Len(s) THEN [ok |-> FALSE, n |-> 0, next |-> i]
                   ELSE IF Ch(s, i) = "}" THEN [ok |-> TRUE, n |-> n, next |-> i + 1]
                   ELSE IF Ch(s, i) \in DOMAIN HexVal /\ n < 128 THEN HexRun(s, i + 1, n * 16 + HexVal[Ch(s, i)])
                   ELSE [ok |-> FALSE, n |-> 0, next |-> i]
Den(s, i, acc) ==
  IF i > Len(s) THEN [ok |-> TRUE, v |-> acc]
  ELSE LET c == Ch(s, i) IN
    IF c # "\\" THEN (IF c \in DOMAIN PlainCode THEN Den(s, i + 1, Append(acc, PlainCode[c])) ELSE BadLit)
    ELSE IF i = Len(s) THEN BadLit
    ELSE LET e == Ch(s, i + 1)
             dig(j) == j <= Len(s) /\ Ch(s, j) \in DOMAIN DigVal
             hex(j) == j <= Len(s) /\ Ch(s, j) \in DOMAIN HexVal IN
      IF e \in DOMAIN SimpleEsc THEN Den(s, i + 2, Append(acc, SimpleEsc[e]))
      ELSE IF dig(i + 1)
        THEN LET n == IF dig(i + 2) THEN (IF dig(i + 3) THEN 3 ELSE 2) ELSE 1
                 val == IF n = 1 THEN DigVal[Ch(s, i + 1)]
                        ELSE IF n = 2 THEN DigVal[Ch(s, i + 1)] * 10 + DigVal[Ch(s, i + 2)]
                        ELSE DigVal[Ch(s, i + 1)] * 100 + DigVal[Ch(s, i + 2)] * 10 + DigVal[Ch(s, i + 3)] IN
             IF val > 255 THEN BadLit ELSE Den(s, i + 1 + n, Append(acc, val))
      ELSE IF e = "x" THEN (IF hex(i + 2) /\ hex(i + 3)
                            THEN Den(s, i + 4, Append(acc, HexVal[Ch(s, i + 2)] * 16 + HexVal[Ch(s, i + 3)])) ELSE BadLit)
      ELSE IF e = "z" THEN LET RECURSIVE Skip(_)
                               Skip(j) == IF j <= Len(s) /\ Ch(s, j) = " " THEN Skip(j + 1) ELSE j
                           IN Den(s, Skip(i + 2), acc)
      ELSE IF e = "u" THEN (IF i + 2 <= Len(s) /\ Ch(s, i + 2) = "{"
                            THEN LET h == HexRun(s, i + 3, 0) IN
                                 IF h.ok /\ h.next > i + 4 THEN Den(s, h.next, acc \o Utf8(h.n)) ELSE BadLit
                            ELSE BadLit)
      ELSE BadLit
Denote(src) == Den(src, 1, <<>>)
\* the literal with source text src: SyltSem sees a str node whose v is the denotation; the replayer writes src
EscLit(src) == [k |-> "str", v |-> Denote(src).v, src |-> src]

(* declarations every generated program starts with *)
Decls ==<< BlobD("A", <<FD("x", TInt)>>),
            BlobD("B", <<FD("p", TTuple(<<TInt, TStr>>)), FD("q", TList(TInt))>>),
            EnumD("E", <<VD0("N"), VD1("I", TInt), VD1("T", TTuple(<<TInt, TStr>>)), VD1("L", TList(TInt))>>),
            BlobD("C", <<FD("a", TName("A")), FD("e", TName("E"))>>),
            \* a blob with a FUNCTION-valued field, inside an enum payload and inside another blob
            BlobD("F", <<FD("w", TInt), FD("f", TFn(<<TInt>>, TInt))>>),
            EnumD("W", <<VD1("Wrap", TName("F")), VD0("Empty")>>),
            BlobD("G", <<FD("a", TName("F")), FD("k", TInt)>>),
            \* fields / payloads of the remaining scalar types (a false, an empty string, a 0.0 are values like any other)
            BlobD("K", <<FD("b", TBool), FD("s", TStr), FD("r", TFloat)>>),
            EnumD("V", <<VD1("B", TBool), VD1("S", TStr), VD1("R", TFloat), VD1("U", TTuple(<<>>))>>) >> \o GlobalDecls

---------------------------------------------------------------------------
(* size and index addressing: Nth(ty, i), i in 0..Count(ty)-1, lexicographic in the components *)
RECURSIVE Count(_), Nth(_, _)
RECURSIVE ProdCount(_, _)
ProdCount(tys, i) == IF i > Len(tys) THEN 1 ELSE Count(tys[i]) * ProdCount(tys, i + 1)
RECURSIVE PowSum(_, _)      \* 1 + c + ... + c^n
PowSum(c, n) == IF n = 0 THEN 1 ELSE 1 + c * PowSum(c, n - 1)
RECURSIVE Pow(_, _)
Pow(c, n) == IF n = 0 THEN 1 ELSE c * Pow(c, n - 1)

FieldTys(ty) == [i \in 1..Len(ty.fields) |-> ty.fields[i].ty]
VarCount(vr) == IF vr.has THEN Count(vr.ty) ELSE 1
RECURSIVE VarSum(_, _)
VarSum(vs, i) == IF i > Len(vs) THEN 0 ELSE VarCount(vs[i]) + VarSum(vs, i + 1)

Count(ty) ==
  CASE ty.k \in {"tint", "tfloat", "tstr"} -> Len(ty.vs)
    [] ty.k = "tbool" -> 2
    [] ty.k = "tleaf" -> Len(ty.es)
    [] ty.k = "tesc" -> PowSum(Len(ty.atoms), ty.max)
    [] ty.k = "ttuple" -> ProdCount(ty.es, 1)
    [] ty.k = "tlist" -> PowSum(Count(ty.e), ty.max)
    [] ty.k = "tname" -> IF ty.kind = "blob" THEN ProdCount(FieldTys(ty), 1) ELSE VarSum(ty.variants, 1)

\* the i-th element (0-based) of the product of tys[j..], as a sequence of expressions
RECURSIVE NthProd(_, _, _)
NthProd(tys, j, i) ==
  IF j > Len(tys) THEN <<>>
  ELSE LET rest == ProdCount(tys, j + 1) IN <<Nth(tys[j], i \div rest)>> \o NthProd(tys, j + 1, i % rest)

\* list of length n over element type e, index i in 0..c^n-1
RECURSIVE NthSeq(_, _, _)
NthSeq(e, n, i) == IF n = 0 THEN <<>>
                   ELSE LET rest == Pow(Count(e), n - 1) IN <<Nth(e, i \div rest)>> \o NthSeq(e, n - 1, i % rest)
RECURSIVE NthList(_, _, _)      \* shorter lists first
NthList(ty, n, i) == LET here == Pow(Count(ty.e), n) IN
                     IF i < here THEN Lst(NthSeq(ty.e, n, i)) ELSE NthList(ty, n + 1, i - here)
RECURSIVE NthVariant(_, _, _)
NthVariant(ty, j, i) == LET vr == ty.variants[j]  c == VarCount(vr) IN
                        IF i < c THEN (IF vr.has THEN Var1(ty.n, vr.v, Nth(vr.ty, i)) ELSE Var0(ty.n, vr.v))
                        ELSE NthVariant(ty, j + 1, i - c)

\* source text of the i-th sequence of n atoms; shorter literals first
RECURSIVE EscSrc(_, _, _), NthEsc(_, _, _)
EscSrc(ty, n, i) == IF n = 0 THEN ""
                    ELSE LET rest == Pow(Len(ty.atoms), n - 1) IN ty.atoms[(i \div rest) + 1] \o EscSrc(ty, n - 1, i % rest)
NthEsc(ty, n, i) == LET here == Pow(Len(ty.atoms), n) IN
                    IF i < here THEN EscLit(EscSrc(ty, n, i)) ELSE NthEsc(ty, n + 1, i - here)

Nth(ty, i) ==
  CASE ty.k = "tint" -> I(ty.vs[i + 1])
    [] ty.k = "tleaf" -> ty.es[i + 1]
    [] ty.k = "tesc" -> NthEsc(ty, 0, i)
    [] ty.k = "tfloat" -> Fl(ty.vs[i + 1][1], ty.vs[i + 1][2])
    [] ty.k = "tstr" -> St(ty.vs[i + 1])
    [] ty.k = "tbool" -> Bo(i = 1)
    [] ty.k = "ttuple" -> Tup(NthProd(ty.es, 1, i))
    [] ty.k = "tlist" -> NthList(ty, 0, i)
    [] ty.k = "tname" ->
         IF ty.kind = "blob"
         THEN LET es == NthProd(FieldTys(ty), 1, i) IN
              BlobL(ty.n, [j \in 1..Len(ty.fields) |-> FI(ty.fields[j].f, es[j])])
         ELSE NthVariant(ty, 1, i)

---------------------------------------------------------------------------
(* classification of types: which operators the property speaks about *)
\* leaf decorations: noarith - extreme numbers, only compared (their spec values are ALIASES, see BigI); noord - strings whose
\* order the model does not define (CharCode knows a few letters only), only == != and +
NoArith(ty) == "noarith" \in DOMAIN ty
NoOrd(ty) == "noord" \in DOMAIN ty
RECURSIVE Ordered(_), Numeric(_), Addable(_), HasBlob(_)
Ordered(ty) == CASE ty.k \in {"tint", "tfloat"} -> TRUE
                 [] ty.k = "tstr" -> ~NoOrd(ty)
                 [] ty.k = "tleaf" -> "ord" \in ty.flags
                 [] ty.k = "ttuple" -> \A i \in 1..Len(ty.es) : Ordered(ty.es[i])
                 [] OTHER -> FALSE
Numeric(ty) == CASE ty.k \in {"tint", "tfloat"} -> ~NoArith(ty)
                 [] ty.k = "tleaf" -> "num" \in ty.flags
                 [] ty.k = "ttuple" -> \A i \in 1..Len(ty.es) : Numeric(ty.es[i])
                 [] OTHER -> FALSE
Addable(ty) == CASE ty.k \in {"tint", "tfloat"} -> ~NoArith(ty)
                 [] ty.k \in {"tstr", "tesc"} -> TRUE
                 [] ty.k = "tleaf" -> "add" \in ty.flags
                 [] ty.k = "ttuple" -> \A i \in 1..Len(ty.es) : Addable(ty.es[i])
                 [] OTHER -> FALSE
HasBlob(ty) == CASE ty.k = "ttuple" -> \E i \in 1..Len(ty.es) : HasBlob(ty.es[i])
                 [] ty.k = "tlist" -> HasBlob(ty.e)
                 [] ty.k = "tname" -> IF ty.kind = "blob" THEN TRUE
                                      ELSE \E i \in 1..Len(ty.variants) : ty.variants[i].has /\ HasBlob(ty.variants[i].ty)
                 [] OTHER -> FALSE

\* the type has a leaf that holds an IEEE NaN: the laws that IEEE itself exempts NaN from are not demanded of it
RECURSIVE HasNan(_)
HasNan(ty) == CASE ty.k = "tleaf" -> "nan" \in ty.flags
                [] ty.k = "ttuple" -> \E i \in 1..Len(ty.es) : HasNan(ty.es[i])
                [] ty.k = "tlist" -> HasNan(ty.e)
                [] OTHER -> FALSE
\* a literal without the way it is written: two literals denote the same value iff these are the same
RECURSIVE Strip(_)
Strip(e) == CASE e.k = "str" -> St(e.v)
              [] e.k \in {"tuple", "list"} -> [e EXCEPT !.es = [i \in 1..Len(e.es) |-> Strip(e.es[i])]]
              [] e.k = "blob" -> [e EXCEPT !.fields = [i \in 1..Len(e.fields) |-> FI(e.fields[i].f, Strip(e.fields[i].e))]]
              [] e.k = "variant" -> (IF e.has THEN [e EXCEPT !.e = Strip(e.e)] ELSE e)
              [] OTHER -> e
\* byte strings are OBSERVED through as_chars (the list of their byte values): control characters never reach the output
IsBytes(ty) == ty.k = "tesc"
Observe(ty, op, e) == IF IsBytes(ty) /\ op = "+" THEN Call(Std("as_chars"), <<e>>) ELSE e
ObserveSnap(ty, op, snap) == IF IsBytes(ty) /\ op = "+" /\ snap.k = "str"
                             THEN [k |-> "list", es |-> [i \in 1..Len(snap.v) |-> IntV(snap.v[i])]] ELSE snap

EqOps  == <<"==", "!=">>
OrdOps == <<"<", "<=", ">", ">=">>
OpsFor(ty) == EqOps \o (IF Ordered(ty) THEN OrdOps ELSE <<>>)
                    \o (IF Addable(ty) THEN <<"+">> ELSE <<>>)
                    \o (IF Numeric(ty) THEN <<"-", "*", "/">> ELSE <<>>)

RECURSIVE Shape(_), JoinShapes(_, _)
JoinShapes(tys, i) == IF i > Len(tys) THEN ""
                      ELSE Shape(tys[i]) \o (IF i < Len(tys) THEN "," ELSE "") \o JoinShapes(tys, i + 1)
Shape(ty) == CASE ty.k = "tint" -> (IF NoArith(ty) THEN "bigint" ELSE "int")
               [] ty.k = "tfloat" -> (IF NoArith(ty) THEN "bigfloat" ELSE "float")
               [] ty.k = "tstr" -> (IF NoOrd(ty) THEN "numstr" ELSE "str")
               [] ty.k = "tbool" -> "bool"
               [] ty.k = "tleaf" -> ty.name
               [] ty.k = "tesc" -> "escstr"
               [] ty.k = "ttuple" -> "tuple(" \o JoinShapes(ty.es, 1) \o ")"
               [] ty.k = "tlist" -> "list(" \o Shape(ty.e) \o ")"
               [] ty.k = "tname" -> ty.kind \o "(" \o ty.n \o ")"

(* relation of two operand expressions of one type, from their structure *)
Kids(e) == CASE e.k \in {"tuple", "list"} -> e.es
             [] e.k = "blob" -> [i \in 1..Len(e.fields) |-> e.fields[i].e]
             [] e.k = "str" -> [i \in 1..Len(e.v) |-> St(SubSeq(e.v, i, i))]
             [] OTHER -> <<>>
Min2(a, b) == IF a < b THEN a ELSE b
Rel(a, b) ==
  IF a = b THEN "equal"
  ELSE IF a.k = "str" /\ a.v = b.v THEN "same-value"          \* two spellings of one string
  ELSE IF a.k = "variant" THEN (IF a.v # b.v THEN "differ-at-first" ELSE "differ-at-last")
  ELSE LET x == Kids(a)  y == Kids(b) IN
    IF Len(x) = 0 /\ Len(y) = 0 THEN "differ-at-first"
    ELSE IF Len(x) # Len(y)
      THEN LET m == Min2(Len(x), Len(y)) IN
           IF \A i \in 1..m : x[i] = y[i] THEN "prefix" ELSE "different-length"
      ELSE LET i == CHOOSE i \in 1..Len(x) : x[i] # y[i] /\ \A j \in 1..(i - 1) : x[j] = y[j] IN
           IF i = 1 THEN "differ-at-first" ELSE IF i = Len(x) THEN "differ-at-last" ELSE "differ-at-middle"

---------------------------------------------------------------------------
(* expected results: the dynamic semantics applied to the operand values *)
\* the start state: the globals are bound (functions to their closures over the global frame, as InitTop does)
S0 == [NewState(200) EXCEPT !.glob = (Globals[1].b :> Globals[1].v) @@ (Globals[2].b :> Globals[2].v) @@ (Globals[3].b :> Globals[3].v)
                                     @@ (Globals[4].b :> Globals[4].v) @@ (Globals[5].b :> Globals[5].v)]
EvalAll(es) == EvalList(es, 1, 0, S0, <<>>)          \* all in one heap, left to right
Snap(r) == Render(r.v, r.s.heap, 8)
IsStuck(why) == Len(why) >= 5 /\ SubSeq(why, 1, 5) = "stuck"

\* IEEE negative zero (0 / -1, 0.0 * -1.0, -(0.0)) is outside the dyadic model: such items are dropped, never judged
IsZeroNum(v) == IsNum(v) /\ AsF(v)[1] = 0
IsNegNum(v) == IsNum(v) /\ AsF(v)[1] < 0
RECURSIVE NegZeroRisk(_, _, _)
NegZeroRisk(op, a, b) ==
  IF IsNum(a) /\ IsNum(b)
  THEN \/ op = "/" /\ IsZeroNum(a) /\ IsNegNum(b)
       \/ op = "*" /\ (a.k = "float" \/ b.k = "float") /\ ((IsZeroNum(a) /\ IsNegNum(b)) \/ (IsZeroNum(b) /\ IsNegNum(a)))
  ELSE IF a.k = "tuple" /\ b.k = "tuple" /\ Len(a.es) = Len(b.es)
    THEN \E i \in 1..Len(a.es) : NegZeroRisk(op, a.es[i], b.es[i])
  ELSE IF a.k = "tuple" /\ IsNum(b) THEN \E i \in 1..Len(a.es) : NegZeroRisk(op, a.es[i], b)
  ELSE FALSE
RECURSIVE HasFloatZero(_)
HasFloatZero(v) == CASE v.k = "float" -> v.n = 0
                     [] v.k = "tuple" -> \E i \in 1..Len(v.es) : HasFloatZero(v.es[i])
                     [] OTHER -> FALSE

\* one operator application on evaluated operands: [ok, stuck, item]
Apply1(op, shape, rel, form, e, va, vb, S) ==
  LET x == ApplyBin(op, va, vb, S) IN
  [ok |-> x.sig = "ok" /\ ~NegZeroRisk(op, va, vb),
   stuck |-> x.sig # "ok" /\ IsStuck(x.s.status),
   item |-> [op |-> op, shape |-> shape, rel |-> rel, form |-> form, e |-> e,
             want |-> IF x.sig = "ok" THEN Snap(x) ELSE NilV]]

\* every operator of the type on the pair (ea, eb)
PairApps(ty, ea, eb, va, vb, S) ==
  LET ops == OpsFor(ty)  sh == Shape(ty)  rel == Rel(ea, eb) IN
  [i \in 1..Len(ops) |-> LET ap == Apply1(ops[i], sh, rel, "lit", Bin(ops[i], ea, eb), va, vb, S) IN
                         [ap EXCEPT !.item.e = Observe(ty, ops[i], @), !.item.want = ObserveSnap(ty, ops[i], @)]]

---------------------------------------------------------------------------
(* the laws of the property, on one pair *)

\* Negative control of the laws themselves: MC_Composite overrides Fault (CONSTANT Fault <- MCFault); with a fault the
\* operators the LAWS see are deliberately wrong on tuples and NoLawViolated must fail.  The expected values that are
\* emitted for replay never go through LawBin.
Fault == "none"
DropLast(v) == TupleV(SubSeq(v.es, 1, Len(v.es) - 1))
LawBin(op, x, y, S) ==
  IF Fault = "lt-first-only" /\ op = "<" /\ x.k = "tuple" /\ y.k = "tuple" /\ Len(x.es) > 1
    THEN ApplyBin("<", x.es[1], y.es[1], S)
  ELSE IF Fault = "eq-ignores-last" /\ op = "==" /\ x.k = "tuple" /\ y.k = "tuple" /\ Len(x.es) > 1
    THEN ApplyBin("==", DropLast(x), DropLast(y), S)
  ELSE IF Fault = "sub-swapped" /\ op = "-" /\ x.k = "tuple" /\ y.k = "tuple"
    THEN ApplyBin("-", y, x, S)
  ELSE ApplyBin(op, x, y, S)

BoolOf(op, x, y, S) == LET r == LawBin(op, x, y, S) IN r.sig = "ok" /\ r.v.k = "bool" /\ r.v.v
OkBool(op, x, y, S) == LET r == LawBin(op, x, y, S) IN r.sig = "ok" /\ r.v.k = "bool"
\* one evaluated law: its name and whether it held (MC_Composite reports the names evaluated and requires ok of all)
Law(c, name) == {[n |-> name, ok |-> c]}

EqLaws(ty, ea, eb, a, b, a2, S) ==
  LET eq == BoolOf("==", a, b, S) IN
       Law(OkBool("==", a, b, S) /\ OkBool("!=", a, b, S), "eq-total")
  \cup Law(eq = BoolOf("==", b, a, S), "symmetric")
  \cup Law(BoolOf("!=", a, b, S) = ~eq, "complement")
  \cup (IF HasNan(ty) THEN {}                                        \* IEEE: NaN is not equal to itself
        ELSE Law(BoolOf("==", a, a2, S), "reflexive")                \* a2: a second evaluation of the same expression
             \* distinct literals of the universe denote distinct values - up to the spelling of a string
             \cup Law(eq = (Strip(ea) = Strip(eb)), "eq-iff-same-literal"))

OrdLaws(ty, a, b, S) ==
  LET eq == BoolOf("==", a, b, S)  lt == BoolOf("<", a, b, S)  le == BoolOf("<=", a, b, S)
      gt == BoolOf(">", a, b, S)   ge == BoolOf(">=", a, b, S) IN
       Law(\A op \in {"<", "<=", ">", ">="} : OkBool(op, a, b, S), "order-total")
  \cup Law(le = (lt \/ eq), "le-is-lt-or-eq")
  \cup Law(ge = (gt \/ eq), "ge-is-gt-or-eq")
  \cup (IF HasNan(ty) THEN Law(~(lt /\ gt) /\ ~(lt /\ eq) /\ ~(gt /\ eq), "at-most-one-of-lt-eq-gt")        \* IEEE: NaN is unordered
        ELSE Law((lt /\ ~eq /\ ~gt) \/ (~lt /\ eq /\ ~gt) \/ (~lt /\ ~eq /\ gt), "trichotomy"))
  \cup Law(gt = BoolOf("<", b, a, S), "gt-is-flipped-lt")
  \cup Law(ge = BoolOf("<=", b, a, S), "ge-is-flipped-le")

\* tuples: the operator on the tuple agrees with the operator on the components
TupleLaws(ty, a, b, S) ==
  LET n == Len(a.es)
      eqi(i) == BoolOf("==", a.es[i], b.es[i], S)
      lti(i) == BoolOf("<", a.es[i], b.es[i], S)
      arith(op) == LET x == LawBin(op, a, b, S)
                       cs == [i \in 1..n |-> ApplyBin(op, a.es[i], b.es[i], S)] IN
                   IF \A i \in 1..n : cs[i].sig = "ok"
                   THEN x.sig = "ok" /\ x.v = TupleV([i \in 1..n |-> cs[i].v])
                   ELSE x.sig # "ok"
  IN   Law(BoolOf("==", a, b, S) = (\A i \in 1..n : eqi(i)), "eq-componentwise")
  \cup (IF Ordered(ty)
        THEN Law(BoolOf("<", a, b, S) = (\E i \in 1..n : lti(i) /\ \A j \in 1..(i - 1) : eqi(j)), "lt-lexicographic")
        ELSE {})
  \cup (IF Addable(ty) THEN Law(arith("+"), "add-componentwise") ELSE {})
  \cup (IF Numeric(ty) THEN Law(arith("-"), "sub-componentwise") \cup Law(arith("*"), "mul-componentwise")
                            \cup Law(arith("/"), "div-componentwise") ELSE {})

PairLaws(ty, ea, eb, a, b, a2, S) ==
  EqLaws(ty, ea, eb, a, b, a2, S)
  \cup (IF Ordered(ty) THEN OrdLaws(ty, a, b, S) ELSE {})
  \cup (IF ty.k = "ttuple" THEN TupleLaws(ty, a, b, S) ELSE {})

\* one pair: its operator applications and the set of laws it violates
Pair(ty, i, j) ==
  LET ea == Nth(ty, i)  eb == Nth(ty, j)
      r == EvalAll(<<ea, eb, ea>>)
      a == r.v.es[1]  b == r.v.es[2]  a2 == r.v.es[3] IN
  [apps |-> PairApps(ty, ea, eb, a, b, r.s), laws |-> PairLaws(ty, ea, eb, a, b, a2, r.s)]

(* transitivity, on all triples of a (small) type *)
TransViolations(ty) ==
  LET n == Count(ty)
      r == EvalAll([i \in 1..n |-> Nth(ty, i - 1)])
      v == r.v.es  S == r.s
      eq == [i \in 1..n |-> [j \in 1..n |-> BoolOf("==", v[i], v[j], S)]]
      lt == IF Ordered(ty) THEN [i \in 1..n |-> [j \in 1..n |-> BoolOf("<", v[i], v[j], S)]]
            ELSE [i \in 1..n |-> [j \in 1..n |-> FALSE]]
  IN   Law(\A i, j, k \in 1..n : eq[i][j] /\ eq[j][k] => eq[i][k], "eq-transitive")
  \cup Law(\A i, j, k \in 1..n : lt[i][j] /\ lt[j][k] => lt[i][k], "lt-transitive")
  \cup Law(\A i, j, k \in 1..n : lt[i][j] /\ eq[j][k] => lt[i][k], "lt-respects-eq")
  \cup Law(\A i \in 1..n : ~lt[i][i], "lt-irreflexive")

---------------------------------------------------------------------------
(* unary minus *)
RECURSIVE IsZeroV(_)
IsZeroV(v) == IF IsNum(v) THEN IsZeroNum(v) ELSE v.k = "tuple" /\ \A i \in 1..Len(v.es) : IsZeroV(v.es[i])

NegApp(ty, i) ==
  LET ea == Nth(ty, i)
      r == EvalE(ea, 0, S0)
      v == Negate(r.v)
      back == Negate(v)
      sum == Arith("+", r.v, v) IN
  [ok |-> ~IsErr(v) /\ ~HasFloatZero(r.v),
   stuck |-> IsErr(v),
   item |-> [op |-> "neg", shape |-> Shape(ty), rel |-> "unary", form |-> "lit", e |-> Un("-", ea),
             want |-> IF IsErr(v) THEN NilV ELSE Render(v, r.s.heap, 8)],
   laws |-> IF IsErr(v) THEN Law(FALSE, "neg-total")
            ELSE Law(back = r.v, "neg-involutive") \cup Law(~IsErr(sum) /\ IsZeroV(sum), "neg-is-additive-inverse")
                 \cup (IF r.v.k = "tuple"
                       THEN Law(v = TupleV([k \in 1..Len(r.v.es) |-> Negate(r.v.es[k])]), "neg-componentwise") ELSE {})]

(* tuple / number *)
Divisors == <<I(1), I(0 - 1), I(2), Fl(1, 1), Fl(0 - 2, 0)>>
DivShape(ty, d) == Shape(ty) \o "/" \o (IF d.k = "int" THEN "int" ELSE "float")
DivNApp(ty, i, d) ==
  LET ea == Nth(ty, i)  ed == Divisors[d]
      r == EvalAll(<<ea, ed>>)
      a == r.v.es[1]  n == r.v.es[2]
      x == ApplyBin("/", a, n, r.s)
      cs == [k \in 1..Len(a.es) |-> ApplyBin("/", a.es[k], n, r.s)]
      ap == Apply1("/", DivShape(ty, ed), "by-number", "lit", Bin("/", ea, ed), a, n, r.s) IN
  [ok |-> ap.ok, stuck |-> ap.stuck, item |-> ap.item,
   laws |-> Law(IF \A k \in 1..Len(cs) : cs[k].sig = "ok"
               THEN x.sig = "ok" /\ x.v = TupleV([k \in 1..Len(cs) |-> cs[k].v])
               ELSE x.sig # "ok", "div-by-number-componentwise")]

---------------------------------------------------------------------------
(* the type table: [ty, qs] - qs = stride of the pair enumeration in the quick tier (coprime to Count(ty)) *)
Int4 == IntT(<<0, 1, 0 - 1, 2>>)
Int3 == IntT(<<0, 1, 0 - 1>>)
Int2 == IntT(<<0, 1>>)
IntL == IntT(<<0, 1, 2>>)
Fl3  == FloatT(<< <<1, 1>>, <<3, 1>>, <<0 - 2, 0>> >>)        \* 0.5, 1.5, -2.0
Fl2  == FloatT(<< <<1, 1>>, <<0 - 2, 0>> >>)
Str4 == StrT(<<"", "a", "ab", "b">>)
Str3 == StrT(<<"", "a", "ab">>)
Str2 == StrT(<<"a", "b">>)
StrS == StrT(<<"", "a">>)
TIS  == TupT(<<Int2, Str2>>)
BlobA(it) == BlobT("A", <<[f |-> "x", ty |-> it]>>)
BlobB == BlobT("B", <<[f |-> "p", ty |-> TIS], [f |-> "q", ty |-> ListT(Int2, 2)]>>)
EnumE == EnumT("E", <<UV0("N"), UV1("I", Int4), UV1("T", TIS), UV1("L", ListT(Int2, 1))>>)
EnumS == EnumT("E", <<UV0("N"), UV1("I", Int2), UV1("T", TupT(<<Int2, StrT(<<"a">>)>>))>>)
BlobC == BlobT("C", <<[f |-> "a", ty |-> BlobA(Int2)], [f |-> "e", ty |-> EnumS]>>)
TE(ty, qs) == [ty |-> ty, qs |-> qs]

(* Extreme numbers.  TLC has 32-bit integers and the order laws need no arithmetic, so the extremes are ALIASES: a spec  *)
(* number stands for a real literal, the replayer writes the real literal into the program (c19.rs, from the ALIAS      *)
(* record); the map is strictly increasing, so every comparison has the same answer on both sides.  Float leaves use     *)
(* only aliases whose real value is a float exactly.  No arithmetic is applied to these types (noarith).                 *)
Alias == << [spec |-> 0 - 950000, real |-> "-9223372036854775808"],     \* -2^63 (as a float only)
            [spec |-> 0 - 900000, real |-> "-9223372036854775807"],     \* min i64 + 1
            [spec |-> 800000, real |-> "9007199254740992"],             \* 2^53
            [spec |-> 800001, real |-> "9007199254740993"],             \* 2^53 + 1 (not a float)
            [spec |-> 800002, real |-> "9007199254740994"],             \* 2^53 + 2
            [spec |-> 900000, real |-> "9223372036854775807"],          \* max i64
            [spec |-> 950000, real |-> "9223372036854775808"] >>        \* 2^63 (as a float only)
BigI == [k |-> "tint", vs |-> <<0 - 900000, 0 - 1, 0, 1, 800000, 800001, 900000>>, noarith |-> TRUE]
BigF == [k |-> "tfloat", vs |-> << <<0 - 950000, 0>>, <<0 - 1, 0>>, <<1, 1>>, <<800000, 0>>, <<800002, 0>>, <<950000, 0>> >>, noarith |-> TRUE]
(* strings that LOOK LIKE NUMBERS to Lua's tonumber (and some that almost do): `+` must still concatenate *)
NumStr  == [k |-> "tstr", vs |-> <<"1", "0x10", "1e2", " 7 ", "-3", ".5", "inf", "nan", "", "a">>, noord |-> TRUE]
NumStr5 == [k |-> "tstr", vs |-> <<"1", "0x10", " 7 ", ".5", "a">>, noord |-> TRUE]

(* FUNCTIONS AS FIELD VALUES.  A function is a value that is equal to itself only: the leaf holds references to the three   *)
(* global functions (inc, dec, inc_too - the last with the text of the first).  Blob F {w: int, f: fn int -> int}: same /   *)
(* different function object x equal / different data; and F inside a tuple, a list, an enum payload, another blob.        *)
FnRef == LeafT("fn", TFn(<<TInt>>, TInt), <<V(GInc), V(GDec), V(GIncToo)>>, {})
BlobF == BlobT("F", <<[f |-> "w", ty |-> Int2], [f |-> "f", ty |-> FnRef]>>)
EnumW == EnumT("W", <<UV1("Wrap", BlobF), UV0("Empty")>>)
BlobG == BlobT("G", <<[f |-> "a", ty |-> BlobF], [f |-> "k", ty |-> Int2]>>)
(* TUPLES OF EVERY WIDTH, 0 included: the unit tuple () alone, as a component (first, last, only), in a list.  It is ordered *)
(* (() < () is false, () <= () true), numeric and addable like every tuple whose components are.                            *)
Unit == TupT(<<>>)
(* IEEE VALUES AS COMPONENTS: NaN (equal to nothing, unordered), +-infinity.  Compared only (no arithmetic: how NaN prints   *)
(* is not fixed); HasNan types are exempt from reflexivity and trichotomy, every other law stands.                           *)
FlX == LeafT("floatx", TFloat, <<V(GNan), Un("-", V(GInf)), Fl(1, 1), V(GInf)>>, {"ord", "nan"})
(* STRING LITERALS WITH ESCAPES of every kind Sylt passes through to Lua, as sequences of at most two atoms: plain letters,  *)
(* a digit and a blank (which continue an open-ended escape when glued behind it), the letter n (an escape when glued        *)
(* behind a backslash), \\ \n, \6 \12 \065 (decimal, one to three digits), \x41, \z, \u{41} \u{e9}.                          *)
EscAtoms == <<"a", "5", " ", "n", "A", "\\\\", "\\n", "\\6", "\\12", "\\065", "\\x41", "\\z", "\\u{41}", "\\u{e9}">>
EscStr == EscT(EscAtoms, 2)                                                   \* 1 + 14 + 196 = 211 literals
EscS   == EscT(<<"\\6", "5", "\\z", " ", "a", "\\\\", "n">>, 1)                    \* 8 literals whose bytes can be printed
EscH   == EscT(<<"\\6", "5", "\\z", " ", "\\\\", "n", "\\12">>, 1)
EscQ   == EscT(<<"\\6", "5", "\\z", " ">>, 1)

TypeTable == <<
  TE(Int4, 1), TE(Fl3, 1), TE(Str4, 1), TE(BoolT, 1),
  TE(TupT(<<Int4>>), 1), TE(TupT(<<Int4, Int4>>), 1), TE(TupT(<<Int4, Int4, Int4>>), 5),
  TE(TupT(<<Fl3, Fl3>>), 1), TE(TupT(<<Int4, Fl3>>), 1),
  TE(TupT(<<Str4>>), 1), TE(TupT(<<Str4, Str4>>), 1), TE(TupT(<<Int4, Str4>>), 1),
  TE(TupT(<<Str3, Int3, Fl2>>), 1), TE(TupT(<<BoolT, Int3>>), 1),
  TE(ListT(IntL, 3), 3), TE(ListT(StrS, 2), 1), TE(ListT(Fl3, 2), 1), TE(ListT(TIS, 2), 1),
  TE(ListT(ListT(Int2, 2), 2), 5),
  TE(BlobA(Int4), 1), TE(BlobB, 3), TE(EnumE, 1),
  TE(TupT(<<TupT(<<Int3, Int3>>), TupT(<<Int3>>)>>), 2),
  TE(TupT(<<TupT(<<Int3, Int3>>), TupT(<<Int3, Int3>>)>>), 7),
  TE(TupT(<<TupT(<<Str2, Int3>>), Int3>>), 1),
  TE(TupT(<<TupT(<<Fl2, Fl2>>), Fl2>>), 1), TE(TupT(<<TupT(<<Str2, Str2>>), Str2>>), 1),
  TE(TupT(<<ListT(Int2, 2), Int3>>), 2), TE(TupT(<<EnumS, Int2>>), 1),
  TE(ListT(BlobA(Int2), 2), 1), TE(ListT(EnumS, 2), 2), TE(BlobC, 1),
  TE(BigI, 1), TE(BigF, 1), TE(TupT(<<BigI>>), 1), TE(TupT(<<BigI, Int2>>), 1), TE(TupT(<<Int2, BigI>>), 1), TE(TupT(<<BigF, Int2>>), 1),
  TE(TupT(<<TupT(<<BigI, Int2>>), Int2>>), 3), TE(ListT(BigI, 2), 7), TE(BlobA(BigI), 1),
  TE(NumStr, 1), TE(TupT(<<NumStr5, Int2>>), 1), TE(TupT(<<TupT(<<NumStr5>>), NumStr5>>), 3),
  \* function-valued fields
  TE(BlobF, 1), TE(TupT(<<BlobF, Int2>>), 1), TE(ListT(BlobF, 2), 5), TE(EnumW, 1), TE(BlobG, 1),
  TE(FnRef, 1), TE(TupT(<<FnRef, Int2>>), 1), TE(ListT(FnRef, 2), 1),
  TE(BlobT("K", <<[f |-> "b", ty |-> BoolT], [f |-> "s", ty |-> StrS], [f |-> "r", ty |-> FloatT(<< <<0, 0>>, <<1, 1>> >>)]>>), 1),
  TE(EnumT("V", <<UV1("B", BoolT), UV1("S", StrS), UV1("R", FloatT(<< <<0, 0>>, <<1, 1>> >>)), UV1("U", Unit)>>), 1), TE(ListT(BoolT, 2), 1),
  \* width 0
  TE(Unit, 1), TE(TupT(<<Unit>>), 1), TE(TupT(<<Int3, Unit>>), 1), TE(TupT(<<Unit, Str2>>), 1), TE(TupT(<<Unit, Unit>>), 1),
  TE(TupT(<<TupT(<<Int2, Unit>>), Fl2>>), 1), TE(TupT(<<Int2, Unit, Int2>>), 1), TE(ListT(Unit, 2), 1),
  \* NaN and the infinities as components
  TE(FlX, 1), TE(TupT(<<FlX>>), 1), TE(TupT(<<FlX, Int2>>), 1), TE(TupT(<<Int2, FlX>>), 1), TE(TupT(<<Int2, FlX, Int2>>), 3),
  TE(TupT(<<TupT(<<Int2, FlX>>), Int2>>), 3), TE(TupT(<<Unit, FlX>>), 1), TE(ListT(FlX, 2), 1),
  \* literals with escapes
  TE(EscStr, 37), TE(TupT(<<EscS, Int2>>), 1), TE(TupT(<<EscS, EscS>>), 7), TE(ListT(EscS, 2), 11) >>

(* numbers of different type (int against float) are still ONE order: ordering operators only, both ways round *)
MixTable == << [l |-> Int4, r |-> Fl3], [l |-> BigI, r |-> BigF],
               [l |-> TupT(<<BigI, Int2>>), r |-> TupT(<<BigF, Int2>>)], [l |-> TupT(<<Int2, BigI>>), r |-> TupT(<<Int2, BigF>>)] >>

(* depth-3 types, sampled by simulation in the thorough tier *)
DeepTable == <<
  TupT(<<TupT(<<TupT(<<Int3, Str2>>), Int3>>), TupT(<<Fl2, TupT(<<Int3>>)>>)>>),
  TupT(<<Int3, TupT(<<Int3, TupT(<<Int3, Int3>>)>>)>>),
  ListT(ListT(ListT(Int2, 2), 2), 2),
  ListT(TupT(<<TupT(<<Int2, Str2>>), ListT(Int2, 1)>>), 2),
  BlobT("C", <<[f |-> "a", ty |-> BlobA(Int4)], [f |-> "e", ty |-> EnumE]>>),
  TupT(<<EnumE, ListT(TIS, 1)>>),
  ListT(TupT(<<EnumS, BlobA(Int2)>>), 2) >>

---------------------------------------------------------------------------
(* mixed provenance: the same value built two ways must be == *)
TLI == TList(TInt)
Push(lty, init, es) == IIFE(lty, <<DefC(1, lty, init)>>
                                  \o (IF Len(es) = 0 THEN <<>> ELSE [i \in 1..Len(es) |-> Ex(Call(Std("list.push"), <<V(1), es[i]>>))])
                                  \o <<Ex(V(1))>>)
PushL(es) == Push(TLI, Lst(<<>>), es)
Inc == Pu(<<P(2, TInt)>>, TInt, <<Ex(Bin("+", V(2), I(1)))>>)
Pos == Pu(<<P(2, TInt)>>, TBool, <<Ex(Bin(">", V(2), I(0)))>>)
Big == Pu(<<P(2, TInt)>>, TBool, <<Ex(Bin(">", V(2), I(7)))>>)
TIStr == TTuple(<<TInt, TStr>>)
BLit(p, q) == BlobL("B", <<FI("p", p), FI("q", q)>>)
ALit(x) == BlobL("A", <<FI("x", x)>>)
PE(shape, form, l, r) == [shape |-> shape, form |-> form, l |-> l, r |-> r, ordered |-> FALSE]
PO(shape, form, l, r) == [shape |-> shape, form |-> form, l |-> l, r |-> r, ordered |-> TRUE]
Just(e) == Var1("Maybe", "Just", e)
None == Var0("Maybe", "None")

ProvTable == <<
  PE("list(int)", "push", PushL(<<I(1)>>), Lst(<<I(1)>>)),
  PE("list(int)", "push", PushL(<<I(1), I(2)>>), Lst(<<I(1), I(2)>>)),
  PE("list(int)", "push", PushL(<<I(1), I(2)>>), Lst(<<I(1)>>)),
  PE("list(int)", "push", PushL(<<I(1)>>), Lst(<<I(1), I(2)>>)),
  PE("list(int)", "pop", IIFE(TLI, <<DefC(1, TLI, Lst(<<I(1)>>)), Ex(Call(Std("list.pop"), <<V(1)>>)), Ex(V(1))>>), Lst(<<>>)),
  PE("list(int)", "map", Call(Std("map"), <<Lst(<<I(0), I(1)>>), Inc>>), Lst(<<I(1), I(2)>>)),
  PE("list(int)", "filter", Call(Std("filter"), <<Lst(<<I(0), I(1), I(2)>>), Pos>>), Lst(<<I(1), I(2)>>)),
  PE("list(int)", "filter", Call(Std("filter"), <<Lst(<<I(0), I(1)>>), Big>>), Lst(<<>>)),
  PE("list(list(int))", "push", Push(TList(TLI), Lst(<<>>), <<Lst(<<I(1)>>), Lst(<<>>)>>), Lst(<<Lst(<<I(1)>>), Lst(<<>>)>>)),
  PE("list(list(int))", "push", Push(TList(TLI), Lst(<<>>), <<PushL(<<I(1)>>)>>), Lst(<<Lst(<<I(1)>>)>>)),
  PE("list(tuple(int,str))", "map",
     Call(Std("map"), <<Lst(<<I(0), I(1)>>), Pu(<<P(2, TInt)>>, TIStr, <<Ex(Tup(<<V(2), St("a")>>))>>)>>),
     Lst(<<Tup(<<I(0), St("a")>>), Tup(<<I(1), St("a")>>)>>)),
  PO("tuple(int,int)", "arith", Bin("+", Tup(<<I(1), I(2)>>), Tup(<<I(0), I(1)>>)), Tup(<<I(1), I(3)>>)),
  PO("tuple(int,int)", "arith", Bin("*", Tup(<<I(1), I(2)>>), Tup(<<I(2), I(2)>>)), Tup(<<I(2), I(4)>>)),
  PO("tuple(int,int)", "arith", Bin("-", Tup(<<I(1), I(2)>>), Tup(<<I(0), I(1)>>)), Tup(<<I(1), I(2)>>)),
  PO("tuple(float,float)", "arith", Bin("/", Tup(<<I(1), I(2)>>), I(2)), Tup(<<Fl(1, 1), Fl(1, 0)>>)),
  PO("tuple(float,float)", "arith", Bin("/", Tup(<<I(1), I(2)>>), Tup(<<I(2), I(1)>>)), Tup(<<Fl(1, 1), Fl(2, 0)>>)),
  PO("tuple(tuple(int,int),tuple(int))", "arith",
     Bin("+", Tup(<<Tup(<<I(1), I(2)>>), Tup(<<I(3)>>)>>), Tup(<<Tup(<<I(0), I(0)>>), Tup(<<I(0)>>)>>)),
     Tup(<<Tup(<<I(1), I(2)>>), Tup(<<I(3)>>)>>)),
  PO("tuple(int,str)", "call", Call(Fn(<<P(2, TIStr)>>, TIStr, <<Ex(V(2))>>), <<Tup(<<I(1), St("a")>>)>>), Tup(<<I(1), St("a")>>)),
  PO("tuple(int,str)", "field", Fld(BLit(Tup(<<I(1), St("a")>>), Lst(<<I(0)>>)), "p"), Tup(<<I(1), St("a")>>)),
  PO("tuple(int,int)", "index", Idx(Tup(<<Tup(<<I(1), I(2)>>), I(3)>>), 0), Tup(<<I(1), I(2)>>)),
  PO("tuple(str,int)", "concat", Tup(<<Bin("+", St("a"), St("b")), I(1)>>), Tup(<<St("ab"), I(1)>>)),
  PO("str", "concat", Bin("+", St("a"), St("b")), St("ab")),
  PE("blob(A)", "assign", IIFE(TName("A"), <<DefC(1, TName("A"), ALit(I(0))), Asg("=", Fld(V(1), "x"), I(1)), Ex(V(1))>>), ALit(I(1))),
  PE("blob(B)", "push-field",
     IIFE(TName("B"), <<DefC(1, TName("B"), BLit(Tup(<<I(1), St("a")>>), Lst(<<>>))),
                        Ex(Call(Std("list.push"), <<Fld(V(1), "q"), I(1)>>)), Ex(V(1))>>),
     BLit(Tup(<<I(1), St("a")>>), Lst(<<I(1)>>))),
  PE("blob(B)", "computed-field", BLit(Tup(<<Bin("+", I(0), I(1)), Bin("+", St("a"), St(""))>>), PushL(<<I(1)>>)),
     BLit(Tup(<<I(1), St("a")>>), Lst(<<I(1)>>))),
  PE("enum(E)", "computed-payload", Var1("E", "I", Bin("+", I(0), I(1))), Var1("E", "I", I(1))),
  PE("enum(E)", "call", Call(Fn(<<P(2, TInt)>>, TName("E"), <<Ex(Var1("E", "I", V(2)))>>), <<I(1)>>), Var1("E", "I", I(1))),
  PE("enum(E)", "list-payload", Var1("E", "L", PushL(<<I(1)>>)), Var1("E", "L", Lst(<<I(1)>>))),
  PE("enum(E)", "tuple-payload", Var1("E", "T", Idx(Tup(<<Tup(<<I(1), St("a")>>), I(3)>>), 0)), Var1("E", "T", Tup(<<I(1), St("a")>>))),
  PE("enum(Maybe)", "list.get", Call(Std("list.get"), <<Lst(<<I(1)>>), I(0)>>), Just(I(1))),
  PE("enum(Maybe)", "list.get", Call(Std("list.get"), <<Lst(<<I(1)>>), I(0)>>), Just(I(2))),
  PE("enum(Maybe)", "list.get-none", Call(Std("list.get"), <<Lst(<<I(1)>>), I(5)>>), None),
  PE("enum(Maybe)", "list.find", Call(Std("list.find"), <<Lst(<<I(0), I(1)>>), Pos>>), Just(I(1))),
  PE("enum(Maybe)", "list.find-none", Call(Std("list.find"), <<Lst(<<I(0), I(1)>>), Big>>), None),
  PE("enum(Maybe)", "list.pop", Call(Std("list.pop"), <<Lst(<<I(1), I(2)>>)>>), Just(I(2))),
  PE("enum(Maybe)", "list.pop-none", Call(Std("list.pop"), <<Push(TLI, Lst(<<>>), <<>>)>>), None),
  PE("enum(Maybe)", "literal", Just(Tup(<<I(1), St("a")>>)), Just(Tup(<<I(1), St("a")>>))),
  PE("enum(Maybe)", "literal-none", None, None) >>

\* the same object on both sides (`v == v`), for one value of every table type
AliasExpr(op, e) == IIFE(TBool, <<DefC(1, TNone, e), Ex(Bin(op, V(1), V(1)))>>)

ProvOps(p) == IF p.ordered THEN EqOps \o OrdOps ELSE EqOps
\* items of provenance entry p: (l op r) for all ops, (r op l) for the equalities
ProvApps(p) ==
  LET q == EvalE(Bin("==", p.l, p.r), 0, S0)
      rel == IF q.sig = "ok" /\ q.v.k = "bool" /\ q.v.v THEN "equal" ELSE "differ"
      mk(op, l, r, form) == LET x == EvalE(Bin(op, l, r), 0, S0) IN
          [ok |-> x.sig = "ok", stuck |-> x.sig # "ok",
           item |-> [op |-> op, shape |-> p.shape, rel |-> rel, form |-> form, e |-> Bin(op, l, r),
                     want |-> IF x.sig = "ok" THEN Snap(x) ELSE NilV]]
      ops == ProvOps(p) IN
  [i \in 1..Len(ops) |-> mk(ops[i], p.l, p.r, p.form)] \o [i \in 1..2 |-> mk(EqOps[i], p.r, p.l, p.form \o "-flipped")]
ProvLaws(p) ==
  LET x == EvalE(Bin("==", p.l, p.r), 0, S0)  y == EvalE(Bin("==", p.r, p.l), 0, S0) IN
  Law(x.sig = "ok" /\ y.sig = "ok" /\ x.v = y.v, "symmetric-across-provenance")

AliasApps(ty) ==
  LET e == Nth(ty, Count(ty) - 1)
      ops == EqOps \o (IF Ordered(ty) THEN OrdOps ELSE <<>>)
      mk(op) == LET x == EvalE(AliasExpr(op, e), 0, S0) IN
          [ok |-> x.sig = "ok", stuck |-> x.sig # "ok",
           item |-> [op |-> op, shape |-> Shape(ty), rel |-> "equal", form |-> "alias", e |-> AliasExpr(op, e),
                     want |-> IF x.sig = "ok" THEN Snap(x) ELSE NilV]] IN
  [i \in 1..Len(ops) |-> mk(ops[i])]

---------------------------------------------------------------------------
SameResult(a, b) == a.sig = b.sig /\ (a.sig = "ok" => Snap(a) = Snap(b))

(* mixed int / float ordering: pair (i, j) of MixTable[m] *)
MixApp(m, i, j) ==
  LET tl == MixTable[m].l  tr == MixTable[m].r
      ea == Nth(tl, i)  eb == Nth(tr, j)
      r == EvalAll(<<ea, eb>>)
      a == r.v.es[1]  b == r.v.es[2]  S == r.s
      sh == Shape(tl) \o "~" \o Shape(tr)
      lt == BoolOf("<", a, b, S)  le == BoolOf("<=", a, b, S)  gt == BoolOf(">", a, b, S)  ge == BoolOf(">=", a, b, S)
      one(op, x, y, ex, ey, form) == Apply1(op, sh, "mixed", form, Bin(op, ex, ey), x, y, S) IN
  [apps |-> [n \in 1..4 |-> one(OrdOps[n], a, b, ea, eb, "lit")] \o [n \in 1..4 |-> one(OrdOps[n], b, a, eb, ea, "lit-flipped")],
   laws |-> Law(\A op \in {"<", "<=", ">", ">="} : OkBool(op, a, b, S) /\ OkBool(op, b, a, S), "mixed-order-total")
            \cup Law((lt = ~ge) /\ (gt = ~le) /\ (lt => le) /\ ~(lt /\ gt), "mixed-order-consistent")
            \cup Law(gt = BoolOf("<", b, a, S) /\ ge = BoolOf("<=", b, a, S), "mixed-order-flips")]

(* compound assignment is the operator: `v op= e` on a variable, on a tuple variable, on a blob field *)
CaTIS == TTuple(<<TInt, TStr>>)
CaStrForms(s, t) == <<
  [form |-> "plus-assign-var", shape |-> "numstr", op |-> "+", l |-> St(s), r |-> St(t),
   e |-> IIFE(TStr, <<DefM(1, TStr, St(s)), Asg("+=", V(1), St(t)), Ex(V(1))>>)],
  [form |-> "plus-assign-tuple-var", shape |-> "tuple(int,numstr)", op |-> "+", l |-> Tup(<<I(1), St(s)>>), r |-> Tup(<<I(2), St(t)>>),
   e |-> IIFE(CaTIS, <<DefM(1, CaTIS, Tup(<<I(1), St(s)>>)), Asg("+=", V(1), Tup(<<I(2), St(t)>>)), Ex(V(1))>>)],
  [form |-> "plus-assign-field", shape |-> "tuple(int,numstr)", op |-> "+", l |-> Tup(<<I(1), St(s)>>), r |-> Tup(<<I(2), St(t)>>),
   e |-> IIFE(CaTIS, <<DefC(1, TName("B"), BLit(Tup(<<I(1), St(s)>>), Lst(<<>>))), Asg("+=", Fld(V(1), "p"), Tup(<<I(2), St(t)>>)),
                      Ex(Fld(V(1), "p"))>>)] >>
CaNumTy == TupT(<<Int3, Int3>>)
CaTII == TTuple(<<TInt, TInt>>)
CaNumForms(ea, eb) == [n \in 1..3 |->
  LET op == <<"+", "-", "*">>[n] IN
  [form |-> "op-assign-tuple-var", shape |-> "tuple(int,int)", op |-> op, l |-> ea, r |-> eb,
   e |-> IIFE(CaTII, <<DefM(1, CaTII, ea), Asg(op \o "=", V(1), eb), Ex(V(1))>>)]]
CaApp(f) ==
  LET x == EvalE(f.e, 0, S0)
      y == EvalE(Bin(f.op, f.l, f.r), 0, S0) IN
  [ok |-> x.sig = "ok", stuck |-> x.sig # "ok" /\ IsStuck(x.s.status),
   item |-> [op |-> f.op \o "=", shape |-> f.shape, rel |-> Rel(f.l, f.r), form |-> f.form, e |-> f.e,
             want |-> IF x.sig = "ok" THEN Snap(x) ELSE NilV],
   laws |-> Law(SameResult(x, y), "compound-assignment-is-the-operator")]

---------------------------------------------------------------------------
(* HISTORIES: operators are functions of their operands.                   *)
(* Three values of one type are bound to variables (so lists, blobs,       *)
(* tuples and variants are three OBJECTS), then 2-3 applications over the  *)
(* same variables are evaluated one after the other: the same object on    *)
(* the left, on the right, and inside a fresh container.  The expected     *)
(* value of step k is what the dynamic semantics gives in the state the    *)
(* earlier steps left; the laws require it to equal the value of the same  *)
(* application evaluated alone right after the bindings, and on fresh      *)
(* values (the literals written in place of the variables).                *)
RECURSIVE AstTy(_)
AstTy(ty) == CASE ty.k = "tint" -> TInt [] ty.k = "tfloat" -> TFloat [] ty.k \in {"tstr", "tesc"} -> TStr [] ty.k = "tbool" -> TBool
               [] ty.k = "tleaf" -> ty.ast
               [] ty.k = "ttuple" -> TTuple([i \in 1..Len(ty.es) |-> AstTy(ty.es[i])])
               [] ty.k = "tlist" -> TList(AstTy(ty.e))
               [] ty.k = "tname" -> TName(ty.n)

Z0 == IntT(<<0>>)
WrapTy(w, ty) == IF w = "tup" THEN TupT(<<ty, Z0>>) ELSE IF w = "lst" THEN ListT(ty, 1) ELSE ty
WrapE(w, e) == IF w = "tup" THEN Tup(<<e, I(0)>>) ELSE IF w = "lst" THEN Lst(<<e>>) ELSE e
\* one step: operator, left and right variable (1..3; r = 0 for unary minus), wrapping of both operands
HS(op, l, r, w) == [op |-> op, l |-> l, r |-> r, w |-> w]
HT(n, need, steps) == [n |-> n, need |-> need, steps |-> steps]
HistTemplates == <<
  HT("eq-left",      "eq",  <<HS("==", 1, 2, ""), HS("==", 1, 3, ""), HS("==", 1, 1, "")>>),
  HT("eq-repeat",    "eq",  <<HS("==", 1, 2, ""), HS("==", 1, 2, ""), HS("!=", 1, 2, "")>>),
  HT("eq-flip",      "eq",  <<HS("!=", 1, 2, ""), HS("==", 2, 1, ""), HS("==", 1, 2, "")>>),
  HT("eq-right",     "eq",  <<HS("==", 2, 1, ""), HS("==", 3, 1, ""), HS("==", 1, 3, "")>>),
  HT("eq-inside",    "eq",  <<HS("==", 1, 2, "tup"), HS("==", 1, 3, "tup"), HS("==", 1, 3, "lst")>>),
  HT("eq-mixed",     "eq",  <<HS("==", 1, 2, ""), HS("!=", 1, 3, "tup"), HS("!=", 1, 3, "")>>),
  HT("ord-left",     "ord", <<HS("<", 1, 2, ""), HS("<", 1, 3, ""), HS("<=", 1, 3, "")>>),
  HT("ord-right",    "ord", <<HS("<", 2, 1, ""), HS("<", 3, 1, ""), HS(">", 1, 3, "")>>),
  HT("le-left",      "ord", <<HS("<=", 1, 2, ""), HS("<=", 1, 3, ""), HS(">=", 3, 1, "")>>),
  HT("ord-flip",     "ord", <<HS("<", 1, 2, ""), HS("<", 2, 1, ""), HS("<=", 1, 2, "")>>),
  HT("ord-repeat",   "ord", <<HS("<=", 1, 2, ""), HS("<=", 1, 2, ""), HS(">=", 1, 2, "")>>),
  HT("ord-then-eq",  "ord", <<HS(">", 1, 3, ""), HS("<", 1, 3, ""), HS("==", 1, 3, "")>>),
  HT("ord-inside",   "ord", <<HS("<", 1, 2, "tup"), HS(">=", 1, 2, "tup"), HS("<", 2, 1, "tup")>>),
  HT("add-repeat",   "add", <<HS("+", 1, 2, ""), HS("+", 1, 2, ""), HS("==", 1, 3, "")>>),
  HT("add-left",     "add", <<HS("+", 1, 2, ""), HS("+", 1, 3, ""), HS("+", 3, 1, "")>>),
  HT("arith-left",   "num", <<HS("-", 1, 2, ""), HS("-", 1, 3, ""), HS("*", 1, 3, "")>>),
  HT("arith-right",  "num", <<HS("*", 2, 1, ""), HS("*", 3, 1, ""), HS("/", 3, 1, "")>>),
  HT("sub-flip",     "num", <<HS("-", 1, 2, ""), HS("-", 2, 1, ""), HS("-", 1, 2, "")>>),
  HT("mul-div",      "num", <<HS("*", 1, 2, ""), HS("/", 1, 2, ""), HS("*", 1, 2, "")>>),
  HT("neg-repeat",   "num", <<HS("neg", 1, 0, ""), HS("neg", 1, 0, ""), HS("+", 1, 3, "")>>),
  HT("arith-inside", "num", <<HS("+", 1, 2, "tup"), HS("-", 1, 2, "tup"), HS("==", 1, 2, "tup")>> ),
  \* HOW THE OPERANDS ARE WRITTEN does not matter: operand 11..13 = the LITERAL of value 1..3 written in place (1..3 = the
  \* variable holding it); "chain" = x op y op x.  A compiler that evaluates operators on literals itself must agree.
  HT("eq-lit-var",    "eq-lit",  <<HS("==", 1, 12, ""), HS("!=", 11, 2, ""), HS("==", 11, 12, "")>>),
  HT("ord-lit-var",   "ord-lit", <<HS("<", 1, 12, ""), HS("<=", 11, 2, ""), HS(">=", 11, 12, "")>>),
  HT("add-lit-var",   "add-lit", <<HS("+", 1, 12, ""), HS("+", 11, 2, ""), HS("+", 11, 12, "")>>),
  HT("add-chain",     "add-lit", <<HS("+", 11, 12, "chain"), HS("+", 11, 2, "chain"), HS("+", 1, 2, "chain")>>),
  HT("arith-lit-var", "num-lit", <<HS("-", 1, 12, ""), HS("*", 11, 2, ""), HS("/", 11, 12, "")>>) >>

\* the written-as-literal templates are for the types whose values the compiler could compute with: scalars and tuples of them
RECURSIVE ValueTy(_)
ValueTy(ty) == CASE ty.k \in {"tint", "tfloat", "tstr", "tesc", "tbool"} -> TRUE
                 [] ty.k = "ttuple" -> \A i \in 1..Len(ty.es) : ValueTy(ty.es[i])
                 [] OTHER -> FALSE
TemplatesFor(ty) == SelectSeq(HistTemplates, LAMBDA t : \/ t.need = "eq"
                                                        \/ t.need = "ord" /\ Ordered(ty)
                                                        \/ t.need = "add" /\ Addable(ty)
                                                        \/ t.need = "num" /\ Numeric(ty)
                                                        \/ t.need = "eq-lit" /\ ValueTy(ty)
                                                        \/ t.need = "ord-lit" /\ ValueTy(ty) /\ Ordered(ty)
                                                        \/ t.need = "add-lit" /\ ValueTy(ty) /\ Addable(ty)
                                                        \/ t.need = "num-lit" /\ ValueTy(ty) /\ Numeric(ty))

\* history types: [ty, qs]; every triple of values (quick: every qs-th triple, qs coprime to Count^3)
HIntS == IntT(<<0, 1>>)
HInt3 == IntT(<<0, 1, 0 - 1>>)
HL1   == ListT(HIntS, 1)
HistTable == <<
  TE(ListT(HIntS, 2), 5),                                                           \* list
  TE(TupT(<<HInt3, HIntS>>), 7),                                                    \* tuple
  TE(BlobT("B", <<[f |-> "p", ty |-> TupT(<<HIntS, StrT(<<"a">>)>>)], [f |-> "q", ty |-> HL1]>>), 5),   \* blob holding a tuple and a list
  TE(EnumT("E", <<UV0("N"), UV1("I", HIntS), UV1("L", HL1)>>), 5),                  \* enum value, list payload
  TE(TupT(<<HL1, HIntS>>), 5),                                                      \* list in tuple
  TE(ListT(TupT(<<HIntS>>), 2), 5),                                                 \* tuple in list
  TE(ListT(HL1, 2), 31),                                                            \* list in list
  TE(TupT(<<TupT(<<HIntS, HIntS>>), HIntS>>), 11),                                  \* tuple in tuple
  TE(TupT(<<StrT(<<"a", "b">>), HIntS>>), 3),                                       \* tuple with a string
  TE(BlobT("C", <<[f |-> "a", ty |-> BlobA(HIntS)], [f |-> "e", ty |-> EnumT("E", <<UV0("N"), UV1("I", HIntS)>>)]>>), 5),  \* blob in blob
  TE(ListT(BlobA(HIntS), 2), 5),                                                    \* blob in list
  TE(StrT(<<"a", "b">>), 1), TE(HIntS, 1),
  TE(BlobF, 5),                                                                     \* blob with a function-valued field
  TE(Unit, 1), TE(TupT(<<HIntS, Unit>>), 1),                                        \* width 0
  TE(Fl3, 2),                                                                       \* float literals against float variables
  TE(EscH, 11), TE(TupT(<<EscQ, IntT(<<1>>)>>), 3),                                       \* literals with escapes against variables
  TE(NumStr5, 7) >>

RECURSIVE HistRun(_, _, _, _, _)
HistRun(exprs, k, fr, S, acc) ==
  IF k > Len(exprs) THEN acc
  ELSE LET r == EvalE(exprs[k], fr, S) IN HistRun(exprs, k + 1, fr, IF r.sig = "ok" THEN r.s ELSE S, Append(acc, r))

Opnd(c, vs, ls) == IF c > 10 THEN ls[c - 10] ELSE vs[c]
VarOf(c) == IF c > 10 THEN c - 10 ELSE c
StepExpr(s, vs, ls) ==
  IF s.op = "neg" THEN Un("-", Opnd(s.l, vs, ls))
  ELSE IF s.w = "chain" THEN Bin(s.op, Bin(s.op, Opnd(s.l, vs, ls), Opnd(s.r, vs, ls)), Opnd(s.l, vs, ls))
  ELSE Bin(s.op, WrapE(s.w, Opnd(s.l, vs, ls)), WrapE(s.w, Opnd(s.r, vs, ls)))

\* history number h (within its batch) of type ty: values idx = <<i, j, k>>, template tpl
History(ty, idx, tpl, h) ==
  LET lits == [m \in 1..3 |-> Nth(ty, idx[m])]
      vars == [m \in 1..3 |-> V(m)]
      binds == [m \in 1..3 |-> DefC(m, AstTy(ty), lits[m])]
      F0 == NewFrame(S0, 0)
      fr == LastAddr(F0)
      B == ExecSeq(binds, 1, fr, F0)
      n == Len(tpl.steps)
      exprs == [k \in 1..n |-> StepExpr(tpl.steps[k], vars, lits)]
      fresh == [k \in 1..n |-> StepExpr(tpl.steps[k], lits, lits)]
      seq == HistRun(exprs, 1, fr, B.s, <<>>)
      val(m) == ValueIn(B.s, fr, m)
      app(k) == LET s == tpl.steps[k]
                    r == seq[k]
                    alone == EvalE(exprs[k], fr, B.s)
                    lit == EvalE(fresh[k], 0, S0)
                    plain == s.w \in {"", "chain"}
                    risk == IF s.op = "neg" THEN HasFloatZero(val(VarOf(s.l)))
                            ELSE NegZeroRisk(s.op, val(VarOf(s.l)), val(VarOf(s.r))) IN
                [ok |-> r.sig = "ok" /\ ~risk,
                 stuck |-> r.sig # "ok" /\ IsStuck(r.s.status),
                 item |-> [op |-> s.op, shape |-> Shape(WrapTy(s.w, ty)),
                           rel |-> IF s.op = "neg" THEN "unary" ELSE Rel(lits[VarOf(s.l)], lits[VarOf(s.r)]),
                           form |-> "hist:" \o tpl.n \o ":" \o ToString(k),
                           e |-> IF plain THEN Observe(ty, s.op, exprs[k]) ELSE exprs[k],
                           want |-> IF r.sig # "ok" THEN NilV ELSE IF plain THEN ObserveSnap(ty, s.op, Snap(r)) ELSE Snap(r),
                           h |-> h, k |-> k],
                 laws |-> Law(SameResult(r, alone), "step-independent-of-history")
                          \cup Law(SameResult(r, lit), "step-equals-application-on-fresh-values")] IN
  [apps |-> [k \in 1..n |-> app(k)], binds |-> binds, bound |-> B.sig = "ok"]
=============================================================================
