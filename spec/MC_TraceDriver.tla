--------------------------- MODULE MC_TraceDriver ---------------------------
(* Model constants for validating recorded runs of the sylt binary against SyltDriver (C20). *)
EXTENDS Trace_Driver
MCFalse == FALSE
\* STRICT_STDOUT = "1": an unwritable stdout must turn the exit status non-zero (see SyltDriver!StrictSink)
MCStrictSink == IOEnv.STRICT_STDOUT = "1"
ASSUME UniverseWellFormed
=============================================================================
