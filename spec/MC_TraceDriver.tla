--------------------------- MODULE MC_TraceDriver ---------------------------
(* Model constants for validating recorded runs of the sylt binary against SyltDriver (C20). *)
EXTENDS Trace_Driver
MCFalse == FALSE
ASSUME UniverseWellFormed
=============================================================================
