------------------------- MODULE Trace_Determinism -------------------------
(***************************************************************************)
(* Trace validation for C16.  The recorder (harness/src/bin/c16.rs) writes *)
(* one record per (input, run): NRuns consecutive records per input, the   *)
(* first runs inside one process, the last ones each in a separate process *)
(* with a different environment.  Group g of the file is validated         *)
(* independently (Init ranges over all groups, so TLC's workers share the  *)
(* work): its records are replayed as Run actions of SyltDeterminism, the  *)
(* spec invariants are evaluated in every state, and when the group is     *)
(* consumed the invariant Determinism decides: an input whose runs         *)
(* disagree goes to st = "fail" and prints one REJECT line naming the two  *)
(* first disagreeing runs.  The REJECT lines are the check's verdicts.     *)
(*                                                                         *)
(* The universe is decided HERE: for UNIVERSE = "universe" every record    *)
(* must carry exactly the fields of SyltDeterminism!Case(idx); a record    *)
(* that differs is a tool error (Assert), not a verdict.  For "free"       *)
(* (corpus files) the case fields are not derived.                         *)
(***************************************************************************)
EXTENDS SyltDeterminism, Json, IOUtils

CONSTANTS NRuns,       \* records per input
          ProcOfRun    \* sequence: the process label run r must carry

VARIABLES g,      \* group (input) being validated
          j,      \* next run of the group
          st      \* "run" | "ok" | "fail"

tvars == <<seen, hist, oracle, g, j, st>>

Rec == ndJsonDeserialize(IOEnv.TRACE)
Universe == IOEnv.UNIVERSE
NG == Len(Rec) \div NRuns

R(gg, jj) == Rec[(gg - 1) * NRuns + jj]

CaseFields(r) == [idx |-> r.idx, fam |-> r.fam, n |-> r.n, k |-> r.k, ord |-> r.ord, pos |-> r.pos,
                  sub |-> r.sub, errpos |-> r.errpos, perm |-> r.perm, expect |-> r.expect]

ResultOf(r) == [class |-> r.class, digest |-> r.digest]

\* the shape of group gg: tool errors, never verdicts
GroupWellFormed(gg) ==
    /\ Assert(Len(Rec) = NG * NRuns, <<"trace length is not a multiple of NRuns", Len(Rec)>>)
    /\ \A jj \in 1..NRuns :
          LET r == R(gg, jj) IN
          /\ Assert(r.input = gg, <<"record does not belong to group", gg, jj, r.input>>)
          /\ Assert(r.run = jj, <<"runs of a group are not in order", gg, jj, r.run>>)
          /\ Assert(r.process = ProcOfRun[jj], <<"unexpected process label", gg, jj, r.process>>)
          /\ Assert(r.class \in {"ok", "err", "panic"}, <<"unknown class", gg, jj, r.class>>)
          /\ Assert(CaseFields(r) = CaseFields(R(gg, 1)), <<"case fields differ inside a group", gg, jj>>)
    /\ IF Universe = "universe"
         THEN /\ Assert(R(gg, 1).idx \in 1..UniverseSize, <<"index outside the universe", gg, R(gg, 1).idx>>)
              /\ Assert(CaseFields(R(gg, 1)) = Case(R(gg, 1).idx),
                        <<"universe mismatch at group", gg, CaseFields(R(gg, 1)), Case(R(gg, 1).idx)>>)
         ELSE Assert(R(gg, 1).fam = "corpus", <<"free record with a universe family", gg>>)

TraceInit ==
    /\ g \in 1..NG
    /\ GroupWellFormed(g)
    /\ seen = <<>> /\ hist = <<>> /\ oracle = <<>>
    /\ j = 1 /\ st = "run"

TraceRun ==
    /\ st = "run" /\ j <= NRuns
    /\ LET r == R(g, j) IN Run(g, r.process, r.run, ResultOf(r))
    /\ j' = j + 1
    /\ UNCHANGED <<oracle, g, st>>

TraceAccept ==
    /\ st = "run" /\ j > NRuns
    /\ Determinism
    /\ st' = "ok"
    /\ UNCHANGED <<seen, hist, oracle, g, j>>

\* what differs between two disagreeing runs, from the recorded partial digests
What(ra, rb) ==
    IF ra.class # rb.class THEN "class"
    ELSE IF ra.class = "ok" THEN "lua-bytes"
    ELSE IF ra.class = "panic" THEN "panic-message"
    ELSE IF ra.d_set = rb.d_set THEN "order"
    ELSE IF ra.d_first # rb.d_first THEN "first-error"
    ELSE IF ra.d_locs = rb.d_locs THEN "message"
    ELSE "later-error"

TraceReject ==
    /\ st = "run" /\ j > NRuns
    /\ ~Determinism
    /\ st' = "fail"
    /\ LET w  == Witness(hist, g)
           ra == R(g, w[1])
           rb == R(g, w[2])
       IN PrintT(<<"REJECT", ToJson([input |-> g, idx |-> ra.idx, fam |-> ra.fam, k |-> ra.k,
                                     runs |-> w, procs |-> <<ra.process, rb.process>>,
                                     classes |-> <<ra.class, rb.class>>,
                                     digests |-> <<ra.digest, rb.digest>>,
                                     distinct |-> Cardinality(seen[g]),
                                     cross_only |-> \A a, b \in 1..Len(hist) :
                                                       (hist[a].process = "in" /\ hist[b].process = "in")
                                                          => hist[a].result = hist[b].result,
                                     what |-> What(ra, rb)])>>)
    /\ UNCHANGED <<seen, hist, oracle, g, j>>

TraceNext == TraceRun \/ TraceAccept \/ TraceReject

TraceSpec == TraceInit /\ [][TraceNext]_tvars

\* spec invariants evaluated in every state of every validated trace
TraceInv ==
    /\ SeenIsImageOfHist
    /\ TwoFormsAgree
    /\ Len(hist) = j - 1
    /\ DOMAIN seen \subseteq {g}
    /\ st = "ok" => (Determinism /\ j = NRuns + 1)
    /\ st = "fail" => ~Determinism

TraceTotal == st = "run" => ENABLED TraceNext
=============================================================================
