------------------------------- MODULE MC_Init -------------------------------
(***************************************************************************)
(* C11: every order of global initialisation that the dynamic needs allow  *)
(* is explored for every program of SyltInit's two families.               *)
(*   Init        picks a program: a dependency shape (sizes MINN..MAXN,    *)
(*               size 4 sampled by MOD/SEED) or a position case (POS=1)    *)
(*   GlobalInit  initialises any global whose initialiser can run now      *)
(*   CallStartA  calls start() once every global is initialised            *)
(*   Describe    prints the case (id, AST, class, expected result) once    *)
(*   DescribeNotRun  the same for planted ill-typed programs / unspecified  *)
(* Invariants: no global is read or assigned before it is initialised,     *)
(* the strict semantics never gets stuck otherwise, every complete         *)
(* behaviour ends in one of Outcomes(pr) (the recursive definition and the *)
(* explored state graph agree), CONFLUENCE for the programs classified     *)
(* confluent, a behaviour that cannot continue belongs to a cyclic program *)
(* and a cyclic program never completes, every position case is confluent, *)
(* every dead-code case (SyltDeadCode) is confluent.                       *)
(***************************************************************************)
EXTENDS SyltDeadCode, Json, IOUtils

VARIABLES fam, id, pr, S, done, pc, exp
vars == <<fam, id, pr, S, done, pc, exp>>

EnvInt(name, dflt) == IF name \in DOMAIN IOEnv THEN atoi(IOEnv[name]) ELSE dflt
MaxN == EnvInt("MAXN", 2)
MinN == EnvInt("MINN", 1)
Mod4 == EnvInt("MOD", 1)        \* sampling modulus for the largest size only
Seed == EnvInt("SEED", 1)
WithPos == EnvInt("POS", 1) = 1
WithTypes == EnvInt("TYPES", 1) = 1
\* the dead-code families (SyltDeadCode): DEAD=1 switches them on, DEADMOD / DEADSELFMOD > 1 take the diagonal sample
WithDead == EnvInt("DEAD", 1) = 1
DeadMod == EnvInt("DEADMOD", 1)
DeadSelfMod == EnvInt("DEADSELFMOD", 1)

Cases == CasesOf(MinN, MaxN, Mod4, Seed)

\* the universe is what it is described to be (cheap sizes), the landmarks belong to it
ASSUME \A n \in 1..2 : \A q \in Universe(n) : WellFormed(q) /\ Sorted(q)
ASSUME \A q \in Landmarks : Len(q) = 4 /\ WellFormed(q) /\ Sorted(q)
ASSUME Cardinality(Universe(1)) = 6 /\ Cardinality(Universe(2)) = 62
ASSUME Cardinality(Positions) = Len(PosNames)
ASSUME Cardinality(TypeShapes) = Len(TypeShapeNames)
ASSUME Cardinality(DeadCtxs) = Len(DeadCtxNames)
\* every type shape has a good use and at least one planted ill-typed use
ASSUME \A s \in TypeShapes : Len(TypeShape(s).plants) >= 1

\* programs the order semantics is not run on: planted ill-typed programs (they have to be rejected, they denote
\* nothing) and the cases whose construct always fails at run time
NotRun(f, i) == (f = "type" /\ IllTyped(i)) \/ f = "unspec"

Init ==
  /\ \/ fam = "shape" /\ id \in Cases /\ pr = ShapeProg(id)
     \/ WithPos /\ fam = "pos" /\ id \in PosCases /\ pr = PosProg(id)
     \/ WithPos /\ fam = "unspec" /\ id \in UnspecCases /\ pr = PosProg(id)
     \/ WithPos /\ fam = "self" /\ id \in SelfCases /\ pr = SelfProg(id)
     \/ WithTypes /\ fam = "type" /\ id \in TypeCases /\ pr = TypeProg(id)
     \/ WithDead /\ fam = "dead" /\ id \in DeadSelected(DeadMod, Seed) /\ pr = DeadProg(id)
     \/ WithDead /\ fam = "deadself" /\ id \in DeadSelfSelected(DeadSelfMod, Seed) /\ pr = DeadSelfProg(id)
  /\ S = S0(pr) /\ done = {}
  /\ pc = IF NotRun(fam, id) THEN "notrun" ELSE "init"
  /\ exp = IF NotRun(fam, id) THEN {} ELSE Outcomes(pr)

GlobalInit(i) ==
  /\ pc = "init" /\ S.status = "run" /\ i \in (1..NG(pr)) \ done
  /\ LET r == TryInit(pr, i, S) IN ~Unmet(r) /\ S' = r.s
  /\ done' = done \cup {i}
  /\ UNCHANGED <<fam, id, pr, pc, exp>>

CallStartA ==
  /\ pc = "init" /\ S.status = "run" /\ done = 1..NG(pr)
  /\ S' = CallStart(pr.start.b, S).s
  /\ pc' = "ran"
  /\ UNCHANGED <<fam, id, pr, done, exp>>

Describe ==
  /\ pc = "init" /\ done = {}
  /\ pc' = "described"
  /\ PrintT(<<"REPLAY", ToJson([fam |-> fam, id |-> id, n |-> NG(pr), class |-> ClassOfOutcomes(exp), nout |-> Cardinality(exp),
                                tops |-> TopsOf(pr),
                                out |-> IF Cardinality(exp) = 1 THEN TheOutcome(exp).out ELSE <<>>,
                                status |-> IF Cardinality(exp) = 1 THEN TheOutcome(exp).status ELSE "-"])>>)
  /\ UNCHANGED <<fam, id, pr, S, done, exp>>

DescribeNotRun ==
  /\ pc = "notrun"
  /\ pc' = "described"
  /\ PrintT(<<"REPLAY", ToJson([fam |-> fam, id |-> id, n |-> NG(pr),
                                class |-> IF fam = "unspec" THEN "unspecified" ELSE "illtyped", nout |-> 0,
                                tops |-> TopsOf(pr), out |-> <<>>, status |-> "-"])>>)
  /\ UNCHANGED <<fam, id, pr, S, done, exp>>

Next == (\E i \in 1..6 : GlobalInit(i)) \/ CallStartA \/ Describe \/ DescribeNotRun
Spec == Init /\ [][Next]_vars

---------------------------------------------------------------------------
NoUninitialisedAccess == S.status \notin UnmetStatus
SpecNeverStuck == ~(Len(S.status) >= 4 /\ SubSeq(S.status, 1, 4) \in {"stuc", "drop"})
InitialisedOnlyOnce == done = Done(pr, S) /\ (pc = "init" => DOMAIN S.glob = {pr.g[i].b : i \in done} \cup {pr.start.b})
InOutcomes == pc = "ran" => Final(pr, S) \in exp
Confluence == pc = "ran" /\ Cardinality(exp) = 1 => exp = {Final(pr, S)}
CyclicNeverCompletes == exp = {} => pc # "ran"
BlockedOnlyIfCyclic == (pc = "init" /\ done # 1..NG(pr) /\ EnabledSet(pr, done, S) = {}) => exp = {}
CompleteEndsDone == pc = "ran" => S.status = "done"
PositionCasesConfluent == fam = "pos" => Cardinality(exp) = 1
SelfCasesCyclic == fam = "self" => exp = {}
\* code that never runs needs nothing: the dead-code cases (also the self-referential ones) have exactly one result
DeadCasesConfluent == fam \in {"dead", "deadself"} => Cardinality(exp) = 1
\* the typing judgement of the specification agrees with the labels of the type family; good uses are confluent
TypeLabels == fam = "type" => (TypeOk(pr) <=> ~IllTyped(id)) /\ (~IllTyped(id) => Cardinality(exp) = 1)
=============================================================================
