------------------------------ MODULE MC_Scope ------------------------------
(* C09.  MODE=emit: the scope machine of SyltScope is run, action by action, over every skeleton under every      *)
(* naming of its universe (all maps into a pool of POOL names, all-distinct, max-shadow, every single pair merged); *)
(* the final state of each behaviour prints the naming and whether it is legal, and (once per skeleton) the base    *)
(* program and every planted (binder, slot) variant with the machine's verdict on it.  The ASSUMEs and invariants   *)
(* are properties of the SPECIFICATION (a failure is exit 2, never a verdict on sylt).                              *)
(* MODE=gen: for every program of the file GEN (SyltGen's pairwise-nesting universe) a heavily shadowing naming is  *)
(* computed (greedy colouring of the conflict relation) and its legality asserted with the machine.                 *)
EXTENDS SyltScope, Json, IOUtils

Mode == IOEnv.MODE
Pool == IF "POOL" \in DOMAIN IOEnv THEN atoi(IOEnv.POOL) ELSE 2

VARIABLES sk,    \* skeleton index (emit) / program index (gen)
          nm,    \* the naming: binder id -> name
          evs,   \* the program as its sequence of scope events
          gl,    \* its module globals: binder -> module
          ms,    \* the skeleton's max-shadow naming (constant along a behaviour)
          pc,    \* index of the next event
          st     \* machine state: stack of (name, binder), frames, resolutions so far, duplicate flag
vars == <<sk, nm, evs, gl, ms, pc, st>>

GenCases == IF Mode = "gen" THEN ndJsonDeserialize(IOEnv.GEN) ELSE <<>>

N == Len(evs)

Init == \/ /\ Mode = "emit" /\ sk \in 1..NSkel
           \* (bound through singleton sets: a LET would be re-evaluated for every naming)
           /\ \E k \in {SkInfo(sk)} : \E m \in {MaxShadowOf(k)} :
                 /\ nm \in Namings(k, Pool, m) /\ evs = k.evs /\ gl = k.G /\ ms = m /\ st = InitSt(k.G, nm)
           /\ pc = 1
        \* one behaviour per (skeleton, binder) checks and emits the planted uses of that binder
        \/ /\ Mode = "emit" /\ sk \in 1..NSkel /\ pc \in {0 - b : b \in (1..NB(sk)) \cup SelfBinders(sk)}
           /\ nm = <<>> /\ evs = <<>> /\ gl = <<>> /\ ms = <<>> /\ st = EmptySt
        \/ /\ Mode = "gen" /\ sk \in 1..Len(GenCases) /\ nm = <<>> /\ evs = <<>> /\ gl = <<>> /\ ms = <<>> /\ pc = 0 /\ st = EmptySt

At(kind) == pc >= 1 /\ pc <= N /\ evs[pc].k = kind
Go(new) == st' = new /\ pc' = pc + 1 /\ UNCHANGED <<sk, nm, evs, gl, ms>>

EnterFn       == At("enterfn") /\ Go(Push(st, "fn", pc))
ExitFn        == At("exitfn") /\ CanPop(st, "fn") /\ Go(Pop(st))
EnterBlock    == At("enterblock") /\ Go(Push(st, "block", pc))
ExitBlock     == At("exitblock") /\ CanPop(st, "block") /\ Go(Pop(st))
EnterBranch   == At("enterbranch") /\ Go(Push(st, evs[pc].fk, pc))
ExitBranch    == At("exitbranch") /\ CanPop(st, evs[pc].fk) /\ Go(Pop(st))
EnterArm      == At("enterarm") /\ Go(EnterArmB(st, evs[pc], nm, pc))
ExitArm       == At("exitarm") /\ CanPop(st, evs[pc].fk) /\ Go(Pop(st))
EnterMethod   == At("entermethod") /\ Go(EnterArmB(st, evs[pc], nm, pc))     \* a method field: declares the literal's `self`
ExitMethod    == At("exitmethod") /\ CanPop(st, "method") /\ Go(Pop(st))
EnterLoopBody == At("enterloop") /\ Go(Push(st, "loop", pc))
ExitLoopBody  == At("exitloop") /\ CanPop(st, "loop") /\ Go(Pop(st))
Declare       == At("declare") /\ Go(DeclareB(st, evs[pc].b, nm))
Use           == At("use") /\ Go(UseB(st, evs[pc].b, evs[pc].s, gl, nm))
QualifiedUse  == At("quse") /\ Go(QUseB(st, evs[pc].b, gl, nm))
EnterModule   == At("module") /\ Go([st EXCEPT !.mod = evs[pc].b])
EnterTop      == At("top") /\ Len(st.stack) = 0 /\ Go(st)          \* a global's initialiser starts with an empty stack

Tags(n) == (IF n = AllDistinct(Len(n)) THEN {"distinct"} ELSE {})
           \cup (IF n = ms THEN {"maxshadow"} ELSE {})
           \cup (IF n \in PairMerges(Len(n)) THEN {"pair"} ELSE {})
           \cup (IF \A j \in 1..Len(n) : n[j] \in 1..Pool THEN {"pool"} ELSE {})
           \cup (IF IsSpecial(n) THEN {"special"} ELSE {})

EmitSkeleton(k) ==
    /\ PrintT(<<"REPLAY", ToJson([t |-> "skel", sk |-> k.i, name |-> SkName(k.i), nb |-> k.nb, tops |-> k.base,
                                  binders |-> [b \in 1..k.nb |-> [bk |-> k.sc.bk[b], own |-> OwnFrame(k.sc, b),
                                                                  ginit |-> InGlobalInit(k.sc, b)]],
                                  maxshadow |-> ms])>>)

\* the planted uses of binder -pc: visible binder => the machine (run on the planted program, all-distinct names)
\* resolves the use to that binder; otherwise it leaves it unresolved.  Then the case is emitted.
CheckPlanted ==
    /\ Mode = "emit" /\ pc < 0 /\ pc > 0 - 100 /\ pc' = pc - 100 /\ UNCHANGED <<sk, nm, evs, gl, ms, st>>
    /\ LET k == SkInfo(sk) IN
       \A p \in TriplesOf(k, 0 - pc) :
         LET b == p[1]
             s == p[2]
             in == PairInScope(k, b, s)
             pr == PlantedResult(k, b, s, p[3])
         IN /\ Assert(pr.n = 1 /\ (in => pr.r = b) /\ (~in => pr.r = OtherReferent(k.sc, b, s) /\ pr.r # b),
                      <<"OutOfScopeUnresolved: scan and machine disagree on a planted use", sk, p, pr>>)
            /\ PrintT(<<"REPLAY", ToJson([t |-> "oos", sk |-> k.i, b |-> b, slot |-> s, form |-> p[3], inscope |-> in,
                                          cls |-> IF in THEN "in-scope" ELSE PosClass(k.sc, b, s),
                                          bk |-> k.sc.bk[b], own |-> OwnFrame(k.sc, b), fnrt |-> k.sc.slots[s].fnrt,
                                          ginit |-> InGlobalInit(k.sc, b),
                                          tops |-> PlantedTops(k.i, b, s, p[3])])>>)

Finish == /\ Mode = "emit" /\ pc = N + 1 /\ pc' = N + 2 /\ UNCHANGED <<sk, nm, evs, gl, ms, st>>
          /\ PrintT(<<"REPLAY", ToJson([t |-> "nam", sk |-> sk, nm |-> nm, names |-> [j \in 1..Len(nm) |-> NameStr(nm[j])],
                                        legal |-> LegalRun(st), tags |-> Tags(nm)])>>)
          /\ (nm = AllDistinct(Len(nm)) => EmitSkeleton(SkInfo(sk)))

GenEmit == /\ Mode = "gen" /\ pc = 0 /\ pc' = 1 /\ UNCHANGED <<sk, nm, evs, gl, ms, st>>
           /\ LET c == GenCases[sk]
                  r == GenNaming(c.tops)
              IN /\ Assert(r.legal, <<"the greedy naming is not legal", c.id>>)
                 /\ PrintT(<<"REPLAY", ToJson([t |-> "gen", rec |-> sk, id |-> c.id, shadow |-> r.shadow,
                                               ncolours |-> r.nc, nbinders |-> r.nb, uses |-> r.uses])>>)

Next == EnterFn \/ ExitFn \/ EnterBlock \/ ExitBlock \/ EnterBranch \/ ExitBranch \/ EnterArm \/ ExitArm
        \/ EnterMethod \/ ExitMethod \/ EnterLoopBody \/ ExitLoopBody \/ Declare \/ Use \/ QualifiedUse \/ EnterModule \/ EnterTop \/ Finish \/ CheckPlanted \/ GenEmit
Spec == Init /\ [][Next]_vars

(* ------------------------------------------------ invariants of the machine *)
Emitting == pc >= 1
\* frames are nested intervals of the stack, every entry carries its binder's name, no binder is on the stack twice
StackOk == Emitting =>
    /\ \A i \in 1..Len(st.frames) : st.frames[i].base <= Len(st.stack)
    /\ \A i \in 1..(Len(st.frames) - 1) : st.frames[i].base <= st.frames[i + 1].base
    /\ \A i \in 1..Len(st.stack) : st.stack[i].n = NameOf(nm, st.stack[i].b)
    /\ \A i \in 1..Len(st.stack) : \A j \in 1..Len(st.stack) : st.stack[i].b = st.stack[j].b => i = j
    \* `self` is on the stack exactly inside the method fields of blob literals: one entry per open method frame
    /\ Cardinality({i \in 1..Len(st.stack) : IsSelfId(st.stack[i].b)}) = Cardinality({i \in 1..Len(st.frames) : st.frames[i].fk = "method"})
\* exactly one action is enabled until the walk is over: the machine is deterministic and never stuck
NoStuck == (Emitting /\ pc <= N) =>
    /\ evs[pc].k \in (EventKinds \ {"slot"})
    /\ (evs[pc].k \in ExitKinds => CanPop(st, evs[pc].fk))
    /\ (evs[pc].k = "top" => Len(st.stack) = 0 /\ Len(st.frames) = 0)
\* at the end: nothing is left open; the step-by-step run equals Resolve; legality by resolution coincides with
\* "no two conflicting binders share a name" (the name-free characterisation); MaxShadow is minimal
DoneOk == (Emitting /\ pc = N + 1 /\ Mode = "emit") =>
    /\ st.stack = <<>> /\ st.frames = <<>>
    /\ st = Run(evs, gl, nm)
    /\ LegalRun(st) = ProperColouring(SkInfo(sk).sc.conf, nm)
    /\ (LegalRun(st) => NumNames(nm) >= NumNames(ms))

(* ----------------------------------------- properties of the case universe *)
Sk == 1..NSkel
Declared(k) == {k.sc.order[j] : j \in 1..Len(k.sc.order)}           \* (without the `self` binders)
OwnGlobals(k) == {g \in DOMAIN k.G : k.sc.bk[g] \in {"global", "globalfn"}}
UsedIn(k) == {k.evs[j].b : j \in {x \in 1..Len(k.evs) : k.evs[x].k \in {"use", "quse"}}}
OosTriples(k) == {p \in Triples(k) : ~PairInScope(k, p[1], p[2])}
InTriples(k) == {p \in Triples(k) : PairInScope(k, p[1], p[2])}
CellsOf(k) == {<<PosClass(k.sc, p[1], p[2]), k.sc.bk[p[1]]>> : p \in OosTriples(k)}
GInitCellsOf(k) == {PosClass(k.sc, p[1], p[2]) : p \in {q \in OosTriples(k) : InGlobalInit(k.sc, q[1])}}
AllCells == UNION {CellsOf(SkInfo(i)) : i \in Sk}
AllGInitCells == UNION {GInitCellsOf(SkInfo(i)) : i \in Sk}
\* <<form, in scope?, return kind of the enclosing function>> over all skeletons
FormCellsOf(k) == {<<p[3], PairInScope(k, p[1], p[2]), k.sc.slots[p[2]].fnrt>> : p \in Triples(k)}
AllFormCells == UNION {FormCellsOf(SkInfo(i)) : i \in Sk}

ASSUME SkeletonsWellFormed == \A i \in Sk : LET k == SkInfo(i) IN
    /\ WellNested(k.evs)
    /\ Len(k.sc.order) = Cardinality(Declared(k))                 \* every binder is declared once
    /\ Declared(k) \cup (OwnGlobals(k) \ {SStart}) = 1..k.nb     \* the renamable binders are 1..NB
    /\ Declared(k) \cap DOMAIN k.G = {}
    /\ UsedIn(k) \subseteq Declared(k) \cup DOMAIN k.G \cup SelfBinders(i)
    /\ k.nb <= 7
    /\ IntBinders(i) \cup Fn0Binders(i) \cup EnumBinders(i) \subseteq (1..k.nb) \cup SelfBinders(i) /\ MutIntBinders(i) \subseteq IntBinders(i)
    /\ SelfBinders(i) = {b \in DOMAIN k.sc.bk : k.sc.bk[b] = "self"} /\ SelfBinders(i) \subseteq SelfIds
ASSUME AllDistinctLegal == \A i \in Sk : LET k == SkInfo(i) IN Legal(k.evs, k.G, AllDistinct(k.nb))
ASSUME MaxShadowLegal == \A i \in Sk : LET k == SkInfo(i)
                                           m == MaxShadowOf(k)
                                       IN Legal(k.evs, k.G, m) /\ NumNames(m) < k.nb
\* names are only compared: permuting the pool does not change which namings are legal
Rot(n) == (n % Pool) + 1
ASSUME NamesOnlyCompared == \A i \in Sk : LET k == SkInfo(i) IN \A n \in [1..k.nb -> 1..Pool] :
    ProperColouring(k.sc.conf, n) = ProperColouring(k.sc.conf, [j \in 1..k.nb |-> Rot(n[j])])
\* every binder has an accepted base (a use inside its scope); every local binder has out-of-scope positions
ASSUME EveryBinderHasBase == \A i \in Sk : LET k == SkInfo(i) IN \A b \in (1..k.nb) \cup SelfBinders(i) :
    /\ \E p \in InTriples(k) : p[1] = b /\ p[3] \in {"arg", "expr"}
    /\ (b \notin DOMAIN k.G => \E p \in OosTriples(k) : p[1] = b)
ASSUME ClassesCovered == LET cells == AllCells IN
    /\ \A c \in PosClasses : \E x \in cells : x[1] = c
    /\ {<<"after-block", "local">>, <<"after-if-branch", "local">>, <<"after-elif-branch", "local">>,
        <<"after-else-branch", "local">>, <<"after-if-branch", "fnlocal">>, <<"after-case-arm", "casebind">>,
        <<"after-case-arm", "local">>, <<"after-case-else", "local">>, <<"after-loop", "local">>,
        <<"after-fn", "param">>, <<"before-fn", "param">>, <<"after-fn", "local">>,
        <<"before-decl", "local">>, <<"before-decl", "fnlocal">>,
        <<"other-module", "global">>, <<"other-module", "globalfn">>,
        <<"before-method", "self">>, <<"after-method", "self">>, <<"other-instance", "self">>,
        <<"before-decl", "fnlocal-mut">>, <<"before-decl", "fnlocal-tconst">>, <<"before-decl", "fnlocal-tmut">>,
        <<"before-decl", "fnlocal-paren-mut">>, <<"after-block", "fnlocal-mut">>} \subseteq cells
    /\ \A x \in cells : x[1] \in PosClasses \cup {"before-block", "before-if-branch", "before-elif-branch",
                                                  "before-else-branch", "before-case-arm", "before-case-else", "before-loop"}
    \* `self`: every arrangement of the fields of a literal - the word is planted in a data field before the first
    \* method, after a method, after a parenthesised method, in the fields of a nested literal, in the fields of a
    \* literal that is built inside a method of another blob (there it is that method's instance), inside the methods
    /\ LET k == SkInfo(23)
           at(b, s) == IF PairInScope(k, b, s) THEN "in" ELSE PosClass(k.sc, b, s)
       IN /\ at(41, 21) = "before-method" /\ at(41, 22) = "after-method" /\ at(41, 23) = "after-method"
          /\ at(41, 2) = "in" /\ at(41, 3) = "in"
          /\ at(41, 24) = "after-method" /\ at(41, 4) = "other-instance" /\ at(42, 4) = "in" /\ at(42, 25) = "after-method"
          /\ at(42, 24) = "before-method" /\ at(41, 26) = "after-method"
          /\ at(43, 27) = "in" /\ at(43, 29) = "in" /\ at(43, 28) = "other-instance" /\ at(44, 28) = "in"
          /\ at(44, 27) = "other-instance" /\ at(44, 29) = "other-instance" /\ at(41, 1) = "before-method" /\ at(41, 6) = "after-method"
    \* scopes that sit directly in a global's initialiser
    /\ {"after-if-branch", "after-else-branch", "after-case-arm", "after-block", "before-decl"} \subseteq AllGInitCells
\* every syntactic position is planted out of scope inside void and inside value-returning functions (and, but for
\* ret, at module level), and every position that can be well typed has an accepted in-scope base
ASSUME FormsCovered == LET fc == AllFormCells IN
    /\ \A fm \in StmtForms : <<fm, FALSE, "void">> \in fc /\ <<fm, FALSE, "value">> \in fc
    /\ \A fm \in StmtForms \ {"ret-call", "ret-val"} : <<fm, FALSE, "none">> \in fc
    /\ \A fm \in StmtForms \ {"index-base", "field-base"} : \E x \in fc : x[1] = fm /\ x[2]
    /\ <<"ret-call", TRUE, "void">> \in fc /\ <<"ret-val", TRUE, "value">> \in fc
    /\ <<"expr", FALSE, "none">> \in fc
\* dead code: behind every kind of jump, directly in every kind of block (function body, do block, if / elif / else
\* body, case arm, case else, loop body) there is a use whose binder is not visible; the wrapped forms are planted
\* out of scope at every statement slot of the round-1/2 skeletons
DeadCellsOf(k) == {<<p[3], InnerFk(k, p[2])>> : p \in {q \in OosTriples(k) : q[3] \in DeadDirect}}
ASSUME DeadCovered == LET dc == UNION {DeadCellsOf(SkInfo(i)) : i \in Sk} IN
    /\ \A fk \in FrameKinds \ {"method"} : \E x \in dc : x[2] = fk /\ x[1] \in {"dead-ret", "dead-retv"}
    /\ \A fk \in {"loop", "if-branch", "case-arm", "case-else", "block"} :
          <<"dead-break", fk>> \in dc /\ <<"dead-continue", fk>> \in dc
    /\ \A i \in 1..17 : LET k == SkInfo(i) IN \A p \in Pairs(k) :
          (IsStmtSlot(p[2]) /\ ~PairInScope(k, p[1], p[2])) => \A fm \in DeadWrapped : <<p[1], p[2], fm>> \in Triples(k)
    /\ \E i \in Sk : \E p \in InTriples(SkInfo(i)) : p[3] \in DeadDirect
\* the recursive local function of skeletons 18..22 may take the name of the global function, of the parameter and of
\* the enclosing local around it (and every other binder's but its own parameter's), under every declaration kind
ASSUME LocalRecCovered == \A i \in 18..22 : LET k == SkInfo(i) IN
    /\ k.sc.bk[6] = (IF DeclKindOf(i) = "const" THEN "fnlocal" ELSE "fnlocal-" \o DeclKindOf(i))
    /\ \A j \in {1, 2, 3, 4, 5} : Legal(k.evs, k.G, PairMerge(k.nb, j, 6))
    /\ ~Legal(k.evs, k.G, [x \in 1..k.nb |-> IF x = 7 THEN 6 ELSE x])
\* role names: every binder kind can legally carry `start` somewhere, and a global of another module too
SpecialCellsOf(k, r) == {k.sc.bk[j] : j \in {x \in 1..k.nb : Legal(k.evs, k.G, SpecialNaming(k.nb, x, r))}}
ASSUME SpecialCovered ==
    /\ {"param", "local", "fnlocal", "casebind"} \subseteq UNION {SpecialCellsOf(SkInfo(i), 0 - SStart) : i \in Sk}
    /\ "globalfn" \in SpecialCellsOf(SkInfo(17), 0 - SStart)
    /\ \A i \in Sk \ {17} : SpecialCellsOf(SkInfo(i), 0 - SStart) \cap {"global", "globalfn"} = {}
    /\ \A r \in SpecialNames : \E i \in Sk : SpecialCellsOf(SkInfo(i), r) # {}
=============================================================================
