SPECIFICATION CSpec
CONSTANTS
  Inputs <- MCInputs
  Procs <- MCProcs
  Results <- MCResults
  Cfgs <- MCCfgs
  Mode <- MCSpelling
  MaxRuns = 4
INVARIANTS SeenIsImageOfHist SpellingIndependence
CHECK_DEADLOCK FALSE
