------------------------------ MODULE SyltShapes ------------------------------
(***************************************************************************)
(* C05 - shape rules and the entry point.                                  *)
(*                                                                         *)
(* The property: rejected at compile time are                              *)
(*   literal-fields    a blob literal with a missing or an unknown field,  *)
(*   field-access      reading / writing a field the blob does not have,   *)
(*   variant-exists    constructing / matching a variant the enum lacks,   *)
(*   case-totality     a `case` without `else` that does not list exactly  *)
(*                     the enum's variants,                                *)
(*   tuple-index       a constant tuple index outside the tuple's length,  *)
(*   tuple-length      tuples of different lengths meeting in == + = call, *)
(*   extern-instance   a literal of an `externblob`,                       *)
(*   loop-control      break / continue not inside a loop OF THE SAME      *)
(*                     FUNCTION,                                           *)
(*   entry-point       no `start` of type fn -> void in the main file.     *)
(*                                                                         *)
(* This module defines the universe: CELLS (a violation kind at a          *)
(* declaration shape: an accepted base snippet and the same snippet with   *)
(* the violation planted) placed in every CONTEXT, plus the entry-point    *)
(* programs.  Expectation: every base program is accepted and its Lua      *)
(* loads; every planted program is rejected (Expect).                      *)
(*                                                                         *)
(* Continued in SyltShapesFam: the loop-control and the case-totality      *)
(* clause stated as rules over the program text (LoopControlOk, CaseOk)    *)
(* and evaluated on every function flavour x loop-carrying context and on  *)
(* every multiset of case arms (a separate module so that its model does   *)
(* not re-evaluate the universe below).                                    *)
(***************************************************************************)
EXTENDS SyltAst, FiniteSets, TLC

CONSTANTS PoolSize,     \* number of field / variant names available (3 or 4)
          MaxMembers    \* largest field / variant set (3)

Raw(text) == [k |-> "raw", text |-> text]

(* ---------------------------------------------------------------- declaration shapes *)
FName == <<"fa", "fb", "fc", "fd">>
VName == <<"Va", "Vb", "Vc", "Vd">>
MTyText == <<"int", "str", "bool", "float">>       \* type of member i (field type / variant payload)
MVal(i) == CASE i = 1 -> I(1) [] i = 2 -> St("s") [] i = 3 -> Bo(TRUE) [] i = 4 -> Fl(3, 1)
VHasPay(i) == i \in {1, 3}                          \* Va int, Vb, Vc bool, Vd

RECURSIVE SortedSeq(_)
SortedSeq(S) == IF S = {} THEN <<>>
                ELSE LET m == CHOOSE x \in S : \A y \in S : x <= y IN <<m>> \o SortedSeq(S \ {m})

\* a shape: which members of the pool (ascending = declaration order), generic or not
Shapes == {[idx |-> SortedSeq(S), gen |-> g] :
             S \in {X \in SUBSET (1..PoolSize) : Cardinality(X) <= MaxMembers}, g \in BOOLEAN}
N(sh) == Len(sh.idx)

Digit(n) == CASE n = 0 -> "0" [] n = 1 -> "1" [] n = 2 -> "2" [] n = 3 -> "3" [] n = 4 -> "4" [] n = 5 -> "5"
RECURSIVE IdxText(_, _)
IdxText(idx, j) == IF j > Len(idx) THEN "" ELSE Digit(idx[j]) \o IdxText(idx, j + 1)
\* class used in signatures: number of members / generic; the member set goes into `sub`
ShapeClass(sh) == Digit(N(sh)) \o (IF sh.gen THEN "/generic" ELSE "/plain")
ShapeSub(sh) == "m" \o IdxText(sh.idx, 1)

\* the first member that can carry the type parameter (fields: the first; variants: the first with a payload)
GenericField(sh) == IF sh.gen /\ N(sh) > 0 THEN sh.idx[1] ELSE 0
GenericVariant(sh) ==
    IF sh.gen /\ \E j \in 1..N(sh) : VHasPay(sh.idx[j])
    THEN sh.idx[CHOOSE j \in 1..N(sh) : VHasPay(sh.idx[j]) /\ \A l \in 1..(j - 1) : ~VHasPay(sh.idx[l])]
    ELSE 0

RECURSIVE FieldsText(_, _, _)
FieldsText(sh, j, g) ==
    IF j > N(sh) THEN ""
    ELSE FName[sh.idx[j]] \o ": " \o (IF sh.idx[j] = g THEN "*T" ELSE MTyText[sh.idx[j]]) \o ", " \o FieldsText(sh, j + 1, g)
\* `A :: blob(*T) { fa: *T, fb: str, }`  (kw = "blob" or "externblob")
BlobDeclText(name, kw, sh) ==
    name \o " :: " \o kw \o (IF sh.gen THEN "(*T)" ELSE "") \o " { " \o FieldsText(sh, 1, GenericField(sh)) \o "}"

RECURSIVE VariantsText(_, _, _)
VariantsText(sh, j, g) ==
    IF j > N(sh) THEN ""
    ELSE VName[sh.idx[j]]
         \o (IF VHasPay(sh.idx[j]) THEN " " \o (IF sh.idx[j] = g THEN "*T" ELSE MTyText[sh.idx[j]]) ELSE "")
         \o ", " \o VariantsText(sh, j + 1, g)
\* `E :: enum(*T) Va *T, Vb, end`
EnumDeclText(name, sh) ==
    name \o " :: enum" \o (IF sh.gen THEN "(*T)" ELSE "") \o " " \o VariantsText(sh, 1, GenericVariant(sh)) \o "end"

Without(seq, j) == SubSeq(seq, 1, j - 1) \o SubSeq(seq, j + 1, Len(seq))

(* ---------------------------------------------------------------- snippets: blobs *)
\* local binder ids used by snippets: 1 value, 2 parameter, 3 local function, 4 enum value, 5.. case bindings,
\* 10/11 tuples, 20/21 loop counters.  Contexts use 900+.
TA == TName("A")
TEn == TName("E")
TExt == TName("Ext")
BFull(sh) == [j \in 1..N(sh) |-> FI(FName[sh.idx[j]], MVal(sh.idx[j]))]
BLit(name, sh) == BlobL(name, BFull(sh))
F1(sh) == FName[sh.idx[1]]
\* use of a blob value v that touches a declared field when there is one
ReadKnown(sh, v) == IF N(sh) > 0 THEN Print(Fld(v, F1(sh))) ELSE Ex(v)
WriteKnown(sh, v) == IF N(sh) > 0 THEN <<Asg("=", Fld(v, F1(sh)), MVal(sh.idx[1]))>> ELSE <<>>
LocalFn(param, pty, body) == DefC(3, TNone, Fn(<<P(param, pty)>>, TVoid, body))

Cell(kind, sh, sub, decls, base, planted) ==
    [kind |-> kind, shape |-> ShapeClass(sh), sub |-> ShapeSub(sh) \o sub, decls |-> decls, base |-> base, planted |-> planted]

BlobCells ==
  UNION {
    LET d == <<Raw(BlobDeclText("A", "blob", sh))>>
        lit == BLit("A", sh)
        def == DefM(1, TNone, lit)
    IN
      \* literal lacks field j
      {Cell("blob-missing-field", sh, "-omit" \o Digit(j), d,
            <<DefC(1, TNone, lit)>>, <<DefC(1, TNone, BlobL("A", Without(BFull(sh), j)))>>) : j \in 1..N(sh)}
      \* literal has a field the blob does not declare (written last / first)
      \cup {Cell("blob-extra-field", sh, "-last", d,
            <<DefC(1, TNone, lit)>>, <<DefC(1, TNone, BlobL("A", BFull(sh) \o <<FI("zz", I(1))>>))>>)}
      \cup (IF N(sh) > 0 THEN {Cell("blob-extra-field", sh, "-first", d,
            <<DefC(1, TNone, lit)>>, <<DefC(1, TNone, BlobL("A", <<FI("zz", I(1))>> \o BFull(sh)))>>)} ELSE {})
      \* unknown field read directly on a literal / through a variable
      \cup {Cell("blob-read-unknown-on-literal", sh, "", d,
            <<DefC(1, TNone, IF N(sh) > 0 THEN Fld(lit, F1(sh)) ELSE lit)>>, <<DefC(1, TNone, Fld(lit, "zz"))>>)}
      \cup {Cell("blob-read-unknown", sh, "", d, <<def, ReadKnown(sh, V(1))>>, <<def, Print(Fld(V(1), "zz"))>>)}
      \* unknown field written
      \cup {Cell("blob-write-unknown", sh, "", d, <<def>> \o WriteKnown(sh, V(1)), <<def, Asg("=", Fld(V(1), "zz"), I(1))>>)}
      \* through a parameter annotated with the blob type (function called)
      \cup {Cell("blob-param-read-unknown", sh, "", d,
            <<def, LocalFn(2, TA, <<ReadKnown(sh, V(2))>>), Ex(Call(V(3), <<V(1)>>))>>,
            <<def, LocalFn(2, TA, <<Print(Fld(V(2), "zz"))>>), Ex(Call(V(3), <<V(1)>>))>>)}
      \cup {Cell("blob-param-write-unknown", sh, "", d,
            <<def, LocalFn(2, TA, WriteKnown(sh, V(2))), Ex(Call(V(3), <<V(1)>>))>>,
            <<def, LocalFn(2, TA, <<Asg("=", Fld(V(2), "zz"), I(1))>>), Ex(Call(V(3), <<V(1)>>))>>)}
      \* annotated parameter, function never called
      \cup {Cell("blob-param-read-unknown-uncalled", sh, "", d,
            <<LocalFn(2, TA, <<ReadKnown(sh, V(2))>>)>>, <<LocalFn(2, TA, <<Print(Fld(V(2), "zz"))>>)>>)}
      \* through an unannotated parameter: the requirement meets the blob at the call
      \cup {Cell("blob-untyped-param-read-unknown", sh, "", d,
            <<def, LocalFn(2, TNone, <<ReadKnown(sh, V(2))>>), Ex(Call(V(3), <<V(1)>>))>>,
            <<def, LocalFn(2, TNone, <<Print(Fld(V(2), "zz"))>>), Ex(Call(V(3), <<V(1)>>))>>)}
    : sh \in Shapes }

(* ---------------------------------------------------------------- snippets: externblob *)
ExternCells ==
  { LET d == <<Raw(BlobDeclText("Ext", "externblob", sh)),
               DefN(950, "const", TNone, Fn(<<P(2, TExt)>>, TVoid, <<ReadKnown(sh, V(2))>>), "extuse")>>
    IN Cell("extern-instantiated", sh, "", d, <<DefC(1, TNone, I(0))>>, <<DefC(1, TNone, BLit("Ext", sh))>>)
    : sh \in Shapes }

(* ---------------------------------------------------------------- snippets: enums *)
VLit(i) == IF VHasPay(i) THEN Var1("E", VName[i], MVal(i)) ELSE Var0("E", VName[i])
\* one arm per listed variant; payload variants bind and print their payload
Arm(i, j) == IF VHasPay(i) THEN CArmB(VName[i], 5 + j, <<Print(V(5 + j))>>) ELSE CArm(VName[i], <<>>)
Arms(sh) == [j \in 1..N(sh) |-> Arm(sh.idx[j], j)]
ZArm == CArm("Zz", <<>>)
ZArmB == CArmB("Zz", 9, <<Print(V(9))>>)

EnumCells ==
  UNION {
    LET d == <<Raw(EnumDeclText("E", sh))>>
        val == IF N(sh) > 0 THEN VLit(sh.idx[1]) ELSE I(0)
        def == DefM(4, TNone, val)
        \* scrutinee through a parameter annotated with the enum type; called when a value exists
        viaParam(arms) == <<LocalFn(2, TEn, <<Ex(CaseT(V(2), arms))>>)>>
                          \o (IF N(sh) > 0 THEN <<Ex(Call(V(3), <<val>>))>> ELSE <<>>)
        viaUntyped(arms) == <<LocalFn(2, TNone, <<Ex(CaseT(V(2), arms))>>), Ex(Call(V(3), <<val>>))>>
    IN
      \* a variant the enum does not have is constructed (with / without payload)
      {Cell("enum-construct-unknown", sh, "-payload", d, <<DefC(4, TNone, val)>>, <<DefC(4, TNone, Var1("E", "Zz", I(1)))>>),
       Cell("enum-construct-unknown", sh, "-bare", d, <<DefC(4, TNone, val)>>, <<DefC(4, TNone, Var0("E", "Zz"))>>)}
      \* ... matched in a case that has an else (so totality is not in play)
      \cup (IF N(sh) > 0 THEN
             {Cell("enum-match-unknown", sh, "-last", d,
                   <<def, Ex(CaseE(V(4), Arms(sh), <<>>))>>, <<def, Ex(CaseE(V(4), Arms(sh) \o <<ZArm>>, <<>>))>>),
              Cell("enum-match-unknown", sh, "-first", d,
                   <<def, Ex(CaseE(V(4), Arms(sh), <<>>))>>, <<def, Ex(CaseE(V(4), <<ZArm>> \o Arms(sh), <<>>))>>),
              Cell("enum-match-unknown", sh, "-binding", d,
                   <<def, Ex(CaseE(V(4), Arms(sh), <<>>))>>, <<def, Ex(CaseE(V(4), Arms(sh) \o <<ZArmB>>, <<>>))>>),
              Cell("enum-match-unknown", sh, "-only", d,
                   <<def, Ex(CaseE(V(4), <<>>, <<>>))>>, <<def, Ex(CaseE(V(4), <<ZArm>>, <<>>))>>)}
            ELSE {})
      \* case without else: one variant not listed / an unknown variant listed in addition
      \cup {Cell("case-missing-variant", sh, "-omit" \o Digit(j), d,
                 <<def, Ex(CaseT(V(4), Arms(sh)))>>, <<def, Ex(CaseT(V(4), Without(Arms(sh), j)))>>) : j \in 1..N(sh)}
      \cup (IF N(sh) > 0 THEN
             {Cell("case-extra-variant", sh, "", d,
                   <<def, Ex(CaseT(V(4), Arms(sh)))>>, <<def, Ex(CaseT(V(4), Arms(sh) \o <<ZArm>>))>>)}
            ELSE {})
      \cup {Cell("case-param-missing-variant", sh, "-omit" \o Digit(j), d,
                 viaParam(Arms(sh)), viaParam(Without(Arms(sh), j))) : j \in 1..N(sh)}
      \cup {Cell("case-param-extra-variant", sh, "", d, viaParam(Arms(sh)), viaParam(Arms(sh) \o <<ZArm>>))}
      \* annotated parameter, function never called
      \cup {Cell("case-param-missing-variant-uncalled", sh, "-omit" \o Digit(j), d,
                 <<LocalFn(2, TEn, <<Ex(CaseT(V(2), Arms(sh)))>>)>>, <<LocalFn(2, TEn, <<Ex(CaseT(V(2), Without(Arms(sh), j)))>>)>>) : j \in 1..N(sh)}
      \* unannotated parameter: the requirement meets the enum at the call
      \cup {Cell("case-untyped-param-missing-variant", sh, "-omit" \o Digit(j), d,
                 viaUntyped(Arms(sh)), viaUntyped(Without(Arms(sh), j))) : j \in 1..N(sh)}
      \cup (IF N(sh) > 0 THEN
             {Cell("case-untyped-param-extra-variant", sh, "", d, viaUntyped(Arms(sh)), viaUntyped(Arms(sh) \o <<ZArm>>))}
            ELSE {})
    : sh \in Shapes }

(* ---------------------------------------------------------------- snippets: tuples *)
TupLens == 1..3
TupLit(n) == Tup([j \in 1..n |-> I(j)])
TupTy(n) == TTuple([j \in 1..n |-> TInt])
TCell(kind, shape, sub, base, planted) ==
    [kind |-> kind, shape |-> shape, sub |-> sub, decls |-> <<>>, base |-> base, planted |-> planted]
TupNest(n) == Tup(<<TupLit(n), I(0)>>)
TupOps == {"==", "!=", "+", "-", "*", "<", "<="}
OpName(op) == CASE op = "==" -> "eq" [] op = "!=" -> "ne" [] op = "+" -> "add" [] op = "-" -> "sub" [] op = "*" -> "mul"
                [] op = "<" -> "lt" [] op = "<=" -> "le"
LenPairs == {<<n, m>> \in TupLens \X TupLens : n # m}
PairShape(n, m) == "len" \o Digit(n) \o "/len" \o Digit(m)

TupleCells ==
  UNION {
    {TCell("tuple-index-eq-length", "len" \o Digit(n), "literal",
           <<DefC(11, TNone, Idx(TupLit(n), n - 1))>>, <<DefC(11, TNone, Idx(TupLit(n), n))>>),
     TCell("tuple-index-eq-length", "len" \o Digit(n), "variable",
           <<DefC(10, TNone, TupLit(n)), DefC(11, TNone, Idx(V(10), n - 1))>>, <<DefC(10, TNone, TupLit(n)), DefC(11, TNone, Idx(V(10), n))>>),
     TCell("tuple-index-length-plus-1", "len" \o Digit(n), "literal",
           <<DefC(11, TNone, Idx(TupLit(n), n - 1))>>, <<DefC(11, TNone, Idx(TupLit(n), n + 1))>>),
     TCell("tuple-index-length-plus-1", "len" \o Digit(n), "variable",
           <<DefC(10, TNone, TupLit(n)), DefC(11, TNone, Idx(V(10), 0))>>, <<DefC(10, TNone, TupLit(n)), DefC(11, TNone, Idx(V(10), n + 1))>>),
     TCell("tuple-index-eq-length", "len" \o Digit(n), "annotated-param",
           <<LocalFn(2, TupTy(n), <<Print(Idx(V(2), n - 1))>>)>>, <<LocalFn(2, TupTy(n), <<Print(Idx(V(2), n))>>)>>)}
    : n \in TupLens }
  \cup UNION {
    LET n == p[1]
        m == p[2]
    IN
    {TCell("tuple-length-mismatch-" \o OpName(op), PairShape(n, m), "",
           <<DefC(11, TNone, Bin(op, TupLit(n), TupLit(n)))>>, <<DefC(11, TNone, Bin(op, TupLit(n), TupLit(m)))>>) : op \in TupOps}
    \cup {TCell("tuple-length-mismatch-" \o OpName(op), PairShape(n, m), "nested",
           <<DefC(11, TNone, Bin(op, TupNest(n), TupNest(n)))>>, <<DefC(11, TNone, Bin(op, TupNest(n), TupNest(m)))>>) : op \in {"==", "+"}}
    \cup
    {TCell("tuple-length-mismatch-list-elements", PairShape(n, m), "",
           <<DefC(11, TNone, Lst(<<TupLit(n), TupLit(n)>>))>>, <<DefC(11, TNone, Lst(<<TupLit(n), TupLit(m)>>))>>),
     TCell("tuple-length-mismatch-return", PairShape(n, m), "",
           <<DefC(3, TNone, Fn(<<>>, TupTy(n), <<Ex(TupLit(n))>>))>>, <<DefC(3, TNone, Fn(<<>>, TupTy(n), <<Ex(TupLit(m))>>))>>),
     TCell("tuple-length-mismatch-annotated-def", PairShape(n, m), "",
           <<DefM(10, TupTy(n), TupLit(n))>>, <<DefM(10, TupTy(n), TupLit(m))>>),
     TCell("tuple-length-mismatch-assign", PairShape(n, m), "",
           <<DefM(10, TupTy(n), TupLit(n)), Asg("=", V(10), TupLit(n))>>, <<DefM(10, TupTy(n), TupLit(n)), Asg("=", V(10), TupLit(m))>>),
     TCell("tuple-length-mismatch-argument", PairShape(n, m), "",
           <<LocalFn(2, TupTy(n), <<>>), Ex(Call(V(3), <<TupLit(n)>>))>>, <<LocalFn(2, TupTy(n), <<>>), Ex(Call(V(3), <<TupLit(m)>>))>>)}
    : p \in LenPairs }

(* ---------------------------------------------------------------- snippets: break / continue *)
\* a terminating loop around `body`, counter id c
LoopAround(c, body) == <<DefM(c, TInt, I(0)), Loop(Bin("<", V(c), I(1)), <<Asg("+=", V(c), I(1))>> \o body)>>
Words == {"break", "continue"}
W(w) == IF w = "break" THEN Break ELSE Cont
\* `inner` is what sits inside a function that is inside a loop
InLoopFn(form, inner) ==
    CASE form = "closure"  -> LoopAround(20, <<Ex(Call(Fn(<<>>, TVoid, inner), <<>>))>>)
      [] form = "fn-def"   -> LoopAround(20, <<DefC(3, TNone, Fn(<<>>, TVoid, inner)), Ex(Call(V(3), <<>>))>>)
      [] form = "method"   -> LoopAround(20, <<DefC(3, TNone, BlobL("CM", <<FI("m", Fn(<<>>, TVoid, inner))>>)),
                                               Ex(Call(Fld(V(3), "m"), <<>>))>>)
      [] form = "closure-argument" -> LoopAround(20, <<Ex(Call(V(951), <<Fn(<<>>, TVoid, inner)>>))>>)
FnForms == {"closure", "fn-def", "method", "closure-argument"}
LCell(kind, sub, decls, base, planted) ==
    [kind |-> kind, shape |-> "-", sub |-> sub, decls |-> decls, base |-> base, planted |-> planted]
\* helper that calls the closure it is given
CallerDecl == <<DefN(951, "const", TNone, Fn(<<P(2, TFn(<<>>, TVoid))>>, TVoid, <<Ex(Call(V(2), <<>>))>>), "callit")>>

LoopCells ==
  UNION {
    {LCell(w \o "-outside-loop", "bare", <<>>, LoopAround(21, <<W(w)>>), <<W(w)>>),
     LCell(w \o "-outside-loop", "after-loop", <<>>, LoopAround(21, <<W(w)>>), LoopAround(21, <<>>) \o <<W(w)>>),
     LCell(w \o "-outside-loop", "in-if", <<>>, LoopAround(21, <<Ex(If1(Bo(TRUE), <<W(w)>>))>>), <<Ex(If1(Bo(TRUE), <<W(w)>>))>>)}
    \cup {LCell(w \o "-in-" \o f \o "-in-loop", "direct", CallerDecl,
                InLoopFn(f, LoopAround(21, <<W(w)>>)), InLoopFn(f, <<W(w)>>)) : f \in FnForms}
    \cup {LCell(w \o "-in-" \o f \o "-in-loop", "in-if", CallerDecl,
                InLoopFn(f, LoopAround(21, <<Ex(If1(Bo(TRUE), <<W(w)>>))>>)), InLoopFn(f, <<Ex(If1(Bo(TRUE), <<W(w)>>))>>)) : f \in FnForms}
    : w \in Words }

(* ---------------------------------------------------------------- contexts *)
GStart == 1000
GHelper == 1001
GRes == 1002
CtxPrelude == <<EnumD("CE", <<VD1("P", TInt), VD0("Q")>>), BlobD("CM", <<FD("m", TFn(<<>>, TVoid))>>)>>
StartDef(body) == DefN(GStart, "const", TNone, Fn(<<>>, TVoid, body), "start")

\* a snippet that is one definition can also be a global definition
IsSingleDef(stmts) == Len(stmts) = 1 /\ stmts[1].k = "def"

ContextNames == {"start", "helper", "global", "global-iife", "closure", "branch", "else-branch", "case-arm",
                 "case-else", "loop", "method"}

InContext(c, s) ==
  CASE c = "start"  -> <<StartDef(s)>>
    [] c = "helper" -> <<DefN(GHelper, "const", TNone, Fn(<<>>, TVoid, s), "helper"), StartDef(<<Ex(Call(V(GHelper), <<>>))>>)>>
    [] c = "global" -> <<DefN(GRes, s[1].kind, s[1].ty, s[1].e, "gres"), StartDef(<<Ex(V(GRes))>>)>>
    [] c = "global-iife" -> <<DefN(GRes, "const", TNone, IIFE(TInt, s \o <<Ex(I(0))>>), "gres"), StartDef(<<Ex(V(GRes))>>)>>
    [] c = "closure" -> <<StartDef(<<DefC(901, TNone, Fn(<<>>, TVoid, s)), Ex(Call(V(901), <<>>))>>)>>
    [] c = "branch" -> <<StartDef(<<DefM(902, TBool, Bo(TRUE)), Ex(If2(V(902), s, <<>>))>>)>>
    [] c = "else-branch" -> <<StartDef(<<DefM(902, TBool, Bo(TRUE)), Ex(If2(V(902), <<>>, s))>>)>>
    [] c = "case-arm" -> <<StartDef(<<DefM(903, TNone, Var1("CE", "P", I(1))),
                                      Ex(CaseE(V(903), <<CArmB("P", 904, s)>>, <<>>))>>)>>
    [] c = "case-else" -> <<StartDef(<<DefM(903, TNone, Var1("CE", "P", I(1))),
                                       Ex(CaseE(V(903), <<CArm("Q", <<>>)>>, s))>>)>>
    [] c = "loop" -> <<StartDef(<<DefM(905, TInt, I(0)),
                                  Loop(Bin("<", V(905), I(1)), <<Asg("+=", V(905), I(1))>> \o s)>>)>>
    [] c = "method" -> <<StartDef(<<DefC(906, TNone, BlobL("CM", <<FI("m", Fn(<<>>, TVoid, s))>>)),
                                    Ex(Call(Fld(V(906), "m"), <<>>))>>)>>

\* where a cell can be placed: `global` needs a single definition in base and planted; a break / continue that is
\* planted directly (not inside its own function) would be legal inside the context's loop
ContextsOf(cell) ==
  {c \in ContextNames :
     /\ (c = "global" => IsSingleDef(cell.base) /\ IsSingleDef(cell.planted))
     /\ (c = "loop" => ~(cell.kind \in {"break-outside-loop", "continue-outside-loop"}))}

Cells == BlobCells \cup ExternCells \cup EnumCells \cup TupleCells \cup LoopCells

Program(cell, c, which) ==
  [main |-> CtxPrelude \o cell.decls \o InContext(c, IF which = "base" THEN cell.base ELSE cell.planted), other |-> <<>>]

ShapeCases ==
  UNION { {[id |-> [kind |-> cell.kind, shape |-> cell.shape, sub |-> cell.sub, ctx |-> c],
            base |-> Program(cell, c, "base"), planted |-> Program(cell, c, "planted")] : c \in ContextsOf(cell)}
          : cell \in Cells }

(* ---------------------------------------------------------------- the entry point *)
GoodStart(pure) == DefN(GStart, "const", TNone, IF pure THEN Pu(<<>>, TVoid, <<>>) ELSE Fn(<<>>, TVoid, <<>>), "start")
Filler == DefN(GRes, "const", TInt, I(1), "gres")
MkFn(pure, ps, r, body) == IF pure THEN Pu(ps, r, body) ELSE Fn(ps, r, body)
\* [main, other] of the planted program; the base is the same with a well-typed start in the main file
EntryKinds == {"no-start", "start-only-in-used-file", "start-only-in-used-file-and-called", "start-only-local",
               "start-takes-parameter", "start-takes-untyped-parameter", "start-returns-int", "start-returns-untyped-value",
               "start-is-int-constant", "start-is-list-constant"}
BadStart(kind, pure) ==
  CASE kind = "start-takes-parameter" -> DefN(GStart, "const", TNone, MkFn(pure, <<P(1, TInt)>>, TVoid, <<>>), "start")
    [] kind = "start-takes-untyped-parameter" -> DefN(GStart, "const", TNone, MkFn(pure, <<P(1, TNone)>>, TVoid, <<>>), "start")
    [] kind = "start-returns-int" -> DefN(GStart, "const", TNone, MkFn(pure, <<>>, TInt, <<Ex(I(1))>>), "start")
    [] kind = "start-returns-untyped-value" -> DefN(GStart, "const", TNone, MkFn(pure, <<>>, TNone, <<Ex(I(1))>>), "start")
    [] kind = "start-is-int-constant" -> DefN(GStart, "const", TNone, I(1), "start")
    [] kind = "start-is-list-constant" -> DefN(GStart, "const", TNone, Lst(<<I(1)>>), "start")
LocalStartText == "helper :: fn do\n    start :: fn do\n    end\n    start()\nend"
UseOther == Raw("use other")
OtherWithStart == <<StartDef(<<>>)>>
OtherPlain == <<DefN(1003, "const", TInt, I(2), "oval")>>

EntryCell(kind, sub, ctx, bmain, pmain, other) ==
  [id |-> [kind |-> "entry-" \o kind, shape |-> "-", sub |-> sub, ctx |-> ctx],
   base |-> [main |-> bmain, other |-> other], planted |-> [main |-> pmain, other |-> other]]

EntryCases ==
  UNION {
    {EntryCell("no-start", fl, "single-file", <<Filler, GoodStart(pure)>>, <<Filler>>, <<>>),
     EntryCell("no-start", fl, "uses-file-without-start", <<UseOther, Filler, GoodStart(pure)>>, <<UseOther, Filler>>, OtherPlain),
     EntryCell("start-only-in-used-file", fl, "uses-file-with-start",
               <<UseOther, Filler, GoodStart(pure)>>, <<UseOther, Filler>>, <<GoodStart(pure)>>),
     EntryCell("start-only-in-used-file-and-called", fl, "uses-file-with-start",
               <<UseOther, DefN(GHelper, "const", TNone, Fn(<<>>, TVoid, <<Ex(Call(Std("other.start"), <<>>))>>), "helper"), GoodStart(pure)>>,
               <<UseOther, DefN(GHelper, "const", TNone, Fn(<<>>, TVoid, <<Ex(Call(Std("other.start"), <<>>))>>), "helper")>>,
               <<GoodStart(pure)>>),
     EntryCell("start-only-local", fl, "single-file", <<Raw(LocalStartText), GoodStart(pure)>>, <<Raw(LocalStartText)>>, <<>>)}
    \cup UNION {
      {EntryCell(kd, fl, "single-file", <<Filler, GoodStart(pure)>>, <<Filler, BadStart(kd, pure)>>, <<>>),
       EntryCell(kd, fl, "uses-file-without-start", <<UseOther, Filler, GoodStart(pure)>>, <<UseOther, Filler, BadStart(kd, pure)>>, OtherPlain),
       \* a used file offers a well-typed start: the main file's own start is still the wrong one
       EntryCell(kd, fl, "uses-file-with-start", <<UseOther, Filler, GoodStart(pure)>>, <<UseOther, Filler, BadStart(kd, pure)>>, OtherWithStart),
       EntryCell(kd, fl, "start-defined-first", <<GoodStart(pure), Filler>>, <<BadStart(kd, pure), Filler>>, <<>>)}
      : kd \in EntryKinds \ {"no-start", "start-only-in-used-file", "start-only-in-used-file-and-called", "start-only-local"} }
    : <<fl, pure>> \in {<<"fn", FALSE>>, <<"pu", TRUE>>} }

Cases == ShapeCases \cup EntryCases

(* ---------------------------------------------------------------- expectation *)
Clause(kind) ==
  CASE kind \in {"blob-missing-field", "blob-extra-field"} -> "literal-fields"
    [] kind \in {"blob-read-unknown-on-literal", "blob-read-unknown", "blob-write-unknown", "blob-param-read-unknown",
                 "blob-param-write-unknown", "blob-param-read-unknown-uncalled", "blob-untyped-param-read-unknown"} -> "field-access"
    [] kind \in {"enum-construct-unknown", "enum-match-unknown"} -> "variant-exists"
    [] kind \in {"case-missing-variant", "case-extra-variant", "case-param-missing-variant", "case-param-extra-variant",
                 "case-param-missing-variant-uncalled", "case-untyped-param-missing-variant", "case-untyped-param-extra-variant"} -> "case-totality"
    [] kind \in {"tuple-index-eq-length", "tuple-index-length-plus-1"} -> "tuple-index"
    [] kind \in {"tuple-length-mismatch-" \o OpName(op) : op \in TupOps}
             \cup {"tuple-length-mismatch-annotated-def", "tuple-length-mismatch-assign", "tuple-length-mismatch-argument",
                   "tuple-length-mismatch-list-elements", "tuple-length-mismatch-return"} -> "tuple-length"
    [] kind = "extern-instantiated" -> "extern-instance"
    [] kind \in {w \o "-outside-loop" : w \in Words} \cup {w \o "-in-" \o f \o "-in-loop" : w \in Words, f \in FnForms} -> "loop-control"
    [] kind \in {"entry-" \o e : e \in EntryKinds} -> "entry-point"

Kinds == {c.id.kind : c \in Cases}

\* what the property demands of an observation [class, loads, stage]: stage = "syntax" when the parser rejected the
\* program - a planted program must get past the parser, or the case says nothing about the rule under test
BaseHolds(obs) == obs.class = "ok" /\ obs.loads = "yes"
PlantedHolds(obs) == obs.class = "err" /\ obs.stage # "syntax"
Why(base, planted) ==
  CASE planted.class = "ok" -> "planted-accepted"
    [] planted.class = "panic" -> "planted-panic"
    [] planted.class = "err" /\ planted.stage = "syntax" -> "planted-rejected-by-parser"
    [] base.class = "panic" -> "base-panic"
    [] base.class = "err" -> "base-rejected"
    [] base.loads # "yes" -> "base-does-not-load"
    [] OTHER -> "none"
=============================================================================
=============================================================================
