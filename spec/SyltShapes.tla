------------------------------ MODULE SyltShapes ------------------------------
(***************************************************************************)
(* C05 - shape rules and the entry point.                                  *)
(*                                                                         *)
(* The property: rejected at compile time are                              *)
(*   literal-fields    a blob literal with a missing or an unknown field,  *)
(*   field-access      reading / writing a field the blob does not have,   *)
(*   variant-exists    constructing / matching a variant the enum lacks,   *)
(*   case-totality     a `case` without `else` that does not list exactly  *)
(*                     the enum's variants,                                *)
(*   tuple-index       a constant tuple index outside the tuple's length,  *)
(*   tuple-length      tuples of different lengths meeting in == + = call, *)
(*   extern-instance   a literal of an `externblob`,                       *)
(*   loop-control      break / continue not inside a loop OF THE SAME      *)
(*                     FUNCTION,                                           *)
(*   entry-point       no `start` of type fn -> void in the main file.     *)
(*                                                                         *)
(* This module defines the universe: CELLS (a violation kind at a          *)
(* declaration shape: an accepted base snippet and the same snippet with   *)
(* the violation planted) placed in every CONTEXT, plus the entry-point    *)
(* programs.  Expectation: every base program is accepted and its Lua      *)
(* loads; every planted program is rejected (Expect).                      *)
(***************************************************************************)
EXTENDS SyltAst, FiniteSets, TLC

CONSTANTS PoolSize,     \* number of field / variant names available (3 or 4)
          MaxMembers    \* largest field / variant set (3)

Raw(text) == [k |-> "raw", text |-> text]

(* ---------------------------------------------------------------- declaration shapes *)
FName == <<"fa", "fb", "fc", "fd">>
VName == <<"Va", "Vb", "Vc", "Vd">>
MTyText == <<"int", "str", "bool", "float">>       \* type of member i (field type / variant payload)
MVal(i) == CASE i = 1 -> I(1) [] i = 2 -> St("s") [] i = 3 -> Bo(TRUE) [] i = 4 -> Fl(3, 1)
VHasPay(i) == i \in {1, 3}                          \* Va int, Vb, Vc bool, Vd

RECURSIVE SortedSeq(_)
SortedSeq(S) == IF S = {} THEN <<>>
                ELSE LET m == CHOOSE x \in S : \A y \in S : x <= y IN <<m>> \o SortedSeq(S \ {m})

\* a shape: which members of the pool (ascending = declaration order), generic or not
Shapes == {[idx |-> SortedSeq(S), gen |-> g] :
             S \in {X \in SUBSET (1..PoolSize) : Cardinality(X) <= MaxMembers}, g \in BOOLEAN}
N(sh) == Len(sh.idx)

Digit(n) == CASE n = 0 -> "0" [] n = 1 -> "1" [] n = 2 -> "2" [] n = 3 -> "3" [] n = 4 -> "4" [] n = 5 -> "5"
RECURSIVE IdxText(_, _)
IdxText(idx, j) == IF j > Len(idx) THEN "" ELSE Digit(idx[j]) \o IdxText(idx, j + 1)
\* class used in signatures: number of members / generic; the member set goes into `sub`
ShapeClass(sh) == Digit(N(sh)) \o (IF sh.gen THEN "/generic" ELSE "/plain")
ShapeSub(sh) == "m" \o IdxText(sh.idx, 1)

\* the first member that can carry the type parameter (fields: the first; variants: the first with a payload)
GenericField(sh) == IF sh.gen /\ N(sh) > 0 THEN sh.idx[1] ELSE 0
GenericVariant(sh) ==
    IF sh.gen /\ \E j \in 1..N(sh) : VHasPay(sh.idx[j])
    THEN sh.idx[CHOOSE j \in 1..N(sh) : VHasPay(sh.idx[j]) /\ \A l \in 1..(j - 1) : ~VHasPay(sh.idx[l])]
    ELSE 0

RECURSIVE FieldsText(_, _, _)
FieldsText(sh, j, g) ==
    IF j > N(sh) THEN ""
    ELSE FName[sh.idx[j]] \o ": " \o (IF sh.idx[j] = g THEN "*T" ELSE MTyText[sh.idx[j]]) \o ", " \o FieldsText(sh, j + 1, g)
\* `A :: blob(*T) { fa: *T, fb: str, }`  (kw = "blob" or "externblob")
BlobDeclText(name, kw, sh) ==
    name \o " :: " \o kw \o (IF sh.gen THEN "(*T)" ELSE "") \o " { " \o FieldsText(sh, 1, GenericField(sh)) \o "}"

RECURSIVE VariantsText(_, _, _)
VariantsText(sh, j, g) ==
    IF j > N(sh) THEN ""
    ELSE VName[sh.idx[j]]
         \o (IF VHasPay(sh.idx[j]) THEN " " \o (IF sh.idx[j] = g THEN "*T" ELSE MTyText[sh.idx[j]]) ELSE "")
         \o ", " \o VariantsText(sh, j + 1, g)
\* `E :: enum(*T) Va *T, Vb, end`
EnumDeclText(name, sh) ==
    name \o " :: enum" \o (IF sh.gen THEN "(*T)" ELSE "") \o " " \o VariantsText(sh, 1, GenericVariant(sh)) \o "end"

Without(seq, j) == SubSeq(seq, 1, j - 1) \o SubSeq(seq, j + 1, Len(seq))

(* ---------------------------------------------------------------- snippets: blobs *)
\* local binder ids used by snippets: 1 value, 2 parameter, 3 local function, 4 enum value, 5.. case bindings,
\* 10/11 tuples, 20/21 loop counters.  Contexts use 900+.
TA == TName("A")
TEn == TName("E")
TExt == TName("Ext")
BFull(sh) == [j \in 1..N(sh) |-> FI(FName[sh.idx[j]], MVal(sh.idx[j]))]
BLit(name, sh) == BlobL(name, BFull(sh))
F1(sh) == FName[sh.idx[1]]
\* use of a blob value v that touches a declared field when there is one
ReadKnown(sh, v) == IF N(sh) > 0 THEN Print(Fld(v, F1(sh))) ELSE Ex(v)
WriteKnown(sh, v) == IF N(sh) > 0 THEN <<Asg("=", Fld(v, F1(sh)), MVal(sh.idx[1]))>> ELSE <<>>
LocalFn(param, pty, body) == DefC(3, TNone, Fn(<<P(param, pty)>>, TVoid, body))

Cell(kind, sh, sub, decls, base, planted) ==
    [kind |-> kind, shape |-> ShapeClass(sh), sub |-> ShapeSub(sh) \o sub, decls |-> decls, base |-> base, planted |-> planted]

BlobCells ==
  UNION {
    LET d == <<Raw(BlobDeclText("A", "blob", sh))>>
        lit == BLit("A", sh)
        def == DefM(1, TNone, lit)
    IN
      \* literal lacks field j
      {Cell("blob-missing-field", sh, "-omit" \o Digit(j), d,
            <<DefC(1, TNone, lit)>>, <<DefC(1, TNone, BlobL("A", Without(BFull(sh), j)))>>) : j \in 1..N(sh)}
      \* literal has a field the blob does not declare (written last / first)
      \cup {Cell("blob-extra-field", sh, "-last", d,
            <<DefC(1, TNone, lit)>>, <<DefC(1, TNone, BlobL("A", BFull(sh) \o <<FI("zz", I(1))>>))>>)}
      \cup (IF N(sh) > 0 THEN {Cell("blob-extra-field", sh, "-first", d,
            <<DefC(1, TNone, lit)>>, <<DefC(1, TNone, BlobL("A", <<FI("zz", I(1))>> \o BFull(sh)))>>)} ELSE {})
      \* unknown field read directly on a literal / through a variable
      \cup {Cell("blob-read-unknown-on-literal", sh, "", d,
            <<DefC(1, TNone, IF N(sh) > 0 THEN Fld(lit, F1(sh)) ELSE lit)>>, <<DefC(1, TNone, Fld(lit, "zz"))>>)}
      \cup {Cell("blob-read-unknown", sh, "", d, <<def, ReadKnown(sh, V(1))>>, <<def, Print(Fld(V(1), "zz"))>>)}
      \* unknown field written
      \cup {Cell("blob-write-unknown", sh, "", d, <<def>> \o WriteKnown(sh, V(1)), <<def, Asg("=", Fld(V(1), "zz"), I(1))>>)}
      \* through a parameter annotated with the blob type (function called)
      \cup {Cell("blob-param-read-unknown", sh, "", d,
            <<def, LocalFn(2, TA, <<ReadKnown(sh, V(2))>>), Ex(Call(V(3), <<V(1)>>))>>,
            <<def, LocalFn(2, TA, <<Print(Fld(V(2), "zz"))>>), Ex(Call(V(3), <<V(1)>>))>>)}
      \cup {Cell("blob-param-write-unknown", sh, "", d,
            <<def, LocalFn(2, TA, WriteKnown(sh, V(2))), Ex(Call(V(3), <<V(1)>>))>>,
            <<def, LocalFn(2, TA, <<Asg("=", Fld(V(2), "zz"), I(1))>>), Ex(Call(V(3), <<V(1)>>))>>)}
      \* annotated parameter, function never called
      \cup {Cell("blob-param-read-unknown-uncalled", sh, "", d,
            <<LocalFn(2, TA, <<ReadKnown(sh, V(2))>>)>>, <<LocalFn(2, TA, <<Print(Fld(V(2), "zz"))>>)>>)}
      \* through an unannotated parameter: the requirement meets the blob at the call
      \cup {Cell("blob-untyped-param-read-unknown", sh, "", d,
            <<def, LocalFn(2, TNone, <<ReadKnown(sh, V(2))>>), Ex(Call(V(3), <<V(1)>>))>>,
            <<def, LocalFn(2, TNone, <<Print(Fld(V(2), "zz"))>>), Ex(Call(V(3), <<V(1)>>))>>)}
    : sh \in Shapes }

(* ---------------------------------------------------------------- snippets: externblob *)
ExternCells ==
  { LET d == <<Raw(BlobDeclText("Ext", "externblob", sh)),
               DefN(950, "const", TNone, Fn(<<P(2, TExt)>>, TVoid, <<ReadKnown(sh, V(2))>>), "extuse")>>
    IN Cell("extern-instantiated", sh, "", d, <<DefC(1, TNone, I(0))>>, <<DefC(1, TNone, BLit("Ext", sh))>>)
    : sh \in Shapes }

\*PART2
=============================================================================
