----------------------------- MODULE SyltSurface -----------------------------
(***************************************************************************)
(* Sugar and layout (property C14).                                        *)
(*                                                                         *)
(* A CORE program is a SyltAst program.  Its SURFACE SITES are             *)
(*   c@p  call at expression path p:  0 `f(a, b)`  1 `f' a, b`             *)
(*                                    2 `a -> f(b)`  3 `a -> f' b`         *)
(*   t@p  tail of the value-returning function literal at p:               *)
(*                                    0 `e`  1 `ret e`                     *)
(*   l@p  loop statement at p whose condition is literally true:           *)
(*                                    0 `loop true do`  1 `loop do`        *)
(*   p@p  redundant parentheses around the expression at p: 0, 1, 2        *)
(*   s@p  statement at p, bit mask: 1 comment line before, 2 blank line    *)
(*        before, 4 comment at the end of its last line, 8 blank line and  *)
(*        comment line after it                                            *)
(*   b@p  bracket pair of the paren call / tuple / list at p, bit mask:    *)
(*        (also the blob literal's braces and, where newlines are skipped  *)
(*        anyway, the argument list of a prime call): mask + 8 * trivia,   *)
(*        mask 1 newline after the opener, 2 after every comma, 4 before   *)
(*        the closer; trivia = one of the 22 sequences of length <= 3 over *)
(*        {end-of-line comment, comment-only line, blank line} written at  *)
(*        each of these newlines (TrivSeqs)                                *)
(*   g@p  the same for the outermost pair of grouping parentheses at p     *)
(*   o@p  newline (+ trivia) after the binary operator at p, where the     *)
(*        parser skips newlines (brackets, if/elif condition, case head)   *)
(*   f@p  line breaks (+ trivia) inside a function literal's signature     *)
(*        where newlines are skipped: 1 after fn/pu, 2 after each          *)
(*        parameter's comma, 4 before `do`                                 *)
(*   h@p  trivia at the end of the signature line (after `->` or `do`)     *)
(*   d@p  the same for a blob / enum declaration and a `from m use (..)`   *)
(*        import list at top-level position p                              *)
(*   indent  0..8 spaces per level, 9 = one tab per level                  *)
(* A CHOICE FUNCTION maps site keys to options; absent keys mean 0.  Paths *)
(* are strings built the same way by the harness renderer (surface.rs).    *)
(*                                                                         *)
(* LEGALITY comes from the grammar.  What decides is the token that        *)
(* FOLLOWS the call in the rendered text (newlines inside brackets are     *)
(* invisible to the parser, so inside brackets that is the next            *)
(* significant token):                                                     *)
(*  - the arguments of a prime call are parsed as `expression` repeatedly, *)
(*    separated by optional commas, until an expression cannot be parsed:  *)
(*    with >= 1 argument the last argument and the argument list swallow   *)
(*    every operator, comma and expression that follows, so the call must  *)
(*    be followed by a token that ends everything: newline, `)`, `]`, `}`, *)
(*    `do`; with 0 arguments it must only not be followed by a token that  *)
(*    starts an expression (`(`, `[`, `-`);                                *)
(*  - the right-hand side of `->` is parsed as a whole `expression` that   *)
(*    must BE a call: the call must not be followed by a token that        *)
(*    continues an expression (binary operator, `.`, `[`, `(`, `'`); a     *)
(*    following `->` is fine (chains: `a -> f(b) -> g(c)` is               *)
(*    `g(f(a, b), c)`), so is a comma;                                     *)
(*  - `->` binds tighter than every operator, so its left side must be a   *)
(*    primary/postfix expression (others get the parentheses they NEED);   *)
(*  - an arrow call needs a first argument; every callee may be used with  *)
(*    `->` and `'` (`x -> (pick(true))(4)`, `x -> ops[1](1)`), but a prime *)
(*    after a callee that is not a bare name chain - `(e)' a` - is only    *)
(*    read at the lowest precedence level (as a whole argument, element,   *)
(*    statement, value; not as an operand or base); `->` is left out where *)
(*    callee AND first argument contain a function literal (name           *)
(*    resolution numbers the first argument before the callee);            *)
(*  - parentheses make everything inside them "last in its parenthesis";    *)
(*  - the target of an assignment is an lvalue path that must start with   *)
(*    an identifier (`(self).n += 1` is a syntax error): it has no sites.  *)
(* Resolve(tops, from, pf) turns ANY preference function pf into the legal *)
(* choice function that takes every preferred option where it is legal    *)
(* (top-down: the token following a node depends on its ancestors' forms   *)
(* only) and 0 elsewhere; a choice function is LEGAL iff it is a fixpoint. *)
(*                                                                         *)
(* The second half of the module is a token-level model: Render (core +    *)
(* raw choice -> tokens), a reference parser that follows                  *)
(* sylt-parser/src/{expression,parser}.rs (precedence climbing, prime      *)
(* argument loop with error-means-stop, arrow right-hand side as a whole   *)
(* expression, newline skipping inside brackets), and Desugar.  Invariants *)
(* (MC_Surface, mode model): Legal => Desugar(Parse(Render)) = core, and   *)
(* ~Legal => the parse fails or yields another tree (the rule is tight).   *)
(***************************************************************************)
EXTENDS Naturals, Integers, Sequences, FiniteSets, TLC

E0 == [x \in {} |-> 0]
One(key, v) == IF v = 0 THEN E0 ELSE (key :> v)
Get(ch, key) == IF key \in DOMAIN ch THEN ch[key] ELSE 0
SameCh(a, b) == DOMAIN a = DOMAIN b /\ \A key \in DOMAIN a : a[key] = b[key]
Min2(a, b) == IF a < b THEN a ELSE b
DefaultIndent == 4
IndentOf(ch) == IF "indent" \in DOMAIN ch THEN ch["indent"] ELSE DefaultIndent

BinOpToks == {"<=>", "or", "and", "==", "!=", "<", "<=", ">", ">=", "+", "-", "*", "/"}
Level(op) == CASE op = "<=>" -> 1 [] op = "or" -> 2 [] op = "and" -> 3
               [] op \in {"==", "!=", "<", "<=", ">", ">="} -> 4
               [] op \in {"+", "-"} -> 5 [] op \in {"*", "/"} -> 6

(* ---------------------------------------------------------------- legality from the follow token *)
Closers == {"nl", ")", "]", "}", "do"}
Continuers == BinOpToks \cup {".", "[", "(", "'"}
StartersAmongFollowers == {"(", "[", "-"}

\* n = number of arguments written after the prime
PrimeOk(n, fol) == IF n = 0 THEN fol \notin StartersAmongFollowers ELSE fol \in Closers
ArrowOk(fol) == fol \notin Continuers

RECURSIVE HasFn(_)
HasFnSeq(es) == \E i \in 1..Len(es) : HasFn(es[i])
HasFn(e) ==
    CASE e.k \in {"fn", "if", "case", "blob"} -> TRUE         \* blocks may declare binders: treated alike
      [] e.k = "bin" -> HasFn(e.l) \/ HasFn(e.r)
      [] e.k = "un" -> HasFn(e.a)
      [] e.k = "call" -> HasFn(e.f) \/ HasFnSeq(e.args)
      [] e.k \in {"tuple", "list"} -> HasFnSeq(e.es)
      [] e.k \in {"fld", "idx"} -> HasFn(e.e)
      [] e.k = "variant" -> e.has /\ HasFn(e.e)
      [] OTHER -> FALSE

\* Every call may be written with a prime or an arrow, whatever its callee is (`x -> (pick(true))(4)`,
\* `(fn a -> a end)' 1`).  One form is left out: `->` where BOTH the callee and the first argument contain a function
\* literal or a block - name resolution resolves the first argument before the callee, which renumbers their binders.
ArrowArgs(e) == ~(HasFn(e.f) /\ HasFn(e.args[1]))
\* number of options of the call site (ignoring context)
CallOpts(e) == IF Len(e.args) = 0 \/ ~ArrowArgs(e) THEN 2 ELSE 4

(* ---------------------------------------------------------------- parentheses the grammar NEEDS (the printer's rules) *)
Compound(e) == e.k \in {"if", "case", "fn", "variant"}
NeedOperand(e, p, right) ==
    CASE e.k = "bin" -> Level(e.op) < p \/ (right /\ Level(e.op) = p)
      [] e.k = "un" -> p = 6
      [] OTHER -> Compound(e)
NeedUnOperand(e) == e.k = "bin" \/ Compound(e)
NeedArg(e) == Compound(e)
NeedBase(e) == e.k \notin {"var", "std", "self", "call", "fld", "idx", "tuple"}   \* a tuple brings its own parentheses
NeedField(e) == Compound(e) /\ e.k # "fn"           \* a blob field's function literal stays bare (binds self)
NeedArrowLhs(e) == \/ e.k \in {"bin", "un"} \/ Compound(e)
                   \/ (e.k = "int" /\ e.v < 0) \/ (e.k = "float" /\ e.n < 0)
Wrappable(e) == TRUE     \* every expression may be parenthesised (function literals and std names included)

B(b) == IF b THEN 1 ELSE 0
Str(i) == ToString(i)

(* ---------------------------------------------------------------- layout values of bracket-like sites *)
(* The value of a b@ / g@ / o@ / d@ site is  mask + 8 * triv:  mask says at which GAPS of the construct a line break
   stands (1 after the opener, 2 after every separator, 4 before the closer), triv numbers the TRIVIA written at each
   of these gaps: every sequence of length <= 3 over T (a comment at the end of the line, only possible first),
   C (a comment on a line of its own) and B (a blank line).  Constructs that are written over several lines anyway
   (blob literal, blob / enum declaration) have their line breaks in the plain form; there the mask only places trivia. *)
TrivSeqs == << <<>>, <<"T">>, <<"C">>, <<"B">>,
               <<"T", "C">>, <<"T", "B">>, <<"C", "C">>, <<"C", "B">>, <<"B", "C">>, <<"B", "B">>,
               <<"T", "C", "C">>, <<"T", "C", "B">>, <<"T", "B", "C">>, <<"T", "B", "B">>,
               <<"C", "C", "C">>, <<"C", "C", "B">>, <<"C", "B", "C">>, <<"C", "B", "B">>,
               <<"B", "C", "C">>, <<"B", "C", "B">>, <<"B", "B", "C">>, <<"B", "B", "B">> >>
NTriv == Len(TrivSeqs)
NLayout == 8 * NTriv
LVal(mask, t) == IF mask = 0 THEN 0 ELSE mask + 8 * t
Bit(v, b) == (v \div b) % 2
\* keep the mask bits the site has; a void value is 0
NormL(v, bits, always) ==
    LET m == (IF 1 \in bits THEN Bit(v, 1) ELSE 0) + 2 * (IF 2 \in bits THEN Bit(v, 2) ELSE 0) + 4 * (IF 4 \in bits THEN Bit(v, 4) ELSE 0)
        t == IF v \div 8 < NTriv THEN v \div 8 ELSE 0
    IN IF m = 0 \/ (always /\ t = 0) THEN 0 ELSE m + 8 * t

(* ---------------------------------------------------------------- Resolve: preference -> legal choice *)
(* inb: the expression stands where the parser skips newlines (inside parentheses, brackets, braces, a paren call's
   argument list, an if/elif condition, a case scrutinee); statements switch it off again.
   top: the expression is parsed by `expression` itself (lowest precedence level) or is the LEFTMOST part of such an
   expression (left operand, base of a postfix form, callee): until /repo 16aa173 only there did the parser accept a prime after something
   that is not a name chain, i.e. `(e)' a, b` (the token `'` had precedence No); it now has the precedence of a call. *)
RECURSIVE RE(_, _, _, _, _, _, _, _)
RECURSIVE RK(_, _, _, _, _, _)
RECURSIVE RS(_, _, _)
RECURSIVE RArgs(_, _, _, _, _, _)
RECURSIVE RBody(_, _, _, _)
RECURSIVE RArms(_, _, _, _)
RECURSIVE RFields(_, _, _, _)

\* statements body[j..] at paths pre \o Str(j)
RBody(body, j, pre, pf) ==
    IF j > Len(body) THEN E0 ELSE RS(body[j], pre \o Str(j), pf) @@ RBody(body, j + 1, pre, pf)

\* expressions es[i..n] at paths p.g<i>; every one but the last is followed by a comma, the last by lastFol
RArgs(es, i, p, lastFol, inb, pf) ==
    IF i > Len(es) THEN E0
    ELSE RE(es[i], p \o ".g" \o Str(i), IF i < Len(es) THEN "," ELSE lastFol, NeedArg(es[i]), FALSE, inb, TRUE, pf)
         @@ RArgs(es, i + 1, p, lastFol, inb, pf)

RFields(fs, i, p, pf) ==
    IF i > Len(fs) THEN E0
    ELSE RE(fs[i].e, p \o ".g" \o Str(i), ",", NeedField(fs[i].e), FALSE, TRUE, TRUE, pf) @@ RFields(fs, i + 1, p, pf)

\* if arms (condition + body) and case arms (body only)
RArms(arms, i, p, pf) ==
    IF i > Len(arms) THEN E0
    ELSE (IF "c" \in DOMAIN arms[i] THEN RE(arms[i].c, p \o ".a" \o Str(i) \o ".c", "do", FALSE, FALSE, TRUE, TRUE, pf) ELSE E0)
         @@ RBody(arms[i].body, 1, p \o ".a" \o Str(i) \o ".s", pf)
         @@ RArms(arms, i + 1, p, pf)

ParenPref(e, p, np, pf) == IF np THEN 0 ELSE Min2(Get(pf, "p@" \o p), 2)
HasDo(e) == e.ret.k = "tvoid" \/ e.ret.k # "tnone"          \* `fn .. do` / `fn .. -> T do`;  otherwise the signature ends in `->`
SigBits(e) == {1} \cup (IF Len(e.params) >= 2 THEN {2} ELSE {}) \cup (IF HasDo(e) THEN {4} ELSE {})

\* e at path p, followed by token fol, with `need` grammar-required parentheses; np: no redundant parentheses here
RE(e, p, fol, need, np, inb, top, pf) ==
    LET pl == ParenPref(e, p, np, pf)
        paren == need \/ pl > 0
        f1 == IF paren THEN ")" ELSE fol
    IN One("p@" \o p, pl)
       @@ (IF paren THEN One("g@" \o p, NormL(Get(pf, "g@" \o p), {1, 4}, FALSE)) ELSE E0)     \* layout of the outermost pair
       @@ RK(e, p, f1, inb \/ paren, top \/ paren, pf)

RK(e, p, fol, inb, top, pf) ==
    CASE e.k \in {"int", "float", "str", "bool", "nil", "var", "std", "self"} -> E0
      [] e.k = "bin" -> (IF inb THEN One("o@" \o p, NormL(Get(pf, "o@" \o p), {2}, FALSE)) ELSE E0)   \* line break after the operator
                        @@ RE(e.l, p \o ".l", e.op, NeedOperand(e.l, Level(e.op), FALSE), FALSE, inb, top, pf)   \* the leftmost operand continues the enclosing parse
                        @@ RE(e.r, p \o ".r", fol, NeedOperand(e.r, Level(e.op), TRUE), FALSE, inb, FALSE, pf)
      [] e.k = "un" -> RE(e.a, p \o ".a", fol, NeedUnOperand(e.a), FALSE, inb, FALSE, pf)
      [] e.k = "if" -> RArms(e.arms, 1, p, pf)
      [] e.k = "case" -> RE(e.e, p \o ".e", "do", FALSE, FALSE, TRUE, TRUE, pf) @@ RArms(e.arms, 1, p, pf)
                         @@ RBody(e.els, 1, p \o ".x.s", pf)
      [] e.k = "fn" ->
           LET n == Len(e.body)
               tailSite == e.ret.k # "tvoid" /\ n > 0 /\ e.body[n].k = "expr"
           IN (IF tailSite THEN One("t@" \o p, Min2(Get(pf, "t@" \o p), 1)) ELSE E0)
              \* f@: line breaks (+ trivia) inside the signature, only where newlines are skipped: 1 after fn/pu, 2 after every
              \* parameter's comma, 4 before `do`;  h@: trivia at the end of the signature line (after `->` or `do`), anywhere
              @@ (IF inb THEN One("f@" \o p, NormL(Get(pf, "f@" \o p), SigBits(e), FALSE)) ELSE E0)
              @@ One("h@" \o p, NormL(Get(pf, "h@" \o p), {1}, TRUE))
              @@ RBody(e.body, 1, p \o ".s", pf)
      [] e.k = "call" ->
           LET n == Len(e.args)
               want == Get(pf, "c@" \o p)
               \* a callee that is not a bare name chain (it needs parentheses or is given some) takes a prime only at the top level
               parenCallee == NeedBase(e.f) \/ ParenPref(e.f, p \o ".f", FALSE, pf) > 0
               \* since /repo 16aa173 (`'` has the precedence of a call) every callee takes a prime wherever it stands;
               \* before, one that is not a bare name chain did so only at the top level: ~parenCallee \/ top
               primeCallee == TRUE
               c == IF want = 1 /\ primeCallee /\ PrimeOk(n, fol) THEN 1
                    ELSE IF want = 2 /\ n >= 1 /\ ArrowArgs(e) /\ ArrowOk(fol) THEN 2
                    ELSE IF want = 3 /\ n >= 1 /\ ArrowArgs(e) /\ ArrowOk(fol) /\ PrimeOk(n - 1, fol) THEN 3
                    ELSE 0
               callee == RE(e.f, p \o ".f", IF c \in {0, 2} THEN "(" ELSE "'", NeedBase(e.f), FALSE, inb, top /\ c \in {0, 1}, pf)
               first == RE(e.args[1], p \o ".g1", "->", NeedArrowLhs(e.args[1]) \/ NeedArg(e.args[1]), FALSE, inb, top, pf)
               paren == c \in {0, 2}
               start == IF c \in {2, 3} THEN 2 ELSE 1
               rest == RArgs(e.args, start, p, IF paren THEN ")" ELSE fol, paren \/ inb, pf)
               \* a paren call has all three gaps; a prime call has no brackets of its own, but where newlines are
               \* skipped anyway its arguments may be broken after the commas
               br == IF paren /\ n >= start THEN One("b@" \o p, NormL(Get(pf, "b@" \o p), {1, 2, 4}, FALSE))
                     ELSE IF ~paren /\ inb /\ n >= start + 1 THEN One("b@" \o p, NormL(Get(pf, "b@" \o p), {2}, FALSE))
                     ELSE E0
           IN One("c@" \o p, c) @@ br @@ callee @@ (IF c \in {2, 3} THEN first ELSE E0) @@ rest
      [] e.k = "tuple" ->
           IF Len(e.es) = 1 THEN RE(e.es[1], p \o ".g1", ",", NeedArg(e.es[1]), FALSE, TRUE, TRUE, pf)
           ELSE (IF Len(e.es) >= 2 THEN One("b@" \o p, NormL(Get(pf, "b@" \o p), {1, 2, 4}, FALSE)) ELSE E0)
                @@ RArgs(e.es, 1, p, ")", TRUE, pf)
      [] e.k = "list" ->
           (IF Len(e.es) >= 1 THEN One("b@" \o p, NormL(Get(pf, "b@" \o p), {1, 2, 4}, FALSE)) ELSE E0) @@ RArgs(e.es, 1, p, "]", TRUE, pf)
      [] e.k = "blob" ->
           (IF Len(e.fields) >= 1 THEN One("b@" \o p, NormL(Get(pf, "b@" \o p), {1, 2, 4}, TRUE)) ELSE E0) @@ RFields(e.fields, 1, p, pf)
      [] e.k = "fld" -> RE(e.e, p \o ".e", ".", NeedBase(e.e), FALSE, inb, top, pf)
      [] e.k = "idx" -> RE(e.e, p \o ".e", "[", NeedBase(e.e), FALSE, inb, top, pf)
      [] e.k = "variant" -> IF e.has THEN RE(e.e, p \o ".e", fol, NeedArg(e.e), FALSE, inb, TRUE, pf) ELSE E0

IsTrue(c) == c.k = "bool" /\ c.v = TRUE

RS(st, p, pf) ==
    One("s@" \o p, Get(pf, "s@" \o p) % 16) @@
    CASE st.k = "def" -> RE(st.e, p \o ".e", "nl", FALSE, FALSE, FALSE, TRUE, pf)
      [] st.k = "asg" -> RE(st.e, p \o ".e", "nl", FALSE, FALSE, FALSE, TRUE, pf)      \* the target is an lvalue path, not an expression: no sites
      [] st.k = "loop" ->
           LET l == IF IsTrue(st.c) THEN Min2(Get(pf, "l@" \o p), 1) ELSE 0
           IN One("l@" \o p, l) @@ (IF l = 1 THEN E0 ELSE RE(st.c, p \o ".c", "do", FALSE, FALSE, FALSE, TRUE, pf))
              @@ RBody(st.body, 1, p \o ".s", pf)
      [] st.k = "ret" -> IF st.has THEN RE(st.e, p \o ".e", "nl", FALSE, FALSE, FALSE, TRUE, pf) ELSE E0
      [] st.k = "block" -> RBody(st.body, 1, p \o ".s", pf)
      [] st.k = "expr" -> RE(st.e, p \o ".e", "nl", FALSE, FALSE, FALSE, TRUE, pf)
      [] st.k \in {"break", "continue", "unreach"} -> E0

NormIndent(v) == IF v > 9 THEN DefaultIndent ELSE v

\* number of items of a declaration-like top-level node (enum variants, blob fields, imported names)
DeclItems(t) == CASE t.k = "enum" -> Len(t.variants) [] t.k = "blobdecl" -> Len(t.fields) [] t.k = "fromuse" -> Len(t.names) [] OTHER -> 0
RTop(t, p, pf) ==
    CASE t.k = "def" -> RS(t, p, pf)
      [] t.k \in {"enum", "blobdecl"} -> IF DeclItems(t) >= 1 THEN One("d@" \o p, NormL(Get(pf, "d@" \o p), {1, 2, 4}, TRUE)) ELSE E0
      [] t.k = "fromuse" -> One("d@" \o p, NormL(Get(pf, "d@" \o p), {1, 2, 4}, FALSE))     \* `from m use (a, b)`
      [] OTHER -> E0
RECURSIVE RTops(_, _, _)
RTops(tops, i, pf) ==
    IF i > Len(tops) THEN E0 ELSE RTop(tops[i], "t" \o Str(i), pf) @@ RTops(tops, i + 1, pf)

\* sites of tops[from..] only (the shared prelude of the generated programs stays plain)
Resolve(tops, from, pf) == ("indent" :> NormIndent(IndentOf(pf))) @@ RTops(tops, from, pf)
Legal(tops, from, ch) == SameCh(Resolve(tops, from, ch), ch)

\* do the variants ch and the plain variant have the same line structure? (then even `<!>` line numbers agree)
LineStable(ch) == \A key \in DOMAIN ch :
    \/ key = "indent"
    \/ SubSeq(key, 1, 2) \in {"c@", "t@", "l@", "p@"}
    \/ (SubSeq(key, 1, 2) = "s@" /\ ch[key] \in {0, 4})
    \/ (SubSeq(key, 1, 2) \in {"b@", "g@", "o@", "d@", "f@", "h@"} /\ ch[key] = 0)

(* ---------------------------------------------------------------- the sites of a program, in pre-order *)
\* a site: [key, kind ("c","t","l","p","s","b","g","o","d","f","h"), n (number of options), ctx (position class, for signatures)]
\* o@ sites are listed where newlines are skipped in the PLAIN form (inb); g@ sites at every expression that may be parenthesised
Site(key, kind, n, ctx) == [key |-> key, kind |-> kind, n |-> n, ctx |-> ctx]

RECURSIVE SE(_, _, _, _, _)
RECURSIVE SS(_, _)
RECURSIVE SArgs(_, _, _, _, _)
RECURSIVE SBody(_, _, _)
RECURSIVE SArms(_, _, _)
RECURSIVE SFields(_, _, _)

SBody(body, j, pre) == IF j > Len(body) THEN <<>> ELSE SS(body[j], pre \o Str(j)) \o SBody(body, j + 1, pre)
SArgs(es, i, p, ctx, inb) == IF i > Len(es) THEN <<>>
                        ELSE SE(es[i], p \o ".g" \o Str(i), IF i = Len(es) THEN "last-" \o ctx ELSE ctx, FALSE, inb) \o SArgs(es, i + 1, p, ctx, inb)
SFields(fs, i, p) == IF i > Len(fs) THEN <<>> ELSE SE(fs[i].e, p \o ".g" \o Str(i), "field", FALSE, TRUE) \o SFields(fs, i + 1, p)
SArms(arms, i, p) ==
    IF i > Len(arms) THEN <<>>
    ELSE (IF "c" \in DOMAIN arms[i] THEN SE(arms[i].c, p \o ".a" \o Str(i) \o ".c", "cond", FALSE, TRUE) ELSE <<>>)
         \o SBody(arms[i].body, 1, p \o ".a" \o Str(i) \o ".s") \o SArms(arms, i + 1, p)

SE(e, p, ctx, np, inb) ==
    (IF np \/ ~Wrappable(e) THEN <<>> ELSE <<Site("p@" \o p, "p", 3, ctx \o ":" \o e.k), Site("g@" \o p, "g", NLayout, ctx \o ":" \o e.k)>>) \o
    CASE e.k \in {"int", "float", "str", "bool", "nil", "var", "std", "self"} -> <<>>
      [] e.k = "bin" -> (IF inb THEN <<Site("o@" \o p, "o", NLayout, ctx)>> ELSE <<>>)
                        \o SE(e.l, p \o ".l", "operand-l", FALSE, inb) \o SE(e.r, p \o ".r", "operand-r", FALSE, inb)
      [] e.k = "un" -> SE(e.a, p \o ".a", "operand-un", FALSE, inb)
      [] e.k = "if" -> SArms(e.arms, 1, p)
      [] e.k = "case" -> SE(e.e, p \o ".e", "cond", FALSE, TRUE) \o SArms(e.arms, 1, p) \o SBody(e.els, 1, p \o ".x.s")
      [] e.k = "fn" ->
           LET n == Len(e.body) IN
           (IF e.ret.k # "tvoid" /\ n > 0 /\ e.body[n].k = "expr" THEN <<Site("t@" \o p, "t", 2, ctx \o ":" \o e.body[n].e.k)>> ELSE <<>>)
           \o (IF inb THEN <<Site("f@" \o p, "f", NLayout, ctx)>> ELSE <<>>) \o <<Site("h@" \o p, "h", NLayout, ctx)>>
           \o SBody(e.body, 1, p \o ".s")
      [] e.k = "call" ->
           (IF CallOpts(e) > 1 THEN <<Site("c@" \o p, "c", CallOpts(e), ctx \o ":" \o e.f.k \o Str(Len(e.args)))>> ELSE <<>>)
           \o (IF Len(e.args) >= 1 THEN <<Site("b@" \o p, "b", NLayout, "call")>> ELSE <<>>)
           \o SE(e.f, p \o ".f", "callee", FALSE, inb) \o SArgs(e.args, 1, p, "arg", TRUE)
      [] e.k = "tuple" -> (IF Len(e.es) >= 2 THEN <<Site("b@" \o p, "b", NLayout, "tuple")>> ELSE <<>>) \o SArgs(e.es, 1, p, "elem", TRUE)
      [] e.k = "list" -> (IF Len(e.es) >= 1 THEN <<Site("b@" \o p, "b", NLayout, "list")>> ELSE <<>>) \o SArgs(e.es, 1, p, "elem", TRUE)
      [] e.k = "blob" -> (IF Len(e.fields) >= 1 THEN <<Site("b@" \o p, "b", NLayout, "blob")>> ELSE <<>>) \o SFields(e.fields, 1, p)
      [] e.k = "fld" -> SE(e.e, p \o ".e", "base", FALSE, inb)
      [] e.k = "idx" -> SE(e.e, p \o ".e", "base", FALSE, inb)
      [] e.k = "variant" -> IF e.has THEN SE(e.e, p \o ".e", "payload", FALSE, inb) ELSE <<>>

SS(st, p) ==
    <<Site("s@" \o p, "s", 16, st.k)>> \o
    CASE st.k = "def" -> SE(st.e, p \o ".e", "value", FALSE, FALSE)
      [] st.k = "asg" -> SE(st.e, p \o ".e", "value", FALSE, FALSE)
      [] st.k = "loop" -> (IF IsTrue(st.c) THEN <<Site("l@" \o p, "l", 2, "loop")>> ELSE <<>>)
                          \o SE(st.c, p \o ".c", "cond", FALSE, FALSE) \o SBody(st.body, 1, p \o ".s")
      [] st.k = "ret" -> IF st.has THEN SE(st.e, p \o ".e", "value", FALSE, FALSE) ELSE <<>>
      [] st.k = "block" -> SBody(st.body, 1, p \o ".s")
      [] st.k = "expr" -> SE(st.e, p \o ".e", "stmt", FALSE, FALSE)
      [] st.k \in {"break", "continue", "unreach"} -> <<>>

STop(t, p) ==
    CASE t.k = "def" -> SS(t, p)
      [] t.k \in {"enum", "blobdecl", "fromuse"} -> IF DeclItems(t) >= 1 THEN <<Site("d@" \o p, "d", NLayout, t.k)>> ELSE <<>>
      [] OTHER -> <<>>
RECURSIVE STops(_, _)
STops(tops, i) == IF i > Len(tops) THEN <<>> ELSE STop(tops[i], "t" \o Str(i)) \o STops(tops, i + 1)
Sites(tops, from) == STops(tops, from)

Sugar(S) == SelectSeq(S, LAMBDA s : s.kind \in {"c", "t", "l"})
Layout(S) == SelectSeq(S, LAMBDA s : s.kind \notin {"c", "t", "l"})
OfKind(S, kind) == SelectSeq(S, LAMBDA s : s.kind = kind)

(* ---------------------------------------------------------------- preference families *)
\* index of every site key in the site sequence S (computed once per program)
IndexMap(S) == [key \in {S[i].key : i \in 1..Len(S)} |-> CHOOSE i \in 1..Len(S) : S[i].key = key]
\* preference function from the sites and an option per position
Pref(IX, opt(_)) == [key \in DOMAIN IX |-> opt(IX[key])]
WithIndent(pf, w) == ("indent" :> w) @@ pf
\* every function over the sites S that stays inside the sites' option sets
AllPrefs(S) ==
    LET IX == IndexMap(S)
    IN {pf \in [DOMAIN IX -> 0..3] : \A key \in DOMAIN IX : pf[key] < S[IX[key]].n}
RECURSIVE Product(_, _)
Product(S, i) == IF i > Len(S) THEN 1 ELSE S[i].n * Product(S, i + 1)

Cap(s, v) == IF s.kind \in {"s", "b", "g", "o", "d", "f", "h"} THEN v ELSE Min2(v, s.n - 1)
\* uniform and strided patterns; kinds is the set of site kinds the pattern touches
Uniform(S, IX, kinds, v) == Pref(IX, LAMBDA i : IF S[i].kind \in kinds THEN Cap(S[i], v) ELSE 0)
Strided(S, IX, kinds, v, m, r) == Pref(IX, LAMBDA i : IF S[i].kind \in kinds /\ i % m = r THEN Cap(S[i], v) ELSE 0)
\* arithmetic pseudo-random mixture (deterministic in the seed a)
Mix(S, IX, a) == Pref(IX, LAMBDA i : ((i * i * 7 + i * a + a * a * 3 + (i * a) \div 5) \div 3) % S[i].n)
SingleOpt(IX, i, v) == Pref(IX, LAMBDA j : IF j = i THEN v ELSE 0)

(* ================================================================ token-level model *)
(* Skeleton expressions use: int, std (a name), bin, un "-", call, fld, idx, tuple, list.
   Tokens are spellings; "nl" is a newline.  Comments never reach the parser (Context::skip drops them). *)
RECURSIVE Par(_, _)
Par(toks, n) == IF n = 0 THEN toks ELSE Par(<<"(">> \o toks \o <<")">>, n - 1)

RECURSIVE TokE(_, _, _, _, _)
RECURSIVE TokK(_, _, _)
RECURSIVE TItems(_, _, _, _, _)

\* items es[i..] separated by commas; brk: bracket mask (2 = newline after every comma)
TItems(es, i, p, brk, ch) ==
    IF i > Len(es) THEN <<>>
    ELSE TokE(es[i], p \o ".g" \o Str(i), NeedArg(es[i]), FALSE, ch)
         \o (IF i < Len(es) THEN <<",">> \o (IF (brk \div 2) % 2 = 1 THEN <<"nl">> ELSE <<>>) ELSE <<>>)
         \o TItems(es, i + 1, p, brk, ch)
Bracketed(open, items, close, brk) ==
    <<open>> \o (IF brk % 2 = 1 THEN <<"nl">> ELSE <<>>) \o items \o (IF (brk \div 4) % 2 = 1 THEN <<"nl">> ELSE <<>>) \o <<close>>

TokE(e, p, need, np, ch) ==
    LET pl == IF np \/ ~Wrappable(e) THEN 0 ELSE Min2(Get(ch, "p@" \o p), 2)
    IN Par(TokK(e, p, ch), pl + B(need))

TokK(e, p, ch) ==
    CASE e.k = "int" -> IF e.v < 0 THEN <<"-", Str(0 - e.v)>> ELSE <<Str(e.v)>>
      [] e.k = "std" -> <<e.name>>
      [] e.k = "bin" -> TokE(e.l, p \o ".l", NeedOperand(e.l, Level(e.op), FALSE), FALSE, ch) \o <<e.op>>
                        \o TokE(e.r, p \o ".r", NeedOperand(e.r, Level(e.op), TRUE), FALSE, ch)
      [] e.k = "un" -> <<e.op>> \o TokE(e.a, p \o ".a", NeedUnOperand(e.a), FALSE, ch)
      [] e.k = "call" ->
           LET n == Len(e.args)
               c == Get(ch, "c@" \o p)
               brk == Get(ch, "b@" \o p)
               callee == TokE(e.f, p \o ".f", NeedBase(e.f), FALSE, ch)
               first == TokE(e.args[1], p \o ".g1", NeedArrowLhs(e.args[1]) \/ NeedArg(e.args[1]), FALSE, ch)
           IN (CASE c = 0 -> callee \o Bracketed("(", TItems(e.args, 1, p, brk, ch), ")", IF n >= 1 THEN brk ELSE 0)
                 [] c = 1 -> callee \o <<"'">> \o TItems(e.args, 1, p, 0, ch)
                 [] c = 2 -> first \o <<"->">> \o callee \o Bracketed("(", TItems(e.args, 2, p, brk, ch), ")", IF n >= 2 THEN brk ELSE 0)
                 [] c = 3 -> first \o <<"->">> \o callee \o <<"'">> \o TItems(e.args, 2, p, 0, ch))
      [] e.k = "tuple" -> IF Len(e.es) = 1 THEN <<"(">> \o TokE(e.es[1], p \o ".g1", NeedArg(e.es[1]), FALSE, ch) \o <<",", ")">>
                          ELSE Bracketed("(", TItems(e.es, 1, p, Get(ch, "b@" \o p), ch), ")", IF Len(e.es) >= 2 THEN Get(ch, "b@" \o p) ELSE 0)
      [] e.k = "list" -> Bracketed("[", TItems(e.es, 1, p, Get(ch, "b@" \o p), ch), "]", IF Len(e.es) >= 1 THEN Get(ch, "b@" \o p) ELSE 0)
      [] e.k = "fld" -> TokE(e.e, p \o ".e", NeedBase(e.e), FALSE, ch) \o <<".", e.f>>
      [] e.k = "idx" -> TokE(e.e, p \o ".e", NeedBase(e.e), FALSE, ch) \o <<"[", Str(e.i), "]">>

\* the expression statement `e` at statement path p
RenderStmt(e, p, ch) == TokE(e, p \o ".e", FALSE, FALSE, ch) \o <<"nl">>

(* ---------------------------------------------------------------- reference parser (follows expression.rs / parser.rs) *)
Names == {"f", "g", "h", "u", "o", "t", "mk", "add", "n", "print"}
IntToks == {Str(i) : i \in 0..9}
IntOf(s) == CHOOSE i \in 0..9 : Str(i) = s
Tok(toks, i) == IF i <= Len(toks) THEN toks[i] ELSE "<eof>"

PrecOf(tok) == CASE tok \in {"[", ".", "(", "'"} -> 7     \* the prime has the precedence of a call (/repo 16aa173)
                 [] tok \in {"*", "/"} -> 6
                 [] tok \in {"+", "-"} -> 5
                 [] tok \in {"==", "!=", "<", "<=", ">", ">="} -> 4
                 [] tok = "and" -> 3 [] tok = "or" -> 2 [] tok = "<=>" -> 1
                 [] tok = "->" -> 8
                 [] OTHER -> 0
NextPrec(p) == IF p >= 8 THEN 8 ELSE p + 1
ValidInfix(tok) == tok \in BinOpToks \cup {"->", "'", "(", "[", "."}

PFail == [ok |-> FALSE, t |-> [k |-> "err"], i |-> 0]
POk(t, i) == [ok |-> TRUE, t |-> t, i |-> i]

RECURSIVE SkipNl(_, _, _)
SkipNl(toks, i, sk) == IF sk /\ Tok(toks, i) = "nl" THEN SkipNl(toks, i + 1, sk) ELSE i
\* Context::skip(1) under flag sk
Adv(toks, i, sk) == SkipNl(toks, i + 1, sk)

PInt(n) == [k |-> "int", v |-> n]
PName(s) == [k |-> "std", name |-> s]
PParen(e) == [k |-> "paren", e |-> e]
PArrow(a, f, args) == [k |-> "arrow", a |-> a, f |-> f, args |-> args]
PCallN(f, args) == [k |-> "call", f |-> f, args |-> args]

RECURSIVE PPrec(_, _, _, _)
RECURSIVE PLoop(_, _, _, _, _)
RECURSIVE PInfix(_, _, _, _)
RECURSIVE PPrefix(_, _, _)
RECURSIVE PSub(_, _, _, _)
RECURSIVE PCall(_, _, _, _)
RECURSIVE PArgs(_, _, _, _, _)
RECURSIVE PGroupLoop(_, _, _, _)
RECURSIVE PListLoop(_, _, _)
RECURSIVE Prepend(_, _)

PPrec(toks, i, sk, prec) ==
    LET p == PPrefix(toks, i, sk) IN IF ~p.ok THEN PFail ELSE PLoop(toks, p.t, p.i, sk, prec)

PLoop(toks, lhs, i, sk, prec) ==
    LET tok == Tok(toks, i) IN
    IF prec <= PrecOf(tok) /\ ValidInfix(tok)
    THEN LET r == PInfix(toks, lhs, i, sk) IN IF ~r.ok THEN PFail ELSE PLoop(toks, r.t, r.i, sk, prec)
    ELSE POk(lhs, i)

\* arrow_call's prepend_expression: the right-hand side must be a call (or an arrow call, for chains)
Prepend(lhs, rhs) ==
    CASE rhs.k = "call" -> [ok |-> TRUE, t |-> PArrow(lhs, rhs.f, rhs.args)]
      [] rhs.k = "arrow" -> LET inner == Prepend(lhs, rhs.a) IN
                            IF inner.ok THEN [ok |-> TRUE, t |-> PArrow(inner.t, rhs.f, rhs.args)] ELSE inner
      [] OTHER -> [ok |-> FALSE, t |-> rhs]

PInfix(toks, lhs, i, sk) ==
    LET tok == Tok(toks, i) IN
    CASE tok = "->" ->
           LET r == PPrec(toks, Adv(toks, i, sk), sk, 0) IN
           IF ~r.ok THEN PFail
           ELSE LET q == Prepend(lhs, r.t) IN IF q.ok THEN POk(q.t, r.i) ELSE PFail
      [] tok \in {"'", "(", "[", "."} -> PSub(toks, lhs, i, sk)
      [] OTHER ->
           LET r == PPrec(toks, Adv(toks, i, sk), sk, NextPrec(PrecOf(tok))) IN
           IF ~r.ok THEN PFail ELSE POk([k |-> "bin", op |-> tok, l |-> lhs, r |-> r.t], r.i)

\* grouping_or_tuple after the opening parenthesis; newlines are skipped inside
PGroupLoop(toks, i0, exprs, isTuple) ==
    LET i == IF Tok(toks, i0) = "," THEN Adv(toks, i0, TRUE) ELSE i0 IN
    IF Tok(toks, i) \in {"<eof>", ")"} THEN [ok |-> TRUE, es |-> exprs, tup |-> isTuple, i |-> i]
    ELSE LET r == PPrec(toks, i, TRUE, 0) IN
         IF ~r.ok THEN [ok |-> FALSE, es |-> exprs, tup |-> isTuple, i |-> i]
         ELSE LET tup == isTuple \/ Tok(toks, r.i) = "," IN
              IF tup THEN IF Tok(toks, r.i) \in {",", ")"}
                          THEN PGroupLoop(toks, IF Tok(toks, r.i) = "," THEN Adv(toks, r.i, TRUE) ELSE r.i, Append(exprs, r.t), tup)
                          ELSE [ok |-> FALSE, es |-> exprs, tup |-> tup, i |-> r.i]
              ELSE [ok |-> TRUE, es |-> Append(exprs, r.t), tup |-> FALSE, i |-> r.i]

PListLoop(toks, i, exprs) ==
    IF Tok(toks, i) \in {"<eof>", "]"} THEN [ok |-> TRUE, es |-> exprs, i |-> i]
    ELSE LET r == PPrec(toks, i, TRUE, 0) IN
         IF ~r.ok \/ Tok(toks, r.i) \notin {",", "]"} THEN [ok |-> FALSE, es |-> exprs, i |-> i]
         ELSE PListLoop(toks, IF Tok(toks, r.i) = "," THEN Adv(toks, r.i, TRUE) ELSE r.i, Append(exprs, r.t))

PPrefix(toks, i, sk) ==
    LET tok == Tok(toks, i) IN
    CASE tok = "(" ->
           LET i1 == SkipNl(toks, Adv(toks, i, sk), TRUE)
               g == PGroupLoop(toks, i1, <<>>, Tok(toks, i1) \in {",", ")"}) IN
           IF ~g.ok \/ Tok(toks, g.i) # ")" THEN PFail
           ELSE POk(IF g.tup THEN [k |-> "tuple", es |-> g.es] ELSE PParen(g.es[1]), Adv(toks, g.i, sk))
      [] tok = "[" ->
           LET g == PListLoop(toks, SkipNl(toks, Adv(toks, i, sk), TRUE), <<>>) IN
           IF ~g.ok \/ Tok(toks, g.i) # "]" THEN PFail ELSE POk([k |-> "list", es |-> g.es], Adv(toks, g.i, sk))
      [] tok \in IntToks -> POk(PInt(IntOf(tok)), Adv(toks, i, sk))
      [] tok = "-" -> LET r == PPrec(toks, Adv(toks, i, sk), sk, 6) IN
                      IF ~r.ok THEN PFail ELSE POk([k |-> "un", op |-> "-", a |-> r.t], r.i)
      [] tok \in Names -> PSub(toks, PName(tok), Adv(toks, i, sk), sk)
      [] OTHER -> PFail

\* sub_assignable: chained calls, indexing, field access
PSub(toks, base, i, sk) ==
    LET tok == Tok(toks, i) IN
    CASE tok \in {"'", "("} -> PCall(toks, base, i, sk)
      [] tok = "[" ->
           LET r == PPrec(toks, Adv(toks, i, sk), sk, 0) IN
           IF ~r.ok \/ r.t.k # "int" \/ Tok(toks, r.i) # "]" THEN PFail
           ELSE PSub(toks, [k |-> "idx", e |-> base, i |-> r.t.v], Adv(toks, r.i, sk), sk)
      [] tok = "." ->
           LET j == Adv(toks, i, sk) IN
           IF Tok(toks, j) \notin Names THEN PFail
           ELSE PSub(toks, [k |-> "fld", e |-> base, f |-> Tok(toks, j)], Adv(toks, j, sk), sk)
      [] OTHER -> POk(base, i)

\* assignable_call's argument loop under flag sk2; primer: a failing expression ends the list instead of failing
PArgs(toks, i, sk2, primer, acc) ==
    IF Tok(toks, i) \in {"<eof>", ")"} THEN [ok |-> TRUE, args |-> acc, i |-> i]
    ELSE LET r == PPrec(toks, i, sk2, 0) IN
         IF ~r.ok THEN (IF primer THEN [ok |-> TRUE, args |-> acc, i |-> i] ELSE [ok |-> FALSE, args |-> acc, i |-> i])
         ELSE LET t1 == Tok(toks, r.i)
                  j1 == Adv(toks, r.i, sk2)
                  t2 == Tok(toks, j1)
                  nxt == IF (t1 = "nl" /\ t2 = ",") \/ (t1 = "," /\ t2 = "nl") THEN Adv(toks, j1, sk2)
                         ELSE IF t1 = "," THEN j1 ELSE r.i
              IN PArgs(toks, nxt, sk2, primer, Append(acc, r.t))

PCall(toks, callee, i, sk) ==
    LET primer == Tok(toks, i) = "'"
        sk2 == IF primer THEN sk ELSE TRUE
        a == PArgs(toks, SkipNl(toks, Adv(toks, i, sk), sk2), sk2, primer, <<>>)
    IN IF ~a.ok THEN PFail
       ELSE IF primer THEN PSub(toks, PCallN(callee, a.args), a.i, sk)
       ELSE IF Tok(toks, a.i) # ")" THEN PFail
       ELSE PSub(toks, PCallN(callee, a.args), Adv(toks, a.i, sk), sk)

\* an expression statement: the expression, then a newline must end it, and nothing may be left over
ParseStmt(toks) ==
    LET r == PPrec(toks, 1, FALSE, 0) IN
    IF r.ok /\ Tok(toks, r.i) = "nl" /\ r.i = Len(toks) THEN [ok |-> TRUE, t |-> r.t] ELSE [ok |-> FALSE, t |-> [k |-> "err"]]

RECURSIVE Desugar(_)
DesugarSeq(es) == [i \in 1..Len(es) |-> Desugar(es[i])]
Desugar(t) ==
    CASE t.k \in {"int", "std"} -> t
      [] t.k = "paren" -> Desugar(t.e)
      [] t.k = "arrow" -> PCallN(Desugar(t.f), <<Desugar(t.a)>> \o DesugarSeq(t.args))
      [] t.k = "call" -> PCallN(Desugar(t.f), DesugarSeq(t.args))
      [] t.k = "bin" -> [k |-> "bin", op |-> t.op, l |-> Desugar(t.l), r |-> Desugar(t.r)]
      [] t.k = "un" -> [k |-> "un", op |-> t.op, a |-> Desugar(t.a)]
      [] t.k \in {"tuple", "list"} -> [k |-> t.k, es |-> DesugarSeq(t.es)]
      [] t.k = "fld" -> [k |-> "fld", e |-> Desugar(t.e), f |-> t.f]
      [] t.k = "idx" -> [k |-> "idx", e |-> Desugar(t.e), i |-> t.i]

\* canonical text of a desugared tree (the harness prints the real parser's tree the same way)
RECURSIVE Show(_)
RECURSIVE ShowSeq(_, _)
ShowSeq(es, i) == IF i > Len(es) THEN "" ELSE (IF i > 1 THEN "," ELSE "") \o Show(es[i]) \o ShowSeq(es, i + 1)
Show(t) ==
    CASE t.k = "int" -> IF t.v < 0 THEN "(-" \o Str(0 - t.v) \o ")" ELSE Str(t.v)
      [] t.k = "std" -> t.name
      [] t.k = "bin" -> "(" \o Show(t.l) \o t.op \o Show(t.r) \o ")"
      [] t.k = "un" -> "(" \o t.op \o Show(t.a) \o ")"
      [] t.k = "call" -> Show(t.f) \o "(" \o ShowSeq(t.args, 1) \o ")"
      [] t.k = "tuple" -> "tuple[" \o ShowSeq(t.es, 1) \o "]"
      [] t.k = "list" -> "list[" \o ShowSeq(t.es, 1) \o "]"
      [] t.k = "fld" -> Show(t.e) \o "." \o t.f
      [] t.k = "idx" -> Show(t.e) \o "[" \o Str(t.i) \o "]"

\* what the reference parser makes of core expression e under raw choice ch, as text ("error" if it does not parse)
ModelParse(e, p, ch) ==
    LET r == ParseStmt(RenderStmt(e, p, ch)) IN IF r.ok THEN Show(Desugar(r.t)) ELSE "error"
=============================================================================
