SPECIFICATION LSpec
CONSTANTS
  Inputs <- MCInputs
  Procs <- MCProcs
  Results <- MCResults
  Cfgs <- MCCfgs
  Mode <- MCStale
  MaxRuns = 4
INVARIANTS HistoryIndependence
CHECK_DEADLOCK FALSE
