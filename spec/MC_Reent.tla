------------------------------- MODULE MC_Reent -------------------------------
(***************************************************************************)
(* C10: the dimensions that are no pairwise nestings of SyltGen's          *)
(* templates, run through the dynamic semantics the way MC_Sem runs the    *)
(* pairwise universe:                                                      *)
(*   chain    a chain of field / index / method links read while a later   *)
(*            sibling changes the chain at one of its links (SyltOrder)    *)
(*   capture  one expression reads x and creates closures over x; later    *)
(*            changes by the creator and by a sibling closure  (SyltCapture)*)
(*   lib      library higher-order functions whose callbacks call the      *)
(*            library again                                  (SyltLibReent)*)
(* One behaviour per KEY (a tuple of strings).  Build makes the program of *)
(* the key (an action: all workers share the work), InitGlobal runs the    *)
(* top-level initialisers one by one, CallStart runs start(), Emit prints  *)
(* the expected observation as a REPLAY record.  STRIDE n (environment)    *)
(* keeps the keys whose index sum is divisible by n (quick tier).          *)
(***************************************************************************)
EXTENDS SyltSem, SyltOrder, SyltCapture, SyltLibReent, Json, IOUtils

VARIABLES id, prog, S, next, pc
vars == <<id, prog, S, next, pc>>

Fuel == 400
Mode == IF "MODE" \in DOMAIN IOEnv THEN IOEnv.MODE ELSE "all"
EnvN(name, dflt) == IF name \in DOMAIN IOEnv THEN atoi(IOEnv[name]) ELSE dflt
StrideChain == EnvN("STRIDE_CHAIN", 1)
StrideCap == EnvN("STRIDE_CAP", 1)
StrideLib == EnvN("STRIDE_LIB", 1)

Init ==
  /\ pc = "build" /\ next = 1 /\ S = NewState(Fuel)
  /\ \/ /\ Mode \in {"chain", "all"}
        /\ \E k \in ChainKeys(StrideChain) : id = ChainId(k) /\ prog = k
     \/ /\ Mode \in {"capture", "all"}
        /\ \E k \in CapKeys(StrideCap) : id = CapId(k) /\ prog = k
     \/ /\ Mode \in {"lib", "all"}
        /\ \E k \in LibKeys(StrideLib) : id = LibId(k) /\ prog = k

Build ==
  /\ pc = "build"
  /\ prog' = CASE prog[1] = "chain" -> ChainProg(prog)
               [] prog[1] = "cap" -> CapProg(prog)
               [] prog[1] = "lib" -> LibProg(prog)
  /\ pc' = "init"
  /\ UNCHANGED <<id, S, next>>

StartId == LET c == {t \in 1..Len(prog) : prog[t].k = "def" /\ prog[t].n = "start"} IN
           IF c = {} THEN 0 - 5 ELSE prog[CHOOSE t \in c : TRUE].b

InitGlobal ==
  /\ pc = "init" /\ next <= Len(prog) /\ S.status = "run"
  /\ LET r == InitTop(prog[next], S) IN S' = r.s
  /\ next' = next + 1
  /\ UNCHANGED <<id, prog, pc>>

CallStartA ==
  /\ pc = "init" /\ next > Len(prog) /\ S.status = "run"
  /\ LET r == CallStart(StartId, S) IN S' = r.s
  /\ pc' = "ran"
  /\ UNCHANGED <<id, prog, next>>

Abort ==    \* an initialiser halted the program
  /\ pc = "init" /\ S.status # "run"
  /\ pc' = "ran"
  /\ UNCHANGED <<id, prog, S, next>>

Emit ==
  /\ pc = "ran"
  /\ pc' = "done"
  /\ PrintT(<<"REPLAY", ToJson([id |-> id, tops |-> prog, out |-> S.out, status |-> S.status])>>)
  /\ UNCHANGED <<id, prog, S, next>>

Next == Build \/ InitGlobal \/ CallStartA \/ Abort \/ Emit
Spec == Init /\ [][Next]_vars

---------------------------------------------------------------------------
HeapOk ==
  \A a \in 1..Len(S.heap) :
     LET o == S.heap[a] IN
     o.k = "frame" => o.parent \in 0..(a - 1)      \* parents are older: the frame forest is acyclic

\* programs of the typed generators never get stuck in the spec's own strict semantics, and all of them run to the end
GeneratorSound == ~(Len(S.status) >= 5 /\ SubSeq(S.status, 1, 5) = "stuck")
AllJudged == pc = "done" => S.status = "done"
=============================================================================
