---------------------------- MODULE SyltDeadCode ----------------------------
(***************************************************************************)
(* C11, two more families: the only mention of a global sits in code that  *)
(* NEVER RUNS.                                                             *)
(*                                                                         *)
(* The order semantics of SyltInit is dynamic: an initialiser may run when *)
(* it neither reads nor assigns an uninitialised global.  Code that is     *)
(* never evaluated needs nothing - but it is still part of the program     *)
(* text: it is resolved, type checked and emitted in whatever order the    *)
(* compiler's dependency analysis produces.  "Reordering the top-level     *)
(* definitions never changes what the program does" therefore has to hold  *)
(* for these programs exactly as for the others: accepted in every order   *)
(* with the behaviour the order semantics defines, or rejected in every    *)
(* order.                                                                  *)
(*                                                                         *)
(* DEAD family (fam = "dead"): a case [ctx, pos, user].  The body of a     *)
(* position of SyltInit (PosDef(pos): the statements whose only mention of *)
(* `late` sits at one child position of one construct; 53 positions, 12    *)
(* kinds of `late`) is placed in a DEAD CONTEXT ctx of the function / the  *)
(* immediately called closure:                                             *)
(*    afterret       ret d ; <body>                                        *)
(*    retinthen      if true do ret d ; <body> else d end                  *)
(*    retinelse      if false do d else ret d ; <body> end                 *)
(*    retinarm       case E.Z do Z -> ret d ; <body> end else d end        *)
(*    retincaseelse  case E.Z do A x -> d end else ret d ; <body> end      *)
(*    retinloop      loop true do ret d ; <body> end ; d                   *)
(*    retinblock     do ret d ; <body> end ; d                             *)
(*    retinclosure   c :: fn -> T do ret d ; <body> end ; c()              *)
(*    afterunreach   c :: fn -> T do <!> ; <body> end ; d    (c not called)*)
(*    uncalled       c :: fn -> T do <body> end ; d          (c not called)*)
(*    deadthen       if false do <body> else d end                         *)
(*    deadelse       if true do d else <body> end                          *)
(*    deadarm        case E.Z do A x -> <body> end else d end              *)
(*    deadloop       loop false do <body> end ; d                          *)
(* (d = a constant of the body's type T).  user as in the position family: *)
(* start (f only called from start), init (u :: f()), iife (the function   *)
(* is called inside a global initialiser).  Every such program is          *)
(* CONFLUENT - `late` is never needed, u and late may be initialised in    *)
(* either order - and prints d, d, late (invariant DeadCasesConfluent).    *)
(*                                                                         *)
(* DEAD SELF-REFERENCE family (fam = "deadself"): the mention is of u      *)
(* ITSELF (u :: (fn -> int do ret 5 ; u + 1 end)()) or closes a cycle of   *)
(* two (u :: f() ; f :: fn -> int do ret 5 ; u + 1 end).  No uninitialised *)
(* value is ever touched, so the order semantics has one complete          *)
(* behaviour (prints 5): the specification does not demand that such a     *)
(* program be rejected, it demands the SAME answer in every order.  (Today *)
(* the compiler rejects all of them, conservatively, as dependency cycles: *)
(* counted by the check.)                                                  *)
(***************************************************************************)
EXTENDS SyltTypeOrder

\* detecting and non-detecting contexts alternate, so that a diagonal sample contains both kinds for every position
DeadCtxNames == <<"afterret", "deadthen", "retinthen", "retinelse", "deadelse", "retinarm", "retincaseelse", "deadarm",
                  "retinloop", "retinblock", "deadloop", "retinclosure", "afterunreach", "uncalled">>
DeadCtxs == {DeadCtxNames[x] : x \in 1..Len(DeadCtxNames)}
DeadUserNames == <<"start", "init", "iife">>
NeedsEnum(ctx) == ctx \in {"retinarm", "retincaseelse", "deadarm"}

\* a constant of type ty
Dflt(ty) == CASE ty.k = "tint" -> I(5)
              [] ty.k = "tbool" -> Bo(FALSE)
              [] ty.k = "ttuple" -> Tup(<<I(5), I(6)>>)
              [] ty.k = "tlist" -> Lst(<<I(5)>>)
              [] ty.k = "tname" -> Var0("E", "Z")

\* the body as the tail of a value-yielding block: ends with an expression
AsTail(body, d) == IF body[Len(body)].k = "expr" THEN body ELSE body \o <<Ex(d)>>
\* the body as statements that are not the tail of a function: its value becomes a local definition
AsStmts(body) == IF body[Len(body)].k = "expr"
                 THEN SubSeq(body, 1, Len(body) - 1) \o <<DefC(391, TNone, body[Len(body)].e)>>
                 ELSE body

DeadBody(ctx, T, body0) ==
    LET d == Dflt(T)
        r == <<Ret(d)>>
        body == AsTail(body0, d)
        stmts == AsStmts(body0) IN
    CASE ctx = "afterret"      -> r \o body
      [] ctx = "retinthen"     -> <<Ex(If2(Bo(TRUE), r \o body, <<Ex(d)>>))>>
      [] ctx = "retinelse"     -> <<Ex(If2(Bo(FALSE), <<Ex(d)>>, r \o body))>>
      [] ctx = "retinarm"      -> <<Ex(CaseE(Var0("E", "Z"), <<CArm("Z", r \o body)>>, <<Ex(d)>>))>>
      [] ctx = "retincaseelse" -> <<Ex(CaseE(Var0("E", "Z"), <<CArmB("A", 211, <<Ex(d)>>)>>, r \o body))>>
      [] ctx = "retinloop"     -> <<Loop(Bo(TRUE), r \o stmts), Ex(d)>>
      [] ctx = "retinblock"    -> <<Block(r \o stmts), Ex(d)>>
      [] ctx = "retinclosure"  -> <<DefC(380, TNone, Fn(<<>>, T, r \o body)), Ex(Call(V(380), <<>>))>>
      [] ctx = "afterunreach"  -> <<DefC(380, TNone, Fn(<<>>, T, <<Unreach>> \o body)), Ex(d)>>
      [] ctx = "uncalled"      -> <<DefC(380, TNone, Fn(<<>>, T, body)), Ex(d)>>
      [] ctx = "deadthen"      -> <<Ex(If2(Bo(FALSE), body, <<Ex(d)>>))>>
      [] ctx = "deadelse"      -> <<Ex(If2(Bo(TRUE), <<Ex(d)>>, body))>>
      [] ctx = "deadarm"       -> <<Ex(CaseE(Var0("E", "Z"), <<CArmB("A", 211, body)>>, <<Ex(d)>>))>>
      [] ctx = "deadloop"      -> <<Loop(Bo(FALSE), stmts), Ex(d)>>

\* the position definition with its body moved into the dead context
DeadDef(c) ==
    LET d == PosDef(c.pos) IN
    [d EXCEPT !.body = DeadBody(c.ctx, d.ret, d.body),
              !.decls = d.decls \cup (IF NeedsEnum(c.ctx) \/ d.ret.k = "tname" THEN {"E"} ELSE {})]

DeadCases == [ctx : DeadCtxs, pos : Positions, user : {"start", "init", "iife"}]
DeadProg(c) == PosProgD(DeadDef(c), c.user)

DeadSelfCases == {c \in [ctx : DeadCtxs, pos : Positions, user : {"iife", "init"}] :
                    PosDef(c.pos).lk = "i" /\ PosDef(c.pos).ret = TInt}
DeadSelfProg(c) ==
    LET d == DeadDef(c)
        body == Fn(<<>>, d.ret, d.body) IN
    [decls |-> (IF "E" \in d.decls THEN <<EnumDecl>> ELSE <<>>) \o (IF "B" \in d.decls THEN <<BlobDecl>> ELSE <<>>)
               \o (IF "BM" \in d.decls THEN <<BMDecl>> ELSE <<>>),
     g |-> (IF d.h THEN <<HelperTop>> ELSE <<>>)
           \o (IF c.user = "iife" THEN <<DefN(GL, "const", TInt, Call(body, <<>>), "u")>>
               ELSE <<DefN(GL, "const", TInt, Call(V(GF), <<>>), "u"), DefN(GF, "const", TNone, body, "f")>>),
     start |-> DefN(StartId, "const", TNone, Fn(<<>>, TVoid, <<PrintS(L)>>), "start")]

\* a specification-side sample (quick tier): a diagonal of the product, so that every context and every position
\* occurs, each position in several consecutive contexts
IndexIn(seq, x) == CHOOSE i \in 1..Len(seq) : seq[i] = x
DeadKey(c) == IndexIn(DeadCtxNames, c.ctx) + IndexIn(PosNames, c.pos) + IndexIn(DeadUserNames, c.user)
DeadSelected(mod, seed) == IF mod <= 1 THEN DeadCases ELSE {c \in DeadCases : (DeadKey(c) + seed) % mod = 0}
DeadSelfSelected(mod, seed) == IF mod <= 1 THEN DeadSelfCases ELSE {c \in DeadSelfCases : (DeadKey(c) + seed) % mod = 0}
=============================================================================
