------------------------------ MODULE SyltLayers ------------------------------
(***************************************************************************)
(* C12, family L ("layers"): the order in which files are loaded, names    *)
(* handed on by `from` through exporting files, the same global names in   *)
(* several files, and whose `start` is the entry point.                    *)
(*                                                                         *)
(* What is specified here (guide "Imports": "a central exporting-file";    *)
(* tests/import/from_circular.sy, faulty_from_circular.sy, subdir/exports) *)
(*                                                                         *)
(* LoadSeq     the module order: the file being run first; the imports of  *)
(*             a loaded file are put on a stack in the order they are      *)
(*             written and the file on top is loaded next, each file once  *)
(*             (so the LAST import of a file is loaded right after it).    *)
(* Tables      what every file can name.  Every file's own globals; `use   *)
(*             p [as a]` adds a namespace; `from p use n [as a]` adds      *)
(*             whatever p's file can name as n - its own global n or a     *)
(*             name it has itself imported (least fixpoint: the order in   *)
(*             which files and statements are looked at has no meaning,    *)
(*             "You don't have to consider include-ordering").  A `from`   *)
(*             that finds nothing makes the program ill-formed (rejected). *)
(*             A reference a.b.x is resolved from left to right through    *)
(*             the namespaces; x may be any name its file can name.        *)
(* Free verdict A configuration in which some `from` takes a name that the *)
(*             other file has only imported itself ("handed on via from",  *)
(*             d.free) may be accepted or rejected: the guide's "central   *)
(*             exporting-file" suggests it works, /repo's                  *)
(*             tests/import/faulty_from_circular.sy pins a rejection.      *)
(*             If it is accepted it must behave as the model says.  What   *)
(*             is NOT free: the verdict must be the same for every order   *)
(*             of the main file's import statements (OrderIndependent,     *)
(*             judged per group of configurations that differ only in that *)
(*             order), and every other configuration must be accepted.     *)
(* Entry point the `start` of the file being run.  Every other file may    *)
(*             define a global `start` of its own: an ordinary function    *)
(*             (tests/import/subdir/exports.sy), also when the main file's *)
(*             `start` calls it directly or through other functions.       *)
(* Behaviour   of an accepted configuration = SyltSem run of its globals   *)
(*             (one binder per (file, name): same-named globals of         *)
(*             different files are different globals), initialised file by *)
(*             file in module order and in text order within a file, then  *)
(*             the main file's start().  No initialiser of the family      *)
(*             reads another global, so this order is only visible through *)
(*             the initialisers that print (`boot`).                       *)
(*                                                                         *)
(* Universe: address (n, w).  n = primary digits: chain length 1..3        *)
(* (consumer <- [kit/exports <-] [shapes/exports <-] shapes/_circle),       *)
(* consumer main.sy or report.sy, last hop `from` or namespace, who        *)
(* imports engine.sy, which chain files the main file imports besides, and *)
(* the order of the main file's import statements (rotations x reversal).  *)
(* w = variant 0..63: aliases at the first and at the consumer's hop,      *)
(* printing initialisers, which files define their own `start`, extra      *)
(* back / side imports (cycles, files with several imports), and derived   *)
(* from (n without its order digit, w): path texts, statement order of the *)
(* other files, `from .. use start as go` instead of a namespace, import   *)
(* lines first or last.  Configurations with the same (n % NBaseL, w) are  *)
(* the same program up to the order of the main file's import statements.  *)
(***************************************************************************)
EXTENDS SyltModules

LM == Tree[1]      \* main.sy             the file being run
LR == Tree[2]      \* report.sy           sibling, consumer or bystander
LG == Tree[3]      \* engine.sy           sibling with a `start` of its own
LE == Tree[4]      \* shapes/exports.sy   exporting file of a folder
LO == Tree[5]      \* shapes/_circle.sy   origin of `area` and `label`
LK == Tree[6]      \* kit/exports.sy      second exporting file (takes from /shapes/)

TagOf(f) == CASE f = LM -> "main" [] f = LR -> "report" [] f = LG -> "engine"
              [] f = LE -> "shapes" [] f = LO -> "circle" [] f = LK -> "kit"

Last(s) == s[Len(s)]
Front(s) == SubSeq(s, 1, Len(s) - 1)
Rotate(s, r) == IF Len(s) = 0 THEN s ELSE [q \in 1..Len(s) |-> s[((q - 1 + r) % Len(s)) + 1]]

---------------------------------------------------------------------------
(* Module order *)
RECURSIVE LoadStack(_, _, _)
LoadStack(stack, seen, imp) ==
    IF stack = <<>> THEN seen
    ELSE IF Last(stack) \in Range(seen) THEN LoadStack(Front(stack), seen, imp)
    ELSE LoadStack(Front(stack) \o imp[Last(stack)], Append(seen, Last(stack)), imp)
LoadSeq(imp) == LoadStack(<<Main>>, <<>>, imp)
PosIn(sq, x) == CHOOSE q \in 1..Len(sq) : sq[q] = x

---------------------------------------------------------------------------
(* What every file can name *)
NsOfStmt(s) == IF s.alias = "" THEN NsNameOf(s.path) ELSE s.alias
OwnBinds(f, gl) == {[name |-> x, kind |-> "global", file |-> f, item |-> x] : x \in gl[f]}

\* T = [tab |-> [file -> set of bindings], fails |-> set of <<importing file, file named, name>>]
ProcStmt(T, f, s) ==
    LET g == FileOf(f, s.path) IN
    IF s.k = "use"
    THEN [T EXCEPT !.tab[f] = @ \cup {[name |-> NsOfStmt(s), kind |-> "ns", file |-> g, item |-> ""]}]
    ELSE LET hit(q) == {b \in T.tab[g] : b.name = s.names[q].name}
             new == UNION {{[name |-> IF s.names[q].as = "" THEN s.names[q].name ELSE s.names[q].as,
                             kind |-> b.kind, file |-> b.file, item |-> b.item] : b \in hit(q)} : q \in DOMAIN s.names}
             bad == {<<f, g, s.names[q].name>> : q \in {q \in DOMAIN s.names : hit(q) = {}}}
         IN [tab |-> [T.tab EXCEPT ![f] = @ \cup new], fails |-> T.fails \cup bad]

RECURSIVE ProcStmts(_, _, _, _)
ProcStmts(T, f, ss, q) == IF q > Len(ss) THEN T ELSE ProcStmts(ProcStmt(T, f, ss[q]), f, ss, q + 1)
RECURSIVE ProcFiles(_, _, _, _)
ProcFiles(T, load, stm, q) == IF q > Len(load) THEN T ELSE ProcFiles(ProcStmts(T, load[q], stm[load[q]], 1), load, stm, q + 1)

\* least fixpoint: pass over all files until nothing new can be named; the failures are those of the last pass
RECURSIVE FixTables(_, _, _)
FixTables(T, load, stm) == LET T2 == ProcFiles([tab |-> T.tab, fails |-> {}], load, stm, 1) IN
                           IF T2.tab = T.tab THEN T2 ELSE FixTables(T2, load, stm)
Tables(load, stm, gl) == FixTables([tab |-> [f \in Range(Tree) |-> OwnBinds(f, gl)], fails |-> {}], load, stm)

RECURSIVE WalkT(_, _, _, _)
WalkT(tab, f, nss, q) ==
    IF q > Len(nss) THEN f
    ELSE LET c == {b \in tab[f] : b.kind = "ns" /\ b.name = nss[q]} IN
         IF c = {} THEN "" ELSE WalkT(tab, (CHOOSE b \in c : TRUE).file, nss, q + 1)
ResolveT(tab, f, ref) ==
    LET g == WalkT(tab, f, ref.ns, 1) IN
    IF g = "" THEN Unresolved
    ELSE LET c == {b \in tab[g] : b.kind = "global" /\ b.name = ref.name} IN
         IF c = {} THEN Unresolved ELSE [file |-> (CHOOSE b \in c : TRUE).file, item |-> (CHOOSE b \in c : TRUE).item]

---------------------------------------------------------------------------
(* The globals of the family.  One binder per (file, name). *)
Slots == <<"boot", "run", "start", "area", "label">>
SlotOf(x) == CHOOSE q \in 1..Len(Slots) : Slots[q] = x
BinderOf(f, x) == FileIdxOf(f) * 10 + SlotOf(x)

NBaseL == 3 * 2 * 2 * 3 * 8          \* everything but the order of the main file's import statements
NPrimL == NBaseL * 24
NVariantsL == 64
\* orders of the main file's k import statements: every permutation up to k = 4, rotations x reversal beyond
NOrd(k) == CASE k = 1 -> 1 [] k = 2 -> 2 [] k = 3 -> 6 [] k = 4 -> 24 [] OTHER -> 2 * k
RECURSIVE PermL(_, _)
PermL(s, idx) == IF Len(s) <= 1 THEN s
                 ELSE LET i == (idx % Len(s)) + 1 IN <<s[i]>> \o PermL(RemoveAt(s, i), idx \div Len(s))

\* the primary digits of n
LenOf(n) == (n % 3) + 1
ConsOf(n) == IF (n \div 3) % 2 = 0 THEN LR ELSE LM
LastOf(n) == IF (n \div 6) % 2 = 0 THEN "from" ELSE "ns"
EmOf(n) == ((n \div 12) % 3) + 1               \* 1: main imports engine, 2: report does, 3: both
TMaskOf(n) == (n \div 36) % 8
OrdOf(n) == (n \div 288) % 24
ChainL(n) == SubSeq(<<LO, LE, LK>>, 1, LenOf(n))      \* the origin, then the exporting files
TSeqOf(n) == SelectSeq(<<LK, LE, LO>>, LAMBDA f : f \in Range(ChainL(n)) /\ Bit(TMaskOf(n), PosIn(ChainL(n), f) - 1) = 1)
MainCount(n) == 1 + (IF EmOf(n) \in {1, 3} THEN 1 ELSE 0) + Len(TSeqOf(n)) + (IF ConsOf(n) = LM THEN 1 ELSE 0)

ApplicableL(n) ==
    /\ n \in 0..(NPrimL - 1)
    /\ TMaskOf(n) < PowN(2, LenOf(n))
    /\ OrdOf(n) < NOrd(MainCount(n))
    \* the main file is first in the module order: a name handed on can never reach it through `from` (rejected
    \* whatever the order of its imports is) - two orders of these are enough
    /\ (ConsOf(n) = LM /\ LastOf(n) = "from" /\ LenOf(n) >= 2) => OrdOf(n) < 2
    \* one `use` per file and target (the same file twice under one name is outside the universe)
    /\ ~(ConsOf(n) = LM /\ LastOf(n) = "ns" /\ Last(ChainL(n)) \in Range(TSeqOf(n)))

DeriveL(n, w) ==
  LET len     == LenOf(n)
      cons    == ConsOf(n)
      last    == LastOf(n)
      em      == EmOf(n)
      chain   == ChainL(n)
      lastx   == chain[len]
      present == SelectSeq(Tree, LAMBDA f : f \in {LM, LR, LG} \cup Range(chain))
      isIn(f) == f \in Range(present)
      nb      == n % NBaseL                \* the derived choices do not depend on the order digit
      h       == (nb * 37 + w * 101 + (nb \div 16) * 13) % 1009
      a1      == Bit(w, 0) = 1            \* the first `from` of the chain renames label to name
      a2      == Bit(w, 1) = 1            \* the consumer renames area to ar / takes the namespace under an alias
      boots   == Bit(w, 2) = 1
      smode   == (w \div 8) % 4
      extras  == Bit(w, 5) = 1
      xmask   == IF extras THEN 1 + (h % 15) ELSE 0
      rev     == (h \div 3) % 2 = 1
      gofrom  == (h \div 5) % 2 = 1
      startFiles == CASE smode = 0 -> {}
                      [] smode = 1 -> {LG}
                      [] smode = 2 -> Range(present) \ {LM}
                      [] smode = 3 -> {LG, LE, LK} \cap Range(present)
      entry(g) == IF g \in startFiles THEN "start" ELSE "run"
      pathFor(f, g) == LET ps == PathSeqT[f][g] IN ps[((h + FileIdxOf(f) + FileIdxOf(g)) % Len(ps)) + 1]
      useOf(f, g, forceAlias) ==
          LET path == pathFor(f, g)
              implicit == ~forceAlias /\ NsNameOf(path) \notin {"", "exports"} /\ (FileIdxOf(f) + FileIdxOf(g) + w) % 3 # 0
          IN UseStmt(path, IF implicit THEN "" ELSE "n" \o ToString(FileIdxOf(g)))
      \* ---- the chain of `from` imports
      label1  == IF a1 THEN "name" ELSE "label"                     \* what label is called after the first hop
      hopStmt(q) ==                                                  \* written in chain[q], q >= 2: takes from chain[q - 1]
          FromStmt(pathFor(chain[q], chain[q - 1]),
                   IF q = 2 THEN <<[name |-> "area", as |-> ""], [name |-> "label", as |-> IF a1 THEN "name" ELSE ""]>>
                   ELSE <<[name |-> "area", as |-> ""], [name |-> label1, as |-> ""]>>)
      consStmt == IF last = "ns" THEN useOf(cons, lastx, a2)
                  ELSE FromStmt(pathFor(cons, lastx),
                                IF len = 1
                                THEN <<[name |-> "area", as |-> IF a2 THEN "ar" ELSE ""], [name |-> "label", as |-> IF a1 THEN "name" ELSE ""]>>
                                ELSE <<[name |-> "area", as |-> IF a2 THEN "ar" ELSE ""], [name |-> label1, as |-> ""]>>)
      consNs   == IF last = "ns" THEN <<NsOfStmt(consStmt)>> ELSE <<>>
      areaRef  == [b |-> BinderOf(LO, "area"), ns |-> consNs, name |-> IF last = "from" /\ a2 THEN "ar" ELSE "area"]
      labelRef == [b |-> BinderOf(LO, "label"), ns |-> consNs,
                   name |-> IF len = 1 /\ last = "ns" THEN "label" ELSE label1]
      \* ---- who imports engine.sy, as a namespace or as `from engine use <entry> as go`
      engStmt(f) == IF gofrom THEN FromStmt(pathFor(f, LG), <<[name |-> entry(LG), as |-> "go"]>>) ELSE useOf(f, LG, FALSE)
      \* ---- extra imports: report -> origin (side), exporter -> report, origin -> its exporter (or report), engine -> report (back)
      hasUse(ss, f, g) == \E q \in DOMAIN ss : ss[q].k = "use" /\ FileOf(f, ss[q].path) = g
      extra(f, ss) ==
          LET want == CASE f = LR -> IF Bit(xmask, 0) = 1 THEN <<LO>> ELSE <<>>
                        [] f = LE -> IF Bit(xmask, 1) = 1 THEN <<LR>> ELSE <<>>
                        [] f = LO -> IF Bit(xmask, 2) = 1 THEN <<IF isIn(LE) THEN LE ELSE LR>> ELSE <<>>
                        [] f = LG -> IF Bit(xmask, 3) = 1 THEN <<LR>> ELSE <<>>
                        [] OTHER  -> <<>>
          IN [q \in DOMAIN SelectSeq(want, LAMBDA g : ~hasUse(ss, f, g)) |-> useOf(f, SelectSeq(want, LAMBDA g : ~hasUse(ss, f, g))[q], FALSE)]
      mainBase == <<useOf(LM, LR, FALSE)>> \o (IF em \in {1, 3} THEN <<engStmt(LM)>> ELSE <<>>)
                  \o [q \in DOMAIN TSeqOf(n) |-> useOf(LM, TSeqOf(n)[q], FALSE)]
                  \o (IF cons = LM THEN <<consStmt>> ELSE <<>>)
      k        == Len(mainBase)
      ord      == OrdOf(n)
      mainStm  == IF k <= 4 THEN PermL(mainBase, ord)
                  ELSE LET rot == Rotate(mainBase, ord \div 2) IN IF ord % 2 = 1 THEN Reverse(rot) ELSE rot
      base(f)  == CASE f = LR -> (IF cons = LR THEN <<consStmt>> ELSE <<>>) \o (IF em \in {2, 3} THEN <<engStmt(LR)>> ELSE <<>>)
                    [] f \in {LE, LK} -> IF isIn(f) /\ PosIn(chain, f) >= 2 THEN <<hopStmt(PosIn(chain, f))>> ELSE <<>>
                    [] OTHER -> <<>>
      otherStm(f) == LET ss == base(f) \o extra(f, base(f)) IN IF rev THEN Reverse(ss) ELSE ss
      stm == TLCEval([f \in Range(Tree) |-> IF ~isIn(f) THEN <<>> ELSE IF f = LM THEN mainStm ELSE otherStm(f)])
      imp == TLCEval([f \in Range(Tree) |-> [q \in DOMAIN stm[f] |-> FileOf(f, stm[f][q].path)]])
      load == LoadSeq(imp)
      \* ---- the globals
      own(f) == IF ~isIn(f) THEN {}
                ELSE (IF boots THEN {"boot"} ELSE {})
                     \cup (IF f = LM THEN {"start"} ELSE {"run"} \cup (IF f \in startFiles THEN {"start"} ELSE {}))
                     \cup (IF f = LO THEN {"area", "label"} ELSE {})
      gl == TLCEval([f \in Range(Tree) |-> own(f)])
      T == Tables(load, stm, gl)
      \* every `from` that hands on a name its file has only imported: importer, exporter
      hops == (IF len >= 3 THEN {<<LK, LE>>} ELSE {}) \cup (IF last = "from" /\ len >= 2 THEN {<<cons, lastx>>} ELSE {})
      free == hops # {}
      \* ---- what the functions of a file call: along its imports of files further down (never back: no recursion)
      callRefs(f) ==
          LET ss == stm[f]
              fw == SelectSeq([q \in DOMAIN ss |-> q], LAMBDA q : FileIdxOf(FileOf(f, ss[q].path)) > FileIdxOf(f)
                                                                  /\ (ss[q].k = "use" \/ ss[q].names[1].as = "go"))
          IN [j \in DOMAIN fw |-> LET s == ss[fw[j]]
                                      g == FileOf(f, s.path) IN
                                  IF s.k = "use" THEN [b |-> BinderOf(g, entry(g)), ns |-> <<NsOfStmt(s)>>, name |-> entry(g)]
                                  ELSE [b |-> BinderOf(g, entry(g)), ns |-> <<>>, name |-> "go"]]
      refsOf(f) == callRefs(f) \o (IF f = cons THEN <<areaRef, labelRef>> ELSE <<>>)
      workBody(f) == <<Pr(St(TagOf(f) \o (IF f = LM THEN " start" ELSE " run")))>>
                     \o [j \in DOMAIN callRefs(f) |-> Ex(Call(V(callRefs(f)[j].b), <<>>))]
                     \o (IF f = cons THEN <<Pr(Call(V(areaRef.b), <<I(2)>>)), Pr(V(labelRef.b))>> ELSE <<>>)
      topsOf(f) ==
          (IF boots THEN <<DefN(BinderOf(f, "boot"), "mut", TInt,
                               IIFE(TInt, <<Pr(St(TagOf(f) \o " boot")), Ret(I(FileIdxOf(f)))>>), "boot")>> ELSE <<>>)
          \o (IF f = LO THEN <<DefN(BinderOf(f, "area"), "const", TNone,
                                    Fn(<<P(100, TInt)>>, TInt, <<Ret(Bin("*", Bin("*", V(100), V(100)), I(3)))>>), "area"),
                                DefN(BinderOf(f, "label"), "const", TStr, St("circle"), "label")>> ELSE <<>>)
          \o (IF f = LM THEN <<DefN(BinderOf(f, "start"), "const", TNone, Fn(<<>>, TVoid, workBody(f)), "start")>>
              ELSE <<DefN(BinderOf(f, "run"), "const", TNone, Fn(<<>>, TVoid, workBody(f)), "run")>>
                   \o (IF f \in startFiles
                       THEN <<DefN(BinderOf(f, "start"), "const", TNone,
                                   Fn(<<>>, TVoid, <<Pr(St(TagOf(f) \o " start")), Ex(Call(V(BinderOf(f, "run")), <<>>))>>), "start")>>
                       ELSE <<>>))
      allTops == Flatten([q \in DOMAIN load |-> topsOf(load[q])], 1)
      S1 == RunTops(allTops, 1, NewState(400))
      S2 == IF S1.status # "run" THEN S1 ELSE CallStart(BinderOf(LM, "start"), S1).s
      layout == LayoutOf(h)
      fileRec(f) == [path |-> f, stmts |-> stm[f],
                     lines |-> [q \in DOMAIN stm[f] |-> StmtLine(stm[f][q], layout)],
                     tops |-> topsOf(f),
                     refs |-> refsOf(f),
                     imports_last |-> (h + FileIdxOf(f)) % 2 = 1]
  IN [n |-> n, w |-> w, len |-> len, cons |-> cons, last |-> last, em |-> em, ord |-> ord, nmain |-> k,
      present |-> present, stm |-> stm, imp |-> imp, load |-> load, gl |-> gl, tab |-> T.tab, fails |-> T.fails,
      free |-> free,
      files |-> [q \in DOMAIN present |-> fileRec(present[q])],
      expect |-> [class |-> "ok", status |-> S2.status, prints |-> [q \in 1..Len(S2.out) |-> PrintText(S2.out[q].v)]],
      hops |-> hops,
      boots |-> boots, smode |-> smode, starts |-> startFiles, extras |-> extras, gofrom |-> gofrom, rev |-> rev,
      a1 |-> a1, a2 |-> a2, layout |-> layout,
      \* the main file's start depends (through calls) on a `start` of another file
      startdep |-> LET RECURSIVE Reach(_)
                       Reach(fs) == LET nx == fs \cup {c.b \div 10 : c \in UNION {Range(callRefs(Tree[fi])) : fi \in fs}} IN
                                    IF nx = fs THEN fs ELSE Reach(nx)
                   IN \E fi \in Reach({1}) \ {1} : Tree[fi] \in startFiles,
      cycle |-> \E f \in Range(present) : f \in ReachSet(Range(imp[f]), imp),
      multi |-> Cardinality({f \in Range(present) \ {LM} : Len(stm[f]) >= 2})]

---------------------------------------------------------------------------
(* Which configurations a run explores: nv variants per applicable primary, spread over 0..63, offset by n (without
   its order digit: all orders of a program are explored together) and seed *)
VariantsForL(nv, seed, n) == {((n % NBaseL) * 7 + seed + q * (NVariantsL \div nv)) % NVariantsL : q \in 0..(nv - 1)}
PrimariesL == {n \in 0..(NPrimL - 1) : ApplicableL(n)}
UniverseIdsL(nv, seed) == UNION {{<<n, w>> : w \in VariantsForL(nv, seed, n)} : n \in PrimariesL}

---------------------------------------------------------------------------
(* Spec-level properties of a derived configuration d *)
FileRecL(d, f) == d.files[CHOOSE q \in DOMAIN d.files : d.files[q].path = f]

\* each file once in the module order; exactly the files reachable through imports; the main file first
LoadOnceL(d) ==
    /\ Cardinality(Range(d.load)) = Len(d.load)
    /\ Range(d.load) = ReachSet({Main}, d.imp)
    /\ Range(d.load) = Range(d.present)
    /\ d.load[1] = Main
    /\ \A f \in Range(d.present) : \A q \in DOMAIN d.imp[f] : d.imp[f][q] \in Range(d.present) \ {f}

\* no name of a file stands for two things; no namespace is called like a std module; one `use` per file and target
UniqueNamesL(d) == \A f \in Range(d.present) :
    /\ \A b1 \in d.tab[f], b2 \in d.tab[f] : b1.name = b2.name => b1 = b2
    /\ \A b \in d.tab[f] : b.name \notin StdNames
    /\ \A q1 \in DOMAIN d.stm[f], q2 \in DOMAIN d.stm[f] :
          (q1 # q2 /\ d.stm[f][q1].k = "use" /\ d.stm[f][q2].k = "use") => d.imp[f][q1] # d.imp[f][q2]

\* every reference, as written in its file, names the intended global of the intended file; a file's own
\* names mean its own globals whatever other files call theirs; what was not imported cannot be named
RefsResolveL(d) ==
    \A f \in Range(d.present) :
        /\ \A q \in DOMAIN FileRecL(d, f).refs :
              LET r == FileRecL(d, f).refs[q]
                  t == ResolveT(d.tab, f, [ns |-> r.ns, name |-> r.name]) IN
              t # Unresolved /\ BinderOf(t.file, t.item) = r.b
        /\ \A x \in d.gl[f] : ResolveT(d.tab, f, [ns |-> <<>>, name |-> x]) = [file |-> f, item |-> x]
        /\ \A g \in Range(d.present) \ {f} : \A x \in d.gl[g] \ d.gl[f] :
              ResolveT(d.tab, f, [ns |-> <<>>, name |-> x]) # Unresolved =>
                  \E q \in DOMAIN d.stm[f] : d.stm[f][q].k = "from" /\ \E r \in DOMAIN d.stm[f][q].names :
                        d.stm[f][q].names[r].name = x /\ d.stm[f][q].names[r].as = ""

\* the model is well-formed: every `from` finds its name (whatever the order), the run finishes, the entry point is
\* the main file's start (its line is the first one printed after the initialisers'), the printing initialisers run in
\* module order; the verdict is free exactly when a name is handed on through `from`
ModelOK(d) ==
    /\ d.fails = {}
    /\ d.free <=> (d.len >= 3 \/ (d.len = 2 /\ d.last = "from"))
    /\ d.expect.status = "done" /\ Len(d.expect.prints) >= 3
    /\ \A q \in DOMAIN d.expect.prints : d.expect.prints[q] # "?"
    /\ d.expect.prints[(IF d.boots THEN Len(d.load) ELSE 0) + 1] = "main start"
    /\ d.boots => \A q \in DOMAIN d.load : d.expect.prints[q] = TagOf(d.load[q]) \o " boot"

ConfigOKL(d) == LoadOnceL(d) /\ UniqueNamesL(d) /\ RefsResolveL(d) /\ ModelOK(d)

---------------------------------------------------------------------------
(* Verdict on a recorded observation of configuration d: obs = [class, errkind, prints, status, reads].
   grp = the compile results (classes) of all recorded configurations that differ from d only in the order of the main
   file's import statements (d's own included). *)
WhysL(d, obs, grp) ==
    (IF obs.class = "ok"
     THEN (IF obs.status # d.expect.status THEN {"status-differs"} ELSE {})
          \cup (IF obs.prints # d.expect.prints THEN {"prints-differ"} ELSE {})
     ELSE IF obs.class = "panic" THEN {"variant-panic"}
     ELSE IF d.free THEN {} ELSE {"variant-err"})
    \cup (IF "ok" \in grp /\ "err" \in grp THEN {"order-dependent-verdict"} ELSE {})
    \cup (IF \E f \in Range(d.load) : ReadCount(obs, f) > 1 THEN {"file-read-twice"} ELSE {})
    \cup (IF obs.class = "ok" /\ \E f \in Range(d.load) : ReadCount(obs, f) = 0 THEN {"file-not-read"} ELSE {})
    \cup (IF \E q \in DOMAIN obs.reads : obs.reads[q].n > 0 /\ obs.reads[q].path \notin Range(d.load) THEN {"unimported-file-read"} ELSE {})
=============================================================================
