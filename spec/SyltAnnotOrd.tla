---------------------------- MODULE SyltAnnotOrd ----------------------------
(***************************************************************************)
(* C08, family O: POSITIONAL type arguments.                               *)
(*                                                                         *)
(* An applied annotation `Name(t1, .., tn)` binds the i-th type argument   *)
(* to the i-th type variable in the order in which the DECLARATION lists   *)
(* them (`Name :: blob( *X, *Y)`): not in the order of their names, not in  *)
(* the order in which the fields / variants mention them.  The families of *)
(* SyltAnnotFam have one two-variable type, declared `( *A, *B)` with the   *)
(* fields in the same order - every one of those orders coincides there.   *)
(*                                                                         *)
(* Here a generic blob `Rec` or enum `Alt` is declared with 2 or 3 type    *)
(* variables out of A, B, C in EVERY declaration order (vp, e.g. "CAB"),   *)
(* its fields / variants mention them in every order (fp); the annotation  *)
(* applies it to a tuple of argument types (args, one letter per DECLARED  *)
(* position: i / s / f) - all pairs, all permutations of (int, str, float) *)
(* and tuples with a repeated type.  The value gives the component of the  *)
(* variable at declared position k the literal of type args[k], and every  *)
(* component is used as only its own type can be (`x + 1`, `x + "s"`,      *)
(* `x + 1.5`).  So the annotated program is well-typed exactly when        *)
(* arguments are bound in declaration order.                               *)
(*                                                                         *)
(* The applied type stands alone at each of the 11 sites of family G       *)
(* (SyltAnnotFam!Unit), or NESTED: in a list, as the argument of another   *)
(* generic (`Box(Rec(..))`), as an argument of itself (`Rec(Rec(..), ..)`),*)
(* as the type of a field of another blob (`Holder { e: Rec(..) }`, the    *)
(* annotation being `Holder`), of a generic blob that passes its own       *)
(* variable on (`HolderG :: blob( *P) { e: Rec(.., *P) }`, annotation       *)
(* `HolderG(t)`), as the payload of another enum; or it is applied to the  *)
(* type variables of a generic function (`pick :: fn e: Rec( *P, *Q) ->     *)
(* *P`), which returns the component of the first / last declared          *)
(* position.  A second unit uses the same declaration with the argument    *)
(* tuple REVERSED, before or after the first.  Enum values are built with  *)
(* the variant that carries all variables or with the variant of one.      *)
(*                                                                         *)
(* Expectation as for every family: all variants accepted, same bytes.     *)
(* (The field / payload types of declarations are not sites; a fault in    *)
(* them rejects every variant, which the expectation does not allow.)      *)
(***************************************************************************)
EXTENDS SyltAnnotFam

Ch(s, i) == SubSeq(s, i, i)
RECURSIVE FlatFrom(_, _)
FlatFrom(ss, i) == IF i > Len(ss) THEN <<>> ELSE ss[i] \o FlatFrom(ss, i + 1)
Flat(ss) == FlatFrom(ss, 1)
SeqN(n, F(_)) == IF n = 1 THEN <<F(1)>> ELSE IF n = 2 THEN <<F(1), F(2)>> ELSE <<F(1), F(2), F(3)>>

(* orders of the type variables (declaration order vp, mention order fp) *)
OOrders(n) == IF n = 2 THEN {"AB", "BA"} ELSE {"ABC", "ACB", "BAC", "BCA", "CAB", "CBA"}
ORev(s) == IF Len(s) = 2 THEN Ch(s, 2) \o Ch(s, 1) ELSE Ch(s, 3) \o Ch(s, 2) \o Ch(s, 1)
OPos(order, name) == CHOOSE i \in 1..Len(order) : Ch(order, i) = name
OField(c) == CASE c = "A" -> "a" [] c = "B" -> "b" [] c = "C" -> "c"
ODigit(d) == CASE d = "1" -> 1 [] d = "2" -> 2 [] d = "3" -> 3

(* argument types: one letter per declared position *)
OPrims == {"i", "s", "f"}
OPrimT(c) == CASE c = "i" -> TInt [] c = "s" -> TStr [] c = "f" -> TFloat
OLit(c) == CASE c = "i" -> I(1) [] c = "s" -> St("s") [] c = "f" -> Fl(3, 1)
OPrimUse(c, x) == <<Print(Bin("+", x, OLit(c)))>>
OArgs(n) == IF n = 2 THEN {a \o b : a \in OPrims, b \in OPrims}
            ELSE {"isf", "ifs", "sif", "sfi", "fis", "fsi", "iis", "isi", "sii"}
OArgsDistinct(n) == IF n = 2 THEN {"is", "sf", "fi"} ELSE {"isf", "sfi", "fis"}
OArgsPerm(n) == {a \in OArgs(n) : \A i, j \in 1..n : i # j => Ch(a, i) # Ch(a, j)}

OName(kd) == IF kd = "blob" THEN "Rec" ELSE "Alt"
OGen(vp) == SeqN(Len(vp), LAMBDA i : Ch(vp, i))

(* the declaration: type variables in the order vp, fields / variants in the order fp.
   Rec :: blob( *C, *A, *B) { b: *B, a: *A, c: *C }
   Alt :: enum( *C, *A, *B) OnlyB *B, OnlyA *A, OnlyC *C, All ( *B, *A, *C) end *)
ODecl(kd, vp, fp) ==
  LET n == Len(vp) IN
  IF kd = "blob"
  THEN BlobG("Rec", OGen(vp), SeqN(n, LAMBDA j : FD(OField(Ch(fp, j)), TGen(Ch(fp, j)))))
  ELSE EnumG("Alt", OGen(vp), SeqN(n, LAMBDA j : VD1("Only" \o Ch(fp, j), TGen(Ch(fp, j))))
                               \o <<VD1("All", TTuple(SeqN(n, LAMBDA j : TGen(Ch(fp, j)))))>>)

(* Name(t1, .., tn): T(k) = the type written at argument position k *)
OApp(kd, n, T(_)) == TApp(OName(kd), SeqN(n, T))
OTy(kd, args) == OApp(kd, Len(args), LAMBDA k : OPrimT(Ch(args, k)))

(* a value; C(k) = the expression for the variable at DECLARED position k.  ev: "lit" (blob literal), "all" (the variant
   carrying every variable), "1" / "2" / "3" (the variant of the variable at that declared position) *)
OVal(kd, vp, fp, ev, C(_)) ==
  LET n == Len(vp)
      at(j) == C(OPos(vp, Ch(fp, j))) IN
  IF kd = "blob" THEN BlobL("Rec", SeqN(n, LAMBDA j : FI(OField(Ch(fp, j)), at(j))))
  ELSE IF ev = "all" THEN Var1("Alt", "All", Tup(SeqN(n, at)))
  ELSE Var1("Alt", "Only" \o Ch(vp, ODigit(ev)), C(ODigit(ev)))

(* statements using e; U(k, x) = the statements using x, the component of declared position k *)
OUse(kd, vp, fp, e, b, U(_, _)) ==
  LET n == Len(vp)
      pos(j) == OPos(vp, Ch(fp, j)) IN
  IF kd = "blob" THEN Flat(SeqN(n, LAMBDA k : U(k, Fld(e, OField(Ch(vp, k))))))
  ELSE <<Ex(CaseT(e, SeqN(n, LAMBDA j : CArmB("Only" \o Ch(fp, j), b + j, U(pos(j), V(b + j))))
                     \o <<CArmB("All", b + 4, Flat(SeqN(n, LAMBDA j : U(pos(j), Idx(V(b + 4), j - 1)))))>>))>>

(* nests: where the applied type stands *)
ONests == {"flat", "list", "box", "self", "field", "gfield", "payload"}
OLast(args) == Ch(args, Len(args))

OHolders(kd, args, n) ==
  CASE n = "field"   -> <<BlobD("Holder", <<FD("e", OTy(kd, args)), FD("n", TInt)>>)>>
    [] n = "gfield"  -> <<BlobG("HolderG", <<"P">>,
                                <<FD("e", OApp(kd, Len(args), LAMBDA k : IF k = Len(args) THEN TGen("P") ELSE OPrimT(Ch(args, k)))),
                                  FD("n", TInt)>>)>>
    [] n = "payload" -> <<EnumD("Carrier", <<VD1("Full", OTy(kd, args)), VD0("Empty")>>)>>
    [] OTHER -> <<>>

OAnn(kd, args, n) ==
  CASE n = "flat"    -> OTy(kd, args)
    [] n = "list"    -> TList(OTy(kd, args))
    [] n = "box"     -> TApp("Box", <<OTy(kd, args)>>)
    [] n = "self"    -> OApp(kd, Len(args), LAMBDA k : IF k = 1 THEN OTy(kd, args) ELSE OPrimT(Ch(args, k)))
    [] n = "field"   -> TName("Holder")
    [] n = "gfield"  -> TApp("HolderG", <<OPrimT(OLast(args))>>)
    [] n = "payload" -> TName("Carrier")

ONVal(kd, vp, fp, args, ev, n) ==
  LET inner == OVal(kd, vp, fp, ev, LAMBDA k : OLit(Ch(args, k))) IN
  CASE n = "flat"    -> inner
    [] n = "list"    -> Lst(<<inner>>)
    [] n = "box"     -> BlobL("Box", <<FI("v", inner)>>)
    [] n = "self"    -> OVal(kd, vp, fp, ev, LAMBDA k : IF k = 1 THEN inner ELSE OLit(Ch(args, k)))
    [] n = "field"   -> BlobL("Holder", <<FI("e", inner), FI("n", I(1))>>)
    [] n = "gfield"  -> BlobL("HolderG", <<FI("e", inner), FI("n", I(1))>>)
    [] n = "payload" -> Var1("Carrier", "Full", inner)

ONUse(kd, vp, fp, args, n, e, b) ==
  LET prim(k, x) == OPrimUse(Ch(args, k), x)
      use(x) == OUse(kd, vp, fp, x, b, prim) IN
  CASE n = "flat"    -> use(e)
    [] n = "list"    -> <<Ex(Call(Std("for_each"), <<e, Fn(<<P(b + 8, TNone)>>, TVoid, use(V(b + 8)))>>))>>
    [] n = "box"     -> use(Fld(e, "v"))
    [] n = "self"    -> OUse(kd, vp, fp, e, b + 13, LAMBDA k, x : IF k = 1 THEN use(x) ELSE prim(k, x))
    [] n \in {"field", "gfield"} -> use(Fld(e, "e"))
    [] n = "payload" -> <<Ex(CaseT(e, <<CArmB("Full", b + 9, use(V(b + 9))), CArm("Empty", <<Print(I(0))>>)>>))>>

OUnit(kd, vp, fp, args, ev, n, s, b) ==
  LET use(e) == ONUse(kd, vp, fp, args, n, e, b) IN Unit(s, OAnn(kd, args, n), ONVal(kd, vp, fp, args, ev, n), use, FALSE, b)

(* first unit: args at nest n and site s; second unit: the same declaration at the REVERSED argument tuple, flat, as an
   annotated constant; pl = same12 / same21 *)
OProg(kd, vp, fp, args, ev, n, s, pl) ==
  LET u1 == OUnit(kd, vp, fp, args, ev, n, s, 100)
      u2 == OUnit(kd, vp, fp, ORev(args), ev, "flat", "varc", 200) IN
  Decls \o <<ODecl(kd, vp, fp)>> \o OHolders(kd, args, n) \o Place(pl, u1, u2)

(* the generic function over the declaration: the component of the variable at declared position kk.
   pick :: fn e: Rec( *P, *Q, *R) -> *R do e.<field of the 3rd declared variable> end
   pick :: fn e: Alt( *P, *Q, *R), d: *R -> *R do case e do Only<3rd> x -> x end All t -> t[<its place in the tuple>] end else d end end *)
OSigFn(kd, vp, fp, kk, b) ==
  LET n == Len(vp)
      g(k) == TGen(Ch("PQR", k))
      c == Ch(vp, kk) IN
  IF kd = "blob"
  THEN Fn(<<P(b + 1, OApp(kd, n, g))>>, g(kk), <<Ex(Fld(V(b + 1), OField(c)))>>)
  ELSE Fn(<<P(b + 1, OApp(kd, n, g)), P(b + 2, g(kk))>>, g(kk),
          <<Ex(CaseE(V(b + 1), <<CArmB("Only" \o c, b + 3, <<Ex(V(b + 3))>>),
                                 CArmB("All", b + 4, <<Ex(Idx(V(b + 4), OPos(fp, c) - 1))>>)>>,
                     <<Ex(V(b + 2))>>))>>)

OSigProg(kd, vp, fp, args, which, host) ==
  LET kk == IF which = "sigF" THEN 1 ELSE Len(vp)
      f == V(500)
      def == DefC(500, TNone, OSigFn(kd, vp, fp, kk, 500))
      call(a, ev, b) ==
        <<DefC(b, TNone, Call(f, <<OVal(kd, vp, fp, ev, LAMBDA k : OLit(Ch(a, k)))>> \o (IF kd = "blob" THEN <<>> ELSE <<OLit(Ch(a, kk))>>)))>>
        \o OPrimUse(Ch(a, kk), V(b))
      ev0 == IF kd = "blob" THEN "lit" ELSE "all"
      calls == call(args, ev0, 510) \o call(ORev(args), ev0, 520)
               \o (IF kd = "blob" THEN <<>> ELSE call(args, IF kk = 1 THEN "1" ELSE IF kk = 2 THEN "2" ELSE "3", 530)) IN
  Decls \o <<ODecl(kd, vp, fp)>> \o (IF host = "gsig" THEN <<def, StartDef(calls)>> ELSE <<StartDef(<<def>> \o calls)>>)

OId(kd, vp, fp, args, ev, n, s, pl) ==
  [o |-> "O:" \o kd \o ":" \o n \o ":" \o vp, pos |-> 0, i |-> s \o ":" \o fp \o ":" \o args, h |-> pl \o ":" \o ev]

OCase(kd, vp, fp, args, ev, n, s, pl) ==
  [id |-> OId(kd, vp, fp, args, ev, n, s, pl),
   tops |-> IF n \in {"sigF", "sigL"} THEN OSigProg(kd, vp, fp, args, n, s) ELSE OProg(kd, vp, fp, args, ev, n, s, pl),
   pre |-> Len(Decls)]

(* keys <<"O", kd, vp, fp, args, ev, nest, site, place>> (all strings) *)
OKinds == {"blob", "enum"}
OEv0(kd) == IF kd = "blob" THEN "lit" ELSE "all"
\* mention order = declaration order, or its reverse
OShapes2 == UNION { UNION { { <<kd, vp, fp>> : fp \in {vp, ORev(vp)} } : vp \in OOrders(2) \cup OOrders(3) } : kd \in OKinds }
\* OA: every declaration order x every argument tuple x every site
OA == UNION { UNION { { <<"O", sh[1], sh[2], sh[3], a, OEv0(sh[1]), "flat", s, "same12">> : s \in SiteKinds }
                      : a \in OArgs(Len(sh[2])) } : sh \in OShapes2 }
\* OE: enum values built with the variant of ONE variable
OE == UNION { UNION { UNION { { <<"O", sh[1], sh[2], sh[3], a, ev, "flat", s, "same12">> : s \in {"varc", "param", "ret", "global"} }
                      : ev \in {d \in {"1", "2", "3"} : ODigit(d) <= Len(sh[2])} }
                      : a \in OArgs(Len(sh[2])) } : sh \in {x \in OShapes2 : x[1] = "enum"} }
\* OB: the nested positions x both placements
OB == UNION { UNION { UNION { { <<"O", sh[1], sh[2], sh[3], a, OEv0(sh[1]), n, s, pl>> : s \in {"varc", "gpret"}, pl \in {"same12", "same21"} }
                      : n \in ONests \ {"flat"} } : a \in OArgsDistinct(Len(sh[2])) } : sh \in OShapes2 }
\* OC: three variables: every declaration order x EVERY mention order x every permutation of (int, str, float)
OC == UNION { UNION { UNION { { <<"O", kd, vp, fp, a, OEv0(kd), "flat", s, "same12">> : s \in {"varc", "ret"}, a \in OArgsPerm(3) }
                      : fp \in OOrders(3) } : vp \in OOrders(3) } : kd \in OKinds }
\* OS: applied to the type variables of a generic function
OS == UNION { UNION { { <<"O", sh[1], sh[2], sh[3], a, OEv0(sh[1]), w, h, "same12">> : w \in {"sigF", "sigL"}, h \in {"gsig", "lsig"} }
                      : a \in OArgs(Len(sh[2])) } : sh \in OShapes2 }
OKeys == OA \cup OE \cup OB \cup OC \cup OS

CaseOfX(t) == IF t[1] = "O" THEN OCase(t[2], t[3], t[4], t[5], t[6], t[7], t[8], t[9]) ELSE CaseOf(t)
=============================================================================
