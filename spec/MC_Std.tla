------------------------------- MODULE MC_Std -------------------------------
(***************************************************************************)
(* C18: the container and helper models of SyltStd, explored by TLC.       *)
(* Bounds come from the environment (MAXLEN, BIG, KINDS) so that the same  *)
(* module serves the exhaustive run and `-simulate` above the bound.       *)
(* VIEW hides the history; TransitionSane is evaluated on every transition.*)
(***************************************************************************)
EXTENDS SyltStd
=============================================================================
