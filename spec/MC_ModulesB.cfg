SPECIFICATION Spec
CONSTANTS
  Tree <- MCTreeB
  ProgSet <- MCProgsB
INVARIANTS ConfigInv
CHECK_DEADLOCK FALSE
