SPECIFICATION Spec
INVARIANTS MasksOk
CHECK_DEADLOCK FALSE
