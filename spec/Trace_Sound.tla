------------------------------ MODULE Trace_Sound ------------------------------
(***************************************************************************)
(* C02: validates the recorded outcome of every case against SyltSound.    *)
(* One behaviour per record: TLC RE-DERIVES the case from its id (base,    *)
(* site, alternative) - the kind and variant the recorder echoes must be   *)
(* the specification's -, consumes the recorded events with the protocol   *)
(* actions of SyltSound, and, when the compiler accepted the program, runs *)
(* the re-derived program in the strict reference semantics SyltSem.       *)
(*                                                                         *)
(* RESULT lines (exactly one per record; why = "" means it conforms) carry *)
(* the reason of a rejection:                                              *)
(*   dyn_type_error:<what> / runtime_error:<class>  the terminal event is  *)
(*        not one of the protocol's terminals                              *)
(*   read-of-unwritten-global   a global read that no write precedes       *)
(*   spec-stuck:<why>           the strict reference run applies an        *)
(*        operation to a value of the wrong kind / reads an unbound        *)
(*        variable, although Lua happened to carry on                      *)
(*   nil-where-value-expected   Lua printed nil where the reference run    *)
(*        prints a value                                                   *)
(*   malformed-trace / unsupported   tool errors                           *)
(***************************************************************************)
EXTENDS SyltSound, SyltSem, Json, IOUtils

VARIABLES k,       \* record under validation
          l,       \* next event
          st,      \* "run" | "done" | "stuck"
          spec,    \* result of the strict reference run: [status, prints]
          nilbad,  \* a nil was printed where the reference run prints a value
          acts     \* the trace actions taken so far, one letter each (repetitions collapsed): S E X O G P T
tvars == <<k, l, st, spec, nilbad, acts, ph, written, term>>

Rec == ndJsonDeserialize(IOEnv.TRACE)
Ev == Rec[k].ev
Id == Rec[k].id
Fuel == 400

---------------------------------------------------------------------------
(* the strict reference run *)

StdArity == [n \in {"print", "list.len", "list.pop"} |-> 1] @@
            [n \in {"list.push", "list.prepend", "list.get", "for_each", "map", "filter", "list.find"} |-> 2] @@
            [n \in {"fold"} |-> 3]

\* the program stays inside the domain of SyltSem's builtins: std names only as callees, with the right number of arguments
RECURSIVE StdOk(_, _)
StdOk(n, callee) ==
  IF n.k = "std" THEN callee /\ n.name \in DOMAIN StdArity
  ELSE /\ (n.k = "call" /\ n.f.k = "std") => (n.f.name \in DOMAIN StdArity /\ Len(n.args) = StdArity[n.f.name])
       /\ LET ks == SndKids(n) IN \A j \in 1..Len(ks) : StdOk(ks[j], n.k = "call" /\ j = 1)

\* SyltSem binds `self` for ALL field initialisers of a blob literal (to nil until the blob exists); Sylt binds it in the
\* function-valued fields only.  The two readings differ exactly when a plain field initialiser of a literal that sits
\* inside a method of an enclosing literal mentions `self` (Sylt: the enclosing blob): such programs are outside the
\* reference run's domain.  (Outside a method Sylt rejects the mention; if a compiler accepts it, nil is what it reads.)
RECURSIVE MentionsSelf(_)
MentionsSelf(n) == n.k = "self" \/ LET ks == SndKids(n) IN \E j \in 1..Len(ks) : MentionsSelf(ks[j])
RECURSIVE SelfOk(_, _)
SelfOk(n, inMethod) ==
  IF n.k = "blob"
  THEN \A i \in 1..Len(n.fields) :
          IF n.fields[i].e.k = "fn" THEN SelfOk(n.fields[i].e, TRUE)
          ELSE (inMethod => ~MentionsSelf(n.fields[i].e)) /\ SelfOk(n.fields[i].e, inMethod)
  ELSE LET ks == SndKids(n) IN \A j \in 1..Len(ks) : SelfOk(ks[j], inMethod)

StartIdOf(tops) == LET c == {t \in 1..Len(tops) : tops[t].k = "def" /\ tops[t].n = "start"} IN
                   IF c = {} THEN 0 - 5 ELSE tops[CHOOSE t \in c : TRUE].b

IsUnbound(r) == r.sig = "halt" /\ r.s.status \in {"stuck:unbound-variable", "stuck:assign-unbound-variable"}

\* Top-level initialisation in DEPENDENCY order (Sylt's top-level order is irrelevant, C11): the first pending definition
\* whose initialiser finds everything it needs runs next; if none does, the program reads a global that can never be ready.
RECURSIVE InitAll(_, _, _)
RECURSIVE FirstReady(_, _, _, _)
FirstReady(tops, pend, j, S) ==
  IF j > Len(pend) THEN 0
  ELSE IF IsUnbound(InitTop(tops[pend[j]], S)) THEN FirstReady(tops, pend, j + 1, S) ELSE j
InitAll(tops, pend, S) ==
  IF Len(pend) = 0 THEN Ok(S, NilV)
  ELSE LET j == FirstReady(tops, pend, 1, S) IN
       IF j = 0 THEN InitTop(tops[pend[1]], S)
       ELSE LET r == InitTop(tops[pend[j]], S) IN
            IF r.sig # "ok" THEN r
            ELSE InitAll(tops, SubSeq(pend, 1, j - 1) \o SubSeq(pend, j + 1, Len(pend)), r.s)

PrintKinds(out) == [i \in 1..Len(out) |-> IF out[i].v.k = "nil" THEN "nil" ELSE "val"]

SpecRun(tops) ==
  IF ~StdOk(SndSeqN(tops), FALSE) THEN [status |-> "drop:outside-builtin-domain", prints |-> <<>>]
  ELSE IF ~SelfOk(SndSeqN(tops), FALSE) THEN [status |-> "drop:self-of-enclosing-blob-in-plain-field", prints |-> <<>>]
  ELSE LET defs == SndSelectIdx(tops, LAMBDA t : t.k = "def")
           r == InitAll(tops, defs, NewState(Fuel))
           fin == IF r.sig = "halt" THEN r.s
                  ELSE IF r.sig # "ok" THEN [r.s EXCEPT !.status = "stuck:ret-or-break-at-top-level"]
                  ELSE CallStart(StartIdOf(tops), r.s).s IN
       [status |-> fin.status, prints |-> PrintKinds(fin.out)]

IsStuck(s) == Len(s) >= 6 /\ SubSeq(s, 1, 6) = "stuck:"
IsDrop(s) == Len(s) >= 5 /\ SubSeq(s, 1, 5) = "drop:"

---------------------------------------------------------------------------
\* replay of a stored case (PROGS given): the program comes from the replay file, not from the current menu
FromFile == "PROGS" \in DOMAIN IOEnv
Progs == IF FromFile THEN ndJsonDeserialize(IOEnv.PROGS) ELSE <<>>
Case == IF FromFile THEN [kd |-> Rec[k].kd, v |-> Rec[k].v, tops |-> Progs[k].tops] ELSE SndPerturbed(Id.b, Id.s, Id.a)

TraceInit == /\ k \in 1..Len(Rec) /\ l = 1 /\ st = "run" /\ nilbad = FALSE /\ acts = ""
             /\ spec = [status |-> "-", prints |-> <<>>]
             /\ PInit

Is(kind) == st = "run" /\ l <= Len(Ev) /\ Ev[l].e = kind
Step == l' = l + 1 /\ UNCHANGED <<k, st>>
Mark(c) == acts' = IF Len(acts) > 0 /\ SubSeq(acts, Len(acts), Len(acts)) = c THEN acts ELSE acts \o c

TStart == /\ Is("start") /\ Step /\ PStart /\ Mark("S")
          /\ \E c \in {Case} :       \* (derived once)
                Assert(c.kd = Rec[k].kd /\ c.v = Rec[k].v, "a record's kind/variant is not the one the specification derives from its id")
          /\ UNCHANGED <<spec, nilbad>>
TCompileErr == Is("compile_err") /\ Step /\ PCompileErr /\ Mark("E") /\ UNCHANGED <<spec, nilbad>>
TCompilePanic == Is("compile_panic") /\ Step /\ PCompilePanic /\ Mark("X") /\ UNCHANGED <<spec, nilbad>>
TCompileOk == /\ Is("compile_ok") /\ Step /\ PCompileOk /\ Mark("O")
              /\ spec' = SpecRun(Case.tops)
              /\ UNCHANGED nilbad

\* a maximal run of consecutive global-access events
RunEnd == LET RECURSIVE E(_)
              E(j) == IF j <= Len(Ev) /\ Ev[j].e \in {"gw", "gr"} THEN E(j + 1) ELSE j
          IN E(l)
TGlobals == /\ st = "run" /\ l <= Len(Ev) /\ Ev[l].e \in {"gw", "gr"}
            /\ PGlobalRun(SubSeq(Ev, l, RunEnd - 1))
            /\ l' = RunEnd /\ Mark("G")
            /\ UNCHANGED <<k, st, spec, nilbad>>
TPrint == /\ Is("print") /\ Step /\ PPrint /\ Mark("P")
          /\ nilbad' = (nilbad \/ (/\ Ev[l].n = "nil" /\ ~IsDrop(spec.status)
                                   /\ Ev[l].x <= Len(spec.prints) /\ spec.prints[Ev[l].x] = "val"))
          /\ UNCHANGED spec
TTerminal == Is("term") /\ Step /\ PTerminal(Ev[l].n) /\ Mark("T") /\ UNCHANGED <<spec, nilbad>>

\* exactly one RESULT line per record: why = "" means the record conforms
Result(why) == PrintT(<<"RESULT", ToJson([rec |-> k, why |-> why, spec |-> spec.status, at |-> l, acts |-> acts])>>)

TFinish == /\ st = "run" /\ l > Len(Ev) /\ ph \in {"rejected", "ended"}
           /\ st' = "done"
           /\ IF ph = "ended" /\ IsStuck(spec.status) THEN Result("spec-" \o spec.status)
              ELSE IF ph = "ended" /\ nilbad THEN Result("nil-where-value-expected")
              ELSE Result("")
           /\ UNCHANGED <<k, l, spec, nilbad, acts, ph, written, term>>

\* the next event is not a step of the protocol (or the log ends too early)
\* ENABLED of the trace actions, spelled out through the guards of the protocol actions (the effects - re-deriving the case,
\* the reference run - are always possible and are not evaluated a second time just to find that out)
CanStep == \/ (Is("start") /\ PStartG)
           \/ (st = "run" /\ l <= Len(Ev) /\ Ev[l].e \in {"compile_err", "compile_panic", "compile_ok"} /\ PCompileG)
           \/ (st = "run" /\ l <= Len(Ev) /\ Ev[l].e \in {"gw", "gr"} /\ PGlobalRunG(SubSeq(Ev, l, RunEnd - 1)))
           \/ (Is("print") /\ PRunG)
           \/ (Is("term") /\ PTerminalG(Ev[l].n))
           \/ (st = "run" /\ l > Len(Ev) /\ ph \in {"rejected", "ended"})
TStuck == /\ st = "run"
          /\ ~CanStep
          /\ st' = "stuck"
          /\ Result(IF l > Len(Ev) THEN "malformed-trace"
                    ELSE IF Ev[l].e \in {"gw", "gr"} /\ ph \in {"accepted", "running"} THEN "read-of-unwritten-global"
                    ELSE IF Ev[l].e = "term" /\ ph \in {"accepted", "running"}
                         THEN Ev[l].n \o (IF Ev[l].c = "" THEN "" ELSE ":" \o Ev[l].c)
                    ELSE "malformed-trace")
          /\ UNCHANGED <<k, l, spec, nilbad, acts, ph, written, term>>

TraceNext == TStart \/ TCompileErr \/ TCompilePanic \/ TCompileOk \/ TGlobals \/ TPrint \/ TTerminal \/ TFinish \/ TStuck
TraceSpec == TraceInit /\ [][TraceNext]_tvars

StOk == st \in {"run", "done", "stuck"}
\* what acceptance of a record means: the program was rejected by the compiler, or it ran to one of the allowed
\* terminals, reading only initialised globals, and the strict reference run did not get stuck
Accepted == (st = "done" /\ ph = "ended") => term \in SndAllowedTerminals
=============================================================================
