SPECIFICATION Spec
INVARIANTS HeapOk GeneratorSound AllJudged
CHECK_DEADLOCK FALSE
