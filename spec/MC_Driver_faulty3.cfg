SPECIFICATION Spec
CONSTANTS
  MaxErrs = 3
  Faulty <- MCTrue
INVARIANTS TypeOK ExitIffSuccess
CHECK_DEADLOCK FALSE
