SPECIFICATION Spec
CONSTANTS
  MaxErrs = 3
  Faulty <- MCTrue
  StrictSink <- MCFalse
INVARIANTS TypeOK ExitIffSuccess
CHECK_DEADLOCK FALSE
