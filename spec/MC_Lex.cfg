SPECIFICATION Spec
CONSTANTS
  Alphabet <- MCAlphabet
  MaxLen = 3
INVARIANTS Tiling Maximal PositionsSane Exclusive NoStuck PosInRange NonTokenConfined
CHECK_DEADLOCK FALSE
