SPECIFICATION Spec
CONSTANTS
  Alphabet <- MCAlphabet
  MaxLen = 3
INVARIANTS Tiling Maximal PositionsSane Exclusive NoStuck PosInRange
CHECK_DEADLOCK FALSE
