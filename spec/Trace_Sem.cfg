SPECIFICATION TraceSpec
INVARIANTS HeapOk Terminal ContainersOk
CHECK_DEADLOCK FALSE
