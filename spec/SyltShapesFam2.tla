---------------------------- MODULE SyltShapesFam2 ----------------------------
(***************************************************************************)
(* C05 - third part of the SyltShapes specification: three more families   *)
(* of programs on which the shape rules are evaluated.  As in              *)
(* SyltShapesFam a case is ONE program addressed by a KEY tuple, and the   *)
(* verdict is what the rule says about the program text.                   *)
(*                                                                         *)
(* ord   DECLARATION ORDER x MEMBER-TYPE POSITION.  The rules about a      *)
(*       blob's fields and an enum's variants (field-access,               *)
(*       variant-exists, case-totality: UseOk) speak about the DECLARED    *)
(*       type of the value; where in the file the declaration stands, and  *)
(*       through which type constructor another declaration mentions it,   *)
(*       is not part of the rule.  Universe: a carrier type A (blob with a *)
(*       field / enum with a payload) whose member type mentions a user    *)
(*       type B in every position (plain, result of a function type -      *)
(*       also nested in a result, a tuple, a list, a generic argument -,   *)
(*       parameter of a function type, list element, tuple component,      *)
(*       argument of a generic blob / enum), B a blob or an enum, generic  *)
(*       or not, every textual order of the declarations, the A value an   *)
(*       annotated parameter (function called or not) or a local, built    *)
(*       with a literal that contains a real B or (enum carrier) with the  *)
(*       other variant; the value of type B is reached through the member  *)
(*       (read, called, indexed, matched, or - parameter / list positions  *)
(*       - met by a fresh un-annotated parameter) and USED: a declared /   *)
(*       an undeclared field read or written, a case that is exact /       *)
(*       names an unknown variant (with and without else) / misses one     *)
(*       (with and without else).                                          *)
(*                                                                         *)
(* lpos  POSITIONS OF A LOOP.  LoopControlOk (SyltShapesFam) says that the *)
(*       CONDITION of a loop is not inside that loop.  Universe: break /   *)
(*       continue / ret at every syntactic site of a loop L (in an if /    *)
(*       else / elif / case arm / case else / nested if block of its       *)
(*       condition, the condition an operand / a call argument / a called  *)
(*       closure / of a loop without do-block, in the body or the          *)
(*       condition of a loop inside the condition, in the body, in an if / *)
(*       a closure / an inner loop's condition in the body, after the      *)
(*       loop) x what encloses L in its function (nothing, a loop body, an *)
(*       if in a loop body, a loop's condition, a closure in a loop, an    *)
(*       if, an earlier loop) x purity of the function.                    *)
(*                                                                         *)
(* seq   SEQUENCES OF USES OF ONE VALUE.  Every use is judged on its own   *)
(*       (UseOk for each): an earlier legal use never licenses a later     *)
(*       illegal one.  Universe: 2 or 3 uses (cases with different arm     *)
(*       sets / field reads and writes / constant indices) of one enum /   *)
(*       generic enum / blob / generic blob / tuple value, the uses linked *)
(*       to the value in every way the type checker links them: the same   *)
(*       variable, aliases, an annotated parameter (first / last / every   *)
(*       use inside the called function, or all in an uncalled one), an    *)
(*       un-annotated parameter, a blob field, a function result, a tuple  *)
(*       component, a global.                                              *)
(***************************************************************************)
EXTENDS SyltShapesFam

TApp(n, args) == [k |-> "tapp", n |-> n, args |-> args]       \* B(int)
TGen(n) == [k |-> "tgen", n |-> n]                            \* *T
BlobG(name, gen, fields) == [k |-> "blobdecl", name |-> name, gen |-> gen, fields |-> fields]
EnumG(name, gen, variants) == [k |-> "enum", name |-> name, gen |-> gen, variants |-> variants]
Par(e) == [k |-> "paren", e |-> e]
FnT(ps, r) == [k |-> "tfn", ps |-> ps, r |-> r, pure |-> FALSE]

\* the quick tier (MaxVariants < 4) leaves out part of two universes, see OrdKeyOk and SeqOpSeqs
Quick == MaxVariants < 4

(* ================================================================ the rules about ONE use of a value *)
\* d = the declaration of the value's type (a blob / enum declaration) or, for tuples, the tuple type
FieldNames(d) == {d.fields[i].f : i \in 1..Len(d.fields)}
VariantNames(d) == {d.variants[i].v : i \in 1..Len(d.variants)}
UseOk(u, d) ==
  CASE u.k = "fld"  -> d.k = "blobdecl" /\ u.f \in FieldNames(d)          \* field-access
    [] u.k = "case" -> d.k = "enum" /\ CaseOk(u, VariantNames(d))         \* variant-exists, case-totality
    [] u.k = "idx"  -> d.k = "ttuple" /\ u.i < Len(d.es)                  \* tuple-index
UsesOk(uses, d) == \A i \in 1..Len(uses) : UseOk(uses[i], d)
\* statements that perform uses, and the use nodes themselves
SU(stmts, uses) == [stmts |-> stmts, uses |-> uses]
IsPath(r) == r.k = "var" \/ (r.k = "fld" /\ r.e.k = "var")               \* assignment targets start with a name

(* ================================================================ family C: declaration order x member position *)
OrdCarriers == {"blob", "enum"}
OrdOutPos == {"plain", "fn-ret", "fn-ret-arg", "fn-ret-fn", "fn-ret-tuple", "fn-ret-box", "tuple-first", "tuple-second",
              "box", "opt"}
OrdInPos == {"fn-param", "fn-param2", "list", "fn-ret-list"}     \* the B value cannot be read out: an un-annotated parameter meets it
OrdPos == OrdOutPos \cup OrdInPos
OrdTargets == {"blob", "enum", "genblob", "genenum"}
OrdNeedsX(pos) == pos \in {"box", "opt", "fn-ret-box"}
Orders2 == {"AB", "BA"}
Orders3 == {"ABX", "AXB", "XAB", "BAX", "BXA", "XBA"}
OrdProvs == {"param-uncalled", "param-called-lit", "param-called-off", "local-lit", "local-off"}
BlobOps == {"read-known", "read-unknown", "write-known", "write-unknown", "read-known-then-unknown"}
EnumOps == {"case-exact", "case-unknown", "case-unknown-else", "case-missing", "case-missing-else"}
OrdBadOps == {"read-unknown", "write-unknown", "read-known-then-unknown", "case-unknown", "case-unknown-else", "case-missing"}
IsEnumTarget(t) == t \in {"enum", "genenum"}

\* key = <<"ord", carrier, pos, target, order, prov, op>>
OrdKeyOk(carrier, pos, target, order, prov, op) ==
  /\ carrier \in OrdCarriers /\ pos \in OrdPos /\ target \in OrdTargets /\ prov \in OrdProvs
  /\ order \in (IF OrdNeedsX(pos) THEN Orders3 ELSE Orders2)
  /\ op \in (IF IsEnumTarget(target) THEN EnumOps ELSE BlobOps)
  /\ (prov \in {"param-called-off", "local-off"}) => carrier = "enum"
  /\ (pos \in OrdInPos) => prov \notin {"local-lit", "local-off"}
  \* quick tier: a generic B only as an un-called function's parameter or at the plain position
  /\ (Quick /\ target \in {"genblob", "genenum"}) => (prov = "param-uncalled" \/ pos = "plain")
OrdKeys ==
  {key \in {"ord"} \X OrdCarriers \X OrdPos \X OrdTargets \X (Orders2 \cup Orders3) \X OrdProvs \X (BlobOps \cup EnumOps) :
     OrdKeyOk(key[2], key[3], key[4], key[5], key[6], key[7])}

OTB(target) == IF target \in {"blob", "enum"} THEN TName("B") ELSE TApp("B", <<TInt>>)
OBDecl(target) ==
  CASE target = "blob"    -> BlobD("B", <<FD("n", TInt)>>)
    [] target = "genblob" -> BlobG("B", <<"T">>, <<FD("n", TGen("T"))>>)
    [] target = "enum"    -> EnumD("B", <<VD0("Fast"), VD1("Slow", TInt)>>)
    [] target = "genenum" -> EnumG("B", <<"T">>, <<VD0("Fast"), VD1("Slow", TGen("T"))>>)
OBVal(target) == IF IsEnumTarget(target) THEN Var1("B", "Slow", I(1)) ELSE BlobL("B", <<FI("n", I(1))>>)
BoxD == BlobG("Box", <<"T">>, <<FD("v", TGen("T"))>>)
OptD == EnumG("Opt", <<"T">>, <<VD1("Some", TGen("T")), VD0("Non")>>)
OXDecl(pos) == IF pos = "opt" THEN OptD ELSE BoxD

\* the type of the carrier's member: B at the position
MemberTy(pos, t) ==
  CASE pos = "plain"        -> t
    [] pos = "fn-ret"       -> FnT(<<>>, t)
    [] pos = "fn-ret-arg"   -> FnT(<<TInt>>, t)
    [] pos = "fn-ret-fn"    -> FnT(<<>>, FnT(<<>>, t))
    [] pos = "fn-ret-tuple" -> FnT(<<>>, TTuple(<<TInt, t>>))
    [] pos = "fn-ret-box"   -> FnT(<<>>, TApp("Box", <<t>>))
    [] pos = "fn-ret-list"  -> FnT(<<>>, TList(t))
    [] pos = "fn-param"     -> FnT(<<t>>, TInt)
    [] pos = "fn-param2"    -> FnT(<<TInt, t>>, TVoid)
    [] pos = "list"         -> TList(t)
    [] pos = "tuple-first"  -> TTuple(<<t, TInt>>)
    [] pos = "tuple-second" -> TTuple(<<TInt, t>>)
    [] pos = "box"          -> TApp("Box", <<t>>)
    [] pos = "opt"          -> TApp("Opt", <<t>>)
\* a value of that type that contains the real B value bv
MemberVal(pos, t, bv) ==
  CASE pos = "plain"        -> bv
    [] pos = "fn-ret"       -> Fn(<<>>, t, <<Ex(bv)>>)
    [] pos = "fn-ret-arg"   -> Fn(<<P(92, TInt)>>, t, <<Ex(bv)>>)
    [] pos = "fn-ret-fn"    -> Fn(<<>>, FnT(<<>>, t), <<Ex(Par(Fn(<<>>, t, <<Ex(bv)>>)))>>)
    [] pos = "fn-ret-tuple" -> Fn(<<>>, TTuple(<<TInt, t>>), <<Ex(Tup(<<I(1), bv>>))>>)
    [] pos = "fn-ret-box"   -> Fn(<<>>, TApp("Box", <<t>>), <<Ex(BlobL("Box", <<FI("v", bv)>>))>>)
    [] pos = "fn-ret-list"  -> Fn(<<>>, TList(t), <<Ex(Lst(<<bv>>))>>)
    [] pos = "fn-param"     -> Fn(<<P(92, t)>>, TInt, <<Ex(I(1))>>)
    [] pos = "fn-param2"    -> Fn(<<P(93, TInt), P(92, t)>>, TVoid, <<>>)
    [] pos = "list"         -> Lst(<<bv>>)
    [] pos = "tuple-first"  -> Tup(<<bv, I(1)>>)
    [] pos = "tuple-second" -> Tup(<<I(1), bv>>)
    [] pos = "box"          -> BlobL("Box", <<FI("v", bv)>>)
    [] pos = "opt"          -> Var1("Opt", "Some", bv)
\* the expression that reads the B value out of the member m (positions of OrdOutPos except "opt")
Extract(pos, m) ==
  CASE pos = "plain"        -> m
    [] pos = "fn-ret"       -> Call(m, <<>>)
    [] pos = "fn-ret-arg"   -> Call(m, <<I(1)>>)
    [] pos = "fn-ret-fn"    -> Call(Call(m, <<>>), <<>>)
    [] pos = "fn-ret-tuple" -> Idx(Call(m, <<>>), 1)
    [] pos = "fn-ret-box"   -> Fld(Call(m, <<>>), "v")
    [] pos = "tuple-first"  -> Idx(m, 0)
    [] pos = "tuple-second" -> Idx(m, 1)
    [] pos = "box"          -> Fld(m, "v")

\* the uses of the reached value r
OrdUse(op, r) ==
  LET exact == <<CArm("Fast", <<>>), CArmB("Slow", 88, <<>>)>>
      c1(c) == SU(<<Ex(c)>>, <<c>>)
  IN CASE op = "read-known"    -> SU(<<DefC(85, TNone, Fld(r, "n"))>>, <<Fld(r, "n")>>)
       [] op = "read-unknown"  -> SU(<<DefC(85, TNone, Fld(r, "zz"))>>, <<Fld(r, "zz")>>)
       [] op = "read-known-then-unknown" ->
            SU(<<DefC(85, TNone, Fld(r, "n")), DefC(87, TNone, Fld(r, "zz"))>>, <<Fld(r, "n"), Fld(r, "zz")>>)
       [] op = "write-known"   -> SU(<<DefM(86, TNone, r), Asg("=", Fld(V(86), "n"), I(2))>>, <<Fld(V(86), "n")>>)
       [] op = "write-unknown" -> SU(<<DefM(86, TNone, r), Asg("=", Fld(V(86), "zz"), I(2))>>, <<Fld(V(86), "zz")>>)
       [] op = "case-exact"    -> c1(CaseT(r, exact))
       [] op = "case-unknown"  -> c1(CaseT(r, exact \o <<CArm("Zz", <<>>)>>))
       [] op = "case-unknown-else" -> c1(CaseE(r, <<CArm("Zz", <<>>)>>, <<>>))
       [] op = "case-missing"  -> c1(CaseT(r, <<CArm("Fast", <<>>)>>))
       [] op = "case-missing-else" -> c1(CaseE(r, <<CArm("Fast", <<>>)>>, <<>>))

\* the statements that reach the B value through the member expression m and use it; V(82) is the un-annotated parameter
OrdReach(pos, m, op) ==
  CASE pos = "opt" ->
         LET u == OrdUse(op, V(81)) IN SU(<<Ex(CaseE(m, <<CArmB("Some", 81, u.stmts)>>, <<>>))>>, u.uses)
    [] pos \in OrdInPos ->
         LET u == OrdUse(op, V(82))
             pre == CASE pos = "fn-param"    -> <<DefC(83, TNone, Call(m, <<V(82)>>))>>
                      [] pos = "fn-param2"   -> <<Ex(Call(m, <<I(1), V(82)>>))>>
                      [] pos = "list"        -> <<DefM(84, TNone, m), Asg("=", V(84), Lst(<<V(82)>>))>>
                      [] pos = "fn-ret-list" -> <<DefM(84, TNone, Call(m, <<>>)), Asg("=", V(84), Lst(<<V(82)>>))>>
         IN SU(pre \o u.stmts, u.uses)
    [] OTHER -> OrdUse(op, Extract(pos, m))

OrdADecl(carrier, pos, target) ==
  IF carrier = "blob" THEN BlobD("A", <<FD("m", MemberTy(pos, OTB(target)))>>)
  ELSE EnumD("A", <<VD1("Make", MemberTy(pos, OTB(target))), VD0("Off")>>)
\* the body around the A value av
OrdBody(carrier, pos, av, op) ==
  IF carrier = "blob" THEN OrdReach(pos, Fld(av, "m"), op)
  ELSE LET u == OrdReach(pos, V(91), op) IN SU(<<Ex(CaseE(av, <<CArmB("Make", 91, u.stmts)>>, <<>>))>>, u.uses)
OrdAVal(carrier, pos, target, lit) ==
  LET mv == MemberVal(pos, OTB(target), OBVal(target))
  IN IF carrier = "blob" THEN BlobL("A", <<FI("m", mv)>>)
     ELSE IF lit THEN Var1("A", "Make", mv) ELSE Var0("A", "Off")

RECURSIVE OrdDecls(_, _, _, _, _)
OrdDecls(order, i, a, b, x) ==
  IF i > Len(order) THEN <<>>
  ELSE LET c == SubSeq(order, i, i) IN <<IF c = "A" THEN a ELSE IF c = "B" THEN b ELSE x>> \o OrdDecls(order, i + 1, a, b, x)

OrdBuilt(key) ==
  LET carrier == key[2]  pos == key[3]  target == key[4]  order == key[5]  prov == key[6]  op == key[7]
      decls == OrdDecls(order, 1, OrdADecl(carrier, pos, target), OBDecl(target), OXDecl(pos))
      inpos == pos \in OrdInPos
      body == OrdBody(carrier, pos, V(90), op)
      lit == prov \in {"param-called-lit", "local-lit"}
      aval == OrdAVal(carrier, pos, target, lit)
      params == <<P(90, TName("A"))>> \o (IF inpos THEN <<P(82, TNone)>> ELSE <<>>)
      helper == DefN(1001, "const", TNone, Fn(params, TVoid, body.stmts), "helper")
      callargs == <<aval>> \o (IF inpos THEN <<OBVal(target)>> ELSE <<>>)
      tops == CASE prov = "param-uncalled" -> <<helper, DefN(1000, "const", TNone, Fn(<<>>, TVoid, <<>>), "start")>>
                [] prov \in {"param-called-lit", "param-called-off"} ->
                     <<helper, DefN(1000, "const", TNone, Fn(<<>>, TVoid, <<Ex(Call(V(1001), callargs))>>), "start")>>
                [] OTHER -> <<DefN(1000, "const", TNone, Fn(<<>>, TVoid, <<DefC(90, TNone, aval)>> \o body.stmts), "start")>>
  IN [prog |-> decls \o tops, uses |-> body.uses, decl |-> OBDecl(target)]

OrdId(key) == [kind |-> "ord-" \o key[7], shape |-> key[2] \o "-member-" \o key[3], sub |-> key[4] \o "/" \o key[5],
               ctx |-> key[6]]

(* ================================================================ family D: positions of a loop *)
LposPur == {"fn", "pu"}
LposEncl == {"none", "loop-body", "loop-body-if", "loop-cond", "closure-in-loop", "if", "after-loop"}
LposCondSites == {"cond-if", "cond-else", "cond-elif", "cond-case-arm", "cond-case-else", "cond-if-if", "cond-operand",
                  "cond-call-arg", "cond-bare", "cond-inner-cond"}
LposSites == LposCondSites \cup {"cond-closure", "cond-inner-body", "body", "body-if", "body-closure", "body-inner-cond", "after"}
LposWords == {"break", "continue", "ret"}
\* key = <<"lpos", purity, encl, site, word>>
LposKeys == {"lpos"} \X LposPur \X LposEncl \X LposSites \X LposWords

LW(w, val) == IF w = "break" THEN Break ELSE IF w = "continue" THEN Cont ELSE IF val THEN Ret(Bo(TRUE)) ELSE Ret0
Yes == <<Ex(Bo(TRUE))>>
\* `if 1 < 2 do <b> false else true end`
CondIf(b) == If2(Cond, b \o <<Ex(Bo(FALSE))>>, Yes)
\* the statements of loop L with the word at the site
LposLoop(site, pur, w) ==
  LET wd == LW(w, FALSE)
      blk == <<wd>>
      idb == V(953)
  IN CASE site = "cond-if"        -> <<LoopF("do", Par(CondIf(blk)), <<Break>>)>>
       [] site = "cond-else"      -> <<LoopF("do", Par(If2(Cond, Yes, blk \o <<Ex(Bo(FALSE))>>)), <<Break>>)>>
       [] site = "cond-elif"      -> <<LoopF("do", Par(If(<<ArmC(Cond, Yes), ArmC(Cond, blk \o <<Ex(Bo(FALSE))>>), ArmE(Yes)>>)), <<Break>>)>>
       [] site = "cond-case-arm"  -> <<LoopF("do", Par(CaseE(V(954), <<CArmB("P", 32, blk \o <<Ex(Bo(FALSE))>>)>>, Yes)), <<Break>>)>>
       [] site = "cond-case-else" -> <<LoopF("do", Par(CaseE(V(954), <<CArm("Q", Yes)>>, blk \o <<Ex(Bo(FALSE))>>)), <<Break>>)>>
       [] site = "cond-if-if"     -> <<LoopF("do", Par(CondIf(<<Ex(If1(Cond, blk))>>)), <<Break>>)>>
       [] site = "cond-operand"   -> <<LoopF("do", Bin("and", CondIf(blk), Bo(TRUE)), <<Break>>)>>
       [] site = "cond-call-arg"  -> <<LoopF("do", Call(idb, <<CondIf(blk)>>), <<Break>>)>>
       [] site = "cond-bare"      -> <<LoopF("bare", Par(CondIf(blk)), <<Break>>)>>
       [] site = "cond-inner-cond" -> <<LoopF("do", Par(CondIf(<<LoopF("do", Par(CondIf(blk)), <<Break>>)>>)), <<Break>>)>>
       [] site = "cond-inner-body" -> <<LoopF("do", Par(CondIf(<<LoopF("do", Cond, <<wd, Break>>)>>)), <<Break>>)>>
       [] site = "cond-closure"   -> <<LoopF("do", Call(MkFn(IsPu(pur), <<>>, TBool, <<LW(w, TRUE), Ex(Bo(TRUE))>>), <<>>), <<Break>>)>>
       [] site = "body"           -> <<LoopF("do", Cond, <<wd, Break>>)>>
       [] site = "body-if"        -> <<LoopF("do", Cond, <<Ex(If1(Cond, blk)), Break>>)>>
       [] site = "body-closure"   -> <<LoopF("do", Cond, <<Ex(Call(MkFn(IsPu(pur), <<>>, TVoid, blk), <<>>)), Break>>)>>
       [] site = "body-inner-cond" -> <<LoopF("do", Cond, <<LoopF("do", Par(CondIf(blk)), <<Break>>), Break>>)>>
       [] site = "after"          -> <<LoopF("do", Cond, <<Break>>), wd>>
\* what encloses L in its function
LposEnclose(encl, pur, ls) ==
  CASE encl = "none"            -> ls
    [] encl = "loop-body"       -> <<LoopF("do", Cond, ls \o <<Break>>)>>
    [] encl = "loop-body-if"    -> <<LoopF("do", Cond, <<Ex(If1(Cond, ls)), Break>>)>>
    [] encl = "loop-cond"       -> <<LoopF("do", Par(CondIf(ls)), <<Break>>)>>
    [] encl = "closure-in-loop" -> <<LoopF("do", Cond, <<Ex(Call(MkFn(IsPu(pur), <<>>, TVoid, ls), <<>>)), Break>>)>>
    [] encl = "if"              -> <<Ex(If1(Cond, ls))>>
    [] encl = "after-loop"      -> <<LoopF("do", Cond, <<Break>>)>> \o ls
LposProgram(key) ==
  LET pur == key[2]  encl == key[3]  site == key[4]  w == key[5]
      decls == <<EnumD("CE", <<VD1("P", TInt), VD0("Q")>>),
                 DefN(953, "const", TNone, MkFn(TRUE, <<P(955, TBool)>>, TBool, <<Ex(V(955))>>), "idb")>>
      body == <<DefC(954, TNone, CEVal)>> \o LposEnclose(encl, pur, LposLoop(site, pur, w))
      helper == DefN(1001, "const", TNone, MkFn(IsPu(pur), <<>>, TVoid, body), "helper")
      start == DefN(1000, "const", TNone, Fn(<<>>, TVoid, <<Ex(Call(V(1001), <<>>))>>), "start")
  IN decls \o <<helper, start>>
LposId(key) == [kind |-> "lpos-" \o key[5] \o "-at-" \o key[4], shape |-> "in-" \o key[2] \o "-function", sub |-> "",
                ctx |-> key[3]]
\* the second reading of the universe (asserted while emitting): the word is legal iff it is `ret`, or no function
\* boundary lies between it and a loop whose BODY it is in - L's own body, the body of a loop inside L's condition, or
\* the body of a loop around L
LposIntended(key) ==
  LET encl == key[3]  site == key[4]  w == key[5]
      closure == site \in {"cond-closure", "body-closure"}
      inbody == site \in {"body", "body-if", "body-inner-cond", "cond-inner-body"}
      outer == encl \in {"loop-body", "loop-body-if"}
  IN w = "ret" \/ (~closure /\ (inbody \/ outer))

(* ================================================================ family E: sequences of uses of one value *)
SeqNodes == {"enum", "genenum", "blob", "genblob", "tuple"}
SeqLinks == {"same", "alias", "typed-first", "typed-last", "typed-each", "typed-all-uncalled", "untyped-all", "untyped-first",
             "field", "ret", "tuple-elem", "global"}
EnumCodes == {"full", "perm", "m1", "m3", "one", "unk", "m-else", "unk-else", "rep"}
BlobCodes == {"rp", "rq", "rz", "wp", "wz"}
TupleCodes == {"i0", "i1", "i2", "i3"}
SeqCodes(node) == IF node \in {"enum", "genenum"} THEN EnumCodes ELSE IF node = "tuple" THEN TupleCodes ELSE BlobCodes
\* codes of the sequences of three uses (all codes when MaxVariants >= 4, i.e. in the thorough tier)
SeqCore(node) == IF MaxVariants >= 4 THEN SeqCodes(node)
                 ELSE IF node \in {"enum", "genenum"} THEN {"full", "m3", "m-else", "unk"}
                 ELSE IF node = "tuple" THEN {"i0", "i1", "i2"} ELSE {"rp", "rq", "rz", "wz"}
SeqBadCodes == {"m1", "m3", "one", "unk", "unk-else", "rz", "wz", "i2", "i3"}
\* links on which sequences of three uses are tried (quick tier: four of them)
SeqLinks3 == IF Quick THEN {"same", "typed-first", "typed-last", "untyped-all"} ELSE SeqLinks
SeqOpSeqs(node, link) ==
  {<<a, b>> : a \in SeqCodes(node), b \in SeqCodes(node)}
  \cup (IF link \in SeqLinks3 THEN {<<a, b, c>> : a \in SeqCore(node), b \in SeqCore(node), c \in SeqCore(node)} ELSE {})
\* key = <<"seq", node, link, <<codes>>>>
SeqKeys == UNION {{<<"seq", node, link, ops>> : ops \in SeqOpSeqs(node, link)} : <<node, link>> \in SeqNodes \X SeqLinks}
IsSeqKeyT(key) == /\ key[2] \in SeqNodes /\ key[3] \in SeqLinks /\ key[4] \in SeqOpSeqs(key[2], key[3])

SeqDecl(node) ==
  CASE node = "enum"    -> EnumD("E", <<VD1("Va", TInt), VD0("Vb"), VD1("Vc", TBool)>>)
    [] node = "genenum" -> EnumG("E", <<"T">>, <<VD1("Va", TGen("T")), VD0("Vb"), VD1("Vc", TTuple(<<TGen("T"), TGen("T")>>))>>)
    [] node = "blob"    -> BlobD("S", <<FD("p", TInt), FD("q", TInt)>>)
    [] node = "genblob" -> BlobG("S", <<"T">>, <<FD("p", TGen("T")), FD("q", TInt)>>)
    [] node = "tuple"   -> TTuple(<<TInt, TBool>>)
SeqTy(node) ==
  CASE node = "enum" -> TName("E") [] node = "genenum" -> TApp("E", <<TInt>>) [] node = "blob" -> TName("S")
    [] node = "genblob" -> TApp("S", <<TInt>>) [] node = "tuple" -> TTuple(<<TInt, TBool>>)
SeqVal(node) ==
  CASE node \in {"enum", "genenum"} -> Var1("E", "Va", I(1))
    [] node \in {"blob", "genblob"} -> BlobL("S", <<FI("p", I(1)), FI("q", I(2))>>)
    [] node = "tuple" -> Tup(<<I(1), Bo(TRUE)>>)

\* the j-th use, of the value r
SeqUse(code, r, j) ==
  LET arm(v) == IF v \in {"Va", "Vc"} /\ code = "full" THEN CArmB(v, 100 + 10 * j + (IF v = "Va" THEN 1 ELSE 2), <<>>) ELSE CArm(v, <<>>)
      arms(vs) == [i \in 1..Len(vs) |-> arm(vs[i])]
      ct(vs) == LET c == CaseT(r, arms(vs)) IN SU(<<Ex(c)>>, <<c>>)
      ce(vs) == LET c == CaseE(r, arms(vs), <<>>) IN SU(<<Ex(c)>>, <<c>>)
      rd(f) == SU(<<DefC(100 + 10 * j + 3, TNone, Fld(r, f))>>, <<Fld(r, f)>>)
      wr(f) == IF IsPath(r) THEN SU(<<Asg("=", Fld(r, f), I(3))>>, <<Fld(r, f)>>)
               ELSE SU(<<DefM(100 + 10 * j + 4, TNone, r), Asg("=", Fld(V(100 + 10 * j + 4), f), I(3))>>, <<Fld(V(100 + 10 * j + 4), f)>>)
      ix(i) == SU(<<DefC(100 + 10 * j + 5, TNone, Idx(r, i))>>, <<Idx(r, i)>>)
  IN CASE code = "full" -> ct(<<"Va", "Vb", "Vc">>)
       [] code = "perm" -> ct(<<"Vc", "Va", "Vb">>)
       [] code = "m1"   -> ct(<<"Vb", "Vc">>)
       [] code = "m3"   -> ct(<<"Va", "Vb">>)
       [] code = "one"  -> ct(<<"Vb">>)
       [] code = "unk"  -> ct(<<"Va", "Vb", "Vc", "Zz">>)
       [] code = "rep"  -> ct(<<"Va", "Vb", "Vc", "Va">>)
       [] code = "m-else"   -> ce(<<"Va">>)
       [] code = "unk-else" -> ce(<<"Zz">>)
       [] code = "rp" -> rd("p") [] code = "rq" -> rd("q") [] code = "rz" -> rd("zz")
       [] code = "wp" -> wr("p") [] code = "wz" -> wr("zz")
       [] code = "i0" -> ix(0) [] code = "i1" -> ix(1) [] code = "i2" -> ix(2) [] code = "i3" -> ix(3)

RECURSIVE SeqCat(_, _)
SeqCat(sus, i) == IF i > Len(sus) THEN <<>> ELSE sus[i].stmts \o SeqCat(sus, i + 1)
RECURSIVE SeqUsesCat(_, _)
SeqUsesCat(sus, i) == IF i > Len(sus) THEN <<>> ELSE sus[i].uses \o SeqUsesCat(sus, i + 1)

SeqBuilt(key) ==
  LET node == key[2]  link == key[3]  ops == key[4]  n == Len(ops)
      ty == SeqTy(node)
      val == SeqVal(node)
      decls == IF node = "tuple" THEN <<>> ELSE <<SeqDecl(node)>>
      \* where the j-th use is done: on which expression
      target(j) == CASE link \in {"same", "typed-first", "typed-last", "untyped-first"} -> V(50)
                     [] link = "alias"      -> V(50 + j)
                     [] link = "field"      -> Fld(V(51), "e")
                     [] link = "ret"        -> Call(V(960), <<V(50)>>)
                     [] link = "tuple-elem" -> Idx(V(52), 0)
                     [] link = "global"     -> V(53)
                     [] OTHER               -> V(70)            \* the parameter
      inparam(j) == CASE link \in {"typed-each", "typed-all-uncalled", "untyped-all"} -> TRUE
                      [] link \in {"typed-first", "untyped-first"} -> j = 1
                      [] link = "typed-last" -> j = n
                      [] OTHER -> FALSE
      su == [j \in 1..n |-> SeqUse(ops[j], IF inparam(j) THEN V(70) ELSE target(j), j)]
      pty == IF link \in {"untyped-all", "untyped-first"} THEN TNone ELSE ty
      fnof(b, stmts, nm) == DefN(b, "const", TNone, Fn(<<P(70, pty)>>, TVoid, stmts), nm)
      own(j) == (IF link = "alias" THEN <<DefM(50 + j, TNone, V(50 + j - 1))>> ELSE <<>>) \o su[j].stmts
      RECURSIVE owns(_, _)
      owns(a, b) == IF a > b THEN <<>> ELSE own(a) \o owns(a + 1, b)
      lval == <<DefM(50, TNone, val)>>
      tops ==
        CASE link \in {"same", "alias"} -> [f |-> <<>>, s |-> lval \o owns(1, n)]
          [] link \in {"typed-first", "untyped-first"} ->
               [f |-> <<fnof(961, su[1].stmts, "f1")>>, s |-> lval \o <<Ex(Call(V(961), <<V(50)>>))>> \o owns(2, n)]
          [] link = "typed-last" ->
               [f |-> <<fnof(961, su[n].stmts, "f1")>>, s |-> lval \o owns(1, n - 1) \o <<Ex(Call(V(961), <<V(50)>>))>>]
          [] link = "typed-each" ->
               [f |-> [j \in 1..n |-> fnof(960 + j, su[j].stmts, "f" \o Digit(j))],
                s |-> lval \o [j \in 1..n |-> Ex(Call(V(960 + j), <<V(50)>>))]]
          [] link = "typed-all-uncalled" -> [f |-> <<fnof(961, SeqCat(su, 1), "f1")>>, s |-> <<>>]
          [] link = "untyped-all" -> [f |-> <<fnof(961, SeqCat(su, 1), "f1")>>, s |-> <<Ex(Call(V(961), <<val>>))>>]
          [] link = "field" ->
               [f |-> <<BlobD("W", <<FD("e", ty)>>)>>, s |-> <<DefM(51, TNone, BlobL("W", <<FI("e", val)>>))>> \o owns(1, n)]
          [] link = "ret" ->
               [f |-> <<DefN(960, "const", TNone, Fn(<<P(70, ty)>>, ty, <<Ex(V(70))>>), "ident")>>, s |-> lval \o owns(1, n)]
          [] link = "tuple-elem" -> [f |-> <<>>, s |-> <<DefM(52, TNone, Tup(<<val, I(1)>>))>> \o owns(1, n)]
          [] link = "global" -> [f |-> <<DefN(53, "mut", TNone, val, "")>>, s |-> owns(1, n)]
  IN [prog |-> decls \o tops.f \o <<DefN(1000, "const", TNone, Fn(<<>>, TVoid, tops.s), "start")>>,
      uses |-> SeqUsesCat(su, 1), decl |-> SeqDecl(node)]

RECURSIVE CodesText(_, _)
CodesText(ops, j) == IF j > Len(ops) THEN "" ELSE (IF j > 1 THEN "," ELSE "") \o ops[j] \o CodesText(ops, j + 1)
\* which of the uses is the (first) illegal one: the class that goes into ids and signatures
SeqClass(ops) ==
  LET bad == {j \in 1..Len(ops) : ops[j] \in SeqBadCodes}
  IN IF bad = {} THEN "all-legal"
     ELSE IF 1 \in bad THEN "first-illegal"
     ELSE "later-illegal"
SeqId(key) == [kind |-> "seq-" \o key[2] \o "-" \o SeqClass(key[4]), shape |-> key[3], sub |-> CodesText(key[4], 1),
               ctx |-> "len" \o Digit(Len(key[4]))]

(* ================================================================ cases *)
IsOrdKey(key) == key[1] = "ord" /\ Len(key) = 7 /\ OrdKeyOk(key[2], key[3], key[4], key[5], key[6], key[7])
IsLposKey(key) == key[1] = "lpos" /\ Len(key) = 5 /\ key[2] \in LposPur /\ key[3] \in LposEncl /\ key[4] \in LposSites /\ key[5] \in LposWords
IsSeqKey(key) == key[1] = "seq" /\ Len(key) = 4 /\ IsSeqKeyT(key)
IsFam2Key(key) == key[1] \in {"ord", "lpos", "seq"}

Fam2Case(key) ==
  CASE key[1] = "ord" ->
         LET b == OrdBuilt(key)
         IN [key |-> key, id |-> OrdId(key), clause |-> IF IsEnumTarget(key[4]) THEN "case-totality" ELSE "field-access",
             expect |-> Verdict(UsesOk(b.uses, b.decl)), prog |-> [main |-> b.prog]]
    [] key[1] = "lpos" ->
         LET p == LposProgram(key)
         IN [key |-> key, id |-> LposId(key), clause |-> "loop-control", expect |-> Verdict(LoopControlOk(p)), prog |-> [main |-> p]]
    [] key[1] = "seq" ->
         LET b == SeqBuilt(key)
         IN [key |-> key, id |-> SeqId(key),
             clause |-> IF key[2] \in {"enum", "genenum"} THEN "case-totality" ELSE IF key[2] = "tuple" THEN "tuple-index" ELSE "field-access",
             expect |-> Verdict(UsesOk(b.uses, b.decl)), prog |-> [main |-> b.prog]]
=============================================================================
