SPECIFICATION Spec
CONSTANTS
  MaxErrs = 3
  Faulty <- MCTrue
INVARIANTS TypeOK AllOrNothing
CHECK_DEADLOCK FALSE
