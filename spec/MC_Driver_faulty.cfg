SPECIFICATION Spec
CONSTANTS
  MaxErrs = 3
  Faulty <- MCTrue
  StrictSink <- MCFalse
INVARIANTS TypeOK AllOrNothing
CHECK_DEADLOCK FALSE
