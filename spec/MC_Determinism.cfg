SPECIFICATION Spec
CONSTANTS
  Inputs <- MCInputs
  Procs <- MCProcs
  Results <- MCResults
  Mode <- MCFunction
  MaxRuns = 3
INVARIANTS Determinism HistDeterminism SeenIsImageOfHist TwoFormsAgree
CHECK_DEADLOCK FALSE
