------------------------- MODULE MC_TraceDetContext -------------------------
EXTENDS Trace_DetContext
MCProcs == {"in"}
MCFunction == "function"
=============================================================================
