SPECIFICATION Spec
CONSTANTS
  Tree <- MCTree
INVARIANTS ConfigInv
CHECK_DEADLOCK FALSE
