------------------------------ MODULE SyltOrder ------------------------------
(***************************************************************************)
(* Two universes that complement SyltGen's pairwise nesting (C01, C10):    *)
(*                                                                         *)
(* ORDER  - evaluation order under interleaved effects.  An OBSERVER of a  *)
(*   watched piece of state (a mutable global, a captured local, a blob    *)
(*   field, a re-bindable function variable) is combined with a MUTATOR of *)
(*   the same state by every operand-carrying construct, in both textual   *)
(*   orders.  Sylt evaluates strictly left to right (callee, then the      *)
(*   arguments in order; left operand before right), so the observer sees  *)
(*   the state as it is at ITS textual position - whatever temporaries,    *)
(*   copies or inlining the compiler uses.  (The pairwise universe only    *)
(*   has `g + bumpg()` and `o.n + o.add(5)`: a read that is the direct     *)
(*   left operand of `+`.)                                                 *)
(*                                                                         *)
(* RE-ENTRANCY - a value live across a re-entrant call where the value     *)
(*   DIFFERS from activation to activation.  Every template of SyltGen (of *)
(*   every result type), alone and pairwise nested, is evaluated as the    *)
(*   first component of `(E, rec(n - 1))` inside rec itself, with every    *)
(*   hole filled by an expression that depends on the recursion level n,   *)
(*   so that a temporary shared between activations yields a wrong value   *)
(*   and not merely the same value twice.                                  *)
(***************************************************************************)
EXTENDS SyltGen

(* ---- ORDER ------------------------------------------------------------ *)
OBx == 31      \* bx :: fn -> int do x += 10 ; x end            (mutates the captured local x)
OO == 32       \* o :: mkb(1)
OF == 33       \* f := fn a: int -> int do a + 1 end           (re-bindable function variable)
OUp == 34      \* up :: fn -> int do f = fn a: int -> int do a * 100 end ; 2 end
OP == 35
GShow2 == 1014 \* show2 :: fn p: int, q: int -> int do print(p) ; print(q) ; p - q end

Watched == {"glob", "cap", "fld"}
Reader(w) == CASE w = "glob" -> V(GG) [] w = "cap" -> X [] w = "fld" -> Fld(V(OO), "n")
Mutator(w) == CASE w = "glob" -> Call(V(GBumpG), <<>>)
                [] w = "cap" -> Call(V(OBx), <<>>)
                [] w = "fld" -> Call(Fld(V(OO), "add"), <<I(5)>>)

ObsForms == {"id", "neg", "addl", "addr", "mul", "sub", "lt", "eq", "not", "tup", "lst", "var", "idx", "call",
             "and", "or", "ifx", "negneg", "addmul"}
ObsType(f) == CASE f \in {"lt", "eq", "not", "and", "or"} -> "bool"
                [] f = "tup" -> "tup" [] f = "lst" -> "list" [] f = "var" -> "E" [] OTHER -> "int"
Obs(f, r) ==
  CASE f = "id"   -> r
    [] f = "neg"  -> Un("-", r)
    [] f = "negneg" -> Un("-", Un("-", r))
    [] f = "addl" -> Bin("+", r, I(7))
    [] f = "addr" -> Bin("+", I(7), r)
    [] f = "mul"  -> Bin("*", r, I(2))
    [] f = "addmul" -> Bin("+", I(1), Bin("*", I(2), r))
    [] f = "sub"  -> Bin("-", I(20), r)
    [] f = "lt"   -> Bin("<", r, I(5))
    [] f = "eq"   -> Bin("==", r, I(3))
    [] f = "not"  -> Un("not", Bin("==", r, I(3)))
    [] f = "tup"  -> Tup(<<r, I(1)>>)
    [] f = "lst"  -> Lst(<<r>>)
    [] f = "var"  -> Var1("E", "X", r)
    [] f = "idx"  -> Idx(Tup(<<I(0), r>>), 1)
    [] f = "call" -> Call(V(GInc), <<r>>)
    [] f = "and"  -> Bin("and", Bin("<", r, I(5)), Bo(TRUE))
    [] f = "or"   -> Bin("or", Bin(">", r, I(5)), Bo(FALSE))
    [] f = "ifx"  -> If2(Bin("<", r, I(5)), <<Ex(r)>>, <<Ex(I(0))>>)

CombNames == {"tuple", "tuple3", "add", "sub", "mul", "lt", "eq", "list", "args", "blob", "andgt", "nest", "callsum",
              "variant", "index"}
CombFits(k, ty) == k \in {"tuple", "tuple3"} \/ (ty = "int" /\ k \notin {"andgt"}) \/ (ty = "bool" /\ k = "andgt")
\* first, second: the operands in textual order
Comb(k, a, b) ==
  CASE k = "tuple"  -> Tup(<<a, b>>)
    [] k = "add"    -> Bin("+", a, b)
    [] k = "sub"    -> Bin("-", a, b)
    [] k = "mul"    -> Bin("*", a, b)
    [] k = "lt"     -> Bin("<", a, b)
    [] k = "eq"     -> Bin("==", a, b)
    [] k = "list"   -> Lst(<<a, b>>)
    [] k = "args"   -> Call(V(GShow2), <<a, b>>)
    \* the fields are written in NON-alphabetical order (zz before aa): initialisers run in source order
    [] k = "blob"   -> IIFE(TInt, <<DefC(OP, TName("P2"), BlobL("P2", <<FI("zz", a), FI("aa", b)>>)),
                                    Ex(Bin("-", Bin("*", Fld(V(OP), "zz"), I(100)), Fld(V(OP), "aa")))>>)
    [] k = "nest"   -> Bin("+", a, Bin("*", b, I(2)))
    [] k = "callsum" -> Call(V(GInc), <<Bin("+", a, b)>>)
    [] k = "variant" -> Var1("E", "X", Bin("-", a, b))
    [] k = "index"  -> Idx(Tup(<<a, b>>), 0)
\* the mutator is an int; where the combiner needs a bool second operand it is compared
MutAs(k, m) == IF k = "andgt" THEN Bin(">", m, I(0)) ELSE m
\* r: the expression that reads the watched state, m: the call that changes it
OrderExprRM(r, m, f, k, dir) ==
  LET a == Obs(f, r) IN
  CASE k = "tuple3" -> (IF dir = "om" THEN Tup(<<a, m, a>>) ELSE Tup(<<m, a, m>>))
    [] k = "andgt"  -> (IF dir = "om" THEN Bin("and", a, MutAs(k, m)) ELSE Bin("and", MutAs(k, m), a))
    [] OTHER -> (IF dir = "om" THEN Comb(k, a, m) ELSE Comb(k, m, a))
OrderExpr(w, f, k, dir) == OrderExprRM(Reader(w), Mutator(w), f, k, dir)

\* the re-bindable function variable and the method: callee evaluated before the arguments
FnVarExprs == [
  calleearg   |-> Call(V(OF), <<Call(V(OUp), <<>>)>>),
  calleethen  |-> Tup(<<Call(V(OF), <<I(1)>>), Call(V(OUp), <<>>), Call(V(OF), <<I(1)>>)>>),
  calleesum   |-> Bin("+", Call(V(OF), <<Call(V(OUp), <<>>)>>), Call(V(OF), <<I(1)>>)),
  fnvalarg    |-> Call(V(GTwice), <<V(OF), Call(V(OUp), <<>>)>>),
  fnvalthen   |-> Tup(<<Call(V(GTwice), <<V(OF), I(1)>>), Call(V(OUp), <<>>), Call(V(GTwice), <<V(OF), I(1)>>)>>),
  methodarg   |-> Call(Fld(V(OO), "add"), <<Call(Fld(V(OO), "add"), <<I(1)>>)>>),
  methodthen  |-> Tup(<<Call(Fld(V(OO), "get"), <<>>), Call(Fld(V(OO), "add"), <<I(2)>>), Call(Fld(V(OO), "get"), <<>>)>>),
  applyarg    |-> Call(V(GMkP), <<V(OF), Call(V(OUp), <<>>), I(1)>>) ]

\* compound assignment whose right-hand side changes the target (`t op= m`: t is read first), on every kind of target and
\* with every operator; and containers that hold the SAME object twice, printed before and after a change through one alias
OV == 36
OL == 37
CompoundStmts(w, op) ==
  LET tgt == Reader(w) IN
  <<Asg(op, tgt, Mutator(w)), Print(tgt), Asg(op, tgt, Bin("+", Mutator(w), I(1))), Print(tgt)>>
StmtCases ==
  {[o |-> "ord-" \o w, pos |-> 0, i |-> "compound" \o op, h |-> "orderstmt", body |-> CompoundStmts(w, op)]
     : w \in Watched, op \in {"+=", "-=", "*="}}
  \* a loop condition reads state that only a call in the body changes (the condition is re-evaluated every time round)
  \cup {[o |-> "ord-" \o w, pos |-> 0, i |-> "loopcond", h |-> "orderstmt",
         body |-> <<DefM(OV, TInt, I(0)),
                    Loop(Bin("<", Reader(w), I(24)),
                         <<Ex(Mutator(w)), Asg("+=", V(OV), I(1)), Ex(If1(Bin(">=", V(OV), I(6)), <<Break>>))>>),
                    Print(V(OV)),
                    Loop(Bin("and", Bin("<", V(OV), I(9)), Bin("<", Reader(w), I(40))),
                         <<Ex(Mutator(w)), Asg("+=", V(OV), I(1))>>),
                    Print(V(OV))>>] : w \in Watched}
  \cup {[o |-> "ord-share", pos |-> 0, i |-> "list-twice", h |-> "orderstmt",
         body |-> <<DefC(OL, TListI, Lst(<<I(1), I(2)>>)),
                    Print(Lst(<<V(OL), V(OL)>>)), Print(Tup(<<V(OL), V(OL)>>)),
                    Ex(Call(Std("list.push"), <<V(OL), I(3)>>)),
                    Print(Lst(<<V(OL), Lst(<<I(1), I(2), I(3)>>), V(OL)>>)),
                    Print(Bin("==", Lst(<<V(OL), V(OL)>>), Lst(<<Lst(<<I(1), I(2), I(3)>>), V(OL)>>)))>>],
        [o |-> "ord-share", pos |-> 0, i |-> "blob-twice", h |-> "orderstmt",
         body |-> <<Print(Tup(<<Fld(V(OO), "n"), Fld(V(OO), "n")>>)),
                    Print(Lst(<<Call(Fld(V(OO), "get"), <<>>), Call(Fld(V(OO), "add"), <<I(2)>>), Call(Fld(V(OO), "get"), <<>>)>>)),
                    Print(Tup(<<Lst(<<Fld(V(OO), "n")>>), Lst(<<Fld(V(OO), "n")>>)>>))>>]}

OrderIds ==
  {[w |-> w, f |-> f, k |-> k, dir |-> d] : w \in Watched, f \in ObsForms, k \in CombNames, d \in {"om", "mo"}}
OrderCases ==
  {[o |-> "ord-" \o c.w, pos |-> 0, i |-> c.f \o "-" \o c.k \o "-" \o c.dir, h |-> "order",
    e |-> OrderExpr(c.w, c.f, c.k, c.dir)] : c \in {c \in OrderIds : CombFits(c.k, ObsType(c.f))}}
  \cup {[o |-> "ord-fnvar", pos |-> 0, i |-> n, h |-> "order", e |-> FnVarExprs[n]] : n \in DOMAIN FnVarExprs}

FnT1 == TFn(<<TInt>>, TInt)
HOrder(e) ==
  Prelude \o <<
    BlobD("P2", <<FD("zz", TInt), FD("aa", TInt)>>),
    DefN(GShow2, "const", TNone,
         Fn(<<P(41, TInt), P(42, TInt)>>, TInt, <<Print(V(41)), Print(V(42)), Ex(Bin("-", V(41), V(42)))>>), "show2"),
    StartDef(Locals \o <<
      DefC(OBx, TFn(<<>>, TInt), Fn(<<>>, TInt, <<Asg("+=", X, I(10)), Ex(X)>>)),
      DefC(OO, TB, Call(V(GMkB), <<I(1)>>)),
      DefM(OF, FnT1, Fn(<<P(43, TInt)>>, TInt, <<Ex(Bin("+", V(43), I(1)))>>)),
      DefC(OUp, TFn(<<>>, TInt),
           Fn(<<>>, TInt, <<Asg("=", V(OF), Fn(<<P(44, TInt)>>, TInt, <<Ex(Bin("*", V(44), I(100)))>>)), Ex(I(2))>>)),
      Print(e), Print(X), Print(V(GG)), Print(Fld(V(OO), "n")), Print(Call(V(OF), <<I(1)>>))>>)>>

HOrderStmt(body) ==
  Prelude \o <<
    BlobD("P2", <<FD("zz", TInt), FD("aa", TInt)>>),
    StartDef(Locals \o <<
      DefC(OBx, TFn(<<>>, TInt), Fn(<<>>, TInt, <<Asg("+=", X, I(10)), Ex(X)>>)),
      DefC(OO, TB, Call(V(GMkB), <<I(1)>>))>> \o body \o
      <<Print(X), Print(V(GG)), Print(Fld(V(OO), "n"))>>)>>

(* ---- CHAINS ----------------------------------------------------------- *)
(* The watched state is reached through a CHAIN of links - field of field, *)
(* index of field, field of index, index of index, a method called on a    *)
(* field / on an indexed blob, and the one-link read of a tuple variable - *)
(* and the mutator changes the chain AT A GIVEN LINK: it re-binds the root *)
(* variable (link 0), assigns the field that holds the middle object       *)
(* (link 1), or assigns the leaf (link 2/3).  A chain is read where it     *)
(* stands, link by link: none of its reads may move past a later sibling.  *)
(* Roots: locals of start captured by the mutator, or globals.             *)
(*   Q :: blob { inner: B, pos: (int, int), tb: (B, int) }                 *)
(*   q :: Q {..}   tv := (mkb(1), 2)   tt := ((1, 2), 3)   tp := (1, 2)    *)
(*   mc := 0       mu :: fn -> int do mc += 50 ; <change> ; mc end         *)
(***************************************************************************)
OQ == 38
OTv == 39
OTt == 40
OTp == 45
OMc == 46
OMu == 47
GQ == 1015
GTv == 1016
GTt == 1017
GTp == 1018
TQ == TName("Q")
TBI == TTuple(<<TB, TInt>>)
TNest == TTuple(<<TPair, TInt>>)

\* <<name, root, links as text>>; the digit in the name is the link the mutator changes
ChainKinds == <<"ff1", "ff2", "fi1", "fif1", "fif3", "mf1", "mf2", "if0", "if2", "ii0", "iv0", "mi0", "mi2">>
ChainRoots == <<"loc", "glob">>
ChainRootVar(c, r) ==
  LET g == r = "glob" IN
  CASE c \in {"ff1", "ff2", "fi1", "fif1", "fif3", "mf1", "mf2"} -> V(IF g THEN GQ ELSE OQ)
    [] c \in {"if0", "if2", "mi0", "mi2"} -> V(IF g THEN GTv ELSE OTv)
    [] c = "ii0" -> V(IF g THEN GTt ELSE OTt)
    [] c = "iv0" -> V(IF g THEN GTp ELSE OTp)
MkB(n) == Call(V(GMkB), <<n>>)
ChainReader(c, r) ==
  LET v == ChainRootVar(c, r) IN
  CASE c \in {"ff1", "ff2"}   -> Fld(Fld(v, "inner"), "n")
    [] c = "fi1"              -> Idx(Fld(v, "pos"), 0)
    [] c \in {"fif1", "fif3"} -> Fld(Idx(Fld(v, "tb"), 0), "n")
    [] c \in {"mf1", "mf2"}   -> Call(Fld(Fld(v, "inner"), "get"), <<>>)
    [] c \in {"if0", "if2"}   -> Fld(Idx(v, 0), "n")
    [] c = "ii0"              -> Idx(Idx(v, 0), 1)
    [] c = "iv0"              -> Idx(v, 1)
    [] c \in {"mi0", "mi2"}   -> Call(Fld(Idx(v, 0), "get"), <<>>)
\* the change, from the mutator's counter mc (a new value at every call)
ChainChange(c, r) ==
  LET v == ChainRootVar(c, r)  n == V(OMc) IN
  CASE c \in {"ff1", "mf1"} -> Asg("=", Fld(v, "inner"), MkB(n))
    [] c \in {"ff2", "mf2"} -> Asg("=", Fld(Fld(v, "inner"), "n"), n)
    [] c = "fi1"            -> Asg("=", Fld(v, "pos"), Tup(<<n, Bin("+", n, I(1))>>))
    [] c = "fif1"           -> Asg("=", Fld(v, "tb"), Tup(<<MkB(n), I(0)>>))
    [] c = "fif3"           -> Asg("=", Fld(Idx(Fld(v, "tb"), 0), "n"), n)
    [] c \in {"if0", "mi0"} -> Asg("=", v, Tup(<<MkB(n), I(0)>>))
    [] c \in {"if2", "mi2"} -> Asg("=", Fld(Idx(v, 0), "n"), n)
    [] c = "ii0"            -> Asg("=", v, Tup(<<Tup(<<I(9), n>>), I(0)>>))
    [] c = "iv0"            -> Asg("=", v, Tup(<<I(9), n>>))
ChainMutator == Call(V(OMu), <<>>)

\* observation forms / combiners the chains go through (sequences: the quick tier takes a diagonal of the product)
ChainForms == <<"id", "neg", "addl", "mul", "call", "tup", "lt", "ifx", "idx">>
ChainCombs == <<"tuple", "tuple3", "add", "mul", "lt", "list", "args", "blob", "index", "andgt", "callsum">>
ChainDirs == <<"om", "mo">>
ChainIdx == {<<c, r, f, k, d>> \in (1..Len(ChainKinds)) \X (1..Len(ChainRoots)) \X (1..Len(ChainForms))
                                   \X (1..Len(ChainCombs)) \X (1..Len(ChainDirs)) :
                CombFits(ChainCombs[k], ObsType(ChainForms[f]))}
\* keys are tuples of strings; stride 1 = everything, stride n = the keys whose index sum is divisible by n
ChainKeys(stride) ==
  {<<"chain", ChainKinds[x[1]], ChainRoots[x[2]], ChainForms[x[3]], ChainCombs[x[4]], ChainDirs[x[5]]>> :
     x \in {y \in ChainIdx : (y[1] + y[2] + y[3] + y[4] + y[5]) % stride = 0}}
ChainId(key) == [o |-> "chain-" \o key[2] \o "-" \o key[3], pos |-> 0, i |-> key[4] \o "-" \o key[5] \o "-" \o key[6], h |-> "chain"]

OrderDecls == <<
    BlobD("P2", <<FD("zz", TInt), FD("aa", TInt)>>),
    DefN(GShow2, "const", TNone,
         Fn(<<P(41, TInt), P(42, TInt)>>, TInt, <<Print(V(41)), Print(V(42)), Ex(Bin("-", V(41), V(42)))>>), "show2")>>
ChainRootInit(c) ==
  CASE c \in {"ff1", "ff2", "fi1", "fif1", "fif3", "mf1", "mf2"} ->
         <<TQ, BlobL("Q", <<FI("inner", MkB(I(1))), FI("pos", Tup(<<I(1), I(2)>>)), FI("tb", Tup(<<MkB(I(1)), I(2)>>))>>)>>
    [] c \in {"if0", "if2", "mi0", "mi2"} -> <<TBI, Tup(<<MkB(I(1)), I(2)>>)>>
    [] c = "ii0" -> <<TNest, Tup(<<Tup(<<I(1), I(2)>>), I(3)>>)>>
    [] c = "iv0" -> <<TPair, Tup(<<I(1), I(2)>>)>>
ChainProg(key) ==
  LET c == key[2]  r == key[3]
      v == ChainRootVar(c, r)
      ini == ChainRootInit(c)
      \* the q-rooted chains never re-bind q: a constant; the others are re-bound by the mutator
      kind == IF ini[1] = TQ THEN "const" ELSE "mut"
      e == OrderExprRM(ChainReader(c, r), ChainMutator, key[4], key[5], key[6]) IN
  Prelude \o OrderDecls \o
  <<BlobD("Q", <<FD("inner", TB), FD("pos", TPair), FD("tb", TBI)>>)>> \o
  (IF r = "glob" THEN <<DefN(v.b, kind, ini[1], ini[2], "")>> ELSE <<>>) \o
  <<StartDef(Locals \o
      (IF r = "loc" THEN <<DefN(v.b, kind, ini[1], ini[2], "")>> ELSE <<>>) \o
      <<DefM(OMc, TInt, I(0)),
        DefC(OMu, TFn(<<>>, TInt), Fn(<<>>, TInt, <<Asg("+=", V(OMc), I(50)), ChainChange(c, r), Ex(V(OMc))>>)),
        Print(e), Print(ChainReader(c, r)), Print(V(OMc)),
        \* once more, now as a statement of its own
        DefC(OV, TInt, ChainReader(c, r)), Ex(ChainMutator), Print(V(OV)), Print(ChainReader(c, r))>>)>>

(* ---- RE-ENTRANCY ------------------------------------------------------ *)
NLevel == V(13)
NDep(p) == Call(V(GTick), <<Bin("+", Bin("*", NLevel, I(10)), I(p))>>)
DefaultsDep(ty, p) ==
  CASE ty = "int"   -> {NDep(p)}
    [] ty = "bool"  -> {Call(V(GTickB), <<Bin(">", NLevel, I(1))>>), Call(V(GTickB), <<Bin("<", NLevel, I(2))>>)}
    [] ty = "float" -> {Fl(2 * p + 1, 1)}
    [] ty = "str"   -> {If2(Bin(">", NLevel, I(1)), <<Ex(St("a"))>>, <<Ex(St("b"))>>)}
    [] ty = "tup"   -> {Tup(<<NDep(p), I(p + 1)>>)}
    [] ty = "list"  -> {Lst(<<I(p), NDep(p + 1), I(3)>>)}
    [] ty = "E"     -> {Var1("E", "X", NDep(p)),
                        If2(Bin(">", NLevel, I(1)), <<Ex(Var1("E", "X", NDep(p)))>>, <<Ex(Var0("E", "Y"))>>)}

RECURSIVE FillingsDep(_, _, _)
FillingsDep(tys, i, off) ==
  IF i > Len(tys) THEN {<<>>}
  ELSE {<<d>> \o rest : d \in DefaultsDep(tys[i], off + i), rest \in FillingsDep(tys, i + 1, off)}
InstancesDep(n, b, off) == {T(n, b, h) : h \in FillingsDep(HoleTypes(n), 1, off)}

RECURSIVE FillWithDep(_, _, _, _, _)
FillWithDep(tys, i, pos, inner, off) ==
  IF i > Len(tys) THEN {<<>>}
  ELSE {<<d>> \o rest : d \in (IF i = pos THEN inner ELSE DefaultsDep(tys[i], off + i)),
                        rest \in FillWithDep(tys, i + 1, pos, inner, off)}
NestDep(o, pos, i) == {T(o, 100, h) : h \in FillWithDep(HoleTypes(o), 1, pos, InstancesDep(i, 200, 4), 0)}

\* rec :: fn n -> int do if n <= 0 do ret 0 end ; x := n + 3 ; kk :: 5 ; t :: (E, rec(n - 1)) ; print(t) ; n end
HRecDep(e, ty) == Prelude \o <<
   DefN(GRec, "const", TNone,
        Fn(<<P(13, TInt)>>, TInt,
           <<Ex(If1(Bin("<=", NLevel, I(0)), <<Ret(I(0))>>)),
             DefM(11, TInt, Bin("+", NLevel, I(3))), DefC(12, TInt, I(5)),
             DefC(21, TTuple(<<TyOf(ty), TInt>>), Tup(<<e, Call(V(GRec), <<Bin("-", NLevel, I(1))>>)>>)),
             Print(V(21)), Ex(NLevel)>>), "rec"),
   StartDef(<<Print(Call(V(GRec), <<I(3)>>)), Print(V(GG))>>)>>

\* the same inside a LONG function: K further call results are live before the held value (an emitter that runs out of
\* Lua locals must not fall back to something shared between activations)
RECURSIVE Pads(_, _)
Pads(i, k) == IF i > k THEN <<>> ELSE <<DefC(600 + i, TInt, Call(V(GInc), <<I(i)>>))>> \o Pads(i + 1, k)
HRecDepBig(e, ty, k) == Prelude \o <<
   DefN(GRec, "const", TNone,
        Fn(<<P(13, TInt)>>, TInt,
           <<Ex(If1(Bin("<=", NLevel, I(0)), <<Ret(I(0))>>)),
             DefM(11, TInt, Bin("+", NLevel, I(3))), DefC(12, TInt, I(5))>> \o Pads(1, k) \o
           <<DefC(21, TTuple(<<TyOf(ty), TInt>>), Tup(<<e, Call(V(GRec), <<Bin("-", NLevel, I(1))>>)>>)),
             Print(V(21)), Ex(Bin("+", NLevel, V(600 + k)))>>), "rec"),
   StartDef(<<Print(Call(V(GRec), <<I(3)>>)), Print(V(GG))>>)>>
BigTemplates == {"add", "mul", "neg", "ifx", "casex", "and", "or", "not", "tlit", "llit", "ex", "cat", "callinc", "lt", "fadd"}
BigSizes == {44, 50, 54}    \* about 153, 171 and 183 Lua locals live at the held value (Lua allows 200)
ReentBig ==
  UNION { {[o |-> n, pos |-> k, i |-> "big", h |-> "recdepbig", e |-> e, ty |-> ResultType(n), k |-> k] : e \in InstancesDep(n, 100, 0)}
          : n \in BigTemplates, k \in BigSizes }

ReentSingles ==
  UNION { {[o |-> n, pos |-> 0, i |-> "-", h |-> "recdep", e |-> e, ty |-> ResultType(n)] : e \in InstancesDep(n, 100, 0)}
          : n \in TemplateNames }
ReentPairs ==
  UNION { {[o |-> p[1], pos |-> p[2], i |-> p[3], h |-> "recdep", e |-> e, ty |-> ResultType(p[1])] : e \in NestDep(p[1], p[2], p[3])}
          : p \in Pairs }
=============================================================================
