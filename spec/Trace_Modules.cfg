SPECIFICATION TraceSpec
CONSTANTS
  Tree <- MCTree
INVARIANTS TraceInv
CHECK_DEADLOCK FALSE
