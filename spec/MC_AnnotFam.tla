---------------------------- MODULE MC_AnnotFam ----------------------------
(* C08: emission of the annotation-type families (SyltAnnotFam) with their site counts (SyltAnnot).
   The recorded compile results are validated by MC_Annot (mode validate), which is universe-independent. *)
EXTENDS SyltAnnotOrd, SyltAnnot, Json, IOUtils, Randomization

VARIABLES k, pc
vars == <<k, pc>>

\* quick tier: GSAMPLE / FSAMPLE / LSAMPLE / MSAMPLE / OSAMPLE > 0 emit a random subset of that many programs of family G / F / L / M / O (TLC's -seed makes
\* it reproducible); family S is always emitted completely
Num(name) == IF name \in DOMAIN IOEnv THEN atoi(IOEnv[name]) ELSE 0
Pick(n, S) == IF n > 0 /\ n < Cardinality(S) THEN RandomSubset(n, S) ELSE S
Keys == Pick(Num("GSAMPLE"), GKeys) \cup SKeys \cup Pick(Num("FSAMPLE"), FKeys) \cup F2Keys
        \cup Pick(Num("LSAMPLE"), LKeys) \cup Pick(Num("MSAMPLE"), MKeys) \cup Pick(Num("OSAMPLE"), OKeys)

\* the sites of the fixed declarations and helper functions every program of a family starts with (k.pre top-level nodes)
NPre(c) == NumSites(SubSeq(c.tops, 1, c.pre))

\* a state is a key (a small tuple of parameters); its program is built in the action, by TLC's workers
Init == pc = "start" /\ k \in Keys

\* every program of the families has at least one site of its own, and few enough for all subsets to be erased
Emit == /\ pc = "start" /\ pc' = "done" /\ k' = k
        /\ Bind(CaseOfX(k), LAMBDA c :
             LET files == IF "files" \in DOMAIN c THEN c.files ELSE <<>>
                 n == NumSitesP(c.tops, files)  np == NPre(c) IN
             /\ Assert(n - np >= 1 /\ n - np <= 6, <<"family program with no or too many sites", c.id, n, np>>)
             /\ PrintT(<<"REPLAY", ToJson([id |-> c.id, tops |-> c.tops, files |-> files, nsites |-> n, nprelude |-> np])>>))

Next == Emit
Spec == Init /\ [][Next]_vars
=============================================================================
