------------------------------ MODULE SyltLoad ------------------------------
(***************************************************************************)
(* Property C06: every accepted program yields loadable Lua.               *)
(*                                                                         *)
(* The outcome protocol of one compilation (SyltPipeline) extended by what *)
(* the consumer of the emitted text does next: it hands the chunk to the   *)
(* Lua loader (load, not run).  The extension has ONE new action, LoadOk:  *)
(* a compiled run's chunk loads.  There is deliberately NO action for a    *)
(* loader error: a run whose chunk the loader refuses leaves a trace that  *)
(* cannot be continued, and such a trace is not a behaviour of this module.*)
(* A successful run may only Finish after LoadOk, so                       *)
(*                                                                         *)
(*      compiled ~> loaded          (CompiledLeadsToLoaded)                *)
(*                                                                         *)
(* holds of every fair behaviour, and "the observed run is a complete      *)
(* behaviour" is exactly C06 for that run.  Rejected runs (ParseErr /      *)
(* CompileErr) are complete behaviours as in SyltPipeline: C06 says        *)
(* nothing about them except that nothing of them is ever loaded.          *)
(***************************************************************************)
EXTENDS SyltPipeline

VARIABLE loaded      \* "no" | "yes": the loader accepted the emitted chunk

lvars == <<phase, input, stage, errs, bytes, rendered, loaded>>

LInit == Init /\ loaded = "no"

LStart(inp)      == Start(inp) /\ UNCHANGED loaded
LParseErr(n)     == ParseErr(n) /\ UNCHANGED loaded
LParseOk         == ParseOk /\ UNCHANGED loaded
LCompileErr(n, b) == CompileErr(n, b) /\ UNCHANGED loaded
LCompileOk(b)    == CompileOk(b) /\ UNCHANGED loaded
LRenderErr(len)  == RenderErr(len) /\ UNCHANGED loaded

\* the Lua loader accepts the b bytes that were written
LoadOk ==
    /\ phase = "compiled" /\ loaded = "no"
    /\ loaded' = "yes"
    /\ UNCHANGED pvars

\* a successful run is finished only when its chunk has been loaded
LFinish ==
    /\ phase = "compiled" => loaded = "yes"
    /\ Finish
    /\ UNCHANGED loaded

LNext == \/ \E inp \in Inputs : LStart(inp)
         \/ \E n \in 1..MaxErrs : LParseErr(n)
         \/ \E n \in 1..MaxErrs, b \in 0..MaxBytes : LCompileErr(n, b)
         \/ LParseOk
         \/ \E b \in 1..MaxBytes : LCompileOk(b)
         \/ \E len \in 1..MaxRender : LRenderErr(len)
         \/ LoadOk
         \/ LFinish

LSpec == LInit /\ [][LNext]_lvars /\ WF_lvars(LNext)

---------------------------------------------------------------------------
LTypeOK == TypeOK /\ loaded \in {"no", "yes"}

\* only text the compiler wrote without reporting an error is ever loaded
LoadedIsCompiled == loaded = "yes" => stage = "compile" /\ errs = 0 /\ bytes >= 1 /\ phase \in {"compiled", "finished"}

\* the C06 clause on complete behaviours
FinishedOkIsLoaded == (phase = "finished" /\ Succeeded) => loaded = "yes"
RejectedNeverLoaded == (phase = "failed" \/ (phase = "finished" /\ Rejected)) => loaded = "no"

LNoStuck == phase # "finished" => ENABLED LNext

\* liveness: compiled => eventually loaded; every fair behaviour is complete
CompiledLeadsToLoaded == (phase = "compiled") ~> (loaded = "yes")
LTerminates == <>Complete
=============================================================================
