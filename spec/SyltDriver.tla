----------------------------- MODULE SyltDriver -----------------------------
(***************************************************************************)
(* The `sylt` command as a state machine (property C20).                   *)
(*                                                                         *)
(* A configuration fixes the command line and the world it runs in:        *)
(*   mode   "run" (no -o: the Lua goes to a child process `lua`),          *)
(*          "stdout" (-o -), "file" (-o FILE)                              *)
(*   path   state of the output path before the command.  FILE: "absent",  *)
(*          "existing_shorter" / "existing_equal" / "existing_longer" (old *)
(*          content shorter than / as long as / longer than the program    *)
(*          that is to be written), "missing_parent", "is_directory",      *)
(*          "unwritable_device" (can be opened, every write fails);        *)
(*          writable things that exist and are not regular files:          *)
(*          "dev_null", "dev_stdout" (FILE = /dev/stdout, stdout a pipe:   *)
(*          the bytes show up on stdout), "fifo" (a named pipe with a      *)
(*          reader: the bytes show up at the reader), "symlink_file" (to   *)
(*          an existing regular file), "symlink_dangling" (to a missing    *)
(*          file in an existing directory);                                *)
(*          stdout: "none" (writable) or "unwritable"; run mode: "none"    *)
(*   io     what the command's stdout and stderr (descriptors 1 and 2) are *)
(*          when it starts: "fresh" (a new empty regular file each),       *)
(*          "pipe", "append" (a regular file that already has content,     *)
(*          opened for appending: `>> log`), "shared" (a regular file into *)
(*          which the same open descriptor wrote before the command and    *)
(*          writes again after it: `{ echo H; sylt ..; echo F; } > f`)     *)
(*   req    --require M given, marg: how M is spelled on the command line  *)
(*          (a name, a file name, a path, dotted names, a double suffix);  *)
(*   nostd  --no-std given                                                 *)
(*   prog   the program: accepted | rejected, written to have n errors     *)
(*          (n = 1, 2 and around the 8-bit wrap of an exit status: 255,    *)
(*          256, 257, 512), or rejected for errors without a source        *)
(*          location (2 / 3 missing imports, one missing file imported     *)
(*          from two files, a missing import plus a syntax error), or      *)
(*          "chain": a multi-file project in which files WITH syntax       *)
(*          errors import further files with syntax errors, files with     *)
(*          conflict markers and files that do not exist, 2-4 levels deep  *)
(*          | accepted but failing at run time (assert, unreachable, other *)
(*          Lua error), and whether it uses the standard library;          *)
(*          "longline": accepted, a string literal of > 8 KiB on one line; *)
(*          "longline_nl": the same with a line end inside the literal     *)
(*          (compiles; the Lua does not load)                              *)
(*                                                                         *)
(* The machine is what the property's words say, not how sylt is coded:    *)
(* the command parses its arguments, compiles, then - depending on mode -  *)
(* runs the chunk, writes it to stdout or writes it to FILE, prints every  *)
(* error it met and exits.  Observables are classes (exit zero/non-zero,   *)
(* content class of FILE, what stdout carries, which errors were printed). *)
(* The text of the emitted program is abstract: Emitted(c) depends on the  *)
(* program and on --require/--no-std only, never on the sink.              *)
(***************************************************************************)
EXTENDS Naturals, Sequences, FiniteSets, TLC

CONSTANTS MaxErrs,   \* bound on the number of errors a rejected program has
          Faulty,    \* TRUE enables defective actions (spec-level negative control: the contract must fail)
          StrictSink \* TRUE: an unwritable *stdout* (-o - into a full device) must turn the exit status non-zero,
                     \* as an unwritable FILE does.  The property's words fix the status by "compilation
                     \* succeeded" and speak of FILE only, so the default (FALSE) leaves that one status open.

VARIABLES cfg,       \* the configuration (never changes)
          pc,        \* "start" | "compile" | "run" | "wstdout" | "wfile" | "print" | "exit" | "done"
          fs,        \* content class of FILE: "none" | "absent" | "old" | "noparent" | "dir" | "device" | "complete" | "partial"
          chunk,     \* what the child `lua` was given: "none" (no child) | "empty" | "complete" | "partial"
          soprog,    \* program bytes on stdout: "none" | "complete" | "partial"
          sorun,     \* output of the run on stdout: "none" | "all" | "prefix"
          errs,      \* the errors met so far: sequence over {"compile", "lua", "io"}
          printed,   \* the errors printed so far
          exit,      \* "none" | "zero" | "nonzero"
          hist,      \* names of the actions taken
          streams    \* what the objects behind stdout / stderr hold, as a sequence of pieces in file order:
                     \* [out |-> s, err |-> s], s over "earlier" (there before the command started), "command"
                     \* (everything the command wrote to that descriptor), "later" (written after it ended)

dvars == <<cfg, pc, fs, chunk, soprog, sorun, errs, printed, exit, hist, streams>>

---------------------------------------------------------------------------
(* The configuration space, index-addressed (mixed radix, least significant first) *)
Sinks == <<[mode |-> "run", path |-> "none", io |-> "fresh"], [mode |-> "stdout", path |-> "none", io |-> "fresh"],
           [mode |-> "file", path |-> "absent", io |-> "fresh"], [mode |-> "file", path |-> "existing_shorter", io |-> "fresh"],
           [mode |-> "file", path |-> "missing_parent", io |-> "fresh"], [mode |-> "file", path |-> "is_directory", io |-> "fresh"],
           [mode |-> "file", path |-> "unwritable_device", io |-> "fresh"], [mode |-> "stdout", path |-> "unwritable", io |-> "fresh"],
           [mode |-> "file", path |-> "existing_equal", io |-> "fresh"], [mode |-> "file", path |-> "existing_longer", io |-> "fresh"],
           [mode |-> "file", path |-> "dev_null", io |-> "fresh"], [mode |-> "file", path |-> "dev_stdout", io |-> "fresh"],
           [mode |-> "file", path |-> "fifo", io |-> "fresh"], [mode |-> "file", path |-> "symlink_file", io |-> "fresh"],
           [mode |-> "file", path |-> "symlink_dangling", io |-> "fresh"],
           \* the kind of object stdout / stderr are (the sinks above: a fresh regular file, or what the path dictates)
           [mode |-> "stdout", path |-> "none", io |-> "pipe"], [mode |-> "stdout", path |-> "none", io |-> "append"],
           [mode |-> "stdout", path |-> "none", io |-> "shared"], [mode |-> "run", path |-> "none", io |-> "shared"]>>
IoKinds == {"fresh", "pipe", "append", "shared"}
ExistingPaths == {"existing_shorter", "existing_equal", "existing_longer"}
\* writable, existing, not a regular file (or reached through a link)
SpecialPaths == {"dev_null", "dev_stdout", "fifo", "symlink_file", "symlink_dangling"}
\* after a successful -o FILE the complete program can be read back from FILE (from the reader's end of a fifo)
ShowsInFile(c) == c.mode = "file" /\ c.path \notin {"dev_null", "dev_stdout"}
\* ... or arrives on the command's stdout
ShowsOnStdout(c) == c.mode = "stdout" \/ (c.mode = "file" /\ c.path = "dev_stdout")

Progs == <<[k |-> "acc", n |-> 0, why |-> "none"],
           [k |-> "rej", n |-> 1, why |-> "none"], [k |-> "rej", n |-> 2, why |-> "none"],
           [k |-> "rej", n |-> 255, why |-> "none"], [k |-> "rej", n |-> 256, why |-> "none"],
           [k |-> "rej", n |-> 257, why |-> "none"], [k |-> "rej", n |-> 512, why |-> "none"],
           [k |-> "rt", n |-> 0, why |-> "assert"], [k |-> "rt", n |-> 0, why |-> "unreachable"],
           [k |-> "rt", n |-> 0, why |-> "luaerr"],
           [k |-> "acc", n |-> 0, why |-> "longline"], [k |-> "rt", n |-> 0, why |-> "longline_nl"],
           [k |-> "rej", n |-> 2, why |-> "missing2"], [k |-> "rej", n |-> 3, why |-> "missing3"],
           [k |-> "rej", n |-> 1, why |-> "missing_shared"], [k |-> "rej", n |-> 2, why |-> "missing_plus_syntax"],
           [k |-> "rej", n |-> 3, why |-> "chain"]>>

\* how many different imported files of a program of class c do not exist: each of them is an error (without a
\* source location) that has to be printed - whatever else the compiler reports
PlantedMissing(c) == CASE c.why = "missing2" -> 2 [] c.why = "missing3" -> 3
                       [] c.why \in {"missing_shared", "missing_plus_syntax"} -> 1 [] c.why = "chain" -> 2 [] OTHER -> 0

\* A rejected program of class c is *written* to have c.pn errors (for "chain": at least three files with an error of
\* their own, each reachable only through a file that has errors itself).  Each of them has to be printed, whatever
\* the compiler library's own error list says: the number of errors to print is at least this
MinErrs(c) == IF c.pk = "rej" /\ c.pn > 1 THEN c.pn ELSE 1
\* ... and at least so many different source files (existing or not) are named by the printed errors
MinErrFiles(c) == IF c.pk # "rej" THEN 0 ELSE IF c.why = "chain" THEN 5 ELSE IF PlantedMissing(c) > 1 THEN PlantedMissing(c) ELSE 1

\* the spellings of M in `--require M` (selector 0 = no --require)
Mods == <<"c20mod", "c20mod.lua", "c20dir/c20mod.lua", "c20ext.helpers", "c20a.b.c", "c20mod.lua.lua">>

NSinks == Len(Sinks)
NProgs == Len(Progs)
NReqs  == Len(Mods) + 1
NBase  == NSinks * NReqs * 2 * NProgs * 2        \* 19 * 7 * 2 * 17 * 2 = 9044

\* r \in 0..Len(Mods)
MkCfg(s, r, nostd, p, std) ==
    [mode |-> Sinks[s].mode, path |-> Sinks[s].path, io |-> Sinks[s].io, req |-> (r > 0), marg |-> (IF r = 0 THEN "" ELSE Mods[r]), nostd |-> nostd,
     pk |-> Progs[p].k, pn |-> Progs[p].n, why |-> Progs[p].why, std |-> std]

\* b \in 0..NBase-1
CaseBase(b) ==
    MkCfg((b % NSinks) + 1, (b \div NSinks) % NReqs, ((b \div (NSinks * NReqs)) % 2) = 1,
          ((b \div (NSinks * NReqs * 2)) % NProgs) + 1, ((b \div (NSinks * NReqs * 2 * NProgs)) % 2) = 1)

BaseIndex(s, r, nostd, p, std) ==
    (s - 1) + NSinks * (r + NReqs * ((IF nostd THEN 1 ELSE 0)
        + 2 * ((p - 1) + NProgs * (IF std THEN 1 ELSE 0))))

SinkNo(c) == CHOOSE s \in 1..NSinks : Sinks[s].mode = c.mode /\ Sinks[s].path = c.path /\ Sinks[s].io = c.io
ProgNo(c) == CHOOSE p \in 1..NProgs : Progs[p].k = c.pk /\ Progs[p].n = c.pn /\ Progs[p].why = c.why
ReqNo(c)  == IF ~c.req THEN 0 ELSE CHOOSE r \in 1..Len(Mods) : Mods[r] = c.marg
IndexOfCfg(c) == BaseIndex(SinkNo(c), ReqNo(c), c.nostd, ProgNo(c), c.std)

AllConfigs == {MkCfg(s, r, n, p, u) : s \in 1..NSinks, r \in 0..Len(Mods), n \in BOOLEAN, p \in 1..NProgs, u \in BOOLEAN}
Universe == {CaseBase(b) : b \in 0..(NBase - 1)}

\* "a require of M": M without one trailing ".lua" (a module name or the name of its file may be given)
StripLua(m) == IF Len(m) > 4 /\ SubSeq(m, Len(m) - 3, Len(m)) = ".lua" THEN SubSeq(m, 1, Len(m) - 4) ELSE m
ExpectedModule(c) == StripLua(c.marg)

\* evaluated by TLC as an ASSUME of the MC wrappers: the index map enumerates exactly the cross product
UniverseWellFormed ==
    /\ Universe = AllConfigs
    /\ Cardinality(Universe) = NBase
    /\ \A b \in 0..(NBase - 1) : IndexOfCfg(CaseBase(b)) = b
    /\ \A i, j \in 1..Len(Mods) : (i # j) => Mods[i] # Mods[j]
    /\ \A c \in AllConfigs : c.req <=> (c.marg # "")
    /\ <<StripLua("m"), StripLua("m.lua"), StripLua("d/m.lua"), StripLua("e.h"), StripLua("m.lua.lua")>> = <<"m", "m", "d/m", "e.h", "m.lua">>
    /\ \A c \in AllConfigs : /\ c.mode = "file" => c.path \notin {"none", "unwritable"}
                             /\ c.mode = "stdout" => c.path \in {"none", "unwritable"}
                             /\ c.mode = "run" => c.path = "none"
                             /\ c.io \in IoKinds
                             /\ c.io # "fresh" => (c.mode \in {"stdout", "run"} /\ c.path = "none")
    /\ \A i, j \in 1..NSinks : (i # j) => Sinks[i] # Sinks[j]
    /\ \A c \in AllConfigs : MinErrs(c) >= 1 /\ (c.pk = "rej" => MinErrFiles(c) >= 1) /\ PlantedMissing(c) <= MinErrFiles(c)

---------------------------------------------------------------------------
(* What the property's words mean for a configuration (stated independently of the actions below) *)

\* --no-std removes the standard library: a program that uses it no longer compiles
Eff(c) == IF c.nostd /\ c.std THEN "rej" ELSE c.pk

CompileSucceeds(c) == Eff(c) # "rej"
Writable(c) == c.path \in ({"none", "absent"} \cup ExistingPaths \cup SpecialPaths)     \* can the requested output be written?

\* "compilation (and, in run mode, execution) succeeded", plus: the requested output could be produced
Success(c) == /\ CompileSucceeds(c)
              /\ c.mode = "run" => Eff(c) = "acc"
              /\ c.mode \in {"file", "stdout"} => Writable(c)

\* Is the exit status of c decided by the property's words?  Not for a compilable program whose output goes to an
\* unwritable stdout (unless StrictSink): the lost bytes may or may not be reported.
ExitFixed(c) == StrictSink \/ ~(c.mode = "stdout" /\ c.path = "unwritable" /\ CompileSucceeds(c))

InitFs(c) == CASE c.path \in {"none", "unwritable"} -> "none"
               [] c.path = "unwritable_device" -> "device"
               [] c.path = "absent" -> "absent"
               [] c.path \in ExistingPaths \cup {"symlink_file"} -> "old"
               [] c.path = "symlink_dangling" -> "absent"
               [] c.path = "dev_null" -> "device"
               [] c.path = "dev_stdout" -> "none"
               [] c.path = "fifo" -> "fifo"
               [] c.path = "missing_parent" -> "noparent"
               [] c.path = "is_directory" -> "dir"

\* the number of errors the compiler finds in a rejected program: at least one, and at least as many as the program
\* of that class is *written* to have (c.pn, see MinErrs).  How many more the compiler reports is the compiler's
\* business and is bound by the recording in Trace_Driver - the contract says that each of them is printed.
\* (The generator model caps the count at MaxErrs.)
ErrCounts(c) == {n \in 1..MaxErrs : n >= MinErrs(c) \/ n = MaxErrs}

\* "writes to stdout" / "prints": the bytes are added to the stream the command was started with, behind whatever the
\* object already holds, and whoever writes through the same descriptor afterwards continues behind them.
Earlier(c) == IF c.io \in {"append", "shared"} THEN <<"earlier">> ELSE <<>>
WrittenLater(c) == c.io = "shared"
FullStream(c) == Earlier(c) \o <<"command">> \o (IF WrittenLater(c) THEN <<"later">> ELSE <<>>)
IsPrefix(a, b) == Len(a) <= Len(b) /\ SubSeq(b, 1, Len(a)) = a

\* The emitted program is a function of the program and of the two flags that may change it - not of the sink.
\* (--require enters through the module it names: two spellings of the same module give the same program)
Emitted(c) == [pk |-> c.pk, pn |-> c.pn, why |-> c.why, std |-> c.std, req |-> c.req, module |-> ExpectedModule(c), nostd |-> c.nostd]
RequireCount(c) == IF c.req THEN 1 ELSE 0

\* the configuration with --no-std toggled
FlipNoStd(c) == [c EXCEPT !.nostd = ~c.nostd]

\* Hyperproperties of the definitions above, checked by TLC over all configurations (ASSUME in MC_Driver)
SinkIndependence ==
    \A c \in AllConfigs : \A t \in 1..NSinks :
        Emitted(c) = Emitted([c EXCEPT !.mode = Sinks[t].mode, !.path = Sinks[t].path, !.io = Sinks[t].io])
NoStdNeutralForStdFree ==
    \A c \in AllConfigs : ~c.std => /\ Eff(c) = Eff(FlipNoStd(c))
                                   /\ Success(c) = Success(FlipNoStd(c))
                                   /\ ErrCounts(c) = ErrCounts(FlipNoStd(c))
NoStdRejectsStdUsers == \A c \in AllConfigs : (c.std /\ c.nostd) => ~Success(c)

---------------------------------------------------------------------------
(* The machine *)
Init == /\ cfg \in Universe
        /\ pc = "start"
        /\ fs = InitFs(cfg)
        /\ chunk = "none" /\ soprog = "none" /\ sorun = "none"
        /\ errs = <<>> /\ printed = <<>> /\ exit = "none" /\ hist = <<>>
        /\ streams = [out |-> Earlier(cfg), err |-> Earlier(cfg)]

\* (only the actions that end the command - Exit and its defective variants - and Later change the stream objects)
Step(name) == hist' = Append(hist, name) /\ UNCHANGED cfg
              /\ IF name \in {"Exit", "Later", "BadReopenStdout", "BadExitZero"} THEN TRUE ELSE UNCHANGED streams

ParseArgs == /\ pc = "start"
             /\ pc' = "compile"
             /\ Step("ParseArgs")
             /\ UNCHANGED <<fs, chunk, soprog, sorun, errs, printed, exit>>

CompileOk == /\ pc = "compile" /\ CompileSucceeds(cfg)
             /\ pc' = CASE cfg.mode = "run" -> "run" [] cfg.mode = "stdout" -> "wstdout" [] cfg.mode = "file" -> "wfile"
             /\ chunk' = IF cfg.mode = "run" THEN "complete" ELSE chunk
             /\ Step("CompileOk")
             /\ UNCHANGED <<fs, soprog, sorun, errs, printed, exit>>

\* n: how many errors the compiler reports (bound by ErrCounts; the trace fixes it from the recording)
CompileErrN(n) == /\ pc = "compile" /\ ~CompileSucceeds(cfg)
                  /\ n \in ErrCounts(cfg)
                  /\ errs' = [i \in 1..n |-> "compile"]
                  /\ chunk' = IF cfg.mode = "run" THEN "empty" ELSE chunk
                  /\ pc' = "print"
                  /\ Step("CompileErr")
                  /\ UNCHANGED <<fs, soprog, sorun, printed, exit>>
CompileErr == \E n \in 1..MaxErrs : CompileErrN(n)

\* A command may find out that FILE cannot be written before it has compiled anything: then the I/O error is the
\* only error there is to print (the property does not order the two checks).
OutputFailEarly == /\ pc = "compile" /\ cfg.mode = "file" /\ ~Writable(cfg)
                   /\ errs' = <<"io">>
                   /\ pc' = "print"
                   /\ Step("OutputFailEarly")
                   /\ UNCHANGED <<fs, chunk, soprog, sorun, printed, exit>>

RunOk == /\ pc = "run" /\ Eff(cfg) = "acc"
         /\ sorun' = "all"
         /\ pc' = "exit"
         /\ Step("RunOk")
         /\ UNCHANGED <<fs, chunk, soprog, errs, printed, exit>>

RunFail == /\ pc = "run" /\ Eff(cfg) = "rt"
           /\ sorun' = "prefix"                 \* whatever was printed before the failure stays printed
           /\ errs' = Append(errs, "lua")
           /\ pc' = "print"
           /\ Step("RunFail")
           /\ UNCHANGED <<fs, chunk, soprog, printed, exit>>

WriteStdout == /\ pc = "wstdout" /\ Writable(cfg)
               /\ soprog' = "complete"
               /\ pc' = "exit"
               /\ Step("WriteStdout")
               /\ UNCHANGED <<fs, chunk, sorun, errs, printed, exit>>

\* the bytes vanish unnoticed: allowed only where the property leaves the status open (see ExitFixed)
WriteStdoutLost == /\ pc = "wstdout" /\ ~Writable(cfg) /\ ~StrictSink
                   /\ pc' = "exit"
                   /\ Step("WriteStdoutLost")
                   /\ UNCHANGED <<fs, chunk, soprog, sorun, errs, printed, exit>>

WriteStdoutFail == /\ pc = "wstdout" /\ ~Writable(cfg)
                   /\ errs' = Append(errs, "io")
                   /\ pc' = "print"
                   /\ Step("WriteStdoutFail")
                   /\ UNCHANGED <<fs, chunk, soprog, sorun, printed, exit>>

WriteFileOk == /\ pc = "wfile" /\ Writable(cfg)
               /\ fs' = IF ShowsInFile(cfg) THEN "complete" ELSE fs
               /\ soprog' = IF ShowsOnStdout(cfg) THEN "complete" ELSE soprog
               /\ pc' = "exit"
               /\ Step("WriteFileOk")
               /\ UNCHANGED <<chunk, sorun, errs, printed, exit>>

WriteFileFail == /\ pc = "wfile" /\ ~Writable(cfg)
                 /\ errs' = Append(errs, "io")
                 /\ pc' = "print"
                 /\ Step("WriteFileFail")
                 /\ UNCHANGED <<fs, chunk, soprog, sorun, printed, exit>>

PrintErrors == /\ pc = "print"
               /\ printed' = errs
               /\ pc' = "exit"
               /\ Step("PrintErrors")
               /\ UNCHANGED <<fs, chunk, soprog, sorun, errs, exit>>

Exit == /\ pc = "exit"
        /\ exit' = IF errs = <<>> THEN "zero" ELSE "nonzero"
        /\ pc' = "done"
        \* by now everything the command wrote sits, as one piece, behind what the two objects held before
        /\ streams' = [s \in DOMAIN streams |-> Append(streams[s], "command")]
        /\ Step("Exit")
        /\ UNCHANGED <<fs, chunk, soprog, sorun, errs, printed>>

\* The environment, after the command has ended: the holder of the original descriptors goes on writing
Later == /\ pc = "done" /\ WrittenLater(cfg)
         /\ streams.out[Len(streams.out)] # "later"
         /\ streams' = [s \in DOMAIN streams |-> Append(streams[s], "later")]
         /\ Step("Later")
         /\ UNCHANGED <<pc, fs, chunk, soprog, sorun, errs, printed, exit>>
\* nothing more will happen
Settled == pc = "done" /\ (WrittenLater(cfg) => streams.out[Len(streams.out)] = "later")

(* Defective variants, enabled only in the negative-control model *)
BadPartialWrite == /\ Faulty /\ pc = "wfile"
                   /\ fs' = "partial" /\ errs' = Append(errs, "io") /\ pc' = "print"
                   /\ Step("BadPartialWrite")
                   /\ UNCHANGED <<chunk, soprog, sorun, printed, exit>>
BadSilentExit == /\ Faulty /\ pc = "print"
                 /\ pc' = "exit"
                 /\ Step("BadSilentExit")
                 /\ UNCHANGED <<fs, chunk, soprog, sorun, errs, printed, exit>>
BadExitZero == /\ Faulty /\ pc = "exit" /\ errs # <<>>
               /\ exit' = "zero" /\ pc' = "done"
               /\ streams' = [s \in DOMAIN streams |-> Append(streams[s], "command")]
               /\ Step("BadExitZero")
               /\ UNCHANGED <<fs, chunk, soprog, sorun, errs, printed>>
\* `-o -` written through a second opening of the object behind stdout (truncating, own offset): what was there is gone
BadReopenStdout == /\ Faulty /\ pc = "exit" /\ cfg.mode = "stdout"
                   /\ exit' = IF errs = <<>> THEN "zero" ELSE "nonzero"
                   /\ pc' = "done"
                   /\ streams' = [out |-> <<"command">>, err |-> Append(streams.err, "command")]
                   /\ Step("BadReopenStdout")
                   /\ UNCHANGED <<fs, chunk, soprog, sorun, errs, printed>>

Next == \/ ParseArgs \/ CompileOk \/ CompileErr \/ OutputFailEarly \/ RunOk \/ RunFail \/ WriteStdout
        \/ WriteStdoutFail \/ WriteStdoutLost \/ WriteFileOk \/ WriteFileFail \/ PrintErrors \/ Exit
        \/ Later
        \/ BadPartialWrite \/ BadSilentExit \/ BadExitZero \/ BadReopenStdout

Spec == Init /\ [][Next]_dvars

---------------------------------------------------------------------------
(* The contract *)
Done == pc = "done"

TypeOK == /\ cfg \in AllConfigs
          /\ pc \in {"start", "compile", "run", "wstdout", "wfile", "print", "exit", "done"}
          /\ fs \in {"none", "absent", "old", "noparent", "dir", "device", "fifo", "complete", "partial"}
          /\ chunk \in {"none", "empty", "complete", "partial"}
          /\ soprog \in {"none", "complete", "partial"}
          /\ sorun \in {"none", "all", "prefix"}
          /\ exit \in {"none", "zero", "nonzero"}
          /\ \A i \in 1..Len(errs) : errs[i] \in {"compile", "lua", "io"}
          /\ DOMAIN streams = {"out", "err"}
          /\ \A s \in DOMAIN streams : \A i \in 1..Len(streams[s]) : streams[s][i] \in {"earlier", "command", "later"}

\* exit status 0 exactly when compilation (and, in run mode, execution) succeeded
ExitIffSuccess == Done => (ExitFixed(cfg) => ((exit = "zero") <=> Success(cfg)))

\* ... and prints every error otherwise (and invents none on success)
ErrorsPrinted == Done => /\ printed = errs
                         /\ (exit = "nonzero") <=> (Len(errs) >= 1)

\* -o FILE: the complete program or FILE untouched - in every state, not only at the end
AllOrNothing == /\ fs \in {InitFs(cfg), "complete"}
                /\ Done => ((fs = "complete") <=> (ShowsInFile(cfg) /\ Success(cfg)))

\* the same for the other two sinks: stdout carries the whole program or none of it, lua gets a whole chunk or nothing
SinksWhole == /\ soprog \in {"none", "complete"}
              /\ chunk \in {"none", "empty", "complete"}
              /\ Done => ((soprog = "complete") <=> (ShowsOnStdout(cfg) /\ Success(cfg)))
              /\ Done => ((chunk = "complete") <=> (cfg.mode = "run" /\ CompileSucceeds(cfg)))
              /\ (chunk # "none") => cfg.mode = "run"

\* output of a run appears only in run mode, and all of it when the run succeeds
RunOutput == Done => /\ (sorun # "none") => cfg.mode = "run"
                     /\ (cfg.mode = "run" /\ Eff(cfg) = "acc") => sorun = "all"
                     /\ (cfg.mode = "run" /\ Eff(cfg) = "rt") => sorun = "prefix"

\* stdout and stderr are streams: in every state each object holds what it held before the command, then (once the
\* command has ended) the command's output as one piece, then what was written later - nothing is ever lost,
\* overwritten or reordered, whatever kind of object the descriptor refers to
StreamsAppendOnly == \A s \in DOMAIN streams :
                        /\ IsPrefix(Earlier(cfg), streams[s])
                        /\ IsPrefix(streams[s], FullStream(cfg))
                        /\ Done => IsPrefix(Earlier(cfg) \o <<"command">>, streams[s])
                        /\ Settled => streams[s] = FullStream(cfg)

\* every behaviour terminates in at most 5 steps of the command (+ 1 of the environment) and is deterministic up to the error count
Progress == (pc # "done") => ENABLED Next
Bounded == Len(hist) <= 6

DriverContract == TypeOK /\ ExitIffSuccess /\ ErrorsPrinted /\ AllOrNothing /\ SinksWhole /\ RunOutput /\ StreamsAppendOnly

\* what the conformance side must observe for this behaviour
Expectation == [exit |-> exit, fs |-> fs, chunk |-> chunk, soprog |-> soprog, sorun |-> sorun,
                errs |-> errs, printed |-> printed, streams |-> streams, requires |-> RequireCount(cfg), module |-> ExpectedModule(cfg), steps |-> hist]
=============================================================================
