---------------------------- MODULE MC_AnnotVal ----------------------------
(* C08: validation of the recorded compile results against the expectation of SyltAnnot.  Independent of the
   universe a program came from (MC_Annot: pairwise nesting; MC_AnnotFam: annotation-type families).

   record = [id, nsites, nprelude, results: <<[mask, class, digest]>>]
   Expectation: the results cover the mask universe Masks(nsites, nprelude) of the specification (otherwise the
   recorder did not do what the specification asks: Assert, a tool error), every variant is accepted, and all
   variants have the same Lua digest.
   All the work is done in the action, so that TLC's workers share it (initial states are computed by one thread). *)
EXTENDS SyltAnnot, Json, IOUtils

VARIABLES k, pc
vars == <<k, pc>>

Rec == ndJsonDeserialize(IOEnv.TRACE)

Init == pc = "start" /\ k \in 1..Len(Rec)

AllAccepted(res) == \A j \in 1..Len(res) : res[j].class = "ok"
SameBytes(res) == \A j \in 1..Len(res) : res[j].digest = res[1].digest
\* spec-level sanity (the mask universe is well-formed) and completeness of the record
Covered(r) ==
    LET ms == Masks(r.nsites, r.nprelude)
        got == {r.results[j].mask : j \in 1..Len(r.results)} IN
    /\ Assert(\A m \in ms : Len(m) = r.nsites, <<"mask universe is not well-formed", k>>)
    /\ Assert(ms \subseteq got, <<"record does not cover the spec's mask universe", k>>)

Check(r) ==
    /\ Covered(r)
    /\ IF AllAccepted(r.results) /\ SameBytes(r.results) THEN TRUE
       ELSE PrintT(<<"REJECT", ToJson([rec |-> k,
             why |-> IF ~AllAccepted(r.results) THEN "variant-rejected" ELSE "bytes-differ",
             bad |-> {j \in 1..Len(r.results) : r.results[j].class # "ok" \/ r.results[j].digest # r.results[1].digest}])>>)

\* the record is bound once (Bind): TLC would otherwise walk Rec[k] again at every use
Validate == /\ pc = "start" /\ pc' = "done" /\ k' = k
            /\ Bind(Rec[k], Check)

Next == Validate
Spec == Init /\ [][Next]_vars

TypeOk == pc \in {"start", "done"}
=============================================================================
