---------------------------- MODULE MC_Composite ----------------------------
(***************************************************************************)
(* The C19 universe as a TLC model.  One behaviour per JOB: Init picks a   *)
(* job (a chunk of the pair enumeration of one type, a chunk of unary      *)
(* minus / tuple-by-number items, a provenance entry, an alias group, the  *)
(* transitivity check of a small type, or - in simulation - a sample of a  *)
(* depth-3 type); Run computes the expected results with SyltSem /         *)
(* SyltValues, prints the batch as a REPLAY record and stores the set of   *)
(* violated laws, which the invariant NoLawViolated requires to be empty.  *)
(* The heavy evaluation is in Run (not Init) so that all workers share it. *)
(***************************************************************************)
EXTENDS SyltComposite, Json, IOUtils

VARIABLES job, pc, viol
vars == <<job, pc, viol>>

Env(n, d) == IF n \in DOMAIN IOEnv THEN IOEnv[n] ELSE d
Tier  == Env("TIER", "quick")            \* quick | thorough | deep (simulation over DeepTable)
Seed  == atoi(Env("SEED", "1"))
NDeep == atoi(Env("NDEEP", "300"))
MCFault  == Env("FAULT", "none")         \* negative control of the laws, see SyltComposite!LawBin
OnlyKind == Env("ONLYKIND", "")          \* restrict the jobs (negative controls, replays, debugging)
OnlyT    == atoi(Env("ONLYT", "0"))

NT == Len(TypeTable)
Ty(t) == TypeTable[t].ty
Stride(t) == IF Tier = "quick" THEN TypeTable[t].qs ELSE 1
Max2(a, b) == IF a > b THEN a ELSE b
BatchItems(ty) == IF HasBlob(ty) THEN 16 ELSE 40
PairsPerBatch(ty) == Max2(1, BatchItems(ty) \div Len(OpsFor(ty)))
NSel(t) == LET n == Count(Ty(t))  s == Stride(t)  off == Seed % s IN (n * n - off + s - 1) \div s
NChunks(m, p) == (m + p - 1) \div p
NumericTs == {t \in 1..NT : Numeric(Ty(t))}
NumTupleTs == {t \in NumericTs : Ty(t).k = "ttuple"}
ND == Len(Divisors)

\* histories: history x of type t = (triple number x \div ntpl, template x % ntpl); HPB histories per batch (one Sylt function each)
HPB == 8
NH == Len(HistTable)
HTy(t) == HistTable[t].ty
HStride(t) == IF Tier = "quick" THEN HistTable[t].qs ELSE 1
NTriples(t) == LET n == Count(HTy(t))  s == HStride(t)  off == Seed % s IN (n * n * n - off + s - 1) \div s
NHist(t) == NTriples(t) * Len(TemplatesFor(HTy(t)))

MixCount(m) == Count(MixTable[m].l) * Count(MixTable[m].r)
J(kind, t, c) == [kind |-> kind, t |-> t, c |-> c]
Jobs ==
  IF Tier = "deep" THEN {J("deep", t, c) : t \in 1..Len(DeepTable), c \in 1..NDeep}
  ELSE IF Tier = "hist" THEN UNION {{J("hist", t, c) : c \in 1..NChunks(NHist(t), HPB)} : t \in 1..NH}
  ELSE UNION {{J("pairs", t, c) : c \in 1..NChunks(NSel(t), PairsPerBatch(Ty(t)))} : t \in 1..NT}
       \cup UNION {{J("diag", t, c) : c \in 1..NChunks(Count(Ty(t)), PairsPerBatch(Ty(t)))} : t \in {x \in 1..NT : Stride(x) > 1}}
       \cup UNION {{J("neg", t, c) : c \in 1..NChunks(Count(Ty(t)), 40)} : t \in NumericTs}
       \cup UNION {{J("divn", t, c) : c \in 1..NChunks(Count(Ty(t)) * ND, 40)} : t \in NumTupleTs}
       \cup {J("trans", t, 1) : t \in {x \in 1..NT : Count(Ty(x)) <= 30}}
       \cup {J("prov", 0, c) : c \in 1..Len(ProvTable)}
       \cup {J("alias", t, 1) : t \in 1..NT}
       \cup UNION {{J("hist", t, c) : c \in 1..NChunks(NHist(t), HPB)} : t \in 1..NH}
       \cup UNION {{J("mixed", m, c) : c \in 1..NChunks(MixCount(m), 5)} : m \in 1..Len(MixTable)}
       \cup {J("cassign", 1, c) : c \in 1..NChunks(Count(NumStr) * Count(NumStr), 12)}
       \cup {J("cassign", 2, c) : c \in 1..NChunks(Count(CaNumTy) * Count(CaNumTy), 12)}

RECURSIVE Flat(_, _)
Flat(ss, i) == IF i > Len(ss) THEN <<>> ELSE ss[i] \o Flat(ss, i + 1)
RECURSIVE UnionLaws(_, _)
UnionLaws(ps, i) == IF i > Len(ps) THEN {} ELSE ps[i].laws \cup UnionLaws(ps, i + 1)
Min3(a, b) == IF a < b THEN a ELSE b
Wrap(app, laws) == <<[ok |-> app.ok, stuck |-> app.stuck, item |-> app.item]>>

\* [apps: sequence of [ok, stuck, item], laws: set of violated law names, npairs]
PairsResult(ty, ks) ==          \* ks: sequence of pair indices k = i * n + j
  LET n == Count(ty)
      ps == [x \in 1..Len(ks) |-> Pair(ty, ks[x] \div n, ks[x] % n)] IN
  [apps |-> Flat([x \in 1..Len(ks) |-> ps[x].apps], 1), laws |-> UnionLaws(ps, 1), npairs |-> Len(ks)]

Result(j) ==
  CASE j.kind = "pairs" ->
         LET ty == Ty(j.t)  s == Stride(j.t)  off == Seed % s  p == PairsPerBatch(ty)
             lo == (j.c - 1) * p  hi == Min3(j.c * p, NSel(j.t)) - 1 IN
         PairsResult(ty, [x \in 1..(hi - lo + 1) |-> off + (lo + x - 1) * s])
    [] j.kind = "diag" ->
         LET ty == Ty(j.t)  n == Count(ty)  p == PairsPerBatch(ty)
             lo == (j.c - 1) * p  hi == Min3(j.c * p, n) - 1 IN
         PairsResult(ty, [x \in 1..(hi - lo + 1) |-> (lo + x - 1) * (n + 1)])
    [] j.kind = "deep" ->
         LET ty == DeepTable[j.t]  n == Count(ty)  p == PairsPerBatch(ty)
             ii(m) == (j.c * 131 + m * 7 + Seed * 13) % n
             jj(m) == CASE (j.c + m) % 4 = 0 -> (j.c * 37 + m * 101 + Seed * 17) % n
                        [] (j.c + m) % 4 = 1 -> ii(m)
                        [] (j.c + m) % 4 = 2 -> (ii(m) + 1) % n
                        [] OTHER -> (ii(m) + (j.c % 97) + 2) % n IN
         PairsResult(ty, [x \in 1..p |-> ii(x) * n + jj(x)])
    [] j.kind = "neg" ->
         LET ty == Ty(j.t)  lo == (j.c - 1) * 40  hi == Min3(j.c * 40, Count(ty)) - 1
             as == [x \in 1..(hi - lo + 1) |-> NegApp(ty, lo + x - 1)] IN
         [apps |-> Flat([x \in 1..Len(as) |-> Wrap(as[x], {})], 1), laws |-> UnionLaws(as, 1), npairs |-> Len(as)]
    [] j.kind = "divn" ->
         LET ty == Ty(j.t)  lo == (j.c - 1) * 40  hi == Min3(j.c * 40, Count(ty) * ND) - 1
             as == [x \in 1..(hi - lo + 1) |-> DivNApp(ty, (lo + x - 1) \div ND, ((lo + x - 1) % ND) + 1)] IN
         [apps |-> Flat([x \in 1..Len(as) |-> Wrap(as[x], {})], 1), laws |-> UnionLaws(as, 1), npairs |-> Len(as)]
    [] j.kind = "trans" -> [apps |-> <<>>, laws |-> TransViolations(Ty(j.t)), npairs |-> Count(Ty(j.t))]
    [] j.kind = "prov" -> [apps |-> ProvApps(ProvTable[j.c]), laws |-> ProvLaws(ProvTable[j.c]), npairs |-> 1]
    [] j.kind = "alias" -> [apps |-> AliasApps(Ty(j.t)), laws |-> {}, npairs |-> 1]
    [] j.kind = "mixed" ->
         LET nr == Count(MixTable[j.t].r)  lo == (j.c - 1) * 5  hi == Min3(j.c * 5, MixCount(j.t)) - 1
             as == [x \in 1..(hi - lo + 1) |-> MixApp(j.t, (lo + x - 1) \div nr, (lo + x - 1) % nr)] IN
         [apps |-> Flat([x \in 1..Len(as) |-> as[x].apps], 1), laws |-> UnionLaws(as, 1), npairs |-> Len(as)]
    [] j.kind = "cassign" ->
         LET ty == IF j.t = 1 THEN NumStr ELSE CaNumTy  n == Count(ty)
             lo == (j.c - 1) * 12  hi == Min3(j.c * 12, n * n) - 1
             forms(x) == IF j.t = 1 THEN CaStrForms(ty.vs[(x \div n) + 1], ty.vs[(x % n) + 1])
                         ELSE CaNumForms(Nth(ty, x \div n), Nth(ty, x % n))
             fs == Flat([x \in 1..(hi - lo + 1) |-> forms(lo + x - 1)], 1)
             as == [i \in 1..Len(fs) |-> CaApp(fs[i])] IN
         [apps |-> [i \in 1..Len(as) |-> [ok |-> as[i].ok, stuck |-> as[i].stuck, item |-> as[i].item]],
          laws |-> UnionLaws(as, 1), npairs |-> hi - lo + 1]
    [] j.kind = "hist" ->
         LET ty == HTy(j.t)  n == Count(ty)  s == HStride(j.t)  off == Seed % s
             tpls == TemplatesFor(ty)  nt == Len(tpls)
             lo == (j.c - 1) * HPB  hi == Min3(j.c * HPB, NHist(j.t)) - 1
             hist(x) == LET tri == off + (x \div nt) * s IN
                        History(ty, <<tri \div (n * n), (tri \div n) % n, tri % n>>, tpls[(x % nt) + 1], x - lo + 1)
             hs == [x \in 1..(hi - lo + 1) |-> hist(lo + x - 1)]
             all == Flat([x \in 1..Len(hs) |-> hs[x].apps], 1) IN
         [apps |-> [i \in 1..Len(all) |-> [ok |-> all[i].ok, stuck |-> all[i].stuck, item |-> all[i].item]],
          laws |-> UnionLaws(all, 1) \cup UNION {Law(hs[x].bound, "history-bindings-evaluate") : x \in 1..Len(hs)},
          npairs |-> Len(hs), binds |-> [x \in 1..Len(hs) |-> hs[x].binds]]

Selected == IF OnlyKind = "" /\ OnlyT = 0 THEN Jobs
            ELSE {j \in Jobs : (OnlyKind = "" \/ j.kind = OnlyKind) /\ (OnlyT = 0 \/ j.t = OnlyT)}
Init == job \in Selected /\ pc = "new" /\ viol = {}

\* what one job yields: the violated laws and the REPLAY record.  (An operator, not a LET inside the action: TLC caches
\* LET definitions only below `eval`, a LET written directly in an action conjunct is re-evaluated at every mention.)
Outcome(j) ==
  LET r == Result(j)
      apps == [i \in 1..Len(r.apps) |-> r.apps[i]]
      oks == SelectSeq(apps, LAMBDA x : x.ok)
      nstuck == Len(SelectSeq(apps, LAMBDA x : x.stuck))
      items == IF Len(oks) = 0 THEN <<>> ELSE [i \in 1..Len(oks) |-> oks[i].item]
      shape == IF j.kind = "deep" THEN Shape(DeepTable[j.t]) ELSE IF j.kind = "hist" THEN Shape(HTy(j.t))
               ELSE IF j.kind = "mixed" THEN Shape(MixTable[j.t].l) \o "~" \o Shape(MixTable[j.t].r)
               ELSE IF j.kind = "cassign" THEN (IF j.t = 1 THEN "numstr" ELSE Shape(CaNumTy))
               ELSE IF j.t = 0 THEN "-" ELSE Shape(Ty(j.t)) IN
  [viol |-> {l.n : l \in {x \in r.laws : ~x.ok}} \cup (IF nstuck > 0 THEN {"applicable-operator-stuck"} ELSE {}),
   rec |-> [id |-> j, shape |-> shape, items |-> items, npairs |-> r.npairs, dropped |-> Len(apps) - Len(oks) - nstuck,
            laws |-> {l.n : l \in r.laws}, binds |-> IF j.kind = "hist" THEN r.binds ELSE <<>>]]

Emit(j) == LET o == Outcome(j) IN IF PrintT(<<"REPLAY", ToJson(o.rec)>>) THEN o.viol ELSE o.viol

\* one action per kind of job, so that -coverage shows which kinds ran
RunKind(kind) ==
  /\ pc = "new"
  /\ job.kind = kind
  /\ viol' = Emit(job)
  /\ pc' = "done"
  /\ UNCHANGED job

RunPairs == RunKind("pairs")
RunDiag  == RunKind("diag")
RunNeg   == RunKind("neg")
RunDivN  == RunKind("divn")
RunTrans == RunKind("trans")
RunProv  == RunKind("prov")
RunAlias == RunKind("alias")
RunDeep  == RunKind("deep")
RunHist  == RunKind("hist")
RunMixed == RunKind("mixed")
RunCAssign == RunKind("cassign")

Next == RunPairs \/ RunDiag \/ RunNeg \/ RunDivN \/ RunTrans \/ RunProv \/ RunAlias \/ RunDeep \/ RunHist \/ RunMixed \/ RunCAssign
Spec == Init /\ [][Next]_vars

NoLawViolated == viol = {}

\* distinct indices of a type denote distinct literals; the declarations are printed once for the harness
ASSUME \A t \in 1..NT : Count(Ty(t)) > 64 \/ \A i, k \in 0..(Count(Ty(t)) - 1) : i # k => Nth(Ty(t), i) # Nth(Ty(t), k)
ASSUME PrintT(<<"DECLS", ToJson(Decls)>>)
\* every literal of the escape universe is a well-formed Lua literal, and no two are written alike
ASSUME \A ty \in {EscStr, EscS, EscH, EscQ} : \A i \in 0..(Count(ty) - 1) :
          /\ Denote(Nth(ty, i).src).ok
          /\ \A k \in 0..(i - 1) : Nth(ty, k).src # Nth(ty, i).src
\* what a few literals denote (the rules of Denote, spot-checked)
ASSUME /\ Denote("\\65").v = <<65>> /\ Denote("\\6").v \o Denote("5").v = <<6, 53>>
       /\ Denote("a\\z  b").v = <<97, 98>> /\ Denote("a\\z").v \o Denote("  b").v = <<97, 32, 32, 98>>
       /\ Denote("\\0655").v = <<65, 53>> /\ ~Denote("\\655").ok /\ Denote("\\x41\\u{41}\\u{e9}").v = <<65, 65, 195, 169>>
       /\ Denote("\\\\n").v = <<92, 110>> /\ Denote("\\n").v = <<10>> /\ ~Denote("\\").ok /\ ~Denote("\\x4").ok
\* the function globals are bound to what their initialisers evaluate to
ASSUME \A i \in 1..3 : LET r == EvalE(Globals[i].e, 0, NewState(1)) IN r.sig = "ok" /\ r.v = Globals[i].v
\* the alias map is strictly increasing in the spec value (the replayer checks that it is in the real values, too)
ASSUME \A i \in 1..(Len(Alias) - 1) : Alias[i].spec < Alias[i + 1].spec
ASSUME PrintT(<<"ALIAS", ToJson(Alias)>>)
=============================================================================
