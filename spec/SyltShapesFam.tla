---------------------------- MODULE SyltShapesFam ----------------------------
(***************************************************************************)
(* C05 - second part of the SyltShapes specification: two clauses of the   *)
(* property stated as RULES OVER THE PROGRAM TEXT (the AST), and the       *)
(* universes of programs they are evaluated on.  SyltShapes plants one     *)
(* violation per declaration shape and context; this module varies the     *)
(* constructs the two rules talk about.                                    *)
(*                                                                         *)
(* loop-control   `break` / `continue` is legal iff, walking outwards from *)
(*                it, a `loop` is met before a function literal            *)
(*                (LoopControlOk, a walk over the AST).  Universe: every   *)
(*                FUNCTION FLAVOUR (fn / pu; immediately invoked, named,   *)
(*                named and never called, held in a variable, blob method, *)
(*                passed as an argument, element of a list; with and       *)
(*                without parameter and result; inside an fn or a pu       *)
(*                function) written inside every LOOP-CARRYING CONTEXT     *)
(*                (loop with do-block, without condition, without          *)
(*                do-block, inner loop, after an inner loop, if / else /   *)
(*                case arm / case else / block / another closure inside    *)
(*                a loop), the word directly in the function body or       *)
(*                inside an if / else / case arm / case else of it; each   *)
(*                once with a loop of the function's own around the word   *)
(*                (legal) and once without (illegal).                      *)
(*                                                                         *)
(* case-totality  a `case` is legal iff every arm names a variant of the   *)
(*                enum and, when there is no `else`, the SET of names the  *)
(*                arms list equals the enum's variant set (CaseOk).  A     *)
(*                variant may be listed by several arms: the language      *)
(*                allows that (the unchanged compiler accepts `X, Y, X`    *)
(*                for {X, Y}), so only the set counts.  Universe: enums of *)
(*                1..MaxVariants variants, every MULTISET of at most       *)
(*                variants+1 arms over the variants and one unknown name,  *)
(*                in three orders (repeats adjacent, reversed, repeats     *)
(*                spread), with / without payload bindings, with / without *)
(*                else, as statement / as expression, the scrutinee a      *)
(*                literal variant, a variable, an un-annotated parameter   *)
(*                (the requirement meets the enum at the call) or an       *)
(*                annotated parameter.                                     *)
(*                                                                         *)
(* A case of either family is ONE program and the verdict the rule gives   *)
(* on it: "accept" (must compile, its Lua must load) or "reject" (must be  *)
(* rejected after the parser).  Cases are addressed by KEY tuples; the     *)
(* program is derived from the key (FamCase), so the model checker's state *)
(* stays small and the recorded trace is re-derived during validation.     *)
(***************************************************************************)
EXTENDS SyltAst, FiniteSets, TLC

CONSTANT MaxVariants     \* largest enum of the case-totality family (3 quick, 4 thorough)

Digit(n) == CASE n = 0 -> "0" [] n = 1 -> "1" [] n = 2 -> "2" [] n = 3 -> "3" [] n = 4 -> "4" [] n = 5 -> "5"

(* ================================================================ the rules, over the AST *)
\* loop-control: inl = "a loop of the current function encloses this node"
RECURSIVE StmtsOk(_, _), StmtOk(_, _), ExprOk(_, _)
StmtsOk(ss, inl) == \A i \in 1..Len(ss) : StmtOk(ss[i], inl)
StmtOk(s, inl) ==
  CASE s.k \in {"break", "continue"} -> inl
    [] s.k = "loop"  -> ExprOk(s.c, inl) /\ StmtsOk(s.body, TRUE)
    [] s.k = "block" -> StmtsOk(s.body, inl)
    [] s.k \in {"def", "asg", "expr"} -> ExprOk(s.e, inl)
    [] OTHER -> TRUE
ExprOk(e, inl) ==
  CASE e.k = "fn"   -> StmtsOk(e.body, FALSE)          \* a function literal of either purity starts afresh
    [] e.k = "if"   -> \A i \in 1..Len(e.arms) : (e.arms[i].els \/ ExprOk(e.arms[i].c, inl)) /\ StmtsOk(e.arms[i].body, inl)
    [] e.k = "case" -> /\ ExprOk(e.e, inl)
                       /\ \A i \in 1..Len(e.arms) : StmtsOk(e.arms[i].body, inl)
                       /\ StmtsOk(e.els, inl)
    [] e.k = "call" -> ExprOk(e.f, inl) /\ \A i \in 1..Len(e.args) : ExprOk(e.args[i], inl)
    [] e.k = "bin"  -> ExprOk(e.l, inl) /\ ExprOk(e.r, inl)
    [] e.k = "list" -> \A i \in 1..Len(e.es) : ExprOk(e.es[i], inl)
    [] e.k = "blob" -> \A i \in 1..Len(e.fields) : ExprOk(e.fields[i].e, inl)
    [] e.k = "fld"  -> ExprOk(e.e, inl)
    [] e.k = "variant" -> (e.has => ExprOk(e.e, inl))
    [] e.k = "paren" -> ExprOk(e.e, inl)
    [] e.k = "un"    -> ExprOk(e.a, inl)
    [] e.k = "idx"   -> ExprOk(e.e, inl)
    [] e.k = "tuple" -> \A i \in 1..Len(e.es) : ExprOk(e.es[i], inl)
    [] OTHER -> TRUE
LoopControlOk(tops) == \A i \in 1..Len(tops) : (tops[i].k = "def" => StmtOk(tops[i], FALSE))

\* case-totality and variant existence of one `case` node over an enum with the given variant names
ListedNames(c) == {c.arms[i].v : i \in 1..Len(c.arms)}
CaseOk(c, variants) == /\ ListedNames(c) \subseteq variants
                       /\ (c.hasels \/ ListedNames(c) = variants)

(* ================================================================ family A: function flavours x loop contexts *)
TFnP(pure, ps, r) == [k |-> "tfn", ps |-> ps, r |-> r, pure |-> pure]
MkFn(pure, ps, r, body) == [k |-> "fn", pure |-> pure, params |-> ps, ret |-> r, body |-> body]
\* a loop in one of its three written forms: "do" `loop c do .. end`, "nocond" `loop do .. end`, "bare" `loop c <statement>`
LoopF(form, c, body) == [k |-> "loop", c |-> c, body |-> body, form |-> form]
IsPu(p) == p = "pu"
Cond == Bin("<", I(1), I(2))       \* nothing is run: accepted programs are loaded only

Purities == {"fn", "pu"}
Forms == {"iife", "named", "named-uncalled", "var", "method", "argument", "in-list"}
Sigs == {"void", "val"}
LoopCtxs == {"loop", "loop-nocond", "loop-bare", "inner-loop", "after-inner-loop", "if-in-loop", "else-in-loop",
             "case-arm-in-loop", "case-else-in-loop", "block-in-loop", "closure-in-loop"}
Words == {"break", "continue"}
Positions == {"direct", "in-if", "in-else", "in-case-arm", "in-case-else"}
Variants == {"own-loop", "no-loop"}
CalledForms == Forms \ {"named-uncalled", "in-list"}
SingleStmtForms == {"named-uncalled", "argument", "in-list"}     \* one statement that does not start with `(`

W(w) == IF w = "break" THEN Break ELSE Cont
CEVal == Var1("CE", "P", I(1))
\* the word at a position of the function body
AtPos(pos, w) ==
  CASE pos = "direct"       -> <<W(w)>>
    [] pos = "in-if"        -> <<Ex(If1(Bo(TRUE), <<W(w)>>))>>
    [] pos = "in-else"      -> <<Ex(If2(Bo(FALSE), <<>>, <<W(w)>>))>>
    [] pos = "in-case-arm"  -> <<Ex(CaseE(CEVal, <<CArmB("P", 32, <<W(w)>>)>>, <<>>))>>
    [] pos = "in-case-else" -> <<Ex(CaseE(CEVal, <<CArm("Q", <<>>)>>, <<W(w)>>))>>

SigParams(sig) == IF sig = "void" THEN <<>> ELSE <<TInt>>
SigRet(sig) == IF sig = "void" THEN TVoid ELSE TInt
SigArgs(sig) == IF sig = "void" THEN <<>> ELSE <<I(1)>>
FnTy(pure, sig) == TFnP(IsPu(pure), SigParams(sig), SigRet(sig))
\* the function literal under test
Closure(pure, sig, inner) ==
  IF sig = "void" THEN MkFn(IsPu(pure), <<>>, TVoid, inner)
  ELSE MkFn(IsPu(pure), <<P(30, TInt)>>, TInt, inner \o <<Ex(Bin("+", V(30), I(1)))>>)

\* how the literal is written and used
UseOf(form, sig, clo) ==
  CASE form = "iife"           -> <<Ex(Call(clo, SigArgs(sig)))>>
    [] form = "named"          -> <<DefC(31, TNone, clo), Ex(Call(V(31), SigArgs(sig)))>>
    [] form = "named-uncalled" -> <<DefC(31, TNone, clo)>>
    [] form = "var"            -> <<DefM(31, TNone, clo), Ex(Call(V(31), SigArgs(sig)))>>
    [] form = "method"         -> <<DefC(36, TNone, BlobL("CM", <<FI("m", clo)>>)), Ex(Call(Fld(V(36), "m"), SigArgs(sig)))>>
    [] form = "argument"       -> <<Ex(Call(V(951), <<clo>>))>>
    [] form = "in-list"        -> <<DefC(37, TNone, Lst(<<clo>>))>>

\* the loop-carrying context around the statements b; ip = purity of the intermediate closure of "closure-in-loop".
\* Every do-block loop ends with a `break` of its own: the loop context must still be there after the function.
InLoopCtx(lctx, ip, b) ==
  CASE lctx = "loop"              -> <<LoopF("do", Cond, b \o <<Break>>)>>
    [] lctx = "loop-nocond"       -> <<LoopF("nocond", Bo(TRUE), b \o <<Break>>)>>
    [] lctx = "loop-bare"         -> <<LoopF("bare", Cond, b)>>
    [] lctx = "inner-loop"        -> <<LoopF("do", Cond, <<LoopF("do", Cond, b \o <<Break>>), Break>>)>>
    [] lctx = "after-inner-loop"  -> <<LoopF("do", Cond, <<LoopF("do", Cond, <<Break>>)>> \o b \o <<Break>>)>>
    [] lctx = "if-in-loop"        -> <<LoopF("do", Cond, <<Ex(If1(Bo(TRUE), b)), Break>>)>>
    [] lctx = "else-in-loop"      -> <<LoopF("do", Cond, <<Ex(If2(Bo(FALSE), <<>>, b)), Break>>)>>
    [] lctx = "case-arm-in-loop"  -> <<DefC(33, TNone, CEVal),
                                       LoopF("do", Cond, <<Ex(CaseE(V(33), <<CArmB("P", 34, b)>>, <<>>)), Break>>)>>
    [] lctx = "case-else-in-loop" -> <<DefC(33, TNone, CEVal),
                                       LoopF("do", Cond, <<Ex(CaseE(V(33), <<CArm("Q", <<>>)>>, b)), Break>>)>>
    [] lctx = "block-in-loop"     -> <<LoopF("do", Cond, <<Block(b), Break>>)>>
    [] lctx = "closure-in-loop"   -> <<LoopF("do", Cond, <<Ex(Call(MkFn(IsPu(ip), <<>>, TVoid, b), <<>>)), Break>>)>>

\* key = <<"flav", encl, pure, form, sig, lctx, word, pos, variant>>
\*   encl = purity of the function that owns the outer loop; pure = purity of the function literal under test.
\* Combinations the language itself rules out for reasons other than loop control are left out: a pure function
\* cannot call an impure one nor declare a mutable variable.
FlavKeyOk(encl, pure, form, sig, lctx) ==
  /\ (encl = "pu" /\ pure = "fn") => (form \notin CalledForms /\ lctx # "closure-in-loop")
  /\ (form = "var") => (encl = "fn" /\ ~(lctx = "closure-in-loop" /\ pure = "pu"))
  /\ (lctx = "loop-bare") => form \in SingleStmtForms
FlavKeys ==
  {key \in {"flav"} \X Purities \X Purities \X Forms \X Sigs \X LoopCtxs \X Words \X Positions \X Variants :
     FlavKeyOk(key[2], key[3], key[4], key[5], key[6])}

FlavProgram(key) ==
  LET encl == key[2]  pure == key[3]  form == key[4]  sig == key[5]  lctx == key[6]  w == key[7]  pos == key[8]
      inner == IF key[9] = "own-loop" THEN <<LoopF("do", Cond, AtPos(pos, w))>> ELSE AtPos(pos, w)
      clo == Closure(pure, sig, inner)
      decls == <<EnumD("CE", <<VD1("P", TInt), VD0("Q")>>),
                 BlobD("CM", <<FD("m", FnTy(pure, sig))>>),
                 DefN(951, "const", TNone,
                      MkFn(IsPu(pure), <<P(952, FnTy(pure, sig))>>, TVoid, <<Ex(Call(V(952), SigArgs(sig)))>>), "callit")>>
      helper == DefN(1001, "const", TNone,
                     MkFn(IsPu(encl), <<>>, TVoid, InLoopCtx(lctx, pure, UseOf(form, sig, clo))), "helper")
      start == DefN(1000, "const", TNone, Fn(<<>>, TVoid, <<Ex(Call(V(1001), <<>>))>>), "start")
  IN decls \o <<helper, start>>

FlavId(key) == [kind |-> "loop-" \o key[7] \o "-in-" \o key[3] \o "-" \o key[4], shape |-> "in-" \o key[2] \o "-function",
                sub |-> key[5] \o "/" \o key[8] \o "/" \o key[9], ctx |-> key[6]]

(* ================================================================ family B: arm multisets *)
VName == <<"Va", "Vb", "Vc", "Vd">>
VTy == <<TInt, TVoid, TBool, TVoid>>
VHasPay(i) == i \in {1, 3}                          \* Va int, Vb, Vc bool, Vd
Unknown == "Zz"
EnumOf(n) == EnumD("E", [j \in 1..n |-> IF VHasPay(j) THEN VD1(VName[j], VTy[j]) ELSE VD0(VName[j])])
VariantSet(n) == {VName[j] : j \in 1..n}
EVal == Var1("E", "Va", I(1))

\* multisets of at most n+1 arms over the symbols 1..n (variants) and n+1 (the unknown name): non-decreasing sequences
AscSeqs(n) == UNION {{s \in [1..l -> 1..(n + 1)] : \A i \in 1..(l - 1) : s[i] <= s[i + 1]} : l \in 0..(n + 1)}
Reverse(s) == [i \in 1..Len(s) |-> s[Len(s) + 1 - i]]
Pick(s, keep(_)) == LET RECURSIVE go(_)
                        go(i) == IF i > Len(s) THEN <<>> ELSE (IF keep(i) THEN <<s[i]>> ELSE <<>>) \o go(i + 1)
                    IN go(1)
\* repeats as far apart as possible: one arm of every listed name, then a second round, ...
RECURSIVE Spread(_)
Spread(s) == IF s = <<>> THEN <<>>
             ELSE Pick(s, LAMBDA i : i = 1 \/ s[i] # s[i - 1]) \o Spread(Pick(s, LAMBDA i : i > 1 /\ s[i] = s[i - 1]))
\* written orders of a multiset; the unknown name becomes symbol 0
Zero(n, s) == [i \in 1..Len(s) |-> IF s[i] = n + 1 THEN 0 ELSE s[i]]
ArmSeqs(n) == UNION {{Zero(n, s), Zero(n, Reverse(s)), Zero(n, Spread(s))} : s \in AscSeqs(n)}

Binds == {"bind", "nobind"}
Elses == {"else", "noelse"}
CaseForms == {"stmt", "expr"}
Scruts == {"literal", "variable", "untyped-param", "typed-param"}
CanBind(sym) == sym = 0 \/ VHasPay(sym)
\* key = <<"arms", n, seq, bind, els, form, scrut>>; "bind" only where some arm can bind
ArmKeys ==
  UNION {{<<"arms", n, seq, bd, el, fm, sc>> : bd \in {x \in Binds : x = "nobind" \/ \E i \in 1..Len(seq) : CanBind(seq[i])},
                                              el \in Elses, fm \in CaseForms, sc \in Scruts}
         : <<n, seq>> \in UNION {{<<m, q>> : q \in ArmSeqs(m)} : m \in 1..MaxVariants}}

ArmName(sym) == IF sym = 0 THEN Unknown ELSE VName[sym]
ArmOf(sym, j, bind, form) ==
  LET binds == bind = "bind" /\ CanBind(sym)
      \* a binding arm uses what it binds, in a definition (a statement without a value: the arms' values must agree)
      body == (IF binds THEN <<DefC(60 + j, TNone, V(40 + j))>> ELSE <<>>) \o (IF form = "expr" THEN <<Ex(I(j))>> ELSE <<>>)
  IN IF binds THEN CArmB(ArmName(sym), 40 + j, body) ELSE CArm(ArmName(sym), body)
CaseNode(key, scrutinee) ==
  LET seq == key[3]
      arms == [j \in 1..Len(seq) |-> ArmOf(seq[j], j, key[4], key[6])]
  IN IF key[5] = "else" THEN CaseE(scrutinee, arms, IF key[6] = "expr" THEN <<Ex(I(0))>> ELSE <<>>)
     ELSE CaseT(scrutinee, arms)
ScrutineeOf(sc) == CASE sc = "literal" -> EVal [] sc = "variable" -> V(46) [] OTHER -> V(48)
ArmCase(key) == CaseNode(key, ScrutineeOf(key[7]))
ArmProgram(key) ==
  LET c == ArmCase(key)
      use == IF key[6] = "expr" THEN DefC(45, TNone, c) ELSE Ex(c)
      sc == key[7]
      body == CASE sc = "literal"  -> <<use>>
                [] sc = "variable" -> <<DefM(46, TNone, EVal), use>>
                [] sc = "untyped-param" -> <<DefC(47, TNone, Fn(<<P(48, TNone)>>, TVoid, <<use>>)), Ex(Call(V(47), <<EVal>>))>>
                [] sc = "typed-param"   -> <<DefC(47, TNone, Fn(<<P(48, TName("E"))>>, TVoid, <<use>>)), Ex(Call(V(47), <<EVal>>))>>
  IN <<EnumOf(key[2]), DefN(1000, "const", TNone, Fn(<<>>, TVoid, body), "start")>>

\* class of an arm list, for ids and signatures
ArmClass(n, seq) ==
  LET listed == {seq[i] : i \in 1..Len(seq)}
      unk == 0 \in listed
      mis == (1..n) \ listed # {}
      rep == Cardinality(listed) < Len(seq)
      parts == (IF unk THEN <<"unknown">> ELSE <<>>) \o (IF mis THEN <<"missing">> ELSE <<>>) \o (IF rep THEN <<"repeat">> ELSE <<>>)
  IN CASE Len(parts) = 0 -> "exact"
       [] Len(parts) = 1 -> parts[1]
       [] Len(parts) = 2 -> parts[1] \o "+" \o parts[2]
       [] OTHER -> parts[1] \o "+" \o parts[2] \o "+" \o parts[3]
RECURSIVE SeqText(_, _)
SeqText(seq, j) == IF j > Len(seq) THEN "" ELSE (IF seq[j] = 0 THEN "z" ELSE Digit(seq[j])) \o SeqText(seq, j + 1)
ArmId(key) == [kind |-> "case-arms-" \o ArmClass(key[2], key[3]), shape |-> "n" \o Digit(key[2]),
               sub |-> "a" \o SeqText(key[3], 1) \o "/" \o key[4], ctx |-> key[7] \o "/" \o key[5] \o "/" \o key[6]]

(* ================================================================ cases and the expectation *)
IsFlavKey(key) == key[1] = "flav" /\ key \in FlavKeys
IsArmKey(key) == key[1] = "arms" /\ key \in ArmKeys
Verdict(ok) == IF ok THEN "accept" ELSE "reject"
FamCase(key) ==
  IF key[1] = "flav"
  THEN LET p == FlavProgram(key)
       IN [key |-> key, id |-> FlavId(key), clause |-> "loop-control", expect |-> Verdict(LoopControlOk(p)),
           prog |-> [main |-> p]]
  ELSE [key |-> key, id |-> ArmId(key), clause |-> "case-totality",
        expect |-> Verdict(CaseOk(ArmCase(key), VariantSet(key[2]))), prog |-> [main |-> ArmProgram(key)]]

\* what the property demands of an observation [class, loads, stage]
Holds(expect, obs) == IF expect = "accept" THEN obs.class = "ok" /\ obs.loads = "yes"
                      ELSE obs.class = "err" /\ obs.stage # "syntax"
WhyNot(expect, obs) ==
  CASE expect = "reject" /\ obs.class = "ok"    -> "invalid-accepted"
    [] expect = "reject" /\ obs.class = "panic" -> "invalid-panic"
    [] expect = "reject" /\ obs.class = "err" /\ obs.stage = "syntax" -> "invalid-stopped-by-parser"
    [] expect = "accept" /\ obs.class = "panic" -> "valid-panic"
    [] expect = "accept" /\ obs.class = "err"   -> "valid-rejected"
    [] expect = "accept" /\ obs.loads # "yes"   -> "valid-does-not-load"
    [] OTHER -> "none"
=============================================================================
