------------------------------ MODULE MC_Annot ------------------------------
(* C08: the erasure universe over SyltGen's programs, and validation of the recorded compile results. *)
EXTENDS SyltGen, SyltAnnot, Json, IOUtils

VARIABLES k, pc
vars == <<k, pc>>

Mode == IOEnv.MODE      \* "emit": print one record per program;  "validate": check recorded results

\* ---- emit: the programs (distinct expressions; one harness per expression is enough for a compile-only property,
\*      but every harness shape is used across the universe)
HarnessFor(o, i) == HarnessNames(ResultType(o), UsesLocals(o) \/ UsesLocals(i))
Cases ==
  UNION { UNION { {[o |-> p[1], pos |-> p[2], i |-> p[3], h |-> hn, e |-> e] : hn \in HarnessFor(p[1], p[3])}
                  : e \in Nest(p[1], p[2], p[3]) } : p \in Pairs }
  \cup UNION { UNION { {[o |-> n, pos |-> 0, i |-> "-", h |-> hn, e |-> e] : hn \in HarnessFor(n, n)}
                  : e \in Instances(n, 100, 0) } : n \in TemplateNames }

NPrelude == NumSites(Prelude)

Rec == IF Mode = "validate" THEN ndJsonDeserialize(IOEnv.TRACE) ELSE <<>>

Init == /\ pc = "start"
        /\ IF Mode = "emit" THEN k \in Cases ELSE k \in 1..Len(Rec)

Emit == /\ Mode = "emit" /\ pc = "start" /\ pc' = "done" /\ k' = k
        /\ LET tops == Harness(k.h, k.e, ResultType(k.o)) IN
           PrintT(<<"REPLAY", ToJson([id |-> [o |-> k.o, pos |-> k.pos, i |-> k.i, h |-> k.h],
                                      tops |-> tops, nsites |-> NumSites(tops), nprelude |-> NPrelude])>>)

\* ---- validate: record = [nsites, nprelude, results: <<[mask, class, digest]>>]
Results == Rec[k].results
MaskSet == {Results[j].mask : j \in 1..Len(Results)}
Complete == Masks(Rec[k].nsites, Rec[k].nprelude) \subseteq MaskSet
AllAccepted == \A j \in 1..Len(Results) : Results[j].class = "ok"
SameBytes == \A j \in 1..Len(Results) : Results[j].digest = Results[1].digest

Validate == /\ Mode = "validate" /\ pc = "start" /\ pc' = "done" /\ k' = k
            /\ Assert(Complete, <<"record does not cover the spec's mask universe", k>>)
            /\ IF AllAccepted /\ SameBytes THEN TRUE
               ELSE PrintT(<<"REJECT", ToJson([rec |-> k,
                     why |-> IF ~AllAccepted THEN "variant-rejected" ELSE "bytes-differ",
                     bad |-> {j \in 1..Len(Results) : Results[j].class # "ok" \/ Results[j].digest # Results[1].digest}])>>)

Next == Emit \/ Validate
Spec == Init /\ [][Next]_vars

\* spec-level sanity: the mask universe is well-formed
MasksOk == Mode = "validate" =>
    \A m \in Masks(Rec[k].nsites, Rec[k].nprelude) : Len(m) = Rec[k].nsites
=============================================================================
