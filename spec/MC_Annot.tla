------------------------------ MODULE MC_Annot ------------------------------
(* C08: emission of SyltGen's pairwise-nesting universe with the site counts of SyltAnnot.  The recorded compile
   results are validated by MC_AnnotVal; the annotation-type families are emitted by MC_AnnotFam. *)
EXTENDS SyltGen, SyltAnnot, Json, IOUtils, Randomization

VARIABLES k, pc
vars == <<k, pc>>

\* ---- the programs (distinct expressions; one harness per expression is enough for a compile-only property,
\*      but every harness shape is used across the universe).
\* A state is a KEY - (outer template, hole, inner template, harness) or (template, harness) -, a small tuple; the
\* expressions of a key (all default fillings of the other holes) are built and printed in the action, by TLC's workers.
HarnessFor(o, i) == HarnessNames(ResultType(o), UsesLocals(o) \/ UsesLocals(i))
Keys ==
  UNION { {<<"pair", p[1], p[2], p[3], hn>> : hn \in HarnessFor(p[1], p[3])} : p \in Pairs }
  \cup UNION { {<<"single", n, 0, "-", hn>> : hn \in HarnessFor(n, n)} : n \in TemplateNames }
Exprs(key) == IF key[1] = "pair" THEN Nest(key[2], key[3], key[4]) ELSE Instances(key[2], 100, 0)

NPrelude == NumSites(Prelude)

\* quick tier: SAMPLE > 0 emits the programs of a random subset of that many keys (TLC's -seed makes it reproducible)
Sample == IF "SAMPLE" \in DOMAIN IOEnv THEN atoi(IOEnv.SAMPLE) ELSE 0
EmitKeys == IF Sample > 0 /\ Sample < Cardinality(Keys) THEN RandomSubset(Sample, Keys) ELSE Keys

Init == pc = "start" /\ k \in EmitKeys

Emit == /\ pc = "start" /\ pc' = "done" /\ k' = k
        /\ \A e \in Exprs(k) :
             Bind(Harness(k[5], e, ResultType(k[2])), LAMBDA tops :
               PrintT(<<"REPLAY", ToJson([id |-> [o |-> k[2], pos |-> k[3], i |-> k[4], h |-> k[5]],
                                          tops |-> tops, nsites |-> NumSites(tops), nprelude |-> NPrelude])>>))

Next == Emit
Spec == Init /\ [][Next]_vars

TypeOk == pc \in {"start", "done"}
=============================================================================
