---------------------------- MODULE SyltMismatch ----------------------------
(***************************************************************************)
(* C03 - type mismatches are rejected at compile time.                     *)
(*                                                                         *)
(* The universe: every MISMATCH of the table MM (a planted ill-typed       *)
(* expression or statement sequence, together with the well-typed base it  *)
(* replaces and the typing rule it violates) placed through every chain    *)
(* of CONTEXTS of length <= Depth whose sorts and types fit.  A context    *)
(* wraps a payload (an expression of a type, sort "E", or a statement      *)
(* sequence, sort "S") into a larger payload; the outermost context of a   *)
(* chain is a TOP, which yields a complete program (top-level nodes        *)
(* following the common Prelude, including start).                         *)
(*                                                                         *)
(* Expectation (Expect): the base program is accepted, the planted program *)
(* is rejected with >= 1 error and zero bytes of Lua.                      *)
(***************************************************************************)
EXTENDS SyltAst, FiniteSets, TLC

(* global binder ids *)
GStart == 1000
GG == 1001
GInc == 1002
GAdd2 == 1003
GVd == 1004
GIdI == 1005
GIdS == 1006
GIdB == 1007
GIdL == 1008
GApply == 1009
GMkP == 1010
GRes == 1011
GF == 1012

TListI == TList(TInt)
Types == {"int", "str", "bool", "list"}
Ty(t) == CASE t = "int" -> TInt [] t = "str" -> TStr [] t = "bool" -> TBool [] t = "list" -> TListI
\* a well-typed closed expression of type t (no side effects)
Dflt(t) == CASE t = "int" -> I(7) [] t = "str" -> St("d") [] t = "bool" -> Bo(TRUE) [] t = "list" -> Lst(<<I(1), I(2)>>)
IdOf(t) == CASE t = "int" -> GIdI [] t = "str" -> GIdS [] t = "bool" -> GIdB [] t = "list" -> GIdL
FieldBlob(t) == CASE t = "int" -> "FI" [] t = "str" -> "FS" [] t = "bool" -> "FB" [] t = "list" -> "FL"

IdFn(t, b) == Fn(<<P(b, Ty(t))>>, Ty(t), <<Ex(V(b))>>)

Prelude == <<
  EnumD("E", <<VD1("X", TInt), VD0("Y")>>),
  BlobD("P", <<FD("n", TInt), FD("add", TFn(<<TInt>>, TInt))>>),
  BlobD("M", <<FD("n", TInt), FD("run", TFn(<<>>, TInt))>>),
  BlobD("FI", <<FD("v", TInt)>>),
  BlobD("FS", <<FD("v", TStr)>>),
  BlobD("FB", <<FD("v", TBool)>>),
  BlobD("FL", <<FD("v", TListI)>>),
  DefN(GG, "mut", TInt, I(10), "g"),
  \* inc :: fn a: int -> int do a + 1 end
  DefN(GInc, "const", TNone, Fn(<<P(1, TInt)>>, TInt, <<Ex(Bin("+", V(1), I(1)))>>), "inc"),
  DefN(GAdd2, "const", TNone, Fn(<<P(2, TInt), P(3, TInt)>>, TInt, <<Ex(Bin("+", V(2), V(3)))>>), "add2"),
  \* vd :: fn a: int do g = a end            (a void function)
  DefN(GVd, "const", TNone, Fn(<<P(4, TInt)>>, TVoid, <<Asg("=", V(GG), V(4))>>), "vd"),
  DefN(GIdI, "const", TNone, IdFn("int", 5), "idi"),
  DefN(GIdS, "const", TNone, IdFn("str", 6), "ids"),
  DefN(GIdB, "const", TNone, IdFn("bool", 7), "idb"),
  DefN(GIdL, "const", TNone, IdFn("list", 8), "idl"),
  \* apply :: fn f: fn int -> int, n: int -> int do f(n) end
  DefN(GApply, "const", TNone,
       Fn(<<P(9, TFn(<<TInt>>, TInt)), P(10, TInt)>>, TInt, <<Ex(Call(V(9), <<V(10)>>))>>), "apply"),
  \* mkp :: fn n: int -> P do P { n: n, add: fn d: int -> int do self.n + d end } end
  DefN(GMkP, "const", TNone,
       Fn(<<P(11, TInt)>>, TName("P"),
          <<Ex(BlobL("P", <<FI("n", V(11)),
                            FI("add", Fn(<<P(12, TInt)>>, TInt, <<Ex(Bin("+", Fld(Self, "n"), V(12)))>>))>>))>>), "mkp")
>>

---------------------------------------------------------------------------
(* The typing rules a mismatch can violate (the property's list) *)
Rules == {
  "arith-operands",    \* + on two ints, two floats, two strs (or equal-length tuples); - * on numbers
  "eq-equal-types",    \* == != need operands of one and the same type
  "cmp-comparable",    \* < > <= >= need two numbers or two strs
  "logic-bool",        \* and / or / not need bool operands
  "neg-number",        \* unary - needs an int or a float
  "call-arity",        \* a call passes exactly as many arguments as the function has parameters
  "call-argtype",      \* every argument has the parameter's (declared) type
  "callee-function",   \* only functions can be called
  "decl-type",         \* the initialiser of v: T = e / v: T : e has type T
  "ret-type",          \* the value a function returns (tail expression or ret) has the declared return type
  "field-type",        \* a blob literal initialises a field with a value of the field's declared type
  "assign-type",       \* = and += -= *= keep the variable's / field's type
  "cond-bool",         \* conditions of if, elif, loop are bool
  "list-homogeneous",  \* all elements of a list literal have one type
  "void-not-storable"  \* a void call result cannot be put in a variable or passed as an argument
}

EM(kind, ty, planted, base, rule) ==
  [kind |-> kind, sort |-> "E", ty |-> ty, planted |-> planted, base |-> base, rule |-> rule, isdef |-> FALSE]
SM(kind, planted, base, rule, isdef) ==
  [kind |-> kind, sort |-> "S", ty |-> "-", planted |-> planted, base |-> base, rule |-> rule, isdef |-> isdef]

\* call of a function literal that takes the function f: fn int -> int and uses it as `body`
WithClosureParam(body) == Call(Fn(<<P(301, TFn(<<TInt>>, TInt))>>, TInt, <<Ex(body)>>), <<V(GInc)>>)
\* call of a function literal with one int parameter
Lam1(arg) == Call(Fn(<<P(302, TInt)>>, TInt, <<Ex(Bin("+", V(302), I(1)))>>), <<arg>>)
Thunk(ret, body) == Call(Fn(<<>>, ret, body), <<>>)
SetG0 == <<Asg("=", V(GG), I(2))>>
LocalFn == DefC(310, TNone, Fn(<<P(311, TInt)>>, TInt, <<Ex(Bin("*", V(311), I(2)))>>))

\* the mismatch table: a sequence, so that records of different shapes are never compared
MM == <<
  EM("add-int-str", "int", Bin("+", I(1), St("a")), Bin("+", I(1), I(2)), "arith-operands"),
  EM("add-str-int", "str", Bin("+", St("a"), I(1)), Bin("+", St("a"), St("b")), "arith-operands"),
  EM("sub-int-str", "int", Bin("-", I(3), St("a")), Bin("-", I(3), I(2)), "arith-operands"),
  EM("mul-str-int", "int", Bin("*", St("a"), I(2)), Bin("*", I(3), I(2)), "arith-operands"),
  EM("eq-int-float", "bool", Bin("==", I(1), Fl(2, 1)), Bin("==", I(1), I(1)), "eq-equal-types"),
  EM("eq-int-str", "bool", Bin("==", I(1), St("a")), Bin("==", I(1), I(1)), "eq-equal-types"),
  EM("ne-str-bool", "bool", Bin("!=", St("a"), Bo(TRUE)), Bin("!=", St("a"), St("b")), "eq-equal-types"),
  EM("lt-int-str", "bool", Bin("<", I(1), St("a")), Bin("<", I(1), I(2)), "cmp-comparable"),
  EM("ge-bool-int", "bool", Bin(">=", Bo(TRUE), I(1)), Bin(">=", I(2), I(1)), "cmp-comparable"),
  EM("not-int", "bool", Un("not", I(1)), Un("not", Bo(TRUE)), "logic-bool"),
  EM("and-int-bool", "bool", Bin("and", I(1), Bo(TRUE)), Bin("and", Bo(TRUE), Bo(TRUE)), "logic-bool"),
  EM("or-bool-int", "bool", Bin("or", Bo(TRUE), I(1)), Bin("or", Bo(TRUE), Bo(FALSE)), "logic-bool"),
  EM("neg-str", "str", Un("-", St("s")), St("s"), "neg-number"),
  EM("neg-bool", "bool", Un("-", Bo(TRUE)), Bo(TRUE), "neg-number"),
  EM("neg-list", "list", Un("-", Lst(<<I(1)>>)), Lst(<<I(1)>>), "neg-number"),
  EM("arity-plus-fn", "int", Call(V(GInc), <<I(1), I(2)>>), Call(V(GInc), <<I(1)>>), "call-arity"),
  EM("arity-minus-fn", "int", Call(V(GAdd2), <<I(1)>>), Call(V(GAdd2), <<I(1), I(2)>>), "call-arity"),
  EM("arity-plus-closure-param", "int", WithClosureParam(Call(V(301), <<I(1), I(2)>>)),
     WithClosureParam(Call(V(301), <<I(1)>>)), "call-arity"),
  EM("arity-minus-closure-param", "int", WithClosureParam(Call(V(301), <<>>)),
     WithClosureParam(Call(V(301), <<I(1)>>)), "call-arity"),
  EM("argtype-fn", "int", Call(V(GInc), <<St("a")>>), Call(V(GInc), <<I(1)>>), "call-argtype"),
  EM("argtype-fn-second", "int", Call(V(GAdd2), <<I(1), Bo(TRUE)>>), Call(V(GAdd2), <<I(1), I(2)>>), "call-argtype"),
  EM("argtype-method", "int", Call(Fld(Call(V(GMkP), <<I(1)>>), "add"), <<St("a")>>),
     Call(Fld(Call(V(GMkP), <<I(1)>>), "add"), <<I(2)>>), "call-argtype"),
  EM("argtype-closure-param", "int", WithClosureParam(Call(V(301), <<St("a")>>)),
     WithClosureParam(Call(V(301), <<I(1)>>)), "call-argtype"),
  EM("argtype-lambda", "int", Lam1(St("s")), Lam1(I(1)), "call-argtype"),
  EM("argtype-fnvalue", "int", Call(V(GApply), <<V(GIdS), I(1)>>), Call(V(GApply), <<V(GInc), I(1)>>), "call-argtype"),
  EM("ret-implicit", "int", Thunk(TInt, <<Ex(St("s"))>>), Thunk(TInt, <<Ex(I(1))>>), "ret-type"),
  EM("ret-explicit", "int", Thunk(TInt, <<Ret(St("s"))>>), Thunk(TInt, <<Ret(I(1))>>), "ret-type"),
  EM("ret-branch", "int", Thunk(TInt, <<Ex(If1(Bo(TRUE), <<Ret(St("s"))>>)), Ex(I(2))>>),
     Thunk(TInt, <<Ex(If1(Bo(TRUE), <<Ret(I(1))>>)), Ex(I(2))>>), "ret-type"),
  EM("ret-elif-branch", "int", Thunk(TInt, <<Ex(If(<<ArmC(Bo(FALSE), SetG0), ArmC(Bo(TRUE), <<Ret(St("s"))>>)>>)), Ex(I(2))>>),
     Thunk(TInt, <<Ex(If(<<ArmC(Bo(FALSE), SetG0), ArmC(Bo(TRUE), <<Ret(I(1))>>)>>)), Ex(I(2))>>), "ret-type"),
  EM("ret-if-else", "int", Thunk(TInt, <<Ex(If2(Bo(TRUE), <<Ret(St("s"))>>, SetG0)), Ex(I(2))>>),
     Thunk(TInt, <<Ex(If2(Bo(TRUE), <<Ret(I(1))>>, SetG0)), Ex(I(2))>>), "ret-type"),
  EM("ret-else-branch", "int", Thunk(TInt, <<Ex(If2(Bo(TRUE), SetG0, <<Ret(St("s"))>>)), Ex(I(2))>>),
     Thunk(TInt, <<Ex(If2(Bo(TRUE), SetG0, <<Ret(I(1))>>)), Ex(I(2))>>), "ret-type"),
  EM("ret-loop", "int", Thunk(TInt, <<Loop(Bo(TRUE), <<Ret(St("s"))>>), Ex(I(2))>>),
     Thunk(TInt, <<Loop(Bo(TRUE), <<Ret(I(1))>>), Ex(I(2))>>), "ret-type"),
  EM("ret-case-arm", "int", Thunk(TInt, <<Ex(CaseE(Var0("E", "Y"), <<CArm("Y", <<Ret(St("s"))>>)>>, SetG0)), Ex(I(2))>>),
     Thunk(TInt, <<Ex(CaseE(Var0("E", "Y"), <<CArm("Y", <<Ret(I(1))>>)>>, SetG0)), Ex(I(2))>>), "ret-type"),
  EM("ret-block", "int", Thunk(TInt, <<Block(<<Ret(St("s"))>>), Ex(I(2))>>), Thunk(TInt, <<Block(<<Ret(I(1))>>), Ex(I(2))>>), "ret-type"),
  EM("field-init", "int", Fld(BlobL("FI", <<FI("v", St("s"))>>), "v"), Fld(BlobL("FI", <<FI("v", I(1))>>), "v"), "field-type"),
  EM("list-int-str", "list", Lst(<<I(1), St("a")>>), Lst(<<I(1), I(2)>>), "list-homogeneous"),
  EM("list-int-float", "list", Lst(<<I(1), Fl(4, 1)>>), Lst(<<I(1), I(2)>>), "list-homogeneous"),
  EM("call-int-literal", "int", Call(I(1), <<I(2)>>), Call(V(GInc), <<I(2)>>), "callee-function"),
  EM("call-int-var", "int", Call(V(GG), <<>>), V(GG), "callee-function"),
  EM("ifexpr-cond-int", "int", If2(I(1), <<Ex(I(1))>>, <<Ex(I(2))>>), If2(Bo(TRUE), <<Ex(I(1))>>, <<Ex(I(2))>>), "cond-bool"),
  EM("void-arg-typed", "int", Call(V(GIdI), <<Call(V(GVd), <<I(1)>>)>>), Call(V(GIdI), <<Call(V(GInc), <<I(1)>>)>>), "void-not-storable"),
  \* ---- statement mismatches
  SM("def-mut-annot", <<DefM(320, TInt, St("s"))>>, <<DefM(320, TInt, I(1))>>, "decl-type", TRUE),
  SM("def-const-annot", <<DefC(320, TInt, Fl(2, 1))>>, <<DefC(320, TInt, I(1))>>, "decl-type", TRUE),
  SM("def-list-annot", <<DefC(320, TListI, Lst(<<St("a")>>))>>, <<DefC(320, TListI, Lst(<<I(1)>>))>>, "decl-type", TRUE),
  SM("assign-var", <<DefM(320, TInt, I(1)), Asg("=", V(320), St("s"))>>, <<DefM(320, TInt, I(1)), Asg("=", V(320), I(4))>>, "assign-type", FALSE),
  SM("assign-field", <<DefC(320, TName("FI"), BlobL("FI", <<FI("v", I(1))>>)), Asg("=", Fld(V(320), "v"), St("s"))>>,
     <<DefC(320, TName("FI"), BlobL("FI", <<FI("v", I(1))>>)), Asg("=", Fld(V(320), "v"), I(4))>>, "assign-type", FALSE),
  SM("assign-global", <<Asg("=", V(GG), St("s"))>>, <<Asg("=", V(GG), I(4))>>, "assign-type", FALSE),
  SM("pluseq-str", <<DefM(320, TInt, I(1)), Asg("+=", V(320), St("s"))>>, <<DefM(320, TInt, I(1)), Asg("+=", V(320), I(4))>>, "assign-type", FALSE),
  SM("minuseq-float", <<DefM(320, TInt, I(1)), Asg("-=", V(320), Fl(2, 1))>>, <<DefM(320, TInt, I(1)), Asg("-=", V(320), I(4))>>, "assign-type", FALSE),
  SM("muleq-field-str", <<DefC(320, TName("FI"), BlobL("FI", <<FI("v", I(1))>>)), Asg("*=", Fld(V(320), "v"), St("s"))>>,
     <<DefC(320, TName("FI"), BlobL("FI", <<FI("v", I(1))>>)), Asg("*=", Fld(V(320), "v"), I(4))>>, "assign-type", FALSE),
  SM("field-init-stmt", <<DefC(320, TName("FS"), BlobL("FS", <<FI("v", I(1))>>))>>, <<DefC(320, TName("FS"), BlobL("FS", <<FI("v", St("s"))>>))>>, "field-type", TRUE),
  SM("ret-value-void-fn", <<Ex(Thunk(TVoid, <<Ret(St("s"))>>))>>, <<Ex(Thunk(TVoid, <<Ret0>>))>>, "ret-type", FALSE),
  SM("ret-value-void-fn-branch", <<Ex(Thunk(TVoid, <<Ex(If1(Bo(TRUE), <<Ret(St("s"))>>))>>))>>,
     <<Ex(Thunk(TVoid, <<Ex(If1(Bo(TRUE), <<Ret0>>))>>))>>, "ret-type", FALSE),
  SM("if-cond-int", <<Ex(If1(I(1), <<Asg("=", V(GG), I(2))>>))>>, <<Ex(If1(Bo(TRUE), <<Asg("=", V(GG), I(2))>>))>>, "cond-bool", FALSE),
  SM("elif-cond-str", <<Ex(If(<<ArmC(Bo(FALSE), <<Asg("=", V(GG), I(2))>>), ArmC(St("a"), <<Asg("=", V(GG), I(3))>>)>>))>>,
     <<Ex(If(<<ArmC(Bo(FALSE), <<Asg("=", V(GG), I(2))>>), ArmC(Bo(TRUE), <<Asg("=", V(GG), I(3))>>)>>))>>, "cond-bool", FALSE),
  SM("loop-cond-int", <<Loop(I(1), <<Break>>)>>, <<Loop(Bo(TRUE), <<Break>>)>>, "cond-bool", FALSE),
  SM("void-store-mut", <<DefM(320, TNone, Call(V(GVd), <<I(1)>>))>>, <<DefM(320, TNone, Call(V(GInc), <<I(1)>>))>>, "void-not-storable", TRUE),
  SM("void-store-const", <<DefC(320, TNone, Call(Std("print"), <<I(1)>>))>>, <<DefC(320, TNone, Call(V(GInc), <<I(1)>>))>>, "void-not-storable", TRUE),
  SM("void-arg", <<Print(Call(V(GVd), <<I(1)>>))>>, <<Print(Call(V(GInc), <<I(1)>>))>>, "void-not-storable", FALSE),
  SM("call-int-local", <<DefM(320, TInt, I(1)), Ex(Call(V(320), <<>>))>>, <<DefM(320, TInt, I(1)), Ex(V(320))>>, "callee-function", FALSE),
  SM("arity-plus-local-fn", <<LocalFn, Ex(Call(V(310), <<I(1), I(2)>>))>>, <<LocalFn, Ex(Call(V(310), <<I(1)>>))>>, "call-arity", FALSE),
  SM("arity-minus-local-fn", <<LocalFn, Ex(Call(V(310), <<>>))>>, <<LocalFn, Ex(Call(V(310), <<I(1)>>))>>, "call-arity", FALSE),
  SM("argtype-local-fn", <<LocalFn, Ex(Call(V(310), <<St("s")>>))>>, <<LocalFn, Ex(Call(V(310), <<I(1)>>))>>, "call-argtype", FALSE)
>>
NM == Len(MM)
Kinds == {MM[i].kind : i \in 1..NM}

---------------------------------------------------------------------------
(* Contexts.  Apply(c, p, t, l): context c around payload p (an expression of type t, or a statement
   sequence) at chain position l (fresh binder ids 20*l + j).  Names of the property's list:
     global initialiser = global / globalinfer / gdef     function body statement = gfn / gfnuncalled / gvoidfn / start
     closure body = closure / voidclosure / iife / fntail if-branch = ifbranch / thenval     else-branch = elsebranch / elseval
     elif condition = elifcond / stmtelifcond             (if condition = ifcond / stmtifcond)   elif-branch = elifbranch
     case arm = casearm / armval    case else = caseelse / caseelseval    loop body = loopbody     loop condition = loopcond
     call argument = callarg / printarg   blob field initialiser = blobfield   list element = listelem
     tuple element = tupleelem (indexed) / tuplelit (stored)
     unused expression statement = unused    operand of a larger expression = operandL / operandR
     return expression = retexpr   body of a function passed as argument = fnargbody   blob method body = method
     (further: defannot / definfer = initialiser of a local variable, asgrhs = right-hand side of an assignment, block) *)
EE == {"operandL", "operandR", "callarg", "tupleelem", "retexpr", "fntail", "thenval", "elseval", "armval", "caseelseval"}
EEbool == {"ifcond", "elifcond"}
ES == {"unused", "defannot", "definfer", "listelem", "tuplelit", "blobfield", "asgrhs", "printarg"}
ESbool == {"loopcond", "stmtifcond", "stmtelifcond"}
SS == {"ifbranch", "elsebranch", "elifbranch", "casearm", "caseelse", "loopbody", "block", "closure", "voidclosure",
       "fnargbody", "method"}
SE == {"iife"}
TopS == {"start", "gfn", "gfnuncalled", "gvoidfn"}
TopE == {"global", "globalinfer"}
TopD == {"gdef"}
Inner == EE \cup EEbool \cup ES \cup ESbool \cup SS \cup SE
Tops == TopS \cup TopE \cup TopD
Contexts == Inner \cup Tops
CanonTops == {"start", "global"}     \* the tops used below chains of length 3

\* sorts: "E" expression, "S" statement sequence, "SD" a statement sequence that is one definition
Fits(c, s, t) ==
  \/ c \in EE \cup ES \cup TopE /\ s = "E"
  \/ c \in EEbool \cup ESbool /\ s = "E" /\ t = "bool"
  \/ c \in SS \cup SE \cup TopS /\ s \in {"S", "SD"}
  \/ c \in TopD /\ s = "SD"
OutSort(c) == IF c \in EE \cup EEbool \cup SE THEN "E" ELSE "S"
OutTy(c, t) == IF c \in {"operandL", "operandR"} /\ t = "list" THEN "bool"
               ELSE IF c \in EEbool \cup SE THEN "int"
               ELSE IF c \in EE THEN t ELSE "-"

Cond == Bin(">", V(GG), I(0))
Cond2 == Bin("<", V(GG), I(100))
StartDef(body) == DefN(GStart, "const", TNone, Fn(<<>>, TVoid, body), "start")
SetG == <<Asg("=", V(GG), I(2))>>

Apply(c, p, t, l) ==
  LET b == 20 * l
      NoVal == <<DefC(b + 2, TInt, I(0))>>      \* a branch without a value
      d == Dflt(t)
  IN
  CASE c = "operandL" -> (CASE t = "int" -> Bin("+", p, I(1)) [] t = "str" -> Bin("+", p, St("z"))
                            [] t = "bool" -> Bin("and", p, Bo(TRUE)) [] t = "list" -> Bin("==", p, Lst(<<I(1)>>)))
    [] c = "operandR" -> (CASE t = "int" -> Bin("*", I(2), p) [] t = "str" -> Bin("+", St("z"), p)
                            [] t = "bool" -> Bin("or", Bo(FALSE), p) [] t = "list" -> Bin("!=", Lst(<<I(1)>>), p))
    [] c = "callarg" -> Call(V(IdOf(t)), <<p>>)
    [] c = "tupleelem" -> Idx(Tup(<<I(0), p>>), 1)
    [] c = "retexpr" -> Thunk(Ty(t), <<Ret(p)>>)
    [] c = "fntail" -> Thunk(Ty(t), <<Ex(p)>>)
    [] c = "thenval" -> If2(Cond, <<Ex(p)>>, <<Ex(d)>>)
    [] c = "elseval" -> If2(Cond, <<Ex(d)>>, <<Ex(p)>>)
    [] c = "armval" -> CaseT(Var1("E", "X", I(1)), <<CArmB("X", b + 1, <<Ex(p)>>), CArm("Y", <<Ex(d)>>)>>)
    [] c = "caseelseval" -> CaseE(Var0("E", "Y"), <<CArmB("X", b + 1, <<Ex(d)>>)>>, <<Ex(p)>>)
    [] c = "ifcond" -> If2(p, <<Ex(I(1))>>, <<Ex(I(2))>>)
    [] c = "elifcond" -> If(<<ArmC(Cond, <<Ex(I(1))>>), ArmC(p, <<Ex(I(2))>>), ArmE(<<Ex(I(3))>>)>>)
    \* expression -> statements
    [] c = "unused" -> <<Ex(p)>>
    [] c = "defannot" -> <<DefM(b + 1, Ty(t), p)>>
    [] c = "definfer" -> <<DefC(b + 1, TNone, p)>>
    [] c = "listelem" -> <<DefC(b + 1, TList(Ty(t)), Lst(<<d, p>>))>>
    [] c = "tuplelit" -> <<DefC(b + 1, TNone, Tup(<<d, p>>))>>
    [] c = "blobfield" -> <<DefC(b + 1, TName(FieldBlob(t)), BlobL(FieldBlob(t), <<FI("v", p)>>))>>
    [] c = "asgrhs" -> <<DefM(b + 1, Ty(t), d), Asg("=", V(b + 1), p)>>
    [] c = "printarg" -> <<Print(p)>>
    [] c = "loopcond" -> <<Loop(p, <<Break>>)>>
    [] c = "stmtifcond" -> <<Ex(If1(p, SetG))>>
    [] c = "stmtelifcond" -> <<Ex(If(<<ArmC(Cond, SetG), ArmC(p, SetG)>>))>>
    \* statements -> statements
    [] c = "ifbranch" -> <<Ex(If1(Cond, p))>>
    [] c = "elsebranch" -> <<Ex(If2(Cond, NoVal, p))>>
    [] c = "elifbranch" -> <<Ex(If(<<ArmC(Cond, NoVal), ArmC(Cond2, p)>>))>>
    [] c = "casearm" -> <<Ex(CaseT(Var1("E", "X", I(1)), <<CArmB("X", b + 1, p), CArm("Y", NoVal)>>))>>
    [] c = "caseelse" -> <<Ex(CaseE(Var0("E", "Y"), <<CArmB("X", b + 1, NoVal)>>, p))>>
    [] c = "loopbody" -> <<DefM(b + 1, TInt, I(0)), Loop(Bin("<", V(b + 1), I(1)), p \o <<Asg("+=", V(b + 1), I(1))>>)>>
    [] c = "block" -> <<Block(p)>>
    [] c = "closure" -> <<DefC(b + 1, TNone, Fn(<<>>, TInt, p \o <<Ex(I(0))>>)), Ex(Call(V(b + 1), <<>>))>>
    [] c = "voidclosure" -> <<DefC(b + 1, TNone, Fn(<<>>, TVoid, p)), Ex(Call(V(b + 1), <<>>))>>
    [] c = "fnargbody" -> <<Ex(Call(V(GApply), <<Fn(<<P(b + 1, TInt)>>, TInt, p \o <<Ex(V(b + 1))>>), I(1)>>))>>
    [] c = "method" -> <<DefC(b + 1, TName("M"),
                              BlobL("M", <<FI("n", I(3)), FI("run", Fn(<<>>, TInt, p \o <<Ex(Fld(Self, "n"))>>))>>)),
                         Ex(Call(Fld(V(b + 1), "run"), <<>>))>>
    \* statements -> expression
    [] c = "iife" -> Thunk(TInt, p \o <<Ex(I(0))>>)
    \* tops: payload -> the top-level nodes that follow the Prelude
    [] c = "start" -> <<StartDef(p)>>
    [] c = "gfn" -> <<DefN(GF, "const", TNone, Fn(<<P(b + 1, TInt)>>, TInt, p \o <<Ex(V(b + 1))>>), "gf"),
                      StartDef(<<Print(Call(V(GF), <<I(1)>>))>>)>>
    [] c = "gfnuncalled" -> <<DefN(GF, "const", TNone, Fn(<<P(b + 1, TInt)>>, TInt, p \o <<Ex(V(b + 1))>>), "gf"),
                              StartDef(<<Print(I(0))>>)>>
    [] c = "gvoidfn" -> <<DefN(GF, "const", TNone, Fn(<<>>, TVoid, p), "gf"), StartDef(<<Ex(Call(V(GF), <<>>))>>)>>
    [] c = "global" -> <<DefN(GRes, "const", Ty(t), p, "res"), StartDef(<<Print(V(GRes))>>)>>
    [] c = "globalinfer" -> <<DefN(GRes, "mut", TNone, p, "res"), StartDef(<<Print(V(GRes))>>)>>
    [] c = "gdef" -> p \o <<StartDef(<<Print(I(0))>>)>>

\* Syntax fact, not a typing matter: `X v ->` may be followed by an optional `do`, so a do-block cannot be the
\* first statement of a case arm / case else (its `end` would close the arm).
Nestable(inner, outer) == ~(inner = "block" /\ outer \in {"casearm", "caseelse"})

\* all chains of exactly n contexts (innermost first) around a payload of sort s / type t that end in a top of `tops`
RECURSIVE Chains(_, _, _, _)
Chains(s, t, n, tops) ==
  IF n = 1 THEN {<<c>> : c \in {x \in tops : Fits(x, s, t)}}
  ELSE UNION {{<<c>> \o rest : rest \in {r \in Chains(OutSort(c), OutTy(c, t), n - 1, tops) : Nestable(c, r[1])}}
              : c \in {x \in Inner : Fits(x, s, t)}}

Sort0(m) == IF m.sort = "S" /\ m.isdef THEN "SD" ELSE m.sort
PathsFor(m, D) ==
  UNION {Chains(Sort0(m), m.ty, n, Tops) : n \in 1..(IF D < 2 THEN D ELSE 2)}
  \cup (IF D >= 3 THEN Chains(Sort0(m), m.ty, 3, CanonTops) ELSE {})

\* a case id is <<index into MM, chain>>
CaseIds(D) == UNION {{<<i, path>> : path \in PathsFor(MM[i], D)} : i \in 1..NM}

RECURSIVE Wrap(_, _, _, _)
Wrap(path, j, p, t) ==
  IF j = Len(path) THEN Apply(path[j], p, t, j)
  ELSE Wrap(path, j + 1, Apply(path[j], p, t, j), OutTy(path[j], t))

BaseProgram(id) == Wrap(id[2], 1, MM[id[1]].base, MM[id[1]].ty)
PlantedProgram(id) == Wrap(id[2], 1, MM[id[1]].planted, MM[id[1]].ty)

---------------------------------------------------------------------------
(* Definiteness.  Not a type system: for the mismatches whose planted form is an operator applied to
   literals, or a list of literals, the operator table below decides that the planted form violates the
   rule and the base does not.  For all others the table MM states the rule (Rule(kind)). *)
Num == {"int", "float"}
LitKinds == {"int", "float", "str", "bool"}
IsLit(e) == e.k \in LitKinds \/ (e.k = "list" /\ \A j \in 1..Len(e.es) : e.es[j].k \in LitKinds)
LitTy(e) == e.k
OpForm(e) == \/ e.k = "bin" /\ IsLit(e.l) /\ IsLit(e.r)
             \/ e.k = "un" /\ IsLit(e.a)
ListForm(e) == e.k = "list" /\ \A j \in 1..Len(e.es) : e.es[j].k \in LitKinds
OpOk(e) ==
  IF e.k = "bin" THEN
    LET a == LitTy(e.l)
        b == LitTy(e.r) IN
    CASE e.op = "+" -> a = b /\ a \in {"int", "float", "str"}
      [] e.op \in {"-", "*"} -> a = b /\ a \in Num
      [] e.op \in {"==", "!="} -> a = b
      [] e.op \in {"<", ">", "<=", ">="} -> (a \in Num /\ b \in Num) \/ (a = "str" /\ b = "str")
      [] e.op \in {"and", "or"} -> a = "bool" /\ b = "bool"
  ELSE IF e.op = "not" THEN LitTy(e.a) = "bool" ELSE LitTy(e.a) \in Num
ListOk(e) == \A j \in 1..Len(e.es) : e.es[j].k = e.es[1].k

Decidable(e) == OpForm(e) \/ ListForm(e)
FormOk(e) == IF OpForm(e) THEN OpOk(e) ELSE ListOk(e)
Definite(m) == (m.sort = "E" /\ Decidable(m.planted)) => ~FormOk(m.planted)
WellTypedBase(m) == (m.sort = "E" /\ Decidable(m.base)) => FormOk(m.base)
Rule(kind) == LET i == CHOOSE j \in 1..NM : MM[j].kind = kind IN MM[i].rule

(* What the compiler must do with a case *)
Expect == [base |-> "ok", planted |-> "err"]
\* the verdict on one recorded observation [base, planted, nerr, bytes]; "ok" = conforms
Verdict(r) ==
  IF r.base # Expect.base THEN "base-rejected"              \* generator problem, not a verdict on the property
  ELSE IF r.planted = "panic" THEN "panic"
  ELSE IF r.planted = "ok" THEN "planted-accepted"
  ELSE IF r.bytes # 0 THEN "bytes-written"
  ELSE IF r.nerr < 1 THEN "no-error-reported"
  ELSE "ok"

(* Spec-level sanity of the universe (checked by TLC as ASSUMEs of MC_Mismatch) *)
KindsDistinct == \A i, j \in 1..NM : MM[i].kind = MM[j].kind => i = j
RulesKnown == \A i \in 1..NM : MM[i].rule \in Rules
AllRulesUsed == \A r \in Rules : \E i \in 1..NM : MM[i].rule = r
TypesKnown == \A i \in 1..NM : (MM[i].sort = "E" /\ MM[i].ty \in Types) \/ (MM[i].sort = "S" /\ MM[i].ty = "-")
PlantedDiffers == \A i \in 1..NM : MM[i].planted # MM[i].base
AllDefinite == \A i \in 1..NM : Definite(MM[i]) /\ WellTypedBase(MM[i])
SomeDecidable == Cardinality({i \in 1..NM : MM[i].sort = "E" /\ Decidable(MM[i].planted)}) >= 12
\* every type-compatible (context, mismatch) cell is inhabited: the mismatch occurs with that context innermost
Compatible(c, m) == Fits(c, Sort0(m), m.ty)
CellsInhabited(ids) ==
  LET cells == {<<id[1], id[2][1]>> : id \in ids} IN
  \A i \in 1..NM : \A c \in Contexts : Compatible(c, MM[i]) => <<i, c>> \in cells
\* every context is compatible with some mismatch
ContextsUsed == \A c \in Contexts : \E i \in 1..NM : Compatible(c, MM[i])
\* in every case the planted program differs from the base program
ProgramsDiffer(ids) == \A id \in ids : PlantedProgram(id) # BaseProgram(id)
=============================================================================
