---------------------------- MODULE SyltMismatch ----------------------------
(***************************************************************************)
(* C03 - type mismatches are rejected at compile time.                     *)
(*                                                                         *)
(* The universe: every MISMATCH of the table MM (a planted ill-typed       *)
(* expression or statement sequence, together with the well-typed base it  *)
(* replaces and the typing rule it violates) placed through every chain    *)
(* of CONTEXTS of length <= Depth whose sorts and types fit.  A context    *)
(* wraps a payload (an expression of a type, sort "E", or a statement      *)
(* sequence, sort "S") into a larger payload; the outermost context of a   *)
(* chain is a TOP, which yields a complete program (top-level nodes        *)
(* following the common Prelude, including start).                         *)
(*                                                                         *)
(* Expectation (Expect): the base program is accepted, the planted program *)
(* is rejected with >= 1 error and zero bytes of Lua.                      *)
(***************************************************************************)
EXTENDS SyltAst, FiniteSets, TLC

(* global binder ids *)
GStart == 1000
GG == 1001
GInc == 1002
GAdd2 == 1003
GVd == 1004
GIdI == 1005
GIdS == 1006
GIdB == 1007
GIdL == 1008
GApply == 1009
GMkP == 1010
GRes == 1011
GF == 1012

TListI == TList(TInt)
Types == {"int", "str", "bool", "list"}
Ty(t) == CASE t = "int" -> TInt [] t = "str" -> TStr [] t = "bool" -> TBool [] t = "list" -> TListI
\* a well-typed closed expression of type t (no side effects)
Dflt(t) == CASE t = "int" -> I(7) [] t = "str" -> St("d") [] t = "bool" -> Bo(TRUE) [] t = "list" -> Lst(<<I(1), I(2)>>)
IdOf(t) == CASE t = "int" -> GIdI [] t = "str" -> GIdS [] t = "bool" -> GIdB [] t = "list" -> GIdL
FieldBlob(t) == CASE t = "int" -> "FI" [] t = "str" -> "FS" [] t = "bool" -> "FB" [] t = "list" -> "FL"

IdFn(t, b) == Fn(<<P(b, Ty(t))>>, Ty(t), <<Ex(V(b))>>)

Prelude == <<
  EnumD("E", <<VD1("X", TInt), VD0("Y")>>),
  BlobD("P", <<FD("n", TInt), FD("add", TFn(<<TInt>>, TInt))>>),
  BlobD("M", <<FD("n", TInt), FD("run", TFn(<<>>, TInt))>>),
  BlobD("FI", <<FD("v", TInt)>>),
  BlobD("FS", <<FD("v", TStr)>>),
  BlobD("FB", <<FD("v", TBool)>>),
  BlobD("FL", <<FD("v", TListI)>>),
  DefN(GG, "mut", TInt, I(10), "g"),
  \* inc :: fn a: int -> int do a + 1 end
  DefN(GInc, "const", TNone, Fn(<<P(1, TInt)>>, TInt, <<Ex(Bin("+", V(1), I(1)))>>), "inc"),
  DefN(GAdd2, "const", TNone, Fn(<<P(2, TInt), P(3, TInt)>>, TInt, <<Ex(Bin("+", V(2), V(3)))>>), "add2"),
  \* vd :: fn a: int do g = a end            (a void function)
  DefN(GVd, "const", TNone, Fn(<<P(4, TInt)>>, TVoid, <<Asg("=", V(GG), V(4))>>), "vd"),
  DefN(GIdI, "const", TNone, IdFn("int", 5), "idi"),
  DefN(GIdS, "const", TNone, IdFn("str", 6), "ids"),
  DefN(GIdB, "const", TNone, IdFn("bool", 7), "idb"),
  DefN(GIdL, "const", TNone, IdFn("list", 8), "idl"),
  \* apply :: fn f: fn int -> int, n: int -> int do f(n) end
  DefN(GApply, "const", TNone,
       Fn(<<P(9, TFn(<<TInt>>, TInt)), P(10, TInt)>>, TInt, <<Ex(Call(V(9), <<V(10)>>))>>), "apply"),
  \* mkp :: fn n: int -> P do P { n: n, add: fn d: int -> int do self.n + d end } end
  DefN(GMkP, "const", TNone,
       Fn(<<P(11, TInt)>>, TName("P"),
          <<Ex(BlobL("P", <<FI("n", V(11)),
                            FI("add", Fn(<<P(12, TInt)>>, TInt, <<Ex(Bin("+", Fld(Self, "n"), V(12)))>>))>>))>>), "mkp")
>>

---------------------------------------------------------------------------
(* The typing rules a mismatch can violate (the property's list) *)
Rules == {
  "arith-operands",    \* + on two ints, two floats, two strs (or equal-length tuples); - * on numbers
  "eq-equal-types",    \* == != need operands of one and the same type
  "cmp-comparable",    \* < > <= >= need two numbers or two strs
  "logic-bool",        \* and / or / not need bool operands
  "neg-number",        \* unary - needs an int or a float
  "call-arity",        \* a call passes exactly as many arguments as the function has parameters
  "call-argtype",      \* every argument has the parameter's (declared) type
  "callee-function",   \* only functions can be called
  "decl-type",         \* the initialiser of v: T = e / v: T : e has type T
  "ret-type",          \* the value a function returns (tail expression or ret) has the declared return type
  "field-type",        \* a blob literal initialises a field with a value of the field's declared type
  "assign-type",       \* = and += -= *= keep the variable's / field's type
  "cond-bool",         \* conditions of if, elif, loop are bool
  "list-homogeneous",  \* all elements of a list literal have one type
  "void-not-storable"  \* a void call result cannot be put in a variable or passed as an argument
}

EM(kind, ty, planted, base, rule) ==
  [kind |-> kind, sort |-> "E", ty |-> ty, planted |-> planted, base |-> base, rule |-> rule, isdef |-> FALSE]
SM(kind, planted, base, rule, isdef) ==
  [kind |-> kind, sort |-> "S", ty |-> "-", planted |-> planted, base |-> base, rule |-> rule, isdef |-> isdef]

\* call of a function literal that takes the function f: fn int -> int and uses it as `body`
WithClosureParam(body) == Call(Fn(<<P(301, TFn(<<TInt>>, TInt))>>, TInt, <<Ex(body)>>), <<V(GInc)>>)
\* call of a function literal with one int parameter
Lam1(arg) == Call(Fn(<<P(302, TInt)>>, TInt, <<Ex(Bin("+", V(302), I(1)))>>), <<arg>>)
Thunk(ret, body) == Call(Fn(<<>>, ret, body), <<>>)
LocalFn == DefC(310, TNone, Fn(<<P(311, TInt)>>, TInt, <<Ex(Bin("*", V(311), I(2)))>>))

\* the mismatch table: a sequence, so that records of different shapes are never compared
MM == <<
  EM("add-int-str", "int", Bin("+", I(1), St("a")), Bin("+", I(1), I(2)), "arith-operands"),
  EM("add-str-int", "str", Bin("+", St("a"), I(1)), Bin("+", St("a"), St("b")), "arith-operands"),
  EM("sub-int-str", "int", Bin("-", I(3), St("a")), Bin("-", I(3), I(2)), "arith-operands"),
  EM("mul-str-int", "int", Bin("*", St("a"), I(2)), Bin("*", I(3), I(2)), "arith-operands"),
  EM("eq-int-float", "bool", Bin("==", I(1), Fl(2, 1)), Bin("==", I(1), I(1)), "eq-equal-types"),
  EM("eq-int-str", "bool", Bin("==", I(1), St("a")), Bin("==", I(1), I(1)), "eq-equal-types"),
  EM("ne-str-bool", "bool", Bin("!=", St("a"), Bo(TRUE)), Bin("!=", St("a"), St("b")), "eq-equal-types"),
  EM("lt-int-str", "bool", Bin("<", I(1), St("a")), Bin("<", I(1), I(2)), "cmp-comparable"),
  EM("ge-bool-int", "bool", Bin(">=", Bo(TRUE), I(1)), Bin(">=", I(2), I(1)), "cmp-comparable"),
  EM("not-int", "bool", Un("not", I(1)), Un("not", Bo(TRUE)), "logic-bool"),
  EM("and-int-bool", "bool", Bin("and", I(1), Bo(TRUE)), Bin("and", Bo(TRUE), Bo(TRUE)), "logic-bool"),
  EM("or-bool-int", "bool", Bin("or", Bo(TRUE), I(1)), Bin("or", Bo(TRUE), Bo(FALSE)), "logic-bool"),
  EM("neg-str", "str", Un("-", St("s")), St("s"), "neg-number"),
  EM("neg-bool", "bool", Un("-", Bo(TRUE)), Bo(TRUE), "neg-number"),
  EM("neg-list", "list", Un("-", Lst(<<I(1)>>)), Lst(<<I(1)>>), "neg-number"),
  EM("arity-plus-fn", "int", Call(V(GInc), <<I(1), I(2)>>), Call(V(GInc), <<I(1)>>), "call-arity"),
  EM("arity-minus-fn", "int", Call(V(GAdd2), <<I(1)>>), Call(V(GAdd2), <<I(1), I(2)>>), "call-arity"),
  EM("arity-plus-closure-param", "int", WithClosureParam(Call(V(301), <<I(1), I(2)>>)),
     WithClosureParam(Call(V(301), <<I(1)>>)), "call-arity"),
  EM("arity-minus-closure-param", "int", WithClosureParam(Call(V(301), <<>>)),
     WithClosureParam(Call(V(301), <<I(1)>>)), "call-arity"),
  EM("argtype-fn", "int", Call(V(GInc), <<St("a")>>), Call(V(GInc), <<I(1)>>), "call-argtype"),
  EM("argtype-fn-second", "int", Call(V(GAdd2), <<I(1), Bo(TRUE)>>), Call(V(GAdd2), <<I(1), I(2)>>), "call-argtype"),
  EM("argtype-method", "int", Call(Fld(Call(V(GMkP), <<I(1)>>), "add"), <<St("a")>>),
     Call(Fld(Call(V(GMkP), <<I(1)>>), "add"), <<I(2)>>), "call-argtype"),
  EM("argtype-closure-param", "int", WithClosureParam(Call(V(301), <<St("a")>>)),
     WithClosureParam(Call(V(301), <<I(1)>>)), "call-argtype"),
  EM("argtype-lambda", "int", Lam1(St("s")), Lam1(I(1)), "call-argtype"),
  EM("argtype-fnvalue", "int", Call(V(GApply), <<V(GIdS), I(1)>>), Call(V(GApply), <<V(GInc), I(1)>>), "call-argtype"),
  EM("ret-implicit", "int", Thunk(TInt, <<Ex(St("s"))>>), Thunk(TInt, <<Ex(I(1))>>), "ret-type"),
  EM("ret-explicit", "int", Thunk(TInt, <<Ret(St("s"))>>), Thunk(TInt, <<Ret(I(1))>>), "ret-type"),
  EM("ret-branch", "int", Thunk(TInt, <<Ex(If1(Bo(TRUE), <<Ret(St("s"))>>)), Ex(I(2))>>),
     Thunk(TInt, <<Ex(If1(Bo(TRUE), <<Ret(I(1))>>)), Ex(I(2))>>), "ret-type"),
  EM("field-init", "int", Fld(BlobL("FI", <<FI("v", St("s"))>>), "v"), Fld(BlobL("FI", <<FI("v", I(1))>>), "v"), "field-type"),
  EM("list-int-str", "list", Lst(<<I(1), St("a")>>), Lst(<<I(1), I(2)>>), "list-homogeneous"),
  EM("list-int-float", "list", Lst(<<I(1), Fl(4, 1)>>), Lst(<<I(1), I(2)>>), "list-homogeneous"),
  EM("call-int-literal", "int", Call(I(1), <<I(2)>>), Call(V(GInc), <<I(2)>>), "callee-function"),
  EM("call-int-var", "int", Call(V(GG), <<>>), V(GG), "callee-function"),
  EM("ifexpr-cond-int", "int", If2(I(1), <<Ex(I(1))>>, <<Ex(I(2))>>), If2(Bo(TRUE), <<Ex(I(1))>>, <<Ex(I(2))>>), "cond-bool"),
  EM("ifexpr-branches", "int", If2(Bo(TRUE), <<Ex(I(1))>>, <<Ex(St("a"))>>), If2(Bo(TRUE), <<Ex(I(1))>>, <<Ex(I(2))>>), "decl-type"),
  EM("void-arg-typed", "int", Call(V(GIdI), <<Call(V(GVd), <<I(1)>>)>>), Call(V(GIdI), <<Call(V(GInc), <<I(1)>>)>>), "void-not-storable"),
  \* ---- statement mismatches
  SM("def-mut-annot", <<DefM(320, TInt, St("s"))>>, <<DefM(320, TInt, I(1))>>, "decl-type", TRUE),
  SM("def-const-annot", <<DefC(320, TInt, Fl(2, 1))>>, <<DefC(320, TInt, I(1))>>, "decl-type", TRUE),
  SM("def-list-annot", <<DefC(320, TListI, Lst(<<St("a")>>))>>, <<DefC(320, TListI, Lst(<<I(1)>>))>>, "decl-type", TRUE),
  SM("assign-var", <<DefM(320, TInt, I(1)), Asg("=", V(320), St("s"))>>, <<DefM(320, TInt, I(1)), Asg("=", V(320), I(4))>>, "assign-type", FALSE),
  SM("assign-field", <<DefC(320, TName("FI"), BlobL("FI", <<FI("v", I(1))>>)), Asg("=", Fld(V(320), "v"), St("s"))>>,
     <<DefC(320, TName("FI"), BlobL("FI", <<FI("v", I(1))>>)), Asg("=", Fld(V(320), "v"), I(4))>>, "assign-type", FALSE),
  SM("assign-global", <<Asg("=", V(GG), St("s"))>>, <<Asg("=", V(GG), I(4))>>, "assign-type", FALSE),
  SM("pluseq-str", <<DefM(320, TInt, I(1)), Asg("+=", V(320), St("s"))>>, <<DefM(320, TInt, I(1)), Asg("+=", V(320), I(4))>>, "assign-type", FALSE),
  SM("minuseq-float", <<DefM(320, TInt, I(1)), Asg("-=", V(320), Fl(2, 1))>>, <<DefM(320, TInt, I(1)), Asg("-=", V(320), I(4))>>, "assign-type", FALSE),
  SM("muleq-field-str", <<DefC(320, TName("FI"), BlobL("FI", <<FI("v", I(1))>>)), Asg("*=", Fld(V(320), "v"), St("s"))>>,
     <<DefC(320, TName("FI"), BlobL("FI", <<FI("v", I(1))>>)), Asg("*=", Fld(V(320), "v"), I(4))>>, "assign-type", FALSE),
  SM("field-init-stmt", <<DefC(320, TName("FS"), BlobL("FS", <<FI("v", I(1))>>))>>, <<DefC(320, TName("FS"), BlobL("FS", <<FI("v", St("s"))>>))>>, "field-type", TRUE),
  SM("if-cond-int", <<Ex(If1(I(1), <<Asg("=", V(GG), I(2))>>))>>, <<Ex(If1(Bo(TRUE), <<Asg("=", V(GG), I(2))>>))>>, "cond-bool", FALSE),
  SM("elif-cond-str", <<Ex(If(<<ArmC(Bo(FALSE), <<Asg("=", V(GG), I(2))>>), ArmC(St("a"), <<Asg("=", V(GG), I(3))>>)>>))>>,
     <<Ex(If(<<ArmC(Bo(FALSE), <<Asg("=", V(GG), I(2))>>), ArmC(Bo(TRUE), <<Asg("=", V(GG), I(3))>>)>>))>>, "cond-bool", FALSE),
  SM("loop-cond-int", <<Loop(I(1), <<Break>>)>>, <<Loop(Bo(TRUE), <<Break>>)>>, "cond-bool", FALSE),
  SM("void-store-mut", <<DefM(320, TNone, Call(V(GVd), <<I(1)>>))>>, <<DefM(320, TNone, Call(V(GInc), <<I(1)>>))>>, "void-not-storable", TRUE),
  SM("void-store-const", <<DefC(320, TNone, Call(Std("print"), <<I(1)>>))>>, <<DefC(320, TNone, Call(V(GInc), <<I(1)>>))>>, "void-not-storable", TRUE),
  SM("void-arg", <<Print(Call(V(GVd), <<I(1)>>))>>, <<Print(Call(V(GInc), <<I(1)>>))>>, "void-not-storable", FALSE),
  SM("call-int-local", <<DefM(320, TInt, I(1)), Ex(Call(V(320), <<>>))>>, <<DefM(320, TInt, I(1)), Ex(V(320))>>, "callee-function", FALSE),
  SM("arity-plus-local-fn", <<LocalFn, Ex(Call(V(310), <<I(1), I(2)>>))>>, <<LocalFn, Ex(Call(V(310), <<I(1)>>))>>, "call-arity", FALSE),
  SM("arity-minus-local-fn", <<LocalFn, Ex(Call(V(310), <<>>))>>, <<LocalFn, Ex(Call(V(310), <<I(1)>>))>>, "call-arity", FALSE),
  SM("argtype-local-fn", <<LocalFn, Ex(Call(V(310), <<St("s")>>))>>, <<LocalFn, Ex(Call(V(310), <<I(1)>>))>>, "call-argtype", FALSE)
>>
NM == Len(MM)
Kinds == {MM[i].kind : i \in 1..NM}
