------------------------------ MODULE SyltNum64 ------------------------------
(***************************************************************************)
(* 64-bit two's-complement integers for the numeric-limits dimension of    *)
(* C01.  TLC's integers are 32-bit, so a 64-bit word is a sequence of      *)
(* eight bytes, least significant first: w[1] + 256 w[2] + ... + 256^7     *)
(* w[8]; the word is negative iff w[8] >= 128.  Addition, subtraction,     *)
(* negation and multiplication are taken modulo 2^64 - the wrap-around the *)
(* Sylt source denotes (its ints are Lua 5.3 integers): MAX + 1 = MIN,     *)
(* -MIN = MIN, 2^32 * 2^32 = 0.  No intermediate result leaves 0..2^21.    *)
(***************************************************************************)
EXTENDS Naturals, Integers, Sequences, TLC

Zero64 == <<0, 0, 0, 0, 0, 0, 0, 0>>
One64  == <<1, 0, 0, 0, 0, 0, 0, 0>>

\* a + b + c0 (mod 2^64), c0 \in {0, 1}
Add64c(a, b, c0) ==
  LET RECURSIVE S(_, _)
      S(i, c) == IF i > 8 THEN <<>>
                 ELSE LET t == a[i] + b[i] + c IN <<t % 256>> \o S(i + 1, t \div 256)
  IN S(1, c0)

Add64(a, b) == Add64c(a, b, 0)
Not64(a) == [i \in 1..8 |-> 255 - a[i]]
Neg64(a) == Add64c(Not64(a), Zero64, 1)
Sub64(a, b) == Add64c(a, Not64(b), 1)

\* a * b (mod 2^64): column sums of byte products, carries rippled upwards
Mul64(a, b) ==
  LET RECURSIVE ColSum(_, _)
      ColSum(k, i) == IF i > k THEN 0 ELSE a[i] * b[k + 1 - i] + ColSum(k, i + 1)
      RECURSIVE M(_, _)
      M(k, c) == IF k > 8 THEN <<>>
                 ELSE LET t == ColSum(k, 1) + c IN <<t % 256>> \o M(k + 1, t \div 256)
  IN M(1, 0)

IsNeg64(a) == a[8] >= 128

\* unsigned and signed order
ULt64(a, b) ==
  LET RECURSIVE L(_)
      L(i) == IF i = 0 THEN FALSE ELSE IF a[i] # b[i] THEN a[i] < b[i] ELSE L(i - 1)
  IN L(8)
SLt64(a, b) == IF IsNeg64(a) # IsNeg64(b) THEN IsNeg64(a) ELSE ULt64(a, b)

(* conversions from / to TLC's own integers (|n| < 2^31) *)
FromNat64(n) ==
  LET P == <<1, 256, 65536, 16777216>> IN [i \in 1..8 |-> IF i <= 4 THEN (n \div P[i]) % 256 ELSE 0]
FromInt64(n) == IF n >= 0 THEN FromNat64(n) ELSE Neg64(FromNat64(0 - n))

Mag64(a) == IF IsNeg64(a) THEN Neg64(a) ELSE a        \* |a| as an UNSIGNED word (|MIN| = 2^63 is itself)
\* the magnitude is below 2^24
Fits24(a) == LET m == Mag64(a) IN \A i \in 4..8 : m[i] = 0
\* the value of a word that Fits24
Small64(a) == LET m == Mag64(a)
                  v == m[1] + 256 * m[2] + 65536 * m[3] IN
              IF IsNeg64(a) THEN 0 - v ELSE v

(* decimal text *)
DivMod10(m) ==      \* <<quotient word, remainder>> of the unsigned word m
  LET RECURSIVE D(_, _, _)
      D(i, r, q) == IF i = 0 THEN <<q, r>>
                    ELSE LET cur == r * 256 + m[i] IN D(i - 1, cur % 10, [q EXCEPT ![i] = cur \div 10])
  IN D(8, 0, Zero64)

UText64(m) ==
  LET RECURSIVE T(_)
      T(x) == IF x = Zero64 THEN "" ELSE LET dm == DivMod10(x) IN T(dm[1]) \o ToString(dm[2])
  IN IF m = Zero64 THEN "0" ELSE T(m)

Text64(a) == IF IsNeg64(a) THEN "-" \o UText64(Neg64(a)) ELSE UText64(a)

(* the unsigned word a decimal numeral denotes (mod 2^64) *)
DigitVal(c) == CASE c = "0" -> 0 [] c = "1" -> 1 [] c = "2" -> 2 [] c = "3" -> 3 [] c = "4" -> 4
                 [] c = "5" -> 5 [] c = "6" -> 6 [] c = "7" -> 7 [] c = "8" -> 8 [] c = "9" -> 9
IsDigits(s) == Len(s) > 0 /\ \A i \in 1..Len(s) : SubSeq(s, i, i) \in {"0", "1", "2", "3", "4", "5", "6", "7", "8", "9"}

MulAdd64(a, k, d) ==        \* a * k + d for small k, d
  LET RECURSIVE S(_, _)
      S(i, c) == IF i > 8 THEN <<>>
                 ELSE LET t == a[i] * k + c IN <<t % 256>> \o S(i + 1, t \div 256)
  IN S(1, d)

Parse64(s) ==
  LET RECURSIVE P(_, _)
      P(i, acc) == IF i > Len(s) THEN acc ELSE P(i + 1, MulAdd64(acc, 10, DigitVal(SubSeq(s, i, i))))
  IN P(1, Zero64)

(* self-test: evaluated once when a model that extends this module starts *)
Max64 == <<255, 255, 255, 255, 255, 255, 255, 127>>
Min64 == <<0, 0, 0, 0, 0, 0, 0, 128>>
ASSUME /\ Parse64("9223372036854775807") = Max64
       /\ Add64(Max64, One64) = Min64
       /\ Neg64(Min64) = Min64
       /\ Sub64(Neg64(Max64), One64) = Min64
       /\ Mul64(Parse64("4611686018427387904"), FromInt64(2)) = Min64
       /\ Mul64(Parse64("4294967296"), Parse64("4294967296")) = Zero64
       /\ Text64(Min64) = "-9223372036854775808"
       /\ Text64(Mul64(Parse64("3037000500"), Parse64("3037000500"))) = "-9223372036709301616"
       /\ Text64(Mul64(Max64, Max64)) = "1"
       /\ Text64(Mul64(Min64, FromInt64(0 - 1))) = "-9223372036854775808"
       /\ Text64(Sub64(Min64, One64)) = "9223372036854775807"
       /\ Small64(FromInt64(0 - 70000)) = 0 - 70000 /\ Fits24(FromInt64(0 - 70000)) /\ ~Fits24(Max64) /\ ~Fits24(Min64)
       /\ SLt64(Min64, Zero64) /\ SLt64(Zero64, Max64) /\ ~SLt64(Max64, Min64) /\ SLt64(FromInt64(0 - 2), FromInt64(0 - 1))
=============================================================================
