----------------------------- MODULE Trace_Lex -----------------------------
(***************************************************************************)
(* Trace validation for C17: every token list recorded from the real       *)
(* tokenizer (sylt_tokenizer::string_to_tokens) must be a behaviour of     *)
(* SyltLex.  One record per input text; record k is checked independently  *)
(* (Init ranges over all k, so all TLC workers share the work).            *)
(*                                                                         *)
(* The universe is decided HERE, not by the harness: every record carries  *)
(* (or, for "strings", is) an index, TLC derives the text of that index    *)
(* from the universe definitions below and a record whose input differs    *)
(* from the text TLC derives is a tool error (Assert), not a verdict.      *)
(* A trace may be cut into shards; OFFSET is the number of records before  *)
(* this shard.  The first ExhCount records of a universe must carry the    *)
(* indices 1..ExhCount (the exhaustive part, EXHLEN chooses it), the       *)
(* remaining ones are samples chosen by the recorder.                      *)
(*                                                                         *)
(* Universes (all texts are written with the stand-ins of SyltLex for      *)
(* characters outside the token alphabet; the recorder holds the real      *)
(* characters in the same order):                                          *)
(*   strings   all strings over MCAlphabet (round 1)                       *)
(*   frags     concatenations of 1..3 lexical fragments                    *)
(*   ustrings  all strings over UAlphabet: a core of token characters and  *)
(*             one to three representatives of every NonToken class        *)
(*   uctx      context x NonToken character x context                      *)
(*   numgram   all strings over the characters that decide the int / float *)
(*             / identifier / operator boundaries                          *)
(*   numctx    the same embedded after and before an identifier, an        *)
(*             operator, a bracket, a blank and a newline                  *)
(*   files     head x body x tail: what files begin and end with           *)
(*   long      unit^count \o window: very long lines / very many lines;    *)
(*             only the window is validated token by token (see below)     *)
(*   actx      (round 3) context x EVERY 7-bit character x context: stray  *)
(*             characters before LF / CR LF / end / digit / letter, outside *)
(*             and inside strings and comments, with lines after it         *)
(*   apair     (round 3) every PAIR of 7-bit characters in four contexts    *)
(*   bigint    (round 3) digit runs around 2^k and 10^k (value boundary of  *)
(*             the Int token), leading zeros, in context                    *)
(*   floatlim  (round 3) float forms at the limits of the double range      *)
(*   longnum   (round 3) digit runs of up to 310 digits in every number form *)
(*   free      any text (random longer texts, replays)                     *)
(* Round 3: a recorded Int / Float token also carries its VALUE (val, a     *)
(* string); the specification decides it (SyltLexNum) and TokEq compares.   *)
(*                                                                         *)
(* The machine is deterministic: blanks are skipped silently, then the     *)
(* next recorded token must equal one of the tokens SyltLex's Emit actions *)
(* would append (error extents are bound by the recorded span).  A record  *)
(* that cannot be continued goes to st = "fail" and prints one REJECT      *)
(* line; the check's verdicts are those lines.                             *)
(***************************************************************************)
EXTENDS SyltLex, Json, IOUtils

VARIABLES k,      \* index of the record being validated
          j,      \* index of the next recorded token
          st      \* "prefix" | "run" | "ok" | "fail"

tvars == <<text, pos, toks, k, j, st>>

Rec == ndJsonDeserialize(IOEnv.TRACE)
N == Len(Rec)
Universe == IOEnv.UNIVERSE
EnvInt(name, dflt) == IF name \in DOMAIN IOEnv THEN atoi(IOEnv[name]) ELSE dflt
Offset == EnvInt("OFFSET", 0)      \* records of the same trace in earlier shards
ExhLen == EnvInt("EXHLEN", 0 - 1)    \* which part of the universe has to be present exhaustively

---------------------------------------------------------------------------
(* Index-addressed universes: strings over an alphabet *)
A == Len(Alphabet)

RECURSIVE Pow(_, _)
Pow(b, e) == IF e = 0 THEN 1 ELSE b * Pow(b, e - 1)

RECURSIVE DigitsOver(_, _, _)   \* the l base-|al| digits of m, least significant first, as a string over al
DigitsOver(al, m, l) == IF l = 0 THEN "" ELSE al[(m % Len(al)) + 1] \o DigitsOver(al, m \div Len(al), l - 1)

RECURSIVE LenOfIndexOver(_, _, _)  \* which length block does 0-based index m fall in, starting from length l
LenOfIndexOver(a, m, l) == IF m < Pow(a, l) THEN <<l, m>> ELSE LenOfIndexOver(a, m - Pow(a, l), l + 1)

StringAtOver(al, idx) == LET lm == LenOfIndexOver(Len(al), idx - 1, 0) IN DigitsOver(al, lm[2], lm[1])

NumStringsOver(a, L) == LET RECURSIVE S(_)
                            S(l) == IF l < 0 THEN 0 ELSE Pow(a, l) + S(l - 1)
                        IN S(L)

StringAt(idx) == StringAtOver(Alphabet, idx)
NumStrings(L) == NumStringsOver(A, L)

(* ustrings: token characters that neighbour a foreign character in some token class + the class
   representatives.  Recorder: e 1 . " / \n space - =  e-acute CJK  Arabic-Indic-3 fullwidth-3 math-double-struck-1
   superscript-2 Roman-IV  NBSP U+2028 VT  U+0301  undertie  BOM  emoji NUL *)
UAlphabet == <<"e", "1", ".", "\"", "/", "\n", " ", "-", "=",
               "@", "@", "%", "%", "%", "^", "^", "~", "~", "~", "`", "&", ";", "$", "$">>

(* numgram: where int / float / identifier / operator boundaries are decided *)
NumAlphabet == <<"1", ".", "e", "E", "+", "-", "a", "_">>
NumMaxLen == 6
NumCtxMaxLen == 5
NumPre  == <<"x", "x ", "=", " ", "(", "\n">>
NumPost == <<"", "x", " x", "=", " ", ")", "\n">>
NumCtxAt(idx) ==
    LET m == idx - 1
        po == m % Len(NumPost)
        pr == (m \div Len(NumPost)) % Len(NumPre)
        s  == m \div (Len(NumPost) * Len(NumPre))
    IN NumPre[pr + 1] \o StringAtOver(NumAlphabet, s + 1) \o NumPost[po + 1]

(* uctx: every representative of every NonToken class between two contexts: identifiers, keywords,
   numbers (complete and incomplete), strings (closed, open: the character is then inside the literal),
   comments, operators (also prefixes of longer ones), brackets, blanks, line starts and ends.
   Recorder (UChars): e-acute lambda CJK | Arabic-Indic-3 Devanagari-3 fullwidth-3 math-1 | superscript-2 one-half Roman-IV |
   NBSP EM-SPACE IDEOGRAPHIC-SPACE LINE-SEPARATOR NEL VT FF | U+0301 | undertie | BOM | emoji NUL DEL $ ESC *)
UChars == <<"@", "@", "@", "%", "%", "%", "%", "^", "^", "^", "~", "~", "~", "~", "~", "~", "~",
            "`", "&", ";", "$", "$", "$", "$", "$">>
UPre  == <<"", "e", "A9", "_", "if", "end", "nil", "12", "1.", ".5", "1e", "1e1", "1e-", "\"a\"", "\"a", "// c", "//",
           "\n", "e\n", " ", "e ", "\t", "\r", "+", "-", "<", "<=", ".", ":", "(", ")", "\"a\nb\"", "<<<<<<">>
UPost == <<"", "e", "A9", "_", "if", "nil", "12", ".5", "1e1", "\"a\"", "b\"", "// c", "\n", "\ne", " ", " e", "\t",
           "\r", "\r\n", "+", "-", "=", ">", ".", "(", "\"", "/">>
UCtxSize == Len(UPre) * Len(UChars) * Len(UPost)
UCtxAt(idx) ==
    LET m == idx - 1
        po == m % Len(UPost)
        c  == (m \div Len(UPost)) % Len(UChars)
        pr == m \div (Len(UPost) * Len(UChars))
    IN UPre[pr + 1] \o UChars[c + 1] \o UPost[po + 1]

(* files: how a file begins and ends.  Recorder: ; is the byte-order mark, $ is NUL (in FTails the last $ is
   Ctrl-Z), ~ is VT in FHeads[14] and FF in FHeads[18], @ is e-acute *)
FHeads  == <<"", ";", ";;", " ", "\t", "\n", "\n\n", "\r\n", "\r", "// c\n", "//@\n", ";\n", "$", "~", " \n",
             "\"\n\"", ";// c\n", "~\n">>
FBodies == <<"e", "e = 1.5", "e\n1", "e\r\n1", "e\r1", "\"a\nb\" e", "e // @\n1", "e;1", "e$1", "\te\t1", "e @ 1",
             "if e do\n  ret 1\nend">>
FTails  == <<"", "\n", "\n\n\n", "\r", "\r\n", " ", "\t", ";", "$", "\n;", "// c", "\"", "\n\r", "$">>
FilesSize == Len(FHeads) * Len(FBodies) * Len(FTails)
FileAt(idx) ==
    LET m == idx - 1
        tl == m % Len(FTails)
        b  == (m \div Len(FTails)) % Len(FBodies)
        h  == m \div (Len(FTails) * Len(FBodies))
    IN FHeads[h + 1] \o FBodies[b + 1] \o FTails[tl + 1]

---------------------------------------------------------------------------
(* Round 3.  The 7-bit characters as the specification sees them: a character of the documented token
   alphabet is itself, any other 7-bit character is the stand-in of its class (VT and FF are white space
   that is no blank: ~ ; all other controls, DEL and $ % & ; @ \ ^ ` ~ are in no token: $).  The recorder
   feeds the tokenizer the REAL character of the code and maps it with its own class table; TraceInit
   compares the two texts, so the tables have to agree. *)
AsciiTab ==
    <<"$", "$", "$", "$", "$", "$", "$", "$", "$", "\t", "\n", "~", "~", "\r", "$", "$",
      "$", "$", "$", "$", "$", "$", "$", "$", "$", "$", "$", "$", "$", "$", "$", "$",
      " ", "!", "\"", "#", "$", "$", "$", "'", "(", ")", "*", "+", ",", "-", ".", "/",
      "0", "1", "2", "3", "4", "5", "6", "7", "8", "9", ":", "$", "<", "=", ">", "?",
      "$", "A", "B", "C", "D", "E", "F", "G", "H", "I", "J", "K", "L", "M", "N", "O",
      "P", "Q", "R", "S", "T", "U", "V", "W", "X", "Y", "Z", "[", "$", "]", "$", "_",
      "$", "a", "b", "c", "d", "e", "f", "g", "h", "i", "j", "k", "l", "m", "n", "o",
      "p", "q", "r", "s", "t", "u", "v", "w", "x", "y", "z", "{", "|", "}", "$", "$">>
\* every character of the token alphabet is in the table exactly once; everything else is a stand-in
ASSUME AsciiTabSound ==
    /\ Len(AsciiTab) = 128
    /\ \A c \in IdCont \cup Blank \cup {NL, DQ} : Cardinality({i \in 1..128 : AsciiTab[i] = c}) = 1
    /\ \A f \in Fixed : \A q \in 1..Len(f) : Cardinality({i \in 1..128 : AsciiTab[i] = Ch(f, q)}) = 1
    /\ \A i \in 1..128 : \/ AsciiTab[i] \in NonToken
                         \/ Cardinality({i2 \in 1..128 : AsciiTab[i2] = AsciiTab[i]}) = 1

(* actx: a stray character directly after / before everything that matters for it: start and end of the text, an
   identifier, a number, a blank, a line start, an operator, inside an open string, inside a comment, after a
   multi-line string, on the third line; followed by LF, CR LF, the end, a digit, a letter, and by further LINES
   whose tokens have to keep their line numbers and columns. *)
APre  == <<"", "e", "1", "e ", "e\n", "+", "\"a", "// c", "\"a\nb\" ", "e\n\n1 ">>
APost == <<"", "\n", "\r\n", "1", "e", "\ne", "\r\ne 1", "\n1 e\n\"a\"\n", " \n", "\"\ne 1", "\n\n", "\n// c\ne">>
ACtxSize == Len(APre) * 128 * Len(APost)
ACtxAt(idx) ==
    LET m == idx - 1
        po == m % Len(APost)
        c  == (m \div Len(APost)) % 128
        pr == m \div (Len(APost) * 128)
    IN APre[pr + 1] \o AsciiTab[c + 1] \o APost[po + 1]

(* apair: every pair of 7-bit characters at the start of a text with a line after it, between two tokens with a
   line after it, inside a string and inside a comment (the context is the most significant part of the index: EXHLEN contexts are exhaustive) *)
APairCtx == << <<"", "\ne">>, <<"e ", "\ne 1">>, <<"\"", "\"\ne">>, <<"//", "\ne">> >>
APairBlock == 128 * 128
APairSize == Len(APairCtx) * APairBlock
APairAt(idx) ==
    LET m == idx - 1
        c2 == m % 128
        c1 == (m \div 128) % 128
        cx == m \div APairBlock
    IN APairCtx[cx + 1][1] \o AsciiTab[c1 + 1] \o AsciiTab[c2 + 1] \o APairCtx[cx + 1][2]

(* bigint: the value boundary of the Int token.  Digit runs in the neighbourhood of the powers of two and of ten
   that machine integers of any width end at, built by decimal arithmetic on strings (nothing here says which of
   them is THE boundary - SyltLexNum!IntFits does): base 2^k or 10^k, one of ten variations (the base, +1, -1, +2,
   -2, last digit dropped, 0 appended, 9 appended, first digit one up / one down), leading zeros, and a context
   that makes the run an Int, the integer part of a Float (X. X.5 XeY), or the head of an error. *)
RECURSIVE LxDoubleFrom(_, _, _)
LxDoubleFrom(s, i, c) == IF i = 0 THEN (IF c = 1 THEN "1" ELSE "")
                         ELSE LET v == 2 * LxVal(LxCh(s, i)) + c IN LxDoubleFrom(s, i - 1, v \div 10) \o LxDigits[(v % 10) + 1]
LxDouble(s) == LxDoubleFrom(s, Len(s), 0)
RECURSIVE LxAddFrom(_, _, _)
LxAddFrom(s, i, c) == IF i = 0 THEN (IF c > 0 THEN LxDigits[c + 1] ELSE "")
                      ELSE LET v == LxVal(LxCh(s, i)) + c IN LxAddFrom(s, i - 1, v \div 10) \o LxDigits[(v % 10) + 1]
LxPlus(s, a) == LxAddFrom(s, Len(s), a)                  \* s + a, a in 0..9
RECURSIVE LxSubFrom(_, _, _)
LxSubFrom(s, i, b) == IF i = 0 THEN ""
                      ELSE LET v == LxVal(LxCh(s, i)) - b IN
                           IF v >= 0 THEN LxSubFrom(s, i - 1, 0) \o LxDigits[v + 1] ELSE LxSubFrom(s, i - 1, 1) \o LxDigits[v + 11]
LxMinus(s, a) == LxStrip(LxSubFrom(s, Len(s), a))        \* s - a for s > a, a in 0..9
RECURSIVE LxTwoPow(_)
LxTwoPow(e) == IF e = 0 THEN "1" ELSE LxDouble(LxTwoPow(e - 1))

RECURSIVE Rep(_, _)
Rep(u, c) == IF c = 0 THEN ""
             ELSE IF c % 2 = 0 THEN LET h == Rep(u, c \div 2) IN h \o h
             ELSE u \o Rep(u, c - 1)

BigTwoExps == <<7, 8, 15, 16, 31, 32, 53, 62, 63, 64, 65, 127, 128>>
BigTenExps == <<9, 10, 15, 16, 17, 18, 19, 20, 21, 38, 39>>
\* the powers of two written out (TLC would redo the doublings for every record); ASSUME BigTwoOK re-derives them once
BigTwo == <<"128", "256", "32768", "65536", "2147483648", "4294967296", "9007199254740992", "4611686018427387904",
            "9223372036854775808", "18446744073709551616", "36893488147419103232",
            "170141183460469231731687303715884105728", "340282366920938463463374607431768211456">>
ASSUME BigTwoOK == /\ Len(BigTwo) = Len(BigTwoExps)
                   /\ \A i \in 1..Len(BigTwoExps) : BigTwo[i] = LxTwoPow(BigTwoExps[i])
BigBases == Len(BigTwoExps) + Len(BigTenExps)
BigBase(b) == IF b <= Len(BigTwoExps) THEN BigTwo[b] ELSE "1" \o Rep("0", BigTenExps[b - Len(BigTwoExps)])
BigVars == 10
BigVar(s, v) ==
    CASE v = 1 -> s
      [] v = 2 -> LxPlus(s, 1)
      [] v = 3 -> LxMinus(s, 1)
      [] v = 4 -> LxPlus(s, 2)
      [] v = 5 -> LxMinus(s, 2)
      [] v = 6 -> SubSeq(s, 1, Len(s) - 1)
      [] v = 7 -> s \o "0"
      [] v = 8 -> s \o "9"
      [] v = 9 -> (IF LxCh(s, 1) = "9" THEN s ELSE LxDigits[LxVal(LxCh(s, 1)) + 2] \o SubSeq(s, 2, Len(s)))
      [] v = 10 -> (IF LxCh(s, 1) = "1" THEN s ELSE LxDigits[LxVal(LxCh(s, 1))] \o SubSeq(s, 2, Len(s)))
BigZeros == <<"", "0", "00", "00000000000000000000">>
BigPre   == <<"", "-", "x = ", "e\n", "(">>
BigPost  == <<"", "\n", " x", ")", ".", ".5", "e5", "e-5", "x", "e", "\n1", "..">>
BigBlock == BigBases * BigVars * Len(BigZeros)           \* one context
BigSize  == BigBlock * Len(BigPre) * Len(BigPost)
BigAt(idx) ==
    LET m  == idx - 1
        b  == m % BigBases
        v  == (m \div BigBases) % BigVars
        z  == (m \div (BigBases * BigVars)) % Len(BigZeros)
        cx == m \div BigBlock
        pr == cx % Len(BigPre)
        po == cx \div Len(BigPre)
    IN BigPre[pr + 1] \o BigZeros[z + 1] \o BigVar(BigBase(b + 1), v + 1) \o BigPost[po + 1]

(* floatlim: float forms at the limits of the double range: an integer part (none, zeros, 15 / 16 / 17 digits, the
   digits of the largest double, of the rounding boundaries, 40 digits) x a tail (nothing, the point forms, the
   exponent forms with exponents around 0, +-22, +-300, 308, -324, beyond, absurdly long, incomplete or doubled) x
   a context.  What each text lexes to (Float, Int + identifier, Error ...) is decided by SyltLex as for any text. *)
FlInts  == <<"", "0", "1", "9", "00001", "10000", "123456789012345", "1234567890123456", "17976931348623157",
             "17976931348623158", "17976931348623159", "24703282292062327", "24703282292062328", "4940656458412465",
             "22250738585072014", Rep("9", 40), "1" \o Rep("0", 40)>>
FlTails == <<"", ".", ".0", ".5", ".25", ".000001", "." \o Rep("0", 40) \o "1", "." \o Rep("9", 40), ".5.", ".5e3", "..", ".e5",
             "e0", "e1", "e+1", "e-1", "e15", "e22", "e23", "e-22", "e291", "e292", "e293", "e-300", "e-301", "e300", "e301",
             "e307", "e308", "e309", "e+308", "e+309", "e-308", "e-323", "e-324", "e-325", "e-339", "e-340", "e-341",
             "e400", "e-400", "e-707", "e-708", "e-724", "e-725", "e", "e+", "e-", "e99999999999999999999", "e-99999999999999999999",
             "e00000000000000000308", "e-00000000000000000324", "E308", "e+-1", "e308e1", "e308.5", "e1x", "e 1">>
FlPre   == <<"", "-", "x = ", "\n">>
FlPost  == <<"", "\n", " x", ")">>
FlBlock == Len(FlInts) * Len(FlTails)
FlSize  == FlBlock * Len(FlPre) * Len(FlPost)
FloatLimAt(idx) ==
    LET m  == idx - 1
        i  == m % Len(FlInts)
        tl == (m \div Len(FlInts)) % Len(FlTails)
        cx == m \div FlBlock
        pr == cx % Len(FlPre)
        po == cx \div Len(FlPre)
    IN FlPre[pr + 1] \o FlInts[i + 1] \o FlTails[tl + 1] \o FlPost[po + 1]

(* longnum: very long number forms (the validation of one token costs TLC time quadratic in its length, hence a small
   universe of its own): a digit run D of 19 .. 310 digits - 1 followed by zeros, all nines, zeros followed by 1 - as an
   Int, as the integer part, the fraction or the exponent of a Float.  309 / 310 digits before the point are the limit
   of the double range reached by the NUMBER of digits. *)
LnLens == <<19, 20, 40, 308, 309, 310>>
LnShapes == 3
LnDigits(sh, L) == CASE sh = 1 -> "1" \o Rep("0", L - 1)
                     [] sh = 2 -> Rep("9", L)
                     [] sh = 3 -> Rep("0", L - 1) \o "1"
LnForms == 7
LnForm(f, d) == CASE f = 1 -> d
                  [] f = 2 -> d \o "."
                  [] f = 3 -> "." \o d
                  [] f = 4 -> d \o "e0"
                  [] f = 5 -> d \o "e-400"
                  [] f = 6 -> "1e" \o d
                  [] f = 7 -> "1e-" \o d
LnSize == Len(LnLens) * LnShapes * LnForms
LongNumAt(idx) ==
    LET m  == idx - 1
        f  == m % LnForms
        sh == (m \div LnForms) % LnShapes
        l  == m \div (LnForms * LnShapes)
    IN LnForm(f + 1, LnDigits(sh + 1, LnLens[l + 1]))

---------------------------------------------------------------------------
(* fragment universe: all concatenations of 1..3 fragments, joined by "" or " " *)
Frags == <<"a", "e", "A9", "_", "if", "iff", "do", "end", "fn", "pu", "ret", "int", "str", "float",
           "bool", "void", "nil", "nile", "true", "truee", "false", "and", "or", "not", "loop",
           "break", "continue", "blob", "externblob", "enum", "case", "else", "elif", "is", "in",
           "use", "from", "as", "external",
           "0", "12", "1.", ".5", "1.5", "1e1", "1e-1", "1e+1", "1e", "1.e",
           "\"a\"", "\"\"", "\"a\nb\"", "\"\n\"", "\"", "\"x//y\"",
           "// c", "//", "/", "\n",
           "+", "-", "*", "+=", "-=", "*=", "/=", "#", ":", "::", ":=", "=", "==", "!=",
           "<=>", "<!>", "(", ")", "[", "]", "{", "}", ">", ">=", "<", "<=", "!", "?", "|", "'",
           ",", ".", "->", "<<<<<<<", ">>>>>>>", "<<<", "$", "\t", "\r", "\r\n",
           \* round 2: one representative per NonToken class (recorder: lambda, Devanagari 3, one half, EM SPACE,
           \* U+0301, undertie, BOM, emoji, FF) and the number forms on which the float regex is easily got wrong
           "@", "%", "^", "~", "`", "&", ";", "$", "~",
           "1e-+5", "1e+-5", "1E5", "1_0", "1..2", ".5.", "1e5e5", "e5", "1e+", "1.e5", "5e", "E">>
F == Len(Frags)
Seps == <<"", " ">>

\* index layout: block 1 = single fragments (F), block 2 = pairs x seps (F*F*2), block 3 = triples (F*F*F*4)
FragAt(idx) ==
    LET m == idx - 1 IN
    IF m < F THEN Frags[m + 1]
    ELSE LET m2 == m - F IN
      IF m2 < F * F * 2
      THEN LET s == m2 % 2  q == m2 \div 2 IN Frags[(q % F) + 1] \o Seps[s + 1] \o Frags[(q \div F) + 1]
      ELSE LET m3 == m2 - F * F * 2
               s1 == m3 % 2  s2 == (m3 \div 2) % 2  q == m3 \div 4 IN
           Frags[(q % F) + 1] \o Seps[s1 + 1] \o Frags[((q \div F) % F) + 1] \o Seps[s2 + 1]
             \o Frags[(q \div (F * F)) + 1]

---------------------------------------------------------------------------
(* long: unit^count \o window.  Validating 65 537 lines token by token is out of TLC's reach (every
   position is derived from the whole text), so the record carries the number of tokens, the last few
   tokens and some sampled tokens of the periodic prefix; the specification
     - requires every unit to end in a blank or newline and to lex without error (ASSUME UnitsOK), which
       makes unit boundaries token boundaries: the tokens of unit^count are count shifted copies of the
       tokens of the unit (ASSUME Periodic re-checks this consequence of longest match for count = 2),
     - derives the expected j-th prefix token arithmetically, with MkTok on the WHOLE text (so line and
       column still come from the text), and compares the samples and the token count (TracePrefix),
     - then runs the ordinary machine from the first character of the window (Origin).
   Recorder: @ is e-acute. *)
LUnits   == <<"\n", "e\n", "\r\n", " ", "e ", "\t", "\"@\" ", "//@\n", "\"\n\" ", "e \"a\nb\"\n">>
LCounts  == <<255, 256, 4095, 4096, 4097, 65535, 65536, 65537>>
LWindows == <<"e 1.5", "e@ \"a\nb\" e // c\n1", "\"@", "", "\n\ne">>
LongSize == Len(LUnits) * Len(LCounts) * Len(LWindows)
LongU(idx) == LUnits[((idx - 1) \div (Len(LWindows) * Len(LCounts))) + 1]
LongC(idx) == LCounts[(((idx - 1) \div Len(LWindows)) % Len(LCounts)) + 1]
LongW(idx) == LWindows[((idx - 1) % Len(LWindows)) + 1]

LongAt(idx) == Rep(LongU(idx), LongC(idx)) \o LongW(idx)

(* the specification's tokenisation of t from p as a function (stops after the first error token) *)
RECURSIVE LexFrom(_, _)
LexFrom(t, p) ==
    IF p > Len(t) THEN <<>>
    ELSE IF Ch(t, p) \in Blank THEN LexFrom(t, p + 1)
    ELSE LET ML == MatchLens(t, p) IN
         IF ML = {} THEN <<[k |-> "err", p |-> p, n |-> Rem(t, p)]>>
         ELSE LET L == SetMax(ML) IN <<[k |-> KindOf(t, p, L), p |-> p, n |-> L]>> \o LexFrom(t, p + L)
LexAll(t) == LexFrom(t, 1)

UnitOK(u) == /\ Len(u) >= 1 /\ Ch(u, Len(u)) \in Blank \cup {NL}
             /\ LET ut == LexAll(u) IN \A i \in 1..Len(ut) : ut[i].k # "err"
ASSUME UnitsOK == \A i \in 1..Len(LUnits) : UnitOK(LUnits[i])
ShiftToks(ts, d) == [i \in 1..Len(ts) |-> [ts[i] EXCEPT !.p = @ + d]]
ASSUME Periodic ==
    \A i \in 1..Len(LUnits) : \A w \in 1..Len(LWindows) :
        LET u == LUnits[i]  ut == LexAll(u)  all == LexAll(u \o u \o LWindows[w]) IN
        /\ Len(all) >= 2 * Len(ut)
        /\ SubSeq(all, 1, 2 * Len(ut)) = ut \o ShiftToks(ut, Len(u))

PrefToks(idx) == LongC(idx) * Len(LexAll(LongU(idx)))
ExpPrefixTok(t, u, jj) ==    \* (e is a bound variable so that TLC computes kind, position and length once)
    LET ut == LexAll(u)
        q  == (jj - 1) \div Len(ut)
        tk == ut[((jj - 1) % Len(ut)) + 1]
    IN CHOOSE x \in {MkTok(t, e[1], e[2], e[3]) : e \in {<<tk.k, q * Len(u) + tk.p, tk.n>>}} : TRUE

---------------------------------------------------------------------------
IsLong == Universe = "long"

UniverseSize ==
    CASE Universe = "ustrings" -> NumStringsOver(Len(UAlphabet), 4)
      [] Universe = "numgram"  -> NumStringsOver(Len(NumAlphabet), NumMaxLen)
      [] Universe = "numctx"   -> NumStringsOver(Len(NumAlphabet), NumCtxMaxLen) * Len(NumPre) * Len(NumPost)
      [] Universe = "uctx"     -> UCtxSize
      [] Universe = "files"    -> FilesSize
      [] Universe = "long"     -> LongSize
      [] Universe = "actx"     -> ACtxSize
      [] Universe = "apair"    -> APairSize
      [] Universe = "bigint"   -> BigSize
      [] Universe = "floatlim" -> FlSize
      [] Universe = "longnum"  -> LnSize
      [] OTHER                 -> 0
ExhCount ==
    CASE Universe = "ustrings" -> NumStringsOver(Len(UAlphabet), ExhLen)
      [] Universe = "numgram"  -> NumStringsOver(Len(NumAlphabet), ExhLen)
      [] Universe = "numctx"   -> NumStringsOver(Len(NumAlphabet), ExhLen) * Len(NumPre) * Len(NumPost)
      [] Universe \in {"uctx", "files", "actx", "longnum"} -> IF ExhLen > 0 THEN UniverseSize ELSE 0
      [] Universe = "apair"    -> IF ExhLen > 0 THEN ExhLen * APairBlock ELSE 0     \* EXHLEN: number of exhaustive contexts
      [] Universe = "bigint"   -> IF ExhLen > 0 THEN ExhLen * BigBlock ELSE 0
      [] Universe = "floatlim" -> IF ExhLen > 0 THEN ExhLen * FlBlock ELSE 0
      [] OTHER                 -> 0
Indexed == Universe \in {"ustrings", "numgram", "numctx", "uctx", "files", "long", "actx", "apair", "bigint", "floatlim", "longnum"}

\* the recorder announces how many exhaustive records it wrote; it has to be what the specification asks for
ASSUME ExhAgreed == EnvInt("EXPECT_EXH", ExhCount) = ExhCount

CaseText(kk) == CASE Universe = "strings"  -> StringAt(Offset + kk)
                  [] Universe = "frags"    -> FragAt(Rec[kk].idx)
                  [] Universe = "ustrings" -> StringAtOver(UAlphabet, Rec[kk].idx)
                  [] Universe = "numgram"  -> StringAtOver(NumAlphabet, Rec[kk].idx)
                  [] Universe = "numctx"   -> NumCtxAt(Rec[kk].idx)
                  [] Universe = "uctx"     -> UCtxAt(Rec[kk].idx)
                  [] Universe = "files"    -> FileAt(Rec[kk].idx)
                  [] Universe = "long"     -> LongAt(Rec[kk].idx)
                  [] Universe = "actx"     -> ACtxAt(Rec[kk].idx)
                  [] Universe = "apair"    -> APairAt(Rec[kk].idx)
                  [] Universe = "bigint"   -> BigAt(Rec[kk].idx)
                  [] Universe = "floatlim" -> FloatLimAt(Rec[kk].idx)
                  [] Universe = "longnum"  -> LongNumAt(Rec[kk].idx)
                  [] OTHER                 -> Rec[kk].input

IndexOK(kk) == Indexed => /\ Rec[kk].idx \in 1..UniverseSize
                          /\ (Offset + kk <= ExhCount) => Rec[kk].idx = Offset + kk

Origin == IF IsLong THEN LongC(Rec[k].idx) * Len(LongU(Rec[k].idx)) + 1 ELSE 1

---------------------------------------------------------------------------
NT == Len(Rec[k].toks)

TokEqNoVal(t, r) == /\ r.k = t.k
                    /\ r.line = t.line /\ r.cs = t.cs /\ r.lend = t.lend /\ r.ce = t.ce
                    /\ (t.k \in {"id", "str", "fx", "bool", "nil"} => r.txt = t.txt)
\* the recorded value of a number token is the one the specification gives its text (SyltLexNum; values are strings)
ValOK(t, r) == CASE t.k = "int"   -> r.val = IntValue(t.txt)
                 [] t.k = "float" -> FloatValOK(t.txt, r.val)
                 [] OTHER         -> TRUE
TokEq(t, r) == TokEqNoVal(t, r) /\ ValOK(t, r)

TraceInit ==
    /\ k \in 1..N
    /\ text = CaseText(k)
    /\ Assert(Rec[k].input = text, <<"universe mismatch at record", k, Rec[k].input, text>>)
    /\ Assert(IndexOK(k), <<"record index outside the universe or exhaustive part incomplete", k>>)
    /\ toks = <<>>
    /\ IF IsLong
         THEN /\ pos = LongC(Rec[k].idx) * Len(LongU(Rec[k].idx)) + 1
              /\ j = PrefToks(Rec[k].idx) - Rec[k].first + 2
              /\ st = "prefix"
         ELSE pos = 1 /\ j = 1 /\ st = "run"

(* long texts: the periodic prefix *)
PrefixCountOK == LET r == Rec[k]  P == PrefToks(r.idx) IN r.first <= P + 1 /\ P <= r.ntoks
PrefixBad ==   \* the recorded prefix tokens (sampled ones and those at the head of the recorded tail) that are not the expected ones
    LET r == Rec[k]  P == PrefToks(r.idx)  u == LongU(r.idx) IN
    {r.samples[s].j : s \in {s \in 1..Len(r.samples) :
                                /\ r.samples[s].j <= P
                                /\ ~TokEq(ExpPrefixTok(text, u, r.samples[s].j), r.samples[s].t)}}
    \cup {r.first + i - 1 : i \in {i \in 1..Len(r.toks) :
                                /\ r.first + i - 1 <= P
                                /\ ~TokEq(ExpPrefixTok(text, u, r.first + i - 1), r.toks[i])}}

TracePrefix ==
    /\ st = "prefix"
    /\ IF ~PrefixCountOK
         THEN /\ st' = "fail"
              /\ PrintT(<<"REJECT", ToJson([rec |-> k, tok |-> 0, pos |-> 0, why |-> "prefix-token-count",
                                            expected |-> {}, at |-> "none", next |-> "none", numlike |-> FALSE, valbad |-> FALSE,
                                            bad |-> {PrefToks(Rec[k].idx)}])>>)
         ELSE LET bad == PrefixBad IN
              IF bad # {}
                THEN /\ st' = "fail"
                     /\ PrintT(<<"REJECT", ToJson([rec |-> k, tok |-> 0, pos |-> 0, why |-> "prefix-token",
                                                   expected |-> {}, at |-> "none", next |-> "none", numlike |-> FALSE, valbad |-> FALSE, bad |-> bad])>>)
                ELSE st' = "run"
    /\ UNCHANGED <<text, pos, toks, k, j>>

TraceSkip == /\ st = "run" /\ SkipBlank /\ UNCHANGED <<k, j, st>>

\* (total: TLC evaluates every disjunct of TraceReject's guard, also when an earlier one already holds)
Matching == IF j <= NT /\ pos <= Len(text) THEN {t \in Expected(text, pos) : TokEq(t, Rec[k].toks[j])} ELSE {}

TraceEmit ==
    /\ st = "run" /\ j <= NT
    /\ (EmitLongest \/ EmitError)
    /\ TokEq(toks'[Len(toks')], Rec[k].toks[j])
    /\ j' = j + 1
    /\ UNCHANGED <<k, st>>

TraceAccept ==
    /\ st = "run" /\ pos > Len(text) /\ j > NT
    /\ st' = "ok"
    /\ UNCHANGED <<text, pos, toks, k, j>>

Why == IF pos > Len(text) THEN "extra-token"
       ELSE IF j > NT THEN "missing-token"
       ELSE "token-mismatch"

(* case description for the signature: the class of the character at which the next token has to start,
   and whether the recorded token is "a number with non-ASCII decimal digits": its (single-line) span
   contains a UniDigit and would be an int or a float if every UniDigit in it were an ASCII digit *)
RECURSIVE AsciiDigits(_)
AsciiDigits(s) == IF s = "" THEN ""
                  ELSE (IF Ch(s, 1) \in UniDigit THEN "1" ELSE Ch(s, 1)) \o AsciiDigits(SubSeq(s, 2, Len(s)))
NumLike ==
    /\ pos <= Len(text) /\ j <= NT
    /\ LET r == Rec[k].toks[j]  n == r.ce - r.cs IN
       /\ r.lend = r.line /\ n >= 1 /\ pos + n - 1 <= Len(text)
       /\ \E q \in pos..(pos + n - 1) : Ch(text, q) \in UniDigit
       /\ LET s == AsciiDigits(Sub(text, pos, n)) IN IsInt(s, 1, n) \/ IsFloat(s, 1, n)

ValBad ==      \* the recorded token is the expected one except for its value
    /\ pos <= Len(text) /\ j <= NT
    /\ \E t \in Expected(text, pos) : TokEqNoVal(t, Rec[k].toks[j]) /\ ~ValOK(t, Rec[k].toks[j])

NextClass ==   \* the class of the character that follows the expected token
    IF pos <= Len(text) /\ MatchLens(text, pos) # {}
      THEN LET q == pos + SetMax(MatchLens(text, pos)) IN IF q <= Len(text) THEN ClassName(Ch(text, q)) ELSE "end"
      ELSE "none"

TraceReject ==
    /\ st = "run" /\ ~AtBlank
    /\ ~(pos > Len(text) /\ j > NT)
    /\ (pos > Len(text) \/ j > NT \/ Matching = {})
    /\ st' = "fail"
    /\ PrintT(<<"REJECT", ToJson([rec |-> k, tok |-> j, pos |-> pos, why |-> Why,
                                  expected |-> IF pos <= Len(text) /\ MatchLens(text, pos) # {}
                                               THEN Expected(text, pos) ELSE {},
                                  at |-> IF pos <= Len(text) THEN ClassName(Ch(text, pos)) ELSE "end",
                                  next |-> NextClass, numlike |-> NumLike, valbad |-> ValBad, bad |-> {}])>>)
    /\ UNCHANGED <<text, pos, toks, k, j>>

TraceNext == TracePrefix \/ TraceSkip \/ TraceEmit \/ TraceAccept \/ TraceReject

TraceSpec == TraceInit /\ [][TraceNext]_tvars

\* every spec invariant is evaluated in every state of every validated trace
TraceInv == /\ TilingFrom(Origin) /\ Maximal /\ PositionsSane /\ PosInRange
            /\ ~IsLong => NonTokenConfined

\* the trace machine never gets stuck silently: a running state always has a successor
TraceTotal == st \in {"run", "prefix"} => ENABLED TraceNext
=============================================================================
