----------------------------- MODULE Trace_Lex -----------------------------
(***************************************************************************)
(* Trace validation for C17: every token list recorded from the real       *)
(* tokenizer (sylt_tokenizer::string_to_tokens) must be a behaviour of     *)
(* SyltLex.  One record per input text; record k is checked independently  *)
(* (Init ranges over all k, so all TLC workers share the work).            *)
(*                                                                         *)
(* The universe is decided HERE, not by the harness: for UNIVERSE =        *)
(* "strings" record k must carry exactly the k-th text over MCAlphabet;    *)
(* for "frags" the k-th concatenation of fragments.  A record whose input  *)
(* differs from the text TLC derives is a tool error (Assert), not a       *)
(* verdict.                                                                *)
(*                                                                         *)
(* The machine is deterministic: blanks are skipped silently, then the     *)
(* next recorded token must equal one of the tokens SyltLex's Emit actions *)
(* would append (error extents are bound by the recorded span).  A record  *)
(* that cannot be continued goes to st = "fail" and prints one REJECT      *)
(* line; the check's verdicts are those lines.                             *)
(***************************************************************************)
EXTENDS SyltLex, Json, IOUtils

VARIABLES k,      \* index of the record being validated
          j,      \* index of the next recorded token
          st      \* "run" | "ok" | "fail"

tvars == <<text, pos, toks, k, j, st>>

Rec == ndJsonDeserialize(IOEnv.TRACE)
N == Len(Rec)
Universe == IOEnv.UNIVERSE

---------------------------------------------------------------------------
(* Index-addressed universes *)
A == Len(Alphabet)

RECURSIVE Pow(_, _)
Pow(b, e) == IF e = 0 THEN 1 ELSE b * Pow(b, e - 1)

RECURSIVE Digits(_, _)   \* the l base-A digits of m, least significant first, as a string over Alphabet
Digits(m, l) == IF l = 0 THEN "" ELSE Alphabet[(m % A) + 1] \o Digits(m \div A, l - 1)

RECURSIVE LenOfIndex(_, _)  \* which length block does 0-based index m fall in, starting from length l
LenOfIndex(m, l) == IF m < Pow(A, l) THEN <<l, m>> ELSE LenOfIndex(m - Pow(A, l), l + 1)

StringAt(idx) == LET lm == LenOfIndex(idx - 1, 0) IN Digits(lm[2], lm[1])

NumStrings(L) == LET RECURSIVE S(_)
                     S(l) == IF l < 0 THEN 0 ELSE Pow(A, l) + S(l - 1)
                 IN S(L)

(* fragment universe: all concatenations of 1..3 fragments, joined by "" or " " *)
Frags == <<"a", "e", "A9", "_", "if", "iff", "do", "end", "fn", "pu", "ret", "int", "str", "float",
           "bool", "void", "nil", "nile", "true", "truee", "false", "and", "or", "not", "loop",
           "break", "continue", "blob", "externblob", "enum", "case", "else", "elif", "is", "in",
           "use", "from", "as", "external",
           "0", "12", "1.", ".5", "1.5", "1e1", "1e-1", "1e+1", "1e", "1.e",
           "\"a\"", "\"\"", "\"a\nb\"", "\"\n\"", "\"", "\"x//y\"",
           "// c", "//", "/", "\n",
           "+", "-", "*", "+=", "-=", "*=", "/=", "#", ":", "::", ":=", "=", "==", "!=",
           "<=>", "<!>", "(", ")", "[", "]", "{", "}", ">", ">=", "<", "<=", "!", "?", "|", "'",
           ",", ".", "->", "<<<<<<<", ">>>>>>>", "<<<", "$", "\t", "\r", "\r\n">>
F == Len(Frags)
Seps == <<"", " ">>

\* index layout: block 1 = single fragments (F), block 2 = pairs x seps (F*F*2), block 3 = triples (F*F*F*4)
FragAt(idx) ==
    LET m == idx - 1 IN
    IF m < F THEN Frags[m + 1]
    ELSE LET m2 == m - F IN
      IF m2 < F * F * 2
      THEN LET s == m2 % 2  q == m2 \div 2 IN Frags[(q % F) + 1] \o Seps[s + 1] \o Frags[(q \div F) + 1]
      ELSE LET m3 == m2 - F * F * 2
               s1 == m3 % 2  s2 == (m3 \div 2) % 2  q == m3 \div 4 IN
           Frags[(q % F) + 1] \o Seps[s1 + 1] \o Frags[((q \div F) % F) + 1] \o Seps[s2 + 1]
             \o Frags[(q \div (F * F)) + 1]

CaseText(idx) == CASE Universe = "strings" -> StringAt(idx)
                   [] Universe = "frags"   -> FragAt(Rec[idx].idx)
                   [] OTHER                -> Rec[idx].input

---------------------------------------------------------------------------
NT == Len(Rec[k].toks)

TokEq(t, r) == /\ r.k = t.k
               /\ r.line = t.line /\ r.cs = t.cs /\ r.lend = t.lend /\ r.ce = t.ce
               /\ (t.k \in {"id", "str", "fx", "bool", "nil"} => r.txt = t.txt)

TraceInit ==
    /\ k \in 1..N
    /\ text = CaseText(k)
    /\ Assert(Rec[k].input = text, <<"universe mismatch at record", k, Rec[k].input, text>>)
    /\ pos = 1 /\ toks = <<>> /\ j = 1 /\ st = "run"

TraceSkip == /\ st = "run" /\ SkipBlank /\ UNCHANGED <<k, j, st>>

Matching == {t \in Expected(text, pos) : TokEq(t, Rec[k].toks[j])}

TraceEmit ==
    /\ st = "run" /\ j <= NT
    /\ (EmitLongest \/ EmitError)
    /\ TokEq(toks'[Len(toks')], Rec[k].toks[j])
    /\ j' = j + 1
    /\ UNCHANGED <<k, st>>

TraceAccept ==
    /\ st = "run" /\ pos > Len(text) /\ j > NT
    /\ st' = "ok"
    /\ UNCHANGED <<text, pos, toks, k, j>>

Why == IF pos > Len(text) THEN "extra-token"
       ELSE IF j > NT THEN "missing-token"
       ELSE "token-mismatch"

TraceReject ==
    /\ st = "run" /\ ~AtBlank
    /\ ~(pos > Len(text) /\ j > NT)
    /\ (pos > Len(text) \/ j > NT \/ Matching = {})
    /\ st' = "fail"
    /\ PrintT(<<"REJECT", ToJson([rec |-> k, tok |-> j, pos |-> pos, why |-> Why,
                                  expected |-> IF pos <= Len(text) /\ MatchLens(text, pos) # {}
                                               THEN Expected(text, pos) ELSE {}])>>)
    /\ UNCHANGED <<text, pos, toks, k, j>>

TraceNext == TraceSkip \/ TraceEmit \/ TraceAccept \/ TraceReject

TraceSpec == TraceInit /\ [][TraceNext]_tvars

\* every spec invariant is evaluated in every state of every validated trace
TraceInv == Tiling /\ Maximal /\ PositionsSane /\ PosInRange

\* the trace machine never gets stuck silently: a running state always has a successor
TraceTotal == st = "run" => ENABLED TraceNext
=============================================================================
