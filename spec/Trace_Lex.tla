----------------------------- MODULE Trace_Lex -----------------------------
(***************************************************************************)
(* Trace validation for C17: every token list recorded from the real       *)
(* tokenizer (sylt_tokenizer::string_to_tokens) must be a behaviour of     *)
(* SyltLex.  One record per input text; record k is checked independently  *)
(* (Init ranges over all k, so all TLC workers share the work).            *)
(*                                                                         *)
(* The universe is decided HERE, not by the harness: every record carries  *)
(* (or, for "strings", is) an index, TLC derives the text of that index    *)
(* from the universe definitions below and a record whose input differs    *)
(* from the text TLC derives is a tool error (Assert), not a verdict.      *)
(* A trace may be cut into shards; OFFSET is the number of records before  *)
(* this shard.  The first ExhCount records of a universe must carry the    *)
(* indices 1..ExhCount (the exhaustive part, EXHLEN chooses it), the       *)
(* remaining ones are samples chosen by the recorder.                      *)
(*                                                                         *)
(* Universes (all texts are written with the stand-ins of SyltLex for      *)
(* characters outside the token alphabet; the recorder holds the real      *)
(* characters in the same order):                                          *)
(*   strings   all strings over MCAlphabet (round 1)                       *)
(*   frags     concatenations of 1..3 lexical fragments                    *)
(*   ustrings  all strings over UAlphabet: a core of token characters and  *)
(*             one to three representatives of every NonToken class        *)
(*   uctx      context x NonToken character x context                      *)
(*   numgram   all strings over the characters that decide the int / float *)
(*             / identifier / operator boundaries                          *)
(*   numctx    the same embedded after and before an identifier, an        *)
(*             operator, a bracket, a blank and a newline                  *)
(*   files     head x body x tail: what files begin and end with           *)
(*   long      unit^count \o window: very long lines / very many lines;    *)
(*             only the window is validated token by token (see below)     *)
(*   free      any text (random longer texts, replays)                     *)
(*                                                                         *)
(* The machine is deterministic: blanks are skipped silently, then the     *)
(* next recorded token must equal one of the tokens SyltLex's Emit actions *)
(* would append (error extents are bound by the recorded span).  A record  *)
(* that cannot be continued goes to st = "fail" and prints one REJECT      *)
(* line; the check's verdicts are those lines.                             *)
(***************************************************************************)
EXTENDS SyltLex, Json, IOUtils

VARIABLES k,      \* index of the record being validated
          j,      \* index of the next recorded token
          st      \* "prefix" | "run" | "ok" | "fail"

tvars == <<text, pos, toks, k, j, st>>

Rec == ndJsonDeserialize(IOEnv.TRACE)
N == Len(Rec)
Universe == IOEnv.UNIVERSE
EnvInt(name, dflt) == IF name \in DOMAIN IOEnv THEN atoi(IOEnv[name]) ELSE dflt
Offset == EnvInt("OFFSET", 0)      \* records of the same trace in earlier shards
ExhLen == EnvInt("EXHLEN", 0 - 1)    \* which part of the universe has to be present exhaustively

---------------------------------------------------------------------------
(* Index-addressed universes: strings over an alphabet *)
A == Len(Alphabet)

RECURSIVE Pow(_, _)
Pow(b, e) == IF e = 0 THEN 1 ELSE b * Pow(b, e - 1)

RECURSIVE DigitsOver(_, _, _)   \* the l base-|al| digits of m, least significant first, as a string over al
DigitsOver(al, m, l) == IF l = 0 THEN "" ELSE al[(m % Len(al)) + 1] \o DigitsOver(al, m \div Len(al), l - 1)

RECURSIVE LenOfIndexOver(_, _, _)  \* which length block does 0-based index m fall in, starting from length l
LenOfIndexOver(a, m, l) == IF m < Pow(a, l) THEN <<l, m>> ELSE LenOfIndexOver(a, m - Pow(a, l), l + 1)

StringAtOver(al, idx) == LET lm == LenOfIndexOver(Len(al), idx - 1, 0) IN DigitsOver(al, lm[2], lm[1])

NumStringsOver(a, L) == LET RECURSIVE S(_)
                            S(l) == IF l < 0 THEN 0 ELSE Pow(a, l) + S(l - 1)
                        IN S(L)

StringAt(idx) == StringAtOver(Alphabet, idx)
NumStrings(L) == NumStringsOver(A, L)

(* ustrings: token characters that neighbour a foreign character in some token class + the class
   representatives.  Recorder: e 1 . " / \n space - =  e-acute CJK  Arabic-Indic-3 fullwidth-3 math-double-struck-1
   superscript-2 Roman-IV  NBSP U+2028 VT  U+0301  undertie  BOM  emoji NUL *)
UAlphabet == <<"e", "1", ".", "\"", "/", "\n", " ", "-", "=",
               "@", "@", "%", "%", "%", "^", "^", "~", "~", "~", "`", "&", ";", "$", "$">>

(* numgram: where int / float / identifier / operator boundaries are decided *)
NumAlphabet == <<"1", ".", "e", "E", "+", "-", "a", "_">>
NumMaxLen == 6
NumCtxMaxLen == 5
NumPre  == <<"x", "x ", "=", " ", "(", "\n">>
NumPost == <<"", "x", " x", "=", " ", ")", "\n">>
NumCtxAt(idx) ==
    LET m == idx - 1
        po == m % Len(NumPost)
        pr == (m \div Len(NumPost)) % Len(NumPre)
        s  == m \div (Len(NumPost) * Len(NumPre))
    IN NumPre[pr + 1] \o StringAtOver(NumAlphabet, s + 1) \o NumPost[po + 1]

(* uctx: every representative of every NonToken class between two contexts: identifiers, keywords,
   numbers (complete and incomplete), strings (closed, open: the character is then inside the literal),
   comments, operators (also prefixes of longer ones), brackets, blanks, line starts and ends.
   Recorder (UChars): e-acute lambda CJK | Arabic-Indic-3 Devanagari-3 fullwidth-3 math-1 | superscript-2 one-half Roman-IV |
   NBSP EM-SPACE IDEOGRAPHIC-SPACE LINE-SEPARATOR NEL VT FF | U+0301 | undertie | BOM | emoji NUL DEL $ ESC *)
UChars == <<"@", "@", "@", "%", "%", "%", "%", "^", "^", "^", "~", "~", "~", "~", "~", "~", "~",
            "`", "&", ";", "$", "$", "$", "$", "$">>
UPre  == <<"", "e", "A9", "_", "if", "end", "nil", "12", "1.", ".5", "1e", "1e1", "1e-", "\"a\"", "\"a", "// c", "//",
           "\n", "e\n", " ", "e ", "\t", "\r", "+", "-", "<", "<=", ".", ":", "(", ")", "\"a\nb\"", "<<<<<<">>
UPost == <<"", "e", "A9", "_", "if", "nil", "12", ".5", "1e1", "\"a\"", "b\"", "// c", "\n", "\ne", " ", " e", "\t",
           "\r", "\r\n", "+", "-", "=", ">", ".", "(", "\"", "/">>
UCtxSize == Len(UPre) * Len(UChars) * Len(UPost)
UCtxAt(idx) ==
    LET m == idx - 1
        po == m % Len(UPost)
        c  == (m \div Len(UPost)) % Len(UChars)
        pr == m \div (Len(UPost) * Len(UChars))
    IN UPre[pr + 1] \o UChars[c + 1] \o UPost[po + 1]

(* files: how a file begins and ends.  Recorder: ; is the byte-order mark, $ is NUL (in FTails the last $ is
   Ctrl-Z), ~ is VT in FHeads[14] and FF in FHeads[18], @ is e-acute *)
FHeads  == <<"", ";", ";;", " ", "\t", "\n", "\n\n", "\r\n", "\r", "// c\n", "//@\n", ";\n", "$", "~", " \n",
             "\"\n\"", ";// c\n", "~\n">>
FBodies == <<"e", "e = 1.5", "e\n1", "e\r\n1", "e\r1", "\"a\nb\" e", "e // @\n1", "e;1", "e$1", "\te\t1", "e @ 1",
             "if e do\n  ret 1\nend">>
FTails  == <<"", "\n", "\n\n\n", "\r", "\r\n", " ", "\t", ";", "$", "\n;", "// c", "\"", "\n\r", "$">>
FilesSize == Len(FHeads) * Len(FBodies) * Len(FTails)
FileAt(idx) ==
    LET m == idx - 1
        tl == m % Len(FTails)
        b  == (m \div Len(FTails)) % Len(FBodies)
        h  == m \div (Len(FTails) * Len(FBodies))
    IN FHeads[h + 1] \o FBodies[b + 1] \o FTails[tl + 1]

---------------------------------------------------------------------------
(* fragment universe: all concatenations of 1..3 fragments, joined by "" or " " *)
Frags == <<"a", "e", "A9", "_", "if", "iff", "do", "end", "fn", "pu", "ret", "int", "str", "float",
           "bool", "void", "nil", "nile", "true", "truee", "false", "and", "or", "not", "loop",
           "break", "continue", "blob", "externblob", "enum", "case", "else", "elif", "is", "in",
           "use", "from", "as", "external",
           "0", "12", "1.", ".5", "1.5", "1e1", "1e-1", "1e+1", "1e", "1.e",
           "\"a\"", "\"\"", "\"a\nb\"", "\"\n\"", "\"", "\"x//y\"",
           "// c", "//", "/", "\n",
           "+", "-", "*", "+=", "-=", "*=", "/=", "#", ":", "::", ":=", "=", "==", "!=",
           "<=>", "<!>", "(", ")", "[", "]", "{", "}", ">", ">=", "<", "<=", "!", "?", "|", "'",
           ",", ".", "->", "<<<<<<<", ">>>>>>>", "<<<", "$", "\t", "\r", "\r\n",
           \* round 2: one representative per NonToken class (recorder: lambda, Devanagari 3, one half, EM SPACE,
           \* U+0301, undertie, BOM, emoji, FF) and the number forms on which the float regex is easily got wrong
           "@", "%", "^", "~", "`", "&", ";", "$", "~",
           "1e-+5", "1e+-5", "1E5", "1_0", "1..2", ".5.", "1e5e5", "e5", "1e+", "1.e5", "5e", "E">>
F == Len(Frags)
Seps == <<"", " ">>

\* index layout: block 1 = single fragments (F), block 2 = pairs x seps (F*F*2), block 3 = triples (F*F*F*4)
FragAt(idx) ==
    LET m == idx - 1 IN
    IF m < F THEN Frags[m + 1]
    ELSE LET m2 == m - F IN
      IF m2 < F * F * 2
      THEN LET s == m2 % 2  q == m2 \div 2 IN Frags[(q % F) + 1] \o Seps[s + 1] \o Frags[(q \div F) + 1]
      ELSE LET m3 == m2 - F * F * 2
               s1 == m3 % 2  s2 == (m3 \div 2) % 2  q == m3 \div 4 IN
           Frags[(q % F) + 1] \o Seps[s1 + 1] \o Frags[((q \div F) % F) + 1] \o Seps[s2 + 1]
             \o Frags[(q \div (F * F)) + 1]

---------------------------------------------------------------------------
(* long: unit^count \o window.  Validating 65 537 lines token by token is out of TLC's reach (every
   position is derived from the whole text), so the record carries the number of tokens, the last few
   tokens and some sampled tokens of the periodic prefix; the specification
     - requires every unit to end in a blank or newline and to lex without error (ASSUME UnitsOK), which
       makes unit boundaries token boundaries: the tokens of unit^count are count shifted copies of the
       tokens of the unit (ASSUME Periodic re-checks this consequence of longest match for count = 2),
     - derives the expected j-th prefix token arithmetically, with MkTok on the WHOLE text (so line and
       column still come from the text), and compares the samples and the token count (TracePrefix),
     - then runs the ordinary machine from the first character of the window (Origin).
   Recorder: @ is e-acute. *)
LUnits   == <<"\n", "e\n", "\r\n", " ", "e ", "\t", "\"@\" ", "//@\n", "\"\n\" ", "e \"a\nb\"\n">>
LCounts  == <<255, 256, 4095, 4096, 4097, 65535, 65536, 65537>>
LWindows == <<"e 1.5", "e@ \"a\nb\" e // c\n1", "\"@", "", "\n\ne">>
LongSize == Len(LUnits) * Len(LCounts) * Len(LWindows)
LongU(idx) == LUnits[((idx - 1) \div (Len(LWindows) * Len(LCounts))) + 1]
LongC(idx) == LCounts[(((idx - 1) \div Len(LWindows)) % Len(LCounts)) + 1]
LongW(idx) == LWindows[((idx - 1) % Len(LWindows)) + 1]

RECURSIVE Rep(_, _)
Rep(u, c) == IF c = 0 THEN ""
             ELSE IF c % 2 = 0 THEN LET h == Rep(u, c \div 2) IN h \o h
             ELSE u \o Rep(u, c - 1)
LongAt(idx) == Rep(LongU(idx), LongC(idx)) \o LongW(idx)

(* the specification's tokenisation of t from p as a function (stops after the first error token) *)
RECURSIVE LexFrom(_, _)
LexFrom(t, p) ==
    IF p > Len(t) THEN <<>>
    ELSE IF Ch(t, p) \in Blank THEN LexFrom(t, p + 1)
    ELSE LET ML == MatchLens(t, p) IN
         IF ML = {} THEN <<[k |-> "err", p |-> p, n |-> Rem(t, p)]>>
         ELSE LET L == SetMax(ML) IN <<[k |-> KindOf(t, p, L), p |-> p, n |-> L]>> \o LexFrom(t, p + L)
LexAll(t) == LexFrom(t, 1)

UnitOK(u) == /\ Len(u) >= 1 /\ Ch(u, Len(u)) \in Blank \cup {NL}
             /\ LET ut == LexAll(u) IN \A i \in 1..Len(ut) : ut[i].k # "err"
ASSUME UnitsOK == \A i \in 1..Len(LUnits) : UnitOK(LUnits[i])
ShiftToks(ts, d) == [i \in 1..Len(ts) |-> [ts[i] EXCEPT !.p = @ + d]]
ASSUME Periodic ==
    \A i \in 1..Len(LUnits) : \A w \in 1..Len(LWindows) :
        LET u == LUnits[i]  ut == LexAll(u)  all == LexAll(u \o u \o LWindows[w]) IN
        /\ Len(all) >= 2 * Len(ut)
        /\ SubSeq(all, 1, 2 * Len(ut)) = ut \o ShiftToks(ut, Len(u))

PrefToks(idx) == LongC(idx) * Len(LexAll(LongU(idx)))
ExpPrefixTok(t, u, jj) ==    \* (e is a bound variable so that TLC computes kind, position and length once)
    LET ut == LexAll(u)
        q  == (jj - 1) \div Len(ut)
        tk == ut[((jj - 1) % Len(ut)) + 1]
    IN CHOOSE x \in {MkTok(t, e[1], e[2], e[3]) : e \in {<<tk.k, q * Len(u) + tk.p, tk.n>>}} : TRUE

---------------------------------------------------------------------------
IsLong == Universe = "long"

UniverseSize ==
    CASE Universe = "ustrings" -> NumStringsOver(Len(UAlphabet), 4)
      [] Universe = "numgram"  -> NumStringsOver(Len(NumAlphabet), NumMaxLen)
      [] Universe = "numctx"   -> NumStringsOver(Len(NumAlphabet), NumCtxMaxLen) * Len(NumPre) * Len(NumPost)
      [] Universe = "uctx"     -> UCtxSize
      [] Universe = "files"    -> FilesSize
      [] Universe = "long"     -> LongSize
      [] OTHER                 -> 0
ExhCount ==
    CASE Universe = "ustrings" -> NumStringsOver(Len(UAlphabet), ExhLen)
      [] Universe = "numgram"  -> NumStringsOver(Len(NumAlphabet), ExhLen)
      [] Universe = "numctx"   -> NumStringsOver(Len(NumAlphabet), ExhLen) * Len(NumPre) * Len(NumPost)
      [] Universe \in {"uctx", "files"} -> IF ExhLen > 0 THEN UniverseSize ELSE 0
      [] OTHER                 -> 0
Indexed == Universe \in {"ustrings", "numgram", "numctx", "uctx", "files", "long"}

\* the recorder announces how many exhaustive records it wrote; it has to be what the specification asks for
ASSUME ExhAgreed == EnvInt("EXPECT_EXH", ExhCount) = ExhCount

CaseText(kk) == CASE Universe = "strings"  -> StringAt(Offset + kk)
                  [] Universe = "frags"    -> FragAt(Rec[kk].idx)
                  [] Universe = "ustrings" -> StringAtOver(UAlphabet, Rec[kk].idx)
                  [] Universe = "numgram"  -> StringAtOver(NumAlphabet, Rec[kk].idx)
                  [] Universe = "numctx"   -> NumCtxAt(Rec[kk].idx)
                  [] Universe = "uctx"     -> UCtxAt(Rec[kk].idx)
                  [] Universe = "files"    -> FileAt(Rec[kk].idx)
                  [] Universe = "long"     -> LongAt(Rec[kk].idx)
                  [] OTHER                 -> Rec[kk].input

IndexOK(kk) == Indexed => /\ Rec[kk].idx \in 1..UniverseSize
                          /\ (Offset + kk <= ExhCount) => Rec[kk].idx = Offset + kk

Origin == IF IsLong THEN LongC(Rec[k].idx) * Len(LongU(Rec[k].idx)) + 1 ELSE 1

---------------------------------------------------------------------------
NT == Len(Rec[k].toks)

TokEq(t, r) == /\ r.k = t.k
               /\ r.line = t.line /\ r.cs = t.cs /\ r.lend = t.lend /\ r.ce = t.ce
               /\ (t.k \in {"id", "str", "fx", "bool", "nil"} => r.txt = t.txt)

TraceInit ==
    /\ k \in 1..N
    /\ text = CaseText(k)
    /\ Assert(Rec[k].input = text, <<"universe mismatch at record", k, Rec[k].input, text>>)
    /\ Assert(IndexOK(k), <<"record index outside the universe or exhaustive part incomplete", k>>)
    /\ toks = <<>>
    /\ IF IsLong
         THEN /\ pos = LongC(Rec[k].idx) * Len(LongU(Rec[k].idx)) + 1
              /\ j = PrefToks(Rec[k].idx) - Rec[k].first + 2
              /\ st = "prefix"
         ELSE pos = 1 /\ j = 1 /\ st = "run"

(* long texts: the periodic prefix *)
PrefixCountOK == LET r == Rec[k]  P == PrefToks(r.idx) IN r.first <= P + 1 /\ P <= r.ntoks
PrefixBad ==   \* the recorded prefix tokens (sampled ones and those at the head of the recorded tail) that are not the expected ones
    LET r == Rec[k]  P == PrefToks(r.idx)  u == LongU(r.idx) IN
    {r.samples[s].j : s \in {s \in 1..Len(r.samples) :
                                /\ r.samples[s].j <= P
                                /\ ~TokEq(ExpPrefixTok(text, u, r.samples[s].j), r.samples[s].t)}}
    \cup {r.first + i - 1 : i \in {i \in 1..Len(r.toks) :
                                /\ r.first + i - 1 <= P
                                /\ ~TokEq(ExpPrefixTok(text, u, r.first + i - 1), r.toks[i])}}

TracePrefix ==
    /\ st = "prefix"
    /\ IF ~PrefixCountOK
         THEN /\ st' = "fail"
              /\ PrintT(<<"REJECT", ToJson([rec |-> k, tok |-> 0, pos |-> 0, why |-> "prefix-token-count",
                                            expected |-> {}, at |-> "none", next |-> "none", numlike |-> FALSE,
                                            bad |-> {PrefToks(Rec[k].idx)}])>>)
         ELSE LET bad == PrefixBad IN
              IF bad # {}
                THEN /\ st' = "fail"
                     /\ PrintT(<<"REJECT", ToJson([rec |-> k, tok |-> 0, pos |-> 0, why |-> "prefix-token",
                                                   expected |-> {}, at |-> "none", next |-> "none", numlike |-> FALSE, bad |-> bad])>>)
                ELSE st' = "run"
    /\ UNCHANGED <<text, pos, toks, k, j>>

TraceSkip == /\ st = "run" /\ SkipBlank /\ UNCHANGED <<k, j, st>>

\* (total: TLC evaluates every disjunct of TraceReject's guard, also when an earlier one already holds)
Matching == IF j <= NT /\ pos <= Len(text) THEN {t \in Expected(text, pos) : TokEq(t, Rec[k].toks[j])} ELSE {}

TraceEmit ==
    /\ st = "run" /\ j <= NT
    /\ (EmitLongest \/ EmitError)
    /\ TokEq(toks'[Len(toks')], Rec[k].toks[j])
    /\ j' = j + 1
    /\ UNCHANGED <<k, st>>

TraceAccept ==
    /\ st = "run" /\ pos > Len(text) /\ j > NT
    /\ st' = "ok"
    /\ UNCHANGED <<text, pos, toks, k, j>>

Why == IF pos > Len(text) THEN "extra-token"
       ELSE IF j > NT THEN "missing-token"
       ELSE "token-mismatch"

(* case description for the signature: the class of the character at which the next token has to start,
   and whether the recorded token is "a number with non-ASCII decimal digits": its (single-line) span
   contains a UniDigit and would be an int or a float if every UniDigit in it were an ASCII digit *)
RECURSIVE AsciiDigits(_)
AsciiDigits(s) == IF s = "" THEN ""
                  ELSE (IF Ch(s, 1) \in UniDigit THEN "1" ELSE Ch(s, 1)) \o AsciiDigits(SubSeq(s, 2, Len(s)))
NumLike ==
    /\ pos <= Len(text) /\ j <= NT
    /\ LET r == Rec[k].toks[j]  n == r.ce - r.cs IN
       /\ r.lend = r.line /\ n >= 1 /\ pos + n - 1 <= Len(text)
       /\ \E q \in pos..(pos + n - 1) : Ch(text, q) \in UniDigit
       /\ LET s == AsciiDigits(Sub(text, pos, n)) IN IsInt(s, 1, n) \/ IsFloat(s, 1, n)

NextClass ==   \* the class of the character that follows the expected token
    IF pos <= Len(text) /\ MatchLens(text, pos) # {}
      THEN LET q == pos + SetMax(MatchLens(text, pos)) IN IF q <= Len(text) THEN ClassName(Ch(text, q)) ELSE "end"
      ELSE "none"

TraceReject ==
    /\ st = "run" /\ ~AtBlank
    /\ ~(pos > Len(text) /\ j > NT)
    /\ (pos > Len(text) \/ j > NT \/ Matching = {})
    /\ st' = "fail"
    /\ PrintT(<<"REJECT", ToJson([rec |-> k, tok |-> j, pos |-> pos, why |-> Why,
                                  expected |-> IF pos <= Len(text) /\ MatchLens(text, pos) # {}
                                               THEN Expected(text, pos) ELSE {},
                                  at |-> IF pos <= Len(text) THEN ClassName(Ch(text, pos)) ELSE "end",
                                  next |-> NextClass, numlike |-> NumLike, bad |-> {}])>>)
    /\ UNCHANGED <<text, pos, toks, k, j>>

TraceNext == TracePrefix \/ TraceSkip \/ TraceEmit \/ TraceAccept \/ TraceReject

TraceSpec == TraceInit /\ [][TraceNext]_tvars

\* every spec invariant is evaluated in every state of every validated trace
TraceInv == /\ TilingFrom(Origin) /\ Maximal /\ PositionsSane /\ PosInRange
            /\ ~IsLong => NonTokenConfined

\* the trace machine never gets stuck silently: a running state always has a successor
TraceTotal == st \in {"run", "prefix"} => ENABLED TraceNext
=============================================================================
