------------------------------- MODULE MC_Sem -------------------------------
(***************************************************************************)
(* The C01 universe run through the dynamic semantics.                     *)
(* One behaviour per program: Init picks a case of the pairwise-nesting    *)
(* universe (or, in trace mode, reads programs from a file), InitGlobal    *)
(* runs the top-level initialisers one by one in program order, CallStart  *)
(* runs start(), Emit prints the expected observation as a REPLAY record.  *)
(* Invariants checked in every state: heap references are valid, frames    *)
(* form a forest, the spec's own strict semantics never gets stuck on a    *)
(* program of the typed generator (bounded type soundness of the SPEC).    *)
(***************************************************************************)
EXTENDS SyltSem, SyltOrder, Json, IOUtils

VARIABLES id, prog, S, next, pc
vars == <<id, prog, S, next, pc>>

Fuel == 400

Mode == IF "MODE" \in DOMAIN IOEnv THEN IOEnv.MODE ELSE "pairs"
Shard == IF "SHARD" \in DOMAIN IOEnv THEN atoi(IOEnv.SHARD) ELSE 0
NShards == IF "NSHARDS" \in DOMAIN IOEnv THEN atoi(IOEnv.NSHARDS) ELSE 1
Progs == IF Mode = "file" THEN ndJsonDeserialize(IOEnv.PROGS) ELSE <<>>

\* one case = (outer, hole, inner, instance, harness)
PairCases ==
  UNION { UNION { {[o |-> p[1], pos |-> p[2], i |-> p[3], h |-> hn, e |-> e]
                     : hn \in HarnessNames(ResultType(p[1]), UsesLocals(p[1]) \/ UsesLocals(p[3]))}
                  : e \in Nest(p[1], p[2], p[3]) }
          : p \in Pairs }

\* single templates with default holes
SingleCases ==
  UNION { UNION { {[o |-> n, pos |-> 0, i |-> "-", h |-> hn, e |-> e] : hn \in HarnessNames(ResultType(n), UsesLocals(n))}
                  : e \in Instances(n, 100, 0) }
          : n \in TemplateNames }

Init ==
  /\ pc = "init" /\ next = 1 /\ S = NewState(Fuel)
  /\ IF Mode = "file"
     THEN \E k \in 1..Len(Progs) : id = [file |-> k] /\ prog = Progs[k].tops
     ELSE \/ /\ Mode \in {"pairs", "singles"}
             /\ \E cs \in (IF Mode = "singles" THEN SingleCases ELSE PairCases \cup SingleCases) :
                  /\ id = [o |-> cs.o, pos |-> cs.pos, i |-> cs.i, h |-> cs.h]
                  /\ prog = Harness(cs.h, cs.e, ResultType(cs.o))
          \* evaluation order under interleaved effects (SyltOrder)
          \/ /\ Mode \in {"pairs", "singles", "order"}
             /\ \E cs \in OrderCases :
                  /\ id = [o |-> cs.o, pos |-> cs.pos, i |-> cs.i, h |-> cs.h]
                  /\ prog = HOrder(cs.e)
          \/ /\ Mode \in {"pairs", "singles", "order"}
             /\ \E cs \in StmtCases :
                  /\ id = [o |-> cs.o, pos |-> cs.pos, i |-> cs.i, h |-> cs.h]
                  /\ prog = HOrderStmt(cs.body)
          \* values that differ per activation, live across a re-entrant call (SyltOrder)
          \/ /\ Mode \in {"pairs", "singles", "reent", "reentsingles"}
             /\ \E cs \in (IF Mode \in {"singles", "reentsingles"} THEN ReentSingles ELSE ReentPairs \cup ReentSingles) :
                  /\ id = [o |-> cs.o, pos |-> cs.pos, i |-> cs.i, h |-> cs.h]
                  /\ prog = HRecDep(cs.e, cs.ty)
          \/ /\ Mode \in {"pairs", "singles", "reent", "reentsingles", "reentbig"}
             /\ \E cs \in ReentBig :
                  /\ id = [o |-> cs.o, pos |-> cs.pos, i |-> cs.i, h |-> cs.h]
                  /\ prog = HRecDepBig(cs.e, cs.ty, cs.k)

StartId == LET c == {t \in 1..Len(prog) : prog[t].k = "def" /\ prog[t].n = "start"} IN
           IF c = {} THEN 0 - 5 ELSE prog[CHOOSE t \in c : TRUE].b

InitGlobal ==
  /\ pc = "init" /\ next <= Len(prog) /\ S.status = "run"
  /\ LET r == InitTop(prog[next], S) IN S' = r.s
  /\ next' = next + 1
  /\ UNCHANGED <<id, prog, pc>>

CallStartA ==
  /\ pc = "init" /\ next > Len(prog) /\ S.status = "run"
  /\ LET r == CallStart(StartId, S) IN S' = r.s
  /\ pc' = "ran"
  /\ UNCHANGED <<id, prog, next>>

Abort ==    \* an initialiser halted the program
  /\ pc = "init" /\ S.status # "run"
  /\ pc' = "ran"
  /\ UNCHANGED <<id, prog, S, next>>

Emit ==
  /\ pc = "ran"
  /\ pc' = "done"
  /\ PrintT(<<"REPLAY", ToJson([id |-> id, tops |-> prog, out |-> S.out, status |-> S.status])>>)
  /\ UNCHANGED <<id, prog, S, next>>

Next == InitGlobal \/ CallStartA \/ Abort \/ Emit
Spec == Init /\ [][Next]_vars

---------------------------------------------------------------------------
HeapOk ==
  \A a \in 1..Len(S.heap) :
     LET o == S.heap[a] IN
     o.k = "frame" => o.parent \in 0..(a - 1)      \* parents are older: the frame forest is acyclic

\* programs of the typed generator never get stuck in the spec's own strict semantics
GeneratorSound == Mode # "file" => ~(Len(S.status) >= 5 /\ SubSeq(S.status, 1, 5) = "stuck")

Terminal == pc = "done" => S.status \in {"done", "assert_failed", "unreachable"}
                           \/ SubSeq(S.status, 1, 4) = "drop" \/ SubSeq(S.status, 1, 5) = "stuck"
=============================================================================
