----------------------------- MODULE SyltLexNum -----------------------------
(***************************************************************************)
(* The VALUES of number tokens (property C17, round 3).                    *)
(*                                                                         *)
(* The documented token set (sylt-tokenizer/src/token.rs read as           *)
(* documentation) gives the two number classes a value:                    *)
(*   Int(i64)    a run of ASCII digits; its value is the decimal value of  *)
(*               the run.  A run whose value does not fit a signed 64-bit  *)
(*               integer (> 9223372036854775807) is NOT an Int token: the  *)
(*               conversion fails and the run is an Error token.           *)
(*   Float(f64)  X. | .Y | X.Y | XeY | Xe-Y | Xe+Y ; its value is the IEEE *)
(*               double nearest to the decimal value (ties to even), which *)
(*               is +infinity from 1.797693134862315807...e308 upwards and *)
(*               zero up to 2.4703282292062327208...e-324.  The conversion *)
(*               never fails.                                              *)
(*                                                                         *)
(* TLC integers have 32 bits, so digit runs are handled symbolically:      *)
(* decimal strings are compared by length, then lexicographically, and     *)
(* values are compared AS STRINGS.  The recorder prints an Int value in    *)
(* decimal and a Float value in the shortest scientific form that reads    *)
(* back as the same double ("1.5e0", "1e308", "0e0", "inf").  For a float  *)
(* the specification states                                                *)
(*   - its class: zero / finite and not zero / infinite (undecided only    *)
(*     when the first 17 significant digits are exactly those of the two   *)
(*     rounding boundaries), and                                           *)
(*   - its exact shortest form when the literal has at most 15 significant *)
(*     digits and a decimal exponent in -300..300: decimals of at most 15  *)
(*     digits and doubles correspond one to one in that range, so the      *)
(*     shortest form of the nearest double is the literal itself,          *)
(*     normalised.                                                         *)
(***************************************************************************)
EXTENDS Integers, Sequences, TLC

LxCh(s, i) == SubSeq(s, i, i)
LxDigits == <<"0", "1", "2", "3", "4", "5", "6", "7", "8", "9">>
LxVal(c) == CHOOSE v \in 0..9 : LxDigits[v + 1] = c

\* number of leading zeros of s counted from index i
RECURSIVE LxLeadZerosFrom(_, _)
LxLeadZerosFrom(s, i) == IF i <= Len(s) /\ LxCh(s, i) = "0" THEN LxLeadZerosFrom(s, i + 1) ELSE i - 1
LxLeadZeros(s) == LxLeadZerosFrom(s, 1)
LxStrip(s) == SubSeq(s, LxLeadZeros(s) + 1, Len(s))          \* "" for a run of zeros

\* index of the last character of s[1..i] that is not "0" (0 if there is none)
RECURSIVE LxLastNonZero(_, _)
LxLastNonZero(s, i) == IF i >= 1 /\ LxCh(s, i) = "0" THEN LxLastNonZero(s, i - 1) ELSE i

\* a < b for decimal strings without leading zeros: by length, then lexicographically
LxLess(a, b) ==
    \/ Len(a) < Len(b)
    \/ /\ Len(a) = Len(b)
       /\ \E q \in 1..Len(a) : /\ LxVal(LxCh(a, q)) < LxVal(LxCh(b, q))
                                /\ \A e \in 1..(q - 1) : LxCh(a, e) = LxCh(b, e)

---------------------------------------------------------------------------
(* Int *)
I64Max == "9223372036854775807"

\* does the digit run s denote a value that fits a signed 64-bit integer?
IntFits(s) == \/ Len(s) <= 18
              \/ \E v \in {LxStrip(s)} : v = I64Max \/ LxLess(v, I64Max)

\* the value of the digit run s, in decimal
IntValue(s) == LET v == LxStrip(s) IN IF v = "" THEN "0" ELSE v

---------------------------------------------------------------------------
(* Float *)
RECURSIVE LxFirstFrom(_, _, _)      \* index of the first c in s at or after i, 0 if none
LxFirstFrom(s, c, i) == IF i > Len(s) THEN 0 ELSE IF LxCh(s, i) = c THEN i ELSE LxFirstFrom(s, c, i + 1)

RECURSIVE LxToNat(_, _, _)          \* value of the digits s[i..] (at most 6 of them)
LxToNat(s, i, acc) == IF i > Len(s) THEN acc ELSE LxToNat(s, i + 1, 10 * acc + LxVal(LxCh(s, i)))

(* s matches one of the float forms.  d: all mantissa digits, ip: how many of them stand before the point,
   ex: the exponent, huge: -1 / 1 when the exponent has more than six significant digits *)
FloatParts(s) ==
    LET dot == LxFirstFrom(s, ".", 1) IN
    IF dot > 0
      THEN [d |-> SubSeq(s, 1, dot - 1) \o SubSeq(s, dot + 1, Len(s)), ip |-> dot - 1, huge |-> 0, ex |-> 0]
      ELSE LET e   == LxFirstFrom(s, "e", 1)
               neg == LxCh(s, e + 1) = "-"
               st  == IF LxCh(s, e + 1) \in {"-", "+"} THEN e + 2 ELSE e + 1
               ed  == LxStrip(SubSeq(s, st, Len(s)))
           IN IF Len(ed) > 6
                THEN [d |-> SubSeq(s, 1, e - 1), ip |-> e - 1, huge |-> IF neg THEN 0 - 1 ELSE 1, ex |-> 0]
                ELSE [d |-> SubSeq(s, 1, e - 1), ip |-> e - 1, huge |-> 0,
                      ex |-> IF neg THEN 0 - LxToNat(ed, 1, 0) ELSE LxToNat(ed, 1, 0)]

F64OverTie  == "17976931348623158"     \* first 17 digits of (largest double + half an ulp) = 1.797693134862315807...e308
F64UnderTie == "24703282292062327"     \* first 17 digits of half the smallest denormal     = 2.4703282292062327208...e-324
LxPad17(sig) == SubSeq(sig \o "00000000000000000", 1, 17)

\* d1.d2...dk e X, the way the recorder prints a finite non-zero double
LxSci(sig, X) == LxCh(sig, 1) \o (IF Len(sig) > 1 THEN "." \o SubSeq(sig, 2, Len(sig)) ELSE "") \o "e" \o ToString(X)

(* [cls, exact]: cls in zero | finite | inf | any ; exact: the printed value, "" when the specification leaves it open *)
FloatExpect(s) ==
    LET fp == FloatParts(s)
        lz == LxLeadZeros(fp.d)
    IN IF lz = Len(fp.d) THEN [cls |-> "zero", exact |-> "0e0"]
       ELSE IF fp.huge = 1 THEN [cls |-> "inf", exact |-> "inf"]
       ELSE IF fp.huge = 0 - 1 THEN [cls |-> "zero", exact |-> "0e0"]
       ELSE LET sig == SubSeq(fp.d, lz + 1, LxLastNonZero(fp.d, Len(fp.d)))
                X   == fp.ip - lz - 1 + fp.ex          \* value = 0.d1d2... * 10^(X+1) = d1.d2... * 10^X
                m17 == LxPad17(sig)
                cls == IF X > 308 THEN "inf"
                       ELSE IF X = 308 THEN (IF LxLess(m17, F64OverTie) THEN "finite" ELSE IF m17 = F64OverTie THEN "any" ELSE "inf")
                       ELSE IF X < 0 - 324 THEN "zero"
                       ELSE IF X = 0 - 324 THEN (IF LxLess(m17, F64UnderTie) THEN "zero" ELSE IF m17 = F64UnderTie THEN "any" ELSE "finite")
                       ELSE "finite"
            IN [cls |-> cls,
                exact |-> CASE cls = "zero" -> "0e0"
                            [] cls = "inf"  -> "inf"
                            [] cls = "finite" /\ Len(sig) <= 15 /\ X >= 0 - 300 /\ X <= 300 -> LxSci(sig, X)
                            [] OTHER -> ""]

\* is v (as printed by the recorder) the value the specification gives the float literal s?
FloatValOK(s, v) ==
    \E fe \in {FloatExpect(s)} :
        CASE fe.cls = "any"    -> TRUE
          [] fe.cls = "finite" -> v # "inf" /\ v # "0e0" /\ (fe.exact # "" => v = fe.exact)
          [] OTHER             -> v = fe.exact

---------------------------------------------------------------------------
(* The definitions above on the documented limits (evaluated by TLC at start-up) *)
ASSUME NumSane ==
    /\ IntFits("0") /\ IntFits("9223372036854775807") /\ ~IntFits("9223372036854775808")
    /\ ~IntFits("18446744073709551615") /\ ~IntFits("18446744073709551616") /\ ~IntFits("10000000000000000000")
    /\ IntFits("0000000000000000000009223372036854775807") /\ ~IntFits("0000000000000000000009223372036854775808")
    /\ IntFits("00000000000000000000000000") /\ IntFits("8999999999999999999") /\ ~IntFits("9300000000000000000")
    /\ IntValue("000") = "0" /\ IntValue("0012") = "12" /\ IntValue("9223372036854775807") = "9223372036854775807"
    /\ FloatExpect("1.5") = [cls |-> "finite", exact |-> "1.5e0"]
    /\ FloatExpect(".5") = [cls |-> "finite", exact |-> "5e-1"]
    /\ FloatExpect("5.") = [cls |-> "finite", exact |-> "5e0"]
    /\ FloatExpect("0.") = [cls |-> "zero", exact |-> "0e0"]
    /\ FloatExpect("0e5") = [cls |-> "zero", exact |-> "0e0"]
    /\ FloatExpect("150.00") = [cls |-> "finite", exact |-> "1.5e2"]
    /\ FloatExpect("0.0015") = [cls |-> "finite", exact |-> "1.5e-3"]
    /\ FloatExpect("12e-1") = [cls |-> "finite", exact |-> "1.2e0"]
    /\ FloatExpect("1e+300") = [cls |-> "finite", exact |-> "1e300"]
    /\ FloatExpect("1e308") = [cls |-> "finite", exact |-> ""]
    /\ FloatExpect("1e309").cls = "inf" /\ FloatExpect("17976931348623157e292").cls = "finite"
    /\ FloatExpect("17976931348623158e292").cls = "any" /\ FloatExpect("17976931348623159e292").cls = "inf"
    /\ FloatExpect("1e-324").cls = "zero" /\ FloatExpect("3e-324").cls = "finite" /\ FloatExpect("1e-323").cls = "finite"
    /\ FloatExpect("1e99999999999999999999").cls = "inf" /\ FloatExpect("1e-99999999999999999999").cls = "zero"
    /\ FloatExpect("0e99999999999999999999").cls = "zero" /\ FloatExpect("1e0000000000000000000002").exact = "1e2"
=============================================================================
