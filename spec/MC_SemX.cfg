SPECIFICATION Spec
INVARIANTS HeapOk GeneratorSound
CHECK_DEADLOCK FALSE
