--------------------------- MODULE MC_Determinism ---------------------------
(* Model constants for checking SyltDeterminism on its own (spec-level self-test). *)
EXTENDS SyltDeterminism
MCInputs == {"i1", "i2"}
MCProcs == {"in", "x1"}
MCResults == {[class |-> "ok", digest |-> "aa"], [class |-> "ok", digest |-> "bb"], [class |-> "err", digest |-> "cc"]}
MCFunction == "function"
MCFree == "free"
ASSUME UniverseWellFormed
=============================================================================
