----------------------------- MODULE MC_Pipeline -----------------------------
(* The outcome protocol on its own, with small bounds: self-consistency of SyltPipeline. *)
EXTENDS SyltPipeline

\* the index-addressed universe is well formed: sizes, first and last elements, injectivity on a prefix
UniverseSane ==
    /\ NumTokenStrings(Tok20, 4) = 168421
    /\ NumTokenStrings(Tok20, 5) = 3368421
    /\ NumTokenStrings(Tok31, 3) = 30784
    /\ NumTokenStrings(Tok31, 4) = 954305
    /\ TokenStringAt(Tok20, 1) = ""
    /\ TokenStringAt(Tok20, 2) = "a"
    /\ TokenStringAt(Tok20, 21) = "use"
    /\ TokenStringAt(Tok20, 22) = "a a"
    /\ TokenStringAt(Tok20, 23) = "A a"
    /\ TokenStringAt(Tok20, 168421) = "use use use use"
    /\ TokenStringAt(Tok31, 954305) = "case case case case"
    /\ TokenTextAt(Tok20, 23, "raw") = "A a"
    /\ TokenTextAt(Tok20, 23, "top") = "A a" \o NL \o "start :: fn do end" \o NL
    /\ TokenTextAt(Tok20, 23, "body") = "start :: fn do" \o NL \o "A a" \o NL \o "end" \o NL
    /\ Cardinality(Inputs) = NumInputs
ASSUME UniverseSane
=============================================================================
