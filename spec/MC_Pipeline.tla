----------------------------- MODULE MC_Pipeline -----------------------------
(* The outcome protocol on its own, with small bounds: self-consistency of SyltPipeline. *)
EXTENDS SyltPipeline

\* the index-addressed universe is well formed: sizes, first and last elements, injectivity on a prefix
UniverseSane ==
    /\ NumTokenStrings(Tok20, 4) = 168421
    /\ NumTokenStrings(Tok20, 5) = 3368421
    /\ NumTokenStrings(Tok31, 3) = 30784
    /\ NumTokenStrings(Tok31, 4) = 954305
    /\ TokenStringAt(Tok20, 1) = ""
    /\ TokenStringAt(Tok20, 2) = "a"
    /\ TokenStringAt(Tok20, 21) = "use"
    /\ TokenStringAt(Tok20, 22) = "a a"
    /\ TokenStringAt(Tok20, 23) = "A a"
    /\ TokenStringAt(Tok20, 168421) = "use use use use"
    /\ TokenStringAt(Tok31, 954305) = "case case case case"
    /\ TokenTextAt(Tok20, 23, "raw") = "A a"
    /\ TokenTextAt(Tok20, 23, "top") = "A a" \o NL \o "start :: fn do end" \o NL
    /\ TokenTextAt(Tok20, 23, "body") = "start :: fn do" \o NL \o "A a" \o NL \o "end" \o NL
    /\ Cardinality(Inputs) = NumInputs
ASSUME UniverseSane

\* the families of structured programs: sizes, corner elements, unique ids, the nesting bound
FamIds(f) == {FamCase(f, i).id : i \in 1..FamSize(f)}
FamiliesSane ==
    /\ Families = <<"nest", "nestraw", "nestsolo", "place", "cyc", "selfty", "text", "entry">>
    /\ NestK = 22 /\ FamSize("nest") = 22 * 22 * 16 /\ FamSize("nestraw") = 4 * 4 * 16 /\ FamSize("nestsolo") = 10 * 16 + 8
    /\ FamSize("place") = 5 * 13 * 4 * 2 + 14 * 8 /\ FamSize("cyc") = 512 /\ FamSize("selfty") = 11 * 22 * 2
    /\ FamSize("text") = 4 * 4 * 3 * 3 * 7 * 3 * 3 /\ FamSize("entry") = 8 * 5 * 5 * 6 + 8 * 6
    /\ TextCase(1).id = "text:string:n1:b2:first:l0:none:none" /\ TextCase(TextSize).id = "text:errchar:n4:b4:last:l6:ident:here"
    /\ TextCase(2269 + 567 + 189 + 3).files[1].text =          \* comment, 2 lines, 3-byte characters on the first line, op, none
          FamLines(<<"y :: " \o DQ \o "t" \o DQ, "// @3@a@3@ab", "s :: " \o DQ \o "t" \o DQ \o " + " \o DQ \o "t" \o DQ \o " // ">>
                   \o <<"start :: fn do", "end">>)
    /\ EntryCase(151).id = "entry:fromuse:fnvoid:fnvoid:single:nostd" /\ EntryCase(152).files[2].text = "start :: fn do end" \o NL
    /\ NestId(1) = "nest:ifbody/ifbody:d8:last:ok" /\ NestId(2) = "nest:ifbody/ifbody:d8:last:err"
    /\ NestId(3) = "nest:ifbody/ifbody:d8:mid:ok" /\ NestId(5) = "nest:ifbody/ifbody:d16:last:ok"
    /\ NestId(17) = "nest:ifbody/ifcond:d8:last:ok" /\ NestId(NestSize) = "nest:neg/neg:d32:mid:err"
    /\ NestCase(1).files[1].text = NestPrelude \o FamLines(<<"h :: fn -> int do", "q := 0",
            "if true do", "if true do", "if true do", "if true do", "if true do", "if true do", "if true do", "if true do", "1",
            "else", "0", "end", "else", "0", "end", "else", "0", "end", "else", "0", "end",
            "else", "0", "end", "else", "0", "end", "else", "0", "end", "else", "0", "end",
            "end", "start :: fn do", "w := h()", "end">>)
    /\ \A f \in {"nestraw", "nestsolo", "place", "cyc", "selfty", "text", "entry"} : Cardinality(FamIds(f)) = FamSize(f)
    /\ Cardinality({NestId(i) : i \in 1..NestSize}) = NestSize
    \* every member is nested at least as deep as its depth class says and never deeper than the bound of the property
    /\ \A i \in 1..NestSize : NestPiece(i).n >= NestDepthOf(i - 1) /\ NestPiece(i).n <= NestDepthOf(i - 1) + 1
    /\ NestDepths[Len(NestDepths)] + 1 <= NestMaxLevels /\ NestMaxLevels = 40
    /\ \A f \in {"nestsolo", "place", "cyc", "selfty", "text", "entry"} : \A i \in 1..FamSize(f) :
          LET c == FamCase(f, i) IN c.files[1].name = "main.sy" /\ \A q \in 1..Len(c.files) : Len(c.files[q].text) > 0
ASSUME FamiliesSane
=============================================================================
