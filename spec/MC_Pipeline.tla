----------------------------- MODULE MC_Pipeline -----------------------------
(* The outcome protocol on its own, with small bounds: self-consistency of SyltPipeline. *)
EXTENDS SyltPipeline

\* the index-addressed universe is well formed: sizes, first and last elements, injectivity on a prefix
UniverseSane ==
    /\ NumTokenStrings(Tok20, 4) = 168421
    /\ NumTokenStrings(Tok20, 5) = 3368421
    /\ NumTokenStrings(Tok31, 3) = 30784
    /\ NumTokenStrings(Tok31, 4) = 954305
    /\ TokenStringAt(Tok20, 1) = ""
    /\ TokenStringAt(Tok20, 2) = "a"
    /\ TokenStringAt(Tok20, 21) = "use"
    /\ TokenStringAt(Tok20, 22) = "a a"
    /\ TokenStringAt(Tok20, 23) = "A a"
    /\ TokenStringAt(Tok20, 168421) = "use use use use"
    /\ TokenStringAt(Tok31, 954305) = "case case case case"
    /\ TokenTextAt(Tok20, 23, "raw") = "A a"
    /\ TokenTextAt(Tok20, 23, "top") = "A a" \o NL \o "start :: fn do end" \o NL
    /\ TokenTextAt(Tok20, 23, "body") = "start :: fn do" \o NL \o "A a" \o NL \o "end" \o NL
    /\ Cardinality(Inputs) = NumInputs
ASSUME UniverseSane

\* the families of structured programs: sizes, corner elements, unique ids, the nesting bound
FamIds(f) == {FamCase(f, i).id : i \in 1..FamSize(f)}
FamiliesSane ==
    /\ Families = <<"nest", "nestraw", "nestsolo", "place", "cyc", "selfty", "text", "entry", "lit", "hist">>
    /\ NestK = 22 /\ FamSize("nest") = 22 * 22 * 16 /\ FamSize("nestraw") = 4 * 4 * 16 /\ FamSize("nestsolo") = 10 * 16 + 8
    /\ FamSize("place") = 5 * 13 * 4 * 2 + 14 * 8 /\ FamSize("cyc") = 768 /\ FamSize("selfty") = 11 * 22 * 2
    /\ FamSize("text") = 4 * 4 * 3 * 3 * 7 * 3 * 3 /\ FamSize("entry") = 8 * 5 * 5 * 6 + 8 * 6
    /\ TextCase(1).id = "text:string:n1:b2:first:l0:none:none" /\ TextCase(TextSize).id = "text:errchar:n4:b4:last:l6:ident:here"
    /\ TextCase(2269 + 567 + 189 + 3).files[1].text =          \* comment, 2 lines, 3-byte characters on the first line, op, none
          FamLines(<<"y :: " \o DQ \o "t" \o DQ, "// @3@a@3@ab", "s :: " \o DQ \o "t" \o DQ \o " + " \o DQ \o "t" \o DQ \o " // ">>
                   \o <<"start :: fn do", "end">>)
    /\ EntryCase(151).id = "entry:fromuse:fnvoid:fnvoid:single:nostd" /\ EntryCase(152).files[2].text = "start :: fn do end" \o NL
    /\ NestId(1) = "nest:ifbody/ifbody:d8:last:ok" /\ NestId(2) = "nest:ifbody/ifbody:d8:last:err"
    /\ NestId(3) = "nest:ifbody/ifbody:d8:mid:ok" /\ NestId(5) = "nest:ifbody/ifbody:d16:last:ok"
    /\ NestId(17) = "nest:ifbody/ifcond:d8:last:ok" /\ NestId(NestSize) = "nest:neg/neg:d32:mid:err"
    /\ NestCase(1).files[1].text = NestPrelude \o FamLines(<<"h :: fn -> int do", "q := 0",
            "if true do", "if true do", "if true do", "if true do", "if true do", "if true do", "if true do", "if true do", "1",
            "else", "0", "end", "else", "0", "end", "else", "0", "end", "else", "0", "end",
            "else", "0", "end", "else", "0", "end", "else", "0", "end", "else", "0", "end",
            "end", "start :: fn do", "w := h()", "end">>)
    /\ \A f \in {"nestraw", "nestsolo", "place", "cyc", "selfty", "text", "entry"} : Cardinality(FamIds(f)) = FamSize(f)
    /\ Cardinality({NestId(i) : i \in 1..NestSize}) = NestSize
    \* every member is nested at least as deep as its depth class says and never deeper than the bound of the property
    /\ \A i \in 1..NestSize : NestPiece(i).n >= NestDepthOf(i - 1) /\ NestPiece(i).n <= NestDepthOf(i - 1) + 1
    /\ NestDepths[Len(NestDepths)] + 1 <= NestMaxLevels /\ NestMaxLevels = 40
    /\ \A f \in {"nestsolo", "place", "cyc", "selfty", "text", "entry"} : \A i \in 1..FamSize(f) :
          LET c == FamCase(f, i) IN c.files[1].name = "main.sy" /\ \A q \in 1..Len(c.files) : Len(c.files[q].text) > 0
ASSUME FamiliesSane

\* the round-3 families: literal arithmetic towards the numeric limits, histories
LitHistSane ==
    /\ LitNE = 144 + 64 + 18 + 9 + 72 + 12 * 12 * 2 + 12 /\ FamSize("lit") = LitNE * 12 + 432 * 3 + 10
    /\ LitCase(1).id = "lit:bin:0_add_0:const" /\ LitCase(LitSize).id = "lit:index:340282366920938463463374607431768211456:tindex"
    \* seven small literals whose product is beyond 2^63 (nanoseconds in a million days), flat, as a constant
    /\ LET i == (144 + 64 + 18 + 9 + 72 + (2 * 12 + 5) * 2) * 12 + 1 IN
          /\ LitCase(i).id = "lit:chain:units:n7:left:const"
          /\ LitCase(i).files[1].text = LitPrelude \o FamLines(<<"x :: 1000000 * 24 * 60 * 60 * 1000 * 1000 * 1000",
                                                                 "start :: fn do", "q := 0", "w := x", "end">>)
    /\ LitChainR(<<"0", "4611686018427387904">>, "-", 1, 3) = "0 - (4611686018427387904 - (0))"
    /\ Cardinality(FamIds("lit")) = FamSize("lit")
    \* every literal of the in-range pools has at most 19 digits (it is a token); every one of LitLex has more or is 2^63
    /\ \A q \in 1..Len(LitI6) : Len(LitI6[q]) <= 19
    /\ \A q \in 1..Len(LitLex) : Len(LitLex[q]) >= 19
    \* right-nested chains stay inside the nesting bound of the property, whatever the position adds
    /\ LitLens[Len(LitLens)] + 2 <= NestMaxLevels
    /\ HistNP = 5 * 9 + 3 * 3 /\ HistFirstN = 5 * 4 + 9 /\ FamSize("hist") = 29 * 54 + 8 * 8 * 8
    /\ Cardinality({HistFirstAt(f) : f \in 0..(HistFirstN - 1)}) = HistFirstN /\ \A f \in 0..(HistFirstN - 1) : HistFirstAt(f) < HistNP
    /\ Cardinality({HistProgIdAt(p) : p \in 0..(HistNP - 1)}) = HistNP
    /\ \A p \in 0..(HistNP - 1) : HistProgAt(p).id = HistProgIdAt(p) /\ Len(HistProgAt(p).files) \in {1, 3, 10, 12}
                                   /\ HistProgAt(p).files[1].name = "main.sy"
    /\ \A q \in 1..Len(HistTriple) : HistTriple[q] < HistNP
    /\ HistCase(1).id = "hist:one.ok.std>one.ok.std" /\ HistCase(HistSize).id = "hist:twelve-last.ok.nostd>twelve-last.ok.nostd>twelve-last.ok.nostd"
    \* a ten-file program with std, then a one-file program with std that defines its own `max`
    /\ LET c == HistCase(12 * 54 + 4 + 1) IN
          /\ c.id = "hist:ten-last.ok.std>one.collfn.std" /\ Len(c.steps) = 2 /\ Len(c.steps[1].files) = 10 /\ ~c.steps[2].nostd
          /\ c.steps[2].files[1].text = FamLines(<<"x :: 1", "max :: fn a: int, b: int -> int do ret a end", "start :: fn do", "w := x", "end">>)
          /\ c.steps[1].files[10] = FamFile("m09.sy", "x :: 1" \o NL)
    \* histories are pairs, then triples; a later program smaller by 8 files and more than an earlier one exists in both orders
    /\ \A i \in {1, HistPairsN, HistPairsN + 1, HistSize} : Len(HistSteps(i)) = IF i <= HistPairsN THEN 2 ELSE 3
ASSUME LitHistSane
=============================================================================
