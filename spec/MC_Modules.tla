----------------------------- MODULE MC_Modules -----------------------------
(***************************************************************************)
(* The C12 universe.  One behaviour per configuration (p, m, v): Init      *)
(* derives the configuration from its address, Emit prints it as a REPLAY  *)
(* record (files with their import lines and reference texts, negative     *)
(* twins, expected load set).  ConfigInv holds in every state: every       *)
(* reference resolves to the intended global, a name that was not imported *)
(* is not visible (no twin reference resolves), each file once in the load *)
(* sequence, all import paths name files of the tree.  PathsOK and         *)
(* ProgramsOK are assumptions about the constants, checked once.  The      *)
(* expected behaviour of each base program (SyltSem run) is printed as a   *)
(* PROG record.                                                            *)
(***************************************************************************)
EXTENDS SyltModules, Json, IOUtils

\* tree A: siblings, sub-folders, two exports.sy;  tree B: std module names as file name (last component), as
\* first and as inner folder name, and as the folder of an exports.sy
MCTree == <<"main.sy", "a.sy", "exports.sy", "sub/b.sy", "sub/exports.sy", "sub/deep/c.sy">>
MCTreeB == <<"main.sy", "geometry/math.sy", "util/list.sy", "set/b.sy", "sub/dict/c.sy", "vendor/set/exports.sy">>
MCProgsA == {1, 2, 3, 4}
MCProgsB == {1, 5}

VARIABLES d, pc
vars == <<d, pc>>

NV == IF "NV" \in DOMAIN IOEnv THEN atoi(IOEnv.NV) ELSE 1          \* variants per placement
Seed == IF "SEED" \in DOMAIN IOEnv THEN atoi(IOEnv.SEED) ELSE 1
Only == IF "ONLY" \in DOMAIN IOEnv THEN IOEnv.ONLY ELSE ""        \* "p,m,v" : just that configuration (replays)

ASSUME PathsOK
ASSUME ProgramsOK
ASSUME \A p \in ProgSet :
    PrintT(<<"PROG", ToJson([p |-> p, name |-> ProgNames[p], tops |-> Prog(p), tree |-> Tree,
                             items |-> [q \in 1..Len(Prog(p)) |->
                                          [name |-> ItemName(Prog(p)[q]), kind |-> ItemKind(Prog(p)[q]),
                                           b |-> IF Prog(p)[q].k = "def" THEN Prog(p)[q].b ELSE 0]],
                             spellings |-> [q \in DOMAIN Spellings |-> [name |-> Spellings[q], cwd |-> SpellingOf(Spellings[q]).cwd,
                                                                         arg |-> SpellingOf(Spellings[q]).arg]],
                             prints |-> Expected[p].prints, status |-> Expected[p].status,
                             nplaces |-> Cardinality({pm \in PlacementIds : pm[1] = p})])>>)

Ids == IF Only = "" THEN UniverseIds(NV, Seed)
       ELSE {<<atoi(IOEnv.ONLY_P), atoi(IOEnv.ONLY_M), atoi(IOEnv.ONLY_V)>>}

Init == /\ pc = "made"
        /\ \E id \in Ids : d = Derive(id[1], id[2], id[3])

EmitRec(c) ==
    [p |-> c.p, m |-> c.m, v |-> c.v, prog |-> c.prog,
     files |-> [q \in DOMAIN c.files |->
                  [path |-> c.files[q].path, items |-> c.files[q].items, lines |-> c.files[q].lines,
                   refs |-> [r \in DOMAIN c.files[q].refs |->
                               [item |-> c.files[q].refs[r].item, ns |-> JoinDot(c.files[q].refs[r].ns, 1),
                                name |-> c.files[q].refs[r].name]],
                   decoys |-> c.files[q].decoys, imports_last |-> c.files[q].imports_last]],
     edges |-> [j \in DOMAIN c.edges |->
                  [f |-> c.edges[j].f, x |-> c.edges[j].x, g |-> c.edges[j].g, st |-> c.edges[j].st, path |-> c.edges[j].path,
                   form |-> c.edges[j].form, ns |-> JoinDot(c.edges[j].ns, 1), name |-> c.edges[j].name, via |-> c.edges[j].via]],
     twins |-> [q \in DOMAIN c.twins |->
                  [kind |-> c.twins[q].kind, file |-> c.twins[q].file, item |-> c.twins[q].item, st |-> c.twins[q].st,
                   form |-> c.twins[q].form, itemkind |-> c.twins[q].itemkind, lines |-> c.twins[q].lines,
                   ns |-> JoinDot(c.twins[q].ns, 1), name |-> c.twins[q].name]],
     load |-> c.load, layout |-> c.layout, cyc |-> c.cyc, decoy |-> c.decoy, cycle |-> c.cycle, diamond |-> c.diamond,
     chain |-> c.chain, chaincycle |-> c.chaincycle, mixed |-> c.mixed, mainback |-> c.mainback, disk |-> c.disk]

Emit == /\ pc = "made"
        /\ pc' = "done"
        /\ d' = d
        /\ PrintT(<<"REPLAY", ToJson(EmitRec(d))>>)

Next == Emit
Spec == Init /\ [][Next]_vars

ConfigInv == pc = "made" => ConfigOK(d)
=============================================================================
