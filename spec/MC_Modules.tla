----------------------------- MODULE MC_Modules -----------------------------
(***************************************************************************)
(* The C12 universe.  One behaviour per configuration (p, m, v): Init      *)
(* derives the configuration from its address, Emit prints it as a REPLAY  *)
(* record (files with their import lines and reference texts, negative     *)
(* twins, expected load set).  ConfigInv holds in every state: every       *)
(* reference resolves to the intended global, a name that was not imported *)
(* is not visible (no twin reference resolves), each file once in the load *)
(* sequence, all import paths name files of the tree.  PathsOK and         *)
(* ProgramsOK are assumptions about the constants, checked once.  The      *)
(* expected behaviour of each base program (SyltSem run) is printed as a   *)
(* PROG record.                                                            *)
(***************************************************************************)
EXTENDS SyltModules, Json, IOUtils

MCTree == <<"main.sy", "a.sy", "exports.sy", "sub/b.sy", "sub/exports.sy", "sub/deep/c.sy">>

VARIABLES d, pc
vars == <<d, pc>>

NV == IF "NV" \in DOMAIN IOEnv THEN atoi(IOEnv.NV) ELSE 1          \* variants per placement
Seed == IF "SEED" \in DOMAIN IOEnv THEN atoi(IOEnv.SEED) ELSE 1
Only == IF "ONLY" \in DOMAIN IOEnv THEN IOEnv.ONLY ELSE ""        \* "p,m,v" : just that configuration (replays)

ASSUME PathsOK
ASSUME ProgramsOK
ASSUME \A p \in 1..NProgs :
    PrintT(<<"PROG", ToJson([p |-> p, name |-> ProgNames[p], tops |-> Prog(p), tree |-> Tree,
                             items |-> [q \in 1..Len(Prog(p)) |->
                                          [name |-> ItemName(Prog(p)[q]), kind |-> ItemKind(Prog(p)[q]),
                                           b |-> IF Prog(p)[q].k = "def" THEN Prog(p)[q].b ELSE 0]],
                             prints |-> Expected[p].prints, status |-> Expected[p].status,
                             nplaces |-> Cardinality({pm \in PlacementIds : pm[1] = p})])>>)

Ids == IF Only = "" THEN UniverseIds(NV, Seed)
       ELSE {<<atoi(IOEnv.ONLY_P), atoi(IOEnv.ONLY_M), atoi(IOEnv.ONLY_V)>>}

Init == /\ pc = "made"
        /\ \E id \in Ids : d = Derive(id[1], id[2], id[3])

EmitRec(c) ==
    [p |-> c.p, m |-> c.m, v |-> c.v, prog |-> c.prog,
     files |-> [q \in DOMAIN c.files |->
                  [path |-> c.files[q].path, items |-> c.files[q].items, lines |-> c.files[q].lines,
                   refs |-> c.files[q].refs, decoys |-> c.files[q].decoys, imports_last |-> c.files[q].imports_last]],
     edges |-> c.edges,
     twins |-> [q \in DOMAIN c.twins |->
                  [kind |-> c.twins[q].kind, file |-> c.twins[q].file, item |-> c.twins[q].item, st |-> c.twins[q].st,
                   form |-> c.twins[q].form, itemkind |-> c.twins[q].itemkind, lines |-> c.twins[q].lines,
                   ns |-> c.twins[q].ns, name |-> c.twins[q].name]],
     load |-> c.load, layout |-> c.layout, cyc |-> c.cyc, decoy |-> c.decoy, cycle |-> c.cycle, diamond |-> c.diamond]

Emit == /\ pc = "made"
        /\ pc' = "done"
        /\ d' = d
        /\ PrintT(<<"REPLAY", ToJson(EmitRec(d))>>)

Next == Emit
Spec == Init /\ [][Next]_vars

ConfigInv == pc = "made" => ConfigOK(d)
=============================================================================
