SPECIFICATION LSpec
CONSTANTS
  MaxErrs = 2
  MaxBytes = 2
  MaxRender = 2
  NumInputs = 3
INVARIANTS LTypeOK FailedHasErrors OkHasBytes RenderedSane FinishedIsOutcome UndecidedIsBlank
           LoadedIsCompiled FinishedOkIsLoaded RejectedNeverLoaded LNoStuck
PROPERTIES CompiledLeadsToLoaded LTerminates
CHECK_DEADLOCK FALSE
