SPECIFICATION TraceSpec
CONSTANTS
  Inputs = {}
  Procs <- MCProcs
  Results = {}
  Mode <- MCFunction
  MaxRuns = 9
  NRuns = 9
  ProcOfRun <- MCProcOfRun
INVARIANTS TraceInv TraceTotal
CHECK_DEADLOCK FALSE
