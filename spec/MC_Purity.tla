------------------------------ MODULE MC_Purity ------------------------------
(* C04: emission of SyltPurity's cases (mode emit) and validation of the recorded compile results (mode validate). *)
EXTENDS SyltPurity, Json, IOUtils

VARIABLES k, pc
vars == <<k, pc>>

Mode == IOEnv.MODE                 \* "emit" | "validate"
Tier == IF "TIER" \in DOMAIN IOEnv THEN IOEnv.TIER ELSE "quick"
Seed == IF "SEED" \in DOMAIN IOEnv THEN atoi(IOEnv.SEED) % 1000 ELSE 1
IsReplay == "REPLAYONE" \in DOMAIN IOEnv      \* validate a single replayed case: no completeness demand

(* The tier's share of the universe: thorough = everything; quick = every short placement and a seeded
   1/4 (Part A, length 2) resp. 1/16 (Part B, length 3) resp. 1/16 (Part D, length 2) of the long ones; Part C always complete. *)
Selected(c) ==
  \/ Tier = "thorough"
  \/ c.part = "C"
  \/ c.part = "A" /\ (Len(c.path) <= 1 \/ (CaseWeight(c) + Seed) % 4 = 0)
  \/ c.part = "B" /\ (Len(c.path) <= 2 \/ (CaseWeight(c) + Seed) % 16 = 0)
  \/ c.part = "D" /\ (Len(c.path) <= 1 \/ (CaseWeight(c) + Seed) % 16 = 0)
SelCases == {c \in Cases : Selected(c)}
AllIds == {CaseId(c) : c \in Cases}
SelIds == {CaseId(c) : c \in SelCases}

Rec == IF Mode = "validate" THEN ndJsonDeserialize(IOEnv.TRACE) ELSE <<>>

(* ---- spec-level sanity (a failure here is a wrong specification: exit 2, never a verdict) *)
Clauses == {"constant-not-assignable", "pure-no-assignment", "pure-no-mutable-declaration",
            "pure-no-read-of-mutable", "pure-no-call-of-impure", "impure-not-accepted-as-pu"}
Last(p) == p[Len(p)]
CellsA == \A kd \in AKinds : \A f \in AForms(kd) : \A e \in {x \in AElems : InSort(x) = "S"} :
            \E c \in Cases : c.part = "A" /\ c.kind = kd /\ c.form = f /\ c.path # <<>> /\ Last(c.path) = e
CellsB == /\ \A kd \in BKinds : \A f \in BForms(kd) : \A e \in Elems :
               (InSort(e) = "S" \/ BHasE(kd)) =>
                  \E c \in Cases : c.part = "B" /\ c.kind = kd /\ c.form = f /\ c.path # <<>> /\ Last(c.path) = e
          /\ \A e \in Elems : \A i \in 1..3 : (i = 1 => OutSort(e) = "S") =>
                  \E c \in Cases : c.part = "B" /\ Len(c.path) >= i /\ c.path[i] = e
          /\ \A kd \in BKinds : \E c \in Cases : c.part = "B" /\ c.kind = kd /\ c.path = <<>>
CellsC == \A pos \in CPositions : \A arr \in CArrivals :
            (pos = "global-annot" => ~CArrHasLocals(arr)) => \E c \in Cases : c.part = "C" /\ c.kind = pos /\ c.form = arr
\* Part D: every (kind, form) cell under every placement element that can carry it, directly, and at both depths
DCellSet == {<<c.kind, c.form, IF c.path = <<>> THEN "direct" ELSE Last(c.path)>> : c \in {x \in Cases : x.part = "D"}}
CellsD == /\ \A kd \in DKinds : \A f \in DForms(kd) : \A e \in Elems \cup {"direct"} :
               (e = "direct" \/ InSort(e) = "S" \/ DHasE(kd, f)) => <<kd, f, e>> \in DCellSet
          /\ \A vk \in DVKinds : \A pos \in DReadPos(vk) : \A kd \in {"xread-global", "xread-outer"} : DPair(vk, pos) \in DForms(kd)
          /\ \A c \in DCallees : DForms(DCallKind(c)) = DSurfaces
IdsInjective == Cardinality(AllIds) = Cardinality(Cases)
ASSUME Mode = "emit" => CellsA /\ CellsB /\ CellsC /\ CellsD /\ IdsInjective
ASSUME PrintT(<<"UNIVERSE", ToJson([all |-> Cardinality(Cases), selected |-> Cardinality(SelCases)])>>)

Init == /\ pc = "start"
        /\ IF Mode = "emit" THEN k \in SelCases ELSE k \in 1..Len(Rec)

Emit == /\ Mode = "emit" /\ pc = "start" /\ pc' = "done" /\ k' = k
        /\ LET pl == Planted(k)  bs == Bases(k) IN
           /\ Assert(\A i \in 1..Len(bs) : bs[i].main # pl.main \/ bs[i].mods # pl.mods, <<"planted = base", CaseId(k)>>)
           /\ Assert(Clause(k) \in Clauses, <<"no clause", CaseId(k)>>)
           /\ PrintT(<<"REPLAY", ToJson([id |-> CaseId(k), clause |-> Clause(k), bases |-> bs, planted |-> pl])>>)

(* ---- validate: record = [id, bases: <<[class, kind]>>, planted: [class, kind]] *)
R == Rec[k]
BasesOk == \A i \in 1..Len(R.bases) : R.bases[i].class = ExpectBase
Why == IF ~BasesOk THEN "base-rejected"
       ELSE IF R.planted.class = ExpectPlanted THEN "held"
       ELSE IF R.planted.class = "panic" THEN "panic" ELSE "planted-accepted"

Validate == /\ Mode = "validate" /\ pc = "start" /\ pc' = "done" /\ k' = k
            /\ Assert(R.id \in AllIds, <<"record is not a case of the specification", R.id>>)
            /\ Assert(Len(R.bases) = (IF R.id.part = "A" THEN 1 ELSE 2), <<"wrong number of bases", R.id>>)
            /\ CASE Why = "held" -> TRUE
                 [] Why = "base-rejected" -> PrintT(<<"VACUOUS", ToJson([rec |-> k, why |-> Why])>>)
                 [] OTHER -> PrintT(<<"REJECT", ToJson([rec |-> k, why |-> Why])>>)

Next == Emit \/ Validate
Spec == Init /\ [][Next]_vars

\* the recorded trace covers exactly the tier's share of the universe (completeness is decided here, not in the harness)
RecIds == {Rec[i].id : i \in 1..Len(Rec)}
ASSUME (Mode = "validate" /\ ~IsReplay) => (RecIds = SelIds /\ Len(Rec) = Cardinality(SelIds))
=============================================================================
