------------------------------- MODULE MC_Sound -------------------------------
(***************************************************************************)
(* C02, emission and spec-level checks of SyltSound.                       *)
(*  MODE=emit     one state per (base, site); the step Emit prints one     *)
(*                REPLAY record per alternative of the perturbation menu   *)
(*                at that site: id, kind, variant and the perturbed        *)
(*                program (without the common Prelude unless the base is   *)
(*                the one perturbed inside it: pre = TRUE).                *)
(*  MODE=protocol the outcome protocol alone, explored freely over a small *)
(*                alphabet; SndSound must hold, and must be violable once  *)
(*                a DynTypeError terminal is admitted (FAULTY=1).          *)
(* FAMILY lists the base families (dedicated, singles, pairs); HARNESSES   *)
(* restricts singles / pairs to the named harness contexts; pairs are      *)
(* sharded by the position of the (outer, hole, inner) triple.             *)
(***************************************************************************)
EXTENDS SyltSound, Json, IOUtils

VARIABLES bid, site, pc
vars == <<bid, site, pc, ph, written, term>>

Env(n, d) == IF n \in DOMAIN IOEnv THEN IOEnv[n] ELSE d
Mode == Env("MODE", "emit")
Family == Env("FAMILY", "dedicated")
Shard == atoi(Env("SHARD", "0"))
NShards == atoi(Env("NSHARDS", "1"))
HarnessFilter == Env("HARNESSES", "all")       \* "all" or a list of harness names

PairSeq(d) == SndSetToSeq(Pairs)           \* (parameterised: TLC evaluates constant definitions without parameters eagerly)
ShardPairs(d) == LET ps == PairSeq(d) IN {ps[j] : j \in {x \in 1..Len(ps) : x % NShards = Shard}}

Contains(s, t) == \E i \in 1..(Len(s) - Len(t) + 1) : SubSeq(s, i, i + Len(t) - 1) = t
HOk(b) == HarnessFilter = "all" \/ Contains(HarnessFilter, b.h)
OnlyBase == Env("ONLY", "")                    \* development aid: restrict the universe to the base with this name
AllBids == (IF Contains(Family, "dedicated") THEN SndDedicatedBids ELSE {})
           \cup (IF Contains(Family, "singles") THEN {b \in SndSingleBids : HOk(b)} ELSE {})
           \cup (IF Contains(Family, "pairs") THEN {b \in SndPairBids(ShardPairs(0)) : HOk(b)} ELSE {})
Bids == IF OnlyBase = "" THEN AllBids ELSE {b \in AllBids : b.o = OnlyBase}

Sites(b) == 1..SndSize(SndTree(b))

ASSUME Mode = "emit" => PrintT(<<"PRELUDE", ToJson(SndCommon)>>)
ASSUME Mode = "emit" => PrintT(<<"MENU", ToJson([kinds |-> SndKinds, bases |-> Cardinality(Bids), prelude_nodes |-> SndPreludeSize,
                                                 \* sizes of the index-addressed families (the check requires the dense base to show every combination)
                                                 p28 |-> SndRTCount, p29local |-> SndLTCount(SndLTLocalScopes), p29global |-> SndLateGlobalCount])>>)

Init == /\ pc = "start" /\ PInit
        /\ IF Mode = "emit"
           THEN \E b \in Bids : \E s \in Sites(b) : bid = b /\ site = s
           ELSE bid = "-" /\ site = 0

\* (values are bound through singleton sets: a LET definition is evaluated again at every reference, which made a site
\* with N alternatives cost N * N constructions)
Emit == /\ Mode = "emit" /\ pc = "start" /\ pc' = "done"
        /\ \E root \in {SndTree(bid)} : \E n \in {SndAt(root, site)} : \E ctx \in {SndCtx(root, site)} :
           \E eager \in {SndAlts(n, ctx, SndIsDense(bid))} :
           LET pre == ~SndIsWhole(bid) IN
           \A a \in 1..(Len(eager) + SndIndexedCount(n, ctx, SndIsDense(bid))) :
              \E alt \in {SndAltOf(eager, n, ctx, SndIsDense(bid), a)} :
              /\ Assert(alt.kd \in {SndKinds[j] : j \in 1..Len(SndKinds)}, "alternative of an unknown kind")
              /\ PrintT(<<"REPLAY", ToJson([id |-> [b |-> bid, s |-> site, a |-> a], kd |-> alt.kd, v |-> alt.v,
                                            pre |-> pre,
                                            tops |-> LET t == SndPut(root, site, alt.n) IN IF pre THEN t.ss ELSE SndProgram(bid, t)])>>)
        /\ UNCHANGED <<bid, site, ph, written, term>>

---------------------------------------------------------------------------
(* free exploration of the protocol *)
Names == {"V1", "V2"}
Faulty == Env("FAULTY", "0") = "1"
PDynTypeError == ph \in {"accepted", "running"} /\ ph' = "ended" /\ term' = "dyn_type_error" /\ UNCHANGED written

Protocol == /\ Mode = "protocol" /\ UNCHANGED <<bid, site, pc>>
            /\ \/ PStart \/ PCompileErr \/ PCompilePanic \/ PCompileOk \/ PPrint
               \/ \E n \in Names : PGlobalWrite(n) \/ PGlobalRead(n)
               \/ \E t \in SndAllowedTerminals : PTerminal(t)
               \/ (Faulty /\ PDynTypeError)

Next == Emit \/ Protocol
Spec == Init /\ [][Next]_vars

PcOk == pc \in {"start", "done"}
=============================================================================
