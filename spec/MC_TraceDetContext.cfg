SPECIFICATION TraceSpec
CONSTANTS
  Inputs = {}
  Procs <- MCProcs
  Results = {}
  Cfgs = {}
  Mode <- MCFunction
  MaxRuns = 0
INVARIANTS TraceInv TraceTotal
CHECK_DEADLOCK FALSE
