------------------------------ MODULE SyltStd ------------------------------
(***************************************************************************)
(* C18: plain models of the standard-library containers and helpers.       *)
(*                                                                         *)
(*   list  = Seq(V)            dict = partial function K -> W              *)
(*   set   = SUBSET V          Maybe = variant "Just" v | "None" nil       *)
(*                                                                         *)
(* One named action per library operation; every action computes the       *)
(* expected result and the next abstract state from the model functions of *)
(* this module and prints ONE record per transition                        *)
(*     (history reaching s, operation, expected result, Observe(s'))       *)
(* `hist` and `last` are hidden behind VIEW (pattern P3), so TLC keeps one *)
(* representative history per abstract state but still evaluates - and     *)
(* prints - every transition of the state graph. TransitionSane (an        *)
(* ACTION_CONSTRAINT, so it is evaluated on every transition, not only on  *)
(* those that discover a state) asserts the algebra of the model itself.   *)
(*                                                                         *)
(* Element/key types ("instantiations"): int, str, pair = (int, int),      *)
(* spair = (str, str) whose strings contain ", ". Values are the tagged    *)
(* records of SyltValues; floats are dyadic (FloatV).                      *)
(*                                                                         *)
(* Reading of `div` and `floor`: FLOOR semantics on all operands.          *)
(*   div(a, b) = floor(a / b)   for b # 0 (rounding towards minus          *)
(*   infinity, the meaning `div` has in languages that distinguish div     *)
(*   from quot, Lua's `//`, and what the library states with               *)
(*   math.floor(a / b)), so  0 <= a - b * div(a, b) < b  for b > 0 and     *)
(*   b < a - b * div(a, b) <= 0  for b < 0;  floor(x) is the largest int   *)
(*   <= x, also for negative x (floor(-0.5) = -1).                         *)
(*   Universe: div on a \in -7..7, b \in -3..3 \ {0}; floor on ints -3..3  *)
(*   and on all half-steps in [-2, 2]. div(a, 0) is not specified.         *)
(*                                                                         *)
(* AWKWARD STRINGS: dicts and sets are also instantiated with "wstr", string *)
(* keys that coincide with names a runtime might use internally (_type,     *)
(* __index, __eq, __tostring, __newindex, __add, n), with the text of other *)
(* values ("1", "nil", "true", "(1, 2)") and the empty string. For a plain  *)
(* model they are keys like any other: absent until added, present until    *)
(* removed. (At most 1 key per dict, 2 elements per set: each key is tried   *)
(* absent and present, alone and next to another awkward key.)              *)
(*                                                                         *)
(* RE-ENTRANT CALLBACKS (lists of int): the function handed to map / filter *)
(* / fold / find / for_each may itself call the library - get / fold / map  *)
(* on the list being traversed, get / contains_key / contains on other      *)
(* containers (AuxL, AuxD, AuxS), push on another list. In the model a      *)
(* callback is just a function of its argument and of the VALUES of the     *)
(* containers it mentions, so the expected results follow from the same     *)
(* model functions (ReNames below).                                         *)
(*                                                                         *)
(* NUMERIC-LOOKING STRING KEYS (round 3): dicts and sets over "nstr", 24    *)
(* strings that READ as numbers - "1" "01" "1.0" " 1" "1 " "1e0" "0x1" "+1"  *)
(* (all the number one), "10" "1e1" "1E1" "0xA" "0xa" "10.0" (ten), "0x10"   *)
(* "16", "-1" "-1.0", "0" "-0" "0.0", "0.5" ".5", and the near miss "1a".    *)
(* For the plain model a string key is the key its TEXT says: two strings    *)
(* that differ in one character are two keys, whatever number they denote.   *)
(* "nstr": <= 1 key per dict / set (every key absent and present, ALL 24     *)
(* asked after every transition); "nstr2": the six keys "1" "01" "1.0" "10"  *)
(* "1e1" " 1" with <= 2 keys per dict and <= 3 per set (len, overwrite,      *)
(* remove next to a numerically equal key). Beside them the number keys      *)
(* themselves: "float" (0.0, 1.0, 0.5) and "zint" (0, -1) as dict keys and   *)
(* set elements, "estr" ("", "0").                                           *)
(*                                                                           *)
(* ELEMENTS / VALUES THAT A RUNTIME MIGHT TAKE FOR "NOTHING" (round 3):      *)
(* lists of bool (false!), float (0.0), "estr" ("" and "0"), unit "()",      *)
(* lists ([]), Maybe (None as an ELEMENT: get returns Just None) and "zint"  *)
(* (0, -1); dicts whose VALUES are of these types ("vbool", "vunit", "vlst", *)
(* "vmayb" with string keys; "float", "estr", "zint" map to 0.0 / "" / 0).   *)
(* In the plain model an element is present because it was put there, not    *)
(* because of what it is: get / last / pop / find / contains / dict.get /     *)
(* contains_key answer Just false, Just None, Just [] ... like Just 1.       *)
(* Their function menu is generic (FalsyTypes below): x == V1, x != V1,      *)
(* never, x -> (x, x), a count of V1 folded in order; V1 = first value.      *)
(*                                                                           *)
(* This module models ONE container per behaviour. Value semantics ACROSS  *)
(* containers (a container made by map / filter / from_list / ... is       *)
(* independent of what it was made from) is module SyltShare, which        *)
(* extends this one with several registers.                                *)
(***************************************************************************)
EXTENDS SyltValues, Json, IOUtils

EnvInt(name, dflt) == IF name \in DOMAIN IOEnv THEN atoi(IOEnv[name]) ELSE dflt
MaxLen == EnvInt("MAXLEN", 3)        \* longest list / most keys / most set elements
NstrSet == EnvInt("NSTR_SET", 1)     \* most elements of a set over the 24 numeric-looking strings (thorough: 2)
\* most keys of a dict / elements of a set, longest from_list literal of an instantiation
KeyMax(k, t) == IF t = "wstr" THEN (IF k = "dict" THEN 1 ELSE 2)
                ELSE IF t = "nstr" THEN (IF k = "dict" THEN 1 ELSE NstrSet)
                ELSE IF t = "nstr2" THEN (IF k = "dict" THEN 2 ELSE 3)
                ELSE MaxLen
LitMax(k, t) == IF t = "wstr" THEN (IF k = "dict" THEN 1 ELSE 2)
                ELSE IF t = "nstr" THEN (IF k = "dict" THEN 1 ELSE NstrSet)
                ELSE IF t = "nstr2" THEN 2
                ELSE (IF k = "dict" THEN 2 ELSE 3)
Big    == EnvInt("BIG", 0) = 1       \* four values per type instead of three (simulation tier)

Just(v) == VariantV("Just", v)
None    == VariantV("None", NilV)
Void    == [k |-> "void"]
ListL(es) == [k |-> "list", es |-> es]        \* a list *value* (result of map/filter, literal argument)
FnV(name) == [k |-> "fn", name |-> name]      \* a named function of the menu below
P(a, b) == TupleV(<<a, b>>)
Op(name, args) == [op |-> name, a |-> args]

Types == {"int", "str", "pair", "spair"}
\* element / value types whose values a runtime might take for "nothing" (V1, the first value, is the suspicious one)
FalsyTypes == {"bool", "float", "estr", "unit", "lst", "mayb", "zint"}
ListTypes == Types \cup FalsyTypes
\* numeric-looking string keys; number keys and the empty string (types with an order, so they can be keys)
NumKeyTypes == {"nstr", "nstr2", "float", "estr", "zint"}
KeyTypes == Types \cup {"wstr"} \cup NumKeyTypes        \* dicts and sets
\* dicts only: string keys, VALUES of a type that cannot be a key (no order)
ValueTypes == {"vbool", "vunit", "vlst", "vmayb"}
DictTypes == KeyTypes \cup ValueTypes

\* strings that read as numbers, grouped by the number they denote; as KEYS they are 24 different keys
NumStrSeq == <<StrV("1"), StrV("01"), StrV("1.0"), StrV(" 1"), StrV("1 "), StrV("1e0"), StrV("0x1"), StrV("+1"),
               StrV("10"), StrV("1e1"), StrV("1E1"), StrV("0xA"), StrV("0xa"), StrV("10.0"),
               StrV("0x10"), StrV("16"), StrV("-1"), StrV("-1.0"), StrV("0"), StrV("-0"), StrV("0.0"),
               StrV("0.5"), StrV(".5"), StrV("1a")>>

\* the values of an instantiation, in a fixed order (also the key universe of dicts)
ValSeq(ty) ==
  CASE ty = "int"   -> <<IntV(0), IntV(1), IntV(2)>> \o (IF Big THEN <<IntV(0 - 1)>> ELSE <<>>)
    [] ty = "str"   -> <<StrV("a"), StrV("b"), StrV("ab")>> \o (IF Big THEN <<StrV("1")>> ELSE <<>>)
    [] ty = "pair"  -> <<P(IntV(0), IntV(1)), P(IntV(1), IntV(0)), P(IntV(1), IntV(1))>>
                       \o (IF Big THEN <<P(IntV(0), IntV(0))>> ELSE <<>>)
    [] ty = "spair" -> <<P(StrV("a, b"), StrV("c")), P(StrV("a"), StrV("b, c")), P(StrV("a"), StrV("b"))>>
                       \o (IF Big THEN <<P(StrV("b"), StrV("a"))>> ELSE <<>>)
    [] ty = "bool"  -> <<BoolV(FALSE), BoolV(TRUE)>>
    [] ty = "float" -> <<FloatV(0, 0), FloatV(1, 0), FloatV(1, 1)>>            \* 0.0, 1.0, 0.5
    [] ty = "estr"  -> <<StrV(""), StrV("0")>>
    [] ty = "unit"  -> <<TupleV(<<>>)>>
    [] ty = "lst"   -> <<ListL(<<>>), ListL(<<IntV(0)>>)>>
    [] ty = "mayb"  -> <<None, Just(IntV(0))>>
    [] ty = "zint"  -> <<IntV(0), IntV(0 - 1)>>
    [] ty \in ValueTypes -> <<StrV("a"), StrV("b")>>
    [] ty = "nstr"  -> NumStrSeq
    [] ty = "nstr2" -> <<StrV("1"), StrV("01"), StrV("1.0"), StrV("10"), StrV("1e1"), StrV(" 1")>>
    [] ty = "wstr"  -> <<StrV("_type"), StrV("__index"), StrV("__eq"), StrV("__tostring"), StrV("__newindex"), StrV("__add"),
                         StrV("n"), StrV("1"), StrV("nil"), StrV("true"), StrV(""), StrV("(1, 2)")>>
Vals(ty) == {ValSeq(ty)[i] : i \in 1..Len(ValSeq(ty))}

\* what dicts of an instantiation map their keys to
DValSeq(ty) ==
  CASE ty = "int"   -> <<StrV("x"), StrV("y")>>
    [] ty = "str"   -> <<IntV(7), IntV(8)>>
    [] ty = "pair"  -> <<P(IntV(2), IntV(3)), P(IntV(3), IntV(2))>>
    [] ty = "spair" -> <<IntV(7), IntV(8)>>
    [] ty = "wstr"  -> <<IntV(7), IntV(8)>>
    [] ty \in {"nstr", "nstr2"} -> <<IntV(7), IntV(8)>>
    [] ty = "float" -> <<FloatV(0, 0), FloatV(5, 1)>>                          \* 0.0, 2.5
    [] ty = "estr"  -> <<StrV(""), StrV("x")>>
    [] ty = "zint"  -> <<IntV(0), IntV(0 - 1)>>
    [] ty = "vbool" -> ValSeq("bool")
    [] ty = "vunit" -> <<TupleV(<<>>)>>
    [] ty = "vlst"  -> ValSeq("lst")
    [] ty = "vmayb" -> ValSeq("mayb")
DVals(ty) == {DValSeq(ty)[i] : i \in 1..Len(DValSeq(ty))}

\* the members of S in the fixed order
RECURSIVE OrderIn(_, _)
OrderIn(seq, S) == IF seq = <<>> THEN <<>>
                   ELSE (IF Head(seq) \in S THEN <<Head(seq)>> ELSE <<>>) \o OrderIn(Tail(seq), S)

---------------------------------------------------------------------------
(* The function menu handed to map / filter / fold / find. The harness has *)
(* the same menu as Sylt lambdas; semantics are fixed here.                *)
MapFns(ty) == CASE ty = "int"   -> {"inc", "mkpair"}
                [] ty = "str"   -> {"dup", "tag"}
                [] ty = "pair"  -> {"swap", "fst"}
                [] ty = "spair" -> {"swap", "join"}
                [] ty \in FalsyTypes -> {"mkpair"}
Preds(ty)  == CASE ty = "int"   -> {"pos", "ne1", "gt5"}
                [] ty = "str"   -> {"isab", "nea", "iszz"}
                [] ty = "pair"  -> {"fst1", "ne11", "fstgt5"}
                [] ty = "spair" -> {"fsta", "sndc", "fstzz"}
                [] ty \in FalsyTypes -> {"isv1", "nev1", "never"}
FoldFns(ty) == CASE ty = "int"  -> {"poly3"}
                [] ty = "str"   -> {"cat"}
                [] ty = "pair"  -> {"poly5"}
                [] ty = "spair" -> {"catall"}
                [] ty \in FalsyTypes -> {"cntv1"}
\* the generic menu of FalsyTypes speaks about V1, the first value of the instantiation: the "zero" of the type of v
\* (false, 0.0, "", (), [], None, 0)
ZeroOf(v) == CASE v.k = "bool"    -> BoolV(FALSE)
               [] v.k = "float"   -> FloatV(0, 0)
               [] v.k = "str"     -> StrV("")
               [] v.k = "tuple"   -> TupleV(<<>>)
               [] v.k = "list"    -> ListL(<<>>)
               [] v.k = "variant" -> None
               [] v.k = "int"     -> IntV(0)
ASSUME \A t \in FalsyTypes : \A i \in 1..Len(ValSeq(t)) : ZeroOf(ValSeq(t)[i]) = ValSeq(t)[1]

(* Re-entrant callbacks (ty = "int"): they mention the list being traversed *)
(* (parameter c of ApplyFnC / ApplyPredC) and three other containers that  *)
(* every such program declares.                                            *)
AuxL == <<IntV(2), IntV(0), IntV(1)>>
AuxD == [q \in {IntV(0), IntV(2)} |-> IF q = IntV(0) THEN IntV(1) ELSE IntV(0)]
AuxS == {IntV(1), IntV(2)}
AuxRec == [l |-> [k |-> "list", es |-> AuxL],
           d |-> [k |-> "list", es |-> <<TupleV(<<IntV(0), IntV(1)>>), TupleV(<<IntV(2), IntV(0)>>)>>],
           s |-> [k |-> "list", es |-> <<IntV(1), IntV(2)>>]]
ReMapFns  == {"auxget", "selfsum", "dget", "nestmap"}
RePreds   == {"auxget1", "selfget0", "indict", "inset"}
ReFoldFns == {"getacc"}
EachFns   == {"pushget", "pushhas"}
ReNames   == ReMapFns \cup RePreds \cup ReFoldFns \cup EachFns
RECURSIVE SumL(_)
SumL(s) == IF s = <<>> THEN 0 ELSE Head(s).v + SumL(Tail(s))
OrDflt(m, d) == IF m.tag = "Just" THEN m.val ELSE d

ApplyFnC(f, v, c) ==
  CASE f = "inc"    -> IntV(v.v + 1)
    [] f = "mkpair" -> P(v, v)
    [] f = "dup"    -> StrV(v.v \o v.v)
    [] f = "tag"    -> P(v, IntV(1))
    [] f = "swap"   -> P(v.es[2], v.es[1])
    [] f = "fst"    -> v.es[1]
    [] f = "join"   -> StrV(v.es[1].v \o v.es[2].v)
    [] f = "auxget"  -> LET i == v.v IN IF i >= 0 /\ i < Len(AuxL) THEN AuxL[i + 1] ELSE IntV(0 - 1)   \* orDefault(get(aux, x), -1)
    [] f = "selfsum" -> IntV(v.v + SumL(c))                                                            \* fold(c, x, +)
    [] f = "dget"    -> IF v \in DOMAIN AuxD THEN AuxD[v] ELSE IntV(0 - 1)                             \* orDefault(dict.get(auxd, x), -1)
    [] f = "nestmap" -> IntV(v.v * SumL(AuxL))                                                         \* fold(map(aux, y -> y * x), 0, +)
    [] f = "pushget" -> IntV((LET i == v.v IN IF i >= 0 /\ i < Len(AuxL) THEN AuxL[i + 1].v ELSE 0 - 1) + Len(c))
    [] f = "pushhas" -> BoolV(\E i \in 1..Len(c) : c[i] = IntV(v.v + 1))                               \* contains(c, x + 1)
ApplyFn(f, v) == ApplyFnC(f, v, <<>>)      \* callbacks that do not mention the traversed list

ApplyPredC(p, v, c) ==
  CASE p = "pos"    -> v.v > 0
    [] p = "ne1"    -> v.v # 1
    [] p = "gt5"    -> v.v > 5
    [] p = "isab"   -> v.v = "ab"
    [] p = "nea"    -> v.v # "a"
    [] p = "iszz"   -> v.v = "zz"
    [] p = "fst1"   -> v.es[1].v = 1
    [] p = "ne11"   -> ~(v.es[1].v = 1 /\ v.es[2].v = 1)
    [] p = "fstgt5" -> v.es[1].v > 5
    [] p = "fsta"   -> v.es[1].v = "a"
    [] p = "sndc"   -> v.es[2].v = "c"
    [] p = "fstzz"  -> v.es[1].v = "zz"
    [] p = "isv1"   -> v = ZeroOf(v)
    [] p = "nev1"   -> v # ZeroOf(v)
    [] p = "never"  -> FALSE
    [] p = "auxget1"  -> v.v >= 0 /\ v.v < Len(AuxL) /\ AuxL[v.v + 1] = IntV(1)     \* get(aux, x) == Just 1
    [] p = "selfget0" -> c # <<>> /\ c[1] = v                                        \* get(c, 0) == Just x
    [] p = "indict"   -> v \in DOMAIN AuxD                                           \* dict.contains_key(auxd, x)
    [] p = "inset"    -> v \in AuxS                                                  \* set.contains(auxs, x)
ApplyPred(p, v) == ApplyPredC(p, v, <<>>)

\* fold(l, init, f) calls f(item, acc)
FoldInit(f) == CASE f \in {"poly3", "poly5", "getacc", "cntv1"} -> IntV(0) [] OTHER -> StrV("")
FoldStep(f, v, acc) ==
  CASE f = "poly3"  -> IntV(acc.v * 3 + v.v)
    [] f = "poly5"  -> IntV(acc.v * 5 + v.es[1].v * 2 + v.es[2].v)
    [] f = "cat"    -> StrV(acc.v \o v.v)
    [] f = "catall" -> StrV(acc.v \o v.es[1].v \o v.es[2].v)
    [] f = "cntv1"  -> IntV(acc.v * 2 + (IF v = ZeroOf(v) THEN 1 ELSE 0))                 \* a * 2 + (if v == V1 do 1 else 0 end)
    [] f = "getacc" -> IntV(acc.v * 3 + (LET i == v.v IN IF i >= 0 /\ i < Len(AuxL) THEN AuxL[i + 1].v ELSE 5))   \* a * 3 + orDefault(get(aux, v), 5)

---------------------------------------------------------------------------
(* Plain models: lists. Indices are 0-based as in Sylt.                    *)
LGet(s, i) == IF i >= 0 /\ i < Len(s) THEN Just(s[i + 1]) ELSE None
LLast(s)   == LGet(s, Len(s) - 1)
LSet(s, i, x) == IF i >= 0 /\ i < Len(s) THEN [s EXCEPT ![i + 1] = x] ELSE s   \* out of range: nothing happens
LPop(s)    == IF s = <<>> THEN <<>> ELSE SubSeq(s, 1, Len(s) - 1)
LMap(s, f) == [i \in 1..Len(s) |-> ApplyFnC(f, s[i], s)]
RECURSIVE LFilterC(_, _, _)
LFilterC(s, p, c) == IF s = <<>> THEN <<>>
                     ELSE (IF ApplyPredC(p, Head(s), c) THEN <<Head(s)>> ELSE <<>>) \o LFilterC(Tail(s), p, c)
LFilter(s, p) == LFilterC(s, p, s)
RECURSIVE LFold(_, _, _)
LFold(s, acc, f) == IF s = <<>> THEN acc ELSE LFold(Tail(s), FoldStep(f, Head(s), acc), f)
LFind(s, p) == LET hits == LFilter(s, p) IN IF hits = <<>> THEN None ELSE Just(hits[1])
LContains(s, x) == \E i \in 1..Len(s) : s[i] = x

(* Plain models: dicts (functions on a subset of the keys) and sets.       *)
DEmpty == <<>>
DUpdate(d, key, w) == [q \in (DOMAIN d) \cup {key} |-> IF q = key THEN w ELSE d[q]]
DRemove(d, key) == [q \in (DOMAIN d) \ {key} |-> d[q]]
DGet(d, key) == IF key \in DOMAIN d THEN Just(d[key]) ELSE None
RECURSIVE DFromList(_, _)
DFromList(d, l) == IF l = <<>> THEN d ELSE DFromList(DUpdate(d, Head(l).es[1], Head(l).es[2]), Tail(l))   \* later entries win
SFromList(l) == {l[i] : i \in 1..Len(l)}

\* an abstract state written as a source literal (argument of from_list / a list literal)
DictAsList(ty, d) == LET ks == OrderIn(ValSeq(ty), DOMAIN d) IN [i \in 1..Len(ks) |-> P(ks[i], d[ks[i]])]
SetAsList(ty, s) == OrderIn(ValSeq(ty), s)

\* all sequences over S of length <= n
RECURSIVE SeqsUpTo(_, _)
SeqsUpTo(S, n) == IF n = 0 THEN {<<>>}
                  ELSE LET shorter == SeqsUpTo(S, n - 1) IN
                       shorter \cup {Append(q, x) : q \in {r \in shorter : Len(r) = n - 1}, x \in S}

---------------------------------------------------------------------------
(* What the harness asks of the implementation after every transition, and *)
(* what the model answers: the whole abstract state is observed.           *)
Ask(o, r) == [op |-> o, res |-> r]

ObserveList(s) ==
    <<Ask(Op("len", <<>>), IntV(Len(s)))>>
    \o [j \in 1..(Len(s) + 1) |-> Ask(Op("get", <<IntV(j - 1)>>), LGet(s, j - 1))]
    \o <<Ask(Op("last", <<>>), LLast(s)), Ask(Op("eq", <<ListL(s)>>), BoolV(TRUE))>>

ObserveDict(ty, d) ==
    <<Ask(Op("len", <<>>), IntV(Cardinality(DOMAIN d)))>>
    \o [j \in 1..Len(ValSeq(ty)) |-> Ask(Op("get", <<ValSeq(ty)[j]>>), DGet(d, ValSeq(ty)[j]))]
    \o <<Ask(Op("eq", <<ListL(DictAsList(ty, d))>>), BoolV(TRUE))>>

ObserveSet(ty, s) ==
    <<Ask(Op("len", <<>>), IntV(Cardinality(s)))>>
    \o [j \in 1..Len(ValSeq(ty)) |-> Ask(Op("contains", <<ValSeq(ty)[j]>>), BoolV(ValSeq(ty)[j] \in s))]
    \o <<Ask(Op("eq", <<ListL(SetAsList(ty, s))>>), BoolV(TRUE))>>

Observe(kind, ty, s) == CASE kind = "list" -> ObserveList(s)
                          [] kind = "dict" -> ObserveDict(ty, s)
                          [] kind = "set"  -> ObserveSet(ty, s)
                          [] OTHER -> <<>>
---------------------------------------------------------------------------
VARIABLES ty,     \* instantiation (element / key type); "num" for the helper universe
          kind,   \* "list" | "dict" | "set" | "helper"
          made,   \* has the container been constructed yet?
          st,     \* the abstract container
          hist,   \* operations that led here (hidden by VIEW)
          last    \* [op, res, pre]: the transition that led here (hidden by VIEW)
vars == <<ty, kind, made, st, hist, last>>
View == <<ty, kind, made, st>>

Kinds == IF "KINDS" \in DOMAIN IOEnv /\ IOEnv.KINDS = "containers" THEN {"list", "dict", "set"}
         ELSE {"list", "dict", "set", "helper"}

Init ==
  /\ kind \in Kinds
  /\ ty \in (IF kind = "helper" THEN {"num"} ELSE IF kind = "list" THEN ListTypes ELSE IF kind = "dict" THEN DictTypes ELSE KeyTypes)
  /\ made = FALSE
  /\ st = (IF kind = "set" THEN {} ELSE <<>>)
  /\ hist = <<>>
  /\ last = [op |-> Op("init", <<>>), res |-> Void, pre |-> <<>>]

\* which case of the operation's contract a transition exercises (goes into the violation signature)
ArgClass(o) ==
  IF kind = "list" /\ o.op \in {"map", "filter", "fold", "find", "for_each"}
    THEN (IF o.a[Len(o.a)].name \in ReNames THEN "reentrant" ELSE "-")
  ELSE IF kind = "list" /\ o.op \in {"get", "set"}
    THEN (LET i == o.a[1].v IN IF i < 0 THEN "neg" ELSE IF i < Len(st) THEN "in" ELSE "past")
  ELSE IF kind = "list" /\ o.op \in {"pop", "last"} THEN (IF st = <<>> THEN "empty" ELSE "nonempty")
  ELSE IF kind = "dict" /\ o.op \in {"update", "get", "remove", "contains_key"}
    THEN (IF o.a[1] \in DOMAIN st THEN "present" ELSE "absent")
  ELSE IF kind = "set" /\ o.op \in {"add", "contains", "remove"} THEN (IF o.a[1] \in st THEN "present" ELSE "absent")
  ELSE IF kind = "helper" /\ o.op = "div"
    THEN (IF o.a[1].v % Abs(o.a[2].v) = 0 THEN "exact"
          ELSE IF (o.a[1].v < 0) # (o.a[2].v < 0) THEN "inexact-signs-differ" ELSE "inexact-signs-agree")
  ELSE IF kind = "helper" /\ o.op = "floor"
    THEN (IF o.a[1].k = "int" \/ o.a[1].d = 0 THEN "whole" ELSE IF o.a[1].n < 0 THEN "negative-fraction" ELSE "positive-fraction")
  ELSE "-"

Emit(t, o, r, s2) ==
  PrintT(<<"REPLAY", ToJson([ty |-> t, kind |-> kind, hist |-> hist, pre |-> ToString(<<made, st>>), op |-> o,
                             arg |-> ArgClass(o), res |-> r, obs |-> Observe(kind, ty, s2), aux |-> AuxRec,
                             v1 |-> IF kind = "helper" THEN NilV ELSE ValSeq(ty)[1]])>>)

Step(o, r, s2) ==
  /\ st' = s2
  /\ made' = TRUE
  /\ hist' = Append(hist, o)
  /\ last' = [op |-> o, res |-> r, pre |-> st]
  /\ UNCHANGED <<ty, kind>>
  /\ Emit(ty, o, r, s2)

IsList == kind = "list" /\ made
IsDict == kind = "dict" /\ made
IsSet  == kind = "set" /\ made

(* ---- lists ---------------------------------------------------------- *)
ListLit == /\ kind = "list" /\ ~made
           /\ \E l \in SeqsUpTo(Vals(ty), 2) : Step(Op("lit", <<ListL(l)>>), Void, l)
Push    == IsList /\ Len(st) < MaxLen /\ \E x \in Vals(ty) : Step(Op("push", <<x>>), Void, Append(st, x))
Prepend == IsList /\ Len(st) < MaxLen /\ \E x \in Vals(ty) : Step(Op("prepend", <<x>>), Void, <<x>> \o st)
Pop     == IsList /\ Step(Op("pop", <<>>), LLast(st), LPop(st))
Get     == IsList /\ \E i \in (0 - 1)..(Len(st) + 1) : Step(Op("get", <<IntV(i)>>), LGet(st, i), st)
Set     == IsList /\ \E i \in (0 - 1)..Len(st), x \in Vals(ty) : Step(Op("set", <<IntV(i), x>>), Void, LSet(st, i, x))
LenL    == IsList /\ Step(Op("len", <<>>), IntV(Len(st)), st)
Map     == IsList /\ \E f \in MapFns(ty) : Step(Op("map", <<FnV(f)>>), ListL(LMap(st, f)), st)
Filter  == IsList /\ \E p \in Preds(ty) : Step(Op("filter", <<FnV(p)>>), ListL(LFilter(st, p)), st)
Fold    == IsList /\ \E f \in FoldFns(ty) : Step(Op("fold", <<FoldInit(f), FnV(f)>>), LFold(st, FoldInit(f), f), st)
Find    == IsList /\ \E p \in Preds(ty) : Step(Op("find", <<FnV(p)>>), LFind(st, p), st)
Contains == IsList /\ \E x \in Vals(ty) : Step(Op("contains", <<x>>), BoolV(LContains(st, x)), st)
Last    == IsList /\ Step(Op("last", <<>>), LLast(st), st)
\* the same operations with callbacks that call the library themselves
IsIntList == IsList /\ ty = "int"
ReMap    == IsIntList /\ \E f \in ReMapFns : Step(Op("map", <<FnV(f)>>), ListL(LMap(st, f)), st)
ReFilter == IsIntList /\ \E p \in RePreds : Step(Op("filter", <<FnV(p)>>), ListL(LFilter(st, p)), st)
ReFold   == IsIntList /\ \E f \in ReFoldFns : Step(Op("fold", <<FoldInit(f), FnV(f)>>), LFold(st, FoldInit(f), f), st)
ReFind   == IsIntList /\ \E p \in RePreds : Step(Op("find", <<FnV(p)>>), LFind(st, p), st)
\* for_each with a callback that pushes what it computed onto another list: that list is the result
ForEach  == IsIntList /\ \E g \in EachFns : Step(Op("for_each", <<FnV(g)>>), ListL(LMap(st, g)), st)

(* ---- dicts ---------------------------------------------------------- *)
Entries(t) == {P(key, w) : key \in Vals(t), w \in DVals(t)}
DictNew      == kind = "dict" /\ ~made /\ Step(Op("new", <<>>), Void, DEmpty)
DictFromList == /\ kind = "dict" /\ ~made
                /\ \E l \in SeqsUpTo(Entries(ty), LitMax("dict", ty)) :
                     /\ Cardinality(DOMAIN DFromList(DEmpty, l)) <= KeyMax("dict", ty)
                     /\ Step(Op("from_list", <<ListL(l)>>), Void, DFromList(DEmpty, l))
DictUpdate   == /\ IsDict
                /\ \E key \in Vals(ty), w \in DVals(ty) :
                     /\ key \in DOMAIN st \/ Cardinality(DOMAIN st) < KeyMax("dict", ty)
                     /\ Step(Op("update", <<key, w>>), Void, DUpdate(st, key, w))
DictGet      == IsDict /\ \E key \in Vals(ty) : Step(Op("get", <<key>>), DGet(st, key), st)
DictRemove   == IsDict /\ \E key \in Vals(ty) : Step(Op("remove", <<key>>), Void, DRemove(st, key))
DictLen      == IsDict /\ Step(Op("len", <<>>), IntV(Cardinality(DOMAIN st)), st)
DictContainsKey == IsDict /\ \E key \in Vals(ty) : Step(Op("contains_key", <<key>>), BoolV(key \in DOMAIN st), st)

(* ---- sets ----------------------------------------------------------- *)
SetNew      == kind = "set" /\ ~made /\ Step(Op("new", <<>>), Void, {})
SetFromList == /\ kind = "set" /\ ~made
               /\ \E l \in SeqsUpTo(Vals(ty), LitMax("set", ty)) : Cardinality(SFromList(l)) <= KeyMax("set", ty) /\ Step(Op("from_list", <<ListL(l)>>), Void, SFromList(l))
SetAdd      == IsSet /\ \E x \in Vals(ty) : (x \in st \/ Cardinality(st) < KeyMax("set", ty)) /\ Step(Op("add", <<x>>), Void, st \cup {x})
SetContains == IsSet /\ \E x \in Vals(ty) : Step(Op("contains", <<x>>), BoolV(x \in st), st)
SetRemove   == IsSet /\ \E x \in Vals(ty) : Step(Op("remove", <<x>>), Void, st \ {x})
SetLen      == IsSet /\ Step(Op("len", <<>>), IntV(Cardinality(st)), st)

(* ---- pure helpers: a one-state universe ----------------------------- *)
Ints   == {IntV(i) : i \in (0 - 3)..3}
Halves == {FloatV(n, 1) : n \in (0 - 4)..4}
NumTy(a) == a.k
Zero(a) == IF a.k = "int" THEN IntV(0) ELSE FloatV(0, 0)
Sgn(a) == IF NumLt(Zero(a), a) THEN 1 ELSE IF NumLt(a, Zero(a)) THEN 0 - 1 ELSE 0

HStep(t, o, r) ==
  /\ kind = "helper"
  /\ hist' = <<>>
  /\ last' = [op |-> o, res |-> r, pre |-> <<>>]
  /\ UNCHANGED <<ty, kind, made, st>>
  /\ Emit(t, o, r, st)

\* never build a set that mixes int and float records (TLC cannot order differently formed records)
NumKinds == {"int", "float"}
Nums(nk) == IF nk = "int" THEN Ints ELSE Halves
HMin   == kind = "helper" /\ \E nk \in NumKinds : \E a, b \in Nums(nk) : HStep(nk, Op("min", <<a, b>>), IF NumLt(b, a) THEN b ELSE a)
HMax   == kind = "helper" /\ \E nk \in NumKinds : \E a, b \in Nums(nk) : HStep(nk, Op("max", <<a, b>>), IF NumLt(a, b) THEN b ELSE a)
HAbs   == kind = "helper" /\ \E nk \in NumKinds : \E a \in Nums(nk) : HStep(nk, Op("abs", <<a>>), IF Sgn(a) < 0 THEN Negate(a) ELSE a)
HClamp == kind = "helper" /\ \E nk \in NumKinds : \E x, lo, hi \in Nums(nk) :
             /\ ~NumLt(hi, lo)
             /\ HStep(nk, Op("clamp", <<x, lo, hi>>), IF NumLt(x, lo) THEN lo ELSE IF NumLt(hi, x) THEN hi ELSE x)
HSign  == kind = "helper" /\ \E nk \in NumKinds : \E a \in Nums(nk) :
             HStep(nk, Op("sign", <<a>>), IF a.k = "int" THEN IntV(Sgn(a)) ELSE FloatV(Sgn(a), 0))
\* div and floor round DOWN (towards minus infinity) on every operand, see the module comment.
\* (TLC's \div is the floored division for a positive divisor; floor(a / b) = floor((-a) / (-b)).)
FloorDiv(a, b) == IF b > 0 THEN a \div b ELSE (0 - a) \div (0 - b)
DivA == {IntV(i) : i \in (0 - 7)..7}
DivB == {IntV(i) : i \in ((0 - 3)..3) \ {0}}
HDiv   == kind = "helper" /\ \E a \in DivA, b \in DivB :
             HStep("int", Op("div", <<a, b>>), IntV(FloorDiv(a.v, b.v)))
HFloor == kind = "helper" /\ \E nk \in NumKinds : \E a \in Nums(nk) :
             HStep(nk, Op("floor", <<a>>), IF a.k = "int" THEN a ELSE IntV(a.n \div Pow2(a.d)))

MaybeTypes == {"int", "str", "pair", "bool", "estr", "zint"}
Maybes(t) == {None, Just(ValSeq(t)[1]), Just(ValSeq(t)[2])}
HOrDefault == kind = "helper" /\ \E t \in MaybeTypes : \E m \in Maybes(t), d \in {ValSeq(t)[1], ValSeq(t)[Len(ValSeq(t))]} :
                 HStep(t, Op("orDefault", <<m, d>>), IF m.tag = "Just" THEN m.val ELSE d)
HIsJust == kind = "helper" /\ \E t \in MaybeTypes : \E m \in Maybes(t) : HStep(t, Op("isJust", <<m>>), BoolV(m.tag = "Just"))
HIsNone == kind = "helper" /\ \E t \in MaybeTypes : \E m \in Maybes(t) : HStep(t, Op("isNone", <<m>>), BoolV(m.tag = "None"))

Next == \/ ListLit \/ Push \/ Prepend \/ Pop \/ Get \/ Set \/ LenL \/ Map \/ Filter \/ Fold \/ Find \/ Contains \/ Last
        \/ ReMap \/ ReFilter \/ ReFold \/ ReFind \/ ForEach
        \/ DictNew \/ DictFromList \/ DictUpdate \/ DictGet \/ DictRemove \/ DictLen \/ DictContainsKey
        \/ SetNew \/ SetFromList \/ SetAdd \/ SetContains \/ SetRemove \/ SetLen
        \/ HMin \/ HMax \/ HAbs \/ HClamp \/ HSign \/ HDiv \/ HFloor \/ HOrDefault \/ HIsJust \/ HIsNone
Spec == Init /\ [][Next]_vars
---------------------------------------------------------------------------
(* State invariants: the abstract state stays inside its type.             *)
TypeOK ==
  /\ kind = "list" => /\ Len(st) <= MaxLen
                      /\ \A i \in 1..Len(st) : st[i] \in Vals(ty)
  /\ kind = "dict" => /\ DOMAIN st \subseteq Vals(ty)
                      /\ Cardinality(DOMAIN st) <= KeyMax("dict", ty)
                      /\ \A q \in DOMAIN st : st[q] \in DVals(ty)
  /\ kind = "set"  => st \subseteq Vals(ty) /\ Cardinality(st) <= KeyMax("set", ty)
  /\ kind = "helper" => st = <<>> /\ ~made

(* Model sanity, evaluated on EVERY transition (ACTION_CONSTRAINT): the    *)
(* algebra a reader expects of lists, maps and sets holds between the      *)
(* pre-state, the operation, its result and the post-state. It never       *)
(* filters a transition: a false conjunct is a TLC error (exit 2).         *)
PureOps == {"get", "len", "map", "filter", "fold", "find", "contains", "last", "contains_key", "for_each"}
Card(s) == Cardinality(s)

ListSane(o, r, pre, post) ==
  /\ o.op \in PureOps => Assert(post = pre, "pure list operation changed the model state")
  /\ o.op = "push" => Assert(/\ Len(post) = Len(pre) + 1
                             /\ LLast(post) = Just(o.a[1])
                             /\ \A i \in 0..(Len(pre) - 1) : LGet(post, i) = LGet(pre, i), "push")
  /\ o.op = "prepend" => Assert(/\ Len(post) = Len(pre) + 1
                                /\ LGet(post, 0) = Just(o.a[1])
                                /\ \A i \in 0..(Len(pre) - 1) : LGet(post, i + 1) = LGet(pre, i), "prepend")
  /\ o.op = "pop" => Assert(/\ r = LLast(pre)
                            /\ pre = <<>> => (r = None /\ post = <<>>)
                            /\ pre # <<>> => (Append(post, r.val) = pre), "pop")
  /\ o.op = "set" => LET i == o.a[1].v IN
                     Assert(/\ Len(post) = Len(pre)
                            /\ (i >= 0 /\ i < Len(pre)) => LGet(post, i) = Just(o.a[2])       \* get after set
                            /\ \A j \in 0..(Len(pre) - 1) : j # i => LGet(post, j) = LGet(pre, j), "set")
  /\ o.op = "get" => Assert((r = None) <=> (o.a[1].v < 0 \/ o.a[1].v >= Len(pre)), "get")
  /\ o.op = "len" => Assert(r = IntV(Len(pre)), "len")
  /\ o.op = "map" => Assert(Len(r.es) = Len(pre), "map keeps the length")
  /\ o.op = "for_each" => Assert(Len(r.es) = Len(pre), "for_each calls its function once per element")
  /\ o.op = "filter" => Assert(/\ Len(r.es) <= Len(pre)
                               /\ \A i \in 1..Len(r.es) : ApplyPredC(o.a[1].name, r.es[i], pre) /\ LContains(pre, r.es[i])
                               /\ Len(r.es) = Card({i \in 1..Len(pre) : ApplyPredC(o.a[1].name, pre[i], pre)}), "filter")
  /\ o.op = "find" => Assert(/\ (r = None) <=> (LFilter(pre, o.a[1].name) = <<>>)
                             /\ r # None => ApplyPredC(o.a[1].name, r.val, pre) /\ LContains(pre, r.val), "find")
  /\ o.op = "contains" => Assert(r.v <=> (o.a[1] \in SFromList(pre)), "contains")
  /\ o.op = "last" => Assert(r = LGet(pre, Len(pre) - 1) /\ ((r = None) <=> (pre = <<>>)), "last")
  /\ o.op = "fold" => Assert(pre = <<>> => r = o.a[1], "fold of the empty list is the initial value")

DictSane(o, r, pre, post) ==
  /\ o.op \in PureOps => Assert(post = pre, "pure dict operation changed the model state")
  /\ o.op = "new" => Assert(DOMAIN post = {}, "new")
  /\ o.op = "from_list" =>
       LET l == o.a[1].es IN
       Assert(/\ DOMAIN post = {l[i].es[1] : i \in 1..Len(l)}
              /\ \A i \in 1..Len(l) : (\A j \in (i + 1)..Len(l) : l[j].es[1] # l[i].es[1]) => post[l[i].es[1]] = l[i].es[2],
              "from_list: the last entry of a key wins")
  /\ o.op = "update" => Assert(/\ DGet(post, o.a[1]) = Just(o.a[2])                            \* get after update
                               /\ \A q \in Vals(ty) \ {o.a[1]} : DGet(post, q) = DGet(pre, q)
                               /\ Card(DOMAIN post) = Card(DOMAIN pre) + (IF o.a[1] \in DOMAIN pre THEN 0 ELSE 1), "update")
  /\ o.op = "remove" => Assert(/\ DGet(post, o.a[1]) = None                                    \* remove then get / contains
                               /\ o.a[1] \notin DOMAIN post
                               /\ \A q \in Vals(ty) \ {o.a[1]} : DGet(post, q) = DGet(pre, q)
                               /\ Card(DOMAIN post) = Card(DOMAIN pre) - (IF o.a[1] \in DOMAIN pre THEN 1 ELSE 0), "remove")
  /\ o.op = "contains_key" => Assert(r.v <=> (DGet(pre, o.a[1]) # None), "contains_key is isJust(get)")

SetSane(o, r, pre, post) ==
  /\ o.op \in PureOps => Assert(post = pre, "pure set operation changed the model state")
  /\ o.op = "new" => Assert(post = {}, "new")
  /\ o.op = "from_list" => Assert(\A x \in Vals(ty) : (x \in post) <=> LContains(o.a[1].es, x), "from_list")
  /\ o.op = "add" => Assert(/\ o.a[1] \in post
                            /\ post \ {o.a[1]} = pre \ {o.a[1]}
                            /\ Card(post) = Card(pre) + (IF o.a[1] \in pre THEN 0 ELSE 1), "add")
  /\ o.op = "remove" => Assert(/\ o.a[1] \notin post                                           \* remove then contains
                               /\ post \ {o.a[1]} = pre \ {o.a[1]}
                               /\ Card(post) = Card(pre) - (IF o.a[1] \in pre THEN 1 ELSE 0), "remove")

HelperSane(o, r) ==
  /\ o.op \in {"min", "max"} => Assert(r \in {o.a[1], o.a[2]} /\ ~NumLt(IF o.op = "min" THEN o.a[1] ELSE r, IF o.op = "min" THEN r ELSE o.a[1])
                                       /\ ~NumLt(IF o.op = "min" THEN o.a[2] ELSE r, IF o.op = "min" THEN r ELSE o.a[2]), "min/max")
  /\ o.op = "clamp" => Assert(~NumLt(r, o.a[2]) /\ ~NumLt(o.a[3], r) /\ ((~NumLt(o.a[1], o.a[2]) /\ ~NumLt(o.a[3], o.a[1])) => r = o.a[1]), "clamp")
  /\ o.op = "abs" => Assert(~NumLt(r, Zero(r)) /\ (r = o.a[1] \/ r = Negate(o.a[1])), "abs")
  /\ o.op = "sign" => Assert(r.k = o.a[1].k /\ Sgn(r) = Sgn(o.a[1]), "sign keeps the number type")
  /\ o.op = "div" => LET rest == o.a[1].v - r.v * o.a[2].v IN        \* the remainder has the sign of the divisor
                      Assert(IF o.a[2].v > 0 THEN 0 <= rest /\ rest < o.a[2].v ELSE o.a[2].v < rest /\ rest <= 0,
                             "div: 0 <= a - q*b < b (b > 0), b < a - q*b <= 0 (b < 0)")
  /\ o.op = "floor" => Assert(r.k = "int" /\ ~NumLt(o.a[1], r) /\ NumLt(o.a[1], IntV(r.v + 1)), "floor")

TransitionSane ==
  LET o == last'.op  r == last'.res  pre == last'.pre  post == st' IN
  /\ kind = "list" => ListSane(o, r, pre, post)
  /\ kind = "dict" => DictSane(o, r, pre, post)
  /\ kind = "set" => SetSane(o, r, pre, post)
  /\ kind = "helper" => HelperSane(o, r)
=============================================================================
