------------------------ MODULE MC_TraceDeterminism ------------------------
EXTENDS Trace_Determinism
MCProcOfRun == <<"in", "in", "in", "in", "in", "in", "x1", "x2", "x3">>
MCProcs == {"in", "x1", "x2", "x3"}
MCFunction == "function"
=============================================================================
