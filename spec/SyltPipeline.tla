---------------------------- MODULE SyltPipeline ----------------------------
(***************************************************************************)
(* Outcome protocol of one compilation (properties C07; reused by C06/C16). *)
(*                                                                         *)
(* What a caller of the public entry point                                 *)
(*   sylt::compile_with_reader_to_writer(args, reader, writer)             *)
(* may observe, as a state machine.  A run is started on an input, the     *)
(* front end either rejects it (ParseErr) or hands a tree to the back end  *)
(* (ParseOk), the back end either writes Lua (CompileOk) or rejects        *)
(* (CompileErr).  A rejection carries n >= 1 errors; the caller renders    *)
(* every one of them to text (RenderErr) and each rendering is non-empty.  *)
(* Only then may the run Finish.  A successful run wrote b >= 1 bytes and  *)
(* carries no errors.                                                      *)
(*                                                                         *)
(* There is deliberately NO action for a panic, an abort or a watchdog     *)
(* timeout: a run in which one of these happens leaves a trace that stops  *)
(* before Finish, and such a trace is not a behaviour of this module.      *)
(* "The compiler is total" = every observed run is a complete behaviour,   *)
(* i.e. one that reaches phase "finished".                                 *)
(*                                                                         *)
(* The module also defines the exhaustive universe of short token strings  *)
(* (TokenStringAt) that C07 feeds to the compiler; the universe is decided *)
(* here and re-derived by TLC during trace validation, not by the harness. *)
(***************************************************************************)
EXTENDS Naturals, Sequences, FiniteSets, TLC

CONSTANTS MaxErrs,      \* model bound: a rejection carries 1..MaxErrs errors
          MaxBytes,     \* model bound: a success writes 1..MaxBytes bytes
          MaxRender,    \* model bound: a rendering is 1..MaxRender characters long
          NumInputs     \* model bound: inputs are TokenTextAt(Tok20, 1..NumInputs, "top")

VARIABLES phase,     \* "idle" | "started" | "parsed" | "compiled" | "failed" | "finished"
          input,     \* the text the run was started on ("" while idle)
          stage,     \* "none" | "parse" | "compile": which half produced the outcome
          errs,      \* number of errors returned (0 unless failed)
          bytes,     \* bytes written to the writer when the call returned
          rendered   \* lengths of the renderings produced so far, in error order

pvars == <<phase, input, stage, errs, bytes, rendered>>

---------------------------------------------------------------------------
(* The token-string universe.  Tok20 is the working alphabet: 20 spellings *)
(* that reach definitions, constants, types, calls, tuples, member access, *)
(* arrow calls, function literals, blocks, enums and imports within five   *)
(* tokens.  Tok31 adds the remaining statement and expression keywords     *)
(* (pure functions, if/else, prime calls, blobs and their literals, ret,   *)
(* loop, break, case); it is explored one token shorter.                   *)
NL == "\n"
DQ == "\""
StrLit == DQ \o "s" \o DQ

Tok20 == <<"a", "A", "1", StrLit, "::", ":=", ":", "=", "fn", "do", "end", "(", ")", ",", NL,
           ".", "+", "->", "enum", "use">>
Tok31 == <<"a", "A", "1", StrLit, ":=", "::", ":", "=", "fn", "pu", "do", "end", "(", ")", ",", NL,
           "if", "else", ".", "+", "->", "'", "blob", "enum", "{", "}", "use", "ret", "loop", "break", "case">>

RECURSIVE Pow(_, _)
Pow(b, e) == IF e = 0 THEN 1 ELSE b * Pow(b, e - 1)

\* number of token strings of length 0..L over an alphabet of size a
RECURSIVE NumUpTo(_, _)
NumUpTo(a, L) == IF L < 0 THEN 0 ELSE Pow(a, L) + NumUpTo(a, L - 1)
NumTokenStrings(alpha, L) == NumUpTo(Len(alpha), L)

\* which length block does 0-based index m fall in, starting from length l: <<length, offset in block>>
RECURSIVE BlockOf(_, _, _)
BlockOf(a, m, l) == IF m < Pow(a, l) THEN <<l, m>> ELSE BlockOf(a, m - Pow(a, l), l + 1)

\* the l base-a digits of m, least significant first, spelled and joined by single spaces
RECURSIVE Spell(_, _, _)
Spell(alpha, m, l) ==
    IF l = 0 THEN ""
    ELSE IF l = 1 THEN alpha[(m % Len(alpha)) + 1]
    ELSE alpha[(m % Len(alpha)) + 1] \o " " \o Spell(alpha, m \div Len(alpha), l - 1)

\* 1-based: index 1 is the empty text, then all 1-token texts, all 2-token texts, ...
TokenStringAt(alpha, i) == LET lm == BlockOf(Len(alpha), i - 1, 0) IN Spell(alpha, lm[2], lm[1])

\* Frames.  A token string on its own ("raw") almost never gets past the parser: a statement ends at a
\* newline and a program needs an entry point.  The framed universes put the same token strings where
\* the later phases see them: "top" = as top-level text in front of a minimal entry point, "body" = as
\* the body of the entry point (statements: if, ret, loop, break, case, inner definitions).
EntryPoint == "start :: fn do end"
TokenTextAt(alpha, i, frame) ==
    LET s == TokenStringAt(alpha, i) IN
    CASE frame = "raw"  -> s
      [] frame = "top"  -> s \o NL \o EntryPoint \o NL
      [] frame = "body" -> "start :: fn do" \o NL \o s \o NL \o "end" \o NL

Inputs == {TokenTextAt(Tok20, i, "top") : i \in 1..NumInputs}

---------------------------------------------------------------------------
(* Index-addressed families of STRUCTURED programs (C07).                   *)
(*                                                                         *)
(* The token-string universes are exhaustive but shallow (<= 5 tokens);    *)
(* the families below are the systematically DEEP and the systematically   *)
(* MISPLACED programs.  A case is a record                                 *)
(*    [id |-> STRING, files |-> <<[name, text], ...>>, nostd |-> BOOLEAN]  *)
(* whose first file is the main file.  FamSize(f) / FamCase(f, i) address  *)
(* family f by index; TLC emits the cases (MC_Families) and re-derives id  *)
(* and text of every recorded run during trace validation.                 *)
(*                                                                         *)
(*  nest     every nestable construct nested in itself and in every other  *)
(*           (alternating), depths 8/16/24/32, as trailing expression of   *)
(*           its block and as a non-trailing statement, well typed and with*)
(*           a type error planted at the innermost level                   *)
(*  nestraw  the type-changing literals (list, tuple, blob, function)      *)
(*           inside each other, same grid                                  *)
(*  nestsolo towers that are not wrappers: not/call/index/field-access     *)
(*           chains, nested blob declarations through field types, nested  *)
(*           type annotations; import chains a -> b -> c ... of length 8/16*)
(*  place    every top-level-only statement kind x every inner position x  *)
(*           what else the declared name is; every inner-only statement    *)
(*           kind at the top level of the main and of an imported file     *)
(*  cyc      import cycles (self, 2, 3) in which some or EVERY file has a  *)
(*           syntax error; cycles of from-imports of a name nobody defines *)
(*  selfty   self-referential inferred types appearing in a type error or  *)
(*           meeting an operator that walks the type                       *)
(*  text     strings, comments and error tokens that span 1-4 lines and    *)
(*           hold non-ASCII characters before / after / on their last line *)
(*  entry    where `start` comes from: defined, imported, renamed, only in *)
(*           another file, in both, of a wrong type; 1-3 files, cycles     *)
(*  lit      arithmetic over literals whose value reaches and crosses the  *)
(*           numeric limits (+-2^63, the largest double), at every place   *)
(*           an expression can stand                                       *)
(*  hist     HISTORIES: two or three compilations in one thread; a case is *)
(*           [id, steps = <<program, ...>>]                                *)
(***************************************************************************)
FamDig == <<"0", "1", "2", "3", "4", "5", "6", "7", "8", "9">>
RECURSIVE FamNum(_)
FamNum(n) == IF n < 10 THEN FamDig[n + 1] ELSE FamNum(n \div 10) \o FamDig[(n % 10) + 1]

FamNum2(n) == IF n < 10 THEN "0" \o FamNum(n) ELSE FamNum(n)      \* file names that sort like their numbers

RECURSIVE FamJoin(_, _)
\* the texts of a sequence of lines, each ended by a newline
FamJoin(lines, q) == IF q > Len(lines) THEN "" ELSE lines[q] \o NL \o FamJoin(lines, q + 1)
FamLines(lines) == FamJoin(lines, 1)
FamFile(name, text) == [name |-> name, text |-> text]
FamMain(text) == <<FamFile("main.sy", text)>>

\* ---- nest: composable wrappers -------------------------------------------------------------------
\* Three sorts: X (an expression of type int), S (a statement without a value), B (a block: statements,
\* valued when its last line is an int expression).  A wrapper takes an X, a B or an S:
\*   in = "X":  a \o x \o b                           is an X
\*   in = "B":  a \o block \o b  (valued block)       is an X (out = "X") or an S (out = "S")
\*              c \o block \o d  (block without value) is an S
\*   in = "S":  a \o statement                        is an S
NestWx(id, a, b) == [id |-> id, in |-> "X", a |-> a, b |-> b, c |-> "", d |-> "", out |-> "X"]
\* ... whose operand is followed by an infix operator: an arrow call there must be parenthesised (a -> f() + 1 is no expression)
NestWl(id, a, b) == [id |-> id, in |-> "X", a |-> a, b |-> b, c |-> "left", d |-> "", out |-> "X"]
NestWb(id, a, b, c, d, out) == [id |-> id, in |-> "B", a |-> a, b |-> b, c |-> c, d |-> d, out |-> out]
NestWs(id, a) == [id |-> id, in |-> "S", a |-> a, b |-> "", c |-> "", d |-> "", out |-> "S"]

NestW == <<
    NestWb("ifbody",   "if true do" \o NL,  NL \o "else" \o NL \o "0" \o NL \o "end",
                       "if true do" \o NL,  NL \o "end", "X"),
    NestWl("ifcond",   "if ", " == 0 do 1 else 0 end"),
    NestWb("elifbody", "if false do" \o NL \o "0" \o NL \o "elif true do" \o NL,  NL \o "else" \o NL \o "0" \o NL \o "end",
                       "if false do" \o NL \o "elif true do" \o NL,  NL \o "end", "X"),
    NestWl("elifcond", "if false do 0 elif ", " == 0 do 1 else 0 end"),
    NestWb("elsebody", "if false do" \o NL \o "0" \o NL \o "else do" \o NL,  NL \o "end",
                       "if false do" \o NL \o "else do" \o NL,  NL \o "end", "X"),
    NestWb("casearm",  "case E.A 1 do" \o NL \o "A v -> do" \o NL,  NL \o "end" \o NL \o "else do" \o NL \o "0" \o NL \o "end" \o NL \o "end",
                       "case E.A 1 do" \o NL \o "A v -> do" \o NL,  NL \o "end" \o NL \o "else do" \o NL \o "end" \o NL \o "end", "X"),
    NestWb("caseelse", "case E.B do" \o NL \o "A v -> do" \o NL \o "v" \o NL \o "end" \o NL \o "else do" \o NL,  NL \o "end" \o NL \o "end",
                       "case E.B do" \o NL \o "A v -> do" \o NL \o "end" \o NL \o "else do" \o NL,  NL \o "end" \o NL \o "end", "X"),
    NestWx("casescrut", "case E.A ", " do A v -> v end else 0 end end"),
    NestWb("loopdo",   "loop false do" \o NL,  NL \o "end",  "loop false do" \o NL,  NL \o "end", "S"),
    NestWs("loopbare", "loop false "),
    NestWb("doblock",  "do" \o NL,  NL \o "end",  "do" \o NL,  NL \o "end", "S"),
    NestWb("fndef",    "g :: fn -> int do" \o NL,  NL \o "end",  "g :: fn do" \o NL,  NL \o "end", "S"),
    NestWb("iife",     "(fn -> int do" \o NL,  NL \o "end)()",  "(fn do" \o NL,  NL \o "end)()", "X"),
    NestWx("paren",    "(", ")"),
    NestWx("list",     "lh([", "])"),
    NestWx("tuple",    "(", ", 0)[0]"),
    NestWx("blob",     "Bl { f: ", " }.f"),
    NestWx("callarg",  "id(", ")"),
    NestWx("arrow",    "", " -> id()"),
    NestWl("addleft",  "", " + 1"),
    NestWx("addright", "1 + (", ")"),
    NestWx("neg",      "-", "")
>>
NestK == Len(NestW)
NestDepths == <<8, 16, 24, 32>>
NestPos == <<"last", "mid">>        \* the nested construct is the trailing expression / last statement of its block, or not
NestCores == <<"ok", "err">>
NestGrid == Len(NestDepths) * Len(NestPos) * Len(NestCores)
NestMaxLevels == 40

\* a built piece: t = text, s = sort ("X" | "S"), n = levels,
\* p = an S that starts with "(" (cannot follow a loop condition), l = an X that is an arrow call (cannot be a left operand)
NestCore(core) == [t |-> IF core = "ok" THEN "1" ELSE "(1 + " \o StrLit \o ")", s |-> "X", p |-> FALSE, l |-> FALSE, n |-> 0]
\* a statement where only an expression can stand: the body of an immediately invoked closure
NestBridge(t) == "(fn -> int do" \o NL \o t \o NL \o "0" \o NL \o "end)()"
\* the block holding piece r: <<text, valued>>
NestBlock(r, pos) ==
    IF r.s = "X" THEN (IF pos = "last" THEN <<r.t, TRUE>> ELSE <<"q = " \o r.t \o NL \o "0", TRUE>>)
    ELSE (IF pos = "last" THEN <<r.t, FALSE>> ELSE <<r.t \o NL \o "0", TRUE>>)

NestApply(w, r, pos) ==
    CASE w.in = "X" ->
           [t |-> w.a \o (IF r.s = "S" THEN NestBridge(r.t) ELSE IF r.l /\ w.c = "left" THEN "(" \o r.t \o ")" ELSE r.t) \o w.b,
            s |-> "X", p |-> FALSE, l |-> w.id = "arrow", n |-> r.n + (IF r.s = "X" THEN 1 ELSE 2)]
      [] w.in = "S" ->
           [t |-> w.a \o (IF r.s = "X" THEN "q = " \o r.t ELSE IF r.p THEN "do" \o NL \o r.t \o NL \o "end" ELSE r.t),
            s |-> "S", p |-> FALSE, l |-> FALSE, n |-> r.n + (IF r.s = "S" /\ r.p THEN 2 ELSE 1)]
      [] w.in = "B" ->
           LET blk == NestBlock(r, pos) IN
           IF blk[2] THEN [t |-> w.a \o blk[1] \o w.b, s |-> w.out, p |-> FALSE, l |-> FALSE, n |-> r.n + 1]
           ELSE [t |-> w.c \o blk[1] \o w.d, s |-> "S", p |-> w.id = "iife", l |-> FALSE, n |-> r.n + 1]

\* wrappers a (innermost), b, a, b, ... around piece r until d levels are reached (a bridge counts as a level)
RECURSIVE NestGrow(_, _, _, _, _)
NestGrow(r, a, b, d, pos) == IF r.n >= d THEN r ELSE NestGrow(NestApply(a, r, pos), b, a, d, pos)
NestBuild(a, b, d, pos, core) == NestGrow(NestCore(core), a, b, d, pos)

NestPrelude == FamLines(<<"E :: enum A int, B end", "Bl :: blob { f: int }", "Bg :: blob(*T) { f: *T }",
                          "id :: fn a: int -> int do ret a end", "lh :: fn l: [int] -> int do ret 0 end">>)
NestFrame(r, pos) ==
    LET blk == NestBlock(r, pos) IN
    NestPrelude \o
    (IF blk[2] THEN FamLines(<<"h :: fn -> int do", "q := 0", blk[1], "end", "start :: fn do", "w := h()", "end">>)
     ELSE FamLines(<<"h :: fn do", "q := 0", blk[1], "end", "start :: fn do", "h()", "end">>))

\* grid coordinates of 0-based m: core fastest, then position, then depth
NestCoreOf(m) == NestCores[(m % 2) + 1]
NestPosOf(m) == NestPos[((m \div 2) % 2) + 1]
NestDepthOf(m) == NestDepths[((m \div 4) % 4) + 1]
NestGridId(m) == "d" \o FamNum(NestDepthOf(m)) \o ":" \o NestPosOf(m) \o ":" \o NestCoreOf(m)

NestSize == NestK * NestK * NestGrid
NestId(i) == LET m == i - 1 IN
    "nest:" \o NestW[(m \div (NestGrid * NestK)) + 1].id \o "/" \o NestW[((m \div NestGrid) % NestK) + 1].id \o ":" \o NestGridId(m)
NestPiece(i) == LET m == i - 1 IN
    NestBuild(NestW[(m \div (NestGrid * NestK)) + 1], NestW[((m \div NestGrid) % NestK) + 1], NestDepthOf(m), NestPosOf(m), NestCoreOf(m))
NestCase(i) == [id |-> NestId(i), files |-> FamMain(NestFrame(NestPiece(i), NestPosOf(i - 1))), nostd |-> TRUE]

\* ---- nestraw: the literals whose type changes with every level, inside each other ------------------
NestRaw == << [id |-> "list", a |-> "[", b |-> "]"], [id |-> "tuple", a |-> "(", b |-> ",)"],
              [id |-> "blob", a |-> "Bg { f: ", b |-> " }"], [id |-> "fn", a |-> "fn ->" \o NL, b |-> NL \o "end"] >>   \* (a type may follow "->" on the same line)
RawK == Len(NestRaw)
RECURSIVE RawBuild(_, _, _, _)
RawBuild(a, b, d, core) == IF d = 0 THEN NestCore(core).t ELSE a.a \o RawBuild(b, a, d - 1, core) \o a.b
\* the value of an inferred-type function (trailing) or of a local definition (not trailing)
RawFrame(x, pos) ==
    NestPrelude \o
    (IF pos = "last" THEN FamLines(<<"h :: fn ->", "q := 0", x, "end", "start :: fn do", "w := h()", "end">>)
     ELSE FamLines(<<"h :: fn do", "q := 0", "w := " \o x, "q = 1", "end", "start :: fn do", "h()", "end">>))
RawSize == RawK * RawK * NestGrid
RawId(i) == LET m == i - 1 IN
    "nestraw:" \o NestRaw[(m \div (NestGrid * RawK)) + 1].id \o "/" \o NestRaw[((m \div NestGrid) % RawK) + 1].id \o ":" \o NestGridId(m)
RawCase(i) == LET m == i - 1 IN
    [id |-> RawId(i), nostd |-> TRUE,
     files |-> FamMain(RawFrame(RawBuild(NestRaw[(m \div (NestGrid * RawK)) + 1], NestRaw[((m \div NestGrid) % RawK) + 1],
                                         NestDepthOf(m), NestCoreOf(m)), NestPosOf(m)))]

\* ---- nestsolo: towers that are not wrappers ------------------------------------------------------
RECURSIVE FamRep(_, _)
FamRep(s, n) == IF n = 0 THEN "" ELSE s \o FamRep(s, n - 1)
\* blob declarations N0 { f: N1 }, ..., N<d> { f: <last> }
RECURSIVE SoloDecls(_, _, _)
SoloDecls(q, d, last) ==
    IF q = d THEN "N" \o FamNum(q) \o " :: blob { f: " \o last \o " }" \o NL
    ELSE "N" \o FamNum(q) \o " :: blob { f: N" \o FamNum(q + 1) \o " }" \o NL \o SoloDecls(q + 1, d, last)
RECURSIVE SoloLit(_, _, _)
SoloLit(q, d, x) == IF q = d THEN "N" \o FamNum(q) \o " { f: " \o x \o " }"
                    ELSE "N" \o FamNum(q) \o " { f: " \o SoloLit(q + 1, d, x) \o " }"
RECURSIVE SoloListTy(_)
SoloListTy(d) == IF d = 0 THEN "int" ELSE "[" \o SoloListTy(d - 1) \o "]"
RECURSIVE SoloTupleTy(_)
SoloTupleTy(d) == IF d = 0 THEN "int" ELSE "(" \o SoloTupleTy(d - 1) \o ",)"
RECURSIVE SoloFnTy(_)
SoloFnTy(d) == IF d = 0 THEN "int" ELSE "fn -> " \o SoloFnTy(d - 1)

SoloShapes == <<"not", "fncall", "tupleindex", "fieldchain", "blobliteral", "blobdecls", "fieldassign",
                "listtype", "tupletype", "fntype">>
SoloK == Len(SoloShapes)
\* <<top-level declarations, lines of the body of h (the construct is the last of them unless pos = "mid")>>
SoloParts(shape, d, core) ==
    LET bad == "(1 + " \o StrLit \o ")"
        x == IF core = "ok" THEN "1" ELSE bad IN
    CASE shape = "not" -> <<"", <<"w := " \o FamRep("not ", d) \o (IF core = "ok" THEN "true" ELSE "(" \o bad \o " == 0)")>> >>
      [] shape = "fncall" -> <<"", <<"w := (" \o FamRep("fn ->" \o NL, d) \o x \o FamRep(NL \o "end", d) \o ")" \o FamRep("()", d)>> >>
      [] shape = "tupleindex" -> <<"", <<"w := " \o FamRep("(", d) \o x \o FamRep(",)", d) \o FamRep("[0]", d)>> >>
      [] shape = "fieldchain" -> <<SoloDecls(0, d - 1, "int"),
                                   <<"v := " \o SoloLit(0, d - 1, "1"),
                                     "w := v" \o FamRep(".f", d) \o (IF core = "ok" THEN " + 1" ELSE " + " \o StrLit)>> >>
      [] shape = "blobliteral" -> <<SoloDecls(0, d - 1, "int"), <<"w := " \o SoloLit(0, d - 1, x)>> >>
      [] shape = "blobdecls" -> <<SoloDecls(0, d - 1, IF core = "ok" THEN "int" ELSE "Nope"), <<"w := 1">> >>
      [] shape = "fieldassign" -> <<SoloDecls(0, d - 1, "int"),
                                    <<"v := " \o SoloLit(0, d - 1, "1"), "v" \o FamRep(".f", d) \o " = " \o (IF core = "ok" THEN "2" ELSE StrLit)>> >>
      [] shape = "listtype" -> <<"", <<"w: " \o SoloListTy(d) \o " = " \o FamRep("[", d) \o x \o FamRep("]", d)>> >>
      [] shape = "tupletype" -> <<"", <<"w: " \o SoloTupleTy(d) \o " = " \o FamRep("(", d) \o x \o FamRep(",)", d)>> >>
      [] shape = "fntype" -> <<"", <<"w: " \o SoloFnTy(d) \o " = " \o FamRep("fn ->" \o NL, d) \o x \o FamRep(NL \o "end", d)>> >>
SoloText(shape, d, pos, core) ==
    LET parts == SoloParts(shape, d, core) IN
    NestPrelude \o parts[1] \o "h :: fn do" \o NL \o "q := 0" \o NL \o FamLines(parts[2])
    \o (IF pos = "mid" THEN "q = 1" \o NL ELSE "") \o FamLines(<<"end", "start :: fn do", "h()", "end">>)

\* import chains: main -> m1 -> ... -> m<d>; every file adds one to the constant of the next
ChainForms == <<"use", "from">>
ChainLens == <<8, 16>>
ChainLast(core) == IF core = "ok" THEN "x :: 1" ELSE "x :: 1 + " \o StrLit
ChainFileText(form, q, d, core) ==
    IF q = d THEN ChainLast(core) \o NL
    ELSE IF form = "use" THEN FamLines(<<"use m" \o FamNum2(q + 1), "x :: m" \o FamNum2(q + 1) \o ".x + 1">>)
    ELSE FamLines(<<"from m" \o FamNum2(q + 1) \o " use x as y", "x :: y + 1">>)
RECURSIVE ChainFiles(_, _, _, _)
ChainFiles(form, q, d, core) ==
    IF q > d THEN <<>>
    ELSE <<FamFile(IF q = 0 THEN "main.sy" ELSE "m" \o FamNum2(q) \o ".sy",
                   ChainFileText(form, q, d, core) \o (IF q = 0 THEN FamLines(<<"start :: fn do", "w := x", "end">>) ELSE ""))>>
         \o ChainFiles(form, q + 1, d, core)
ChainSize == Len(ChainForms) * Len(ChainLens) * Len(NestCores)
SoloSize == SoloK * NestGrid + ChainSize
SoloCase(i) ==
    IF i <= SoloK * NestGrid THEN
        LET m == i - 1
            shape == SoloShapes[(m \div NestGrid) + 1] IN
        [id |-> "nestsolo:" \o shape \o ":" \o NestGridId(m), nostd |-> TRUE,
         files |-> FamMain(SoloText(shape, NestDepthOf(m), NestPosOf(m), NestCoreOf(m)))]
    ELSE LET m == i - 1 - SoloK * NestGrid
             form == ChainForms[(m \div 4) + 1]
             d == ChainLens[((m \div 2) % 2) + 1]
             core == NestCores[(m % 2) + 1] IN
         [id |-> "nestsolo:chain-" \o form \o ":d" \o FamNum(d) \o ":" \o core, nostd |-> TRUE,
          files |-> ChainFiles(form, 0, d, core)]

\* ---- place: statements in the wrong place -----------------------------------------------------------
\* (1) every statement kind that is legal at the top level only, written at every inner position, while its
\*     name is also a global of the same kind / a global of another kind / a local / nothing at all
PlaceKinds == <<"blob", "enum", "external", "use", "fromuse">>
PlaceName(kind) == CASE kind \in {"blob", "enum"} -> "T" [] kind = "external" -> "t" [] kind = "use" -> "b" [] kind = "fromuse" -> "x"
PlaceDecl(kind) == CASE kind = "blob" -> "T :: blob { g: int }"
                     [] kind = "enum" -> "T :: enum P, Q end"
                     [] kind = "external" -> "t: int : external"
                     [] kind = "use" -> "use b"
                     [] kind = "fromuse" -> "from b use x"
PlaceClasses == <<"same", "other", "local", "unknown">>
\* <<top-level lines, local line>> that make the name what the class says
PlaceContext(kind, cls) ==
    CASE cls = "same" -> <<CASE kind = "blob" -> <<"T :: blob { f: int }">>
                             [] kind = "enum" -> <<"T :: enum X end">>
                             [] kind = "external" -> <<"t: int : external">>
                             [] kind = "use" -> <<"use b">>
                             [] kind = "fromuse" -> <<"from b use x">>, <<>> >>
      [] cls = "other" -> <<CASE kind = "blob" -> <<"T :: enum X end">>
                              [] kind = "enum" -> <<"T :: blob { f: int }">>
                              [] kind = "external" -> <<"t :: 1">>
                              [] kind = "use" -> <<"b :: 1">>
                              [] kind = "fromuse" -> <<"x :: 1">>, <<>> >>
      [] cls = "local" -> << <<>>, <<PlaceName(kind) \o " := 1">> >>
      [] cls = "unknown" -> << <<>>, <<>> >>
PlacePositions == <<"fnbody", "doblock", "ifbranch", "elifbranch", "elsebranch", "casearm", "casearmbind", "caseelse",
                    "loopdo", "loopbare", "closure", "method", "globalinit">>
\* the lines of the construct that holds statement st at position pos
PlaceAt(pos, st) ==
    CASE pos = "fnbody"      -> <<st>>
      [] pos = "doblock"     -> <<"do", st, "end">>
      [] pos = "ifbranch"    -> <<"if true do", st, "end">>
      [] pos = "elifbranch"  -> <<"if false do", "elif true do", st, "end">>
      [] pos = "elsebranch"  -> <<"if false do", "else", st, "end">>
      [] pos = "casearm"     -> <<"case E.B do", "B ->", st, "end", "else", "end", "end">>
      [] pos = "casearmbind" -> <<"case E.A 1 do", "A v ->", st, "end", "else", "end", "end">>
      [] pos = "caseelse"    -> <<"case E.B do", "A v ->", "end", "else", st, "end", "end">>
      [] pos = "loopdo"      -> <<"loop false do", st, "end">>
      [] pos = "loopbare"    -> <<"loop false " \o st>>
      [] pos = "closure"     -> <<"k := fn do", st, "end">>
      [] pos = "method"      -> <<"m := Mb { f: fn do", st, "end }">>
      [] pos = "globalinit"  -> <<st>>
PlaceFileB == FamLines(<<"x :: 1", "v := 1", "U :: blob { f: int }">>)
PlaceMain(kind, pos, cls) ==
    LET ctx == PlaceContext(kind, cls)
        head == <<"E :: enum A int, B end", "Mb :: blob { f: fn -> void }">> \o ctx[1] IN
    IF pos = "globalinit"
    THEN FamLines(head \o <<"gi :: (fn -> int do">> \o ctx[2] \o <<PlaceDecl(kind), "1", "end)()", "start :: fn do", "end">>)
    ELSE FamLines(head \o <<"start :: fn do">> \o ctx[2] \o PlaceAt(pos, PlaceDecl(kind)) \o <<"end">>)
PlaceInnerSize == Len(PlaceKinds) * Len(PlacePositions) * Len(PlaceClasses) * 2

\* (2) every statement kind that is legal inside a function only, at the top level of the main / of an imported file
PlaceOuterKinds == <<
    [id |-> "assign", st |-> "g = 1"], [id |-> "opassign", st |-> "g += 1"], [id |-> "loop", st |-> "loop false do end"],
    [id |-> "loopbare", st |-> "loop false break"], [id |-> "break", st |-> "break"], [id |-> "continue", st |-> "continue"],
    [id |-> "ret", st |-> "ret"], [id |-> "retvalue", st |-> "ret 1"], [id |-> "expression", st |-> "1"],
    [id |-> "call", st |-> "start()"], [id |-> "unreachable", st |-> "<!>"], [id |-> "block", st |-> "do end"],
    [id |-> "if", st |-> "if true do end"], [id |-> "case", st |-> "case E.B do else end end"] >>
PlaceOuterFile(st, first) ==
    IF first THEN FamLines(<<st, "E :: enum A int, B end", "g := 0", "x :: 1">>)
    ELSE FamLines(<<"E :: enum A int, B end", "g := 0", "x :: 1", st>>)
PlaceOuterSize == Len(PlaceOuterKinds) * 2 * 2 * 2
PlaceSize == PlaceInnerSize + PlaceOuterSize
PlaceCase(i) ==
    IF i <= PlaceInnerSize THEN
        LET m == i - 1
            std == (m % 2) = 1
            cls == PlaceClasses[((m \div 2) % 4) + 1]
            pos == PlacePositions[((m \div 8) % Len(PlacePositions)) + 1]
            kind == PlaceKinds[(m \div (8 * Len(PlacePositions))) + 1] IN
        [id |-> "place:" \o kind \o "@" \o pos \o ":" \o cls \o (IF std THEN ":std" ELSE ":nostd"), nostd |-> ~std,
         files |-> <<FamFile("main.sy", PlaceMain(kind, pos, cls)), FamFile("b.sy", PlaceFileB)>>]
    ELSE
        LET m == i - 1 - PlaceInnerSize
            std == (m % 2) = 1
            first == ((m \div 2) % 2) = 0
            imported == ((m \div 4) % 2) = 1
            k == PlaceOuterKinds[(m \div 8) + 1]
            text == PlaceOuterFile(k.st, first) IN
        [id |-> "place:" \o k.id \o "@" \o (IF imported THEN "imported" ELSE "main") \o (IF first THEN ":first" ELSE ":last")
                \o (IF std THEN ":std" ELSE ":nostd"), nostd |-> ~std,
         files |-> IF imported THEN <<FamFile("main.sy", FamLines(<<"use b", "start :: fn do", "w := b.x", "end">>)), FamFile("b.sy", text)>>
                   ELSE <<FamFile("main.sy", text \o FamLines(<<"start :: fn do", "end">>))>>]

\* ---- cyc: import cycles whose files have syntax errors ----------------------------------------------
\* shapes: the files of the project and what each imports (main first)
CycShapes == <<
    [id |-> "self",  names |-> <<"main">>, imports |-> <<"main">>],
    [id |-> "two",   names |-> <<"main", "b">>, imports |-> <<"b", "main">>],
    [id |-> "three", names |-> <<"main", "b", "c">>, imports |-> <<"b", "c", "main">>],
    [id |-> "tail",  names |-> <<"main", "b", "c">>, imports |-> <<"b", "c", "b">>] >>     \* main -> b <-> c
\* frommissing: every file imports the name y from the next one and NO file defines it - a cycle for one name that is missing
CycForms == <<"use", "from", "frommissing">>
CycErrors == << [id |-> "def", st |-> "y :: :: 1"], [id |-> "string", st |-> "y :: " \o DQ \o "abc"],
                [id |-> "end", st |-> "end"], [id |-> "paren", st |-> "y :: (1"] >>
CycWhich == <<"all", "none", "mainonly", "othersonly">>
CycWhere == <<"before", "after">>
CycBroken(which, q) == which = "all" \/ (which = "mainonly" /\ q = 1) \/ (which = "othersonly" /\ q > 1)
CycFileText(shape, form, err, which, where, q) ==
    LET imp == CASE form = "use" -> "use " \o shape.imports[q]
                 [] form = "from" -> "from " \o shape.imports[q] \o " use x as z"
                 [] form = "frommissing" -> "from " \o shape.imports[q] \o " use y"
        bad == IF CycBroken(which, q) THEN <<err.st>> ELSE <<>> IN
    FamLines((IF where = "before" THEN bad ELSE <<>>) \o <<imp, "x :: 1">> \o (IF where = "after" THEN bad ELSE <<>>)
             \o (IF q = 1 THEN <<"start :: fn do", "end">> ELSE <<>>))
CycSize == Len(CycShapes) * Len(CycForms) * Len(CycErrors) * Len(CycWhich) * Len(CycWhere) * 2
CycCase(i) ==
    LET m == i - 1
        std == (m % 2) = 1
        where == CycWhere[((m \div 2) % 2) + 1]
        which == CycWhich[((m \div 4) % 4) + 1]
        err == CycErrors[((m \div 16) % 4) + 1]
        form == CycForms[((m \div 64) % Len(CycForms)) + 1]
        shape == CycShapes[(m \div (64 * Len(CycForms))) + 1] IN
    [id |-> "cyc:" \o shape.id \o ":" \o form \o ":" \o err.id \o ":" \o which \o ":" \o where \o (IF std THEN ":std" ELSE ":nostd"),
     nostd |-> ~std,
     files |-> [q \in 1..Len(shape.names) |-> FamFile(shape.names[q] \o ".sy", CycFileText(shape, form, err, which, where, q))]]

\* ---- selfty: a value whose inferred type contains itself, shown in a type error ---------------------
\* <<top-level lines, lines in start, the variable>>
\* a maker: the lines before the use, the lines after it, the variable whose type contains itself
SelfInStart(top, body, v) == [pre |-> top \o <<"start :: fn do", "q := 0">> \o body, post |-> <<"end">>, v |-> v]
\* ... built from un-annotated parameters (only those can become a tuple that holds itself and nothing else)
SelfInFn(params, body, v) == [pre |-> <<"f :: fn " \o params \o " do", "q := 0">> \o body, post |-> <<"end", "start :: fn do", "end">>, v |-> v]
SelfMakerIds == <<"list", "listlist", "tuple", "fn", "fnlocal", "blob", "blobfield", "ptuple", "ptuplepair", "ptupledeep", "pknot">>
SelfMaker(id) ==
    CASE id = "list"      -> SelfInStart(<<>>, <<"l := []", "l = [l]">>, "l")
      [] id = "listlist"  -> SelfInStart(<<>>, <<"l := []", "m := [l]", "l = [m]">>, "m")
      [] id = "tuple"     -> SelfInStart(<<>>, <<"l := []", "u := (l, 1)", "l = [u]">>, "u")
      [] id = "fn"        -> SelfInStart(<<"f :: fn ->", "f", "end">>, <<>>, "f")
      [] id = "fnlocal"   -> SelfInStart(<<>>, <<"l := []", "k := fn -> l end", "l = [k]">>, "k")
      [] id = "blob"      -> SelfInStart(<<>>, <<"l := []", "c := Bg { f: l }", "l = [c]">>, "c")
      [] id = "blobfield" -> SelfInStart(<<>>, <<"c := Bg { f: [] }", "c.f = [c]">>, "c.f")
      [] id = "ptuple"     -> SelfInFn("c", <<"s := [c, (c,)]">>, "c")                  \* c = (c,)
      [] id = "ptuplepair" -> SelfInFn("c", <<"s := [c, (c, 1)]">>, "c")                \* c = (c, int)
      [] id = "ptupledeep" -> SelfInFn("c", <<"s := [c, ((c,),)]">>, "c")               \* c = ((c,),)
      [] id = "pknot"      -> SelfInFn("c, o", <<"w := (c,)", "i := c[0]", "i = w", "wo := (o,)", "s := [o, (wo,)]", "b := [w, wo]">>, "c")
\* a use: a \o v \o b, or a \o v \o m \o v \o b when the value meets itself
SelfUse(id, a, m, b) == [id |-> id, a |-> a, m |-> m, b |-> b]
SelfUses == <<
    SelfUse("add", "", "", " + 1"), SelfUse("neg", "-", "", ""), SelfUse("annot", "n: int = ", "", ""),
    SelfUse("arg", "id(", "", ")"), SelfUse("call", "", "", "(1, 2)"), SelfUse("field", "", "", ".zz"),
    SelfUse("index", "", "", "[7]"), SelfUse("less", "", "", " < 1"), SelfUse("asserteq", "", "", " <=> 1"),
    SelfUse("cond", "if ", "", " do end"), SelfUse("ret", "ret ", "", ""), SelfUse("assign", "q = ", "", ""),
    SelfUse("variant", "E.A ", "", ""), SelfUse("scrutinee", "case ", "", " do else end end"),
    SelfUse("addself", "", " + ", ""), SelfUse("subself", "", " - ", ""), SelfUse("mulself", "", " * ", ""),
    SelfUse("divself", "", " / ", ""), SelfUse("lessself", "", " < ", ""), SelfUse("equalself", "", " == ", ""),
    SelfUse("listself", "[", ", ", "]"), SelfUse("index0", "", "", "[0]") >>
SelfSize == Len(SelfMakerIds) * Len(SelfUses) * 2
SelfCase(i) ==
    LET m == i - 1
        std == (m % 2) = 1
        use == SelfUses[((m \div 2) % Len(SelfUses)) + 1]
        mid == SelfMakerIds[(m \div (2 * Len(SelfUses))) + 1]
        mk == SelfMaker(mid) IN
    [id |-> "selfty:" \o mid \o ":" \o use.id \o (IF std THEN ":std" ELSE ":nostd"), nostd |-> ~std,
     files |-> FamMain(NestPrelude \o FamLines(mk.pre \o <<use.a \o mk.v \o (IF use.m = "" THEN "" ELSE use.m \o mk.v) \o use.b>> \o mk.post))]

\* ---- text: tokens that span lines and hold non-ASCII characters (tokenizer-level totality) ---------------
\* TLC must not be given non-ASCII text: @2@, @3@, @4@ stand for one character of 2, 3, 4 UTF-8 bytes; the
\* recorder replaces them when it compiles a member of this family.
TextKinds == <<"string", "comment", "errstring", "errchar">>
TextChars == <<"@2@", "@3@", "@4@">>
TextPos == <<"first", "mid", "last">>        \* the line of the token that holds the two non-ASCII characters
TextFollows == <<"none", "op", "ident">>     \* what stands after the token on its closing line
TextPlants == <<"none", "later", "here">>    \* no error / a type error on a later line / a type error on the closing line
TextMaxLines == 4
TextMaxLast == 6
\* line q of the n lines of the token: two non-ASCII characters on the chosen line, `last` more characters on the last
TextLine(q, n, ch, pos, last) ==
    LET chosen == CASE pos = "first" -> 1 [] pos = "mid" -> (n \div 2) + 1 [] pos = "last" -> n IN
    (IF q = chosen THEN ch \o "a" \o ch ELSE "") \o (IF q = n THEN FamRep("x", last) ELSE "ab")
RECURSIVE TextContent(_, _, _, _, _)
TextContent(q, n, ch, pos, last) ==
    IF q = n THEN TextLine(q, n, ch, pos, last) ELSE TextLine(q, n, ch, pos, last) \o NL \o TextContent(q + 1, n, ch, pos, last)
RECURSIVE TextCommentLines(_, _, _, _)
TextCommentLines(q, n, ch, pos) ==
    IF q >= n THEN <<>> ELSE <<"// " \o TextLine(q, n, ch, pos, 0)>> \o TextCommentLines(q + 1, n, ch, pos)
TextFile(kind, n, ch, pos, last, follow, plant) ==
    LET t == DQ \o "t" \o DQ
        here == IF plant = "here" THEN " + 1" ELSE ""
        later == IF plant = "later" THEN <<"z :: 1 + " \o StrLit>> ELSE <<>>
        tail == <<"start :: fn do", "end">>
        fol == CASE follow = "none" -> "" [] follow = "op" -> " + " \o t [] follow = "ident" -> " + y"
        content == TextContent(1, n, ch, pos, last) IN
    CASE kind = "string" ->
           FamLines(<<"y :: " \o t, "s :: " \o DQ \o content \o DQ \o fol \o here>> \o later \o tail)
      [] kind = "errchar" ->      \* a character that is no token, after the string on its closing line
           FamLines(<<"y :: " \o t, "s :: " \o DQ \o content \o DQ \o fol \o here \o " " \o ch>> \o later \o tail)
      [] kind = "errstring" ->    \* the closing quote is missing: the token runs to the end of the file
           FamLines(<<"y :: " \o t>> \o tail \o later \o
                    <<"s :: " \o DQ \o content \o (CASE follow = "none" -> "" [] follow = "op" -> " + t" [] follow = "ident" -> " y") \o here>>)
      [] kind = "comment" ->
           FamLines(<<"y :: " \o t>> \o TextCommentLines(1, n, ch, pos) \o
                    (CASE follow = "none" -> <<"// " \o TextLine(n, n, ch, pos, last), "s :: " \o t \o here>>
                       [] follow = "op" -> <<"s :: " \o t \o " + " \o t \o here \o " // " \o TextLine(n, n, ch, pos, last)>>
                       [] follow = "ident" -> <<"s :: (" \o t \o here \o ", // " \o TextLine(n, n, ch, pos, last), "y)">>)
                    \o later \o tail)
TextSize == Len(TextKinds) * TextMaxLines * Len(TextChars) * Len(TextPos) * (TextMaxLast + 1) * Len(TextFollows) * Len(TextPlants)
TextCase(i) ==
    LET m == i - 1
        plant == TextPlants[(m % 3) + 1]
        follow == TextFollows[((m \div 3) % 3) + 1]
        last == (m \div 9) % (TextMaxLast + 1)
        pos == TextPos[((m \div 63) % 3) + 1]
        k == ((m \div 189) % 3) + 1
        n == ((m \div 567) % TextMaxLines) + 1
        kind == TextKinds[(m \div 2268) + 1] IN
    [id |-> "text:" \o kind \o ":n" \o FamNum(n) \o ":b" \o FamNum(k + 1) \o ":" \o pos \o ":l" \o FamNum(last) \o ":" \o follow \o ":" \o plant,
     nostd |-> TRUE, files |-> FamMain(TextFile(kind, n, TextChars[k], pos, last, follow, plant))]

\* ---- entry: where the entry point `start` comes from -------------------------------------------------------
EntryVariants == <<"main", "fromuse", "fromas", "usens", "both", "bothfrom", "importedonly", "none">>
EntryTypes == <<"fnvoid", "const", "fnparam", "fnret", "var">>
EntryTopos == <<"single", "two", "chain", "cycle", "cycle3", "reexport">>
EntryDef(name, ty) == CASE ty = "fnvoid"  -> name \o " :: fn do end"
                         [] ty = "const"   -> name \o " :: 1"
                         [] ty = "fnparam" -> name \o " :: fn a: int do end"
                         [] ty = "fnret"   -> name \o " :: fn -> int do ret 1 end"
                         [] ty = "var"     -> name \o " := fn do end"
EntryMain(variant, tm) ==
    CASE variant = "main"         -> <<"use m", EntryDef("start", tm)>>
      [] variant = "fromuse"      -> <<"from m use start">>
      [] variant = "fromas"       -> <<"from m use (x as start)">>
      [] variant = "usens"        -> <<"use m", "z :: m.start">>
      [] variant = "both"         -> <<"use m", EntryDef("start", tm)>>
      [] variant = "bothfrom"     -> <<"from m use start", EntryDef("start", tm)>>
      [] variant = "importedonly" -> <<"use m">>
      [] variant = "none"         -> <<"use m">>
\* the name module m provides, and the file that really defines it
EntryProvided(variant) == IF variant \in {"main", "fromas", "none"} THEN "x" ELSE "start"
EntryFiles(variant, tm, tmod, topo) ==
    LET name == EntryProvided(variant)
        def == EntryDef(name, tmod)
        main == FamFile("main.sy", FamLines(EntryMain(variant, tm))) IN
    CASE topo = "single"   -> <<main>>
      [] topo = "two"      -> <<main, FamFile("m.sy", FamLines(<<def>>))>>
      [] topo = "chain"    -> <<main, FamFile("m.sy", FamLines(<<"use n", def, "k :: n.y">>)), FamFile("n.sy", FamLines(<<"y :: 1">>))>>
      [] topo = "cycle"    -> <<main, FamFile("m.sy", FamLines(<<"use main", def>>))>>
      [] topo = "cycle3"   -> <<main, FamFile("m.sy", FamLines(<<"use n", def>>)), FamFile("n.sy", FamLines(<<"use main", "y :: 1">>))>>
      [] topo = "reexport" -> <<main, FamFile("m.sy", FamLines(<<"from n use " \o name, "k :: 1">>)), FamFile("n.sy", FamLines(<<def>>))>>
EntryGrid == Len(EntryVariants) * Len(EntryTypes) * Len(EntryTypes) * Len(EntryTopos)
EntryStdGrid == Len(EntryVariants) * Len(EntryTopos)       \* with std: the well-typed corner only
EntrySize == EntryGrid + EntryStdGrid
EntryCase(i) ==
    IF i <= EntryGrid THEN
        LET m == i - 1
            topo == EntryTopos[(m % 6) + 1]
            tmod == EntryTypes[((m \div 6) % 5) + 1]
            tm == EntryTypes[((m \div 30) % 5) + 1]
            variant == EntryVariants[(m \div 150) + 1] IN
        [id |-> "entry:" \o variant \o ":" \o tm \o ":" \o tmod \o ":" \o topo \o ":nostd", nostd |-> TRUE,
         files |-> EntryFiles(variant, tm, tmod, topo)]
    ELSE LET m == i - 1 - EntryGrid
             topo == EntryTopos[(m % 6) + 1]
             variant == EntryVariants[(m \div 6) + 1] IN
         [id |-> "entry:" \o variant \o ":fnvoid:fnvoid:" \o topo \o ":std", nostd |-> FALSE,
          files |-> EntryFiles(variant, "fnvoid", "fnvoid", topo)]

\* ---- lit: arithmetic over LITERALS towards the numeric limits -------------------------------------------
\* Every literal is small enough to be a token; the VALUE of the expression reaches and crosses +-2^63 (ints) or the
\* largest double (floats).  Anything the compiler computes at compile time from such an expression (folding, constant
\* evaluation, sizes) must not take the compiler down: the run is a complete behaviour like any other.
\* TLC integers are 32 bit: the literals are strings and are never evaluated here.
LitI6 == <<"0", "1", "3037000500", "4294967296", "4611686018427387904", "9223372036854775807">>   \* 0, 1, ~sqrt(2^63), 2^32, 2^62, 2^63-1
LitF4 == <<"0.0", "1.5", "1e308", "1e309">>                                                    \* 1e309 does not fit a double
LitI3 == <<"1", "4294967296", "9223372036854775807">>
\* literals the 64-bit token cannot hold: 2^63, 2^64, 10^26-1, 2^128
LitLex == <<"9223372036854775808", "18446744073709551616", "99999999999999999999999999", "340282366920938463463374607431768211456">>
LitOps == << [id |-> "add", t |-> "+"], [id |-> "sub", t |-> "-"], [id |-> "mul", t |-> "*"], [id |-> "div", t |-> "/"] >>
LitCmps == << [id |-> "lt", t |-> "<"], [id |-> "eq", t |-> "=="] >>
\* an expression: id, text, type ("int" | "float" | "bool"; int / int is a float)
LitExpr(id, t, ty) == [id |-> id, t |-> t, ty |-> ty]
LitBin(a, op, b, ty) == LitExpr("bin:" \o a \o "_" \o op.id \o "_" \o b, a \o " " \o op.t \o " " \o b, ty)

LitBinIntN == 6 * 6 * 4
LitBinInt(m) == LET op == LitOps[(m % 4) + 1] IN
    LitBin(LitI6[(m \div 24) + 1], op, LitI6[((m \div 4) % 6) + 1], IF op.id = "div" THEN "float" ELSE "int")
LitBinFloatN == 4 * 4 * 4
LitBinFloat(m) == LitBin(LitF4[(m \div 16) + 1], LitOps[(m % 4) + 1], LitF4[((m \div 4) % 4) + 1], "float")
LitCmpN == 3 * 3 * 2
LitCmp(m) == LitBin(LitI3[(m \div 6) + 1], LitCmps[(m % 2) + 1], LitI3[((m \div 2) % 3) + 1], "bool")
\* negations: of a literal, of a negation, next to and around the other operators; -a - b reaches -2^63 and crosses it
LitNegUnaryForms == <<"neg", "negneg", "negparen">>
LitNegUnaryN == 3 * 3
LitNegUnary(m) == LET f == LitNegUnaryForms[(m \div 3) + 1]
                      a == LitI3[(m % 3) + 1] IN
    LitExpr(f \o ":" \o a, CASE f = "neg" -> "-" \o a [] f = "negneg" -> "- -" \o a [] f = "negparen" -> "-(-" \o a \o ")", "int")
LitNegBinaryForms == <<"nsub", "nmul", "muln", "nmuln", "nadd", "nnsub", "divnone", "mulnone">>
LitNegBinaryN == 8 * 3 * 3
LitNegBinary(m) == LET f == LitNegBinaryForms[(m \div 9) + 1]
                       a == LitI3[((m \div 3) % 3) + 1]
                       b == LitI3[(m % 3) + 1] IN
    LitExpr(f \o ":" \o a \o "_" \o b,
            CASE f = "nsub" -> "-" \o a \o " - " \o b
              [] f = "nmul" -> "-" \o a \o " * " \o b
              [] f = "muln" -> a \o " * -" \o b
              [] f = "nmuln" -> "-" \o a \o " * -" \o b
              [] f = "nadd" -> "-(" \o a \o " + " \o b \o ")"
              [] f = "nnsub" -> "-(-" \o a \o " - " \o b \o ")"
              [] f = "divnone" -> "(-" \o a \o " - " \o b \o ") / -1"
              [] f = "mulnone" -> "(-" \o a \o " - " \o b \o ") * -1",
            IF f = "divnone" THEN "float" ELSE "int")
\* chains: term q is cyc[q mod Len(cyc)], all joined by one operator, flat (left associative) or nested to the right
LitChains == <<
    [id |-> "tens", cyc |-> <<"10">>, op |-> "*", ty |-> "int"],                  \* 10^19 > 2^63
    [id |-> "hours", cyc |-> <<"60", "24">>, op |-> "*", ty |-> "int"],
    [id |-> "units", cyc |-> <<"1000000", "24", "60", "60", "1000", "1000", "1000">>, op |-> "*", ty |-> "int"],   \* ns in 10^6 days: 7 small literals
    [id |-> "two32", cyc |-> <<"4294967296">>, op |-> "*", ty |-> "int"],
    [id |-> "sqrt", cyc |-> <<"3037000500">>, op |-> "*", ty |-> "int"],          \* 3037000500^2 = 2^63 + 3.4e9
    [id |-> "twos", cyc |-> <<"2">>, op |-> "*", ty |-> "int"],                   \* stays inside: the control
    [id |-> "maxsum", cyc |-> <<"9223372036854775807">>, op |-> "+", ty |-> "int"],
    [id |-> "halfsum", cyc |-> <<"4611686018427387904">>, op |-> "+", ty |-> "int"],   \* 2^62 + 2^62 = 2^63
    [id |-> "maxone", cyc |-> <<"9223372036854775807", "1">>, op |-> "+", ty |-> "int"],
    [id |-> "halfdiff", cyc |-> <<"0", "4611686018427387904">>, op |-> "-", ty |-> "int"],
    [id |-> "f154", cyc |-> <<"1e154">>, op |-> "*", ty |-> "float"],             \* 1e154^3 = inf
    [id |-> "f308", cyc |-> <<"1e308", "10.0">>, op |-> "*", ty |-> "float"] >>
LitLens == <<2, 3, 4, 5, 6, 7, 8, 12, 19, 20, 21, 32>>
LitTerm(cyc, q) == cyc[((q - 1) % Len(cyc)) + 1]
RECURSIVE LitChainL(_, _, _, _)
LitChainL(cyc, op, q, n) == LitTerm(cyc, q) \o (IF q = n THEN "" ELSE " " \o op \o " " \o LitChainL(cyc, op, q + 1, n))
RECURSIVE LitChainR(_, _, _, _)
LitChainR(cyc, op, q, n) == IF q = n THEN LitTerm(cyc, q) ELSE LitTerm(cyc, q) \o " " \o op \o " (" \o LitChainR(cyc, op, q + 1, n) \o ")"
LitChainN == Len(LitChains) * Len(LitLens) * 2
LitChain(m) == LET c == LitChains[(m \div (2 * Len(LitLens))) + 1]
                   n == LitLens[((m \div 2) % Len(LitLens)) + 1]
                   right == (m % 2) = 1 IN
    LitExpr("chain:" \o c.id \o ":n" \o FamNum(n) \o (IF right THEN ":right" ELSE ":left"),
            IF right THEN LitChainR(c.cyc, c.op, 1, n) ELSE LitChainL(c.cyc, c.op, 1, n), c.ty)
\* a literal beyond the token: alone, negated, in a sum
LitLexForms == <<"alone", "neg", "plus">>
LitLexN == Len(LitLex) * 3
LitLexE(m) == LET l == LitLex[(m \div 3) + 1]
                  f == LitLexForms[(m % 3) + 1] IN
    LitExpr("lex:" \o f \o ":" \o l, CASE f = "alone" -> l [] f = "neg" -> "-" \o l [] f = "plus" -> l \o " + 1", "int")

LitNE == LitBinIntN + LitBinFloatN + LitCmpN + LitNegUnaryN + LitNegBinaryN + LitChainN + LitLexN
LitExprAt(e) ==       \* 0-based
    LET o1 == LitBinIntN
        o2 == o1 + LitBinFloatN
        o3 == o2 + LitCmpN
        o4 == o3 + LitNegUnaryN
        o5 == o4 + LitNegBinaryN
        o6 == o5 + LitChainN IN
    IF e < o1 THEN LitBinInt(e) ELSE IF e < o2 THEN LitBinFloat(e - o1) ELSE IF e < o3 THEN LitCmp(e - o2)
    ELSE IF e < o4 THEN LitNegUnary(e - o3) ELSE IF e < o5 THEN LitNegBinary(e - o4)
    ELSE IF e < o6 THEN LitChain(e - o5) ELSE LitLexE(e - o6)

\* where the expression stands: initialiser of a constant / of a global / of a local / of an annotated local, returned value,
\* argument, element of a list / of a tuple, field of a (generic) blob literal, operand of +=, of a condition, value of a closure
LitPositions == <<"const", "gvar", "local", "annot", "ret", "arg", "list", "tuple", "blob", "compound", "cond", "closure">>
LitZero(ty) == CASE ty = "int" -> "0" [] ty = "float" -> "0.0" [] ty = "bool" -> "true"
LitIdFn(ty) == CASE ty = "int" -> "idi" [] ty = "float" -> "idf" [] ty = "bool" -> "idb"
LitPrelude == FamLines(<<"Bg :: blob(*T) { f: *T }", "idi :: fn a: int -> int do ret a end",
                         "idf :: fn a: float -> float do ret a end", "idb :: fn a: bool -> bool do ret a end">>)
\* <<top-level lines, lines in start>>
LitParts(pos, t, ty) ==
    LET z == LitZero(ty) IN
    CASE pos = "const"    -> << <<"x :: " \o t>>, <<"w := x">> >>
      [] pos = "gvar"     -> << <<"x := " \o t>>, <<"w := x">> >>
      [] pos = "local"    -> << <<>>, <<"x := " \o t>> >>
      [] pos = "annot"    -> << <<>>, <<"x: " \o ty \o " = " \o t>> >>
      [] pos = "ret"      -> << <<"f :: fn -> " \o ty \o " do", "ret " \o t, "end">>, <<"w := f()">> >>
      [] pos = "arg"      -> << <<>>, <<"w := " \o LitIdFn(ty) \o "(" \o t \o ")">> >>
      [] pos = "list"     -> << <<>>, <<"w := [" \o t \o ", " \o z \o "]">> >>
      [] pos = "tuple"    -> << <<>>, <<"w := (" \o t \o ", " \o z \o ")">> >>
      [] pos = "blob"     -> << <<>>, <<"w := Bg { f: " \o t \o " }">> >>
      [] pos = "compound" -> << <<>>, <<IF ty = "bool" THEN "q = " \o t ELSE "q += " \o t>> >>
      [] pos = "cond"     -> << <<>>, <<"if (" \o t \o ") == " \o z \o " do", "end">> >>
      [] pos = "closure"  -> << <<>>, <<"k := fn ->", t, "end", "w := k()">> >>
      [] pos = "tindex"   -> << <<>>, <<"w := (1, 2)[" \o t \o "]">> >>          \* (a tuple index is a literal, never an expression)
LitFrame(pos, x) ==
    LET parts == LitParts(pos, x.t, x.ty) IN
    LitPrelude \o FamLines(parts[1] \o <<"start :: fn do", "q := " \o LitZero(x.ty)>> \o parts[2] \o <<"end">>)
\* trees (a o1 b) o2 (c o3 d) over 2^32 and 2^63-1, every operator triple; at three positions
LitT2 == <<"4294967296", "9223372036854775807">>
LitOps3 == <<LitOps[1], LitOps[2], LitOps[3]>>
LitTreeN == 16 * 27
LitTree(m) == LET a == LitT2[((m \div 8) % 2) + 1]  b == LitT2[((m \div 4) % 2) + 1]  c == LitT2[((m \div 2) % 2) + 1]  d == LitT2[(m % 2) + 1]
                  o1 == LitOps3[((m \div 144) % 3) + 1]  o2 == LitOps3[((m \div 48) % 3) + 1]  o3 == LitOps3[((m \div 16) % 3) + 1] IN
    LitExpr("tree:" \o a \o "_" \o o1.id \o "_" \o b \o "_" \o o2.id \o "_" \o c \o "_" \o o3.id \o "_" \o d,
            "(" \o a \o " " \o o1.t \o " " \o b \o ") " \o o2.t \o " (" \o c \o " " \o o3.t \o " " \o d \o ")", "int")
LitTreePositions == <<"const", "local", "arg">>
LitIndexLits == LitI6 \o LitLex
LitGridN == LitNE * Len(LitPositions)
LitTreeGridN == LitTreeN * Len(LitTreePositions)
LitSize == LitGridN + LitTreeGridN + Len(LitIndexLits)
LitPick(i) ==      \* <<expression, position>> of 1-based i
    LET m == i - 1 IN
    IF m < LitGridN THEN <<LitExprAt(m \div Len(LitPositions)), LitPositions[(m % Len(LitPositions)) + 1]>>
    ELSE IF m < LitGridN + LitTreeGridN
         THEN <<LitTree((m - LitGridN) \div Len(LitTreePositions)), LitTreePositions[((m - LitGridN) % Len(LitTreePositions)) + 1]>>
    ELSE LET l == LitIndexLits[m - LitGridN - LitTreeGridN + 1] IN <<LitExpr("index:" \o l, l, "int"), "tindex">>
LitCase(i) == LET xp == LitPick(i) IN
    [id |-> "lit:" \o xp[1].id \o ":" \o xp[2], nostd |-> TRUE, files |-> FamMain(LitFrame(xp[2], xp[1]))]

\* ---- hist: HISTORIES - two or three compilations one after the other in ONE thread of one process ------------------
\* A compilation is a function of its input: whatever was compiled before in the same thread, every run of the history is
\* a complete behaviour and ends with the verdict it has when the program is compiled alone (HistoryFree below).
\* Programs differ in what can be carried over: the number of files (file ids), with / without the standard library (the
\* preamble and the library files get the ids after the user files), valid or with an error of each phase, and with the
\* errors that are LOCATED in the preamble: a definition, an import alias or a namespace named like something the
\* preamble imports (max, print, Maybe, map, list), in the main file or in the last file of the project.
HistLayouts == << [id |-> "one", n |-> 1, fan |-> FALSE, last |-> FALSE],
                  [id |-> "three-last", n |-> 3, fan |-> FALSE, last |-> TRUE],        \* main -> m01 -> m02
                  [id |-> "ten-main", n |-> 10, fan |-> TRUE, last |-> FALSE],         \* main uses m01 .. m09
                  [id |-> "ten-last", n |-> 10, fan |-> TRUE, last |-> TRUE],
                  [id |-> "twelve-last", n |-> 12, fan |-> FALSE, last |-> TRUE] >>    \* main -> m01 -> ... -> m11
HistContents == << [id |-> "ok", st |-> <<>>],
                   [id |-> "syntax", st |-> <<"y :: :: 1">>],
                   [id |-> "type", st |-> <<"y :: 1 + " \o StrLit>>],
                   [id |-> "unknown", st |-> <<"y :: nope">>],
                   [id |-> "collfn", st |-> <<"max :: fn a: int, b: int -> int do ret a end">>],
                   [id |-> "collconst", st |-> <<"print :: 1">>],
                   [id |-> "colltype", st |-> <<"Maybe :: blob { f: int }">>],
                   [id |-> "collalias", st |-> <<"from main use x as map">>],
                   [id |-> "collns", st |-> <<"use main as list">>] >>
HistNoStdLayouts == <<1, 4, 5>>        \* without std: one, ten-last, twelve-last x ok, syntax, type
HistNoStdContents == 3
HistMod(q) == "m" \o FamNum2(q)
RECURSIVE HistUses(_, _)
HistUses(q, n) == IF q > n THEN <<>> ELSE <<"use " \o HistMod(q)>> \o HistUses(q + 1, n)
HistFileLines(lay, q) ==
    IF lay.fan THEN (IF q = 0 THEN HistUses(1, lay.n - 1) \o <<"x :: m01.x + 1">> ELSE <<"x :: 1">>)
    ELSE IF q < lay.n - 1 THEN <<"use " \o HistMod(q + 1), "x :: " \o HistMod(q + 1) \o ".x + 1">> ELSE <<"x :: 1">>
HistFile(lay, con, q) ==
    FamFile(IF q = 0 THEN "main.sy" ELSE HistMod(q) \o ".sy",
            FamLines(HistFileLines(lay, q) \o (IF q = (IF lay.last THEN lay.n - 1 ELSE 0) THEN con.st ELSE <<>>)
                     \o (IF q = 0 THEN <<"start :: fn do", "w := x", "end">> ELSE <<>>)))
\* expect: the verdict class the language gives the program (used by the vacuity guard only; the check compares with the run alone)
HistProgId(lay, con, std) == lay.id \o "." \o con.id \o (IF std THEN ".std" ELSE ".nostd")
HistProg(lay, con, std) ==
    [id |-> HistProgId(lay, con, std), nostd |-> ~std,
     expect |-> IF con.id = "ok" THEN "accept" ELSE "reject",
     files |-> [q \in 1..lay.n |-> HistFile(lay, con, q - 1)]]
HistStdN == Len(HistLayouts) * Len(HistContents)
HistNP == HistStdN + Len(HistNoStdLayouts) * HistNoStdContents
HistProgAt(p) ==      \* 0-based
    IF p < HistStdN THEN HistProg(HistLayouts[(p \div Len(HistContents)) + 1], HistContents[(p % Len(HistContents)) + 1], TRUE)
    ELSE HistProg(HistLayouts[HistNoStdLayouts[((p - HistStdN) \div HistNoStdContents) + 1]], HistContents[((p - HistStdN) % HistNoStdContents) + 1], FALSE)
HistProgIdAt(p) ==    \* (the id alone, without building the files)
    IF p < HistStdN THEN HistProgId(HistLayouts[(p \div Len(HistContents)) + 1], HistContents[(p % Len(HistContents)) + 1], TRUE)
    ELSE HistProgId(HistLayouts[HistNoStdLayouts[((p - HistStdN) \div HistNoStdContents) + 1]], HistContents[((p - HistStdN) % HistNoStdContents) + 1], FALSE)
\* triples over eight programs: small and large, valid and not, located in the preamble and not, with and without std
HistTriple == <<0, 4, 26, 27, 38, 45, 49, 51>>
\* pairs: what is carried over depends on the size, the library and the fate of the EARLIER program - every layout x
\* (valid, syntax error, type error, located in the preamble) with std, and every program without std - what it does
\* to the LATER program depends on everything: all 54 programs
HistFirstContents == <<0, 1, 2, 4>>
HistFirstStdN == Len(HistLayouts) * Len(HistFirstContents)
HistFirstN == HistFirstStdN + (HistNP - HistStdN)
HistFirstAt(f) ==     \* 0-based: the index of the program
    IF f < HistFirstStdN THEN (f \div Len(HistFirstContents)) * Len(HistContents) + HistFirstContents[(f % Len(HistFirstContents)) + 1]
    ELSE HistStdN + (f - HistFirstStdN)
HistPairsN == HistFirstN * HistNP
HistTriplesN == Len(HistTriple) * Len(HistTriple) * Len(HistTriple)
HistSize == HistPairsN + HistTriplesN
HistSteps(i) == LET m == i - 1 IN
    IF m < HistPairsN THEN <<HistProgAt(HistFirstAt(m \div HistNP)), HistProgAt(m % HistNP)>>
    ELSE LET t == m - HistPairsN
             k == Len(HistTriple) IN
         <<HistProgAt(HistTriple[(t \div (k * k)) + 1]), HistProgAt(HistTriple[((t \div k) % k) + 1]), HistProgAt(HistTriple[(t % k) + 1])>>
RECURSIVE HistIdFrom(_, _)
HistIdFrom(steps, q) == steps[q].id \o (IF q = Len(steps) THEN "" ELSE ">" \o HistIdFrom(steps, q + 1))
HistCase(i) == LET steps == HistSteps(i) IN [id |-> "hist:" \o HistIdFrom(steps, 1), steps |-> steps]

\* ---- the families by name -------------------------------------------------------------------------
Families == <<"nest", "nestraw", "nestsolo", "place", "cyc", "selfty", "text", "entry", "lit", "hist">>
HistFamilies == {"hist"}            \* families whose cases are histories [id, steps] instead of one program [id, files, nostd]
FamSize(f) == CASE f = "nest" -> NestSize [] f = "nestraw" -> RawSize [] f = "nestsolo" -> SoloSize
                [] f = "place" -> PlaceSize [] f = "cyc" -> CycSize [] f = "selfty" -> SelfSize
                [] f = "text" -> TextSize [] f = "entry" -> EntrySize [] f = "lit" -> LitSize [] f = "hist" -> HistSize
\* what the recorder writes as the input of a case: every file under a header line, main file first
RECURSIVE FamTextFrom(_, _)
FamTextFrom(files, q) == IF q > Len(files) THEN "" ELSE "## " \o files[q].name \o NL \o files[q].text \o FamTextFrom(files, q + 1)
FamText(c) == FamTextFrom(c.files, 1)
\* ... of a history: the programs one after the other, each under a line that says whether it is compiled with std
RECURSIVE HistTextFrom(_, _)
HistTextFrom(steps, q) == IF q > Len(steps) THEN ""
                          ELSE "#### " \o (IF steps[q].nostd THEN "nostd" ELSE "std") \o NL \o FamText(steps[q]) \o HistTextFrom(steps, q + 1)
HistText(c) == HistTextFrom(c.steps, 1)
FamCase(f, i) == CASE f = "nest" -> NestCase(i) [] f = "nestraw" -> RawCase(i) [] f = "nestsolo" -> SoloCase(i)
                   [] f = "place" -> PlaceCase(i) [] f = "cyc" -> CycCase(i) [] f = "selfty" -> SelfCase(i)
                   [] f = "text" -> TextCase(i) [] f = "entry" -> EntryCase(i) [] f = "lit" -> LitCase(i) [] f = "hist" -> HistCase(i)

---------------------------------------------------------------------------
Init == /\ phase = "idle" /\ input = "" /\ stage = "none"
        /\ errs = 0 /\ bytes = 0 /\ rendered = <<>>

Start(inp) ==
    /\ phase = "idle"
    /\ phase' = "started" /\ input' = inp
    /\ UNCHANGED <<stage, errs, bytes, rendered>>

\* the front end (reader, conflict markers, tokenizer, parser) rejects: n errors, nothing compiled
ParseErr(n) ==
    /\ phase = "started" /\ n >= 1
    /\ phase' = "failed" /\ stage' = "parse" /\ errs' = n
    /\ UNCHANGED <<input, bytes, rendered>>

ParseOk ==
    /\ phase = "started"
    /\ phase' = "parsed"
    /\ UNCHANGED <<input, stage, errs, bytes, rendered>>

\* name resolution, dependency order, type checker reject: n errors; b bytes had been written by then
\* (C07 does not constrain b; C03/C06 add FailedWritesNothing)
CompileErr(n, b) ==
    /\ phase = "parsed" /\ n >= 1 /\ b >= 0
    /\ phase' = "failed" /\ stage' = "compile" /\ errs' = n /\ bytes' = b
    /\ UNCHANGED <<input, rendered>>

\* Lua was written: b bytes, no errors
CompileOk(b) ==
    /\ phase = "parsed" /\ b >= 1
    /\ phase' = "compiled" /\ stage' = "compile" /\ bytes' = b
    /\ UNCHANGED <<input, errs, rendered>>

\* the next not yet rendered error renders to a text of len characters
RenderErr(len) ==
    /\ phase = "failed" /\ Len(rendered) < errs /\ len >= 1
    /\ rendered' = Append(rendered, len)
    /\ UNCHANGED <<phase, input, stage, errs, bytes>>

Finish ==
    /\ \/ phase = "compiled"
       \/ phase = "failed" /\ Len(rendered) = errs
    /\ phase' = "finished"
    /\ UNCHANGED <<input, stage, errs, bytes, rendered>>

\* Histories.  The protocol above is ONE compilation.  A caller may compile again once a run is finished; the next run
\* starts from the blank state: nothing of the previous run is visible to it.  (Not part of Next: the model of one run is
\* unchanged; Trace_Pipeline takes this step between the runs of a recorded history.)
Again ==
    /\ phase = "finished"
    /\ phase' = "idle" /\ input' = "" /\ stage' = "none" /\ errs' = 0 /\ bytes' = 0 /\ rendered' = <<>>

\* the verdict of a run as the caller sees it when the call returns: accepted or rejected, by which half, with how many errors
Verdict == [r |-> IF phase = "compiled" THEN "ok" ELSE "err", st |-> stage, n |-> errs]
\* a compilation is a function of its input: in whatever history the run stands, its verdict is the one of the run alone
HistoryFree(alone) == phase \in {"compiled", "failed"} => Verdict = alone

Next == \/ \E inp \in Inputs : Start(inp)
        \/ \E n \in 1..MaxErrs : ParseErr(n)
        \/ \E n \in 1..MaxErrs, b \in 0..MaxBytes : CompileErr(n, b)
        \/ ParseOk
        \/ \E b \in 1..MaxBytes : CompileOk(b)
        \/ \E len \in 1..MaxRender : RenderErr(len)
        \/ Finish

Spec == Init /\ [][Next]_pvars /\ WF_pvars(Next)

---------------------------------------------------------------------------
(* Invariants *)
Phases == {"idle", "started", "parsed", "compiled", "failed", "finished"}

TypeOK == /\ phase \in Phases
          /\ stage \in {"none", "parse", "compile"}
          /\ errs \in Nat /\ bytes \in Nat
          /\ \A q \in 1..Len(rendered) : rendered[q] \in Nat

\* a failed run carries at least one error
FailedHasErrors == phase = "failed" => errs >= 1 /\ stage \in {"parse", "compile"}

\* a successful run wrote something and carries no error
OkHasBytes == phase = "compiled" => bytes >= 1 /\ errs = 0 /\ rendered = <<>>

\* renderings are produced for existing errors only, and none is empty
RenderedSane == /\ Len(rendered) <= errs
                /\ \A q \in 1..Len(rendered) : rendered[q] >= 1

\* what a complete behaviour looks like: exactly one of the two legal outcomes
Succeeded == stage = "compile" /\ errs = 0 /\ bytes >= 1 /\ rendered = <<>>
Rejected  == stage \in {"parse", "compile"} /\ errs >= 1 /\ Len(rendered) = errs
             /\ \A q \in 1..errs : rendered[q] >= 1
FinishedIsOutcome == phase = "finished" => (Succeeded \/ Rejected) /\ ~(Succeeded /\ Rejected)

\* nothing is decided before the call returned
UndecidedIsBlank == phase \in {"idle", "started", "parsed"} => errs = 0 /\ bytes = 0 /\ rendered = <<>> /\ stage = "none"

\* the protocol has no dead end: unless finished, something can happen
NoStuck == phase # "finished" => ENABLED Next

Complete == phase = "finished"

\* every fair behaviour is complete
Terminates == <>Complete

(* The stronger clause used by C03/C06 ("no Lua on error"); not part of C07. *)
FailedWritesNothing == phase = "failed" => bytes = 0
=============================================================================
