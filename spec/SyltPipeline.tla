---------------------------- MODULE SyltPipeline ----------------------------
(***************************************************************************)
(* Outcome protocol of one compilation (properties C07; reused by C06/C16). *)
(*                                                                         *)
(* What a caller of the public entry point                                 *)
(*   sylt::compile_with_reader_to_writer(args, reader, writer)             *)
(* may observe, as a state machine.  A run is started on an input, the     *)
(* front end either rejects it (ParseErr) or hands a tree to the back end  *)
(* (ParseOk), the back end either writes Lua (CompileOk) or rejects        *)
(* (CompileErr).  A rejection carries n >= 1 errors; the caller renders    *)
(* every one of them to text (RenderErr) and each rendering is non-empty.  *)
(* Only then may the run Finish.  A successful run wrote b >= 1 bytes and  *)
(* carries no errors.                                                      *)
(*                                                                         *)
(* There is deliberately NO action for a panic, an abort or a watchdog     *)
(* timeout: a run in which one of these happens leaves a trace that stops  *)
(* before Finish, and such a trace is not a behaviour of this module.      *)
(* "The compiler is total" = every observed run is a complete behaviour,   *)
(* i.e. one that reaches phase "finished".                                 *)
(*                                                                         *)
(* The module also defines the exhaustive universe of short token strings  *)
(* (TokenStringAt) that C07 feeds to the compiler; the universe is decided *)
(* here and re-derived by TLC during trace validation, not by the harness. *)
(***************************************************************************)
EXTENDS Naturals, Sequences, FiniteSets, TLC

CONSTANTS MaxErrs,      \* model bound: a rejection carries 1..MaxErrs errors
          MaxBytes,     \* model bound: a success writes 1..MaxBytes bytes
          MaxRender,    \* model bound: a rendering is 1..MaxRender characters long
          NumInputs     \* model bound: inputs are TokenTextAt(Tok20, 1..NumInputs, "top")

VARIABLES phase,     \* "idle" | "started" | "parsed" | "compiled" | "failed" | "finished"
          input,     \* the text the run was started on ("" while idle)
          stage,     \* "none" | "parse" | "compile": which half produced the outcome
          errs,      \* number of errors returned (0 unless failed)
          bytes,     \* bytes written to the writer when the call returned
          rendered   \* lengths of the renderings produced so far, in error order

pvars == <<phase, input, stage, errs, bytes, rendered>>

---------------------------------------------------------------------------
(* The token-string universe.  Tok20 is the working alphabet: 20 spellings *)
(* that reach definitions, constants, types, calls, tuples, member access, *)
(* arrow calls, function literals, blocks, enums and imports within five   *)
(* tokens.  Tok31 adds the remaining statement and expression keywords     *)
(* (pure functions, if/else, prime calls, blobs and their literals, ret,   *)
(* loop, break, case); it is explored one token shorter.                   *)
NL == "\n"
DQ == "\""
StrLit == DQ \o "s" \o DQ

Tok20 == <<"a", "A", "1", StrLit, "::", ":=", ":", "=", "fn", "do", "end", "(", ")", ",", NL,
           ".", "+", "->", "enum", "use">>
Tok31 == <<"a", "A", "1", StrLit, ":=", "::", ":", "=", "fn", "pu", "do", "end", "(", ")", ",", NL,
           "if", "else", ".", "+", "->", "'", "blob", "enum", "{", "}", "use", "ret", "loop", "break", "case">>

RECURSIVE Pow(_, _)
Pow(b, e) == IF e = 0 THEN 1 ELSE b * Pow(b, e - 1)

\* number of token strings of length 0..L over an alphabet of size a
RECURSIVE NumUpTo(_, _)
NumUpTo(a, L) == IF L < 0 THEN 0 ELSE Pow(a, L) + NumUpTo(a, L - 1)
NumTokenStrings(alpha, L) == NumUpTo(Len(alpha), L)

\* which length block does 0-based index m fall in, starting from length l: <<length, offset in block>>
RECURSIVE BlockOf(_, _, _)
BlockOf(a, m, l) == IF m < Pow(a, l) THEN <<l, m>> ELSE BlockOf(a, m - Pow(a, l), l + 1)

\* the l base-a digits of m, least significant first, spelled and joined by single spaces
RECURSIVE Spell(_, _, _)
Spell(alpha, m, l) ==
    IF l = 0 THEN ""
    ELSE IF l = 1 THEN alpha[(m % Len(alpha)) + 1]
    ELSE alpha[(m % Len(alpha)) + 1] \o " " \o Spell(alpha, m \div Len(alpha), l - 1)

\* 1-based: index 1 is the empty text, then all 1-token texts, all 2-token texts, ...
TokenStringAt(alpha, i) == LET lm == BlockOf(Len(alpha), i - 1, 0) IN Spell(alpha, lm[2], lm[1])

\* Frames.  A token string on its own ("raw") almost never gets past the parser: a statement ends at a
\* newline and a program needs an entry point.  The framed universes put the same token strings where
\* the later phases see them: "top" = as top-level text in front of a minimal entry point, "body" = as
\* the body of the entry point (statements: if, ret, loop, break, case, inner definitions).
EntryPoint == "start :: fn do end"
TokenTextAt(alpha, i, frame) ==
    LET s == TokenStringAt(alpha, i) IN
    CASE frame = "raw"  -> s
      [] frame = "top"  -> s \o NL \o EntryPoint \o NL
      [] frame = "body" -> "start :: fn do" \o NL \o s \o NL \o "end" \o NL

Inputs == {TokenTextAt(Tok20, i, "top") : i \in 1..NumInputs}

---------------------------------------------------------------------------
Init == /\ phase = "idle" /\ input = "" /\ stage = "none"
        /\ errs = 0 /\ bytes = 0 /\ rendered = <<>>

Start(inp) ==
    /\ phase = "idle"
    /\ phase' = "started" /\ input' = inp
    /\ UNCHANGED <<stage, errs, bytes, rendered>>

\* the front end (reader, conflict markers, tokenizer, parser) rejects: n errors, nothing compiled
ParseErr(n) ==
    /\ phase = "started" /\ n >= 1
    /\ phase' = "failed" /\ stage' = "parse" /\ errs' = n
    /\ UNCHANGED <<input, bytes, rendered>>

ParseOk ==
    /\ phase = "started"
    /\ phase' = "parsed"
    /\ UNCHANGED <<input, stage, errs, bytes, rendered>>

\* name resolution, dependency order, type checker reject: n errors; b bytes had been written by then
\* (C07 does not constrain b; C03/C06 add FailedWritesNothing)
CompileErr(n, b) ==
    /\ phase = "parsed" /\ n >= 1 /\ b >= 0
    /\ phase' = "failed" /\ stage' = "compile" /\ errs' = n /\ bytes' = b
    /\ UNCHANGED <<input, rendered>>

\* Lua was written: b bytes, no errors
CompileOk(b) ==
    /\ phase = "parsed" /\ b >= 1
    /\ phase' = "compiled" /\ stage' = "compile" /\ bytes' = b
    /\ UNCHANGED <<input, errs, rendered>>

\* the next not yet rendered error renders to a text of len characters
RenderErr(len) ==
    /\ phase = "failed" /\ Len(rendered) < errs /\ len >= 1
    /\ rendered' = Append(rendered, len)
    /\ UNCHANGED <<phase, input, stage, errs, bytes>>

Finish ==
    /\ \/ phase = "compiled"
       \/ phase = "failed" /\ Len(rendered) = errs
    /\ phase' = "finished"
    /\ UNCHANGED <<input, stage, errs, bytes, rendered>>

Next == \/ \E inp \in Inputs : Start(inp)
        \/ \E n \in 1..MaxErrs : ParseErr(n)
        \/ \E n \in 1..MaxErrs, b \in 0..MaxBytes : CompileErr(n, b)
        \/ ParseOk
        \/ \E b \in 1..MaxBytes : CompileOk(b)
        \/ \E len \in 1..MaxRender : RenderErr(len)
        \/ Finish

Spec == Init /\ [][Next]_pvars /\ WF_pvars(Next)

---------------------------------------------------------------------------
(* Invariants *)
Phases == {"idle", "started", "parsed", "compiled", "failed", "finished"}

TypeOK == /\ phase \in Phases
          /\ stage \in {"none", "parse", "compile"}
          /\ errs \in Nat /\ bytes \in Nat
          /\ \A q \in 1..Len(rendered) : rendered[q] \in Nat

\* a failed run carries at least one error
FailedHasErrors == phase = "failed" => errs >= 1 /\ stage \in {"parse", "compile"}

\* a successful run wrote something and carries no error
OkHasBytes == phase = "compiled" => bytes >= 1 /\ errs = 0 /\ rendered = <<>>

\* renderings are produced for existing errors only, and none is empty
RenderedSane == /\ Len(rendered) <= errs
                /\ \A q \in 1..Len(rendered) : rendered[q] >= 1

\* what a complete behaviour looks like: exactly one of the two legal outcomes
Succeeded == stage = "compile" /\ errs = 0 /\ bytes >= 1 /\ rendered = <<>>
Rejected  == stage \in {"parse", "compile"} /\ errs >= 1 /\ Len(rendered) = errs
             /\ \A q \in 1..errs : rendered[q] >= 1
FinishedIsOutcome == phase = "finished" => (Succeeded \/ Rejected) /\ ~(Succeeded /\ Rejected)

\* nothing is decided before the call returned
UndecidedIsBlank == phase \in {"idle", "started", "parsed"} => errs = 0 /\ bytes = 0 /\ rendered = <<>> /\ stage = "none"

\* the protocol has no dead end: unless finished, something can happen
NoStuck == phase # "finished" => ENABLED Next

Complete == phase = "finished"

\* every fair behaviour is complete
Terminates == <>Complete

(* The stronger clause used by C03/C06 ("no Lua on error"); not part of C07. *)
FailedWritesNothing == phase = "failed" => bytes = 0
=============================================================================
