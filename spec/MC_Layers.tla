----------------------------- MODULE MC_Layers -----------------------------
(***************************************************************************)
(* The C12 universe, family L (SyltLayers): module order, names handed on  *)
(* by `from` through exporting files, same-named globals in several files, *)
(* the entry point.  One behaviour per configuration (n, w): Init derives  *)
(* it from its address, Emit prints it as a REPLAY record (per file: the   *)
(* import lines, the definitions as AST, the text of every reference to a  *)
(* global of another file) together with what the specification expects    *)
(* (module order, printed lines, whether the verdict is free).             *)
(* ConfigInvL holds in every state.                                        *)
(***************************************************************************)
EXTENDS SyltLayers, Json, IOUtils

MCTreeL == <<"main.sy", "report.sy", "engine.sy", "shapes/exports.sy", "shapes/_circle.sy", "kit/exports.sy">>
MCNoProgs == {}

VARIABLES d, pc
vars == <<d, pc>>

NV == IF "NV" \in DOMAIN IOEnv THEN atoi(IOEnv.NV) ELSE 2          \* variants per primary
Seed == IF "SEED" \in DOMAIN IOEnv THEN atoi(IOEnv.SEED) ELSE 1
Only == IF "ONLY" \in DOMAIN IOEnv THEN IOEnv.ONLY ELSE ""        \* just the configuration ONLY_N, ONLY_W in every order
                                                                  \* of the main file's imports (replays)

ASSUME PathsOK
ASSUME PrintT(<<"INFO", ToJson([tree |-> Tree, primaries |-> Cardinality(PrimariesL), variants |-> NVariantsL,
                                spellings |-> <<>>])>>)

Ids == IF Only = "" THEN UniverseIdsL(NV, Seed)
       ELSE {<<n, atoi(IOEnv.ONLY_W)>> : n \in {n \in PrimariesL : n % NBaseL = atoi(IOEnv.ONLY_N) % NBaseL}}

Init == /\ pc = "made"
        /\ \E id \in Ids : d = DeriveL(id[1], id[2])

EmitRecL(c) ==
    [n |-> c.n, w |-> c.w, len |-> c.len, cons |-> c.cons, last |-> c.last, em |-> c.em, ord |-> c.ord, nmain |-> c.nmain,
     files |-> [q \in DOMAIN c.files |->
                  [path |-> c.files[q].path, lines |-> c.files[q].lines, tops |-> c.files[q].tops,
                   refs |-> [r \in DOMAIN c.files[q].refs |->
                               [b |-> c.files[q].refs[r].b, ns |-> JoinDot(c.files[q].refs[r].ns, 1), name |-> c.files[q].refs[r].name]],
                   imports_last |-> c.files[q].imports_last]],
     load |-> c.load, free |-> c.free, expect |-> c.expect, base |-> c.n % NBaseL,
     boots |-> c.boots, smode |-> c.smode, extras |-> c.extras, gofrom |-> c.gofrom, rev |-> c.rev, a1 |-> c.a1, a2 |-> c.a2,
     layout |-> c.layout, startdep |-> c.startdep, cycle |-> c.cycle, multi |-> c.multi,
     nhops |-> Cardinality(c.hops)]

Emit == /\ pc = "made"
        /\ pc' = "done"
        /\ d' = d
        /\ PrintT(<<"REPLAY", ToJson(EmitRecL(d))>>)

Next == Emit
Spec == Init /\ [][Next]_vars

ConfigInvL == pc = "made" => ConfigOKL(d)
=============================================================================
