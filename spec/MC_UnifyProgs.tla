--------------------------- MODULE MC_UnifyProgs ---------------------------
(***************************************************************************)
(* The program family whose compilations are recorded for Trace_Unify:     *)
(* an UN-ANNOTATED function applies one operation to its parameters (each  *)
(* leaves a deferred constraint on a still unknown type), and is called    *)
(* with arguments of every kind of provenance - literals (classes of size  *)
(* one), variables, alias chains (bigger classes), fields, tuple           *)
(* components, results of a generic identity - and of fitting and of       *)
(* non-fitting types, at one or two call sites.  Whether the program is    *)
(* accepted does not matter here: every compilation's union-find log must  *)
(* be a behaviour of SyltUnify up to the point where the checker stops.    *)
(* Programs are written as text (no std needed), one case per behaviour.   *)
(***************************************************************************)
EXTENDS Naturals, Sequences, FiniteSets, TLC, Json, IOUtils

NL == "\n"
Ops == <<"add", "sub", "mul", "div", "lt", "le", "eq", "neg", "field", "index", "case", "fieldset">>
Body(op) ==
  CASE op = "add" -> "    a + b"
    [] op = "sub" -> "    a - b"
    [] op = "mul" -> "    a * b"
    [] op = "div" -> "    a / b"
    [] op = "lt"  -> "    a < b"
    [] op = "le"  -> "    a <= b"
    [] op = "eq"  -> "    a == b"
    [] op = "neg" -> "    -a + b"
    [] op = "field" -> "    a.x + b"
    [] op = "index" -> "    a[0] + b"
    [] op = "fieldset" -> "    a.x = b" \o NL \o "    a.x"
    [] op = "case" -> "    case a do" \o NL \o "        X v ->" \o NL \o "            v + b" \o NL \o "        end" \o NL
                       \o "        Y ->" \o NL \o "            b" \o NL \o "        end" \o NL \o "    end"

Prelude == "E :: enum" \o NL \o "    X int," \o NL \o "    Y," \o NL \o "end" \o NL
           \o "P :: blob { x: int }" \o NL \o "Q :: blob { y: str }" \o NL
           \o "id :: fn v -> v end" \o NL

\* first-argument values by type
Vals == <<"1", "1.5", "\"a\"", "(1, 2)", "P { x: 1 }", "E.X 1", "Q { y: \"s\" }", "[1]">>
\* second-argument values
Vals2 == <<"2", "\"b\"", "2.5">>

Provs == <<"lit", "var", "alias", "field", "elem", "call", "mut">>
\* declarations and the argument text for value v arriving by provenance p (name suffix s keeps the two arguments apart)
Decl(p, v, s) ==
  CASE p = "lit"   -> ""
    [] p = "var"   -> "    x" \o s \o " :: " \o v \o NL
    [] p = "mut"   -> "    x" \o s \o " := " \o v \o NL
    [] p = "alias" -> "    x" \o s \o " := " \o v \o NL \o "    y" \o s \o " := x" \o s \o NL \o "    z" \o s \o " := y" \o s \o NL
    [] p = "field" -> "    h" \o s \o " :: (" \o v \o ", 0)" \o NL \o "    k" \o s \o " :: h" \o s \o NL
    [] p = "elem"  -> "    t" \o s \o " :: (0, " \o v \o ")" \o NL
    [] p = "call"  -> "    x" \o s \o " :: " \o v \o NL
Arg(p, v, s) ==
  CASE p = "lit"   -> v
    [] p = "var"   -> "x" \o s
    [] p = "mut"   -> "x" \o s
    [] p = "alias" -> "z" \o s
    [] p = "field" -> "k" \o s \o "[0]"
    [] p = "elem"  -> "t" \o s \o "[1]"
    [] p = "call"  -> "id(x" \o s \o ")"

Src(c) ==
  Prelude \o "f :: fn a, b ->" \o NL \o Body(Ops[c.op]) \o NL \o "end" \o NL
  \o "start :: fn do" \o NL
  \o Decl(Provs[c.p1], Vals[c.v1], "a") \o Decl(Provs[c.p2], Vals2[c.v2], "b")
  \o "    r :: f(" \o Arg(Provs[c.p1], Vals[c.v1], "a") \o ", " \o Arg(Provs[c.p2], Vals2[c.v2], "b") \o ")" \o NL
  \o (IF c.two THEN "    q :: f(" \o Arg(Provs[c.p2], Vals2[c.v2], "b") \o ", " \o Arg(Provs[c.p1], Vals[c.v1], "a") \o ")" \o NL ELSE "")
  \o "end" \o NL

Cases == [op : 1..Len(Ops), v1 : 1..Len(Vals), p1 : 1..Len(Provs), v2 : 1..Len(Vals2), p2 : 1..Len(Provs), two : BOOLEAN]
Idx(c) == ((((c.op - 1) * Len(Vals) + (c.v1 - 1)) * Len(Provs) + (c.p1 - 1)) * Len(Vals2) + (c.v2 - 1)) * Len(Provs) + (c.p2 - 1)
Stride == IF "STRIDE" \in DOMAIN IOEnv THEN atoi(IOEnv.STRIDE) ELSE 1
Offset == IF "OFFSET" \in DOMAIN IOEnv THEN atoi(IOEnv.OFFSET) ELSE 0
Selected == {c \in Cases : (Idx(c) + (IF c.two THEN 1 ELSE 0)) % Stride = Offset % Stride}

ASSUME Cardinality({Idx(x) : x \in {y \in Cases : y.two}}) = Cardinality({y \in Cases : y.two})       \* the index is injective

VARIABLES c, done
Init == c \in Selected /\ done = FALSE
Emit == /\ ~done /\ done' = TRUE /\ c' = c
        /\ PrintT(<<"REPLAY", ToJson([id |-> [op |-> Ops[c.op], v1 |-> c.v1, p1 |-> Provs[c.p1], v2 |-> c.v2, p2 |-> Provs[c.p2], two |-> c.two],
                                      std |-> FALSE, src |-> Src(c)])>>)
Next == Emit
Spec == Init /\ [][Next]_<<c, done>>
=============================================================================
