SPECIFICATION Spec
INVARIANTS RoundTrip TypedOk ChainRoot
CHECK_DEADLOCK FALSE
