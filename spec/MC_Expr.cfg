SPECIFICATION Spec
INVARIANTS RoundTrip TypedOk ChainRoot LongLeft
CHECK_DEADLOCK FALSE
