SPECIFICATION Spec
INVARIANTS ResolveLegal
CHECK_DEADLOCK FALSE
