------------------------------- MODULE MC_Expr -------------------------------
(* Universe enumeration for C13: one behaviour per case; the case record is printed once.  *)
(* Spec-level invariant: the printing rules and the operator table agree with the          *)
(* reference parser (Parse(Min(t)) = t and Parse(Full(t)) = t).                            *)
EXTENDS SyltPrimary, Json, IOUtils

VARIABLES c, done
vars == <<c, done>>

ChainCases == {[u |-> "chain", i |-> i, j |-> j, m |-> m] : i \in 1..Len(BinOps), j \in 1..Len(BinOps), m \in 1..Len(BinOps)}
\* chains over literal leaves written over SEVERAL LINES inside parentheses (newlines are insignificant inside brackets):
\* a line break or a comment before the 2nd or the 3rd operator must not change the grouping
BreakToks == <<"\n", "// c\n">>
LitChain(i, j, m) == <<"1", BinOps[i], "2", BinOps[j], "3", BinOps[m], "4">>
MlToks(i, j, m, pos, b) ==
    <<"(">> \o (IF pos = 1 THEN <<"1", BinOps[i], "2", BreakToks[b], BinOps[j], "3", BinOps[m], "4">>
                ELSE <<"1", BinOps[i], "2", BinOps[j], "3", BreakToks[b], BinOps[m], "4">>) \o <<")">>
MlCases == {[u |-> "mlchain", i |-> i, j |-> j, m |-> m, pos |-> pos, b |-> b]
              : i \in 1..Len(BinOps), j \in 1..Len(BinOps), m \in 1..Len(BinOps), pos \in 1..2, b \in 1..2}

\* LONG chains: n operands (digits as leaves) joined by one operator, or by two operators alternating: left associativity
\* and the level table hold for every length, not only for 4 operands
RECURSIVE LongToks(_, _, _, _)
LongToks(n, k, o1, o2) == IF k = n THEN <<ToString(k - 1)>>
                          ELSE <<ToString(k - 1), IF k % 2 = 1 THEN o1 ELSE o2>> \o LongToks(n, k + 1, o1, o2)
LongCases == {[u |-> "longchain", n |-> n, o1 |-> BinOps[i], o2 |-> BinOps[i]] : n \in 5..10, i \in 1..Len(BinOps)}
             \cup {[u |-> "longchain", n |-> n, o1 |-> BinOps[i], o2 |-> BinOps[j]] : n \in {8, 9}, i \in 1..Len(BinOps), j \in 1..Len(BinOps)}

\* a unary operator before a PRIME call (`f' x` is a call: it binds tighter than the unary operator)
PrimeTrees == {Un(u, Call(Name("f"), <<Name("x")>>)) : u \in UnOps}
              \cup {Bin(BinOps[i], Name("d"), Un(u, Call(Name("f"), <<Name("x")>>))) : i \in {k \in 1..Len(BinOps) : Level(BinOps[k]) # 6}, u \in UnOps}
PrimeMin(t) == IF t.k = "un" THEN <<t.op, "f", "'", "x">> ELSE <<"d", t.op, t.r.op, "f", "'", "x">>

\* the PRIMARY x POSTFIX x WRAP x CONTEXT universes of SyltPrimary are addressed by small keys (strings); the tree and the
\* texts are built in the action, by the workers
NewKeys == UntypedKeys \cup {key \in TypedKeys : TypedKeyOk(key)} \cup {key \in UKeys : UKeyOk(key)}
IsKey(x) == x.u \in {"prim", "pctx", "ptyped", "ustack"}

Cases == {[u |-> "shape", t |-> t] : t \in Shapes2 \cup Shapes3}
         \cup {[u |-> "typed", t |-> t] : t \in Typed2}
         \cup ChainCases \cup MlCases \cup LongCases
         \cup {[u |-> "prime", t |-> t] : t \in PrimeTrees}
         \cup {[u |-> "ustk", t |-> t] : t \in UStackShapes}
         \cup NewKeys

\* the specification's tree (a call written `f' x` is its own node kind here; Strip gives the implementation's view)
TreeOf(x) == CASE x.u = "chain" -> Parse(ChainToks(x.i, x.j, x.m))
               [] x.u = "mlchain" -> Parse(LitChain(x.i, x.j, x.m))
               [] x.u = "longchain" -> Parse(LongToks(x.n, 1, x.o1, x.o2))
               [] x.u \in {"prim", "pctx"} -> KeyTree(x)
               [] x.u = "ptyped" -> TypedKeyTree(x)
               [] x.u = "ustack" -> UKeyTree(x)
               [] OTHER -> x.t
MinOfT(x, t) == CASE x.u = "chain" -> ChainToks(x.i, x.j, x.m)
                  [] x.u = "mlchain" -> MlToks(x.i, x.j, x.m, x.pos, x.b)
                  [] x.u = "longchain" -> LongToks(x.n, 1, x.o1, x.o2)
                  [] x.u = "prime" -> PrimeMin(x.t)
                  [] x.u = "ustack" -> IF x.sp = "tight" THEN Tight(Min(t), FALSE) ELSE Min(t)
                  [] OTHER -> Min(t)
MinOf(x) == MinOfT(x, TreeOf(x))
FullOfT(x, t) == IF IsKey(x) \/ x.u = "ustk" THEN FullA(t) ELSE Full(t)

\* C13_ONLY (environment): "all", or the name of one universe (development aid)
Only == IOEnv.C13_ONLY
Init == c \in {x \in Cases : Only = "all" \/ x.u = Only} /\ done = FALSE

WName(w) == w[1] \o (IF w[2] = "" THEN "" ELSE ":" \o w[2])
NoVal == [k |-> "none"]
ValOf(x, t) == CASE x.u \in {"ptyped", "ustack"} -> EvalE(t, Env0) [] x.u = "typed" -> Eval(t) [] OTHER -> NoVal
CaseRecord(x, t, v) ==
    CASE x.u \in {"prim", "pctx"} ->
           LET cc == CtxOf(x.cx) IN
           [u |-> x.u, t |-> Strip(t), min |-> MinOfT(x, t), full |-> FullOfT(x, t), val |-> NoVal,
            wl |-> cc.wl, wr |-> cc.wr, path |-> cc.path, whole |-> TRUE, ev |-> FALSE,
            pk |-> x.pk, px |-> x.px, w |-> WName(x.w), cx |-> x.cx]
      [] x.u = "ptyped" ->
           LET cc == ECtxOf(x.cx, v.k, Show(v)) IN
           [u |-> x.u, t |-> Strip(t), min |-> MinOfT(x, t), full |-> FullOfT(x, t),
            val |-> [k |-> "show", s |-> IF cc.out = "v" THEN Show(v) ELSE cc.out], ev |-> TRUE, epre |-> cc.epre, epost |-> cc.epost,
            pk |-> x.tt[1] \o "-" \o x.tt[2], px |-> x.tt[3], w |-> WName(x.w), cx |-> x.cx]
      [] x.u = "ustack" ->
           LET cc == ECtxOf(x.cx, v.k, Show(v)) IN
           [u |-> x.u, t |-> Strip(t), min |-> MinOfT(x, t), full |-> FullOfT(x, t),
            val |-> [k |-> "show", s |-> Show(v)], ev |-> TRUE, epre |-> cc.epre, epost |-> cc.epost,
            pk |-> x.o, px |-> "n" \o ToString(x.n) \o "-" \o x.sp, w |-> WName(x.w), cx |-> x.cx]
      [] OTHER ->
           [u |-> x.u, t |-> t, min |-> MinOfT(x, t), full |-> FullOfT(x, t),
            val |-> v]

Emit == /\ ~done
        /\ done' = TRUE
        /\ c' = c
        /\ \E t \in {TreeOf(c)} : \E v \in {ValOf(c, t)} : PrintT(<<"REPLAY", ToJson(CaseRecord(c, t, v))>>)

Next == Emit
Spec == Init /\ [][Next]_vars

\* The invariants are evaluated on the state AFTER the case was emitted (the initial states are all computed by one thread).
\* (the reference parser knows neither line breaks nor the older prime texts nor the tight spelling: those texts are checked
\*  against the real parser only)
RoundTrip == done =>
             \E t \in {TreeOf(c)} :
             /\ c.u \notin {"mlchain", "prime"} => Parse(Min(t)) = t
             /\ c.u \in {"chain", "longchain"} => MinOf(c) = Min(t)
             /\ Parse(FullOfT(c, t)) = t

\* a long chain of ONE operator leans to the left: its right operand is always a leaf
RECURSIVE LeftLeaning(_)
LeftLeaning(t) == t.k # "bin" \/ (t.r.k # "bin" /\ LeftLeaning(t.l))
LongLeft == (done /\ c.u = "longchain" /\ c.o1 = c.o2) => LeftLeaning(TreeOf(c))

TypedOk == (done /\ c.u = "typed") => TypeOf(c.t) \in {"int", "bool"}

\* the chain's tree really has the three operators in the table's grouping: loosest operator at the root,
\* and among equal levels the rightmost (left associativity)
RECURSIVE MinLevelIn(_)
MinLevelIn(t) == IF t.k # "bin" THEN 99
                 ELSE LET a == MinLevelIn(t.l)  b == MinLevelIn(t.r)  s == Level(t.op) IN
                      IF a <= b /\ a <= s THEN a ELSE IF b <= s THEN b ELSE s
ChainRoot == (done /\ c.u = "chain") =>
    LET t == TreeOf(c) IN
    /\ t.k = "bin" /\ Level(t.op) = MinLevelIn(t)
    /\ (t.r.k = "bin" => Level(t.r.op) > Level(t.op))     \* nothing of equal level hangs on the right
=============================================================================
