------------------------------- MODULE MC_Expr -------------------------------
(* Universe enumeration for C13: one behaviour per case; the case record is printed once.  *)
(* Spec-level invariant: the printing rules and the operator table agree with the          *)
(* reference parser (Parse(Min(t)) = t and Parse(Full(t)) = t).                            *)
EXTENDS SyltExpr, Json

VARIABLES c, done
vars == <<c, done>>

ChainCases == {[u |-> "chain", i |-> i, j |-> j, m |-> m] : i \in 1..Len(BinOps), j \in 1..Len(BinOps), m \in 1..Len(BinOps)}
\* chains over literal leaves written over SEVERAL LINES inside parentheses (newlines are insignificant inside brackets):
\* a line break or a comment before the 2nd or the 3rd operator must not change the grouping
BreakToks == <<"\n", "// c\n">>
LitChain(i, j, m) == <<"1", BinOps[i], "2", BinOps[j], "3", BinOps[m], "4">>
MlToks(i, j, m, pos, b) ==
    <<"(">> \o (IF pos = 1 THEN <<"1", BinOps[i], "2", BreakToks[b], BinOps[j], "3", BinOps[m], "4">>
                ELSE <<"1", BinOps[i], "2", BinOps[j], "3", BreakToks[b], BinOps[m], "4">>) \o <<")">>
MlCases == {[u |-> "mlchain", i |-> i, j |-> j, m |-> m, pos |-> pos, b |-> b]
              : i \in 1..Len(BinOps), j \in 1..Len(BinOps), m \in 1..Len(BinOps), pos \in 1..2, b \in 1..2}

\* LONG chains: n operands (digits as leaves) joined by one operator, or by two operators alternating: left associativity
\* and the level table hold for every length, not only for 4 operands
RECURSIVE LongToks(_, _, _, _)
LongToks(n, k, o1, o2) == IF k = n THEN <<ToString(k - 1)>>
                          ELSE <<ToString(k - 1), IF k % 2 = 1 THEN o1 ELSE o2>> \o LongToks(n, k + 1, o1, o2)
LongCases == {[u |-> "longchain", n |-> n, o1 |-> BinOps[i], o2 |-> BinOps[i]] : n \in 5..10, i \in 1..Len(BinOps)}
             \cup {[u |-> "longchain", n |-> n, o1 |-> BinOps[i], o2 |-> BinOps[j]] : n \in {8, 9}, i \in 1..Len(BinOps), j \in 1..Len(BinOps)}

\* a unary operator before a PRIME call (`f' x` is a call: it binds tighter than the unary operator)
PrimeTrees == {Un(u, Call(Name("f"), <<Name("x")>>)) : u \in UnOps}
              \cup {Bin(BinOps[i], Name("d"), Un(u, Call(Name("f"), <<Name("x")>>))) : i \in {k \in 1..Len(BinOps) : Level(BinOps[k]) # 6}, u \in UnOps}
PrimeMin(t) == IF t.k = "un" THEN <<t.op, "f", "'", "x">> ELSE <<"d", t.op, t.r.op, "f", "'", "x">>

Cases == {[u |-> "shape", t |-> t] : t \in Shapes2 \cup Shapes3}
         \cup {[u |-> "typed", t |-> t] : t \in Typed2}
         \cup ChainCases \cup MlCases \cup LongCases
         \cup {[u |-> "prime", t |-> t] : t \in PrimeTrees}

TreeOf(x) == CASE x.u = "chain" -> Parse(ChainToks(x.i, x.j, x.m))
               [] x.u = "mlchain" -> Parse(LitChain(x.i, x.j, x.m))
               [] x.u = "longchain" -> Parse(LongToks(x.n, 1, x.o1, x.o2))
               [] OTHER -> x.t
MinOf(x) == CASE x.u = "chain" -> ChainToks(x.i, x.j, x.m)
              [] x.u = "mlchain" -> MlToks(x.i, x.j, x.m, x.pos, x.b)
              [] x.u = "longchain" -> LongToks(x.n, 1, x.o1, x.o2)
              [] x.u = "prime" -> PrimeMin(x.t)
              [] OTHER -> Min(x.t)

Init == c \in Cases /\ done = FALSE

Emit == /\ ~done
        /\ done' = TRUE
        /\ c' = c
        /\ LET t == TreeOf(c) IN
           PrintT(<<"REPLAY", ToJson([u |-> c.u, t |-> t, min |-> MinOf(c), full |-> Full(t),
                                      val |-> IF c.u = "typed" THEN Eval(t) ELSE [k |-> "none"]])>>)

Next == Emit
Spec == Init /\ [][Next]_vars

\* (the reference parser knows neither line breaks nor the prime call: those texts are checked against the real parser only)
RoundTrip == LET t == TreeOf(c) IN
             /\ c.u \notin {"mlchain", "prime"} => Parse(MinOf(c)) = t
             /\ Parse(Full(t)) = t

\* a long chain of ONE operator leans to the left: its right operand is always a leaf
RECURSIVE LeftLeaning(_)
LeftLeaning(t) == t.k # "bin" \/ (t.r.k # "bin" /\ LeftLeaning(t.l))
LongLeft == (c.u = "longchain" /\ c.o1 = c.o2) => LeftLeaning(TreeOf(c))

TypedOk == c.u = "typed" => TypeOf(c.t) \in {"int", "bool"}

\* the chain's tree really has the three operators in the table's grouping: loosest operator at the root,
\* and among equal levels the rightmost (left associativity)
RECURSIVE MinLevelIn(_)
MinLevelIn(t) == IF t.k # "bin" THEN 99
                 ELSE LET a == MinLevelIn(t.l)  b == MinLevelIn(t.r)  s == Level(t.op) IN
                      IF a <= b /\ a <= s THEN a ELSE IF b <= s THEN b ELSE s
ChainRoot == c.u = "chain" =>
    LET t == TreeOf(c) IN
    /\ t.k = "bin" /\ Level(t.op) = MinLevelIn(t)
    /\ (t.r.k = "bin" => Level(t.r.op) > Level(t.op))     \* nothing of equal level hangs on the right
=============================================================================
