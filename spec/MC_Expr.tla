------------------------------- MODULE MC_Expr -------------------------------
(* Universe enumeration for C13: one behaviour per case; the case record is printed once.  *)
(* Spec-level invariant: the printing rules and the operator table agree with the          *)
(* reference parser (Parse(Min(t)) = t and Parse(Full(t)) = t).                            *)
EXTENDS SyltExpr, Json

VARIABLES c, done
vars == <<c, done>>

ChainCases == {[u |-> "chain", i |-> i, j |-> j, m |-> m] : i \in 1..Len(BinOps), j \in 1..Len(BinOps), m \in 1..Len(BinOps)}
Cases == {[u |-> "shape", t |-> t] : t \in Shapes2 \cup Shapes3}
         \cup {[u |-> "typed", t |-> t] : t \in Typed2}
         \cup ChainCases

TreeOf(x) == IF x.u = "chain" THEN Parse(ChainToks(x.i, x.j, x.m)) ELSE x.t
MinOf(x) == IF x.u = "chain" THEN ChainToks(x.i, x.j, x.m) ELSE Min(x.t)

Init == c \in Cases /\ done = FALSE

Emit == /\ ~done
        /\ done' = TRUE
        /\ c' = c
        /\ LET t == TreeOf(c) IN
           PrintT(<<"REPLAY", ToJson([u |-> c.u, t |-> t, min |-> MinOf(c), full |-> Full(t),
                                      val |-> IF c.u = "typed" THEN Eval(t) ELSE [k |-> "none"]])>>)

Next == Emit
Spec == Init /\ [][Next]_vars

RoundTrip == LET t == TreeOf(c) IN
             /\ Parse(MinOf(c)) = t
             /\ Parse(Full(t)) = t

TypedOk == c.u = "typed" => TypeOf(c.t) \in {"int", "bool"}

\* the chain's tree really has the three operators in the table's grouping: loosest operator at the root,
\* and among equal levels the rightmost (left associativity)
RECURSIVE MinLevelIn(_)
MinLevelIn(t) == IF t.k # "bin" THEN 99
                 ELSE LET a == MinLevelIn(t.l)  b == MinLevelIn(t.r)  s == Level(t.op) IN
                      IF a <= b /\ a <= s THEN a ELSE IF b <= s THEN b ELSE s
ChainRoot == c.u = "chain" =>
    LET t == TreeOf(c) IN
    /\ t.k = "bin" /\ Level(t.op) = MinLevelIn(t)
    /\ (t.r.k = "bin" => Level(t.r.op) > Level(t.op))     \* nothing of equal level hangs on the right
=============================================================================
