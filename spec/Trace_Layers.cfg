SPECIFICATION TraceSpec
CONSTANTS
  Tree <- MCTreeL
  ProgSet <- MCNoProgs
INVARIANTS TraceInv
CHECK_DEADLOCK FALSE
