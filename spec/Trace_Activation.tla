-------------------------- MODULE Trace_Activation --------------------------
(* Validates the interpreter's event logs against SyltActivation: one record per program run,       *)
(* record.ev = sequence of [e, a, p, n] (event kind, activation, parent, name). A log that is not a  *)
(* behaviour (stack discipline broken) is a tool error of the interpreter's event recording; an      *)
(* interference is reported with one REJECT line per program when its log has been consumed.         *)
EXTENDS SyltActivation, Json, IOUtils

VARIABLES k, l, st
tvars == <<stack, lastWrite, writers, bad, k, l, st>>

Rec == ndJsonDeserialize(IOEnv.TRACE)
Ev == Rec[k].ev

TraceInit == /\ k \in 1..Len(Rec) /\ l = 1 /\ st = "run" /\ ActInit

IsEvent(kind) == st = "run" /\ l <= Len(Ev) /\ Ev[l].e = kind /\ l' = l + 1 /\ UNCHANGED <<k, st>>

TEnter   == IsEvent("enter") /\ Enter(Ev[l].a, Ev[l].p)
TExit    == IsEvent("exit") /\ Exit(Ev[l].a)
TWrite   == IsEvent("gw") /\ GWrite(Ev[l].a, Ev[l].n)
TRead    == IsEvent("gr") /\ GRead(Ev[l].a, Ev[l].n)
TClosure == IsEvent("clo") /\ Closure(Ev[l].a)

TFinish == /\ st = "run" /\ l > Len(Ev)
           /\ st' = "done"
           /\ IF bad = {} THEN TRUE
              ELSE PrintT(<<"REJECT", ToJson([rec |-> k, why |-> "interference", bad |-> bad])>>)
           /\ UNCHANGED <<stack, lastWrite, writers, bad, k, l>>

\* an event that no action accepts: the log is not well formed
TStuck == /\ st = "run" /\ l <= Len(Ev)
          /\ ~(ENABLED TEnter \/ ENABLED TExit \/ ENABLED TWrite \/ ENABLED TRead \/ ENABLED TClosure)
          /\ st' = "stuck"
          /\ PrintT(<<"REJECT", ToJson([rec |-> k, why |-> "malformed-log", at |-> l, event |-> Ev[l], stack |-> stack])>>)
          /\ UNCHANGED <<stack, lastWrite, writers, bad, k, l>>

TraceNext == TEnter \/ TExit \/ TWrite \/ TRead \/ TClosure \/ TFinish \/ TStuck
TraceSpec == TraceInit /\ [][TraceNext]_tvars
=============================================================================
