------------------------------ MODULE Trace_Init ------------------------------
(***************************************************************************)
(* C11 conformance: validation of the recorded renderings.                 *)
(* One record per program: [id, class, tops, obs, variants] where a        *)
(* variant is <<perm, mask, style, obs#>> (see harness/src/bin/c11.rs).    *)
(* For every record TLC                                                    *)
(*   * re-derives the program from its family and id (choice vector, or    *)
(*     position case): the id must be a member of SyltInit's universe and  *)
(*     the recorded AST must be that of the re-derived program (otherwise: *)
(*     tool error, not a verdict);                                         *)
(*   * asserts COVERAGE: the one-file variants are all NS! permutations of *)
(*     the NS top-level statements (exactly MAXPERM distinct ones,         *)
(*     including the canonical and the reversed order, when NS! is         *)
(*     larger), and there are min(TWOG, all) two-file groups (non-empty    *)
(*     set of statements moved to other.sy - start stays in main.sy - x    *)
(*     import style), each with min(TWOP, NS!) distinct permutations;      *)
(*   * runs the specification: Outcomes(id) over every admissible          *)
(*     initialisation order, and judges the variants with Verdict, per     *)
(*     group (mask, style) of renderings that differ only by a permutation.*)
(* With FULL=1 the set of recorded ids must be exactly the case set.       *)
(***************************************************************************)
EXTENDS SyltDeadCode, Json, IOUtils

VARIABLES k, pc, o
vars == <<k, pc, o>>

EnvInt(name, dflt) == IF name \in DOMAIN IOEnv THEN atoi(IOEnv[name]) ELSE dflt
MaxPerm == EnvInt("MAXPERM", 120)
TwoG == EnvInt("TWOG", 0)      \* two-file groups (mask, style) per program
TwoP == EnvInt("TWOP", 0)      \* permutations per two-file group
Full == EnvInt("FULL", 0) = 1

Rec == ndJsonDeserialize(IOEnv.TRACE)

RECURSIVE Fact(_)
Fact(n) == IF n <= 1 THEN 1 ELSE n * Fact(n - 1)
Min(a, b) == IF a < b THEN a ELSE b

Fams == {"shape", "pos", "unspec", "self", "type", "dead", "deadself"}
RecsOf(f) == {x \in 1..Len(Rec) : Rec[x].fam = f}
IdsOf(f) == {Rec[x].id : x \in RecsOf(f)}
ASSUME \A x \in 1..Len(Rec) : Rec[x].fam \in Fams
ASSUME Full => IdsOf("shape") = CasesOf(EnvInt("MINN", 1), EnvInt("MAXN", 2), EnvInt("MOD", 1), EnvInt("SEED", 1))
ASSUME Full => IdsOf("pos") = (IF EnvInt("POS", 1) = 1 THEN PosCases ELSE {})
ASSUME Full => IdsOf("unspec") = (IF EnvInt("POS", 1) = 1 THEN UnspecCases ELSE {})
ASSUME Full => IdsOf("self") = (IF EnvInt("POS", 1) = 1 THEN SelfCases ELSE {})
ASSUME Full => IdsOf("type") = (IF EnvInt("TYPES", 1) = 1 THEN TypeCases ELSE {})
WithDead == EnvInt("DEAD", 1) = 1
ASSUME Full => IdsOf("dead") = (IF WithDead THEN DeadSelected(EnvInt("DEADMOD", 1), EnvInt("SEED", 1)) ELSE {})
ASSUME Full => IdsOf("deadself") = (IF WithDead THEN DeadSelfSelected(EnvInt("DEADSELFMOD", 1), EnvInt("SEED", 1)) ELSE {})
ASSUME Full => Cardinality(IdsOf("shape")) + Cardinality(IdsOf("pos")) + Cardinality(IdsOf("unspec")) + Cardinality(IdsOf("self")) + Cardinality(IdsOf("type"))
               + Cardinality(IdsOf("dead")) + Cardinality(IdsOf("deadself")) = Len(Rec)

\* the program of a record, re-derived from its id
ProgOf(r) == CASE r.fam = "shape" -> ShapeProg(r.id)
               [] r.fam = "type" -> TypeProg(r.id)
               [] r.fam = "self" -> SelfProg(r.id)
               [] r.fam = "dead" -> DeadProg(r.id)
               [] r.fam = "deadself" -> DeadSelfProg(r.id)
               [] OTHER -> PosProg(r.id)
InUniverse(r) == CASE r.fam = "shape" -> Len(r.id) \in 1..4 /\ WellFormed(r.id) /\ Sorted(r.id)
                   [] r.fam = "pos" -> r.id \in PosCases
                   [] r.fam = "unspec" -> r.id \in UnspecCases
                   [] r.fam = "self" -> r.id \in SelfCases
                   [] r.fam = "type" -> r.id \in TypeCases
                   [] r.fam = "dead" -> r.id \in DeadCases
                   [] r.fam = "deadself" -> r.id \in DeadSelfCases
\* the order semantics is not run on planted ill-typed programs and on unspecified-behaviour cases
NotRun(r) == (r.fam = "type" /\ IllTyped(r.id)) \/ r.fam = "unspec"
ExpectedClass(r, oc) == IF r.fam = "unspec" THEN "unspecified"
                       ELSE IF r.fam = "type" /\ IllTyped(r.id) THEN "illtyped" ELSE ClassOfOutcomes(oc)

\* judging a group of renderings:
\*   ordinary programs            Verdict against the outcomes of the order semantics
\*   planted ill-typed programs   must be rejected in every order (the typing judgement TypeOk says so)
\*   unspecified behaviour        accept/reject and the whole observation identical in every order
Judge(r, O, oc) ==
    IF r.fam = "unspec"
    THEN LET v == Verdict(O, {[out |-> <<>>, status |-> "a"], [out |-> <<>>, status |-> "b"]}) IN   \* consistency clauses only
         IF v # "" THEN v ELSE IF Cardinality(O) > 1 THEN "order-dependent" ELSE ""
    ELSE IF r.fam = "type" /\ IllTyped(r.id)
    THEN LET v == Verdict(O, {}) IN IF v = "cycle-accepted" THEN "illtyped-accepted" ELSE v
    ELSE Verdict(O, oc)
JudgeBad(r, O, oc) ==
    IF r.fam = "unspec" THEN (IF Verdict(O, {[out |-> <<>>, status |-> "a"], [out |-> <<>>, status |-> "b"]}) # ""
                              THEN BadObs(O, {[out |-> <<>>, status |-> "a"], [out |-> <<>>, status |-> "b"]}) ELSE O)
    ELSE IF r.fam = "type" /\ IllTyped(r.id) THEN BadObs(O, {})
    ELSE BadObs(O, oc)

Covered(r, NS) ==
    LET vs == r.variants
        all == 1..Len(vs)
        single == {x \in all : vs[x][3] = 0}
        two == all \ single
        masks == Pow2(NS - 1) - 1
        groups2 == {<<vs[x][2], vs[x][3]>> : x \in two}
        InGroup(g) == {x \in two : vs[x][2] = g[1] /\ vs[x][3] = g[2]} IN
    /\ \A x \in all : /\ vs[x][1] \in 0..(Fact(NS) - 1)
                      /\ vs[x][4] \in 1..Len(r.obs)
    /\ \A x \in single : vs[x][2] = 0
    /\ Cardinality({vs[x][1] : x \in single}) = Cardinality(single)
    /\ Cardinality(single) = Min(Fact(NS), MaxPerm)
    /\ {0, Fact(NS) - 1} \subseteq {vs[x][1] : x \in single}
    /\ \A x \in two : vs[x][3] \in {1, 2} /\ vs[x][2] \in 1..masks
    /\ Cardinality(groups2) = (IF NS < 2 \/ TwoP = 0 THEN 0 ELSE Min(TwoG, masks * 2))
    /\ \A g \in groups2 : /\ Cardinality({vs[x][1] : x \in InGroup(g)}) = Cardinality(InGroup(g))
                           /\ Cardinality(InGroup(g)) = Min(Fact(NS), TwoP)

Init == k \in 1..Len(Rec) /\ pc = "start" /\ o = {}

\* run the specification on the re-derived program: every admissible initialisation order
Derive ==
  /\ pc = "start" /\ pc' = "derived" /\ k' = k
  /\ Assert(InUniverse(Rec[k]), <<"record id is not a program of the universe", k>>)
  /\ o' = IF NotRun(Rec[k]) THEN {} ELSE Outcomes(ProgOf(Rec[k]))

Validate ==
  /\ pc = "derived" /\ pc' = "done" /\ k' = k /\ o' = o
  /\ LET r == Rec[k]
         vs == r.variants
         groups == {<<vs[x][2], vs[x][3]>> : x \in 1..Len(vs)}
         ObsIdx(g) == {vs[x][4] : x \in {y \in 1..Len(vs) : vs[y][2] = g[1] /\ vs[y][3] = g[2]}}
         ObsSet(g) == {r.obs[i] : i \in ObsIdx(g)}
         failing == {g \in groups : Judge(r, ObsSet(g), o) # ""} IN
     /\ Assert(r.tops = TopsOf(ProgOf(r)), <<"recorded AST is not that of the re-derived program", k>>)
     /\ Assert(r.class = ExpectedClass(r, o), <<"recorded class differs from the re-derived one", k>>)
     /\ Assert(r.fam = "type" => (TypeOk(ProgOf(r)) <=> ~IllTyped(r.id)), <<"typing judgement disagrees with the label", k>>)
     /\ Assert(Covered(r, Len(r.tops)), <<"the variants do not cover what the specification requires", k>>)
     /\ \A g \in failing :
           PrintT(<<"REJECT", ToJson([rec |-> k, why |-> Judge(r, ObsSet(g), o), mask |-> g[1], style |-> g[2],
                                      badobs |-> {i \in ObsIdx(g) : r.obs[i] \in JudgeBad(r, ObsSet(g), o)},
                                      want |-> IF Cardinality(o) = 1 THEN [out |-> TheOutcome(o).out, status |-> TheOutcome(o).status]
                                               ELSE [out |-> <<>>, status |-> ExpectedClass(r, o)]])>>)
     /\ PrintT(<<"JUDGED", ToJson([rec |-> k, class |-> ExpectedClass(r, o),
                                   accepted |-> Cardinality({x \in 1..Len(vs) : r.obs[vs[x][4]].class = "ok"}),
                                   variants |-> Len(vs), groups |-> Cardinality(groups)])>>)

Next == Derive \/ Validate
Spec == Init /\ [][Next]_vars

\* spec-level sanity of the verdict function on the record at hand: a program whose variants all behave as
\* specified is never rejected, and falsifying one variant of an accepted confluent program is always rejected
VerdictSane ==
    (pc = "derived" /\ Cardinality(o) = 1) =>
       LET good == [class |-> "ok", ekind |-> "-", nerr |-> 0, bytes |-> 1, prints |-> TheOutcome(o).out, status |-> "done"]
           bad1 == [good EXCEPT !.prints = Append(@, "x")]
           bad2 == [good EXCEPT !.class = "err", !.nerr = 1, !.bytes = 0] IN
       /\ Verdict({good}, o) = ""
       /\ Verdict({good, bad1}, o) = "order-dependent"
       /\ Verdict({bad1}, o) = "wrong-in-every-order"
       /\ Verdict({good, bad2}, o) = "accept-differs"
       /\ Verdict({bad2}, o) = ""
       /\ Verdict({good}, {}) = "cycle-accepted"
       /\ Verdict({bad2}, {}) = ""
       /\ Verdict({[bad2 EXCEPT !.bytes = 5]}, {}) = "rejected-uncleanly"
=============================================================================
