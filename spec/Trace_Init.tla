------------------------------ MODULE Trace_Init ------------------------------
(***************************************************************************)
(* C11 conformance: validation of the recorded renderings.                 *)
(* One record per program: [id, class, tops, obs, variants] where a        *)
(* variant is <<perm, mask, style, obs#>> (see harness/src/bin/c11.rs).    *)
(* For every record TLC                                                    *)
(*   * re-derives the program from its family and id (choice vector, or    *)
(*     position case): the id must be a member of SyltInit's universe and  *)
(*     the recorded AST must be that of the re-derived program (otherwise: *)
(*     tool error, not a verdict);                                         *)
(*   * asserts COVERAGE: the one-file variants are all NS! permutations of *)
(*     the NS top-level statements (exactly MAXPERM distinct ones,         *)
(*     including the canonical and the reversed order, when NS! is         *)
(*     larger), and there are min(TWOG, all) two-file groups (non-empty    *)
(*     set of statements moved to other.sy - start stays in main.sy - x    *)
(*     import style), each with min(TWOP, NS!) distinct permutations;      *)
(*   * runs the specification: Outcomes(id) over every admissible          *)
(*     initialisation order, and judges the variants with Verdict, per     *)
(*     group (mask, style) of renderings that differ only by a permutation.*)
(* With FULL=1 the set of recorded ids must be exactly the case set.       *)
(***************************************************************************)
EXTENDS SyltInit, Json, IOUtils

VARIABLES k, pc, o
vars == <<k, pc, o>>

EnvInt(name, dflt) == IF name \in DOMAIN IOEnv THEN atoi(IOEnv[name]) ELSE dflt
MaxPerm == EnvInt("MAXPERM", 120)
TwoG == EnvInt("TWOG", 0)      \* two-file groups (mask, style) per program
TwoP == EnvInt("TWOP", 0)      \* permutations per two-file group
Full == EnvInt("FULL", 0) = 1

Rec == ndJsonDeserialize(IOEnv.TRACE)

RECURSIVE Fact(_)
Fact(n) == IF n <= 1 THEN 1 ELSE n * Fact(n - 1)
Min(a, b) == IF a < b THEN a ELSE b

ShapeRecs == {x \in 1..Len(Rec) : Rec[x].fam = "shape"}
PosRecs == {x \in 1..Len(Rec) : Rec[x].fam = "pos"}
ASSUME \A x \in 1..Len(Rec) : Rec[x].fam \in {"shape", "pos"}
ASSUME Full => {Rec[x].id : x \in ShapeRecs} = CasesOf(EnvInt("MINN", 1), EnvInt("MAXN", 2), EnvInt("MOD", 1), EnvInt("SEED", 1))
ASSUME Full => {Rec[x].id : x \in PosRecs} = (IF EnvInt("POS", 1) = 1 THEN PosCases ELSE {})
ASSUME Full => Cardinality({Rec[x].id : x \in ShapeRecs}) + Cardinality({Rec[x].id : x \in PosRecs}) = Len(Rec)

\* the program of a record, re-derived from its id
ProgOf(r) == IF r.fam = "shape" THEN ShapeProg(r.id) ELSE PosProg(r.id)
InUniverse(r) == IF r.fam = "shape" THEN Len(r.id) \in 1..4 /\ WellFormed(r.id) /\ Sorted(r.id)
                 ELSE r.id \in PosCases

Covered(r, NS) ==
    LET vs == r.variants
        all == 1..Len(vs)
        single == {x \in all : vs[x][3] = 0}
        two == all \ single
        masks == Pow2(NS - 1) - 1
        groups2 == {<<vs[x][2], vs[x][3]>> : x \in two}
        InGroup(g) == {x \in two : vs[x][2] = g[1] /\ vs[x][3] = g[2]} IN
    /\ \A x \in all : /\ vs[x][1] \in 0..(Fact(NS) - 1)
                      /\ vs[x][4] \in 1..Len(r.obs)
    /\ \A x \in single : vs[x][2] = 0
    /\ Cardinality({vs[x][1] : x \in single}) = Cardinality(single)
    /\ Cardinality(single) = Min(Fact(NS), MaxPerm)
    /\ {0, Fact(NS) - 1} \subseteq {vs[x][1] : x \in single}
    /\ \A x \in two : vs[x][3] \in {1, 2} /\ vs[x][2] \in 1..masks
    /\ Cardinality(groups2) = (IF NS < 2 \/ TwoP = 0 THEN 0 ELSE Min(TwoG, masks * 2))
    /\ \A g \in groups2 : /\ Cardinality({vs[x][1] : x \in InGroup(g)}) = Cardinality(InGroup(g))
                           /\ Cardinality(InGroup(g)) = Min(Fact(NS), TwoP)

Init == k \in 1..Len(Rec) /\ pc = "start" /\ o = {}

\* run the specification on the re-derived program: every admissible initialisation order
Derive ==
  /\ pc = "start" /\ pc' = "derived" /\ k' = k
  /\ Assert(InUniverse(Rec[k]), <<"record id is not a program of the universe", k>>)
  /\ o' = Outcomes(ProgOf(Rec[k]))

Validate ==
  /\ pc = "derived" /\ pc' = "done" /\ k' = k /\ o' = o
  /\ LET r == Rec[k]
         vs == r.variants
         groups == {<<vs[x][2], vs[x][3]>> : x \in 1..Len(vs)}
         ObsIdx(g) == {vs[x][4] : x \in {y \in 1..Len(vs) : vs[y][2] = g[1] /\ vs[y][3] = g[2]}}
         ObsSet(g) == {r.obs[i] : i \in ObsIdx(g)}
         failing == {g \in groups : Verdict(ObsSet(g), o) # ""} IN
     /\ Assert(r.tops = TopsOf(ProgOf(r)), <<"recorded AST is not that of the re-derived program", k>>)
     /\ Assert(r.class = ClassOfOutcomes(o), <<"recorded class differs from the re-derived one", k>>)
     /\ Assert(Covered(r, Len(r.tops)), <<"the variants do not cover what the specification requires", k>>)
     /\ \A g \in failing :
           PrintT(<<"REJECT", ToJson([rec |-> k, why |-> Verdict(ObsSet(g), o), mask |-> g[1], style |-> g[2],
                                      badobs |-> {i \in ObsIdx(g) : r.obs[i] \in BadObs(ObsSet(g), o)},
                                      want |-> IF Cardinality(o) = 1 THEN [out |-> TheOutcome(o).out, status |-> TheOutcome(o).status]
                                               ELSE [out |-> <<>>, status |-> ClassOfOutcomes(o)]])>>)
     /\ PrintT(<<"JUDGED", ToJson([rec |-> k, class |-> ClassOfOutcomes(o),
                                   accepted |-> Cardinality({x \in 1..Len(vs) : r.obs[vs[x][4]].class = "ok"}),
                                   variants |-> Len(vs), groups |-> Cardinality(groups)])>>)

Next == Derive \/ Validate
Spec == Init /\ [][Next]_vars

\* spec-level sanity of the verdict function on the record at hand: a program whose variants all behave as
\* specified is never rejected, and falsifying one variant of an accepted confluent program is always rejected
VerdictSane ==
    (pc = "derived" /\ Cardinality(o) = 1) =>
       LET good == [class |-> "ok", ekind |-> "-", nerr |-> 0, bytes |-> 1, prints |-> TheOutcome(o).out, status |-> "done"]
           bad1 == [good EXCEPT !.prints = Append(@, "x")]
           bad2 == [good EXCEPT !.class = "err", !.nerr = 1, !.bytes = 0] IN
       /\ Verdict({good}, o) = ""
       /\ Verdict({good, bad1}, o) = "order-dependent"
       /\ Verdict({bad1}, o) = "wrong-in-every-order"
       /\ Verdict({good, bad2}, o) = "accept-differs"
       /\ Verdict({bad2}, o) = ""
       /\ Verdict({good}, {}) = "cycle-accepted"
       /\ Verdict({bad2}, {}) = ""
       /\ Verdict({[bad2 EXCEPT !.bytes = 5]}, {}) = "rejected-uncleanly"
=============================================================================
