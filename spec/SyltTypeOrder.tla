---------------------------- MODULE SyltTypeOrder ----------------------------
(***************************************************************************)
(* C11, third family: TYPE DECLARATIONS that mention each other, and the   *)
(* signature-only use of later-declared types ("types may be used before   *)
(* their declaration").                                                    *)
(*                                                                         *)
(* A case = (shape, use).  A shape is a small program: 2-4 blob / enum     *)
(* declarations (generic or not) that mention each other in field /        *)
(* payload types - directly, inside list / tuple / fn types, as generic    *)
(* arguments, in chains and in cycles -, functions whose parameter /       *)
(* return annotations and case scrutinees use those types, globals of      *)
(* those types, and start.  use = "good": the program as given; use = a    *)
(* plant name: the program with ONE definition replaced so that a value    *)
(* deep in the structure (or an argument, or a returned value, or a case   *)
(* arm) has the wrong type.                                                *)
(*                                                                         *)
(* The specification decides well-typedness itself: TypeOk below is a      *)
(* bidirectional typing judgement over the declarations (nominal blobs     *)
(* and enums, generic instantiation by substitution, annotated functions). *)
(* MC_Init checks, for every case, TypeOk(good) and ~TypeOk(plant); a      *)
(* case whose label disagrees with the judgement is a spec error.          *)
(*   good  : accepted in every textual order, same behaviour (the outcome  *)
(*           of SyltInit's order-nondeterministic semantics; types have no *)
(*           run-time effect);                                             *)
(*   plant : rejected in every textual order (error list, no Lua).         *)
(***************************************************************************)
EXTENDS SyltInit

TApp(n, args) == [k |-> "tapp", n |-> n, args |-> args]       \* Box(B)
TGen(n) == [k |-> "tgen", n |-> n]                            \* *T
BlobG(name, gen, fields) == [k |-> "blobdecl", name |-> name, gen |-> gen, fields |-> fields]
EnumG(name, gen, variants) == [k |-> "enum", name |-> name, gen |-> gen, variants |-> variants]

---------------------------------------------------------------------------
(* the typing judgement *)

BadT == [k |-> "bad"]
GenOf(d) == IF "gen" \in DOMAIN d THEN d.gen ELSE <<>>
HasDecl(D, n) == \E i \in 1..Len(D) : D[i].name = n
DeclOf(D, n) == D[CHOOSE i \in 1..Len(D) : D[i].name = n]
ArgsOf(t) == IF t.k = "tapp" THEN t.args ELSE <<>>
Named(t) == t.k \in {"tname", "tapp"}

RECURSIVE Subst(_, _, _)
Subst(t, gen, args) ==
    CASE t.k = "tgen" -> IF \E i \in 1..Len(gen) : gen[i] = t.n
                         THEN args[CHOOSE i \in 1..Len(gen) : gen[i] = t.n] ELSE BadT
      [] t.k = "tlist" -> [t EXCEPT !.e = Subst(t.e, gen, args)]
      [] t.k = "ttuple" -> [t EXCEPT !.es = [i \in 1..Len(t.es) |-> Subst(t.es[i], gen, args)]]
      [] t.k = "tapp" -> [t EXCEPT !.args = [i \in 1..Len(t.args) |-> Subst(t.args[i], gen, args)]]
      [] t.k = "tfn" -> [t EXCEPT !.ps = [i \in 1..Len(t.ps) |-> Subst(t.ps[i], gen, args)], !.r = Subst(t.r, gen, args)]
      [] OTHER -> t

\* a type expression is well formed: every name is declared with the right number of arguments
RECURSIVE TypeWf(_, _, _)
TypeWf(t, D, gen) ==
    CASE t.k \in {"tint", "tstr", "tbool", "tvoid", "tfloat"} -> TRUE
      [] t.k = "tgen" -> \E i \in 1..Len(gen) : gen[i] = t.n
      [] t.k = "tlist" -> TypeWf(t.e, D, gen)
      [] t.k = "ttuple" -> \A i \in 1..Len(t.es) : TypeWf(t.es[i], D, gen)
      [] t.k = "tfn" -> TypeWf(t.r, D, gen) /\ \A i \in 1..Len(t.ps) : TypeWf(t.ps[i], D, gen)
      [] t.k = "tname" -> HasDecl(D, t.n) /\ Len(GenOf(DeclOf(D, t.n))) = 0
      [] t.k = "tapp" -> /\ HasDecl(D, t.n) /\ Len(GenOf(DeclOf(D, t.n))) = Len(t.args)
                         /\ \A i \in 1..Len(t.args) : TypeWf(t.args[i], D, gen)
      [] OTHER -> FALSE

FieldIdx(d, f) == {i \in 1..Len(d.fields) : d.fields[i].f = f}
VariantIdx(d, v) == {i \in 1..Len(d.variants) : d.variants[i].v = v}
FnType(fn) == TFn([i \in 1..Len(fn.params) |-> fn.params[i].ty], fn.ret)

RECURSIVE Infer(_, _, _)
RECURSIVE Check(_, _, _, _)

\* Env: binder id -> type.  Result: a type, or BadT
Infer(e, D, Env) ==
    CASE e.k = "int" -> TInt
      [] e.k = "str" -> TStr
      [] e.k = "bool" -> TBool
      [] e.k = "var" -> IF e.b \in DOMAIN Env THEN Env[e.b] ELSE BadT
      [] e.k = "fld" ->
           LET t == Infer(e.e, D, Env) IN
           IF ~Named(t) \/ ~HasDecl(D, t.n) THEN BadT
           ELSE LET d == DeclOf(D, t.n) IN
                IF d.k # "blobdecl" \/ FieldIdx(d, e.f) = {} THEN BadT
                ELSE Subst(d.fields[CHOOSE i \in FieldIdx(d, e.f) : TRUE].ty, GenOf(d), ArgsOf(t))
      [] e.k = "idx" ->
           LET t == Infer(e.e, D, Env) IN
           IF t.k = "ttuple" /\ e.i + 1 <= Len(t.es) THEN t.es[e.i + 1] ELSE BadT
      [] e.k = "bin" ->
           LET a == Infer(e.l, D, Env)  b == Infer(e.r, D, Env) IN
           IF a # TInt \/ b # TInt THEN BadT
           ELSE IF e.op \in {"+", "-", "*"} THEN TInt ELSE IF e.op \in {"<", "<=", ">", ">=", "==", "!="} THEN TBool ELSE BadT
      [] e.k = "call" ->
           IF e.f.k = "std"
           THEN IF e.f.name = "print" /\ Len(e.args) = 1
                THEN (IF Infer(e.args[1], D, Env) # BadT THEN TVoid ELSE BadT)
                ELSE IF e.f.name = "list.len" /\ Len(e.args) = 1
                THEN (IF Infer(e.args[1], D, Env).k = "tlist" THEN TInt ELSE BadT)
                ELSE BadT
           ELSE LET ft == Infer(e.f, D, Env) IN
                IF ft.k = "tfn" /\ Len(ft.ps) = Len(e.args) /\ \A i \in 1..Len(e.args) : Check(e.args[i], ft.ps[i], D, Env)
                THEN ft.r ELSE BadT
      [] e.k = "case" ->
           LET t == Infer(e.e, D, Env) IN
           IF ~Named(t) \/ ~HasDecl(D, t.n) THEN BadT
           ELSE LET d == DeclOf(D, t.n) IN
             IF d.k # "enum" \/ \E a \in 1..Len(e.arms) : VariantIdx(d, e.arms[a].v) = {} THEN BadT
             ELSE LET ArmV(a) == d.variants[CHOOSE i \in VariantIdx(d, e.arms[a].v) : TRUE]
                      ArmEnv(a) == IF e.arms[a].bind /\ ArmV(a).has
                                   THEN (e.arms[a].b :> Subst(ArmV(a).ty, GenOf(d), ArgsOf(t))) @@ Env ELSE Env
                      ArmT(a) == IF e.arms[a].bind /\ ~ArmV(a).has THEN BadT
                                 ELSE IF Len(e.arms[a].body) = 1 /\ e.arms[a].body[1].k = "expr"
                                 THEN Infer(e.arms[a].body[1].e, D, ArmEnv(a)) ELSE BadT
                      ElsT == IF e.hasels THEN (IF Len(e.els) = 1 /\ e.els[1].k = "expr" THEN Infer(e.els[1].e, D, Env) ELSE BadT)
                              ELSE ArmT(1)
                  IN IF Len(e.arms) >= 1 /\ ArmT(1) # BadT /\ ElsT = ArmT(1) /\ \A a \in 1..Len(e.arms) : ArmT(a) = ArmT(1)
                     THEN ArmT(1) ELSE BadT
      [] e.k = "blob" ->       \* only non-generic blobs can be inferred without an expected type
           IF HasDecl(D, e.name) /\ GenOf(DeclOf(D, e.name)) = <<>> /\ Check(e, TName(e.name), D, Env) THEN TName(e.name) ELSE BadT
      [] e.k = "variant" ->
           IF HasDecl(D, e.enum) /\ GenOf(DeclOf(D, e.enum)) = <<>> /\ Check(e, TName(e.enum), D, Env) THEN TName(e.enum) ELSE BadT
      [] OTHER -> BadT

FnOk(fn, D, Env) ==
    /\ \A i \in 1..Len(fn.params) : TypeWf(fn.params[i].ty, D, <<>>)
    /\ TypeWf(fn.ret, D, <<>>)
    /\ Len(fn.body) = 1 /\ fn.body[1].k = "expr"
    /\ Check(fn.body[1].e, fn.ret, D, [b \in {fn.params[i].b : i \in 1..Len(fn.params)} |->
                                          fn.params[CHOOSE i \in 1..Len(fn.params) : fn.params[i].b = b].ty] @@ Env)

Check(e, t, D, Env) ==
    CASE e.k = "list" -> t.k = "tlist" /\ \A i \in 1..Len(e.es) : Check(e.es[i], t.e, D, Env)
      [] e.k = "tuple" -> t.k = "ttuple" /\ Len(t.es) = Len(e.es) /\ \A i \in 1..Len(e.es) : Check(e.es[i], t.es[i], D, Env)
      [] e.k = "blob" ->
           /\ Named(t) /\ t.n = e.name /\ HasDecl(D, t.n)
           /\ LET d == DeclOf(D, t.n) IN
              /\ d.k = "blobdecl" /\ Len(GenOf(d)) = Len(ArgsOf(t))
              /\ {e.fields[i].f : i \in 1..Len(e.fields)} = {d.fields[i].f : i \in 1..Len(d.fields)}
              /\ Len(e.fields) = Len(d.fields)
              /\ \A i \in 1..Len(e.fields) :
                    Check(e.fields[i].e, Subst(d.fields[CHOOSE x \in FieldIdx(d, e.fields[i].f) : TRUE].ty, GenOf(d), ArgsOf(t)), D, Env)
      [] e.k = "variant" ->
           /\ Named(t) /\ t.n = e.enum /\ HasDecl(D, t.n)
           /\ LET d == DeclOf(D, t.n) IN
              /\ d.k = "enum" /\ Len(GenOf(d)) = Len(ArgsOf(t)) /\ VariantIdx(d, e.v) # {}
              /\ LET vd == d.variants[CHOOSE i \in VariantIdx(d, e.v) : TRUE] IN
                 /\ vd.has = e.has
                 /\ (e.has => Check(e.e, Subst(vd.ty, GenOf(d), ArgsOf(t)), D, Env))
      [] e.k = "fn" -> t.k = "tfn" /\ FnType(e) = t /\ FnOk(e, D, Env)
      [] OTHER -> Infer(e, D, Env) = t

DeclOk(d, D) ==
    IF d.k = "blobdecl" THEN \A i \in 1..Len(d.fields) : TypeWf(d.fields[i].ty, D, GenOf(d))
    ELSE \A i \in 1..Len(d.variants) : d.variants[i].has => TypeWf(d.variants[i].ty, D, GenOf(d))

\* a program [decls, g, start] is well typed
TypeOk(pr) ==
    LET D == pr.decls
        Env == [b \in {pr.g[i].b : i \in 1..Len(pr.g)} |->
                LET d == pr.g[CHOOSE i \in 1..Len(pr.g) : pr.g[i].b = b] IN IF d.e.k = "fn" THEN FnType(d.e) ELSE d.ty] IN
    /\ \A i \in 1..Len(D) : DeclOk(D[i], D)
    /\ \A i \in 1..Len(pr.g) :
          IF pr.g[i].e.k = "fn" THEN FnOk(pr.g[i].e, D, Env)
          ELSE TypeWf(pr.g[i].ty, D, <<>>) /\ Check(pr.g[i].e, pr.g[i].ty, D, Env)
    /\ \A s \in 1..Len(pr.start.e.body) : pr.start.e.body[s].k = "expr" /\ Infer(pr.start.e.body[s].e, D, Env) # BadT

---------------------------------------------------------------------------
(* the shapes *)

BD == BlobD("B", <<FD("n", TInt)>>)
TB == TName("B")
Bv(n) == BlobL("B", <<FI("n", n)>>)
DefV(b, ty, e) == DefN(b, "const", ty, e, "")                   \* g<b> : ty : e
DefF(b, name, params, ret, e) == DefN(b, "const", TNone, Fn(params, ret, <<Ex(e)>>), name)
PL(name, i, def) == [name |-> name, i |-> i, def |-> def]     \* plant: definition i replaced by def
TS(decls, g, shows, plants) == [decls |-> decls, g |-> g, shows |-> shows, plants |-> plants]
Len1(e) == Call(Std("list.len"), <<e>>)

ShapeD == EnumD("Shape", <<VD1("Circle", TInt), VD1("Sq", TInt)>>)
TokenD == EnumD("Token", <<VD1("Tok", TInt)>>)
TShape == TName("Shape")
AreaBody == CaseE(V(401), <<CArmB("Circle", 201, <<Ex(Bin("*", V(201), I(3)))>>)>>, <<Ex(I(0))>>)
OptD == EnumG("Opt", <<"T">>, <<VD1("Some", TGen("T")), VD0("Non")>>)

TypeShapeNames == <<"field", "chain", "payload", "list", "tuple", "fnfield", "genblob", "genenum", "selfcycle",
                    "mutual", "mutualblob", "sigparam", "sigparamblob", "sigret", "siglist", "siggen", "scrutinee">>
TypeShapes == {TypeShapeNames[x] : x \in 1..Len(TypeShapeNames)}

TypeShape(s) ==
    CASE s = "field" ->        \* X :: blob { b: B }
           TS(<<BlobD("X", <<FD("b", TB)>>), BD>>,
              <<DefV(1, TName("X"), BlobL("X", <<FI("b", Bv(I(1)))>>))>>,
              <<Fld(Fld(V(1), "b"), "n")>>,
              <<PL("int-for-blob", 1, DefV(1, TName("X"), BlobL("X", <<FI("b", I(1))>>))),
                PL("deep-str", 1, DefV(1, TName("X"), BlobL("X", <<FI("b", Bv(St("s")))>>)))>>)
      [] s = "chain" ->        \* Z -> Y -> X
           TS(<<BlobD("Z", <<FD("y", TName("Y"))>>), BlobD("Y", <<FD("x", TName("X"))>>), BlobD("X", <<FD("n", TInt)>>)>>,
              <<DefV(1, TName("Z"), BlobL("Z", <<FI("y", BlobL("Y", <<FI("x", BlobL("X", <<FI("n", I(1))>>))>>))>>))>>,
              <<Fld(Fld(Fld(V(1), "y"), "x"), "n")>>,
              <<PL("deep-str", 1, DefV(1, TName("Z"), BlobL("Z", <<FI("y", BlobL("Y", <<FI("x", BlobL("X", <<FI("n", St("s"))>>))>>))>>))),
                PL("wrong-blob", 1, DefV(1, TName("Z"), BlobL("Z", <<FI("y", BlobL("X", <<FI("n", I(1))>>))>>)))>>)
      [] s = "payload" ->      \* enum payload is a blob declared elsewhere
           TS(<<EnumD("Ep", <<VD1("A", TB), VD0("Z")>>), BD>>,
              <<DefV(1, TName("Ep"), Var1("Ep", "A", Bv(I(2)))),
                DefF(2, "getn", <<P(401, TName("Ep"))>>, TInt,
                   CaseE(V(401), <<CArmB("A", 201, <<Ex(Fld(V(201), "n"))>>)>>, <<Ex(I(0))>>))>>,
              <<Call(V(2), <<V(1)>>)>>,
              <<PL("payload-int", 1, DefV(1, TName("Ep"), Var1("Ep", "A", I(1)))),
                PL("deep-str", 1, DefV(1, TName("Ep"), Var1("Ep", "A", Bv(St("s")))))>>)
      [] s = "list" ->         \* inside a list type
           TS(<<BlobD("L", <<FD("bs", TList(TB))>>), BD>>,
              <<DefV(1, TName("L"), BlobL("L", <<FI("bs", Lst(<<Bv(I(1)), Bv(I(2))>>))>>))>>,
              <<Len1(Fld(V(1), "bs"))>>,
              <<PL("elem-int", 1, DefV(1, TName("L"), BlobL("L", <<FI("bs", Lst(<<Bv(I(1)), I(2)>>))>>))),
                PL("deep-str", 1, DefV(1, TName("L"), BlobL("L", <<FI("bs", Lst(<<Bv(I(1)), Bv(St("s"))>>))>>)))>>)
      [] s = "tuple" ->        \* inside a tuple type
           TS(<<BlobD("P", <<FD("p", TTuple(<<TB, TInt>>))>>), BD>>,
              <<DefV(1, TName("P"), BlobL("P", <<FI("p", Tup(<<Bv(I(1)), I(5)>>))>>))>>,
              <<Idx(Fld(V(1), "p"), 1)>>,
              <<PL("elem-int", 1, DefV(1, TName("P"), BlobL("P", <<FI("p", Tup(<<I(1), I(5)>>))>>))),
                PL("deep-str", 1, DefV(1, TName("P"), BlobL("P", <<FI("p", Tup(<<Bv(St("s")), I(5)>>))>>)))>>)
      [] s = "fnfield" ->      \* inside a fn type
           TS(<<BlobD("Q", <<FD("mk", TFn(<<TInt>>, TB))>>), BD>>,
              <<DefV(1, TName("Q"), BlobL("Q", <<FI("mk", Fn(<<P(401, TInt)>>, TB, <<Ex(Bv(V(401)))>>))>>))>>,
              <<Fld(Call(Fld(V(1), "mk"), <<I(3)>>), "n")>>,
              <<PL("returns-int", 1, DefV(1, TName("Q"), BlobL("Q", <<FI("mk", Fn(<<P(401, TInt)>>, TInt, <<Ex(V(401))>>))>>))),
                PL("deep-str", 1, DefV(1, TName("Q"), BlobL("Q", <<FI("mk", Fn(<<P(401, TInt)>>, TB, <<Ex(Bv(St("s")))>>))>>)))>>)
      [] s = "genblob" ->      \* generic argument Box(B)
           TS(<<BlobD("X", <<FD("bb", TApp("Box", <<TB>>))>>), BlobG("Box", <<"T">>, <<FD("v", TGen("T"))>>), BD>>,
              <<DefV(1, TName("X"), BlobL("X", <<FI("bb", BlobL("Box", <<FI("v", Bv(I(1)))>>))>>))>>,
              <<Fld(Fld(Fld(V(1), "bb"), "v"), "n")>>,
              <<PL("arg-int", 1, DefV(1, TName("X"), BlobL("X", <<FI("bb", BlobL("Box", <<FI("v", I(1))>>))>>))),
                PL("deep-str", 1, DefV(1, TName("X"), BlobL("X", <<FI("bb", BlobL("Box", <<FI("v", Bv(St("s")))>>))>>)))>>)
      [] s = "genenum" ->      \* generic argument Opt(B)
           TS(<<BlobD("X", <<FD("ob", TApp("Opt", <<TB>>))>>), OptD, BD>>,
              <<DefV(1, TName("X"), BlobL("X", <<FI("ob", Var1("Opt", "Some", Bv(I(4))))>>)),
                DefF(2, "getn", <<P(401, TName("X"))>>, TInt,
                   CaseE(Fld(V(401), "ob"), <<CArmB("Some", 201, <<Ex(Fld(V(201), "n"))>>)>>, <<Ex(I(0))>>))>>,
              <<Call(V(2), <<V(1)>>)>>,
              <<PL("arg-int", 1, DefV(1, TName("X"), BlobL("X", <<FI("ob", Var1("Opt", "Some", I(1)))>>))),
                PL("deep-str", 1, DefV(1, TName("X"), BlobL("X", <<FI("ob", Var1("Opt", "Some", Bv(St("s"))))>>)))>>)
      [] s = "selfcycle" ->    \* Tree with [Tree]
           TS(<<BlobD("Tree", <<FD("v", TInt), FD("kids", TList(TName("Tree")))>>), BD>>,
              <<DefV(1, TName("Tree"), BlobL("Tree", <<FI("v", I(1)),
                     FI("kids", Lst(<<BlobL("Tree", <<FI("v", I(2)), FI("kids", Lst(<<>>))>>)>>))>>)),
                DefV(2, TB, Bv(I(6)))>>,
              <<Fld(V(1), "v"), Len1(Fld(V(1), "kids")), Fld(V(2), "n")>>,
              <<PL("deep-str", 1, DefV(1, TName("Tree"), BlobL("Tree", <<FI("v", I(1)),
                     FI("kids", Lst(<<BlobL("Tree", <<FI("v", St("s")), FI("kids", Lst(<<>>))>>)>>))>>))),
                PL("kid-int", 1, DefV(1, TName("Tree"), BlobL("Tree", <<FI("v", I(1)), FI("kids", Lst(<<I(1)>>))>>)))>>)
      [] s = "mutual" ->       \* enum <-> blob, recursive evaluator
           TS(<<EnumD("Expr", <<VD1("Num", TInt), VD1("Neg", TName("Wrap"))>>), BlobD("Wrap", <<FD("e", TName("Expr"))>>)>>,
              <<DefV(1, TName("Expr"), Var1("Expr", "Neg", BlobL("Wrap", <<FI("e", Var1("Expr", "Num", I(3)))>>))),
                DefF(2, "ev", <<P(401, TName("Expr"))>>, TInt,
                   CaseT(V(401), <<CArmB("Num", 201, <<Ex(V(201))>>),
                                   CArmB("Neg", 202, <<Ex(Bin("-", I(0), Call(V(2), <<Fld(V(202), "e")>>)))>>)>>))>>,
              <<Call(V(2), <<V(1)>>)>>,
              <<PL("deep-str", 1, DefV(1, TName("Expr"), Var1("Expr", "Neg", BlobL("Wrap", <<FI("e", Var1("Expr", "Num", St("s")))>>)))),
                PL("payload-int", 1, DefV(1, TName("Expr"), Var1("Expr", "Neg", I(1)))),
                PL("field-int", 1, DefV(1, TName("Expr"), Var1("Expr", "Neg", BlobL("Wrap", <<FI("e", I(1))>>))))>>)
      [] s = "mutualblob" ->   \* blob <-> blob through lists
           TS(<<BlobD("Ma", <<FD("n", TInt), FD("bs", TList(TName("Mb")))>>),
                BlobD("Mb", <<FD("m", TInt), FD("xs", TList(TName("Ma")))>>)>>,
              <<DefV(1, TName("Ma"), BlobL("Ma", <<FI("n", I(1)),
                     FI("bs", Lst(<<BlobL("Mb", <<FI("m", I(2)), FI("xs", Lst(<<>>))>>)>>))>>))>>,
              <<Fld(V(1), "n"), Len1(Fld(V(1), "bs"))>>,
              <<PL("deep-str", 1, DefV(1, TName("Ma"), BlobL("Ma", <<FI("n", I(1)),
                     FI("bs", Lst(<<BlobL("Mb", <<FI("m", St("s")), FI("xs", Lst(<<>>))>>)>>))>>))),
                PL("elem-int", 1, DefV(1, TName("Ma"), BlobL("Ma", <<FI("n", I(1)),
                     FI("bs", Lst(<<BlobL("Mb", <<FI("m", I(2)), FI("xs", Lst(<<I(1)>>))>>)>>))>>))),
                PL("outer-elem-int", 1, DefV(1, TName("Ma"), BlobL("Ma", <<FI("n", I(1)), FI("bs", Lst(<<I(1)>>))>>)))>>)
      [] s = "sigparam" ->     \* a later-declared ENUM only in a parameter annotation and a case scrutinee
           TS(<<ShapeD, TokenD>>,
              <<DefV(1, TShape, Var1("Shape", "Circle", I(3))),
                DefV(2, TName("Token"), Var1("Token", "Tok", I(3))),
                DefF(3, "area", <<P(401, TShape)>>, TInt, AreaBody),
                DefV(4, TInt, Call(V(3), <<V(1)>>))>>,
              <<V(4), Call(V(3), <<V(1)>>), V(2)>>,
              <<PL("wrong-arg", 4, DefV(4, TInt, Call(V(3), <<V(2)>>)))>>)
      [] s = "sigparamblob" -> \* a later-declared BLOB only in a parameter annotation
           TS(<<BD, BlobD("C", <<FD("n", TInt)>>)>>,
              <<DefV(1, TB, Bv(I(1))),
                DefV(2, TName("C"), BlobL("C", <<FI("n", I(2))>>)),
                DefF(3, "five", <<P(401, TB)>>, TInt, I(5)),
                DefV(4, TInt, Call(V(3), <<V(1)>>))>>,
              <<V(4), Fld(V(2), "n")>>,
              \* (blobs with the same fields are interchangeable in Sylt, so no plant passes the blob C for a B)
              <<PL("wrong-arg-int", 4, DefV(4, TInt, Call(V(3), <<I(1)>>))),
                PL("wrong-arg-enumless", 4, DefV(4, TInt, Call(V(3), <<St("s")>>)))>>)
      [] s = "sigret" ->       \* a later-declared enum only in a return annotation
           TS(<<ShapeD, TokenD>>,
              <<DefV(1, TShape, Var1("Shape", "Circle", I(3))),
                DefV(2, TName("Token"), Var1("Token", "Tok", I(4))),
                DefF(3, "mk", <<>>, TShape, V(1))>>,
              <<Call(V(3), <<>>), V(2)>>,
              <<PL("wrong-ret", 3, DefF(3, "mk", <<>>, TShape, V(2)))>>)
      [] s = "siglist" ->      \* ... inside a list type of a parameter
           TS(<<ShapeD, TokenD>>,
              <<DefV(1, TShape, Var1("Shape", "Sq", I(2))),
                DefV(2, TName("Token"), Var1("Token", "Tok", I(4))),
                DefF(3, "cnt", <<P(401, TList(TShape))>>, TInt, Len1(V(401))),
                DefV(4, TInt, Call(V(3), <<Lst(<<V(1), V(1)>>)>>))>>,
              <<V(4), V(2)>>,
              <<PL("wrong-elem", 4, DefV(4, TInt, Call(V(3), <<Lst(<<V(1), V(2)>>)>>)))>>)
      [] s = "siggen" ->       \* ... as a generic argument of a parameter type
           TS(<<ShapeD, TokenD, OptD>>,
              <<DefV(1, TShape, Var1("Shape", "Sq", I(2))),
                DefV(2, TName("Token"), Var1("Token", "Tok", I(4))),
                DefF(3, "eight", <<P(401, TApp("Opt", <<TShape>>))>>, TInt, I(8)),
                DefV(4, TInt, Call(V(3), <<Var1("Opt", "Some", V(1))>>))>>,
              <<V(4), V(2)>>,
              <<PL("wrong-payload", 4, DefV(4, TInt, Call(V(3), <<Var1("Opt", "Some", V(2))>>)))>>)
      [] s = "scrutinee" ->    \* a case whose scrutinee is a global of a later-declared enum
           TS(<<ShapeD, TokenD>>,
              <<DefV(1, TShape, Var1("Shape", "Circle", I(3))),
                DefV(2, TName("Token"), Var1("Token", "Tok", I(4))),
                DefF(3, "rad", <<>>, TInt, CaseE(V(1), <<CArmB("Circle", 201, <<Ex(V(201))>>)>>, <<Ex(I(0))>>))>>,
              <<Call(V(3), <<>>), V(2)>>,
              <<PL("foreign-arm", 3, DefF(3, "rad", <<>>, TInt, CaseE(V(1), <<CArmB("Tok", 201, <<Ex(V(201))>>)>>, <<Ex(I(0))>>)))>>)

PlantNames(s) == {TypeShape(s).plants[i].name : i \in 1..Len(TypeShape(s).plants)}
TypeCases == {c \in [shape : TypeShapes, use : {"good"} \cup UNION {PlantNames(s) : s \in TypeShapes}] :
                c.use = "good" \/ c.use \in PlantNames(c.shape)}

TypeProg(c) ==
    LET t == TypeShape(c.shape)
        g == IF c.use = "good" THEN t.g
             ELSE LET pl == t.plants[CHOOSE i \in 1..Len(t.plants) : t.plants[i].name = c.use] IN
                  [i \in 1..Len(t.g) |-> IF i = pl.i THEN pl.def ELSE t.g[i]] IN
    [decls |-> t.decls, g |-> g,
     \* a planted program must be rejected because of the DECLARED types alone: its start does not look into the
     \* structure (reading g.b.n of `X { b: 1 }` would reject the program whatever X's declaration says)
     start |-> DefN(StartId, "const", TNone,
                    Fn(<<>>, TVoid, IF c.use = "good" THEN [i \in 1..Len(t.shows) |-> PrintS(t.shows[i])] ELSE <<PrintS(I(0))>>),
                    "start")]

\* what the case has to do: "good" behaves (confluent outcome of the order semantics), a plant is rejected everywhere
IllTyped(c) == c.use # "good"
=============================================================================
