CONSTANT Fault <- MCFault
SPECIFICATION Spec
INVARIANT NoLawViolated
CHECK_DEADLOCK FALSE
