SPECIFICATION Spec
INVARIANTS Sound Tight
CHECK_DEADLOCK FALSE
